import PasslibVerif.Lemmas.C08Families
import PasslibVerif.Model.VerifyFmt.Pbkdf
/-
`C08Facts` for the hashers of Model/VerifyFmt/Pbkdf.lean.  The raw handlers decode salt and checksum inside the parser: the error kinds
of the parser are those of the field decoder (`ab64_decode` raises TypeError on malformed base64 — `[.typeError]` — the `-_` base64 and
hex decoders raise ValueError only).  Every digest of the family is total.
-/
namespace Lemmas.C08FamiliesPbkdf
open Py Model.Handler Model.Formats Model.Verify Model.VerifyFmt.Pbkdf Props.C01 Lemmas.C08Families Lemmas.C08Crypt

theorem optField_err {extra : List ErrKind} (dec : Str → Res Bytes) (hdec : ∀ s e, dec s = .error e → ErrIn extra e) (o : Option Str)
    (e : ErrKind) (h : optField dec o = .error e) : ErrIn extra e := by
  cases o with
  | none => simp [optField] at h
  | some c =>
    simp only [optField] at h
    cases hd : dec c with
    | error e' => rw [hd] at h; simp only [Except.map, Except.error.injEq] at h; rw [← h]; exact hdec c e' hd
    | ok b => rw [hd] at h; simp [Except.map] at h

theorem rawMc3_parseErr {extra : List ErrKind} (sep : Nat) (hex : Bool) (ident : Str) (n : Nat) (dec : Str → Res Bytes)
    (hdec : ∀ s e, dec s = .error e → ErrIn extra e) (hs : Str) (e : ErrKind)
    (he : rawMc3ParseX sep hex ident n dec hs = .error e) : ErrIn extra e := by
  unfold rawMc3ParseX at he
  cases h1 : toRes (parseMc3G sep hex ident hs none) with
  | error e1 =>
    rw [h1] at he; simp only [Except.bind, Except.error.injEq] at he
    rw [← he]; exact Or.inl (toRes_error _ e1 h1)
  | ok t =>
    obtain ⟨rounds, salt, chk⟩ := t
    rw [h1] at he; simp only [Except.bind] at he
    cases h2 : dec salt with
    | error e2 => rw [h2] at he; simp only [Except.error.injEq] at he; rw [← he]; exact hdec salt e2 h2
    | ok saltB =>
      rw [h2] at he; simp only at he
      cases h3 : optField dec chk with
      | error e3 => rw [h3] at he; simp only [Except.error.injEq] at he; rw [← he]; exact optField_err dec hdec chk e3 h3
      | ok chkB =>
        rw [h3] at he; simp only at he
        exact Or.inl (toRes_error _ e he)

theorem ab64Field_err (s : Str) (e : ErrKind) (h : ab64Field s = .error e) : ErrIn [.typeError] e := by
  unfold ab64Field at h
  split at h
  · unfold b64sDecodeL at h
    simp only at h
    split at h
    · cases h; exact Or.inl rfl
    · split at h
      · cases h
      · cases h; exact Or.inr (by simp)
  · cases h; exact Or.inl rfl

theorem toRes_err {α} (extra : List ErrKind) (f : Str → Option α) (s : Str) (e : ErrKind) (h : toRes (f s) = .error e) : ErrIn extra e :=
  Or.inl (toRes_error _ e h)

theorem rawMc3_facts {extra : List ErrKind} (sep : Nat) (hex : Bool) (ident : Str) (n : Nat) (enc : Bytes → Str) (dec : Str → Res Bytes)
    (kdf : Bytes → Bytes → Nat → Bytes) (hdec : ∀ s e, dec s = .error e → ErrIn extra e) :
    C08Facts extra (rawMc3Hasher sep hex ident n enc dec kdf) where
  parseErr := rawMc3_parseErr sep hex ident n dec hdec
  digestErr := fun hs p b e _ he => by cases he
  ignores := fun _ _ _ => rfl

theorem pbkdf2_facts (a : Spec.Formats.HashAlg) (ident : Str) : C08Facts [.typeError] (pbkdf2Hasher a ident) :=
  rawMc3_facts _ _ _ _ _ _ _ ab64Field_err
theorem pbkdf2_sha1_facts : C08Facts [.typeError] pbkdf2_sha1Hasher := pbkdf2_facts _ _
theorem pbkdf2_sha256_facts : C08Facts [.typeError] pbkdf2_sha256Hasher := pbkdf2_facts _ _
theorem pbkdf2_sha512_facts : C08Facts [.typeError] pbkdf2_sha512Hasher := pbkdf2_facts _ _
theorem cta_facts : C08Facts [] ctaHasher := rawMc3_facts _ _ _ _ _ _ _ (toRes_err [] b64AltField)
theorem grub_facts : C08Facts [] grubHasher := rawMc3_facts _ _ _ _ _ _ _ (toRes_err [] unhexField)
theorem atlassian_facts : C08Facts [] atlassianHasher := facts_of_toRes atlassianParse rfl (fun _ _ => ⟨_, rfl⟩) (fun _ _ _ => rfl)
theorem sha1_crypt_facts : C08Facts [] sha1CryptHasher := facts_of_toRes sha1cParse rfl (fun _ _ => ⟨_, rfl⟩) (fun _ _ _ => rfl)
theorem dlitz_facts : C08Facts [] dlitzHasher := facts_of_toRes dlitzParse rfl (fun _ _ => ⟨_, rfl⟩) (fun _ _ _ => rfl)
theorem django_pbkdf2_facts (a : Spec.Formats.HashAlg) (ident : Str) (n : Nat) : C08Facts [] (djangoPbkdf2Hasher a ident n) :=
  facts_of_toRes (djPbkdf2Parse ident n) rfl (fun _ _ => ⟨_, rfl⟩) (fun _ _ _ => rfl)
theorem django_pbkdf2_sha1_facts : C08Facts [] django_pbkdf2_sha1Hasher := django_pbkdf2_facts _ _ _
theorem django_pbkdf2_sha256_facts : C08Facts [] django_pbkdf2_sha256Hasher := django_pbkdf2_facts _ _ _
theorem django_salted_facts (H : Bytes → Bytes) (ident : Str) (n : Nat) : C08Facts [] (djangoSaltedHasher H ident n) :=
  facts_of_toRes (djSaltedParse ident n) rfl (fun _ _ => ⟨_, rfl⟩) (fun _ _ _ => rfl)
theorem django_salted_md5_facts : C08Facts [] django_salted_md5Hasher := django_salted_facts _ _ _
theorem django_salted_sha1_facts : C08Facts [] django_salted_sha1Hasher := django_salted_facts _ _ _

/-- the family's PrefixWrapper `verify` is the generic `unwrapVerify` -/
theorem wrapVerify_eq (pfx orig : Str) (h : Hasher) (s : Secret) (hs : Str) :
    wrapVerify pfx orig h s hs = unwrapVerify (fun x => (stripPrefix pfx x).map (orig ++ ·)) (verify h) s hs := by
  unfold wrapVerify unwrapVerify
  cases hsp : stripPrefix pfx hs <;> simp [hsp]

theorem Wrapped_verify_eq (w : Wrapped) (s : Secret) (hs : Str) :
    w.verify s hs = unwrapVerify (fun x => (stripPrefix w.pfx x).map (w.orig ++ ·)) (verify w.inner) s hs :=
  wrapVerify_eq w.pfx w.orig w.inner s hs

end Lemmas.C08FamiliesPbkdf
