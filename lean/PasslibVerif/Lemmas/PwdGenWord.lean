import PasslibVerif.Lemmas.PwdGen
import PasslibVerif.Props.C06
/- helper lemmas for Props.C06Pwd: `WordGenerator.__init__`, symbol-level surjectivity of `getrandstr`, batches -/
namespace Lemmas.PwdGen
open Py Gen.Rng Model.Rng Model.PwdGen Digits Lemmas.Rng

/-- the chars / charset resolution at the head of `WordGenerator.__init__` (the expression inlined in `wordInit`) -/
def resolveChars (o : WordOpts) : PRes (List Nat × Option CharsetArg) :=
  if charsTruthy o.chars then
    if charsetTruthy o.charset then .error .typeError
    else pure (o.chars.getD [], o.charset)
  else
    let charset : Option CharsetArg := if charsetTruthy o.charset then o.charset else some (.named defaultCharset)
    match charset with
    | some (.named c) => pure (c.chars, charset)
    | _ => .error .keyError

theorem wordTail_eq (minLen : Nat → Nat → Nat) (o : WordOpts) (rc : PRes (List Nat × Option CharsetArg)) :
    (do let (chars, charset) ← rc
        ensureUnique chars
        let st ← seqInit minLen chars.length o.seq
        pure { chars, charset, length := st.length, requestedEntropy := st.requestedEntropy } : PRes WordGen) =
      (match rc with
       | .error e => .error e
       | .ok (chars, charset) =>
         match ensureUnique chars with
         | .error e => .error e
         | .ok _ =>
           match seqInit minLen chars.length o.seq with
           | .error e => .error e
           | .ok st => .ok { chars, charset, length := st.length, requestedEntropy := st.requestedEntropy }) := by
  cases rc with
  | error e => rfl
  | ok v =>
    obtain ⟨chars, charset⟩ := v
    simp only [bind, Except.bind, pure, Except.pure]
    cases ensureUnique chars with
    | error e => rfl
    | ok u =>
      dsimp only
      cases seqInit minLen chars.length o.seq with
      | error e => rfl
      | ok st => rfl

theorem wordInit_eq (minLen : Nat → Nat → Nat) (o : WordOpts) :
    wordInit minLen o =
      (match resolveChars o with
       | .error e => .error e
       | .ok (chars, charset) =>
         match ensureUnique chars with
         | .error e => .error e
         | .ok _ =>
           match seqInit minLen chars.length o.seq with
           | .error e => .error e
           | .ok st => .ok { chars, charset, length := st.length, requestedEntropy := st.requestedEntropy }) :=
  wordTail_eq minLen o (resolveChars o)

theorem charset_chars_ne_nil (c : Charset) : c.chars ≠ [] := by cases c <;> decide

theorem resolveChars_ne_nil {o : WordOpts} {chars : List Nat} {cs : Option CharsetArg} (h : resolveChars o = .ok (chars, cs)) :
    chars ≠ [] := by
  unfold resolveChars at h
  split at h
  · rename_i ht
    split at h
    · cases h
    · simp only [pure, Except.pure, Except.ok.injEq, Prod.mk.injEq] at h
      rw [← h.1]
      cases hc : o.chars with
      | none => rw [hc] at ht; simp [charsTruthy] at ht
      | some l => cases l with
        | nil => rw [hc] at ht; simp [charsTruthy] at ht
        | cons a l => simp
  · dsimp only at h
    split at h
    · simp only [pure, Except.pure, Except.ok.injEq, Prod.mk.injEq] at h
      rw [← h.1]; exact charset_chars_ne_nil _
    · cases h

/-- what a successful `WordGenerator(...)` established -/
theorem wordInit_ok {minLen : Nat → Nat → Nat} {o : WordOpts} {g : WordGen} (h : wordInit minLen o = .ok g) :
    g.chars.Nodup ∧ g.chars ≠ [] ∧
    ∃ st, seqInit minLen g.chars.length o.seq = .ok st ∧ g.length = st.length ∧ g.requestedEntropy = st.requestedEntropy := by
  rw [wordInit_eq] at h
  cases h1 : resolveChars o with
  | error e => rw [h1] at h; cases h
  | ok v =>
    obtain ⟨chars, charset⟩ := v
    rw [h1] at h; dsimp only at h
    cases h2 : ensureUnique chars with
    | error e => rw [h2] at h; cases h
    | ok u =>
      rw [h2] at h; dsimp only at h
      cases h3 : seqInit minLen chars.length o.seq with
      | error e => rw [h3] at h; cases h
      | ok st =>
        rw [h3] at h; dsimp only at h
        simp only [Except.ok.injEq] at h
        subst h
        exact ⟨(ensureUnique_ok_iff chars).1 (by cases u; exact h2), resolveChars_ne_nil h1, st, h3, rfl, rfl⟩

/-! ### symbols -/
theorem getD_idxOf (cs : List Nat) (c : Nat) (h : c ∈ cs) : cs.getD (cs.idxOf c) 0 = c := by
  have hlt : cs.idxOf c < cs.length := List.idxOf_lt_length_of_mem h
  simp only [List.getD, List.getElem?_eq_getElem hlt, Option.getD_some]
  exact List.getElem_idxOf hlt

theorem map_getD_idxOf (cs w : List Nat) (h : ∀ c ∈ w, c ∈ cs) : (w.map (cs.idxOf ·)).map (cs.getD · 0) = w := by
  induction w with
  | nil => rfl
  | cons c w ih =>
    simp only [List.map_cons, List.cons.injEq]
    exact ⟨getD_idxOf cs c (h c (by simp)), ih (fun d hd => h d (by simp [hd]))⟩

/-- every string of `n` symbols of the alphabet is `getrandstr`'s answer to a source value below `N^n` -/
theorem getrandstr_surjective (cs : List Nat) (h2 : 2 ≤ cs.length) (w : List Nat) (hw : ∀ c ∈ w, c ∈ cs) :
    ∃ v, v < grsRange cs.length w.length ∧ getrandstr cs w.length v = .ok w := by
  have hds : ∀ d ∈ w.map (cs.idxOf ·), d < cs.length := by
    intro d hd
    rcases List.mem_map.1 hd with ⟨c, hc, rfl⟩
    exact List.idxOf_lt_length_of_mem (hw c hc)
  obtain ⟨v, hv, hi⟩ := Props.C06.getrandstr_indices_surjective cs.length (by omega) (w.map (cs.idxOf ·)) hds
  rw [List.length_map] at hv hi
  refine ⟨v, hv, ?_⟩
  unfold getrandstr
  have h0 : cs.length ≠ 0 := by omega
  have h1 : cs.length ≠ 1 := by omega
  simp only [h0, h1, if_false, hi, map_getD_idxOf cs w hw]

theorem ofRes_ok_inj {α} {r1 r2 : Res α} {x y : α} (h1 : r1 = .ok x) (h2 : r2 = .ok y) (h : ofRes r1 = ofRes r2) : r1 = r2 := by
  subst h1 h2
  simp only [ofRes, Except.ok.injEq] at h
  rw [h]

/-! ### batches -/
theorem pow_le_pow_of_le {N a b : Nat} (hN : 1 ≤ N) (h : a ≤ b) : N ^ a ≤ N ^ b := Nat.pow_le_pow_right hN h

end Lemmas.PwdGen
