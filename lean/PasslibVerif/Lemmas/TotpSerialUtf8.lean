import PasslibVerif.Model.TotpSerial
/- UTF-8: decoding an encoded string of scalar values gives the string back -/
namespace Lemmas.TotpSerial
open Py Model.Handler Model.TotpSerial

theorem isScalar_iff (c : Nat) : isScalar c = true ↔ (c < 0xD800 ∨ (0xE000 ≤ c ∧ c < 0x110000)) := by
  unfold isScalar; simp

theorem utf8Decode_cons (b0 : Nat) (r : Bytes) : utf8Decode (b0 :: r) =
    if b0 < 0x80 then (utf8Decode r).map (b0 :: ·)
    else if b0 < 0xC2 then none
    else if b0 < 0xE0 then
      match r with
      | b1 :: r1 =>
        if isCont b1 then (utf8Decode r1).map (((b0 - 0xC0) * 64 + (b1 - 0x80)) :: ·) else none
      | _ => none
    else if b0 < 0xF0 then
      match r with
      | b1 :: b2 :: r2 =>
        let c := (b0 - 0xE0) * 4096 + (b1 - 0x80) * 64 + (b2 - 0x80)
        if isCont b1 && isCont b2 && 0x800 ≤ c && !(0xD800 ≤ c && c < 0xE000) then (utf8Decode r2).map (c :: ·) else none
      | _ => none
    else if b0 < 0xF5 then
      match r with
      | b1 :: b2 :: b3 :: r3 =>
        let c := (b0 - 0xF0) * 262144 + (b1 - 0x80) * 4096 + (b2 - 0x80) * 64 + (b3 - 0x80)
        if isCont b1 && isCont b2 && isCont b3 && 0x10000 ≤ c && c < 0x110000 then (utf8Decode r3).map (c :: ·) else none
      | _ => none
    else none := by
  conv => lhs; rw [utf8Decode.eq_def]
  rfl

theorem utf8_cp (c : Nat) (h : isScalar c = true) (r : Bytes) :
    utf8Decode (utf8EncodeCp c ++ r) = (utf8Decode r).map (c :: ·) := by
  rw [isScalar_iff] at h
  unfold utf8EncodeCp
  by_cases h1 : c < 0x80
  · simp only [h1, if_true, List.cons_append, List.nil_append]
    rw [utf8Decode_cons]; simp only [h1, if_true]
  · by_cases h2 : c < 0x800
    · simp only [h1, h2, if_true, if_false, List.cons_append, List.nil_append]
      rw [utf8Decode_cons]
      have a1 : ¬ (0xC0 + c / 64 < 0x80) := by omega
      have a2 : ¬ (0xC0 + c / 64 < 0xC2) := by omega
      have a3 : 0xC0 + c / 64 < 0xE0 := by omega
      have a4 : isCont (0x80 + c % 64) = true := by unfold isCont; simp; omega
      have a5 : (0xC0 + c / 64 - 0xC0) * 64 + (0x80 + c % 64 - 0x80) = c := by omega
      simp only [a1, a2, a3, a4, a5, if_true, if_false]
    · by_cases h3 : c < 0x10000
      · simp only [h1, h2, h3, if_true, if_false, List.cons_append, List.nil_append]
        rw [utf8Decode_cons]
        have a1 : ¬ (0xE0 + c / 4096 < 0x80) := by omega
        have a2 : ¬ (0xE0 + c / 4096 < 0xC2) := by omega
        have a3 : ¬ (0xE0 + c / 4096 < 0xE0) := by omega
        have a3' : 0xE0 + c / 4096 < 0xF0 := by omega
        have a4 : isCont (0x80 + c / 64 % 64) = true := by unfold isCont; simp; omega
        have a4' : isCont (0x80 + c % 64) = true := by unfold isCont; simp; omega
        have a5 : (0xE0 + c / 4096 - 0xE0) * 4096 + (0x80 + c / 64 % 64 - 0x80) * 64 + (0x80 + c % 64 - 0x80) = c := by omega
        have a6 : (decide (0x800 ≤ c)) = true := by simp; omega
        have a7 : (decide (0xD800 ≤ c) && decide (c < 0xE000)) = false := by simp; omega
        simp only [a1, a2, a3, a3', a4, a4', a5, a6, a7, if_true, if_false, Bool.and_self, Bool.not_false]
      · simp only [h1, h2, h3, if_true, if_false, List.cons_append, List.nil_append]
        rw [utf8Decode_cons]
        have a1 : ¬ (0xF0 + c / 262144 < 0x80) := by omega
        have a2 : ¬ (0xF0 + c / 262144 < 0xC2) := by omega
        have a3 : ¬ (0xF0 + c / 262144 < 0xE0) := by omega
        have a3' : ¬ (0xF0 + c / 262144 < 0xF0) := by omega
        have a3'' : 0xF0 + c / 262144 < 0xF5 := by omega
        have a4 : isCont (0x80 + c / 4096 % 64) = true := by unfold isCont; simp; omega
        have a4' : isCont (0x80 + c / 64 % 64) = true := by unfold isCont; simp; omega
        have a4'' : isCont (0x80 + c % 64) = true := by unfold isCont; simp; omega
        have a5 : (0xF0 + c / 262144 - 0xF0) * 262144 + (0x80 + c / 4096 % 64 - 0x80) * 4096 + (0x80 + c / 64 % 64 - 0x80) * 64 + (0x80 + c % 64 - 0x80) = c := by omega
        have a6 : (decide (0x10000 ≤ c)) = true := by simp; omega
        have a7 : (decide (c < 0x110000)) = true := by simp; omega
        simp only [a1, a2, a3, a3', a3'', a4, a4', a4'', a5, a6, a7, if_true, if_false, Bool.and_self]

/-- `bytes(s, "utf-8").decode("utf-8") == s` for every string of scalar values -/
theorem utf8_roundtrip_append : ∀ (s : Str) (r : Bytes), s.all isScalar = true →
    utf8Decode (utf8Encode s ++ r) = (utf8Decode r).map (s ++ ·)
  | [], r, _ => by simp [utf8Encode]
  | c :: s, r, h => by
    simp only [List.all_cons, Bool.and_eq_true] at h
    have ih := utf8_roundtrip_append s r h.2
    simp only [utf8Encode, List.flatMap_cons, List.append_assoc] at ih ⊢
    rw [utf8_cp c h.1, ih]
    cases utf8Decode r <;> simp

theorem utf8_roundtrip (s : Str) (h : s.all isScalar = true) : utf8Decode (utf8Encode s) = some s := by
  have := utf8_roundtrip_append s [] h
  simpa [utf8Decode] using this

/-- every byte of an encoding is a byte; non-ASCII characters give bytes ≥ 0x80 only -/
theorem utf8EncodeCp_lt (c : Nat) (h : isScalar c = true) : ∀ b ∈ utf8EncodeCp c, b < 256 := by
  rw [isScalar_iff] at h
  intro b hb
  unfold utf8EncodeCp at hb
  split at hb
  · simp at hb; omega
  · split at hb
    · simp at hb; omega
    · split at hb
      · simp at hb; omega
      · simp at hb; omega

theorem utf8Encode_wf (s : Str) (h : s.all isScalar = true) : Bytes.WF (utf8Encode s) := by
  intro b hb
  unfold utf8Encode at hb
  rcases List.mem_flatMap.1 hb with ⟨c, hc, hbc⟩
  exact utf8EncodeCp_lt c (List.all_eq_true.1 h c hc) b hbc

end Lemmas.TotpSerial
