import PasslibVerif.Gen.Md4
import PasslibVerif.Spec.MD4
/-
MD4: the three reflected round tables of passlib are the tables of RFC 1320 §3.4.
-/
namespace Lemmas.Md4
open Gen.Md4

/-- register roles of operation number `i` of a round: `[abcd] [dabc] [cdab] [bcda]` repeating,
    written as indices into `[a, b, c, d]` -/
def rfcRoles (i : Nat) : List Nat := [(4 - i % 4) % 4, (5 - i % 4) % 4, (6 - i % 4) % 4, (7 - i % 4) % 4]

/-- round 1 reads X in order: k = i -/
def rfcK1 (i : Nat) : Nat := i
/-- round 2 reads X column-wise: 0 4 8 12 1 5 9 13 … -/
def rfcK2 (i : Nat) : Nat := 4 * (i % 4) + i / 4
/-- round 3 reads X in bit-reversed order: 0 8 4 12 2 10 6 14 1 9 5 13 3 11 7 15 -/
def rfcK3 (i : Nat) : Nat := 8 * (i % 2) + 4 * (i / 2 % 2) + 2 * (i / 4 % 2) + i / 8 % 2

/-- the 16 operations `[abcd k s]` of one round -/
def rfcRound (k : Nat → Nat) (shifts : List Nat) : List (List Nat) :=
  (List.range 16).map fun i => rfcRoles i ++ [k i, shifts.getD (i % 4) 0]

/-- (a) the reflected tables are the RFC 1320 rounds -/
theorem md4_tables_eq_rfc1320 :
    round1 = rfcRound rfcK1 [3, 7, 11, 19] ∧
    round2 = rfcRound rfcK2 [3, 5, 9, 13] ∧
    round3 = rfcRound rfcK3 [3, 9, 11, 15] := by decide

/-- the RFC's k orders, spelled out (sanity check of `rfcK2`/`rfcK3`) -/
theorem rfcK_orders :
    (List.range 16).map rfcK2 = [0, 4, 8, 12, 1, 5, 9, 13, 2, 6, 10, 14, 3, 7, 11, 15] ∧
    (List.range 16).map rfcK3 = [0, 8, 4, 12, 2, 10, 6, 14, 1, 9, 5, 13, 3, 11, 7, 15] := by decide

/-- all 48 rows in order of execution -/
def allRows : List (List Nat) := round1 ++ round2 ++ round3

/-- row `i` of passlib = operation `i` of the executable RFC transcription `Spec.MD4`
    (its `kTab`, `sTab` and the role rotation of `Spec.MD4.step`) -/
theorem rows_spec : ∀ i, i < 48 →
    allRows.getD i [] = rfcRoles i ++ [Spec.MD4.kTab[i]!, Spec.MD4.sTab[i]!.toNat] ∧
    0 < Spec.MD4.sTab[i]!.toNat ∧ Spec.MD4.sTab[i]!.toNat < 32 := by decide

theorem round1_rows : round1 = (List.range' 0 16).map fun i => allRows.getD i [] := by decide
theorem round2_rows : round2 = (List.range' 16 16).map fun i => allRows.getD i [] := by decide
theorem round3_rows : round3 = (List.range' 32 16).map fun i => allRows.getD i [] := by decide

theorem initState_eq_spec : initState = Spec.MD4.init.toList.map UInt32.toNat := by decide

theorem consts_eq_rfc1320 : K2 = 0x5A827999 ∧ K3 = 0x6ED9EBA1 ∧ MASK_32 = 2 ^ 32 - 1 := by decide

end Lemmas.Md4
