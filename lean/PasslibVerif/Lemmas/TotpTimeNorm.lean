import PasslibVerif.Lemmas.TotpTimeMono
import PasslibVerif.Lemmas.Totp
/-
`calendar.timegm`, `datetime.utctimetuple` and `TOTP.normalize_time` against the denoted instant.
-/
namespace Lemmas.TotpTimeNorm
open Py Model.TotpTime Lemmas.TotpTimeCal Lemmas.TotpTimeOrd Lemmas.TotpTimeMono

/-- `calendar.timegm` = 86400 · (days since the epoch) + seconds of the day (day, hour, minute, second unchecked) -/
theorem timegmRaw_eq (y mo d h mi s : Int) :
    timegmRaw y mo d h mi s = daysFromCivil y mo d * 86400 + h * 3600 + mi * 60 + s := by
  simp only [timegmRaw, daysFromCivil, ymdToOrd]; omega

theorem timegm_of_valid (y mo d h mi s : Int) (hy : MINYEAR ≤ y ∧ y ≤ MAXYEAR ∧ 1 ≤ mo ∧ mo ≤ 12) :
    timegm y mo d h mi s = .ok (timegmRaw y mo d h mi s) := by
  unfold timegm; rw [if_pos hy]

theorem civilFromDays_daysFromCivil (y m d : Int) (hm : 1 ≤ m) (hm' : m ≤ 12) (hd : 1 ≤ d) (hd' : d ≤ daysInMonth y m) :
    civilFromDays (daysFromCivil y m d) = (y, m, d) := by
  unfold civilFromDays daysFromCivil
  rw [show ymdToOrd y m d - EPOCH_ORD + EPOCH_ORD = ymdToOrd y m d by omega]
  exact ordToYmd_ymdToOrd y m d hm hm' hd hd'

theorem daysFromCivil_civilFromDays (n : Int) :
    daysFromCivil (civilFromDays n).1 (civilFromDays n).2.1 (civilFromDays n).2.2 = n := by
  unfold civilFromDays daysFromCivil
  rw [(ymdToOrd_ordToYmd (n + EPOCH_ORD)).2.2.2.2]; omega

/-- day numbers −719162 … 2932896 are the dates of the years 1 … 9999 -/
theorem valid_civilFromDays (n : Int) (h1 : -719162 ≤ n) (h2 : n ≤ 2932896) :
    ValidDate (civilFromDays n).1 (civilFromDays n).2.1 (civilFromDays n).2.2 := by
  unfold civilFromDays
  exact year_range_of_ord (n + EPOCH_ORD) (by unfold EPOCH_ORD; omega) (by unfold EPOCH_ORD MAXORDINAL; omega)

theorem days_range_of_valid (y m d : Int) (h : ValidDate y m d) :
    -719162 ≤ daysFromCivil y m d ∧ daysFromCivil y m d ≤ 2932896 := by
  have := ord_range_of_valid y m d h
  unfold daysFromCivil EPOCH_ORD; unfold MAXORDINAL at this; omega

/-- `timegm ∘ fieldsOfEpoch = id` on the seconds a datetime can denote -/
theorem timegm_fieldsOfEpoch (t : Int) (h1 : EPOCH_MIN ≤ t) (h2 : t ≤ EPOCH_MAX) :
    timegm (fieldsOfEpoch t).1 (fieldsOfEpoch t).2.1 (fieldsOfEpoch t).2.2.1 (fieldsOfEpoch t).2.2.2.1
      (fieldsOfEpoch t).2.2.2.2.1 (fieldsOfEpoch t).2.2.2.2.2 = .ok t := by
  unfold EPOCH_MIN at h1; unfold EPOCH_MAX at h2
  have hv := valid_civilFromDays (t / 86400) (by omega) (by omega)
  have hd := daysFromCivil_civilFromDays (t / 86400)
  simp only [fieldsOfEpoch]
  rw [timegm_of_valid _ _ _ _ _ _ ⟨hv.1, hv.2.1, hv.2.2.1, hv.2.2.2.1⟩, timegmRaw_eq, hd]
  congr 1
  omega

/-- `fieldsOfEpoch ∘ timegm = id` on valid field tuples -/
theorem fieldsOfEpoch_timegmRaw (y mo d h mi s : Int) (hv : ValidDate y mo d)
    (hh : 0 ≤ h) (hh' : h < 24) (hmi : 0 ≤ mi) (hmi' : mi < 60) (hs : 0 ≤ s) (hs' : s < 60) :
    fieldsOfEpoch (timegmRaw y mo d h mi s) = (y, mo, d, h, mi, s) := by
  rw [timegmRaw_eq]
  generalize hD : daysFromCivil y mo d = D
  have e1 : (D * 86400 + h * 3600 + mi * 60 + s) / 86400 = D := by omega
  have e2 : (D * 86400 + h * 3600 + mi * 60 + s) % 86400 = h * 3600 + mi * 60 + s := by omega
  simp only [fieldsOfEpoch, e1, e2]
  rw [← hD, civilFromDays_daysFromCivil y mo d hv.2.2.1 hv.2.2.2.1 hv.2.2.2.2.1 hv.2.2.2.2.2]
  simp only [Prod.mk.injEq, true_and]
  omega

/-! ### date-times -/

/-- the wall clock of a well-formed naive / UTC date-time -/
theorem timegm_fields_of_wf (dt : DateTime) (h : dt.WF) :
    timegm dt.year dt.month dt.day dt.hour dt.minute dt.second =
      .ok (daysFromCivil dt.year dt.month dt.day * 86400 + dt.hour * 3600 + dt.minute * 60 + dt.second) := by
  obtain ⟨hv, _⟩ := h
  rw [timegm_of_valid _ _ _ _ _ _ ⟨hv.1, hv.2.1, hv.2.2.1, hv.2.2.2.1⟩, timegmRaw_eq]

/-- `datetime.__add__` as a function of the total number of microseconds since ordinal 0 -/
def fieldsOfTotal (T : Int) : TRes (Int × Int × Int × Int × Int × Int) :=
  let days := T / DAY_US
  let seconds := T % DAY_US / US
  let hour := seconds / 3600
  let rem := seconds % 3600
  if 0 < days ∧ days ≤ MAXORDINAL then
    let ymd := ordToYmd days
    .ok (ymd.1, ymd.2.1, ymd.2.2, hour, rem / 60, rem % 60)
  else .error .overflowError

theorem subOffset_eq (dt : DateTime) (off : Int) :
    subOffset dt off = fieldsOfTotal
      (((ymdToOrd dt.year dt.month dt.day * 86400 + dt.hour * 3600 + dt.minute * 60 + dt.second) * US + dt.micro) - off) := rfl

/-- shifting ordinal 0 to the epoch -/
def EPOCH_US : Int := 719163 * 86400 * 1000000

theorem fieldsOfTotal_timegm (T : Int) :
    (match fieldsOfTotal T with
      | .error e => (.error e : TRes Int)
      | .ok (y, mo, d, h, mi, s) => timegm y mo d h mi s) =
    (if EPOCH_MIN ≤ (T - EPOCH_US) / US ∧ (T - EPOCH_US) / US ≤ EPOCH_MAX then .ok ((T - EPOCH_US) / US)
     else .error .overflowError) := by
  unfold fieldsOfTotal
  have d1 : T / DAY_US = T / 86400000000 := rfl
  have d2 : T % DAY_US / US = T % 86400000000 / 1000000 := rfl
  have d3 : (T - EPOCH_US) / US = (T - 62135683200000000) / 1000000 := rfl
  generalize T / DAY_US = days at d1 ⊢
  generalize T % DAY_US / US = secs at d2 ⊢
  generalize (T - EPOCH_US) / US = S at d3 ⊢
  have hS : S = (days - 719163) * 86400 + secs := by omega
  have hsec : 0 ≤ secs ∧ secs < 86400 := by omega
  by_cases hin : 0 < days ∧ days ≤ MAXORDINAL
  · rw [if_pos hin]
    have hin' : EPOCH_MIN ≤ S ∧ S ≤ EPOCH_MAX := by
      unfold MAXORDINAL at hin; unfold EPOCH_MIN EPOCH_MAX; omega
    rw [if_pos hin']
    have hv' := year_range_of_ord days (by omega) hin.2
    have hord := (ymdToOrd_ordToYmd days).2.2.2.2
    simp only []
    rw [timegm_of_valid _ _ _ _ _ _ ⟨hv'.1, hv'.2.1, hv'.2.2.1, hv'.2.2.2.1⟩, timegmRaw_eq]
    unfold daysFromCivil
    rw [hord]
    congr 1
    simp only [EPOCH_ORD]
    omega
  · rw [if_neg hin]
    have hin' : ¬ (EPOCH_MIN ≤ S ∧ S ≤ EPOCH_MAX) := by
      unfold MAXORDINAL at hin; unfold EPOCH_MIN EPOCH_MAX; omega
    rw [if_neg hin']

/-- `self - offset` followed by `timegm`: the floor second of the instant, or OverflowError outside 0001-01-01 … 9999-12-31 UTC -/
theorem subOffset_timegm (dt : DateTime) (off : Int) (ho : dt.offset = some off) :
    (match subOffset dt off with
      | .error e => (.error e : TRes Int)
      | .ok (y, mo, d, h, mi, s) => timegm y mo d h mi s) =
    (if EPOCH_MIN ≤ instantSec dt ∧ instantSec dt ≤ EPOCH_MAX then .ok (instantSec dt) else .error .overflowError) := by
  rw [subOffset_eq, fieldsOfTotal_timegm]
  have e : ((ymdToOrd dt.year dt.month dt.day * 86400 + dt.hour * 3600 + dt.minute * 60 + dt.second) * US + dt.micro) - off - EPOCH_US
      = instantUs dt := by
    simp only [instantUs, ho, daysFromCivil, US, EPOCH_US, EPOCH_ORD]; omega
  rw [e]; rfl

/-- the wall clock of a naive / UTC date-time is its instant, and it is always in range -/
theorem instantSec_of_utc (dt : DateTime) (h : dt.WF) (ho : dt.offset = none ∨ dt.offset = some 0) :
    instantSec dt = daysFromCivil dt.year dt.month dt.day * 86400 + dt.hour * 3600 + dt.minute * 60 + dt.second := by
  obtain ⟨hv, h0, h1, h2, h3, h4, h5, h6, h7, _⟩ := h
  unfold US at h7
  rcases ho with ho | ho <;> simp only [instantSec, instantUs, ho, US] <;> omega

/-- `TOTP.normalize_time` of a date-time: the floor second of the denoted instant, or OverflowError when the UTC view
    leaves 0001-01-01 … 9999-12-31 -/
theorem normalizeTime_datetime (now : PyFloat) (dt : DateTime) (h : dt.WF) :
    normalizeTime now (.datetime dt) =
      (if EPOCH_MIN ≤ instantSec dt ∧ instantSec dt ≤ EPOCH_MAX then .ok (instantSec dt) else .error .overflowError) := by
  have hutc : (dt.offset = none ∨ dt.offset = some 0) →
      timegm dt.year dt.month dt.day dt.hour dt.minute dt.second =
        (if EPOCH_MIN ≤ instantSec dt ∧ instantSec dt ≤ EPOCH_MAX then .ok (instantSec dt) else .error .overflowError) := by
    intro ho
    rw [timegm_fields_of_wf dt h, instantSec_of_utc dt h ho]
    have hr := days_range_of_valid _ _ _ h.1
    obtain ⟨_, h0, h1, h2, h3, h4, h5, _⟩ := h
    rw [if_pos (by unfold EPOCH_MIN EPOCH_MAX; omega)]
  rcases hcase : dt.offset with _ | off
  · have e : utcTimeTuple dt = .ok (dt.year, dt.month, dt.day, dt.hour, dt.minute, dt.second) := by
      unfold utcTimeTuple; rw [hcase]
    simp only [normalizeTime, e]; exact hutc (Or.inl hcase)
  · by_cases h0 : off = 0
    · have e : utcTimeTuple dt = .ok (dt.year, dt.month, dt.day, dt.hour, dt.minute, dt.second) := by
        unfold utcTimeTuple; rw [hcase]; simp only [h0, if_true]
      simp only [normalizeTime, e]; exact hutc (Or.inr (by rw [hcase, h0]))
    · have e : utcTimeTuple dt = subOffset dt off := by
        unfold utcTimeTuple; rw [hcase]; simp only [h0, if_false]
      simp only [normalizeTime, e]; exact subOffset_timegm dt off hcase

end Lemmas.TotpTimeNorm
