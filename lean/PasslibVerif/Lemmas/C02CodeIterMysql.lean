import PasslibVerif.Lemmas.C02CodeIterBase
import PasslibVerif.Lemmas.C02Formats
/-
C02, group `Iter`, part 2: `mysql323._calc_checksum` — the masked Python-int loop against the 32-bit `ulong` arithmetic of
MySQL's `hash_password`.  The code masks `add` (the C code lets it wrap in the register), does not mask `nr2 << 8` before the
XOR, and XORs `nr1` with an already masked term; the invariant below says that none of this is visible in the low 32 bits.
-/
namespace Lemmas.C02CodeIter
open Py Model.Code.Iter
open Spec.Formats (mysql323Step)

theorem mask32 (x : Nat) : x &&& MASK_32 = x % 2 ^ 32 := Nat.and_two_pow_sub_one_eq_mod x 32
theorem mask31 (x : Nat) : x &&& MASK_31 = x % 2 ^ 31 := Nat.and_two_pow_sub_one_eq_mod x 31

/-- the code's state against the specification's state: same `nr`, `nr2` (32-bit values), `add` agrees modulo 2^32 -/
def MyInv (cs ss : Nat × Nat × Nat) : Prop :=
  cs.1 = ss.1 ∧ cs.2.1 = ss.2.1 ∧ cs.2.2 = ss.2.2 % 2 ^ 32 ∧ ss.1 < 2 ^ 32 ∧ ss.2.1 < 2 ^ 32

theorem mod_lin (a b c d m : Nat) : ((a + b % m) * c + d) % m = ((a + b) * c + d) % m := by
  have h1 : (a + b % m) % m = (a + b) % m := by rw [Nat.add_mod, Nat.mod_mod, ← Nat.add_mod]
  calc ((a + b % m) * c + d) % m = (((a + b % m) % m * (c % m)) % m + d % m) % m := by rw [Nat.add_mod, Nat.mul_mod]
    _ = (((a + b) % m * (c % m)) % m + d % m) % m := by rw [h1]
    _ = ((a + b) * c + d) % m := by rw [← Nat.mul_mod, ← Nat.add_mod]

theorem white_iff (c : Nat) : c ∈ WHITE ↔ (c = 32 ∨ c = 9) := by simp [WHITE]

theorem mysql323_step (cs ss : Nat × Nat × Nat) (c : Nat) (h : MyInv cs ss) : MyInv (mysql323Body cs c) (mysql323Step ss c) := by
  obtain ⟨nr, nr2, add⟩ := cs
  obtain ⟨snr, snr2, sadd⟩ := ss
  obtain ⟨h1, h2, h3, h4, h5⟩ := h
  simp only at h1 h2 h3 h4 h5
  subst h1 h2 h3
  unfold mysql323Body mysql323Step
  by_cases hw : c = 32 ∨ c = 9
  · have hw' : c ∈ WHITE := (white_iff c).2 hw
    simp only [hw, hw', if_true]
    exact ⟨rfl, rfl, rfl, h4, h5⟩
  · have hw' : ¬ c ∈ WHITE := fun x => hw ((white_iff c).1 x)
    simp only [hw, hw', if_false]
    -- the new nr
    have e63 : nr &&& 63 = nr % 64 := Bits.and63 nr
    have hx : (((nr % 64 + sadd % 2 ^ 32) * c + nr <<< 8) % 2 ^ 32) = (((nr % 64 + sadd) * c + nr * 256) % 2 ^ 32) := by
      rw [Nat.shiftLeft_eq]; exact mod_lin _ _ _ _ _
    have hnr : nr ^^^ (((nr &&& 63) + sadd % 2 ^ 32) * c + nr <<< 8 &&& MASK_32)
        = (nr ^^^ ((nr % 64 + sadd) * c + nr * 256)) % 2 ^ 32 := by
      rw [mask32, e63, hx, Nat.xor_mod_two_pow, Nat.mod_eq_of_lt h4]
    rw [hnr]
    generalize hN : (nr ^^^ ((nr % 64 + sadd) * c + nr * 256)) % 2 ^ 32 = N
    have hNlt : N < 2 ^ 32 := by rw [← hN]; exact Nat.mod_lt _ (by decide)
    -- the new nr2
    have hnr2 : (nr2 + (nr2 <<< 8 ^^^ N)) &&& MASK_32 = (nr2 + (nr2 * 256 % 2 ^ 32 ^^^ N)) % 2 ^ 32 := by
      rw [mask32, Nat.shiftLeft_eq, Nat.add_mod nr2 (nr2 * 2 ^ 8 ^^^ N), Nat.add_mod nr2 (nr2 * 256 % 2 ^ 32 ^^^ N)]
      congr 2
      rw [Nat.xor_mod_two_pow, Nat.xor_mod_two_pow, Nat.mod_mod]
    refine ⟨rfl, hnr2, ?_, hNlt, Nat.mod_lt _ (by decide)⟩
    show (sadd % 2 ^ 32 + c) &&& MASK_32 = (sadd + c) % 2 ^ 32
    rw [mask32]; omega

theorem mysql323_fold (l : Bytes) : ∀ (cs ss : Nat × Nat × Nat), MyInv cs ss →
    MyInv (l.foldl mysql323Body cs) (l.foldl mysql323Step ss) := by
  induction l with
  | nil => intro cs ss h; exact h
  | cons c rest ih => intro cs ss h; exact ih _ _ (mysql323_step cs ss c h)

theorem mysql323_init : MyInv (0x50305735, 0x12345671, 7) (1345345333, 0x12345671, 7) := by
  refine ⟨by decide, rfl, by decide, by decide, by decide⟩

/-- the checksum the loop and the two `:08x` fields produce, for every byte string -/
theorem mysql323_bytes (b : Bytes) :
    (let st := b.foldl mysql323Body (0x50305735, 0x12345671, 7)
     fmtHex08 (st.1 &&& MASK_31) ++ fmtHex08 (st.2.1 &&& MASK_31)) = Spec.Formats.mysql323 b := by
  have h := mysql323_fold b _ _ mysql323_init
  unfold Spec.Formats.mysql323
  generalize b.foldl mysql323Body (0x50305735, 0x12345671, 7) = cs at h ⊢
  generalize b.foldl mysql323Step (1345345333, 0x12345671, 7) = ss at h ⊢
  obtain ⟨nr, nr2, add⟩ := cs
  obtain ⟨snr, snr2, sadd⟩ := ss
  obtain ⟨h1, h2, -, -, -⟩ := h
  simp only at h1 h2
  subst h1 h2
  simp only [mask31]
  rw [fmtHex08_eq _ (by have := Nat.mod_lt nr (show 0 < 2 ^ 31 by decide); omega),
    fmtHex08_eq _ (by have := Nat.mod_lt nr2 (show 0 < 2 ^ 31 by decide); omega),
    ← Lemmas.C02Formats.hexLower_append]

end Lemmas.C02CodeIter
