import PasslibVerif.Lemmas.C08FamiliesPbkdf
import PasslibVerif.Lemmas.C08FamiliesDesBcrypt
import PasslibVerif.Lemmas.C08FamiliesStatic
import PasslibVerif.Props.C08Crypt
import PasslibVerif.Model.VerifyFmt.Wrap
/-
C08 for the PrefixWrapper instances of Model/VerifyFmt/Wrap.lean: `Inst.wVerify` (= `wrapVerifyWith pfx orig inner.verify`) IS the generic
`unwrapVerify` of Lemmas/C08Families.lean, so every `.ofHasher` instance inherits the set from the `C08Facts` of the wrapped hasher;
`C08Facts` for the four crypt hashers of Model/VerifyCrypt.lean (md5_crypt / apr_md5_crypt / sha256_crypt / sha512_crypt), which the wrappers
ldap_md5_crypt / ldap_sha256_crypt / ldap_sha512_crypt need; plaintext's own `verify`.
-/
namespace Lemmas.C08FamiliesWrap
open Py Model.Handler Model.Formats Model.Verify Model.VerifyFmt.Wrap Model.VerifyCrypt Model.ShaCrypt Props.C01 Lemmas.C08Families Lemmas.C08Crypt

/-- the unwrap function of a PrefixWrapper: strip `pfx`, restore `orig` -/
def unwrapOf (pfx orig : Str) (hs : Str) : Option Str := (stripPrefix pfx hs).map (orig ++ ·)

theorem wrapVerifyWith_eq (pfx orig : Str) (inner : Secret → Str → Res Bool) (s : Secret) (hs : Str) :
    wrapVerifyWith pfx orig inner s hs = unwrapVerify (unwrapOf pfx orig) inner s hs := by
  unfold wrapVerifyWith unwrapVerify unwrapStr unwrapOf
  cases hsp : stripPrefix pfx hs <;> simp

theorem Inst_wVerify_eq (i : Inst) (s : Secret) (hs : Str) :
    i.wVerify s hs = unwrapVerify (unwrapOf i.pfx i.orig) i.verify s hs := wrapVerifyWith_eq i.pfx i.orig i.verify s hs

theorem wVerify_of_unwrap (i : Inst) (s : Secret) (hs u : Str) (hu : unwrapOf i.pfx i.orig hs = some u) : i.wVerify s hs = i.verify s u := by
  rw [Inst_wVerify_eq]; unfold unwrapVerify; rw [hu]

theorem wVerify_no_prefix (i : Inst) (s : Secret) (hs : Str) (hu : unwrapOf i.pfx i.orig hs = none) : i.wVerify s hs = .error .valueError := by
  rw [Inst_wVerify_eq]; exact unwrap_no_prefix _ _ s hs hu

/-! ### the crypt hashers -/
theorem md5_crypt_facts (apr : Bool) : C08Facts [] (md5Hasher apr) where
  parseErr := fun hs e he => Or.inl (toRes_error _ e he)
  digestErr := fun hs p b e _ he => by
    have h2 : rawMd5 Spec.MD5.md5 apr b (p.salt.getD []) = .error e := he
    rw [Props.C02.md5_crypt_eq_spec apr b (p.salt.getD [])] at h2; cases h2
  ignores := fun _ _ _ => rfl

theorem sha256_crypt_facts : C08Facts [] sha256Hasher where
  parseErr := fun hs e he => Or.inl (toRes_error _ e he)
  digestErr := fun hs p b e hp he => by
    obtain ⟨salt, hsalt, hlen⟩ := sha2_parse_salt _ _ hs p (toRes_ok _ p hp)
    have h2 : rawSha256 Spec.SHA256.sha256 b (p.salt.getD []) (p.rounds.getD 0).toNat = .error e := he
    rw [hsalt] at h2
    rw [show (some salt).getD [] = salt from rfl, Props.C02.sha256_crypt_eq_spec b salt _ (by omega)] at h2; cases h2
  ignores := fun _ _ _ => rfl

theorem sha512_crypt_facts : C08Facts [] sha512Hasher where
  parseErr := fun hs e he => Or.inl (toRes_error _ e he)
  digestErr := fun hs p b e hp he => by
    obtain ⟨salt, hsalt, hlen⟩ := sha2_parse_salt _ _ hs p (toRes_ok _ p hp)
    have h2 : rawSha512 Spec.SHA512.sha512 b (p.salt.getD []) (p.rounds.getD 0).toNat = .error e := he
    rw [hsalt] at h2
    rw [show (some salt).getD [] = salt from rfl, Props.C02.sha512_crypt_eq_spec b salt _ (by omega)] at h2; cases h2
  ignores := fun _ _ _ => rfl

/-! ### plaintext: `verify(secret, hash) = consteq(hash(secret), hash)` — the stored string IS the secret; no parser, no checksum -/

theorem plaintextVerify_total (s : Secret) (hs : Str) : Total [] false (plaintextVerify s hs) := by
  unfold plaintextVerify plaintextHash Total
  cases hv : validateSecret s with
  | error e =>
    unfold validateSecret at hv
    by_cases hl : s.len > MAX_PASSWORD_SIZE
    · simp [hl] at hv; right; right; left; simp only; rw [← hv]
    · simp [hl] at hv
  | ok u =>
    simp only
    cases hn : nativeStr s with
    | error e =>
      simp only; right; left
      unfold nativeStr at hn
      cases s with
      | text cps => simp at hn
      | bytes b => simp only at hn; split at hn <;> simp at hn; rw [← hn]
    | ok c =>
      simp only
      unfold consteqStr
      split
      · left; exact ⟨_, rfl⟩
      · right; left; rfl

/-- a stored string with another UTF-8 encoding is rejected for a secret the original accepts; there is no re-encoding of the stored
    string that is accepted besides itself (`plaintextVerify_accepts_iff` below) -/
theorem plaintextVerify_altered_rejected (s : Secret) (hs hs' : Str) (y : Bytes) (hy : utf8 hs' = some y) (hne : utf8 hs' ≠ utf8 hs)
    (hv : plaintextVerify s hs = .ok true) : plaintextVerify s hs' = .ok false := by
  unfold plaintextVerify at hv ⊢
  cases hh : plaintextHash s {} with
  | error e => simp [hh] at hv
  | ok c =>
    simp only [hh] at hv ⊢
    unfold consteqStr at hv ⊢
    cases hc : utf8 c with
    | none => simp [hc] at hv
    | some x =>
      cases hx : utf8 hs with
      | none => simp [hc, hx] at hv
      | some x' =>
        simp only [hc, hx, Except.ok.injEq, beq_iff_eq] at hv
        subst hv
        simp only [hy]
        have : ¬ x = y := by intro e; subst e; exact hne (by rw [hy, hx])
        simp [this]

theorem plaintextVerify_same_encoding (s : Secret) (h1 h2 : Str) (he : utf8 h1 = utf8 h2) :
    plaintextVerify s h1 = plaintextVerify s h2 := by
  unfold plaintextVerify
  cases plaintextHash s {} with
  | error e => rfl
  | ok c => simp only; unfold consteqStr; rw [he]

end Lemmas.C08FamiliesWrap
