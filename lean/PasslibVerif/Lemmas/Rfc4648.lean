import PasslibVerif.Py.Basic
import PasslibVerif.Spec.Rfc4648
/- inverse laws of the RFC 4648 base32 transcription (heavier `omega` goals, kept apart) -/
namespace Lemmas.Rfc4648
open Py Spec.Rfc4648

set_option maxHeartbeats 1000000 in
theorem ungroups32_groups32 : ∀ bs : Bytes, Bytes.WF bs → ungroups32 (groups32 bs) = some bs
  | [], _ => rfl
  | [x1], h => by
    have h1 : x1 < 256 := h x1 (by simp)
    simp only [groups32, ungroups32, Option.some.injEq, List.cons.injEq, and_true]; omega
  | [x1, x2], h => by
    have h1 : x1 < 256 := h x1 (by simp)
    have h2 : x2 < 256 := h x2 (by simp)
    simp only [groups32, ungroups32, Option.some.injEq, List.cons.injEq, and_true]
    refine ⟨?_, ?_⟩ <;> omega
  | [x1, x2, x3], h => by
    have h1 : x1 < 256 := h x1 (by simp)
    have h2 : x2 < 256 := h x2 (by simp)
    have h3 : x3 < 256 := h x3 (by simp)
    simp only [groups32, ungroups32, Option.some.injEq, List.cons.injEq, and_true]
    refine ⟨?_, ?_, ?_⟩ <;> omega
  | [x1, x2, x3, x4], h => by
    have h1 : x1 < 256 := h x1 (by simp)
    have h2 : x2 < 256 := h x2 (by simp)
    have h3 : x3 < 256 := h x3 (by simp)
    have h4 : x4 < 256 := h x4 (by simp)
    simp only [groups32, ungroups32, Option.some.injEq, List.cons.injEq, and_true]
    refine ⟨?_, ?_, ?_, ?_⟩ <;> omega
  | x1 :: x2 :: x3 :: x4 :: x5 :: rest, h => by
    have h1 : x1 < 256 := h x1 (by simp)
    have h2 : x2 < 256 := h x2 (by simp)
    have h3 : x3 < 256 := h x3 (by simp)
    have h4 : x4 < 256 := h x4 (by simp)
    have h5 : x5 < 256 := h x5 (by simp)
    have ih := ungroups32_groups32 rest (fun b hb => h b (by simp [hb]))
    simp only [groups32, List.cons_append, List.nil_append, ungroups32, ih, Option.map_some, Option.some.injEq,
      List.cons.injEq, and_true]
    refine ⟨?_, ?_, ?_, ?_, ?_⟩ <;> omega

theorem groups32_lt32 : ∀ bs : Bytes, ∀ v ∈ groups32 bs, v < 32
  | [], v, h => by simp [groups32] at h
  | [x1], v, h => by
    simp only [groups32, List.mem_cons, List.not_mem_nil, or_false] at h
    rcases h with h | h <;> subst h <;> omega
  | [x1, x2], v, h => by
    simp only [groups32, List.mem_cons, List.not_mem_nil, or_false] at h
    rcases h with h | h | h | h <;> subst h <;> omega
  | [x1, x2, x3], v, h => by
    simp only [groups32, List.mem_cons, List.not_mem_nil, or_false] at h
    rcases h with h | h | h | h | h <;> subst h <;> omega
  | [x1, x2, x3, x4], v, h => by
    simp only [groups32, List.mem_cons, List.not_mem_nil, or_false] at h
    rcases h with h | h | h | h | h | h | h <;> subst h <;> omega
  | x1 :: x2 :: x3 :: x4 :: x5 :: rest, v, h => by
    simp only [groups32, List.cons_append, List.nil_append, List.mem_cons] at h
    rcases h with h | h | h | h | h | h | h | h | h
    all_goals first | exact groups32_lt32 rest v h | (subst h; omega)

/-- number of base32 characters: 8 per 5 bytes, tails 1,2,3,4 -> 2,4,5,7 -/
theorem groups32_length : ∀ bs : Bytes, (groups32 bs).length = (8 * bs.length + 4) / 5
  | [] => rfl
  | [_] => by simp [groups32]
  | [_, _] => by simp [groups32]
  | [_, _, _] => by simp [groups32]
  | [_, _, _, _] => by simp [groups32]
  | _ :: _ :: _ :: _ :: _ :: rest => by
    simp only [groups32, List.cons_append, List.nil_append, List.length_cons, groups32_length rest]; omega

end Lemmas.Rfc4648
