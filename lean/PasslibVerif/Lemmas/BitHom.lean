import PasslibVerif.Spec.Des
/-
The FIPS-style bit selection `Spec.Des.perm` commutes with xor and and (it is also OR-linear,
see Props/DesTables.lean), and its result fits in `T.length` bits.
-/
namespace BitHom
open Spec.Des

theorem testBit_of_lt {x n i : Nat} (h : x < 2^n) (hi : n ≤ i) : x.testBit i = false :=
  Nat.testBit_lt_two_pow (Nat.lt_of_lt_of_le h (Nat.pow_le_pow_right (by decide) hi))

/-- gluing a high part and a low part commutes with xor -/
theorem glue_xor (n a b g1 g2 : Nat) (h1 : g1 < 2^n) (h2 : g2 < 2^n) :
    ((a ^^^ b) <<< n) ||| (g1 ^^^ g2) = ((a <<< n) ||| g1) ^^^ ((b <<< n) ||| g2) := by
  apply Nat.eq_of_testBit_eq; intro i
  simp only [Nat.testBit_or, Nat.testBit_xor, Nat.testBit_shiftLeft]
  by_cases hi : n ≤ i
  · simp [hi, testBit_of_lt h1 hi, testBit_of_lt h2 hi]
  · simp [hi]

theorem glue_and (n a b g1 g2 : Nat) (h1 : g1 < 2^n) (h2 : g2 < 2^n) :
    ((a &&& b) <<< n) ||| (g1 &&& g2) = ((a <<< n) ||| g1) &&& ((b <<< n) ||| g2) := by
  apply Nat.eq_of_testBit_eq; intro i
  simp only [Nat.testBit_or, Nat.testBit_and, Nat.testBit_shiftLeft]
  by_cases hi : n ≤ i
  · simp [hi, testBit_of_lt h1 hi, testBit_of_lt h2 hi]
  · simp [hi]

/-- a high part glued onto a smaller low part: or = xor -/
theorem glue_or_eq_xor (n a g : Nat) (h : g < 2^n) : (a <<< n) ||| g = (a <<< n) ^^^ g := by
  apply Nat.eq_of_testBit_eq; intro i
  simp only [Nat.testBit_or, Nat.testBit_xor, Nat.testBit_shiftLeft]
  by_cases hi : n ≤ i
  · simp [hi, testBit_of_lt h hi]
  · simp [hi]

theorem bit_le_one (x n k : Nat) : bit x n k ≤ 1 := by
  unfold bit; split
  · exact Nat.and_le_right
  · omega

theorem bit_xor (n k a b : Nat) : bit (a ^^^ b) n k = bit a n k ^^^ bit b n k := by
  unfold bit; split
  · rw [Nat.shiftRight_xor_distrib, Nat.and_xor_distrib_right]
  · rfl

theorem bit_and (n k a b : Nat) : bit (a &&& b) n k = bit a n k &&& bit b n k := by
  unfold bit; split
  · rw [Nat.shiftRight_and_distrib]
    apply Nat.eq_of_testBit_eq; intro i
    simp only [Nat.testBit_and]
    cases (a >>> (n-k)).testBit i <;> cases (b >>> (n-k)).testBit i <;> cases Nat.testBit 1 i <;> rfl
  · rfl

theorem perm_lt (x : Nat) : ∀ (T : List Nat) (n : Nat), perm x T n < 2 ^ T.length
  | [], _ => by simp [perm]
  | t :: ts, n => by
    simp only [perm, List.length_cons]
    apply Nat.or_lt_two_pow
    · have := bit_le_one x n t
      rw [Nat.shiftLeft_eq, Nat.pow_succ]
      have hp : 0 < 2 ^ ts.length := Nat.two_pow_pos _
      calc bit x n t * 2 ^ ts.length ≤ 1 * 2 ^ ts.length := Nat.mul_le_mul_right _ this
        _ < 2 ^ ts.length * 2 := by omega
    · exact Nat.lt_of_lt_of_le (perm_lt x ts n) (Nat.pow_le_pow_right (by decide) (Nat.le_succ _))

theorem perm_xor (a b : Nat) : ∀ (T : List Nat) (n : Nat), perm (a ^^^ b) T n = perm a T n ^^^ perm b T n
  | [], _ => by simp [perm]
  | t :: ts, n => by
    simp only [perm]
    rw [perm_xor a b ts n, bit_xor, glue_xor _ _ _ _ _ (perm_lt a ts n) (perm_lt b ts n)]

theorem perm_and (a b : Nat) : ∀ (T : List Nat) (n : Nat), perm (a &&& b) T n = perm a T n &&& perm b T n
  | [], _ => by simp [perm]
  | t :: ts, n => by
    simp only [perm]
    rw [perm_and a b ts n, bit_and, glue_and _ _ _ _ _ (perm_lt a ts n) (perm_lt b ts n)]

end BitHom
