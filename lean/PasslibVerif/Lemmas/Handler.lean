import PasslibVerif.Model.Handler
import PasslibVerif.Lemmas.Hotp
namespace Lemmas.Handler
open Py Model.Handler

theorem splitChar_ne_nil (sep : Nat) : ∀ b : Str, splitChar sep b ≠ []
  | [] => by simp [splitChar]
  | c :: rest => by
    have ih := splitChar_ne_nil sep rest
    unfold splitChar
    cases hs : splitChar sep rest with
    | nil => exact absurd hs ih
    | cons f fs => by_cases e : c = sep <;> simp [e]

theorem splitChar_no_sep (sep : Nat) : ∀ b : Str, sep ∉ b → splitChar sep b = [b]
  | [], _ => rfl
  | c :: rest, h => by
    have hc : c ≠ sep := fun e => h (by simp [e])
    have hr : sep ∉ rest := fun hm => h (by simp [hm])
    simp [splitChar, splitChar_no_sep sep rest hr, hc]

theorem splitChar_append_sep (sep : Nat) : ∀ (a b : Str), sep ∉ a → splitChar sep (a ++ sep :: b) = a :: splitChar sep b
  | [], b, _ => by
    cases hs : splitChar sep b with
    | nil => exact absurd hs (splitChar_ne_nil sep b)
    | cons f fs => simp [splitChar, hs]
  | c :: rest, b, h => by
    have hc : c ≠ sep := fun e => h (by simp [e])
    have hr : sep ∉ rest := fun hm => h (by simp [hm])
    have ih := splitChar_append_sep sep rest b hr
    simp only [List.cons_append, splitChar, ih, hc, if_false]

/-- THE generic round trip of every `sep`-separated format: split ∘ join = id on separator-free fields -/
theorem split_join (sep : Nat) : ∀ fs : List Str, fs ≠ [] → (∀ f ∈ fs, sep ∉ f) → splitChar sep (joinChar sep fs) = fs
  | [], h, _ => absurd rfl h
  | [p], _, hf => by simp [joinChar, splitChar_no_sep sep p (hf p (by simp))]
  | p :: q :: ps, _, hf => by
    simp only [joinChar]
    rw [splitChar_append_sep sep p _ (hf p (by simp)), split_join sep (q :: ps) (by simp) (fun f hm => hf f (by simp [hm]))]

theorem prefix_append (a b : Str) : a.isPrefixOf (a ++ b) = true := by
  induction a with
  | nil => simp [List.isPrefixOf]
  | cons x xs ih => simp [List.isPrefixOf, ih]

theorem stripPrefix_append (a b : Str) : stripPrefix a (a ++ b) = some b := by
  unfold stripPrefix; simp [prefix_append]

/-- text drawn from an alphabet that lacks `sep` does not contain `sep` -/
theorem not_mem_of_all (cs s : Str) (sep : Nat) (hsep : sep ∉ cs) (h : allIn cs s = true) : sep ∉ s := by
  intro hm
  unfold allIn at h
  rw [List.all_eq_true] at h
  have := h sep hm
  simp at this
  exact hsep this

theorem dv_all : ((List.range 10).all fun d => decimalValue (digitChar d) == some d) = true := by decide +kernel
theorem sp_all : ((List.range 10).all fun d => !(isSpaceCp (digitChar d))) = true := by decide +kernel

theorem decimalValue_digit (d : Nat) (hd : d < 10) : decimalValue (digitChar d) = some d := by
  have := List.all_eq_true.1 dv_all d (List.mem_range.2 hd)
  simpa using this

theorem digit_not_space (d : Nat) (hd : d < 10) : isSpaceCp (digitChar d) = false ∧ digitChar d ≠ 45 ∧ digitChar d ≠ 43 := by
  have := List.all_eq_true.1 sp_all d (List.mem_range.2 hd)
  refine ⟨by simpa using this, ?_, ?_⟩ <;> (unfold digitChar; omega)

/-! ### decimal rendering parses back: `int(str(n)) == n`, and `str(n)` is never zero-padded -/
set_option maxRecDepth 8000 in
open Digits in
theorem parseDigits_map (ds : List Nat) (hds : ∀ d ∈ ds, d < 10) (acc : Nat) (hne : ds ≠ []) :
    parseDigits (ds.map digitChar) (some acc) false = some (ds.foldl (fun a d => a * 10 + d) acc) := by
  induction ds generalizing acc with
  | nil => exact absurd rfl hne
  | cons d rest ih =>
    have hd : d < 10 := hds d List.mem_cons_self
    have hdv := decimalValue_digit d hd
    have hnu : digitChar d ≠ 95 := by unfold digitChar; omega
    simp only [List.map_cons, parseDigits, hnu, if_false, hdv, Option.getD_some, List.foldl_cons]
    cases rest with
    | nil => simp [parseDigits]
    | cons e es => exact ih (fun x hx => hds x (by simp [hx])) _ (by simp)

open Digits in
theorem numDigitsFuel_spec : ∀ (fuel v : Nat), v ≤ fuel → 1 ≤ numDigitsFuel fuel v ∧ v < 10 ^ numDigitsFuel fuel v
  | 0, v, h => by have : v = 0 := by omega
                  subst this; simp [numDigitsFuel]
  | fuel+1, v, h => by
    unfold numDigitsFuel
    split
    · exact ⟨by omega, by omega⟩
    · have ih := numDigitsFuel_spec fuel (v / 10) (by omega)
      refine ⟨by omega, ?_⟩
      have : 10 ^ (1 + numDigitsFuel fuel (v / 10)) = 10 * 10 ^ numDigitsFuel fuel (v / 10) := by
        rw [Nat.add_comm, Nat.pow_succ]; omega
      rw [this]; omega

theorem numDigits_spec (v : Nat) : 1 ≤ numDigits v ∧ v < 10 ^ numDigits v := numDigitsFuel_spec v v (Nat.le_refl v)


set_option maxRecDepth 8000 in
open Digits in
/-- `int(str(n)) == n` for n ≥ 0 -/
theorem int_of_fmtDec (n : Nat) : pyIntOfStr (fmtDec (n : Int)) = some (n : Int) := by
  have hn : ((n : Int) ≥ 0) := Int.natCast_nonneg n
  unfold fmtDec
  simp only [hn, if_true, Int.toNat_natCast, decDigits]
  obtain ⟨h1, h2⟩ := numDigits_spec n
  generalize hL : numDigits n = L at *
  have hds : ∀ d ∈ (toDigits 10 L n).reverse, d < 10 := fun d hd => toDigits_lt 10 (by decide) L n d (List.mem_reverse.1 hd)
  have hne : (toDigits 10 L n).reverse ≠ [] := by
    intro e
    have := congrArg List.length e
    simp [toDigits_length] at this; omega
  -- no surrounding blanks, no sign
  generalize hdl : (toDigits 10 L n).reverse = ds at *
  have hval : ds.foldl (fun a d => a * 10 + d) 0 = n := by
    rw [← hdl, Digits.foldl_reverse_eq_ofDigits, ofDigits_toDigits 10 (by decide) L n h2]
  cases ds with
  | nil => exact absurd rfl hne
  | cons d rest =>
    have hd := hds d List.mem_cons_self
    have hstrip : stripSpaces ((d :: rest).map digitChar) = (d :: rest).map digitChar := by
      unfold stripSpaces
      have hfirst : isSpaceCp (digitChar d) = false := (digit_not_space d hd).1
      simp only [List.map_cons, List.dropWhile_cons, hfirst, Bool.false_eq_true, if_false]
      -- last character is a digit too
      cases hr : (digitChar d :: rest.map digitChar).reverse with
      | nil => simp at hr
      | cons x xs =>
        have hx : x ∈ (digitChar d :: rest.map digitChar) := by
          have : x ∈ (digitChar d :: rest.map digitChar).reverse := by rw [hr]; simp
          exact List.mem_reverse.1 this
        have hxs : isSpaceCp x = false := by
          rcases List.mem_cons.1 hx with e | hm
          · rw [e]; exact hfirst
          · obtain ⟨y, hy, rfl⟩ := List.mem_map.1 hm
            exact (digit_not_space y (hds y (by simp [hy]))).1
        simp only [List.dropWhile_cons, hxs, Bool.false_eq_true, if_false]
        rw [← hr, List.reverse_reverse]
    unfold pyIntOfStr
    rw [hstrip]
    have h45 := (digit_not_space d hd).2.1
    have h43 := (digit_not_space d hd).2.2
    have hdv := decimalValue_digit d hd
    have hnu : digitChar d ≠ 95 := by unfold digitChar; omega
    have hpd : parseDigits ((d :: rest).map digitChar) none false = some n := by
      simp only [List.map_cons, parseDigits, hnu, if_false, hdv, Option.getD_none, Nat.zero_mul, Nat.zero_add]
      cases rest with
      | nil => simp [parseDigits] at hval ⊢; omega
      | cons e es =>
        rw [parseDigits_map (e :: es) (fun x hx => hds x (by simp [hx])) d (by simp)]
        simp only [List.foldl_cons, Nat.zero_mul, Nat.zero_add] at hval
        simp [hval]
    simp only [List.map_cons] at hpd ⊢
    split
    · rename_i heq; simp at heq
    · rename_i heq; simp only [List.cons.injEq] at heq; exact absurd heq.1 h45
    · rename_i heq; simp only [List.cons.injEq] at heq; exact absurd heq.1 h43
    · simp [hpd]

/-- a rendered number is never "zero padded" in passlib's sense and never empty -/
theorem numDigitsFuel_min : ∀ (fuel v : Nat), v ≤ fuel → numDigitsFuel fuel v = 1 ∨ 10 ^ (numDigitsFuel fuel v - 1) ≤ v
  | 0, _, _ => Or.inl rfl
  | fuel+1, v, h => by
    unfold numDigitsFuel
    split
    · exact Or.inl rfl
    · rename_i hge
      right
      have ih := numDigitsFuel_min fuel (v / 10) (by omega)
      have e : 1 + numDigitsFuel fuel (v / 10) - 1 = numDigitsFuel fuel (v / 10) := by omega
      rw [e]
      rcases ih with h1 | h1
      · rw [h1]; omega
      · have hp := (numDigitsFuel_spec fuel (v / 10) (by omega)).1
        obtain ⟨k, hk⟩ : ∃ k, numDigitsFuel fuel (v / 10) = k + 1 := ⟨_, (Nat.sub_add_cancel hp).symm⟩
        rw [hk] at h1 ⊢
        simp only [Nat.add_sub_cancel] at h1
        rw [Nat.pow_succ]; omega

open Digits in
theorem toDigits_getLast (N : Nat) : ∀ (k v : Nat), (toDigits N (k + 1) v).getLast? = some (v / N ^ k % N)
  | 0, v => by simp [toDigits]
  | k+1, v => by
    have ih := toDigits_getLast N k (v / N)
    rw [show toDigits N (k + 1 + 1) v = v % N :: toDigits N (k + 1) (v / N) from rfl]
    rw [List.getLast?_cons]
    rw [ih]
    simp only [Option.getD_some, Option.some.injEq]
    rw [Nat.div_div_eq_div_mul, Nat.pow_succ, Nat.mul_comm]

open Digits in
/-- `str(n)` starts with a non-zero digit unless n = 0: never zero-padded, never empty -/
theorem fmtDec_not_padded (n : Nat) : zeroPadded (fmtDec (n : Int)) = false ∧ (fmtDec (n : Int)).isEmpty = false := by
  have hn : ((n : Int) ≥ 0) := Int.natCast_nonneg n
  unfold fmtDec
  simp only [hn, if_true, Int.toNat_natCast, decDigits]
  obtain ⟨h1, h2⟩ := numDigits_spec n
  have hmin := numDigitsFuel_min n n (Nat.le_refl n)
  change numDigits n = 1 ∨ 10 ^ (numDigits n - 1) ≤ n at hmin
  obtain ⟨k, hk⟩ : ∃ k, numDigits n = k + 1 := ⟨_, (Nat.sub_add_cancel h1).symm⟩
  rw [hk] at h2 hmin ⊢
  have hlast := toDigits_getLast 10 k n
  -- head of the reversed digit list = last digit
  have hhead : ((toDigits 10 (k + 1) n).reverse.map digitChar).head? = some (digitChar (n / 10 ^ k % 10)) := by
    rw [List.head?_map, List.head?_reverse, hlast]; rfl
  have hne : ((toDigits 10 (k + 1) n).reverse.map digitChar).isEmpty = false := by
    cases h : (toDigits 10 (k + 1) n).reverse.map digitChar with
    | nil => rw [h] at hhead; simp at hhead
    | cons _ _ => rfl
  refine ⟨?_, hne⟩
  unfold zeroPadded
  rw [hhead]
  by_cases hk0 : k = 0
  · subst hk0
    simp only [Nat.pow_zero, Nat.div_one] at *
    have : n < 10 := by simpa using h2
    by_cases hn0 : n = 0
    · subst hn0; decide
    · have : digitChar (n % 10) ≠ ZERO := by unfold digitChar ZERO; omega
      simp [this]
  · have hge : 10 ^ k ≤ n := by
      rcases hmin with h | h
      · omega
      · simpa using h
    have hq : 1 ≤ n / 10 ^ k := (Nat.le_div_iff_mul_le (Nat.pow_pos (by decide))).2 (by simpa using hge)
    have hq2 : n / 10 ^ k < 10 := by
      apply (Nat.div_lt_iff_lt_mul (Nat.pow_pos (by decide))).2
      rw [Nat.pow_succ] at h2; omega
    have : digitChar (n / 10 ^ k % 10) ≠ ZERO := by
      rw [Nat.mod_eq_of_lt hq2]; unfold digitChar ZERO; omega
    simp [this]

end Lemmas.Handler

namespace Lemmas.Handler
open Py Model.Handler Digits

/-- the characters of a rendered non-negative number are ASCII digits -/
theorem fmtDec_digits (n : Nat) : ∀ c ∈ fmtDec (n : Int), 48 ≤ c ∧ c ≤ 57 := by
  have hn : ((n : Int) ≥ 0) := Int.natCast_nonneg n
  unfold fmtDec
  simp only [hn, if_true, Int.toNat_natCast, decDigits]
  intro c hc
  obtain ⟨d, hd, rfl⟩ := List.mem_map.1 hc
  have := toDigits_lt 10 (by decide) _ n d (List.mem_reverse.1 hd)
  unfold digitChar; omega

theorem parseIntField_fmtDec (n : Nat) (dflt : Option Int) : parseIntField (fmtDec (n : Int)) dflt = some (n : Int) := by
  unfold parseIntField
  obtain ⟨h1, h2⟩ := fmtDec_not_padded n
  simp [h1, h2, intField, int_of_fmtDec]

theorem normSalt_ok (chars : List Nat) (mn : Nat) (mx : Nat) (relaxed : Bool) (s : Str)
    (hc : allIn chars s = true) (h1 : mn ≤ s.length) (h2 : s.length ≤ mx) :
    normSalt (some chars) mn (some mx) relaxed s = some s := by
  unfold normSalt
  have a : ¬ (s.length < mn) := by omega
  have b : ¬ (s.length > mx) := by omega
  simp only [hc, Bool.not_true, Bool.false_eq_true, if_false, a, b, decide_false, Bool.and_false]

theorem normSalt_spec (chars : List Nat) (mn mx : Nat) (s s' : Str) (hmx : mx ≠ 0)
    (h : normSalt (some chars) mn (some mx) false s = some s') :
    s' = s ∧ allIn chars s = true ∧ (mn = 0 ∨ mn ≤ s.length) ∧ s.length ≤ mx := by
  unfold normSalt at h
  cases hc : allIn chars s with
  | false => simp [hc] at h
  | true =>
    simp only [hc, Bool.not_true, Bool.false_eq_true, if_false] at h
    by_cases hm : mn ≠ 0 ∧ s.length < mn
    · have : (mn ≠ 0 && decide (s.length < mn)) = true := by simp [hm.1, hm.2]
      rw [if_pos this] at h; cases h
    · have : ¬ ((mn ≠ 0 && decide (s.length < mn)) = true) := by simpa using hm
      rw [if_neg this] at h
      by_cases hx : s.length > mx
      · have : (mx ≠ 0 && decide (s.length > mx)) = true := by simp [hmx, hx]
        rw [if_pos this] at h; simp at h
      · have : ¬ ((mx ≠ 0 && decide (s.length > mx)) = true) := by simp [hx]
        rw [if_neg this] at h
        simp only [Option.some.injEq] at h
        refine ⟨h.symm, rfl, ?_, by omega⟩
        by_cases h0 : mn = 0
        · exact Or.inl h0
        · right; have := fun hh => hm ⟨h0, hh⟩; omega

theorem normChecksum_ok (n : Nat) (chars : List Nat) (c : Str) (hl : c.length = n) (hc : allIn chars c = true) :
    normChecksum (some n) (some chars) c = some c := by
  unfold normChecksum charsOk; simp [hl, hc]

theorem normChecksum_spec (n : Nat) (chars : List Nat) (c c' : Str) (hn : n ≠ 0) (hcs : chars ≠ [])
    (h : normChecksum (some n) (some chars) c = some c') : c' = c ∧ c.length = n ∧ allIn chars c = true := by
  unfold normChecksum charsOk at h
  have hne : chars.isEmpty = false := by cases chars <;> simp_all
  simp only [hn, decide_false, Bool.false_or, hne] at h
  split at h
  · rename_i hcond
    simp only [Bool.and_eq_true, decide_eq_true_eq] at hcond
    simp only [Option.some.injEq] at h
    exact ⟨h.symm, hcond.1, hcond.2⟩
  · cases h

end Lemmas.Handler
