import PasslibVerif.Model.Formats.Misc
import PasslibVerif.Lemmas.Handler
import PasslibVerif.Lemmas.B64Std
/-
Generic lemmas of the Misc format family: scanning (`takeWhile`/`dropWhile` against a stop character),
digits of `str(n)`, prefixes, and the round trip of CPython's lenient base64 decoder on canonical input.
-/
set_option linter.unusedSimpArgs false
namespace Lemmas.FormatsMisc
open Py Model.Handler Model.Formats Lemmas.Handler

/-! ### scanning -/
theorem takeWhile_stop (p : Nat → Bool) : ∀ (a : Str) (c : Nat) (b : Str), (∀ x ∈ a, p x = true) → p c = false →
    (a ++ c :: b).takeWhile p = a ∧ (a ++ c :: b).dropWhile p = c :: b
  | [], c, b, _, hc => by simp [hc]
  | x :: a, c, b, ha, hc => by
    have hx : p x = true := ha x (by simp)
    have ih := takeWhile_stop p a c b (fun y hy => ha y (by simp [hy])) hc
    simp only [List.cons_append, List.takeWhile, List.dropWhile, hx, ih.1, ih.2, and_self]

theorem takeWhile_all (p : Nat → Bool) : ∀ (a : Str), (∀ x ∈ a, p x = true) → a.takeWhile p = a ∧ a.dropWhile p = []
  | [], _ => by simp
  | x :: a, ha => by
    have hx : p x = true := ha x (by simp)
    have ih := takeWhile_all p a (fun y hy => ha y (by simp [hy]))
    simp only [List.takeWhile, List.dropWhile, hx, ih.1, ih.2, and_self]

theorem all_of_forall {p : Nat → Bool} {a : Str} (h : ∀ x ∈ a, p x = true) : a.all p = true :=
  List.all_eq_true.2 h

theorem forall_of_all {p : Nat → Bool} {a : Str} (h : a.all p = true) : ∀ x ∈ a, p x = true :=
  List.all_eq_true.1 h

/-! ### decimal renderings -/
theorem udigit_of_ascii (c : Nat) (h : 48 ≤ c ∧ c ≤ 57) : isUDigit c = true := by
  have hd : c - 48 < 10 := by omega
  have := decimalValue_digit (c - 48) hd
  have e : digitChar (c - 48) = c := by unfold digitChar; omega
  rw [e] at this
  simp [isUDigit, this]

theorem adigit_of_ascii (c : Nat) (h : 48 ≤ c ∧ c ≤ 57) : isADigit c = true := by
  simp [isADigit, h.1, h.2]

theorem fmtDec_udigits (n : Nat) : ∀ c ∈ fmtDec (n : Int), isUDigit c = true :=
  fun c hc => udigit_of_ascii c (fmtDec_digits n c hc)

theorem fmtDec_adigits (n : Nat) : ∀ c ∈ fmtDec (n : Int), isADigit c = true :=
  fun c hc => adigit_of_ascii c (fmtDec_digits n c hc)

theorem fmtDec_ne_nil (n : Nat) : (fmtDec (n : Int)).isEmpty = false := (fmtDec_not_padded n).2

theorem pyInt_fmtDec (n : Nat) : pyInt (fmtDec (n : Int)) = .ok (n : Int) := by
  unfold pyInt; rw [int_of_fmtDec]

theorem not_udigit_dollar : isUDigit DOLLAR = false := by decide +kernel
theorem not_udigit_bar : isUDigit 124 = false := by decide +kernel
theorem not_udigit_brace : isUDigit 125 = false := by decide +kernel
theorem not_udigit_comma : isUDigit 44 = false := by decide +kernel

/-- scanning a rendered number that is followed by a non-digit -/
theorem scan_fmtDec (n : Nat) (c : Nat) (b : Str) (hc : isUDigit c = false) :
    (fmtDec (n : Int) ++ c :: b).takeWhile isUDigit = fmtDec (n : Int) ∧
    (fmtDec (n : Int) ++ c :: b).dropWhile isUDigit = c :: b :=
  takeWhile_stop isUDigit _ c b (fmtDec_udigits n) hc

theorem scan_fmtDecA (n : Nat) (c : Nat) (b : Str) (hc : isADigit c = false) :
    (fmtDec (n : Int) ++ c :: b).takeWhile isADigit = fmtDec (n : Int) ∧
    (fmtDec (n : Int) ++ c :: b).dropWhile isADigit = c :: b :=
  takeWhile_stop isADigit _ c b (fmtDec_adigits n) hc

/-! ### prefixes -/
theorem lit_append (a b : Str) : lit a (a ++ b) = some b := stripPrefix_append a b

/-- a separator-free literal is a prefix of `a ++ sep :: b` exactly when it is a prefix of `a` -/
theorem isPrefixOf_append_sep (sep : Nat) : ∀ (l a b : Str), sep ∉ l → l.isPrefixOf (a ++ sep :: b) = l.isPrefixOf a
  | [], _, _, _ => by simp [List.isPrefixOf]
  | x :: l, [], b, h => by
    have hx : x ≠ sep := fun e => h (by simp [e])
    simp [List.isPrefixOf, hx]
  | x :: l, y :: a, b, h => by
    have ih := isPrefixOf_append_sep sep l a b (fun hm => h (by simp [hm]))
    simp only [List.cons_append, List.isPrefixOf, ih]

theorem stripPrefix_none {l s : Str} (h : l.isPrefixOf s = false) : stripPrefix l s = none := by
  unfold stripPrefix; simp [h]

theorem not_mem_joinChar (x sep : Nat) (hx : x ≠ sep) : ∀ fs : List Str, (∀ f ∈ fs, x ∉ f) → x ∉ joinChar sep fs
  | [], _ => by simp [joinChar]
  | [f], h => by simpa [joinChar] using h f (by simp)
  | f :: g :: fs, h => by
    have ih := not_mem_joinChar x sep hx (g :: fs) (fun k hk => h k (by simp [hk]))
    simp only [joinChar, List.mem_append, List.mem_cons, not_or]
    exact ⟨h f (by simp), hx, ih⟩

theorem not_mem_kv (x k : Nat) (n v : Str) (hn : x ∉ n) (hk : x ≠ k) (hv : x ∉ v) : x ∉ n ++ k :: v := by
  simp only [List.mem_append, List.mem_cons, not_or]; exact ⟨hn, hk, hv⟩

theorem not_mem_fmtDec (x : Nat) (hx : x < 48 ∨ 57 < x) (n : Nat) : x ∉ fmtDec (n : Int) := by
  intro hm; have := fmtDec_digits n x hm; omega

/-! ### CPython's base64 decoder on canonical input -/
open Spec.Rfc4648 Model.B64 Lemmas.B64 in
theorem b64val_enc (v : Nat) (hv : v < 64) : b64val (stdAlphabet.getD v 0) = some v := by
  unfold b64val
  exact stdAlphabet_ok.2 v hv

open Spec.Rfc4648 in
theorem enc_ne_pad (v : Nat) (hv : v < 64) : stdAlphabet.getD v 0 ≠ 61 := by
  have : ((List.range 64).all fun v => stdAlphabet.getD v 0 != 61) = true := by decide +kernel
  have := List.all_eq_true.1 this v (List.mem_range.2 hv)
  simpa using this

/-- one decoded symbol step, per quad position -/
theorem a2bGo_s0 (v : Nat) (hv : v < 64) (cs : List Nat) (left pads : Nat) :
    mA2bGo (Spec.Rfc4648.stdAlphabet.getD v 0 :: cs) 0 left pads = mA2bGo cs 1 v 0 := by
  rw [mA2bGo]; simp only [enc_ne_pad v hv, if_false, b64val_enc v hv, if_true]
theorem a2bGo_s1 (v : Nat) (hv : v < 64) (cs : List Nat) (left pads : Nat) :
    mA2bGo (Spec.Rfc4648.stdAlphabet.getD v 0 :: cs) 1 left pads = (mA2bGo cs 2 (v % 16) 0).map ((left * 4 + v / 16) :: ·) := by
  rw [mA2bGo]; simp only [enc_ne_pad v hv, if_false, b64val_enc v hv, show (1:Nat) ≠ 0 from by decide, if_true]
theorem a2bGo_s2 (v : Nat) (hv : v < 64) (cs : List Nat) (left pads : Nat) :
    mA2bGo (Spec.Rfc4648.stdAlphabet.getD v 0 :: cs) 2 left pads = (mA2bGo cs 3 (v % 4) 0).map ((left * 16 + v / 4) :: ·) := by
  rw [mA2bGo]; simp only [enc_ne_pad v hv, if_false, b64val_enc v hv, show (2:Nat) ≠ 0 from by decide, show (2:Nat) ≠ 1 from by decide, if_true]
theorem a2bGo_s3 (v : Nat) (hv : v < 64) (cs : List Nat) (left pads : Nat) :
    mA2bGo (Spec.Rfc4648.stdAlphabet.getD v 0 :: cs) 3 left pads = (mA2bGo cs 0 0 0).map ((left * 64 + v) :: ·) := by
  rw [mA2bGo]; simp only [enc_ne_pad v hv, if_false, b64val_enc v hv, show (3:Nat) ≠ 0 from by decide, show (3:Nat) ≠ 1 from by decide,
    show (3:Nat) ≠ 2 from by decide]

/-- quad position after decoding the symbols of `n` bytes -/
def qpOf (n : Nat) : Nat := if n % 3 = 0 then 0 else if n % 3 = 1 then 2 else 3

open Spec.Rfc4648 in
/-- decoding the RFC 4648 symbols of `bs` yields `bs` and leaves the decoder in quad position `qpOf |bs|` -/
theorem a2bGo_groups : ∀ (bs : Bytes), Bytes.WF bs → ∀ (tail : List Nat),
    ∃ left, (bs.length % 3 = 0 → left = 0) ∧
      mA2bGo ((groups64 bs).map (stdAlphabet.getD · 0) ++ tail) 0 0 0 = (mA2bGo tail (qpOf bs.length) left 0).map (bs ++ ·)
  | [], _, tail => ⟨0, fun _ => rfl, by simp [groups64, qpOf]⟩
  | [a], h, tail => by
    have ha : a < 256 := h a (by simp)
    refine ⟨a * 16 % 64 % 16, by simp, ?_⟩
    simp only [groups64, List.map_cons, List.map_nil, List.cons_append, List.nil_append]
    rw [a2bGo_s0 _ (by omega), a2bGo_s1 _ (by omega)]
    have e1 : a * 16 / 64 % 64 * 4 + a * 16 % 64 / 16 = a := by omega
    rw [e1]
    simp [qpOf]
  | [a, b], h, tail => by
    have ha : a < 256 := h a (by simp)
    have hb : b < 256 := h b (by simp)
    refine ⟨(a * 256 + b) * 4 % 64 % 4, by simp, ?_⟩
    simp only [groups64, List.map_cons, List.map_nil, List.cons_append, List.nil_append]
    rw [a2bGo_s0 _ (by omega), a2bGo_s1 _ (by omega), a2bGo_s2 _ (by omega)]
    have e1 : (a * 256 + b) * 4 / 4096 % 64 * 4 + (a * 256 + b) * 4 / 64 % 64 / 16 = a := by omega
    have e2 : (a * 256 + b) * 4 / 64 % 64 % 16 * 16 + (a * 256 + b) * 4 % 64 / 4 = b := by omega
    rw [e1, e2]
    simp [qpOf, Option.map_map, Function.comp_def]
  | a :: b :: c :: rest, h, tail => by
    have ha : a < 256 := h a (by simp)
    have hb : b < 256 := h b (by simp)
    have hc : c < 256 := h c (by simp)
    obtain ⟨left, hl0, ih⟩ := a2bGo_groups rest (fun x hx => h x (by simp [hx])) tail
    have hlen : (a :: b :: c :: rest).length % 3 = rest.length % 3 := by simp only [List.length_cons]; omega
    refine ⟨left, fun h0 => hl0 (by omega), ?_⟩
    simp only [groups64, List.map_cons, List.map_append, List.map_nil, List.cons_append, List.nil_append, List.append_assoc]
    rw [a2bGo_s0 _ (by omega), a2bGo_s1 _ (by omega), a2bGo_s2 _ (by omega), a2bGo_s3 _ (by omega)]
    have e1 : (a * 65536 + b * 256 + c) / 262144 % 64 * 4 + (a * 65536 + b * 256 + c) / 4096 % 64 / 16 = a := by omega
    have e2 : (a * 65536 + b * 256 + c) / 4096 % 64 % 16 * 16 + (a * 65536 + b * 256 + c) / 64 % 64 / 4 = b := by omega
    have e3 : (a * 65536 + b * 256 + c) / 64 % 64 % 4 * 64 + (a * 65536 + b * 256 + c) % 64 = c := by omega
    rw [e1, e2, e3, ih]
    have hq : qpOf (a :: b :: c :: rest).length = qpOf rest.length := by unfold qpOf; rw [hlen]
    rw [hq]
    simp [Option.map_map, Function.comp_def]

theorem a2bGo_pad2 (left : Nat) : mA2bGo [61, 61] 2 left 0 = some [] := by simp [mA2bGo]
theorem a2bGo_pad1 (left : Nat) : mA2bGo [61] 3 left 0 = some [] := by simp [mA2bGo]

open Spec.Rfc4648 in
/-- `binascii.a2b_base64(base64.b64encode(bs)) == bs` -/
theorem a2b_base64 (bs : Bytes) (h : Bytes.WF bs) : a2b (base64 bs) = some bs := by
  unfold a2b base64 base64NoPad
  obtain ⟨left, hl0, e⟩ := a2bGo_groups bs h (List.replicate (padLen64 bs.length) 61)
  rw [e]
  unfold qpOf padLen64
  have h3 : bs.length % 3 = 0 ∨ bs.length % 3 = 1 ∨ bs.length % 3 = 2 := by omega
  rcases h3 with h3 | h3 | h3
  · simp [h3, hl0 h3, mA2bGo]
  · simp [h3, List.replicate, a2bGo_pad2]
  · simp [h3, List.replicate, a2bGo_pad1]

theorem stdB64_roundtrip (bs : Bytes) (h : Bytes.WF bs) : stdB64Decode (stdB64Encode bs) = .ok bs := by
  unfold stdB64Decode stdB64Encode; rw [a2b_base64 bs h]

open Spec.Rfc4648 Lemmas.B64 in
/-- `b64s_decode(b64s_encode(bs)) == bs` through the real (lenient) decoder -/
theorem b64sB_roundtrip (bs : Bytes) (h : Bytes.WF bs) : b64sDecodeB (Model.B64.b64sEncode bs) = .ok bs := by
  unfold b64sDecodeB Model.B64.b64sEncode base64NoPad
  have hlen : ((groups64 bs).map (stdAlphabet.getD · 0)).length = (4 * bs.length + 2) / 3 := by
    rw [List.length_map, groups64_length]
  have h3 : bs.length % 3 = 0 ∨ bs.length % 3 = 1 ∨ bs.length % 3 = 2 := by omega
  simp only [hlen]
  rcases h3 with h3 | h3 | h3
  · have e4 : (4 * bs.length + 2) / 3 % 4 = 0 := by omega
    obtain ⟨left, hl0, e⟩ := a2bGo_groups bs h []
    simp only [e4, show (0:Nat) ≠ 1 from by decide, show (0:Nat) ≠ 2 from by decide, show (0:Nat) ≠ 3 from by decide, if_false]
    unfold a2b
    rw [List.append_nil] at e
    rw [e]
    simp [qpOf, h3, hl0 h3, mA2bGo]
  · have e4 : (4 * bs.length + 2) / 3 % 4 = 2 := by omega
    obtain ⟨left, _, e⟩ := a2bGo_groups bs h [61, 61]
    simp only [e4, show (2:Nat) ≠ 1 from by decide, if_false, if_true]
    unfold a2b
    rw [e]
    simp [qpOf, h3, a2bGo_pad2]
  · have e4 : (4 * bs.length + 2) / 3 % 4 = 3 := by omega
    obtain ⟨left, _, e⟩ := a2bGo_groups bs h [61]
    simp only [e4, show (3:Nat) ≠ 1 from by decide, show (3:Nat) ≠ 2 from by decide, if_false, if_true]
    unfold a2b
    rw [e]
    simp [qpOf, h3, a2bGo_pad1]

end Lemmas.FormatsMisc
