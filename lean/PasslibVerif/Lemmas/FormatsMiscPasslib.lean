import PasslibVerif.Lemmas.FormatsMiscBase
import PasslibVerif.Lemmas.B64Int
/-
R1 for the passlib hashers of the Misc family:  from_string(x.to_string()) = x  for well-formed x
(fshp, scrypt in both identifiers, argon2 with a loaded backend, django_argon2).
-/
set_option linter.unusedSimpArgs false
namespace Lemmas.FormatsMisc
open Py Model.Handler Model.Formats Lemmas.Handler

/-! ### alphabet facts -/
open Spec.Rfc4648 Lemmas.B64 in
theorem b64sEncode_mem (bs : Bytes) : ∀ c ∈ Model.B64.b64sEncode bs, c ∈ stdAlphabet := by
  intro c hc
  unfold Model.B64.b64sEncode base64NoPad at hc
  rcases List.mem_map.1 hc with ⟨v, hv, rfl⟩
  have hv64 := groups64_lt64 bs v hv
  have : v < stdAlphabet.length := by rw [stdAlphabet_ok.1]; exact hv64
  simp only [List.getD, List.getElem?_eq_getElem this, Option.getD_some]; exact List.getElem_mem _

theorem std_facts : ∀ c ∈ Spec.Rfc4648.stdAlphabet, c < 128 ∧ c ≠ 36 ∧ c ≠ 44 ∧ c ≠ 61 ∧ c ≠ 10 ∧ isStdB64Char c = true := by decide

theorem b64sEncode_facts (bs : Bytes) : ∀ c ∈ Model.B64.b64sEncode bs, c < 128 ∧ c ≠ 36 ∧ c ≠ 44 ∧ c ≠ 61 ∧ c ≠ 10 ∧ isStdB64Char c = true :=
  fun c hc => std_facts c (b64sEncode_mem bs c hc)

theorem b64sEncode_ascii (bs : Bytes) : mIsAscii (Model.B64.b64sEncode bs) = true :=
  all_of_forall fun c hc => by simpa using (b64sEncode_facts bs c hc).1

theorem b64sS_roundtrip (bs : Bytes) (h : Bytes.WF bs) : b64sDecodeS (Model.B64.b64sEncode bs) = .ok bs := by
  unfold b64sDecodeS; rw [b64sEncode_ascii, if_pos rfl, b64sB_roundtrip bs h]

theorem b64sEncode_isEmpty (bs : Bytes) (h : bs ≠ []) : (Model.B64.b64sEncode bs).isEmpty = false := by
  have hl : (Model.B64.b64sEncode bs).length = (4 * bs.length + 2) / 3 := by
    unfold Model.B64.b64sEncode Spec.Rfc4648.base64NoPad; rw [List.length_map, Lemmas.B64.groups64_length]
  have : 0 < bs.length := List.length_pos_iff.2 h
  cases hb : Model.B64.b64sEncode bs with
  | nil => rw [hb] at hl; simp at hl; omega
  | cons _ _ => rfl

/-! ### fshp -/
structure FshpWF (p : Parsed) : Prop where
  ident : p.ident = FSHP_IDENT
  rounds : ∃ r : Nat, p.rounds = some (r : Int) ∧ 1 ≤ r ∧ r ≤ 4294967295
  variant : ∃ v : Nat, p.extra = [("variant", natField v)] ∧ v < 4 ∧
    ∃ c, p.checksum = some c ∧ Bytes.WF c ∧ fshpChecksumSize (v : Int) = some c.length
  salt : ∃ s, p.salt = some s ∧ Bytes.WF s

theorem takeWhile_replicate (p : Nat → Bool) (a : Str) (c k : Nat) (ha : ∀ x ∈ a, p x = true) (hc : p c = false) :
    (a ++ List.replicate k c).takeWhile p = a ∧ (a ++ List.replicate k c).dropWhile p = List.replicate k c := by
  cases k with
  | zero => simpa using takeWhile_all p a ha
  | succ k => simpa [List.replicate_succ] using takeWhile_stop p a c (List.replicate k c) ha hc

open Spec.Rfc4648 in
theorem fshp_body (x : Bytes) (hx : x ≠ []) :
    (base64 x).takeWhile isStdB64Char = base64NoPad x ∧ (base64 x).dropWhile isStdB64Char = List.replicate (padLen64 x.length) 61 ∧
    (base64NoPad x).isEmpty = false ∧ padLen64 x.length ≤ 3 := by
  have h := takeWhile_replicate isStdB64Char (base64NoPad x) 61 (padLen64 x.length)
    (fun c hc => (std_facts c (b64sEncode_mem x c hc)).2.2.2.2.2) (by decide)
  refine ⟨h.1, h.2, b64sEncode_isEmpty x hx, ?_⟩
  unfold padLen64; omega

theorem fshp_roundtrip (p : Parsed) (h : FshpWF p) : resBind (fshpRender p) fshpParse = .ok (some p) := by
  obtain ⟨hi, ⟨r, hr, hr1, hr2⟩, ⟨v, he, hv, c, hc, hcw, hcs⟩, ⟨s, hs, hsw⟩⟩ := h
  obtain ⟨pi, pr, ps, pc, pe⟩ := p
  simp only at hi hr he hs hc
  subst hi hr he hs hc
  have hcne : c ≠ [] := by
    intro e; subst e
    have : v = 0 ∨ v = 1 ∨ v = 2 ∨ v = 3 := by omega
    rcases this with h | h | h | h <;> subst h <;> simp [fshpChecksumSize] at hcs
  have hxne : s ++ c ≠ [] := by simp [hcne]
  have hxw : Bytes.WF (s ++ c) := by
    intro b hb; rcases List.mem_append.1 hb with h | h
    · exact hsw b h
    · exact hcw b h
  have hrender : fshpRender ⟨FSHP_IDENT, some (r : Int), some s, some c, [("variant", natField v)]⟩ =
      .ok (FSHP_IDENT ++ (fmtDec (v : Int) ++ 124 :: (fmtDec (s.length : Int) ++ 124 :: (fmtDec (r : Int) ++ 125 :: stdB64Encode (s ++ c))))) := by
    simp [fshpRender, extraNat, natField, List.find?]
  rw [hrender]
  simp only [resBind]
  have hm : fshpMatch (FSHP_IDENT ++ (fmtDec (v : Int) ++ 124 :: (fmtDec (s.length : Int) ++ 124 :: (fmtDec (r : Int) ++ 125 :: stdB64Encode (s ++ c))))) =
      some (fmtDec (v : Int), fmtDec (s.length : Int), fmtDec (r : Int), stdB64Encode (s ++ c)) := by
    unfold fshpMatch
    have h1 := scan_fmtDec v 124 (fmtDec (s.length : Int) ++ 124 :: (fmtDec (r : Int) ++ 125 :: stdB64Encode (s ++ c))) not_udigit_bar
    have h2 := scan_fmtDec s.length 124 (fmtDec (r : Int) ++ 125 :: stdB64Encode (s ++ c)) not_udigit_bar
    have h3 := scan_fmtDec r 125 (stdB64Encode (s ++ c)) not_udigit_brace
    obtain ⟨b1, b2, b3, b4⟩ := fshp_body (s ++ c) hxne
    have l1 : ∀ x : Str, lit [124] (124 :: x) = some x := fun x => lit_append [124] x
    have l2 : ∀ x : Str, lit [125] (125 :: x) = some x := fun x => lit_append [125] x
    simp only [lit_append, Option.bind_some, h1.1, h1.2, h2.1, h2.2, h3.1, h3.2, fmtDec_ne_nil, Bool.false_eq_true, if_false, l1, l2]
    unfold stdB64Encode
    simp only [b1, b2, b3, Bool.false_eq_true, if_false]
    have e1 : (List.replicate (Spec.Rfc4648.padLen64 (s ++ c).length) 61).takeWhile (fun x => decide (x = 61)) =
        List.replicate (Spec.Rfc4648.padLen64 (s ++ c).length) 61 := by
      apply (takeWhile_all _ _ _).1
      intro x hx; simp [List.eq_of_mem_replicate hx]
    have e2 : (List.replicate (Spec.Rfc4648.padLen64 (s ++ c).length) 61).dropWhile (fun x => decide (x = 61)) = [] := by
      apply (takeWhile_all _ _ _).2
      intro x hx; simp [List.eq_of_mem_replicate hx]
    simp only [e1, e2, List.length_replicate, atEnd]
    have b4' : Spec.Rfc4648.padLen64 (s.length + c.length) ≤ 3 := by simpa using b4
    simp [b4', Spec.Rfc4648.base64]
  simp only [fshpParse, hm, pyInt_fmtDec, resBind, stdB64_roundtrip (s ++ c) hxw, Int.toNat_natCast]
  have e1 : (s ++ c).take s.length = s := by simp
  have e2 : (s ++ c).drop s.length = c := by simp
  simp only [e1, e2, hcs]
  have a : ¬ ((r : Int) < 1 ∨ (r : Int) > 4294967295) := by omega
  simp [a]

/-! ### scrypt, "$scrypt$" form -/
structure ScryptWF (p : Parsed) : Prop where
  ident : p.ident = IDENT_SCRYPT
  rounds : ∃ r : Nat, p.rounds = some (r : Int) ∧ 1 ≤ r ∧ r ≤ 31
  extra : ∃ b pp : Nat, p.extra = scryptExtra b pp ∧ 1 ≤ b ∧ 1 ≤ pp
  salt : ∃ s, p.salt = some s ∧ Bytes.WF s ∧ s.length ≤ 1024
  chk : ∃ c, p.checksum = some c ∧ Bytes.WF c ∧ c.length = 32

theorem not_mem_b64s (bs : Bytes) (x : Nat) (hx : x = 36 ∨ x = 44 ∨ x = 61) : x ∉ Model.B64.b64sEncode bs := by
  intro hm
  have := b64sEncode_facts bs x hm
  rcases hx with h | h | h <;> subst h <;> simp at this

theorem scrypt_roundtrip (p : Parsed) (h : ScryptWF p) : resBind (scryptRender p) scryptParse = .ok (some p) := by
  obtain ⟨hi, ⟨r, hr, hr1, hr2⟩, ⟨b, pp, he, hb, hpp⟩, ⟨s, hs, hsw, hsl⟩, ⟨c, hc, hcw, hcl⟩⟩ := h
  obtain ⟨pi, pr, ps, pc, pe⟩ := p
  simp only at hi hr he hs hc
  subst hi hr he hs hc
  let params := ofString "ln=" ++ fmtDec (r : Int) ++ 44 :: (ofString "r=" ++ fmtDec (b : Int) ++ 44 :: (ofString "p=" ++ fmtDec (pp : Int)))
  have hrender : scryptRender ⟨IDENT_SCRYPT, some (r : Int), some s, some c, scryptExtra b pp⟩ =
      .ok (IDENT_SCRYPT ++ (params ++ DOLLAR :: (Model.B64.b64sEncode s ++ DOLLAR :: Model.B64.b64sEncode c))) := by
    simp [scryptRender, extraNat, scryptExtra, natField, List.find?, params, ofString]
  rw [hrender]
  simp only [resBind]
  unfold scryptParse
  rw [stripPrefix_append]
  simp only []
  unfold scryptParseScrypt
  have hpd : DOLLAR ∉ params := by
    have := not_mem_joinChar DOLLAR 44 (by decide) [ofString "ln=" ++ fmtDec (r : Int), ofString "r=" ++ fmtDec (b : Int), ofString "p=" ++ fmtDec (pp : Int)] (by
      intro f hf
      simp only [List.mem_cons, List.not_mem_nil, or_false] at hf
      rcases hf with h | h | h <;> subst h <;>
        (simp only [List.mem_append, not_or]; exact ⟨by decide, not_mem_fmtDec DOLLAR (by decide) _⟩))
    simpa [joinChar, params] using this
  have hsplit : splitChar DOLLAR (params ++ DOLLAR :: (Model.B64.b64sEncode s ++ DOLLAR :: Model.B64.b64sEncode c)) =
      [params, Model.B64.b64sEncode s, Model.B64.b64sEncode c] := by
    rw [splitChar_append_sep DOLLAR _ _ hpd, splitChar_append_sep DOLLAR _ _ (not_mem_b64s s DOLLAR (Or.inl rfl)),
      splitChar_no_sep DOLLAR _ (not_mem_b64s c DOLLAR (Or.inl rfl))]
  have hps : splitChar 44 params = [ofString "ln=" ++ fmtDec (r : Int), ofString "r=" ++ fmtDec (b : Int), ofString "p=" ++ fmtDec (pp : Int)] := by
    have := split_join 44 [ofString "ln=" ++ fmtDec (r : Int), ofString "r=" ++ fmtDec (b : Int), ofString "p=" ++ fmtDec (pp : Int)] (by simp) (by
      intro f hf
      simp only [List.mem_cons, List.not_mem_nil, or_false] at hf
      rcases hf with h | h | h <;> subst h <;>
        (simp only [List.mem_append, not_or]; exact ⟨by decide, not_mem_fmtDec 44 (by decide) _⟩))
    simpa [joinChar, params] using this
  have hcne : c ≠ [] := by intro e; subst e; simp at hcl
  simp only [hsplit, resBind, hps, startsWith, prefix_append, Bool.and_self, if_true]
  have d1 : (ofString "ln=" ++ fmtDec (r : Int)).drop 3 = fmtDec (r : Int) := by simp [ofString]
  have d2 : (ofString "r=" ++ fmtDec (b : Int)).drop 2 = fmtDec (b : Int) := by simp [ofString]
  have d3 : (ofString "p=" ++ fmtDec (pp : Int)).drop 2 = fmtDec (pp : Int) := by simp [ofString]
  simp only [d1, d2, d3, pyInt_fmtDec, b64sS_roundtrip s hsw, b64sS_roundtrip c hcw, b64sEncode_isEmpty c hcne, Bool.false_eq_true, if_false,
    Except.map]
  unfold scryptInit
  have a1 : ¬ ((r : Int) < 1 ∨ (r : Int) > 31) := by omega
  have a2 : ¬ ((pp : Int) < 1) := by omega
  have a3 : ¬ ((b : Int) < 1) := by omega
  have a4 : ¬ (s.length > 1024) := by omega
  simp [hcl, a1, a2, a3, a4]

/-! ### scrypt, "$7$" form -/
structure Scrypt7WF (p : Parsed) : Prop where
  ident : p.ident = IDENT_7
  rounds : ∃ r : Nat, p.rounds = some (r : Int) ∧ 1 ≤ r ∧ r ≤ 31
  extra : ∃ b pp : Nat, p.extra = scryptExtra b pp ∧ 1 ≤ b ∧ b < 2 ^ 30 ∧ 1 ≤ pp ∧ pp < 2 ^ 30
  salt : ∃ s, p.salt = some s ∧ (∀ x ∈ s, x < 128) ∧ DOLLAR ∉ s ∧ s.length ≤ 1024
  chk : ∃ c, p.checksum = some c ∧ Bytes.WF c ∧ c.length = 32

open Model.B64 in
theorem h64_char (v : Nat) (hv : v < 64) : encode64 h64.charmap v < 128 ∧ encode64 h64.charmap v ≠ 36 := by
  have : ((List.range 64).all fun v => decide (encode64 h64.charmap v < 128) && (encode64 h64.charmap v != 36)) = true := by decide +kernel
  have := List.all_eq_true.1 this v (List.mem_range.2 hv)
  simpa using this

open Model.B64 in
theorem h64_mem_char : ∀ c ∈ h64.charmap, c < 128 ∧ c ≠ 36 := by decide

open Model.B64 in
theorem encodeInt30_h64 (v : Nat) : (encodeInt h64 v 30).length = 5 ∧ ∀ c ∈ encodeInt h64 v 30, c < 128 ∧ c ≠ 36 := by
  have hoff : encodeIntOffsets h64.big 30 = [0, 6, 12, 18, 24] := by decide
  unfold encodeInt
  simp only [hoff]
  refine ⟨by simp, ?_⟩
  intro c hc
  rcases List.mem_map.1 hc with ⟨off, _, rfl⟩
  have : ((if h64.big = true then v <<< ((6 - 30 % 6) % 6) else v) >>> off) &&& 63 < 64 := by
    have := @Nat.and_le_right ((if h64.big = true then v <<< ((6 - 30 % 6) % 6) else v) >>> off) 63
    omega
  exact h64_char _ this

theorem not_scrypt_ident (x : Str) : stripPrefix IDENT_SCRYPT (IDENT_7 ++ x) = none := by
  apply stripPrefix_none
  simp [IDENT_SCRYPT, IDENT_7, ofString, List.isPrefixOf]

open Model.B64 Lemmas.B64 in
theorem h64_ok : CharmapOK h64.charmap := by decide

open Model.B64 Lemmas.B64 in
theorem scrypt7_roundtrip (p : Parsed) (h : Scrypt7WF p) : resBind (scryptRender p) scryptParse = .ok (some p) := by
  obtain ⟨hi, ⟨r, hr, hr1, hr2⟩, ⟨b, pp, he, hb1, hb2, hp1, hp2⟩, ⟨s, hs, hsa, hsd, hsl⟩, ⟨c, hc, hcw, hcl⟩⟩ := h
  obtain ⟨pi, pr, ps, pc, pe⟩ := p
  simp only at hi hr he hs hc
  subst hi hr he hs hc
  have hne : IDENT_7 ≠ IDENT_SCRYPT := by decide
  have hasc : mIsAscii s = true := all_of_forall fun x hx => by simpa using hsa x hx
  have hmax : Gen.B64.encode_int30_max = 2 ^ 30 - 1 := by decide
  have e6 : encodeInt6 h64 r = .ok [encode64 h64.charmap r] := by
    unfold encodeInt6; have : ¬ (r > 63) := by omega
    simp [this]
  have eb : encodeInt30 h64 b = .ok (encodeInt h64 b 30) := by
    unfold encodeInt30; have : ¬ (b > Gen.B64.encode_int30_max) := by rw [hmax]; omega
    simp [this, Gen.B64.encode_int30_bits]
  have ep : encodeInt30 h64 pp = .ok (encodeInt h64 pp 30) := by
    unfold encodeInt30; have : ¬ (pp > Gen.B64.encode_int30_max) := by rw [hmax]; omega
    simp [this, Gen.B64.encode_int30_bits]
  let r6 : Str := [encode64 h64.charmap r]
  let params := r6 ++ (encodeInt h64 b 30 ++ (encodeInt h64 pp 30 ++ s))
  have hrender : scryptRender ⟨IDENT_7, some (r : Int), some s, some c, scryptExtra b pp⟩ =
      .ok (IDENT_7 ++ (params ++ DOLLAR :: encodeBytes h64 c)) := by
    simp [scryptRender, hne, extraNat, scryptExtra, natField, List.find?, hasc, e6, eb, ep, resBind, params, r6, hsd]
  rw [hrender]
  simp only [resBind]
  unfold scryptParse
  rw [not_scrypt_ident, stripPrefix_append]
  simp only []
  unfold scryptParse7
  obtain ⟨lb, cb⟩ := encodeInt30_h64 b
  obtain ⟨lp, cp⟩ := encodeInt30_h64 pp
  have hr6 := h64_char r (by omega)
  have hHc : ∀ x ∈ encodeBytes h64 c, x < 128 ∧ x ≠ 36 := fun x hx => h64_mem_char x (encode_alphabet h64 h64_ok c hcw x hx)
  have hparams : ∀ x ∈ params, x < 128 ∧ x ≠ 36 := by
    intro x hx
    simp only [params, r6, List.mem_append, List.mem_cons, List.not_mem_nil, or_false] at hx
    rcases hx with h | h | h | h
    · subst h; exact hr6
    · exact cb x h
    · exact cp x h
    · exact ⟨hsa x h, fun e => hsd (by rw [e] at h; exact h)⟩
  have hasc2 : mIsAscii (params ++ DOLLAR :: encodeBytes h64 c) = true := by
    apply all_of_forall
    intro x hx
    rcases List.mem_append.1 hx with h | h
    · simpa using (hparams x h).1
    · rcases List.mem_cons.1 h with h | h
      · subst h; decide
      · simpa using (hHc x h).1
  have hpd : DOLLAR ∉ params := fun hm => (hparams DOLLAR hm).2 rfl
  have hcd : DOLLAR ∉ encodeBytes h64 c := fun hm => (hHc DOLLAR hm).2 rfl
  have hsplit : splitChar DOLLAR (params ++ DOLLAR :: encodeBytes h64 c) = [params, encodeBytes h64 c] := by
    rw [splitChar_append_sep DOLLAR _ _ hpd, splitChar_no_sep DOLLAR _ hcd]
  have hlen : ¬ (params.length < 11) := by simp [params, r6, lb, lp]; omega
  have t1 : params.take 1 = r6 := by simp [params, r6]
  have t2 : (params.drop 1).take 5 = encodeInt h64 b 30 := by
    have : params.drop 1 = encodeInt h64 b 30 ++ (encodeInt h64 pp 30 ++ s) := by simp [params, r6]
    rw [this, ← lb]; simp
  have t3 : (params.drop 6).take 5 = encodeInt h64 pp 30 := by
    have : params.drop 6 = encodeInt h64 pp 30 ++ s := by
      have e : params = (r6 ++ encodeInt h64 b 30) ++ (encodeInt h64 pp 30 ++ s) := by simp [params]
      have l : (r6 ++ encodeInt h64 b 30).length = 6 := by simp [r6, lb]
      rw [e, ← l]; simp
    rw [this, ← lp]; simp
  have t4 : params.drop 11 = s := by
    have e : params = (r6 ++ encodeInt h64 b 30 ++ encodeInt h64 pp 30) ++ s := by simp [params]
    have l : (r6 ++ encodeInt h64 b 30 ++ encodeInt h64 pp 30).length = 11 := by simp [r6, lb, lp]
    rw [e, ← l]; simp
  have d6 : decodeInt6 h64 r6 = .ok r := by
    simp only [decodeInt6, r6, encode64, h64_ok.2 r (by omega)]
  have hce : (encodeBytes h64 c).isEmpty = false := by
    have := encode_length h64 c
    cases hb : encodeBytes h64 c with
    | nil => rw [hb] at this; simp [hcl] at this
    | cons _ _ => rfl
  simp only [hasc2, Bool.not_true, Bool.false_eq_true, if_false, hsplit, resBind, hlen, t1, t2, t3, t4, d6,
    decodeInt_encodeInt h64 h64_ok 30 b hb2, decodeInt_encodeInt h64 h64_ok 30 pp hp2, hce,
    Lemmas.B64.decode_encode h64 h64_ok c hcw, Except.map]
  unfold scryptInit
  have a1 : ¬ ((r : Int) < 1 ∨ (r : Int) > 31) := by omega
  have a2 : ¬ ((pp : Int) < 1) := by omega
  have a3 : ¬ ((b : Int) < 1) := by omega
  have a4 : ¬ (s.length > 1024) := by omega
  simp [hcl, a1, a2, a3, a4]

/-! ### argon2 (with a loaded backend) -/
structure Argon2WF (p : Parsed) : Prop where
  ident : p.ident = []
  rounds : ∃ t : Nat, p.rounds = some (t : Int) ∧ 1 ≤ t ∧ t ≤ 4294967295
  salt : ∃ s, p.salt = some s ∧ Bytes.WF s ∧ 8 ≤ s.length
  chk : ∃ c, p.checksum = some c ∧ Bytes.WF c ∧ c ≠ []
  extra : ∃ (ty : Str) (ver m pp : Nat) (dat : Str),
    p.extra = [("type", ty), ("version", natField ver), ("memory_cost", natField m), ("parallelism", natField pp), ("data", dat)] ∧
    ty ∈ argon2Types ∧ (ver = 16 ∨ ver = 19) ∧ 8 ≤ m ∧ 1 ≤ pp ∧ (dat = [48] ∨ ∃ d, dat = 49 :: d ∧ Bytes.WF d ∧ d ≠ [])

theorem utf8_ascii : ∀ s : Str, mIsAscii s = true → utf8 s = s
  | [], _ => rfl
  | c :: s, h => by
    simp only [mIsAscii, List.all_cons, Bool.and_eq_true, decide_eq_true_eq] at h
    have ih := utf8_ascii s (by simpa [mIsAscii] using h.2)
    unfold utf8 at ih ⊢
    simp only [List.flatMap_cons, utf8Cp, h.1, if_true, ih, List.cons_append, List.nil_append]

theorem isAscii_append (a b : Str) : mIsAscii (a ++ b) = (mIsAscii a && mIsAscii b) := by simp [mIsAscii, List.all_append]
theorem isAscii_cons (c : Nat) (b : Str) : mIsAscii (c :: b) = (decide (c < 128) && mIsAscii b) := by simp [mIsAscii]
theorem isAscii_fmtDec (n : Nat) : mIsAscii (fmtDec (n : Int)) = true :=
  all_of_forall fun c hc => by have := fmtDec_digits n c hc; simp; omega

/-- the optional `v=<n>$` group and what `int(version) if version else 0x10` makes of it -/
theorem argon_ver (ver : Nat) (hv : ver = 16 ∨ ver = 19) (rest : Str) :
    ∃ vg, argonVersion ((if ver = 16 then [] else ofString "v=" ++ fmtDec (ver : Int) ++ [DOLLAR]) ++ (ofString "m=" ++ rest)) =
        some (vg, ofString "m=" ++ rest) ∧
      ((vg = none ∧ ver = 16) ∨ ∃ v, vg = some v ∧ pyInt v = .ok (ver : Int)) := by
  rcases hv with h | h
  · subst h
    refine ⟨none, ?_, Or.inl ⟨rfl, rfl⟩⟩
    have : lit (ofString "v=") (ofString "m=" ++ rest) = none := by
      apply stripPrefix_none; simp [ofString, List.isPrefixOf]
    simp [argonVersion, this]
  · subst h
    refine ⟨some (fmtDec ((19 : Nat) : Int)), ?_, Or.inr ⟨_, rfl, pyInt_fmtDec 19⟩⟩
    have e : (if (19 : Nat) = 16 then [] else ofString "v=" ++ fmtDec ((19 : Nat) : Int) ++ [DOLLAR]) ++ (ofString "m=" ++ rest) =
        ofString "v=" ++ (fmtDec ((19 : Nat) : Int) ++ DOLLAR :: (ofString "m=" ++ rest)) := by simp
    rw [e]
    have hsc := scan_fmtDecA 19 DOLLAR (ofString "m=" ++ rest) (by decide)
    have hl : lit [DOLLAR] (DOLLAR :: (ofString "m=" ++ rest)) = some (ofString "m=" ++ rest) := lit_append [DOLLAR] _
    simp only [argonVersion, lit_append, argonNum, Option.bind_some, hsc.1, hsc.2, fmtDec_ne_nil, Bool.false_eq_true, if_false, hl, Option.map_some]

theorem argonNum_ok (key : Str) (n : Nat) (c : Nat) (rest : Str) (hc : isADigit c = false) :
    argonNum key (key ++ (fmtDec (n : Int) ++ c :: rest)) = some (fmtDec (n : Int), c :: rest) := by
  have hsc := scan_fmtDecA n c rest hc
  simp only [argonNum, lit_append, Option.bind_some, hsc.1, hsc.2, fmtDec_ne_nil, Bool.false_eq_true, if_false]

/-- the optional `,keyid=` / `,data=` groups on what the renderer emits -/
theorem argon_data (dat : Str) (hd : dat = [48] ∨ ∃ d, dat = 49 :: d ∧ Bytes.WF d ∧ d ≠ []) (tail : Str) :
    ∃ dg dv, argonOpt (ofString ",keyid=") ((if (dat.drop 1).isEmpty then [] else ofString ",data=" ++ Model.B64.b64sEncode (dat.drop 1)) ++ DOLLAR :: tail) =
        (none, (if (dat.drop 1).isEmpty then [] else ofString ",data=" ++ Model.B64.b64sEncode (dat.drop 1)) ++ DOLLAR :: tail) ∧
      argonOpt (ofString ",data=") ((if (dat.drop 1).isEmpty then [] else ofString ",data=" ++ Model.B64.b64sEncode (dat.drop 1)) ++ DOLLAR :: tail) =
        (dg, DOLLAR :: tail) ∧
      optDecode dg = .ok dv ∧ (match dv with | some d => 49 :: d | none => [48]) = dat ∧
      ∃ c0 r0, (if (dat.drop 1).isEmpty then [] else ofString ",data=" ++ Model.B64.b64sEncode (dat.drop 1)) ++ DOLLAR :: tail = c0 :: r0 ∧ isADigit c0 = false ∧
        mIsAscii ((if (dat.drop 1).isEmpty then [] else ofString ",data=" ++ Model.B64.b64sEncode (dat.drop 1))) = true := by
  rcases hd with h | ⟨d, h, hw, hne⟩
  · subst h
    refine ⟨none, none, ?_, ?_, rfl, rfl, DOLLAR, tail, by simp, by decide, by simp [mIsAscii]⟩
    · have : lit (ofString ",keyid=") (DOLLAR :: tail) = none := by apply stripPrefix_none; simp [ofString, List.isPrefixOf, DOLLAR]
      simp [argonOpt, this]
    · have : lit (ofString ",data=") (DOLLAR :: tail) = none := by apply stripPrefix_none; simp [ofString, List.isPrefixOf, DOLLAR]
      simp [argonOpt, this]
  · subst h
    have hde : d.isEmpty = false := by cases d <;> simp_all
    have he : (if ((49 :: d).drop 1).isEmpty then [] else ofString ",data=" ++ Model.B64.b64sEncode ((49 :: d).drop 1)) ++ DOLLAR :: tail =
        ofString ",data=" ++ (Model.B64.b64sEncode d ++ DOLLAR :: tail) := by simp [hde]
    refine ⟨some (Model.B64.b64sEncode d), some d, ?_, ?_, ?_, rfl, 44, ofString "data=" ++ (Model.B64.b64sEncode d ++ DOLLAR :: tail), ?_, by decide, ?_⟩
    · rw [he]
      have : lit (ofString ",keyid=") (ofString ",data=" ++ (Model.B64.b64sEncode d ++ DOLLAR :: tail)) = none := by
        apply stripPrefix_none; simp [ofString, List.isPrefixOf]
      simp [argonOpt, this]
    · rw [he]
      have hsc := takeWhile_stop (fun c => c ≠ 44 && c ≠ DOLLAR) (Model.B64.b64sEncode d) DOLLAR tail
        (fun x hx => by have := b64sEncode_facts d x hx; simp [this.2.1, this.2.2.1, DOLLAR]) (by simp)
      simp only [argonOpt, lit_append, hsc.1, hsc.2, b64sEncode_isEmpty d hne, Bool.false_eq_true, if_false]
    · simp [optDecode, b64sB_roundtrip d hw, Except.map]
    · rw [he]; simp [ofString]
    · simp [hde, isAscii_append, mIsAscii, ofString]
      exact fun x hx => (b64sEncode_facts d x hx).1

theorem argon_tail (s c : Bytes) (hs : s ≠ []) (hc : c ≠ []) :
    argonTail (DOLLAR :: (Model.B64.b64sEncode s ++ DOLLAR :: Model.B64.b64sEncode c)) =
      some (some (Model.B64.b64sEncode s), some (Model.B64.b64sEncode c)) := by
  have h1 := takeWhile_stop (fun x => decide (x ≠ DOLLAR)) (Model.B64.b64sEncode s) DOLLAR (Model.B64.b64sEncode c)
    (fun x hx => by have := b64sEncode_facts s x hx; simp [this.2.1, DOLLAR]) (by simp)
  have h2 := takeWhile_all isDot (Model.B64.b64sEncode c) (fun x hx => by have := b64sEncode_facts c x hx; simp [isDot, this.2.2.2.2.1])
  show argonTail (36 :: _) = _
  simp only [argonTail]
  simp only [h1.1, h1.2, h2.1, h2.2, b64sEncode_isEmpty s hs, b64sEncode_isEmpty c hc, Bool.false_eq_true, if_false, atEnd]
  simp

theorem argon2_roundtrip (p : Parsed) (h : Argon2WF p) : resBind (argon2Render p) (argon2Parse true) = .ok (some p) := by
  obtain ⟨hi, ⟨t, hr, ht1, ht2⟩, ⟨s, hs, hsw, hsl⟩, ⟨c, hc, hcw, hcne⟩, ⟨ty, ver, m, pp, dat, he, hty, hver, hm, hpp, hdat⟩⟩ := h
  obtain ⟨pi, pr, ps, pc, pe⟩ := p
  simp only at hi hr he hs hc
  subst hi hr he hs hc
  have hsne : s ≠ [] := by intro e; subst e; simp at hsl
  -- facts about the type tag
  have htyf : ty.all isLower = true ∧ ty.isEmpty = false ∧ mIsAscii ty = true := by
    simp only [argon2Types, List.mem_cons, List.not_mem_nil, or_false] at hty
    rcases hty with h | h | h <;> subst h <;> decide
  let kd : Str := if (dat.drop 1).isEmpty then [] else ofString ",data=" ++ Model.B64.b64sEncode (dat.drop 1)
  let vs : Str := if ver = 16 then [] else ofString "v=" ++ fmtDec (ver : Int) ++ [DOLLAR]
  let tail : Str := Model.B64.b64sEncode s ++ DOLLAR :: Model.B64.b64sEncode c
  let body : Str := ofString "m=" ++ (fmtDec (m : Int) ++ (ofString ",t=" ++ (fmtDec (t : Int) ++ (ofString ",p=" ++ (fmtDec (pp : Int) ++ (kd ++ DOLLAR :: tail))))))
  have hrender : argon2Render ⟨[], some (t : Int), some s, some c,
      [("type", ty), ("version", natField ver), ("memory_cost", natField m), ("parallelism", natField pp), ("data", dat)]⟩ =
      .ok (ofString "$argon2" ++ (ty ++ DOLLAR :: (vs ++ body))) := by
    simp [argon2Render, extraNat, extraStr, natField, List.find?, body, kd, vs, tail]
  rw [hrender]
  simp only [resBind]
  obtain ⟨vg, hvg1, hvg2⟩ := argon_ver ver hver (fmtDec (m : Int) ++ (ofString ",t=" ++ (fmtDec (t : Int) ++ (ofString ",p=" ++ (fmtDec (pp : Int) ++ (kd ++ DOLLAR :: tail))))))
  obtain ⟨dg, dv, hk, hd, hdd, hdv, c0, r0, hc0, hc0d, hkda⟩ := argon_data dat hdat tail
  -- the whole string is ASCII, so its UTF-8 encoding is itself
  have hvsa : mIsAscii vs = true := by
    rcases hver with h | h
    · subst h; simp [vs, mIsAscii]
    · subst h
      have : mIsAscii (ofString "v=" ++ fmtDec ((19 : Nat) : Int) ++ [DOLLAR]) = true := by
        rw [isAscii_append, isAscii_append, isAscii_fmtDec]; decide
      simpa [vs] using this
  have hasc : mIsAscii (ofString "$argon2" ++ (ty ++ DOLLAR :: (vs ++ body))) = true := by
    simp only [body, tail, isAscii_append, isAscii_cons, htyf.2.2, hvsa, isAscii_fmtDec, b64sEncode_ascii, hkda, kd]
    decide
  unfold argon2Parse
  rw [utf8_ascii _ hasc]
  have hmatch : argonMatch (ofString "$argon2" ++ (ty ++ DOLLAR :: (vs ++ body))) =
      some ⟨ty, vg, fmtDec (m : Int), fmtDec (t : Int), fmtDec (pp : Int), none, dg, some (Model.B64.b64sEncode s), some (Model.B64.b64sEncode c)⟩ := by
    unfold argonMatch
    have h1 := takeWhile_stop isLower ty DOLLAR (vs ++ body) (forall_of_all htyf.1) (by decide)
    have hl : lit [DOLLAR] (DOLLAR :: (vs ++ body)) = some (vs ++ body) := lit_append [DOLLAR] _
    simp only [lit_append, Option.bind_some, h1.1, h1.2, htyf.2.1, Bool.false_eq_true, if_false, hl]
    simp only [vs, body] at hvg1 ⊢
    rw [hvg1]
    simp only [Option.bind_some]
    have n1 := argonNum_ok (ofString "m=") m 44 (ofString "t=" ++ (fmtDec (t : Int) ++ (ofString ",p=" ++ (fmtDec (pp : Int) ++ (kd ++ DOLLAR :: tail))))) (by decide)
    have n2 := argonNum_ok (ofString ",t=") t 44 (ofString "p=" ++ (fmtDec (pp : Int) ++ (kd ++ DOLLAR :: tail))) (by decide)
    have n3 := argonNum_ok (ofString ",p=") pp c0 r0 hc0d
    have e1 : ofString ",t=" = 44 :: ofString "t=" := by decide
    have e2 : ofString ",p=" = 44 :: ofString "p=" := by decide
    simp only [kd] at n1 n2 n3 hc0 hk hd ⊢
    rw [← hc0] at n3
    simp only [e1, e2, List.cons_append] at n1 n2 n3 ⊢
    rw [n1]
    simp only [Option.bind_some]
    rw [n2]
    simp only [Option.bind_some]
    rw [n3]
    simp only [Option.bind_some, hk, hd, tail, argon_tail s c hsne hcne, Option.map_some]
  rw [hmatch]
  have a1 : ¬ (s.length < 8) := by omega
  have a2 : ¬ ((t : Int) < 1 ∨ (t : Int) > 4294967295) := by omega
  have a3 : ¬ ((pp : Int) < 1) := by omega
  have a4 : argon2Types.contains ty = true := by simpa using hty
  have a5 : ¬ ((ver : Int) < 19 ∧ (ver : Int) ≠ 16) := by omega
  have a6 : ¬ ((ver : Int) > 19) := by omega
  have a7 : ¬ ((m : Int) < 8) := by omega
  have hdec : ∃ db, optDecode dg = .ok db ∧ (match db with | some d => 49 :: d | none => [48]) = dat := ⟨dv, hdd, hdv⟩
  obtain ⟨db, hdb1, hdb2⟩ := hdec
  rcases hvg2 with ⟨h1, h2⟩ | ⟨v, h1, h2⟩
  · subst h1
    dsimp only
    rw [hdb1]
    simp only [Option.isSome_none, Bool.false_eq_true, if_false, resBind, pyInt_fmtDec, optDecode, b64sB_roundtrip s hsw,
      b64sB_roundtrip c hcw, Except.map]
    subst h2
    simp [a1, a2, a3, a4, a7, ← hdb2, hty]
    cases db <;> rfl
  · subst h1
    dsimp only
    rw [hdb1]
    simp only [Option.isSome_none, Bool.false_eq_true, if_false, resBind, pyInt_fmtDec, optDecode, b64sB_roundtrip s hsw,
      b64sB_roundtrip c hcw, Except.map, h2]
    simp [a1, a2, a3, a4, a5, a6, a7, ← hdb2, hty]
    cases db <;> rfl

/-! ### django_argon2 = "argon2" ++ argon2 -/
theorem django_argon2_roundtrip (p : Parsed) (h : Argon2WF p) :
    resBind (djangoArgon2Render p) (djangoArgon2Parse true) = .ok (some p) := by
  have := argon2_roundtrip p h
  unfold djangoArgon2Render
  cases hr : argon2Render p with
  | error e => rw [hr] at this; simp [resBind] at this
  | ok s =>
    rw [hr] at this
    simp only [resBind] at this
    simp only [Except.map, resBind, djangoArgon2Parse, stripPrefix_append, this]

/-- identify: what the renderers emit is recognised -/
theorem argon2_identify_render (p : Parsed) (h : Argon2WF p) :
    ∃ s, argon2Render p = .ok s ∧ argon2Identify s = true ∧ djangoArgon2Identify (DJANGO_ARGON2_PREFIX ++ s) = true := by
  obtain ⟨hi, ⟨t, hr, ht1, ht2⟩, ⟨s, hs, hsw, hsl⟩, ⟨c, hc, hcw, hcne⟩, ⟨ty, ver, m, pp, dat, he, hty, hver, hm, hpp, hdat⟩⟩ := h
  obtain ⟨pi, pr, ps, pc, pe⟩ := p
  simp only at hi hr he hs hc
  subst hi hr he hs hc
  have htyf : ty.all isLower = true ∧ ty.isEmpty = false := by
    simp only [argon2Types, List.mem_cons, List.not_mem_nil, or_false] at hty
    rcases hty with h | h | h <;> subst h <;> decide
  simp only [argon2Render, extraStr, List.find?, decide_true, decide_false]
  refine ⟨_, rfl, ?_, ?_⟩
  · unfold argon2Identify
    have h1 := takeWhile_stop isLower ty DOLLAR
    simp only [lit_append]
    simp only [List.append_assoc, List.cons_append]
    rw [(h1 _ (forall_of_all htyf.1) (by decide)).1, (h1 _ (forall_of_all htyf.1) (by decide)).2]
    simp [htyf.2]
  · unfold djangoArgon2Identify argon2Identify
    have h1 := takeWhile_stop isLower ty DOLLAR
    simp only [stripPrefix_append, lit_append]
    simp only [List.append_assoc, List.cons_append]
    rw [(h1 _ (forall_of_all htyf.1) (by decide)).1, (h1 _ (forall_of_all htyf.1) (by decide)).2]
    simp [htyf.2]

end Lemmas.FormatsMisc
