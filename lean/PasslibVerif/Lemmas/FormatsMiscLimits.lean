import PasslibVerif.Lemmas.FormatsMiscBase
/-
"WF of parse" for the passlib hashers of the Misc family: whatever `from_string` accepts reports settings inside
the limits of the format (cost ranges, salt / checksum sizes, known variant / type / version).
-/
set_option linter.unusedSimpArgs false
namespace Lemmas.FormatsMisc
open Py Model.Handler Model.Formats Lemmas.Handler

theorem resBind_ok {α β} {r : Res α} {f : α → Res β} {x : β} (h : resBind r f = .ok x) : ∃ a, r = .ok a ∧ f a = .ok x := by
  cases r with
  | error e => simp [resBind] at h
  | ok a => exact ⟨a, rfl, h⟩

theorem vErr_ne_ok {α} {x : α} : (vErr : Res α) ≠ .ok x := by simp [vErr]
theorem tErr_ne_ok {α} {x : α} : (tErr : Res α) ≠ .ok x := by simp [tErr]

/-! ### scrypt -/
structure ScryptLimits (q : Parsed) : Prop where
  ident : q.ident = IDENT_SCRYPT ∨ q.ident = IDENT_7
  rounds : ∃ r : Int, q.rounds = some r ∧ 1 ≤ r ∧ r ≤ 31
  extra : ∃ b pp : Nat, q.extra = scryptExtra b pp ∧ 1 ≤ b ∧ 1 ≤ pp
  salt : ∃ s, q.salt = some s ∧ s.length ≤ 1024
  chk : ∀ c, q.checksum = some c → c.length = 32

theorem ite_vErr {α} {c : Prop} [Decidable c] {x : Res α} {y : α} (h : (if c then vErr else x) = .ok y) : ¬ c ∧ x = .ok y := by
  by_cases hc : c
  · rw [if_pos hc] at h; exact absurd h vErr_ne_ok
  · rw [if_neg hc] at h; exact ⟨hc, h⟩

theorem scryptInit_limits (id : Str) (hid : id = IDENT_SCRYPT ∨ id = IDENT_7) (r b pp : Int) (s : Bytes) (c : Option Bytes) (q : Parsed)
    (h : scryptInit id r b pp s c = .ok (some q)) : ScryptLimits q := by
  unfold scryptInit at h
  obtain ⟨hc, h⟩ := ite_vErr h
  obtain ⟨hs, h⟩ := ite_vErr h
  obtain ⟨hr, h⟩ := ite_vErr h
  obtain ⟨hp, h⟩ := ite_vErr h
  obtain ⟨hb, h⟩ := ite_vErr h
  simp only [Except.ok.injEq, Option.some.injEq] at h
  subst h
  refine ⟨hid, ⟨r, rfl, by omega, by omega⟩, ⟨b.toNat, pp.toNat, rfl, by omega, by omega⟩, ⟨s, rfl, by omega⟩, ?_⟩
  intro x hx
  simp only at hx
  subst hx
  simpa using hc

theorem scrypt_parse_limits (s : Str) (q : Parsed) (h : scryptParse s = .ok (some q)) : ScryptLimits q := by
  unfold scryptParse at h
  split at h
  · -- "$scrypt$"
    unfold scryptParseScrypt at h
    obtain ⟨⟨_, _, _⟩, _, h⟩ := resBind_ok h
    obtain ⟨⟨_, _, _⟩, _, h⟩ := resBind_ok h
    obtain ⟨_, _, h⟩ := resBind_ok h
    obtain ⟨_, _, h⟩ := resBind_ok h
    obtain ⟨_, _, h⟩ := resBind_ok h
    obtain ⟨_, _, h⟩ := resBind_ok h
    obtain ⟨_, _, h⟩ := resBind_ok h
    exact scryptInit_limits _ (Or.inl rfl) _ _ _ _ _ _ h
  · split at h
    · unfold scryptParse7 at h
      split at h
      · exact absurd h vErr_ne_ok
      · obtain ⟨⟨_, _⟩, _, h⟩ := resBind_ok h
        simp only at h
        split at h
        · exact absurd h vErr_ne_ok
        · obtain ⟨_, _, h⟩ := resBind_ok h
          obtain ⟨_, _, h⟩ := resBind_ok h
          obtain ⟨_, _, h⟩ := resBind_ok h
          obtain ⟨_, _, h⟩ := resBind_ok h
          exact scryptInit_limits _ (Or.inr rfl) _ _ _ _ _ _ h
    · exact absurd h vErr_ne_ok

/-! ### fshp -/
structure FshpLimits (q : Parsed) : Prop where
  ident : q.ident = FSHP_IDENT
  rounds : ∃ r : Int, q.rounds = some r ∧ 1 ≤ r ∧ r ≤ 4294967295
  variant : ∃ v : Nat, q.extra = [("variant", natField v)] ∧ v < 4 ∧ ∃ c, q.checksum = some c ∧ fshpChecksumSize (v : Int) = some c.length
  salt : ∃ s, q.salt = some s

theorem fshp_parse_limits (s : Str) (q : Parsed) (h : fshpParse s = .ok (some q)) : FshpLimits q := by
  unfold fshpParse at h
  split at h
  · exact absurd h vErr_ne_ok
  · obtain ⟨variant, _, h⟩ := resBind_ok h
    obtain ⟨saltSize, _, h⟩ := resBind_ok h
    obtain ⟨rounds, _, h⟩ := resBind_ok h
    obtain ⟨raw, _, h⟩ := resBind_ok h
    simp only at h
    cases hsz : fshpChecksumSize variant with
    | none => rw [hsz] at h; exact absurd h vErr_ne_ok
    | some sz =>
      rw [hsz] at h
      simp only at h
      obtain ⟨hl, h⟩ := ite_vErr h
      obtain ⟨hr, h⟩ := ite_vErr h
      simp only [Except.ok.injEq, Option.some.injEq] at h
      subst h
      have hv : 0 ≤ variant ∧ variant < 4 := by
        unfold fshpChecksumSize at hsz
        by_cases h0 : variant = 0
        · omega
        · by_cases h1 : variant = 1
          · omega
          · by_cases h2 : variant = 2
            · omega
            · by_cases h3 : variant = 3
              · omega
              · simp [h0, h1, h2, h3] at hsz
      refine ⟨rfl, ⟨rounds, rfl, by omega, by omega⟩, ⟨variant.toNat, rfl, by omega, _, rfl, ?_⟩, ⟨_, rfl⟩⟩
      have : ((variant.toNat : Nat) : Int) = variant := Int.toNat_of_nonneg hv.1
      rw [this, hsz]
      simp only [ne_eq, Decidable.not_not] at hl
      rw [hl]

/-! ### argon2 -/
structure Argon2Limits (q : Parsed) : Prop where
  rounds : ∃ t : Int, q.rounds = some t ∧ 1 ≤ t ∧ t ≤ 4294967295
  salt : ∃ s, q.salt = some s ∧ 8 ≤ s.length
  extra : ∃ (ty : Str) (ver m pp : Nat) (dat : Str),
    q.extra = [("type", ty), ("version", natField ver), ("memory_cost", natField m), ("parallelism", natField pp), ("data", dat)] ∧
    ty ∈ argon2Types ∧ (ver = 16 ∨ ver = 19) ∧ 8 ≤ m ∧ 1 ≤ pp

theorem argon2_parse_limits (backend : Bool) (s : Str) (q : Parsed) (h : argon2Parse backend s = .ok (some q)) : Argon2Limits q := by
  unfold argon2Parse at h
  cases hm : argonMatch (utf8 s) with
  | none => rw [hm] at h; exact absurd h vErr_ne_ok
  | some g =>
    rw [hm] at h
    simp only at h
    by_cases hk : g.keyid.isSome = true
    · rw [if_pos hk] at h; cases h
    · rw [if_neg hk] at h
      obtain ⟨version, _, h⟩ := resBind_ok h
      obtain ⟨memory, _, h⟩ := resBind_ok h
      obtain ⟨rounds, _, h⟩ := resBind_ok h
      obtain ⟨par, _, h⟩ := resBind_ok h
      obtain ⟨salt, _, h⟩ := resBind_ok h
      obtain ⟨data, _, h⟩ := resBind_ok h
      obtain ⟨chk, _, h⟩ := resBind_ok h
      cases salt with
      | none => exact absurd h tErr_ne_ok
      | some saltB =>
        simp only at h
        obtain ⟨h1, h⟩ := ite_vErr h
        obtain ⟨h2, h⟩ := ite_vErr h
        obtain ⟨h3, h⟩ := ite_vErr h
        obtain ⟨h4, h⟩ := ite_vErr h
        obtain ⟨h5, h⟩ := ite_vErr h
        by_cases hb : (!backend) = true
        · rw [if_pos hb] at h; cases h
        · rw [if_neg hb] at h
          obtain ⟨h6, h⟩ := ite_vErr h
          obtain ⟨h7, h⟩ := ite_vErr h
          simp only [Except.ok.injEq, Option.some.injEq] at h
          subst h
          have hty : g.type ∈ argon2Types := by simpa using h4
          exact ⟨⟨rounds, rfl, by omega, by omega⟩, ⟨saltB, rfl, by omega⟩,
            ⟨g.type, version.toNat, memory.toNat, par.toNat, _, rfl, hty, by omega, by omega, by omega⟩⟩

theorem django_argon2_parse_limits (backend : Bool) (s : Str) (q : Parsed) (h : djangoArgon2Parse backend s = .ok (some q)) : Argon2Limits q := by
  unfold djangoArgon2Parse at h
  split at h
  · exact absurd h vErr_ne_ok
  · exact argon2_parse_limits backend _ q h

/-! ### scram -/
structure ScramLimits (q : Parsed) : Prop where
  ident : q.ident = SCRAM_IDENT
  rounds : ∃ r : Int, q.rounds = some r ∧ 1 ≤ r ∧ r ≤ 4294967295
  salt : ∃ s, q.salt = some s ∧ s.length ≤ 1024
  algs : ∃ algs : List Str, q.extra = [("algs", joinChar 44 algs)] ∧ SHA1 ∈ algs ∧ ∀ a ∈ algs, a.length ≤ 9

theorem normAlgs_limits (l a : List Str) (h : scramNormAlgs l = .ok a) : SHA1 ∈ a ∧ ∀ x ∈ a, x.length ≤ 9 := by
  unfold scramNormAlgs at h
  obtain ⟨l', _, h⟩ := resBind_ok h
  simp only at h
  obtain ⟨h1, h⟩ := ite_vErr h
  obtain ⟨h2, h⟩ := ite_vErr h
  simp only [Except.ok.injEq] at h
  subst h
  refine ⟨by simpa using h2, ?_⟩
  intro x hx
  have : ¬ (x.length > 9) := by
    intro hgt
    apply h1
    rw [List.any_eq_true]
    exact ⟨x, hx, by simpa using hgt⟩
  omega

theorem scram_parse_limits (s : Str) (q : Parsed) (h : scramParse s = .ok (some q)) : ScramLimits q := by
  unfold scramParse at h
  split at h
  · exact absurd h vErr_ne_ok
  · split at h
    · obtain ⟨rounds, _, h⟩ := resBind_ok h
      obtain ⟨_, h⟩ := ite_vErr h
      obtain ⟨salt, _, h⟩ := resBind_ok h
      obtain ⟨_, h⟩ := ite_vErr h
      split at h
      · obtain ⟨kvs, _, h⟩ := resBind_ok h
        obtain ⟨_, _, h⟩ := resBind_ok h
        obtain ⟨_, h⟩ := ite_vErr h
        obtain ⟨hs, h⟩ := ite_vErr h
        obtain ⟨hr, h⟩ := ite_vErr h
        obtain ⟨algs, ha, h⟩ := resBind_ok h
        simp only [Except.ok.injEq, Option.some.injEq] at h
        subst h
        have := normAlgs_limits _ _ ha
        exact ⟨rfl, ⟨rounds, rfl, by omega, by omega⟩, ⟨salt, rfl, by omega⟩, ⟨algs, rfl, this.1, this.2⟩⟩
      · obtain ⟨hs, h⟩ := ite_vErr h
        obtain ⟨hr, h⟩ := ite_vErr h
        obtain ⟨algs, ha, h⟩ := resBind_ok h
        simp only [Except.ok.injEq, Option.some.injEq] at h
        subst h
        have := normAlgs_limits _ _ ha
        exact ⟨rfl, ⟨rounds, rfl, by omega, by omega⟩, ⟨salt, rfl, by omega⟩, ⟨algs, rfl, this.1, this.2⟩⟩
    · exact absurd h vErr_ne_ok

end Lemmas.FormatsMisc
