import PasslibVerif.Lemmas.C01StaticMore
import PasslibVerif.Lemmas.PyStr
/-
C01, `Static` family: where the model of a class applies the interpreter's `str.lower()` / `str.upper()` to decoded text
(msdcc / msdcc2 user name, oracle10 user + password, mssql2000 / mssql2005 password), the checksum it computes IS the published
specification (Spec/Formats/Digests.lean, DesBased.lean — whose case mapping covers ASCII letters) for ASCII input.
-/
namespace Lemmas.C01Static
open Py Model.Handler Model.Formats Model.Verify Model.VerifyFmt.Static Lemmas.PyStr

/-- ASCII bytes decode (strictly) to themselves -/
theorem strictDecode_ascii : ∀ b : Bytes, Ascii b → Model.TotpSerial.utf8Decode b = some b
  | [], _ => rfl
  | c :: rest, h => by
    obtain ⟨hc, hr⟩ := ascii_cons h
    unfold Model.TotpSerial.utf8Decode
    have : c < 0x80 := hc
    simp only [this, if_true, strictDecode_ascii rest hr, Option.map_some]

theorem decodeUtf8_ascii (b : Bytes) (h : Ascii b) : decodeUtf8 b = .ok b := by
  unfold decodeUtf8; rw [strictDecode_ascii b h]

theorem utf8Ok_ascii (b : Bytes) (h : Ascii b) : utf8Ok b = true := by
  unfold utf8Ok; rw [strictDecode_ascii b h]; rfl

theorem scalars_ascii (b : Bytes) (h : Ascii b) : Spec.Formats.utf8Scalars b = b :=
  Lemmas.C02Formats.utf8Decode_ascii _ _ (Nat.le_refl _) h

theorem asciiLower_eq : asciiLower = Spec.Formats.lowerAscii := rfl
theorem asciiUpper_eq : asciiUpper = Spec.Formats.upperAscii := rfl

/-- msdcc / msdcc2: the salt bytes made from an ASCII user name are the specification's -/
theorem dccUserOf_ascii (u : Bytes) (h : Ascii u) : dccUserOf (some u) = .ok (Spec.Formats.dccUser u) := by
  unfold dccUserOf userText Spec.Formats.dccUser
  simp only [decodeUtf8_ascii u h, scalars_ascii u h, Except.map, pyLower_ascii u h, asciiLower_eq]
  rfl

theorem msdcc_eq_spec (u b : Bytes) (hu : Ascii u) (hb : utf8Ok b = true) : msdccDigest (some u) b = .ok (Spec.Formats.msdcc b u) := by
  unfold msdccDigest msdccRawOf
  rw [if_pos hb, dccUserOf_ascii u hu]
  rfl

theorem msdcc2_eq_spec (u b : Bytes) (hu : Ascii u) (hb : utf8Ok b = true) : msdcc2Digest (some u) b = .ok (Spec.Formats.msdcc2 b u) := by
  unfold msdcc2Digest msdccRawOf
  rw [if_pos hb, dccUserOf_ascii u hu]
  rfl

/-- oracle10 on an ASCII user name and an ASCII password -/
theorem oracle10_eq_spec (u b : Bytes) (hu : Ascii u) (hb : Ascii b) : oracle10Digest (some u) b = .ok (Spec.Formats.oracle10 b u) := by
  unfold oracle10Digest userText
  simp only [decodeUtf8_ascii b hb, decodeUtf8_ascii u hu, Except.map]
  unfold oracle10OfText Spec.Formats.oracle10 utf16beOf
  rw [scalars_ascii u hu, scalars_ascii b hb, pyUpper_ascii (u ++ b) (ascii_append hu hb), asciiUpper_eq]

/-- mssql2005 / mssql2000 on an ASCII password: the rendered string is the specification's whole string -/
theorem mssql2005_eq_spec (b salt : Bytes) (hb : Ascii b) :
    (mssql2005Digest b (saltSettings [] salt)).map (fun c => mssqlRender { saltSettings [] salt with checksum := some c }) =
      .ok (Spec.Formats.mssql2005 b salt) := by
  unfold mssql2005Digest
  rw [decodeUtf8_ascii b hb]
  simp only [Except.map, saltSettings, Option.getD_some, mssqlRender, Spec.Formats.mssql2005, scalars_ascii b hb]
  rfl

theorem mssql2000_eq_spec (b salt : Bytes) (hb : Ascii b) :
    (mssql2000Digest b (saltSettings [] salt)).map (fun c => mssqlRender { saltSettings [] salt with checksum := some c }) =
      .ok (Spec.Formats.mssql2000 b salt) := by
  unfold mssql2000Digest
  rw [decodeUtf8_ascii b hb]
  simp only [Except.map, saltSettings, Option.getD_some, mssqlRender, Spec.Formats.mssql2000, scalars_ascii b hb,
    pyUpper_ascii b hb, asciiUpper_eq, List.append_assoc]
  rfl

end Lemmas.C01Static
