import PasslibVerif.Lemmas.Shapes
import PasslibVerif.Lemmas.FormatsStaticInst
import PasslibVerif.Lemmas.FormatsDesBcrypt
/-
`f.identify h = true → (idShape f).accepts h` for every scheme of the table (Model/Shapes.lean): the identify-shape
is a sound over-approximation of what the hasher claims.
-/
namespace Lemmas.Shapes
open Py Model.Handler Model.Formats Model.Shapes Lemmas.Formats Lemmas.Handler Lemmas.PyStr

/-! ### generic recognisers -/
theorem basic_pre_accepts (p h : Str) (hp : p.isPrefixOf h = true) : ({ pre := p } : Basic).accepts h = true := by
  rw [accepts_iff]
  exact ⟨hp, rfl, fun _ _ => rfl, fun hb => by cases hb⟩

theorem pfx_accepts (p h : Str) (hp : p.isPrefixOf h = true) : (pfx p).accepts h = true := by
  simp [pfx, Shape.accepts, basic_pre_accepts p h hp]

theorem pfxs_accepts (l : List Str) (h : Str) (hp : l.any (·.isPrefixOf h) = true) : (pfxs l).accepts h = true := by
  rw [List.any_eq_true] at hp
  obtain ⟨p, hpl, hph⟩ := hp
  unfold Shape.accepts pfxs
  rw [List.any_eq_true]
  exact ⟨{ pre := p }, List.mem_map_of_mem hpl, basic_pre_accepts p h hph⟩

theorem identByPrefix_acc (ident h : Str) (hi : identByPrefix ident h = true) : (pfx ident).accepts h = true := by
  unfold identByPrefix at hi
  simp only [Bool.and_eq_true] at hi
  exact pfx_accepts _ _ hi.2

theorem identAny_acc (idents : List Str) (h : Str) (hi : identAny idents h = true) : (pfxs idents).accepts h = true :=
  pfxs_accepts idents h hi

/-- a PrefixWrapper (`orig_prefix = ""`) claims `prefix + u` for the `u` its inner hasher claims -/
theorem wrap_acc (name : String) (p : Str) (inner : Format) (s : Shape)
    (hin : ∀ u, inner.identify u = true → s.accepts u = true) (h : Str)
    (hi : (wrapFormat name p [] inner).identify h = true) : (s.prepend p).accepts h = true := by
  simp only [wrapFormat, unwrapHash] at hi
  cases hs : stripPrefix p h with
  | none => simp [hs] at hi
  | some r =>
    simp only [hs, Option.map_some, List.nil_append] at hi
    rw [stripPrefix_spec p h r hs]
    exact shape_prepend_accepts p s r (hin r hi)

theorem wrapIdentify_acc (p orig : Str) (inner : Str → Bool) (h : Str) (hi : wrapIdentify p orig inner h = true) :
    (pfx p).accepts h = true := by
  unfold wrapIdentify at hi
  simp only [Bool.and_eq_true] at hi
  exact pfx_accepts _ _ hi.1

/-! ### lists of characters -/
theorem all_has_oneOf (l s : List Nat) (h : allIn l s = true) : ∀ c ∈ s, (Cls.oneOf l).has c = true := by
  intro c hc
  simpa [Cls.has] using allIn_mem l s h c hc

theorem basic_lens_cls (n : Nat) (L l : List Nat) (h : Str) (hl : h.length = n) (hn : n ∈ L) (hc : allIn l h = true) :
    ({ lens := some L, cls := .oneOf l } : Basic).accepts h = true := by
  rw [accepts_iff]
  refine ⟨rfl, ?_, all_has_oneOf l h hc, fun hb => by cases hb⟩
  simp [lenOk, hl, hn]

theorem single_accepts (b : Basic) (h : Str) (hb : b.accepts h = true) : Shape.accepts [b] h = true := by
  simp [Shape.accepts, hb]

/-! ### case-folding hex digests (`str.lower()` on the whole string) -/
def rowsAllV (q : List Nat → Bool) (rows : List (List (Nat × List Nat))) : Bool :=
  rows.all fun row => row.all fun e => q e.2

theorem lookupRows_allV (q : List Nat → Bool) (rows : List (List (Nat × List Nat))) (hp : rowsAllV q rows = true)
    (c : Nat) (v : List Nat) (h : lookupRows rows c = some v) : q v = true := by
  induction rows with
  | nil => simp [lookupRows] at h
  | cons r rs ih =>
    unfold rowsAllV at hp
    rw [List.all_cons, Bool.and_eq_true] at hp
    unfold lookupRows at h
    cases hr : lookupRow r c with
    | some w =>
      simp only [hr, Option.some.injEq] at h
      obtain ⟨e, he, hv⟩ := lookupRow_mem r c w hr
      have := List.all_eq_true.1 hp.1 e he
      rw [hv, h] at this
      exact this
    | none =>
      simp only [hr] at h
      exact ih hp.2 h

/-- no non-ASCII code point lower-cases to hex digits only -/
theorem lowerMap_not_hex : rowsAllV (fun v => v.any fun x => !hexChars.contains x) Gen.PyCase.lowerMap = true := by
  decide +kernel

/-- no non-ASCII code point upper-cases to text that starts with an ASCII character other than a letter
    (in particular not with `*`), and never to the empty string -/
theorem upperMap_head : rowsAllV (fun v => match v with | [] => false | x :: _ => decide (65 ≤ x)) Gen.PyCase.upperMap = true := by
  decide +kernel

theorem lowerCp_hex (c : Nat) (h : allIn hexChars (lowerCp c) = true) : c < 128 ∧ asciiLower c ∈ hexChars := by
  unfold lowerCp at h
  by_cases hc : c < 128
  · simp only [hc, if_true] at h
    exact ⟨hc, allIn_mem _ _ h _ (List.mem_singleton.2 rfl)⟩
  · exfalso
    simp only [hc, if_false] at h
    cases hl : lookupRows Gen.PyCase.lowerMap c with
    | none =>
      simp only [hl, Option.getD_none] at h
      have := allIn_mem _ _ h c (List.mem_singleton.2 rfl)
      exact hc (hex_ascii c this)
    | some v =>
      simp only [hl, Option.getD_some] at h
      have := lookupRows_allV _ _ lowerMap_not_hex c v hl
      simp only [List.any_eq_true, Bool.not_eq_true', List.contains_eq_mem, decide_eq_false_iff_not] at this
      obtain ⟨x, hx, hn⟩ := this
      exact hn (allIn_mem _ _ h x hx)

theorem lowerAux_hex : ∀ (rb s : List Nat), allIn hexChars (lowerAux rb s) = true → ∀ c ∈ s, c < 128 ∧ asciiLower c ∈ hexChars
  | _, [], _ => by simp
  | rb, c :: rest, h => by
    unfold lowerAux at h
    rw [allIn_append, Bool.and_eq_true] at h
    have ih := lowerAux_hex (c :: rb) rest h.2
    intro x hx
    rcases List.mem_cons.1 hx with rfl | hx
    · by_cases hs : x = SIGMA
      · exfalso
        have h1 := h.1
        simp only [hs, if_true] at h1
        have := allIn_mem _ _ h1 _ (List.mem_singleton.2 rfl)
        revert this
        split <;> decide
      · have h1 := h.1
        simp only [hs, if_false] at h1
        exact lowerCp_hex x h1
    · exact ih x hx

theorem asciiLower_hex (c : Nat) (h : asciiLower c ∈ hexChars) : c ∈ hexChars := by
  unfold asciiLower at h
  split at h
  · rename_i hc
    have : c = 65 ∨ c = 66 ∨ c = 67 ∨ c = 68 ∨ c = 69 ∨ c = 70 ∨ 71 ≤ c := by omega
    rcases this with rfl | rfl | rfl | rfl | rfl | rfl | h7
    all_goals first | decide | skip
    exfalso
    have hm : ∀ x ∈ hexChars, x ≤ 102 := by decide
    have := hm _ h
    omega
  · exact h

/-- what a lower-casing hex digest claims is ASCII: `n` hex digits of either case -/
theorem hexLower_acc (name : String) (n : Nat) (hn : n ≠ 0) (h : Str) (hi : (hexLowerFormat name n).identify h = true) :
    (hexLowerShape n).accepts h = true := by
  simp only [hexLowerFormat, staticFormat, identByParse, Bool.and_eq_true, Option.isSome_iff_exists] at hi
  obtain ⟨_, p, hp⟩ := hi
  obtain ⟨_, _, _, _, c, _, hnc, hst⟩ := static_parse_wf _ _ _ _ _ h p hp
  obtain ⟨_, hlen, hall⟩ := normChecksum_spec n hexChars c c hn hexChars_ne_nil hnc
  simp only [CaseNorm.apply, List.nil_append] at hst
  have hall' : allIn hexChars (pyLower h) = true := by rw [hst]; exact hall
  have hch := lowerAux_hex [] h hall'
  have hasc : Ascii h := fun x hx => (hch x hx).1
  have hmap := pyLower_ascii h hasc
  have hl : h.length = n := by
    have : (pyLower h).length = n := by rw [hst]; exact hlen
    rw [hmap] at this; simpa using this
  apply single_accepts
  exact basic_lens_cls n [n] hexChars h hl (List.mem_singleton.2 rfl)
    (allIn_of_mem _ _ fun x hx => asciiLower_hex x (hch x hx).2)


/-! ### upper-casing formats (mysql41, oracle10): `"ﬀ".upper() == "FF"`, so only the ASCII part is constrained -/
theorem mem_asciiExcept (keep : List Nat) (x : Nat) : x ∈ asciiExcept keep ↔ x < 128 ∧ x ∉ keep := by
  simp [asciiExcept]

theorem asciiUpper_hexStar (c : Nat) (h : asciiUpper c ∈ 42 :: hexChars) : c ∈ 42 :: hexChars := by
  unfold asciiUpper at h
  split at h
  · rename_i hc
    have : c = 97 ∨ c = 98 ∨ c = 99 ∨ c = 100 ∨ c = 101 ∨ c = 102 ∨ 103 ≤ c := by omega
    rcases this with rfl | rfl | rfl | rfl | rfl | rfl | h7
    all_goals first | decide | skip
    exfalso
    have hm : ∀ x ∈ 42 :: hexChars, ¬ (71 ≤ x ∧ x ≤ 90) := by decide
    exact hm _ h (by omega)
  · exact h

theorem mem_pyUpper_of_ascii (h : Str) (x : Nat) (hx : x ∈ h) (ha : x < 128) : asciiUpper x ∈ pyUpper h := by
  unfold pyUpper
  rw [List.mem_flatMap]
  exact ⟨x, hx, by simp [upperCp, ha]⟩

theorem upperCp_head (c : Nat) : ∃ x r, upperCp c = x :: r ∧ (c < 128 → x = asciiUpper c ∧ r = []) ∧ (¬ c < 128 → 65 ≤ x) := by
  unfold upperCp
  by_cases hc : c < 128
  · exact ⟨asciiUpper c, [], by simp [hc], fun _ => ⟨rfl, rfl⟩, fun h => absurd hc h⟩
  · rw [if_neg hc]
    cases hl : lookupRows Gen.PyCase.upperMap c with
    | none => exact ⟨c, [], by simp, fun h => absurd h hc, fun _ => by omega⟩
    | some v =>
      have := lookupRows_allV _ _ upperMap_head c v hl
      cases v with
      | nil => simp at this
      | cons x r =>
        simp only [decide_eq_true_eq] at this
        exact ⟨x, r, by simp, fun h => absurd h hc, fun _ => this⟩

/-- upper-cased text over `keep` (ASCII, closed under un-upper-casing): no ASCII character outside `keep` occurs -/
theorem upper_cls (keep : List Nat) (hk : ∀ c, asciiUpper c ∈ keep → c ∈ keep) (h : Str) (hu : allIn keep (pyUpper h) = true) :
    ∀ c ∈ h, (Cls.noneOf (asciiExcept keep)).has c = true := by
  intro c hc
  simp only [Cls.has, Bool.not_eq_true', List.contains_eq_mem, decide_eq_false_iff_not, mem_asciiExcept, not_and, Decidable.not_not]
  intro ha
  exact hk c (allIn_mem _ _ hu _ (mem_pyUpper_of_ascii h c hc ha))

theorem mysql41_acc (h : Str) (hi : mysql41.identify h = true) : (scheme .mysql41).idShape.accepts h = true := by
  simp only [mysql41, staticFormat, identByParse, Bool.and_eq_true, Option.isSome_iff_exists] at hi
  obtain ⟨_, p, hp⟩ := hi
  obtain ⟨_, _, _, _, c, _, hnc, hst⟩ := static_parse_wf _ _ _ _ _ h p hp
  obtain ⟨_, hlen, hall⟩ := normChecksum_spec 40 hexChars c c (by decide) hexChars_ne_nil hnc
  simp only [CaseNorm.apply] at hst
  have hall' : allIn (42 :: hexChars) (pyUpper h) = true := by
    rw [hst]
    apply allIn_of_mem
    intro x hx
    rcases List.mem_append.1 hx with hx | hx
    · simp only [List.mem_singleton] at hx; subst hx; exact List.mem_cons_self
    · exact List.mem_cons_of_mem _ (allIn_mem _ _ hall x hx)
  apply single_accepts
  rw [accepts_iff]
  refine ⟨?_, rfl, upper_cls _ asciiUpper_hexStar h hall', fun hb => by cases hb⟩
  cases h with
  | nil => simp [pyUpper] at hst
  | cons c0 rest =>
    obtain ⟨x, r, hx, h1, h2⟩ := upperCp_head c0
    have : pyUpper (c0 :: rest) = x :: (r ++ pyUpper rest) := by simp [pyUpper, hx]
    rw [this] at hst
    simp only [List.cons_append, List.nil_append, List.cons.injEq] at hst
    by_cases hc : c0 < 128
    · have hx42 : asciiUpper c0 = 42 := by rw [← (h1 hc).1]; exact hst.1
      have : c0 = 42 := by
        unfold asciiUpper at hx42; split at hx42 <;> omega
      subst this
      simp [List.isPrefixOf]
    · have := h2 hc; omega

theorem asciiUpper_hex (c : Nat) (h : asciiUpper c ∈ hexChars) : c ∈ hexChars := by
  have := asciiUpper_hexStar c (List.mem_cons_of_mem _ h)
  rcases List.mem_cons.1 this with rfl | h'
  · revert h; decide
  · exact h'

theorem oracle10_acc (h : Str) (hi : oracle10.identify h = true) : (scheme .oracle10).idShape.accepts h = true := by
  simp only [oracle10, staticFormat, identByParse, Bool.and_eq_true, Option.isSome_iff_exists] at hi
  obtain ⟨_, p, hp⟩ := hi
  obtain ⟨_, _, _, _, c, _, hnc, hst⟩ := static_parse_wf _ _ _ _ _ h p hp
  obtain ⟨_, hlen, hall⟩ := normChecksum_spec 16 hexChars c c (by decide) hexChars_ne_nil hnc
  simp only [CaseNorm.apply, List.nil_append] at hst
  apply single_accepts
  rw [accepts_iff]
  exact ⟨rfl, rfl, upper_cls _ asciiUpper_hex h (by rw [hst]; exact hall), fun hb => by cases hb⟩

/-! ### StaticHandlers without case folding: exact shapes -/
theorem staticKeep_spec (pfx : Str) (n : Nat) (chars : List Nat) (hn : n ≠ 0) (hc : chars ≠ []) (h : Str)
    (hi : identByParse (staticParse .keep [] pfx (some n) (some chars)) h = true) :
    ∃ c, h = pfx ++ c ∧ c.length = n ∧ allIn chars c = true := by
  simp only [identByParse, Bool.and_eq_true, Option.isSome_iff_exists] at hi
  obtain ⟨_, p, hp⟩ := hi
  obtain ⟨_, _, _, _, c, _, hnc, hst⟩ := static_parse_wf _ _ _ _ _ h p hp
  obtain ⟨_, hlen, hall⟩ := normChecksum_spec n chars c c hn hc hnc
  exact ⟨c, hst, hlen, hall⟩

theorem postgres_acc (h : Str) (hi : postgres_md5.identify h = true) : (scheme .postgres_md5).idShape.accepts h = true := by
  obtain ⟨c, rfl, hlen, hall⟩ := staticKeep_spec _ 32 hexChars (by decide) hexChars_ne_nil h hi
  apply single_accepts
  rw [accepts_iff]
  refine ⟨prefix_append _ _, ?_, ?_, fun hb => by cases hb⟩
  · simp [lenOk, hlen, ofString]
  · intro x hx
    simp only [Cls.has, List.contains_eq_mem, decide_eq_true_eq, List.mem_append]
    rcases List.mem_append.1 hx with hx | hx
    · exact Or.inl hx
    · exact Or.inr (allIn_mem _ _ hall x hx)

theorem cisco_acc (name : String) (h : Str) (hi : (staticFormat name .keep [] (some 16) (some h64)).identify h = true) :
    Shape.accepts [{ lens := some [16], cls := .oneOf h64 }] h = true := by
  obtain ⟨c, hc, hlen, hall⟩ := staticKeep_spec _ 16 h64 (by decide) h64_ne_nil h hi
  have hh : h = c := by simpa using hc
  rw [hh]
  apply single_accepts
  exact basic_lens_cls 16 [16] h64 c hlen (List.mem_singleton.2 rfl) hall

theorem htdigest_acc (h : Str) (hi : htdigest.identify h = true) : (scheme .htdigest).idShape.accepts h = true := by
  simp only [htdigest, htdigestOk, Bool.and_eq_true, beq_iff_eq] at hi
  apply single_accepts
  exact basic_lens_cls 32 [32] lowerHex h hi.1 (List.mem_singleton.2 rfl) hi.2

theorem django_disabled_acc (h : Str) (hi : django_disabled.identify h = true) : (scheme .django_disabled).idShape.accepts h = true :=
  pfx_accepts _ _ hi

theorem unix_disabled_acc (h : Str) (hi : unix_disabled.identify h = true) : (scheme .unix_disabled).idShape.accepts h = true := by
  simp only [unix_disabled, Model.Disabled.unixIdentify, Bool.or_eq_true] at hi
  simp only [scheme, Shape.accepts, List.any_cons, List.any_nil, Bool.or_false, Bool.or_eq_true]
  cases h with
  | nil =>
    left; rw [accepts_iff]
    exact ⟨rfl, (by simp [lenOk]), (fun _ hc => by cases hc), (fun hb => by cases hb)⟩
  | cons c rest =>
    right
    rcases hi with hi | hi
    · simp at hi
    · simp only [List.head?_cons, Gen.Disabled.MARKER_CHARS, List.contains_cons, List.contains_nil, Bool.or_false, Bool.or_eq_true,
        beq_iff_eq] at hi
      rcases hi with rfl | rfl
      · left; exact basic_pre_accepts _ _ (by simp [List.isPrefixOf])
      · right; exact basic_pre_accepts _ _ (by simp [List.isPrefixOf])

theorem ldap_plaintext_acc (h : Str) (hi : ldap_plaintext.identify h = true) : (scheme .ldap_plaintext).idShape.accepts h = true := by
  simp only [ldap_plaintext, ldapPlaintextIdentify, Bool.and_eq_true, Bool.not_eq_true'] at hi
  apply single_accepts
  rw [accepts_iff]
  exact ⟨rfl, rfl, fun _ _ => rfl, fun _ => hi.2⟩

theorem anything_acc (h : Str) : Shape.anything.accepts h = true := all_accepts h

/-! ### fixed-layout formats -/
theorem oracle11_acc (h : Str) (hi : oracle11.identify h = true) : (scheme .oracle11).idShape.accepts h = true := by
  simp only [oracle11, oracle11Identify, Bool.and_eq_true] at hi
  obtain ⟨_, hm⟩ := hi
  have hlen : (dollarEnd h).length = h.length ∨ (dollarEnd h).length + 1 = h.length := by
    unfold dollarEnd; split
    · right; rename_i hl
      cases h with
      | nil => simp at hl
      | cons a t => simp [List.length_dropLast]
    · left; rfl
  have hpre : ∀ s c, [s, c].isPrefixOf (dollarEnd h) = true → [s, c].isPrefixOf h = true := by
    intro s c hp
    have h1 := List.isPrefixOf_iff_prefix.1 hp
    apply List.isPrefixOf_iff_prefix.2
    have h2 : dollarEnd h <+: h := by
      unfold dollarEnd; split
      · exact List.dropLast_prefix h
      · exact List.prefix_refl h
    exact h1.trans h2
  cases hd : dollarEnd h with
  | nil => simp [hd] at hm
  | cons s r1 =>
    cases r1 with
    | nil => simp [hd] at hm
    | cons c body =>
      simp only [hd, Bool.and_eq_true, beq_iff_eq, List.contains_eq_mem, decide_eq_true_eq] at hm
      obtain ⟨⟨⟨hs, hc⟩, hbl⟩, _⟩ := hm
      subst hc
      have hp : [s, 58].isPrefixOf h = true := hpre s 58 (by rw [hd]; simp [List.isPrefixOf])
      have hl : h.length = 62 ∨ h.length = 63 := by
        rw [hd] at hlen; simp only [List.length_cons, hbl] at hlen; omega
      simp only [scheme, Shape.accepts]
      rw [List.any_map, List.any_eq_true]
      refine ⟨s, hs, ?_⟩
      simp only [Function.comp]
      rw [accepts_iff]
      refine ⟨hp, ?_, fun _ _ => rfl, fun hb => by cases hb⟩
      rcases hl with hl | hl <;> simp [lenOk, hl]

theorem mssql_acc (n : Nat) (h : Str) (hi : mssqlIdentify n h = true) :
    Shape.accepts [{ pre := MSSQL_IDENT, lens := some [n] }] h = true := by
  simp only [mssqlIdentify, Bool.and_eq_true, beq_iff_eq] at hi
  apply single_accepts
  rw [accepts_iff]
  exact ⟨hi.2, by simp [lenOk, hi.1], fun _ _ => rfl, fun hb => by cases hb⟩


/-! ### the DES family: patterns `^…$` under re.IGNORECASE (a final "\n" is let through) -/
theorem chompNl_cases (h : Str) : h = chompNl h ∨ h = chompNl h ++ [NL] := by
  unfold chompNl
  split
  · rename_i hl
    right
    obtain ⟨ys, hys⟩ := List.getLast?_eq_some_iff.1 hl
    rw [hys, List.dropLast_concat]
  · left; rfl

theorem reH64Ci_mem (c : Nat) (h : reH64Ci c = true) : c ∈ desCI := by
  simp only [reH64Ci, Bool.or_eq_true, List.contains_eq_mem, decide_eq_true_eq] at h
  simp only [desCI, List.mem_append, List.mem_cons, List.not_mem_nil, or_false]
  rcases h with (((h | h) | h) | h) | h
  · exact Or.inl h
  all_goals (subst h; simp)

theorem des_cls (b h : Str) (hb : h = b ∨ h = b ++ [NL]) (hall : b.all reH64Ci = true) (extra : List Nat) :
    ∀ c ∈ h, (Cls.oneOf (extra ++ NL :: desCI)).has c = true := by
  intro c hc
  simp only [Cls.has, List.contains_eq_mem, decide_eq_true_eq, List.mem_append, List.mem_cons]
  rw [List.all_eq_true] at hall
  rcases hb with rfl | rfl
  · exact Or.inr (Or.inr (reH64Ci_mem c (hall c hc)))
  · rcases List.mem_append.1 hc with hc | hc
    · exact Or.inr (Or.inr (reH64Ci_mem c (hall c hc)))
    · simp only [List.mem_singleton] at hc
      exact Or.inr (Or.inl hc)

theorem desShape_acc (chk : Nat → Bool) (L : Option (List Nat)) (h : Str) (hs : desShape chk h = true)
    (hL : ∀ n, (n = 2 ∨ (n > 2 ∧ chk (n - 2) = true)) → lenOk L n = true ∧ lenOk L (n + 1) = true) :
    (desShapeOf L).accepts h = true := by
  simp only [desShape, Bool.and_eq_true, Bool.or_eq_true, decide_eq_true_eq] at hs
  obtain ⟨hlen, hall⟩ := hs
  have hb := chompNl_cases h
  apply single_accepts
  rw [accepts_iff]
  refine ⟨rfl, ?_, des_cls (chompNl h) h hb hall [], fun hb => by cases hb⟩
  have := hL (chompNl h).length hlen
  rcases hb with hb | hb
  · rw [← hb] at this; exact this.1
  · have hl : h.length = (chompNl h).length + 1 := by
      conv => lhs; rw [hb]
      simp
    rw [hl]; exact this.2

theorem des_crypt_acc (h : Str) (hi : des_crypt.identify h = true) : (scheme .des_crypt).idShape.accepts h = true := by
  simp only [des_crypt, desCryptIdentify, Bool.and_eq_true] at hi
  apply desShape_acc _ _ h hi.2
  intro n hn
  have : n = 2 ∨ n = 13 := by
    rcases hn with hn | ⟨h1, h2⟩
    · exact Or.inl hn
    · simp only [decide_eq_true_eq] at h2; right; omega
  rcases this with rfl | rfl <;> simp [lenOk]

theorem crypt16_acc (h : Str) (hi : crypt16.identify h = true) : (scheme .crypt16).idShape.accepts h = true := by
  simp only [crypt16, crypt16Shape, Bool.and_eq_true] at hi
  apply desShape_acc _ _ h hi.2
  intro n hn
  have : n = 2 ∨ n = 24 := by
    rcases hn with hn | ⟨h1, h2⟩
    · exact Or.inl hn
    · simp only [decide_eq_true_eq] at h2; right; omega
  rcases this with rfl | rfl <;> simp [lenOk]

theorem bigcrypt_acc (h : Str) (hi : bigcrypt.identify h = true) : (scheme .bigcrypt).idShape.accepts h = true := by
  simp only [bigcrypt, bigcryptShape, Bool.and_eq_true] at hi
  exact desShape_acc _ _ h hi.2 (fun _ _ => ⟨rfl, rfl⟩)

theorem bsdi_acc (h : Str) (hi : bsdi_crypt.identify h = true) : bsdiShape'.accepts h = true := by
  simp only [bsdi_crypt, bsdiShape, Bool.and_eq_true] at hi
  obtain ⟨_, hm⟩ := hi
  have hb := chompNl_cases h
  cases hc : chompNl h with
  | nil => simp [hc] at hm
  | cons c b =>
    simp only [hc, Bool.and_eq_true, Bool.or_eq_true, decide_eq_true_eq] at hm
    obtain ⟨⟨hcu, hlen⟩, hall⟩ := hm
    subst hcu
    rw [hc] at hb
    apply single_accepts
    rw [accepts_iff]
    refine ⟨?_, ?_, ?_, fun hb => by cases hb⟩
    · rcases hb with hb | hb <;> (rw [hb]; simp [List.isPrefixOf])
    · rcases hb with hb | hb <;> rcases hlen with hl | hl <;> (rw [hb]; simp [lenOk, hl])
    · intro x hx
      have hx' : x = UNDERSCORE ∨ x ∈ (if h = UNDERSCORE :: b then b else b ++ [NL]) := by
        rcases hb with hb | hb
        · rw [hb] at hx; simp only [List.mem_cons] at hx
          rcases hx with hx | hx
          · exact Or.inl hx
          · right; simp [hb, hx]
        · rw [hb] at hx
          simp only [List.cons_append, List.mem_cons, List.mem_append, List.not_mem_nil, or_false] at hx
          rcases hx with hx | hx | hx
          · exact Or.inl hx
          · right; split <;> simp [hx]
          · right; split
            · rename_i he; rw [he] at hb; simp at hb
            · simp [hx]
      rcases hx' with hx' | hx'
      · simp [Cls.has, hx']
      · have := des_cls b (if h = UNDERSCORE :: b then b else b ++ [NL]) (by split <;> simp) hall [UNDERSCORE] x hx'
        simpa using this

theorem django_bcrypt_acc (h : Str) (hi : django_bcrypt.identify h = true) : (scheme .django_bcrypt).idShape.accepts h = true := by
  simp only [django_bcrypt] at hi
  cases hs : stripPrefix DJANGO_BCRYPT_PREFIX h with
  | none => simp [hs] at hi
  | some r =>
    simp only [hs] at hi
    rw [stripPrefix_spec _ h r hs]
    exact shape_prepend_accepts _ _ r (identAny_acc _ r hi)

theorem argon2_acc (h : Str) (hi : argon2.identify h = true) : (pfx (ofString "$argon2")).accepts h = true := by
  simp only [argon2, idOnly, argon2Identify] at hi
  cases hs : stripPrefix (ofString "$argon2") h with
  | none => simp [hs] at hi
  | some r =>
    rw [stripPrefix_spec _ h r hs]
    exact pfx_accepts _ _ (prefix_append _ _)


/-! ### every scheme of the table -/
open Gen.Contexts (Name)

theorem crypt_acc (inner : Format) (s : Shape) (hin : ∀ u, inner.identify u = true → s.accepts u = true) (h : Str)
    (hi : (ldapCrypt inner).identify h = true) : (crypted s).accepts h = true :=
  wrap_acc _ CRYPT inner s hin h hi

/-- ID-SOUNDNESS: whatever a hasher claims lies in its identify-shape -/
theorem id_sound (n : Name) (h : Str) (hi : (scheme n).fmt.identify h = true) : (scheme n).idShape.accepts h = true := by
  cases n with
  | apr_md5_crypt => exact identByPrefix_acc _ h hi
  | argon2 => exact argon2_acc h hi
  | atlassian_pbkdf2_sha1 => exact identByPrefix_acc _ h hi
  | bcrypt => exact identAny_acc _ h hi
  | bcrypt_sha256 => exact identByPrefix_acc _ h hi
  | bigcrypt => exact bigcrypt_acc h hi
  | bsd_nthash => exact wrap_acc _ _ nthash _ (hexLower_acc "nthash" 32 (by decide)) h hi
  | bsdi_crypt => exact bsdi_acc h hi
  | cisco_asa => exact cisco_acc "cisco_asa" h hi
  | cisco_pix => exact cisco_acc "cisco_pix" h hi
  | cisco_type7 => exact anything_acc h
  | crypt16 => exact crypt16_acc h hi
  | cta_pbkdf2_sha1 => exact identByPrefix_acc _ h hi
  | des_crypt => exact des_crypt_acc h hi
  | django_argon2 => exact wrap_acc _ _ argon2 _ argon2_acc h hi
  | django_bcrypt => exact django_bcrypt_acc h hi
  | django_bcrypt_sha256 => exact identByPrefix_acc _ h hi
  | django_des_crypt => exact identByPrefix_acc _ h hi
  | django_disabled => exact django_disabled_acc h hi
  | django_pbkdf2_sha1 => exact identByPrefix_acc _ h hi
  | django_pbkdf2_sha256 => exact identByPrefix_acc _ h hi
  | django_salted_md5 => exact identByPrefix_acc _ h hi
  | django_salted_sha1 => exact identByPrefix_acc _ h hi
  | dlitz_pbkdf2_sha1 => exact identByPrefix_acc _ h hi
  | fshp => exact identByPrefix_acc _ h hi
  | grub_pbkdf2_sha512 => exact identByPrefix_acc _ h hi
  | hex_md4 => exact hexLower_acc "hex_md4" 32 (by decide) h hi
  | hex_md5 => exact hexLower_acc "hex_md5" 32 (by decide) h hi
  | hex_sha1 => exact hexLower_acc "hex_sha1" 40 (by decide) h hi
  | hex_sha256 => exact hexLower_acc "hex_sha256" 64 (by decide) h hi
  | hex_sha512 => exact hexLower_acc "hex_sha512" 128 (by decide) h hi
  | htdigest => exact htdigest_acc h hi
  | ldap_bcrypt => exact crypt_acc bcrypt _ (identAny_acc _) h hi
  | ldap_bsdi_crypt => exact crypt_acc bsdi_crypt _ bsdi_acc h hi
  | ldap_des_crypt => exact crypt_acc des_crypt _ des_crypt_acc h hi
  | ldap_hex_md5 => exact wrap_acc _ _ hex_md5 _ (hexLower_acc "hex_md5" 32 (by decide)) h hi
  | ldap_hex_sha1 => exact wrap_acc _ _ hex_sha1 _ (hexLower_acc "hex_sha1" 40 (by decide)) h hi
  | ldap_md5 => exact identByPrefix_acc _ h hi
  | ldap_md5_crypt => exact crypt_acc md5_crypt _ (identByPrefix_acc _) h hi
  | ldap_pbkdf2_sha1 => exact wrapIdentify_acc _ _ _ h hi
  | ldap_pbkdf2_sha256 => exact wrapIdentify_acc _ _ _ h hi
  | ldap_pbkdf2_sha512 => exact wrapIdentify_acc _ _ _ h hi
  | ldap_plaintext => exact ldap_plaintext_acc h hi
  | ldap_salted_md5 => exact identByPrefix_acc _ h hi
  | ldap_salted_sha1 => exact identByPrefix_acc _ h hi
  | ldap_salted_sha256 => exact identByPrefix_acc _ h hi
  | ldap_salted_sha512 => exact identByPrefix_acc _ h hi
  | ldap_sha1 => exact identByPrefix_acc _ h hi
  | ldap_sha1_crypt => exact crypt_acc sha1_crypt _ (identByPrefix_acc _) h hi
  | ldap_sha256_crypt => exact crypt_acc sha256_crypt _ (identByPrefix_acc _) h hi
  | ldap_sha512_crypt => exact crypt_acc sha512_crypt _ (identByPrefix_acc _) h hi
  | lmhash => exact hexLower_acc "lmhash" 32 (by decide) h hi
  | md5_crypt => exact identByPrefix_acc _ h hi
  | msdcc => exact hexLower_acc "msdcc" 32 (by decide) h hi
  | msdcc2 => exact hexLower_acc "msdcc2" 32 (by decide) h hi
  | mssql2000 => exact mssql_acc 94 h hi
  | mssql2005 => exact mssql_acc 54 h hi
  | mysql323 => exact hexLower_acc "mysql323" 16 (by decide) h hi
  | mysql41 => exact mysql41_acc h hi
  | nthash => exact hexLower_acc "nthash" 32 (by decide) h hi
  | oracle10 => exact oracle10_acc h hi
  | oracle11 => exact oracle11_acc h hi
  | pbkdf2_sha1 => exact identByPrefix_acc _ h hi
  | pbkdf2_sha256 => exact identByPrefix_acc _ h hi
  | pbkdf2_sha512 => exact identByPrefix_acc _ h hi
  | phpass => exact identAny_acc _ h hi
  | plaintext => exact anything_acc h
  | postgres_md5 => exact postgres_acc h hi
  | roundup_plaintext => exact wrap_acc _ _ plaintext _ (fun u _ => anything_acc u) h hi
  | scram => exact identByPrefix_acc _ h hi
  | scrypt => exact identAny_acc _ h hi
  | sha1_crypt => exact identByPrefix_acc _ h hi
  | sha256_crypt => exact identByPrefix_acc _ h hi
  | sha512_crypt => exact identByPrefix_acc _ h hi
  | sun_md5_crypt => exact identAny_acc _ h hi
  | unix_disabled => exact unix_disabled_acc h hi

end Lemmas.Shapes
