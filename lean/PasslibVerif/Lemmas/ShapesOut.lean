import PasslibVerif.Lemmas.ShapesId
import PasslibVerif.Lemmas.FormatsPbkdfWF
/-
Per scheme of the table (Model/Shapes.lean):
  `wf n`      the family's well-formedness predicate of the settings the hasher renders (C07's `…WF`)
  `self_id`   wf n x → identify (render x) = true
  `out_sound` wf n x → (outShape n).accepts (render x)
-/
namespace Lemmas.Shapes
open Py Model.Handler Model.Formats Model.Shapes Lemmas.Formats Lemmas.Handler Lemmas.PyStr Lemmas.FormatsPbkdf
open Gen.Contexts (Name)

/-- well-formed settings, per registered name; the identify-only hashers have no settings model -/
def wf : Name → Parsed → Prop
  | .apr_md5_crypt => Md5WF (ofString "$apr1$")
  | .argon2 => fun _ => False
  | .atlassian_pbkdf2_sha1 => AtlassianWF
  | .bcrypt => BcryptWF
  | .bcrypt_sha256 => BcryptSha256WF
  | .bigcrypt => SaltChkWF 2 (fun n => 0 < n ∧ n % 11 = 0)
  | .bsd_nthash => HexLowerWF 32
  | .bsdi_crypt => BsdiWF
  | .cisco_asa => FixedChk [] 16 h64
  | .cisco_pix => FixedChk [] 16 h64
  | .cisco_type7 => Cisco7WF
  | .crypt16 => SaltChkWF 2 (· = 22)
  | .cta_pbkdf2_sha1 => RawMc3WF P5K2_IDENT 20
  | .des_crypt => SaltChkWF 2 (· = 11)
  | .django_argon2 => fun _ => False
  | .django_bcrypt => BcryptWF
  | .django_bcrypt_sha256 => BcryptWF
  | .django_des_crypt => DjangoDesWF
  | .django_disabled => ChkOnly [] (fun _ => True)
  | .django_pbkdf2_sha1 => Mc3TextWF DJANGO_PBKDF2_SHA1_IDENT (some 28) (some PADDED_BASE64_CHARS) DJANGO_SALT_CHARS 1 none
  | .django_pbkdf2_sha256 => Mc3TextWF DJANGO_PBKDF2_SHA256_IDENT (some 44) (some PADDED_BASE64_CHARS) DJANGO_SALT_CHARS 1 none
  | .django_salted_md5 => DjSaltedWF DJANGO_MD5_IDENT 32
  | .django_salted_sha1 => DjSaltedWF DJANGO_SHA1_IDENT 40
  | .dlitz_pbkdf2_sha1 => Mc3TextWF P5K2_IDENT none none h64 0 (some 1024)
  | .fshp => fun _ => False
  | .grub_pbkdf2_sha512 => RawMc3WF GRUB_IDENT 64
  | .hex_md4 => HexLowerWF 32
  | .hex_md5 => HexLowerWF 32
  | .hex_sha1 => HexLowerWF 40
  | .hex_sha256 => HexLowerWF 64
  | .hex_sha512 => HexLowerWF 128
  | .htdigest => ChkOnly [] (fun c => htdigestOk c = true)
  | .ldap_bcrypt => BcryptWF
  | .ldap_bsdi_crypt => BsdiWF
  | .ldap_des_crypt => SaltChkWF 2 (· = 11)
  | .ldap_hex_md5 => HexLowerWF 32
  | .ldap_hex_sha1 => HexLowerWF 40
  -- ldap_md5 / ldap_sha1 declare no checksum size; the hasher emits base64 of a 16 / 20 byte digest
  | .ldap_md5 => ChkOnly (ofString "{MD5}") (fun c => allIn paddedB64 c = true ∧ c.length = 24)
  | .ldap_md5_crypt => Md5WF (ofString "$1$")
  | .ldap_pbkdf2_sha1 => RawMc3WF PBKDF2_SHA1_IDENT 20
  | .ldap_pbkdf2_sha256 => RawMc3WF PBKDF2_SHA256_IDENT 32
  | .ldap_pbkdf2_sha512 => RawMc3WF PBKDF2_SHA512_IDENT 64
  | .ldap_plaintext => ChkOnly [] (fun c => ldapPlaintextIdentify c = true)
  | .ldap_salted_md5 => LdapSaltedWF (ofString "{SMD5}") 16
  | .ldap_salted_sha1 => LdapSaltedWF (ofString "{SSHA}") 20
  | .ldap_salted_sha256 => LdapSaltedWF (ofString "{SSHA256}") 32
  | .ldap_salted_sha512 => LdapSaltedWF (ofString "{SSHA512}") 64
  | .ldap_sha1 => ChkOnly (ofString "{SHA}") (fun c => allIn paddedB64 c = true ∧ c.length = 28)
  | .ldap_sha1_crypt => Mc3TextWF SHA1C_IDENT (some 28) (some h64) h64 0 (some 64)
  | .ldap_sha256_crypt => Sha2WF (ofString "$5$") 43
  | .ldap_sha512_crypt => Sha2WF (ofString "$6$") 86
  | .lmhash => HexLowerWF 32
  | .md5_crypt => Md5WF (ofString "$1$")
  | .msdcc => HexLowerWF 32
  | .msdcc2 => HexLowerWF 32
  | .mssql2000 => MssqlWF 40
  | .mssql2005 => MssqlWF 20
  | .mysql323 => HexLowerWF 16
  | .mysql41 => HexUpperWF 40
  | .nthash => HexLowerWF 32
  | .oracle10 => HexUpperWF 16
  | .oracle11 => Oracle11WF
  | .pbkdf2_sha1 => RawMc3WF PBKDF2_SHA1_IDENT 20
  | .pbkdf2_sha256 => RawMc3WF PBKDF2_SHA256_IDENT 32
  | .pbkdf2_sha512 => RawMc3WF PBKDF2_SHA512_IDENT 64
  | .phpass => PhpassWF
  | .plaintext => ChkOnly [] (fun _ => True)
  | .postgres_md5 => FixedChk [] 32 hexChars
  | .roundup_plaintext => ChkOnly [] (fun _ => True)
  | .scram => fun _ => False
  | .scrypt => fun _ => False
  | .sha1_crypt => Mc3TextWF SHA1C_IDENT (some 28) (some h64) h64 0 (some 64)
  | .sha256_crypt => Sha2WF (ofString "$5$") 43
  | .sha512_crypt => Sha2WF (ofString "$6$") 86
  | .sun_md5_crypt => SunWF
  | .unix_disabled => ChkOnly [] (fun c => Model.Disabled.unixIdentify c = true)

/-! ### identify (render x) -/
theorem identByParse_self (parse : Str → Option Parsed) (h0 : parse [] = none) (s : Str) (p : Parsed) (hp : parse s = some p) :
    identByParse parse s = true := by
  unfold identByParse
  cases s with
  | nil => rw [h0] at hp; cases hp
  | cons c r => simp [hp]

theorem sha2_identify_render (ident : Str) (hne : ident ≠ []) (p : Parsed) (h : p.ident = ident) :
    identByPrefix ident (sha2Render p) = true := by
  unfold sha2Render
  rw [h]
  dsimp only
  split
  · rw [List.append_assoc]; exact identByPrefix_append ident _ hne
  · rw [List.append_assoc, List.append_assoc]; exact identByPrefix_append ident _ hne

theorem toFormat_render_ok (f : FormatX) (p : Parsed) (s : Str) (hr : f.renderX p = .ok s) : f.toFormat.render p = s := by
  simp [FormatX.toFormat, hr, Except.toOption]

theorem raw_self_id (sep : Nat) (hex : Bool) (enc : Bytes → Str) (ident : Str) (hne : ident ≠ []) (chkSize : Nat) (p : Parsed)
    (h : RawMc3WF ident chkSize p) (f : FormatX) (hf : f.renderX = rawMc3RenderX sep hex enc) (hi : f.identify = identByPrefix ident) :
    f.toFormat.identify (f.toFormat.render p) = true := by
  obtain ⟨c, hc, _, _⟩ := h.chk
  have hr : f.renderX p = .ok (renderMc3G sep hex p.ident p.rounds (enc (p.salt.getD [])) (some (enc c))) := by
    rw [hf]; unfold rawMc3RenderX; rw [hc]
  rw [toFormat_render_ok f p _ hr]
  show f.identify _ = true
  rw [hi]
  exact rawMc3_identify_render sep hex enc ident hne p h.ident _ (by unfold rawMc3RenderX; rw [hc])

theorem ldap_pbkdf2_self_id (pfx ident : Str) (hne : ident ≠ []) (chkSize : Nat) (hcs : chkSize ≠ 0) (p : Parsed)
    (h : RawMc3WF ident chkSize p) (f : FormatX) (hf : f.renderX = wrapRenderX pfx ident pbkdf2RenderX)
    (hi : f.identify = wrapIdentify pfx ident (identByPrefix ident)) : f.toFormat.identify (f.toFormat.render p) = true := by
  obtain ⟨s, hr, hid⟩ := ldap_pbkdf2_identify_render pfx ident hne chkSize hcs p h
  rw [toFormat_render_ok f p s (by rw [hf]; exact hr)]
  show f.identify s = true
  rw [hi]; exact hid

theorem whole_self_id (ok : Str → Bool) (p : Parsed) (h : ChkOnly [] (fun c => ok c = true) p) : ok (wholeRender p) = true := by
  obtain ⟨_, _, _, _, c, hc, hok⟩ := h
  simp [wholeRender, hc, hok]

theorem of_parse_render (f : Format) (p : Parsed) (hr : f.parse (f.render p) = some p)
    (hid : ∀ s q, f.parse s = some q → f.identify s = true) : f.identify (f.render p) = true := hid _ _ hr

theorem hexLower_self (name : String) (n : Nat) (hn : n ≠ 0) (p : Parsed) (h : HexLowerWF n p) :
    (hexLowerFormat name n).identify ((hexLowerFormat name n).render p) = true := hexLower_identify_render name n hn p h

theorem wrap_self (name : String) (pfx : Str) (inner : Format) (p : Parsed) (hid : inner.identify (inner.render p) = true) :
    (wrapFormat name pfx [] inner).identify ((wrapFormat name pfx [] inner).render p) = true :=
  wrap_identify_render name pfx [] inner p hid (nil_prefix _)

theorem mc3Text_self (f : FormatX) (ident : Str) (hne : ident ≠ []) (p : Parsed) (hi : p.ident = ident)
    (hr : f.renderX = fun p => .ok (mc3TextRender false p)) (hid : f.identify = identByPrefix ident) :
    f.toFormat.identify (f.toFormat.render p) = true := by
  rw [toFormat_render_ok f p (mc3TextRender false p) (by rw [hr])]
  show f.identify _ = true
  rw [hid]; exact mc3Text_identify_render false ident hne p hi

theorem djSalted_self (f : FormatX) (ident : Str) (hne : ident ≠ []) (p : Parsed) (hi : p.ident = ident)
    (hr : f.renderX = fun p => .ok (djSaltedRender p)) (hid : f.identify = identByPrefix ident) :
    f.toFormat.identify (f.toFormat.render p) = true := by
  rw [toFormat_render_ok f p (djSaltedRender p) (by rw [hr])]
  show f.identify _ = true
  rw [hid]; exact djSalted_identify_render ident hne p hi

theorem sha1_crypt_self (p : Parsed) (h : Mc3TextWF SHA1C_IDENT (some 28) (some h64) h64 0 (some 64) p) :
    sha1_crypt.identify (sha1_crypt.render p) = true :=
  mc3Text_self sha1_cryptX SHA1C_IDENT (by decide) p h.ident rfl rfl

theorem md5_self (ident : Str) (hne : ident ≠ []) (name : String) (p : Parsed) (h : Md5WF ident p) :
    (md5Format name ident).identify ((md5Format name ident).render p) = true := md5_identify_render ident hne p h.ident

theorem bcrypt_self (p : Parsed) (h : BcryptWF p) : bcrypt.identify (bcrypt.render p) = true :=
  bcrypt_identify_of_parse _ p (bcrypt_parse_render p h)

theorem bsdi_self (p : Parsed) (h : BsdiWF p) : bsdi_crypt.identify (bsdi_crypt.render p) = true :=
  bsdi_identify_of_parse _ p (bsdi_parse_render p h)

/-- SELF-IDENTIFICATION: a hasher claims what it renders -/
theorem self_id (n : Name) (x : Parsed) (h : wf n x) : (scheme n).fmt.identify ((scheme n).fmt.render x) = true := by
  cases n with
  | apr_md5_crypt => exact md5_self _ (by decide) _ x h
  | argon2 => exact h.elim
  | atlassian_pbkdf2_sha1 =>
    obtain ⟨c, hc, _, _⟩ := h.chk
    have hr : atlassianRenderX x = .ok (x.ident ++ Spec.Rfc4648.base64 (x.salt.getD [] ++ c)) := by
      unfold atlassianRenderX; rw [hc]
    show atlassian_pbkdf2_sha1X.toFormat.identify (atlassian_pbkdf2_sha1X.toFormat.render x) = true
    rw [toFormat_render_ok atlassian_pbkdf2_sha1X x _ hr]
    exact atlassian_identify_render x h.ident _ hr
  | bcrypt => exact bcrypt_self x h
  | bcrypt_sha256 => exact bcrypt_sha256_identify_of_parse _ x (bcrypt_sha256_parse_render x h)
  | bigcrypt => exact bigcrypt_identify_of_parse _ x (bigcrypt_parse_render x h)
  | bsd_nthash => exact wrap_self _ _ nthash x (hexLower_self "nthash" 32 (by decide) x h)
  | bsdi_crypt => exact bsdi_self x h
  | cisco_asa => exact identByParse_self _ (by decide) _ x (cisco_asa_parse_render x h)
  | cisco_pix => exact identByParse_self _ (by decide) _ x (cisco_pix_parse_render x h)
  | cisco_type7 => exact identByParse_self _ (by decide) _ x (cisco7_parse_render x h)
  | crypt16 => exact crypt16_identify_of_parse _ x (crypt16_parse_render x h)
  | cta_pbkdf2_sha1 => exact raw_self_id DOLLAR true b64AltEncode P5K2_IDENT (by decide) 20 x h cta_pbkdf2_sha1X rfl rfl
  | des_crypt => exact des_crypt_identify_render x h
  | django_argon2 => exact h.elim
  | django_bcrypt => exact django_bcrypt_identify_of_parse _ x (django_bcrypt_parse_render x h)
  | django_bcrypt_sha256 => exact django_bcrypt_sha256_identify_of_parse _ x (django_bcrypt_sha256_parse_render x h)
  | django_des_crypt => exact django_des_identify_of_parse _ x (django_des_parse_render x h)
  | django_disabled =>
    obtain ⟨_, _, _, _, c, hc, _⟩ := h
    show Model.Disabled.djangoIdentify (staticRender Gen.Disabled.djangoPrefix x) = true
    simp [Model.Disabled.djangoIdentify, staticRender, hc, prefix_append]
  | django_pbkdf2_sha1 => exact mc3Text_self django_pbkdf2_sha1X _ (by decide) x h.ident rfl rfl
  | django_pbkdf2_sha256 => exact mc3Text_self django_pbkdf2_sha256X _ (by decide) x h.ident rfl rfl
  | django_salted_md5 => exact djSalted_self django_salted_md5X _ (by decide) x h.ident rfl rfl
  | django_salted_sha1 => exact djSalted_self django_salted_sha1X _ (by decide) x h.ident rfl rfl
  | dlitz_pbkdf2_sha1 =>
    show dlitz_pbkdf2_sha1X.toFormat.identify (dlitz_pbkdf2_sha1X.toFormat.render x) = true
    rw [toFormat_render_ok dlitz_pbkdf2_sha1X x (dlitzRender x) rfl]
    exact dlitz_identify_render x h.ident
  | fshp => exact h.elim
  | grub_pbkdf2_sha512 => exact raw_self_id DOT false pbHexlifyUpper GRUB_IDENT (by decide) 64 x h grub_pbkdf2_sha512X rfl rfl
  | hex_md4 => exact hexLower_self "hex_md4" 32 (by decide) x h
  | hex_md5 => exact hexLower_self "hex_md5" 32 (by decide) x h
  | hex_sha1 => exact hexLower_self "hex_sha1" 40 (by decide) x h
  | hex_sha256 => exact hexLower_self "hex_sha256" 64 (by decide) x h
  | hex_sha512 => exact hexLower_self "hex_sha512" 128 (by decide) x h
  | htdigest => exact whole_self_id htdigestOk x h
  | ldap_bcrypt => exact wrap_self _ _ bcrypt x (bcrypt_self x h)
  | ldap_bsdi_crypt => exact wrap_self _ _ bsdi_crypt x (bsdi_self x h)
  | ldap_des_crypt => exact wrap_self _ _ des_crypt x (des_crypt_identify_render x h)
  | ldap_hex_md5 => exact wrap_self _ _ hex_md5 x (hexLower_self "hex_md5" 32 (by decide) x h)
  | ldap_hex_sha1 => exact wrap_self _ _ hex_sha1 x (hexLower_self "hex_sha1" 40 (by decide) x h)
  | ldap_md5 => exact ldapB64_identify_render "ldap_md5" _ (by decide) x
  | ldap_md5_crypt => exact wrap_self _ _ md5_crypt x (md5_self _ (by decide) _ x h)
  | ldap_pbkdf2_sha1 => exact ldap_pbkdf2_self_id _ _ (by decide) 20 (by decide) x h ldap_pbkdf2_sha1X rfl rfl
  | ldap_pbkdf2_sha256 => exact ldap_pbkdf2_self_id _ _ (by decide) 32 (by decide) x h ldap_pbkdf2_sha256X rfl rfl
  | ldap_pbkdf2_sha512 => exact ldap_pbkdf2_self_id _ _ (by decide) 64 (by decide) x h ldap_pbkdf2_sha512X rfl rfl
  | ldap_plaintext => exact whole_self_id ldapPlaintextIdentify x h
  | ldap_salted_md5 => exact ldapSalted_identify_render _ (by decide) x h.ident
  | ldap_salted_sha1 => exact ldapSalted_identify_render _ (by decide) x h.ident
  | ldap_salted_sha256 => exact ldapSalted_identify_render _ (by decide) x h.ident
  | ldap_salted_sha512 => exact ldapSalted_identify_render _ (by decide) x h.ident
  | ldap_sha1 => exact ldapB64_identify_render "ldap_sha1" _ (by decide) x
  | ldap_sha1_crypt => exact wrap_self _ _ sha1_crypt x (sha1_crypt_self x h)
  | ldap_sha256_crypt => exact wrap_self _ _ sha256_crypt x (sha2_identify_render _ (by decide) x h.ident)
  | ldap_sha512_crypt => exact wrap_self _ _ sha512_crypt x (sha2_identify_render _ (by decide) x h.ident)
  | lmhash => exact hexLower_self "lmhash" 32 (by decide) x h
  | md5_crypt => exact md5_self _ (by decide) _ x h
  | msdcc => exact hexLower_self "msdcc" 32 (by decide) x h
  | msdcc2 => exact hexLower_self "msdcc2" 32 (by decide) x h
  | mssql2000 => exact mssql_identify_render 94 40 (by decide) x h
  | mssql2005 => exact mssql_identify_render 54 20 (by decide) x h
  | mysql323 => exact hexLower_self "mysql323" 16 (by decide) x h
  | mysql41 => exact identByParse_self _ (by decide) _ x (mysql41_parse_render x h)
  | nthash => exact hexLower_self "nthash" 32 (by decide) x h
  | oracle10 => exact identByParse_self _ (by decide) _ x (oracle10_parse_render x h)
  | oracle11 => exact oracle11_identify_render x h
  | pbkdf2_sha1 => exact raw_self_id DOLLAR false Model.B64.ab64Encode _ (by decide) 20 x h pbkdf2_sha1X rfl rfl
  | pbkdf2_sha256 => exact raw_self_id DOLLAR false Model.B64.ab64Encode _ (by decide) 32 x h pbkdf2_sha256X rfl rfl
  | pbkdf2_sha512 => exact raw_self_id DOLLAR false Model.B64.ab64Encode _ (by decide) 64 x h pbkdf2_sha512X rfl rfl
  | phpass => exact phpass_identify_of_parse _ x (phpass_parse_render x h)
  | plaintext => rfl
  | postgres_md5 => exact identByParse_self _ (by decide) _ x (postgres_md5_parse_render x h)
  | roundup_plaintext => exact wrap_self _ _ plaintext x rfl
  | scram => exact h.elim
  | scrypt => exact h.elim
  | sha1_crypt => exact sha1_crypt_self x h
  | sha256_crypt => exact sha2_identify_render _ (by decide) x h.ident
  | sha512_crypt => exact sha2_identify_render _ (by decide) x h.ident
  | sun_md5_crypt => exact sun_identify_of_parse _ x (sun_parse_render x h)
  | unix_disabled => exact whole_self_id Model.Disabled.unixIdentify x h


/-! ### output shapes -/
theorem noNL_basic (b : Basic) (h : Str) (hb : b.accepts h = true) (hn : NL ∉ h) :
    ({ b with cls := .noneOf [NL] } : Basic).accepts h = true := by
  rw [accepts_iff] at hb ⊢
  refine ⟨hb.pre, hb.len, ?_, hb.r2307⟩
  intro c hc
  simp only [Cls.has, List.contains_cons, List.contains_nil, Bool.or_false, Bool.not_eq_true', beq_eq_false_iff_ne, ne_eq]
  intro e; subst e; exact hn hc

theorem noNL_accepts (s : Shape) (h : Str) (hs : s.accepts h = true) (hn : NL ∉ h) : (noNL s).accepts h = true := by
  unfold Shape.accepts at hs ⊢
  rw [List.any_eq_true] at hs ⊢
  obtain ⟨b, hb, hbh⟩ := hs
  exact ⟨_, List.mem_map_of_mem (f := fun b : Basic => { b with cls := .noneOf [NL] }) hb, noNL_basic b h hbh hn⟩

theorem nl_not_h64 : NL ∉ h64 := by decide

theorem md5_noNL (ident : Str) (hid : NL ∉ ident) (p : Parsed) (h : Md5WF ident p) : NL ∉ md5Render p := by
  obtain ⟨hi, _, _, ⟨s, hs, hs64, _⟩, hc⟩ := h
  have hsn := not_mem_of_all h64 s NL nl_not_h64 hs64
  unfold md5Render renderMc2
  rw [hi, hs]
  rcases hc with hc | ⟨c, hc, hc64, _⟩
  · rw [hc]; simp [hid, hsn]
  · rw [hc]
    have hcn := not_mem_of_all h64 c NL nl_not_h64 hc64
    dsimp only [Option.getD_some]
    simp only [NL] at hid hsn hcn ⊢
    split <;> simp [hid, hsn, hcn, DOLLAR]

theorem fmtDec_noNL (n : Nat) : NL ∉ fmtDec (n : Int) := by
  intro hm
  have := fmtDec_digits n NL hm
  unfold NL at this; omega

theorem sha2_noNL (ident : Str) (hid : NL ∉ ident) (cs : Nat) (p : Parsed) (h : Sha2WF ident cs p) : NL ∉ sha2Render p := by
  obtain ⟨hi, ⟨n, hr, _, _⟩, ⟨s, hs, hs64, _⟩, ⟨c, hc, hc64, _⟩, _⟩ := h
  have hsn := not_mem_of_all h64 s NL nl_not_h64 hs64
  have hcn := not_mem_of_all h64 c NL nl_not_h64 hc64
  have hdn := fmtDec_noNL n
  have hrp : NL ∉ ROUNDS_PREFIX := by decide
  unfold sha2Render
  rw [hi, hs, hc, hr]
  dsimp only [Option.getD_some]
  simp only [NL] at hid hsn hcn hdn hrp ⊢
  split <;> simp [hid, hsn, hcn, hdn, hrp, DOLLAR]

theorem sha1c_noNL (p : Parsed) (h : Mc3TextWF SHA1C_IDENT (some 28) (some h64) h64 0 (some 64) p) : NL ∉ sha1_crypt.render p := by
  obtain ⟨hi, ⟨n, hr, _, _⟩, ⟨s, hs, hs64, _, _⟩, hc, _⟩ := h
  have hsn := not_mem_of_all h64 s NL nl_not_h64 hs64
  have hdn := fmtDec_noNL n
  have hid : NL ∉ SHA1C_IDENT := by decide
  rw [show sha1_crypt.render p = mc3TextRender false p from toFormat_render_ok sha1_cryptX p _ rfl]
  unfold mc3TextRender renderMc3G roundsStr
  rw [hi, hs, hr]
  rcases hc with hc | ⟨c, hc, _, _, _, hcc⟩
  · rw [hc]
    simp only [NL] at hid hsn hdn ⊢
    simp [hid, hsn, hdn, DOLLAR]
  · rw [hc]
    have hcn := not_mem_of_all h64 c NL nl_not_h64 hcc
    dsimp only [Option.getD_some]
    simp only [NL] at hid hsn hcn hdn ⊢
    split <;> simp [hid, hsn, hcn, hdn, DOLLAR]

set_option maxRecDepth 100000 in
theorem pad2_noNL : ∀ n : Nat, n < 32 → NL ∉ fmtZeroPad 2 (n : Int) := by decide +kernel

theorem bcrypt_noNL (p : Parsed) (h : BcryptWF p) : NL ∉ bcryptRender p := by
  obtain ⟨hi, _, ⟨n, hr, _, hn⟩, ⟨s, hs, hs64, _, _⟩, ⟨c, hc, hc64, _, _⟩⟩ := h
  have hsn := not_mem_of_all bc64 s NL nl_not_bc64 hs64
  have hcn := not_mem_of_all bc64 c NL nl_not_bc64 hc64
  have hpn := pad2_noNL n (by omega)
  have hid : NL ∉ p.ident := by
    simp only [bcryptOkIdents, List.mem_cons, List.not_mem_nil, or_false] at hi
    rcases hi with hi | hi | hi | hi <;> (rw [hi]; decide)
  unfold bcryptRender orNoneText
  rw [hs, hc, hr]
  simp only [NL] at hid hsn hcn hpn ⊢
  simp [hid, hsn, hcn, hpn, DOLLAR]

theorem wrap_render (name : String) (pfx : Str) (inner : Format) (p : Parsed) :
    (wrapFormat name pfx [] inner).render p = pfx ++ inner.render p := by
  simp [wrapFormat, wrapHash, stripPrefix_nil]

theorem des_out (p : Parsed) (h : SaltChkWF 2 (· = 11) p) : desOut.accepts (des_crypt.render p) = true := by
  obtain ⟨_, _, _, ⟨s, hs, hs64, hsl⟩, ⟨c, hc, hc64, hcl⟩⟩ := h
  have hr : des_crypt.render p = s ++ c := by simp [des_crypt, saltChkRender, hs, hc, orNoneText]
  rw [hr]
  apply single_accepts
  exact basic_lens_cls 13 [13] h64 (s ++ c) (by simp [hsl, hcl]) (List.mem_singleton.2 rfl) (by rw [allIn_append, hs64, hc64]; rfl)

theorem bsdi_out (p : Parsed) (h : BsdiWF p) : bsdiOut.accepts (bsdi_crypt.render p) = true := by
  obtain ⟨_, _, ⟨n, hr, _, hn⟩, ⟨s, hs, hs64, hsl⟩, ⟨c, hc, hc64, hcl⟩⟩ := h
  obtain ⟨e, he, hel, he64, _⟩ := int24_roundtrip n hn
  have hrd : bsdi_crypt.render p = UNDERSCORE :: (e ++ (s ++ c)) := by
    simp [bsdi_crypt, bsdiRender, hs, hc, hr, he, toOpt, orNoneText]
  rw [hrd]
  apply single_accepts
  rw [accepts_iff]
  refine ⟨by simp [bsdiOut, List.isPrefixOf], by simp [bsdiOut, lenOk, hel, hsl, hcl], ?_, fun hb => by cases hb⟩
  intro x hx
  simp only [bsdiOut, Cls.has, List.contains_eq_mem, decide_eq_true_eq, List.mem_cons]
  simp only [List.mem_cons, List.mem_append] at hx
  rcases hx with hx | hx | hx | hx
  · exact Or.inl hx
  · exact Or.inr (allIn_mem _ _ he64 x hx)
  · exact Or.inr (allIn_mem _ _ hs64 x hx)
  · exact Or.inr (allIn_mem _ _ hc64 x hx)

theorem ldapB64_out (name : String) (ident : Str) (n : Nat) (p : Parsed)
    (h : ChkOnly ident (fun c => allIn paddedB64 c = true ∧ c.length = n) p) :
    Shape.accepts [{ pre := ident, lens := some [ident.length + n] }] ((ldapB64Format name ident).render p) = true := by
  obtain ⟨_, _, _, _, c, hc, _, hl⟩ := h
  have hr : (ldapB64Format name ident).render p = ident ++ c := by simp [ldapB64Format, staticRender, hc]
  rw [hr]
  apply single_accepts
  rw [accepts_iff]
  exact ⟨prefix_append _ _, by simp [lenOk, hl], fun _ _ => rfl, fun hb => by cases hb⟩

/-- OUTPUT-SOUNDNESS: what a hasher renders from well-formed settings lies in its output-shape -/
theorem out_sound (n : Name) (x : Parsed) (h : wf n x) : (scheme n).outShape.accepts ((scheme n).fmt.render x) = true := by
  have hid := id_sound n _ (self_id n x h)
  cases n with
  | bcrypt => exact noNL_accepts _ _ hid (bcrypt_noNL x h)
  | bsdi_crypt => exact bsdi_out x h
  | des_crypt => exact des_out x h
  | md5_crypt => exact noNL_accepts _ _ hid (md5_noNL _ (by decide) x h)
  | sha1_crypt => exact noNL_accepts _ _ hid (sha1c_noNL x h)
  | sha256_crypt => exact noNL_accepts _ _ hid (sha2_noNL _ (by decide) 43 x h)
  | sha512_crypt => exact noNL_accepts _ _ hid (sha2_noNL _ (by decide) 86 x h)
  | ldap_bcrypt =>
    show (crypted (noNL bcryptShape)).accepts ((ldapCrypt bcrypt).render x) = true
    rw [ldapCrypt, wrap_render]
    exact shape_prepend_accepts _ _ _ (noNL_accepts _ _ (id_sound .bcrypt _ (self_id .bcrypt x h)) (bcrypt_noNL x h))
  | ldap_bsdi_crypt =>
    show (crypted bsdiOut).accepts ((ldapCrypt bsdi_crypt).render x) = true
    rw [ldapCrypt, wrap_render]; exact shape_prepend_accepts _ _ _ (bsdi_out x h)
  | ldap_des_crypt =>
    show (crypted desOut).accepts ((ldapCrypt des_crypt).render x) = true
    rw [ldapCrypt, wrap_render]; exact shape_prepend_accepts _ _ _ (des_out x h)
  | ldap_md5_crypt =>
    show (crypted (noNL (pfx (ofString "$1$")))).accepts ((ldapCrypt md5_crypt).render x) = true
    rw [ldapCrypt, wrap_render]
    exact shape_prepend_accepts _ _ _ (noNL_accepts _ _ (id_sound .md5_crypt _ (self_id .md5_crypt x h)) (md5_noNL _ (by decide) x h))
  | ldap_sha1_crypt =>
    show (crypted (noNL sha1cShape)).accepts ((ldapCrypt sha1_crypt).render x) = true
    rw [ldapCrypt, wrap_render]
    exact shape_prepend_accepts _ _ _ (noNL_accepts _ _ (id_sound .sha1_crypt _ (self_id .sha1_crypt x h)) (sha1c_noNL x h))
  | ldap_sha256_crypt =>
    show (crypted (noNL (pfx (ofString "$5$")))).accepts ((ldapCrypt sha256_crypt).render x) = true
    rw [ldapCrypt, wrap_render]
    exact shape_prepend_accepts _ _ _ (noNL_accepts _ _ (id_sound .sha256_crypt _ (self_id .sha256_crypt x h)) (sha2_noNL _ (by decide) 43 x h))
  | ldap_sha512_crypt =>
    show (crypted (noNL (pfx (ofString "$6$")))).accepts ((ldapCrypt sha512_crypt).render x) = true
    rw [ldapCrypt, wrap_render]
    exact shape_prepend_accepts _ _ _ (noNL_accepts _ _ (id_sound .sha512_crypt _ (self_id .sha512_crypt x h)) (sha2_noNL _ (by decide) 86 x h))
  | ldap_md5 => exact ldapB64_out "ldap_md5" _ 24 x h
  | ldap_sha1 => exact ldapB64_out "ldap_sha1" _ 28 x h
  | _ => exact hid

/-- a configured ident (`bcrypt__ident="2y"`, `phpass__ident="H"`) is the prefix of what is rendered -/
theorem ident_prefix (n : Name) (hn : n = .bcrypt ∨ n = .phpass) (x : Parsed) :
    x.ident.isPrefixOf ((scheme n).fmt.render x) = true := by
  rcases hn with rfl | rfl
  · exact prefix_append _ _
  · exact prefix_append _ _

end Lemmas.Shapes
