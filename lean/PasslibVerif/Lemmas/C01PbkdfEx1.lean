import PasslibVerif.Model.VerifyFmt.Pbkdf
/-
C01 for the PBKDF family — REAL hashes (made by /repo with `X.using(salt=…, rounds=1).hash("pw")`) evaluated inside the kernel:
the assembled hasher model returns exactly the string the library returns.  Used by the `example`s of Props/C01Pbkdf.lean to
instantiate the hypotheses of the theorems on real values.  Part 1: pbkdf2_sha1, pbkdf2_sha256, django_salted_md5 / _sha1.
(Costlier settings and the remaining formats are compared through the compiled driver in the correspondence run.)
-/
namespace Lemmas.C01Pbkdf.Real
open Py Model.Handler Model.Formats Model.Verify Model.VerifyFmt.Pbkdf

/-- the salt `b"0123456789abcdef"` -/
def S16 : Bytes := ofString "0123456789abcdef"
/-- the password "pw" as text / as bytes -/
def PW : Secret := .text [112, 119]
def PWB : Secret := .bytes [112, 119]

set_option maxRecDepth 100000

theorem pbkdf2_sha1 : hashSecret pbkdf2_sha1Hasher PW (mc3Settings PBKDF2_SHA1_IDENT S16 1) =
    .ok (ofString "$pbkdf2$1$MDEyMzQ1Njc4OWFiY2RlZg$6TwxOhjZZSKPsEY7DdOXPh.O0ys") := by decide +kernel

theorem pbkdf2_sha256 : hashSecret pbkdf2_sha256Hasher PW (mc3Settings PBKDF2_SHA256_IDENT S16 1) =
    .ok (ofString "$pbkdf2-sha256$1$MDEyMzQ1Njc4OWFiY2RlZg$miV12U28oLmGnCgxeNLhW0itUOzTifJEjH82QZpDV6g") := by decide +kernel

theorem django_salted_md5 : hashSecret django_salted_md5Hasher PW (djSaltedSettings DJANGO_MD5_IDENT (ofString "YUZOHljbYxfQ")) =
    .ok (ofString "md5$YUZOHljbYxfQ$df1a802adfa03338a280e1e2ef8e2c85") := by decide +kernel

theorem django_salted_sha1 : hashSecret django_salted_sha1Hasher PW (djSaltedSettings DJANGO_SHA1_IDENT (ofString "7D7FJw2WlwiN")) =
    .ok (ofString "sha1$7D7FJw2WlwiN$65c720c7a9224db1c45837a9fab1c1c934d41d5a") := by decide +kernel

end Lemmas.C01Pbkdf.Real
