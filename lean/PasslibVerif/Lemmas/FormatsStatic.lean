import PasslibVerif.Model.Formats.Static
import PasslibVerif.Lemmas.FormatsMd5Sha2
import PasslibVerif.Lemmas.PyStr
import PasslibVerif.Lemmas.B64Std
namespace Lemmas.Formats
open Py Model.Handler Model.Formats Lemmas.Handler Lemmas.PyStr

/-! ### small generic facts -/
theorem stripPrefix_spec (a h r : Str) (hs : stripPrefix a h = some r) : h = a ++ r := by
  unfold stripPrefix at hs
  split at hs
  · rename_i hp
    simp only [Option.some.injEq] at hs
    obtain ⟨t, ht⟩ := List.isPrefixOf_iff_prefix.1 hp
    rw [← ht] at hs ⊢
    simp at hs
    rw [hs]
  · cases hs

theorem stripPrefix_nil (h : Str) : stripPrefix [] h = some h := by simp [stripPrefix]

theorem allIn_mono (a b : List Nat) (hab : ∀ c ∈ a, c ∈ b) (s : Str) (h : allIn a s = true) : allIn b s = true := by
  unfold allIn at h ⊢
  rw [List.all_eq_true] at h ⊢
  intro x hx
  have := h x hx
  simp only [List.contains_eq_mem, decide_eq_true_eq] at this ⊢
  exact hab x this

theorem allIn_mem (cs s : Str) (h : allIn cs s = true) : ∀ c ∈ s, c ∈ cs := by
  unfold allIn at h
  rw [List.all_eq_true] at h
  intro c hc
  simpa using h c hc

theorem allIn_of_mem (cs s : Str) (h : ∀ c ∈ s, c ∈ cs) : allIn cs s = true := by
  unfold allIn
  rw [List.all_eq_true]
  intro c hc
  simpa using h c hc

theorem allIn_append (cs a b : Str) : allIn cs (a ++ b) = (allIn cs a && allIn cs b) := by
  unfold allIn; simp

/-- settings that consist of a checksum only -/
structure ChkOnly (ident : Str) (P : Str → Prop) (p : Parsed) : Prop where
  ident : p.ident = ident
  rounds : p.rounds = none
  salt : p.salt = none
  extra : p.extra = []
  chk : ∃ c, p.checksum = some c ∧ P c

/-! ### StaticHandler: generic round trip -/

/-- R1 for every StaticHandler: a checksum that passes `_norm_checksum` and whose rendering is a fixed point of
    `_norm_hash` parses back to itself -/
theorem static_parse_render (norm : CaseNorm) (ident pfx : Str) (size : Option Nat) (chars : Option (List Nat)) (p : Parsed)
    (h : ChkOnly ident (fun c => normChecksum size chars c = some c ∧ norm.apply (pfx ++ c) = pfx ++ c) p) :
    staticParse norm ident pfx size chars (staticRender pfx p) = some p := by
  obtain ⟨hi, hr, hs, he, c, hc, hn, hst⟩ := h
  obtain ⟨pi, pr, ps, pc, pe⟩ := p
  simp only at hi hr hs he hc
  subst hi hr hs he hc
  simp only [staticParse, staticRender, Option.getD_some, hst, stripPrefix_append, Option.bind_some, hn, Option.map_some]

/-- WF for every StaticHandler: what parses is a bare checksum that passes `_norm_checksum`, and prefix + checksum
    is the normalised input -/
theorem static_parse_wf (norm : CaseNorm) (ident pfx : Str) (size : Option Nat) (chars : Option (List Nat)) (s : Str) (p : Parsed)
    (h : staticParse norm ident pfx size chars s = some p) :
    ChkOnly ident (fun c => normChecksum size chars c = some c ∧ norm.apply s = pfx ++ c) p := by
  unfold staticParse at h
  cases hp : stripPrefix pfx (norm.apply s) with
  | none => simp [hp] at h
  | some body =>
    simp only [hp, Option.bind_some] at h
    cases hn : normChecksum size chars body with
    | none => simp [hn] at h
    | some c =>
      simp only [hn, Option.map_some, Option.some.injEq] at h
      have hcb : c = body := by
        unfold normChecksum at hn
        simp only [Option.ite_none_right_eq_some] at hn
        exact (Option.some.inj hn.2).symm
      subst hcb
      subst h
      exact ⟨rfl, rfl, rfl, rfl, c, rfl, hn, stripPrefix_spec _ _ _ hp⟩

theorem static_identify_render (norm : CaseNorm) (pfx : Str) (size : Option Nat) (chars : Option (List Nat)) (p : Parsed)
    (hne : (staticRender pfx p).isEmpty = false)
    (h : staticParse norm [] pfx size chars (staticRender pfx p) = some p) :
    identByParse (staticParse norm [] pfx size chars) (staticRender pfx p) = true := by
  unfold identByParse; simp [h, hne]

/-! ### hex alphabets -/
theorem lowerHex_sub_hex : ∀ c ∈ lowerHex, c ∈ hexChars := by decide
theorem upperHex_sub_hex : ∀ c ∈ upperHex, c ∈ hexChars := by decide
theorem hex_ascii : ∀ c ∈ hexChars, c < 128 := by decide
theorem hex_noUpper_lower : ∀ c ∈ hexChars, ¬ (65 ≤ c ∧ c ≤ 90) → c ∈ lowerHex := by decide
theorem hex_noLower_upper : ∀ c ∈ hexChars, ¬ (97 ≤ c ∧ c ≤ 122) → c ∈ upperHex := by decide
theorem lowerHex_noUpper : ∀ c ∈ lowerHex, ¬ (65 ≤ c ∧ c ≤ 90) := by decide
theorem upperHex_noLower : ∀ c ∈ upperHex, ¬ (97 ≤ c ∧ c ≤ 122) := by decide
theorem hexChars_ne_nil : hexChars ≠ [] := by decide

theorem lowerHex_facts (c : Str) (h : allIn lowerHex c = true) : Ascii c ∧ NoUpper c ∧ allIn hexChars c = true :=
  ⟨fun x hx => hex_ascii x (lowerHex_sub_hex x (allIn_mem _ _ h x hx)),
   fun x hx => lowerHex_noUpper x (allIn_mem _ _ h x hx),
   allIn_mono _ _ lowerHex_sub_hex c h⟩

theorem upperHex_facts (c : Str) (h : allIn upperHex c = true) : Ascii c ∧ NoLower c ∧ allIn hexChars c = true :=
  ⟨fun x hx => hex_ascii x (upperHex_sub_hex x (allIn_mem _ _ h x hx)),
   fun x hx => upperHex_noLower x (allIn_mem _ _ h x hx),
   allIn_mono _ _ upperHex_sub_hex c h⟩

/-! ### lower-cased hex digests: hex_md4 … hex_sha512, nthash, lmhash, msdcc, msdcc2, mysql323 -/

/-- canonical settings of an `n`-digit hex digest: `n` LOWER-case hex digits -/
def HexLowerWF (n : Nat) (p : Parsed) : Prop := ChkOnly [] (fun c => c.length = n ∧ allIn lowerHex c = true) p

theorem hexLower_parse_render (name : String) (n : Nat) (p : Parsed) (h : HexLowerWF n p) :
    (hexLowerFormat name n).parse ((hexLowerFormat name n).render p) = some p := by
  obtain ⟨hi, hr, hs, he, c, hc, hl, hx⟩ := h
  obtain ⟨ha, hnu, hhex⟩ := lowerHex_facts c hx
  show staticParse .lower [] [] (some n) (some hexChars) (staticRender [] p) = some p
  apply static_parse_render
  refine ⟨hi, hr, hs, he, c, hc, normChecksum_ok n hexChars c hl hhex, ?_⟩
  simp only [CaseNorm.apply, List.nil_append]
  exact pyLower_fixed c ha hnu

/-- whatever parses is canonical: the reported digest is lower-case hex of the right length — so the re-rendered
    string is lower-case whatever the case of the input was -/
theorem hexLower_parse_wf (name : String) (n : Nat) (hn : n ≠ 0) (s : Str) (p : Parsed)
    (h : (hexLowerFormat name n).parse s = some p) : HexLowerWF n p ∧ p.checksum = some (pyLower s) := by
  change staticParse .lower [] [] (some n) (some hexChars) s = some p at h
  obtain ⟨hi, hr, hs, he, c, hc, hnc, hst⟩ := static_parse_wf _ _ _ _ _ s p h
  obtain ⟨_, hl, hx⟩ := normChecksum_spec n hexChars c c hn hexChars_ne_nil hnc
  simp only [CaseNorm.apply, List.nil_append] at hst
  refine ⟨⟨hi, hr, hs, he, c, hc, hl, ?_⟩, by rw [hc, hst]⟩
  apply allIn_of_mem
  intro x hxm
  apply hex_noUpper_lower x (allIn_mem _ _ hx x hxm)
  have := pyLower_noUpper s x
  rw [hst] at this
  exact this hxm

/-- R2 -/
theorem hexLower_stable (name : String) (n : Nat) (hn : n ≠ 0) (s : Str) (p : Parsed)
    (h : (hexLowerFormat name n).parse s = some p) :
    (hexLowerFormat name n).parse ((hexLowerFormat name n).render p) = some p :=
  hexLower_parse_render name n p (hexLower_parse_wf name n hn s p h).1

/-- the rendering of what was parsed is the lower-cased input -/
theorem hexLower_render_parse (name : String) (n : Nat) (hn : n ≠ 0) (s : Str) (p : Parsed)
    (h : (hexLowerFormat name n).parse s = some p) : (hexLowerFormat name n).render p = pyLower s := by
  have := (hexLower_parse_wf name n hn s p h).2
  simp [hexLowerFormat, staticFormat, staticRender, this]

/-- case-insensitive: an (ASCII) hash and its upper-cased form parse to the same settings -/
theorem hexLower_parse_upper (name : String) (n : Nat) (s : Str) (ha : Ascii s) :
    (hexLowerFormat name n).parse (pyUpper s) = (hexLowerFormat name n).parse s := by
  simp only [hexLowerFormat, staticFormat, staticParse, CaseNorm.apply, pyLower_pyUpper s ha]

theorem hexLower_identify_render (name : String) (n : Nat) (hn : n ≠ 0) (p : Parsed) (h : HexLowerWF n p) :
    (hexLowerFormat name n).identify ((hexLowerFormat name n).render p) = true := by
  have hpr := hexLower_parse_render name n p h
  change staticParse .lower [] [] (some n) (some hexChars) (staticRender [] p) = some p at hpr
  obtain ⟨_, _, _, _, c, hc, hl, _⟩ := h
  show identByParse (staticParse .lower [] [] (some n) (some hexChars)) (staticRender [] p) = true
  apply static_identify_render _ _ _ _ _ _ hpr
  simp only [staticRender, hc, Option.getD_some, List.nil_append]
  cases c with
  | nil => exact absurd hl.symm hn
  | cons _ _ => rfl

/-! ### upper-cased hex: mysql41 (`*` + 40), oracle10 (16) -/
def HexUpperWF (n : Nat) (p : Parsed) : Prop := ChkOnly [] (fun c => c.length = n ∧ allIn upperHex c = true) p

theorem hexUpper_parse_render (name : String) (pfx : Str) (hpa : Ascii pfx) (hpl : NoLower pfx) (n : Nat) (p : Parsed)
    (h : HexUpperWF n p) :
    (staticFormat name .upper pfx (some n) (some hexChars)).parse ((staticFormat name .upper pfx (some n) (some hexChars)).render p) = some p := by
  obtain ⟨hi, hr, hs, he, c, hc, hl, hx⟩ := h
  obtain ⟨ha, hnl, hhex⟩ := upperHex_facts c hx
  show staticParse .upper [] pfx (some n) (some hexChars) (staticRender pfx p) = some p
  apply static_parse_render
  refine ⟨hi, hr, hs, he, c, hc, normChecksum_ok n hexChars c hl hhex, ?_⟩
  simp only [CaseNorm.apply]
  apply pyUpper_fixed _ (ascii_append hpa ha)
  intro x hxm
  rcases List.mem_append.1 hxm with h1 | h1
  · exact hpl x h1
  · exact hnl x h1

theorem hexUpper_parse_wf (name : String) (pfx : Str) (n : Nat) (hn : n ≠ 0) (s : Str) (p : Parsed)
    (h : (staticFormat name .upper pfx (some n) (some hexChars)).parse s = some p) :
    HexUpperWF n p ∧ pyUpper s = pfx ++ p.checksum.getD [] := by
  change staticParse .upper [] pfx (some n) (some hexChars) s = some p at h
  obtain ⟨hi, hr, hs, he, c, hc, hnc, hst⟩ := static_parse_wf _ _ _ _ _ s p h
  obtain ⟨_, hl, hx⟩ := normChecksum_spec n hexChars c c hn hexChars_ne_nil hnc
  simp only [CaseNorm.apply] at hst
  refine ⟨⟨hi, hr, hs, he, c, hc, hl, ?_⟩, by rw [hc, hst]; rfl⟩
  apply allIn_of_mem
  intro x hxm
  apply hex_noLower_upper x (allIn_mem _ _ hx x hxm)
  have := pyUpper_noLower s x
  rw [hst] at this
  exact this (List.mem_append_right _ hxm)

theorem hexUpper_parse_lower (name : String) (pfx : Str) (n : Nat) (s : Str) (ha : Ascii s) :
    (staticFormat name .upper pfx (some n) (some hexChars)).parse (pyLower s) =
    (staticFormat name .upper pfx (some n) (some hexChars)).parse s := by
  simp only [staticFormat, staticParse, CaseNorm.apply, pyUpper_pyLower s ha]

/-! ### no case normalisation: postgres_md5, cisco_pix, cisco_asa, ldap_md5, ldap_sha1, django_disabled -/
theorem keep_parse_render (ident pfx : Str) (size : Option Nat) (chars : Option (List Nat)) (p : Parsed)
    (h : ChkOnly ident (fun c => normChecksum size chars c = some c) p) :
    staticParse .keep ident pfx size chars (staticRender pfx p) = some p := by
  obtain ⟨hi, hr, hs, he, c, hc, hn⟩ := h
  exact static_parse_render .keep ident pfx size chars p ⟨hi, hr, hs, he, c, hc, hn, rfl⟩

theorem keep_parse_wf (ident pfx : Str) (size : Option Nat) (chars : Option (List Nat)) (s : Str) (p : Parsed)
    (h : staticParse .keep ident pfx size chars s = some p) :
    ChkOnly ident (fun c => normChecksum size chars c = some c) p ∧ staticRender pfx p = s := by
  obtain ⟨hi, hr, hs, he, c, hc, hn, hst⟩ := static_parse_wf _ _ _ _ _ s p h
  refine ⟨⟨hi, hr, hs, he, c, hc, hn⟩, ?_⟩
  simp only [CaseNorm.apply] at hst
  simp [staticRender, hc, hst]

/-! ### handlers without from_string: plaintext, ldap_plaintext, htdigest, unix_disabled -/
theorem whole_parse_render (ok : Str → Bool) (p : Parsed) (h : ChkOnly [] (fun c => ok c = true) p) :
    wholeParse ok (wholeRender p) = some p := by
  obtain ⟨hi, hr, hs, he, c, hc, hok⟩ := h
  obtain ⟨pi, pr, ps, pc, pe⟩ := p
  simp only at hi hr hs he hc
  subst hi hr hs he hc
  simp [wholeParse, wholeRender, hok]

/-- lossless: what parses re-renders to the very same string -/
theorem whole_parse_wf (ok : Str → Bool) (s : Str) (p : Parsed) (h : wholeParse ok s = some p) :
    ChkOnly [] (fun c => ok c = true) p ∧ wholeRender p = s := by
  unfold wholeParse at h
  split at h
  · rename_i hok
    simp only [Option.some.injEq] at h
    subst h
    exact ⟨⟨rfl, rfl, rfl, rfl, s, rfl, hok⟩, rfl⟩
  · cases h

/-! ### PrefixWrapper -/
theorem unwrap_wrap (pfx orig u h : Str) (hw : wrapHash pfx orig u = some h) : unwrapHash pfx orig h = some u := by
  unfold wrapHash at hw
  cases hs : stripPrefix orig u with
  | none => simp [hs] at hw
  | some r =>
    simp only [hs, Option.map_some, Option.some.injEq] at hw
    subst hw
    rw [stripPrefix_spec _ _ _ hs]
    simp [unwrapHash, stripPrefix_append]

theorem wrap_unwrap (pfx orig h u : Str) (hu : unwrapHash pfx orig h = some u) : wrapHash pfx orig u = some h := by
  unfold unwrapHash at hu
  cases hs : stripPrefix pfx h with
  | none => simp [hs] at hu
  | some r =>
    simp only [hs, Option.map_some, Option.some.injEq] at hu
    subst hu
    rw [stripPrefix_spec _ _ _ hs]
    simp [wrapHash, stripPrefix_append]

/-- a wrapped format round-trips whenever the inner one does (and the inner rendering carries `orig_prefix`) -/
theorem wrap_parse_render (name : String) (pfx orig : Str) (inner : Format) (p : Parsed)
    (hin : inner.parse (inner.render p) = some p) (hpre : ∃ r, inner.render p = orig ++ r) :
    (wrapFormat name pfx orig inner).parse ((wrapFormat name pfx orig inner).render p) = some p := by
  obtain ⟨r, hr⟩ := hpre
  have hw : wrapHash pfx orig (inner.render p) = some (pfx ++ r) := by
    rw [hr]; simp [wrapHash, stripPrefix_append]
  simp only [wrapFormat, hw, Option.getD_some]
  rw [unwrap_wrap pfx orig _ _ hw]
  simpa using hin

/-- the wrapper accepts exactly prefix + (inner hashes minus `orig_prefix`), and reports the inner settings -/
theorem wrap_parse_iff (name : String) (pfx orig : Str) (inner : Format) (h : Str) (p : Parsed) :
    (wrapFormat name pfx orig inner).parse h = some p ↔ ∃ r, h = pfx ++ r ∧ inner.parse (orig ++ r) = some p := by
  simp only [wrapFormat, unwrapHash]
  constructor
  · intro hp
    cases hs : stripPrefix pfx h with
    | none => simp [hs] at hp
    | some r =>
      simp only [hs, Option.map_some, Option.bind_some] at hp
      exact ⟨r, stripPrefix_spec _ _ _ hs, hp⟩
  · rintro ⟨r, rfl, hp⟩
    simp [stripPrefix_append, hp]

/-- R2 through the wrapper -/
theorem wrap_stable (name : String) (pfx orig : Str) (inner : Format)
    (hin : ∀ s p, inner.parse s = some p → inner.parse (inner.render p) = some p)
    (hpre : ∀ s p, inner.parse s = some p → ∃ r, inner.render p = orig ++ r)
    (h : Str) (p : Parsed) (hp : (wrapFormat name pfx orig inner).parse h = some p) :
    (wrapFormat name pfx orig inner).parse ((wrapFormat name pfx orig inner).render p) = some p := by
  obtain ⟨r, _, hpi⟩ := (wrap_parse_iff name pfx orig inner h p).1 hp
  exact wrap_parse_render name pfx orig inner p (hin _ _ hpi) (hpre _ _ hpi)

theorem wrap_identify_render (name : String) (pfx orig : Str) (inner : Format) (p : Parsed)
    (hid : inner.identify (inner.render p) = true) (hpre : ∃ r, inner.render p = orig ++ r) :
    (wrapFormat name pfx orig inner).identify ((wrapFormat name pfx orig inner).render p) = true := by
  obtain ⟨r, hr⟩ := hpre
  have hw : wrapHash pfx orig (inner.render p) = some (pfx ++ r) := by
    rw [hr]; simp [wrapHash, stripPrefix_append]
  simp only [wrapFormat, hw, Option.getD_some]
  rw [unwrap_wrap pfx orig _ _ hw]
  exact hid

/-! ### settings with a salt and a checksum -/
structure SaltChk (ident : Str) (PS PC : Str → Prop) (p : Parsed) : Prop where
  ident : p.ident = ident
  rounds : p.rounds = none
  extra : p.extra = []
  salt : ∃ s, p.salt = some s ∧ PS s
  chk : ∃ c, p.checksum = some c ∧ PC c

theorem dollarEnd_id (l : Str) (h : ∀ x ∈ l, x ≠ 10) : dollarEnd l = l := by
  unfold dollarEnd
  split
  · rename_i hl
    exact absurd rfl (h 10 (List.mem_of_getLast? hl))
  · rfl

theorem normChecksum_raw (n : Nat) (c : Str) (h : c.length = n) : normChecksum (some n) none c = some c := by
  simp [normChecksum, charsOk, h]

theorem normChecksum_raw_spec (n : Nat) (hn : n ≠ 0) (c c' : Str) (h : normChecksum (some n) none c = some c') :
    c' = c ∧ c.length = n := by
  unfold normChecksum at h
  simp only [Option.ite_none_right_eq_some, charsOk, Bool.and_true, Bool.or_eq_true, decide_eq_true_eq, Option.some.injEq] at h
  rcases h with ⟨h1 | h1, h2⟩
  · exact absurd h1 hn
  · exact ⟨h2.symm, h1⟩

theorem normSalt_raw (mn mx : Nat) (s : Str) (h1 : mn ≤ s.length) (h2 : s.length ≤ mx) :
    normSalt none mn (some mx) false s = some s := by
  unfold normSalt
  have a : ¬ (s.length < mn) := by omega
  have b : ¬ (s.length > mx) := by omega
  simp [a, b]

theorem normSalt_raw_spec (mn mx : Nat) (hmn : mn ≠ 0) (hmx : mx ≠ 0) (s s' : Str)
    (h : normSalt none mn (some mx) false s = some s') : s' = s ∧ mn ≤ s.length ∧ s.length ≤ mx := by
  unfold normSalt at h
  simp only [Bool.not_true, Bool.false_eq_true, if_false] at h
  by_cases h1 : s.length < mn
  · simp [h1, hmn] at h
  · by_cases h2 : s.length > mx
    · simp [h1, h2, hmx] at h
    · simp only [h1, h2, decide_false, Bool.and_false, Bool.false_eq_true, if_false, Option.some.injEq] at h
      exact ⟨h.symm, by omega, by omega⟩

/-! ### mssql2000 / mssql2005 -/
theorem hexVal_digit : ∀ n, n < 16 → hexValN (hexDigitUpper n) = some n := by decide

theorem unhexlify_hexlifyUpper : ∀ bs : Bytes, Bytes.WF bs → unhexlify (hexlifyUpper bs) = some bs
  | [], _ => rfl
  | b :: rest, h => by
    have hb : b < 256 := h b List.mem_cons_self
    have ih := unhexlify_hexlifyUpper rest (fun x hx => h x (List.mem_cons_of_mem _ hx))
    unfold hexlifyUpper at ih ⊢
    simp only [List.flatMap_cons, List.cons_append, List.nil_append, unhexlify,
      hexVal_digit (b / 16 % 16) (Nat.mod_lt _ (by decide)), hexVal_digit (b % 16) (Nat.mod_lt _ (by decide)),
      Option.bind_some, ih, Option.map_some]
    congr 2
    omega

theorem hexlifyUpper_length (bs : Bytes) : (hexlifyUpper bs).length = 2 * bs.length := by
  induction bs with
  | nil => rfl
  | cons b rest ih =>
    unfold hexlifyUpper at ih ⊢
    simp only [List.flatMap_cons, List.length_append, List.length_cons, List.length_nil, ih]
    omega

theorem hexValN_lt (c v : Nat) (h : hexValN c = some v) : v < 16 := by
  unfold hexValN at h
  split at h
  · simp only [Option.some.injEq] at h; omega
  · split at h
    · simp only [Option.some.injEq] at h; omega
    · split at h
      · simp only [Option.some.injEq] at h; omega
      · cases h

theorem unhexlify_wf : ∀ (s : Str) (bs : Bytes), unhexlify s = some bs → Bytes.WF bs
  | [], bs, h => by
    simp only [unhexlify, Option.some.injEq] at h
    subst h; intro x hx; cases hx
  | [_], bs, h => by simp [unhexlify] at h
  | a :: b :: rest, bs, h => by
    unfold unhexlify at h
    cases ha : hexValN a with
    | none => simp [ha] at h
    | some x =>
      cases hb : hexValN b with
      | none => simp [ha, hb] at h
      | some y =>
        cases hr : unhexlify rest with
        | none => simp [ha, hb, hr] at h
        | some r =>
          simp only [ha, hb, hr, Option.bind_some, Option.map_some, Option.some.injEq] at h
          subst h
          have ih := unhexlify_wf rest r hr
          have hx := hexValN_lt a x ha
          have hy := hexValN_lt b y hb
          intro z hz
          rcases List.mem_cons.1 hz with e | e
          · rw [e]; omega
          · exact ih z e

/-- well-formed mssql settings: 4 salt bytes, `n` checksum bytes -/
def MssqlWF (n : Nat) (p : Parsed) : Prop :=
  SaltChk [] (fun s => s.length = 4 ∧ Bytes.WF s) (fun c => c.length = n ∧ Bytes.WF c) p

theorem mssql_ident_eq : MSSQL_IDENT = [48, 120, 48, 49, 48, 48] := by decide

theorem mssql_parse_render (csize n : Nat) (hsz : csize = 14 + 2 * n) (p : Parsed) (h : MssqlWF n p) :
    mssqlParse csize n (mssqlRender p) = some p := by
  obtain ⟨hi, hr, he, ⟨s, hs, hsl, hsw⟩, ⟨c, hc, hcl, hcw⟩⟩ := h
  obtain ⟨pi, pr, ps, pc, pe⟩ := p
  simp only at hi hr he hs hc
  subst hi hr he hs hc
  have hwf : Bytes.WF (s ++ c) := by
    intro x hx
    rcases List.mem_append.1 hx with e | e
    · exact hsw x e
    · exact hcw x e
  have hid : mssqlIdentify csize (MSSQL_IDENT ++ hexlifyUpper (s ++ c)) = true := by
    unfold mssqlIdentify
    rw [prefix_append, Bool.and_true, List.length_append, hexlifyUpper_length, List.length_append, hsl, hcl, mssql_ident_eq]
    simp only [List.length_cons, List.length_nil, beq_iff_eq]
    omega
  have hdrop : (MSSQL_IDENT ++ hexlifyUpper (s ++ c)).drop 6 = hexlifyUpper (s ++ c) := by
    rw [mssql_ident_eq]; rfl
  simp only [mssqlParse, mssqlRender, Option.getD_some, hid, if_true, hdrop, unhexlify_hexlifyUpper _ hwf, Option.bind_some,
    List.drop_left' hsl, List.take_left' hsl, normChecksum_raw n c hcl, normSalt_raw 4 4 s (by omega) (by omega), Option.map_some]

theorem mssql_parse_wf (csize n : Nat) (hn : n ≠ 0) (s : Str) (p : Parsed) (h : mssqlParse csize n s = some p) : MssqlWF n p := by
  unfold mssqlParse at h
  split at h
  · cases hu : unhexlify (s.drop 6) with
    | none => simp [hu] at h
    | some data =>
      have hwf := unhexlify_wf _ _ hu
      simp only [hu, Option.bind_some] at h
      cases hc : normChecksum (some n) none (data.drop 4) with
      | none => simp [hc] at h
      | some c =>
        simp only [hc, Option.bind_some] at h
        cases hs : normSalt none 4 (some 4) false (data.take 4) with
        | none => simp [hs] at h
        | some salt =>
          simp only [hs, Option.map_some, Option.some.injEq] at h
          subst h
          obtain ⟨e1, l1⟩ := normChecksum_raw_spec n hn _ _ hc
          obtain ⟨e2, l2, l3⟩ := normSalt_raw_spec 4 4 (by decide) (by decide) _ _ hs
          subst e1 e2
          refine ⟨rfl, rfl, rfl, ⟨_, rfl, by omega, fun x hx => hwf x (List.mem_of_mem_take hx)⟩,
            ⟨_, rfl, l1, fun x hx => hwf x (List.mem_of_mem_drop hx)⟩⟩
  · cases h

theorem mssql_identify_render (csize n : Nat) (hsz : csize = 14 + 2 * n) (p : Parsed) (h : MssqlWF n p) :
    mssqlIdentify csize (mssqlRender p) = true := by
  have := mssql_parse_render csize n hsz p h
  unfold mssqlParse at this
  split at this
  · assumption
  · cases this

/-! ### oracle11 -/
def Oracle11WF (p : Parsed) : Prop :=
  SaltChk [] (fun s => s.length = 20 ∧ allIn upperHex s = true) (fun c => c.length = 40 ∧ allIn upperHex c = true) p

theorem upperHex_sub_ic : ∀ c ∈ upperHex, c ∈ Gen.PyCase.hexIgnoreCase := by decide
theorem upperHex_ne_nl : ∀ c ∈ upperHex, c ≠ 10 := by decide

theorem oracle11_parse_render (p : Parsed) (h : Oracle11WF p) : oracle11Parse (oracle11Render p) = some p := by
  obtain ⟨hi, hr, he, ⟨s, hs, hsl, hsx⟩, ⟨c, hc, hcl, hcx⟩⟩ := h
  obtain ⟨pi, pr, ps, pc, pe⟩ := p
  simp only at hi hr he hs hc
  subst hi hr he hs hc
  obtain ⟨hsa, hsn, _⟩ := upperHex_facts s hsx
  obtain ⟨hca, hcn, _⟩ := upperHex_facts c hcx
  have hrender : oracle11Render ⟨[], none, some s, some c, []⟩ = 83 :: 58 :: (c ++ s) := by
    simp only [oracle11Render, Option.getD_some, pyUpper_fixed c hca hcn, pyUpper_fixed s hsa hsn]
    rfl
  have hnl : ∀ x ∈ (83 :: 58 :: (c ++ s) : Str), x ≠ 10 := by
    intro x hx
    simp only [List.mem_cons, List.mem_append] at hx
    rcases hx with e | e | e | e
    · omega
    · omega
    · exact upperHex_ne_nl x (allIn_mem _ _ hcx x e)
    · exact upperHex_ne_nl x (allIn_mem _ _ hsx x e)
  have hall : allIn Gen.PyCase.hexIgnoreCase (c ++ s) = true := by
    rw [allIn_append, allIn_mono _ _ upperHex_sub_ic c hcx, allIn_mono _ _ upperHex_sub_ic s hsx]; rfl
  have hlen : ((c ++ s).length == 60) = true := by simp [hcl, hsl]
  have hcap : Gen.PyCase.capSIgnoreCase.contains 83 = true := by decide
  rw [hrender]
  unfold oracle11Parse
  rw [dollarEnd_id _ hnl]
  simp only [hcap, hlen, hall, beq_self_eq_true, Bool.and_self, if_true, List.take_left' hcl, List.drop_left' hcl,
    pyUpper_fixed c hca hcn, normChecksum_ok 40 upperHex c hcl hcx, Option.bind_some,
    normSalt_ok upperHex 20 20 false s hsx (by omega) (by omega), Option.map_some]

/-! ### cisco_type7 -/
def Cisco7WF (p : Parsed) : Prop :=
  SaltChk [] (fun s => ∃ n : Nat, s = [n] ∧ n ≤ 52) (fun c => allIn upperHex c = true) p

theorem cisco7_salt_digits : ∀ n : Nat, n < 53 →
    (fmtZeroPad 2 (n : Int)).length = 2 ∧ pyIntOfStr (fmtZeroPad 2 (n : Int)) = some (n : Int) := by decide +kernel

theorem cisco7_parse_render (p : Parsed) (h : Cisco7WF p) : cisco7Parse (cisco7Render p) = some p := by
  obtain ⟨hi, hr, he, ⟨s, hs, n, hsn, hn⟩, ⟨c, hc, hcx⟩⟩ := h
  obtain ⟨pi, pr, ps, pc, pe⟩ := p
  simp only at hi hr he hs hc
  subst hi hr he hs hc hsn
  obtain ⟨hca, hcn, _⟩ := upperHex_facts c hcx
  obtain ⟨hl, hint⟩ := cisco7_salt_digits n (by omega)
  have hrender : cisco7Render ⟨[], none, some [n], some c, []⟩ = fmtZeroPad 2 (n : Int) ++ c := by
    simp [cisco7Render]
  have hlen : ¬ ((fmtZeroPad 2 (n : Int) ++ c).length < 2) := by rw [List.length_append, hl]; omega
  have hchk : normChecksum none (some upperHex) c = some c := by
    simp [normChecksum, charsOk, hcx]
  have hrange : (0 : Int) ≤ (n : Int) ∧ (n : Int) ≤ (Gen.StaticFmt.cisco7MaxSalt : Int) := by
    have : Gen.StaticFmt.cisco7MaxSalt = 52 := rfl
    rw [this]; omega
  rw [hrender]
  unfold cisco7Parse
  rw [if_neg hlen]
  simp only [List.take_left' hl, List.drop_left' hl, hint, Option.bind_some, pyUpper_fixed c hca hcn, hchk, hrange, and_self,
    if_true, Int.toNat_natCast]

/-! ### ldap_salted_* -/
open Spec.Rfc4648 Model.B64 Lemmas.B64 Lemmas.Rfc4648 in
theorem base64NoPad_alphabet (d : Bytes) : ∀ x ∈ base64NoPad d, x ∈ stdAlphabet := by
  intro x hx
  unfold base64NoPad at hx
  obtain ⟨v, hv, rfl⟩ := List.mem_map.1 hx
  have hv64 := groups64_lt64 d v hv
  have : v < stdAlphabet.length := by rw [stdAlphabet_ok.1]; exact hv64
  simp only [List.getD, List.getElem?_eq_getElem this, Option.getD_some]
  exact List.getElem_mem _

theorem std_no_eq : (61 : Nat) ∉ stdB64 := by decide
theorem std_ne_nl : ∀ c ∈ stdB64, c ≠ 10 := by decide

/-- well-formed ldap_salted settings: `cs` checksum bytes, 4..16 salt bytes -/
def LdapSaltedWF (ident : Str) (cs : Nat) (p : Parsed) : Prop :=
  SaltChk ident (fun s => 4 ≤ s.length ∧ s.length ≤ 16 ∧ Bytes.WF s) (fun c => c.length = cs ∧ Bytes.WF c) p

open Spec.Rfc4648 Model.B64 Lemmas.B64 Lemmas.Rfc4648 in
theorem ldapSalted_parse_render (ident : Str) (minChars cs : Nat) (hid : ∀ x ∈ ident, x ≠ 10)
    (hmin : minChars ≤ (4 * (cs + 4) + 2) / 3) (p : Parsed) (h : LdapSaltedWF ident cs p) :
    ldapSaltedParse ident minChars cs (ldapSaltedRender p) = some p := by
  obtain ⟨hi, hr, he, ⟨s, hs, hs4, hs16, hsw⟩, ⟨c, hc, hcl, hcw⟩⟩ := h
  obtain ⟨pi, pr, ps, pc, pe⟩ := p
  simp only at hi hr he hs hc
  subst hi hr he hs hc
  have hwf : Bytes.WF (c ++ s) := by
    intro x hx
    rcases List.mem_append.1 hx with e | e
    · exact hcw x e
    · exact hsw x e
  generalize hd : c ++ s = d at hwf
  have hdl : d.length = cs + s.length := by rw [← hd, List.length_append, hcl]
  have hrender : ldapSaltedRender ⟨pi, none, some s, some c, []⟩ =
      pi ++ (base64NoPad d ++ List.replicate (padLen64 d.length) 61) := by
    simp only [ldapSaltedRender, Option.getD_some, hd, base64]
  have halpha : ∀ x ∈ base64NoPad d, x ∈ stdB64 := base64NoPad_alphabet d
  have hnl : ∀ x ∈ pi ++ (base64NoPad d ++ List.replicate (padLen64 d.length) 61), x ≠ 10 := by
    intro x hx
    rcases List.mem_append.1 hx with e | e
    · exact hid x e
    · rcases List.mem_append.1 e with e | e
      · exact std_ne_nl x (halpha x e)
      · rw [List.eq_of_mem_replicate e]; decide
  have hp : ∀ x ∈ base64NoPad d, (stdB64.contains x) = true := fun x hx => by simpa using halpha x hx
  have h61 : stdB64.contains 61 = false := by decide
  have htake : (base64NoPad d ++ List.replicate (padLen64 d.length) 61).takeWhile (stdB64.contains ·) = base64NoPad d := by
    rw [List.takeWhile_append_of_pos hp, List.takeWhile_replicate, h61]; simp
  have hdrop : (base64NoPad d ++ List.replicate (padLen64 d.length) 61).dropWhile (stdB64.contains ·) =
      List.replicate (padLen64 d.length) 61 := by
    rw [List.dropWhile_append_of_pos hp, List.dropWhile_replicate, h61]; simp
  have hlen : (base64NoPad d).length = (4 * d.length + 2) / 3 := by
    unfold base64NoPad; rw [List.length_map, groups64_length]
  have hpad : padLen64 d.length ≤ 2 := by unfold padLen64; omega
  have hcond : ¬ ((base64NoPad d).length < minChars ∨ (List.replicate (padLen64 d.length) 61).length > 2 ∨
      (!(List.replicate (padLen64 d.length) 61).all (· == 61)) = true) := by
    rw [hlen, List.length_replicate]
    have : (List.replicate (padLen64 d.length) 61).all (· == 61) = true := by
      rw [List.all_eq_true]; intro x hx; rw [List.eq_of_mem_replicate hx]; rfl
    rw [this]
    simp only [Bool.not_true, Bool.false_eq_true, or_false]
    omega
  have hdec : b64decodeLenient (base64NoPad d) (padLen64 d.length) = some d := by
    unfold b64decodeLenient
    have := decodeAll_map_encode stdAlphabet stdAlphabet_ok (groups64 d) (groups64_lt64 d)
    unfold encode64 at this
    unfold base64NoPad stdB64
    rw [this]
    simp only [Option.bind_some, groups64_length]
    have hno : ¬ ((4 * d.length + 2) / 3 % 4 = 1 ∨ ((4 * d.length + 2) / 3 % 4 = 2 ∧ padLen64 d.length < 2) ∨
        ((4 * d.length + 2) / 3 % 4 = 3 ∧ padLen64 d.length < 1)) := by
      unfold padLen64; omega
    rw [if_neg hno]
    exact ungroups64_groups64 d hwf
  rw [hrender]
  unfold ldapSaltedParse
  rw [dollarEnd_id _ hnl, stripPrefix_append]
  simp only [Option.bind_some, htake, hdrop]
  rw [if_neg hcond, List.length_replicate, hdec]
  simp only [Option.bind_some, ← hd, List.take_left' hcl, List.drop_left' hcl, normChecksum_raw cs c hcl,
    normSalt_raw 4 16 s hs4 hs16, Option.map_some]

theorem ldapSalted_identify_render (ident : Str) (hne : ident ≠ []) (p : Parsed) (h : p.ident = ident) :
    identByPrefix ident (ldapSaltedRender p) = true := by
  unfold identByPrefix ldapSaltedRender
  rw [h, prefix_append]
  cases ident with
  | nil => exact absurd rfl hne
  | cons _ _ => rfl

/-! ### WF of whatever parses (oracle11, cisco_type7, ldap_salted_*) and stable re-rendering -/
theorem upperHex_ne_nil : upperHex ≠ [] := by decide

theorem oracle11_parse_wf (h : Str) (p : Parsed) (hp : oracle11Parse h = some p) : Oracle11WF p := by
  unfold oracle11Parse at hp
  split at hp
  · rename_i s c body _
    split at hp
    · cases hc : normChecksum (some 40) (some upperHex) (pyUpper (body.take 40)) with
      | none => simp [hc] at hp
      | some chk =>
        simp only [hc, Option.bind_some] at hp
        cases hs : normSalt (some upperHex) 20 (some 20) false (body.drop 40) with
        | none => simp [hs] at hp
        | some salt =>
          simp only [hs, Option.map_some, Option.some.injEq] at hp
          subst hp
          obtain ⟨e1, l1, x1⟩ := normChecksum_spec 40 upperHex _ _ (by decide) upperHex_ne_nil hc
          obtain ⟨e2, x2, l2, l3⟩ := normSalt_spec upperHex 20 20 _ _ (by decide) hs
          subst e1 e2
          exact ⟨rfl, rfl, rfl, ⟨_, rfl, by omega, x2⟩, ⟨_, rfl, l1, x1⟩⟩
    · cases hp
  · cases hp

theorem oracle11_stable (h : Str) (p : Parsed) (hp : oracle11Parse h = some p) : oracle11Parse (oracle11Render p) = some p :=
  oracle11_parse_render p (oracle11_parse_wf h p hp)

theorem oracle11_identify_render (p : Parsed) (h : Oracle11WF p) : oracle11Identify (oracle11Render p) = true := by
  have hpr := oracle11_parse_render p h
  unfold oracle11Identify
  unfold oracle11Parse at hpr
  have hne : (oracle11Render p).isEmpty = false := by
    unfold oracle11Render; rfl
  rw [hne]
  split at hpr
  · rename_i s c body heq
    split at hpr
    · rename_i hcond
      simpa using hcond
    · cases hpr
  · cases hpr

theorem normChecksum_chars_spec (chars : List Nat) (hne : chars ≠ []) (c c' : Str)
    (h : normChecksum none (some chars) c = some c') : c' = c ∧ allIn chars c = true := by
  unfold normChecksum charsOk at h
  have hne' : chars.isEmpty = false := by cases chars <;> simp_all
  simp only [Option.ite_none_right_eq_some, Bool.true_and, hne', Bool.false_or, Option.some.injEq] at h
  exact ⟨h.2.symm, h.1⟩

theorem cisco7_parse_wf (h : Str) (p : Parsed) (hp : cisco7Parse h = some p) : Cisco7WF p := by
  unfold cisco7Parse at hp
  split at hp
  · cases hp
  · cases hi : pyIntOfStr (h.take 2) with
    | none => simp [hi] at hp
    | some salt =>
      simp only [hi, Option.bind_some] at hp
      cases hc : normChecksum none (some upperHex) (pyUpper (h.drop 2)) with
      | none => simp [hc] at hp
      | some chk =>
        simp only [hc, Option.bind_some] at hp
        split at hp
        · rename_i hr
          simp only [Option.some.injEq] at hp
          subst hp
          obtain ⟨e1, x1⟩ := normChecksum_chars_spec upperHex upperHex_ne_nil _ _ hc
          subst e1
          have : Gen.StaticFmt.cisco7MaxSalt = 52 := rfl
          rw [this] at hr
          exact ⟨rfl, rfl, rfl, ⟨_, rfl, salt.toNat, rfl, by omega⟩, ⟨_, rfl, x1⟩⟩
        · cases hp

theorem cisco7_stable (h : Str) (p : Parsed) (hp : cisco7Parse h = some p) : cisco7Parse (cisco7Render p) = some p :=
  cisco7_parse_render p (cisco7_parse_wf h p hp)

theorem ungroups64_wf : ∀ (vs : List Nat) (bs : Bytes), Spec.Rfc4648.ungroups64 vs = some bs → Bytes.WF bs
  | [], bs, h => by
    simp only [Spec.Rfc4648.ungroups64, Option.some.injEq] at h
    subst h; intro x hx; cases hx
  | [_], bs, h => by simp [Spec.Rfc4648.ungroups64] at h
  | [v1, v2], bs, h => by
    simp only [Spec.Rfc4648.ungroups64, Option.some.injEq] at h
    subst h; intro x hx
    simp only [List.mem_singleton] at hx
    subst hx; exact Nat.mod_lt _ (by decide)
  | [v1, v2, v3], bs, h => by
    simp only [Spec.Rfc4648.ungroups64, Option.some.injEq] at h
    subst h; intro x hx
    simp only [List.mem_cons, List.not_mem_nil, or_false] at hx
    rcases hx with e | e <;> (subst e; exact Nat.mod_lt _ (by decide))
  | v1 :: v2 :: v3 :: v4 :: rest, bs, h => by
    simp only [Spec.Rfc4648.ungroups64] at h
    cases hr : Spec.Rfc4648.ungroups64 rest with
    | none => simp [hr] at h
    | some r =>
      simp only [hr, Option.map_some, Option.some.injEq] at h
      subst h
      have ih := ungroups64_wf rest r hr
      intro x hx
      simp only [List.cons_append, List.nil_append, List.mem_cons] at hx
      rcases hx with e | e | e | e
      · subst e; exact Nat.mod_lt _ (by decide)
      · subst e; exact Nat.mod_lt _ (by decide)
      · subst e; exact Nat.mod_lt _ (by decide)
      · exact ih x e

theorem ldapSalted_parse_wf (ident : Str) (minChars cs : Nat) (hcs : cs ≠ 0) (h : Str) (p : Parsed)
    (hp : ldapSaltedParse ident minChars cs h = some p) : LdapSaltedWF ident cs p := by
  unfold ldapSaltedParse at hp
  cases hb : stripPrefix ident (dollarEnd h) with
  | none => simp [hb] at hp
  | some body =>
    simp only [hb, Option.bind_some] at hp
    split at hp
    · cases hp
    · cases hd : b64decodeLenient (body.takeWhile (stdB64.contains ·)) (body.dropWhile (stdB64.contains ·)).length with
      | none => rw [hd] at hp; exact absurd hp (by simp)
      | some data =>
        have hwf : Bytes.WF data := by
          unfold b64decodeLenient at hd
          cases hda : Model.B64.decodeAll stdB64 (body.takeWhile (stdB64.contains ·)) with
          | none => rw [hda] at hd; exact absurd hd (by simp)
          | some vs =>
            simp only [hda, Option.bind_some] at hd
            split at hd
            · cases hd
            · exact ungroups64_wf vs data hd
        simp only [hd, Option.bind_some] at hp
        cases hc : normChecksum (some cs) none (data.take cs) with
        | none => simp [hc] at hp
        | some chk =>
          simp only [hc, Option.bind_some] at hp
          cases hs : normSalt none 4 (some 16) false (data.drop cs) with
          | none => simp [hs] at hp
          | some salt =>
            simp only [hs, Option.map_some, Option.some.injEq] at hp
            subst hp
            obtain ⟨e1, l1⟩ := normChecksum_raw_spec cs hcs _ _ hc
            obtain ⟨e2, l2, l3⟩ := normSalt_raw_spec 4 16 (by decide) (by decide) _ _ hs
            subst e1 e2
            exact ⟨rfl, rfl, rfl, ⟨_, rfl, l2, l3, fun x hx => hwf x (List.mem_of_mem_drop hx)⟩,
              ⟨_, rfl, l1, fun x hx => hwf x (List.mem_of_mem_take hx)⟩⟩

theorem ldapSalted_stable (ident : Str) (minChars cs : Nat) (hcs : cs ≠ 0) (hid : ∀ x ∈ ident, x ≠ 10)
    (hmin : minChars ≤ (4 * (cs + 4) + 2) / 3) (h : Str) (p : Parsed)
    (hp : ldapSaltedParse ident minChars cs h = some p) : ldapSaltedParse ident minChars cs (ldapSaltedRender p) = some p :=
  ldapSalted_parse_render ident minChars cs hid hmin p (ldapSalted_parse_wf ident minChars cs hcs h p hp)

theorem mssql_stable (csize n : Nat) (hsz : csize = 14 + 2 * n) (hn : n ≠ 0) (s : Str) (p : Parsed)
    (h : mssqlParse csize n s = some p) : mssqlParse csize n (mssqlRender p) = some p :=
  mssql_parse_render csize n hsz p (mssql_parse_wf csize n hn s p h)

end Lemmas.Formats
