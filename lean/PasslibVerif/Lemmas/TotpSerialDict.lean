import PasslibVerif.Lemmas.TotpSerialUri
/- from_dict ∘ to_dict (plain and encrypted key), from_json, from_source dispatch -/
namespace Lemmas.TotpSerial
open Py Model.Handler Model.TotpSerial Model.TotpKey

/-- what the dict round trip asks of an object: exactly what the constructor guarantees -/
structure DictOk (c : Config) : Prop where
  key_ne : c.key ≠ []
  key_wf : Bytes.WF c.key
  alg : c.alg ∈ Gen.TotpSerial.hashNames
  digits : 6 ≤ c.digits ∧ c.digits ≤ 10
  period : 1 ≤ c.period
  label : ∀ l, c.label = some l → l ≠ [] ∧ 58 ∉ l
  issuer : ∀ i, c.issuer = some i → i ≠ [] ∧ 58 ∉ i

/-- the issuer entry `to_dict` writes -/
def dictIssuer {E} (cls : Cls E) (c : Config) : Option Str :=
  match truthy c.issuer with
  | some i => if some i ≠ cls.clsIssuer then some i else none
  | none => none

theorem dictVersion_current {E} : dictVersion (E := E) (some (.int Gen.TotpSerial.jsonVersion)) = .ok Gen.TotpSerial.jsonVersion := by rfl

theorem dict_lookup {E} (cls : Cls E) (c : Config) (kn : Str) (hk : kn = sKey ∨ kn = sEnckey) (v : JVal E) :
    let d := dictState cls c ++ [(kn, v)]
    lookupKey sType d = some (.str sTotp) ∧ hasKey sCls d = false ∧
    lookupKey sV d = some (.int Gen.TotpSerial.jsonVersion) ∧
    lookupKey sKey d = (if kn = sKey then some v else none) ∧ lookupKey sEnckey d = (if kn = sEnckey then some v else none) ∧
    lookupKey sAlg d = (if c.alg ≠ Gen.TotpSerial.defaultAlg then some (.str c.alg) else none) ∧
    lookupKey sDigits d = (if c.digits ≠ Gen.TotpSerial.defaultDigits then some (.int c.digits) else none) ∧
    lookupKey sPeriod d = (if c.period ≠ Gen.TotpSerial.defaultPeriod then some (.int c.period) else none) ∧
    lookupKey sLabel d = (truthy c.label).map .str ∧
    lookupKey sIssuer d = (dictIssuer cls c).map .str ∧
    d.any (fun p => !dictKnown.contains p.1 && !dictCtorOnly.contains p.1) = false ∧
    d.any (fun p => dictCtorOnly.contains p.1) = false ∧
    (d.map Prod.fst).Nodup := by
  unfold dictState dictIssuer
  generalize truthy c.label = tl
  generalize truthy c.issuer = ti
  rcases hk with rfl | rfl <;>
  by_cases h1 : c.alg = Gen.TotpSerial.defaultAlg <;> by_cases h2 : c.digits = Gen.TotpSerial.defaultDigits <;>
    by_cases h3 : c.period = Gen.TotpSerial.defaultPeriod <;> cases tl <;> cases ti
  all_goals first
    | (simp (config := { decide := true }) [h1, h2, h3, hasKey, lookupKey]; done)
    | (rename_i i; by_cases h4 : some i = cls.clsIssuer <;> simp (config := { decide := true }) [h1, h2, h3, h4, hasKey, lookupKey])

/-! ### constructor pieces -/
theorem ctorAlg_str {E} (cls : Cls E) (A alg : Str) (hA : A ≠ []) (h : lookupHash A = .ok alg) : ctorAlg cls (.str A) = .ok alg := by
  have : A.isEmpty = false := by cases A with | nil => exact absurd rfl hA | cons _ _ => rfl
  simp only [ctorAlg, this, Bool.false_eq_true, if_false, h]

theorem ctorKey_b32 {E} (cls : Cls E) (k : Bytes) (hk : k ≠ []) (hwf : Bytes.WF k) : ctorKey cls .base32 (.str (base32Key k)) = .ok (k, false) := by
  have hne := base32Key_ne_nil k hk
  have hemp : (base32Key k).isEmpty = false := by
    cases hb : base32Key k with
    | nil => exact absurd hb hne
    | cons _ _ => rfl
  simp only [ctorKey, hemp, Bool.false_eq_true, if_false, Lemmas.TotpKey.base32_key_roundtrip k hwf, Out.ofRes, Out.bind]

theorem ctorDigits_int {E} (cls : Cls E) (d : Int) (hd : 6 ≤ d ∧ d ≤ 10) : ctorDigits cls (.int d) = .ok d := by
  have : (decide (d < 6) || decide (d > 10)) = false := by simp; omega
  simp only [ctorDigits, this, Bool.false_eq_true, if_false]

theorem ctorPeriod_int {E} (cls : Cls E) (p : Int) (hp : 1 ≤ p) : ctorPeriod cls (.int p) = .ok p := by
  have : ¬ (p < 1) := by omega
  simp only [ctorPeriod, this, if_false]

theorem ctorText_opt {E} (o dflt : Option Str) (h : ∀ s, o = some s → s ≠ [] ∧ 58 ∉ s) :
    ctorText (E := E) ((o.map JVal.str).getD .null) dflt = .ok (o <|> dflt) := by
  cases o with
  | none => rfl
  | some s =>
    have := h s rfl
    have hemp : s.isEmpty = false := by cases s with | nil => exact absurd rfl this.1 | cons _ _ => rfl
    have hc : s.contains 58 = false := by simpa using this.2
    simp only [Option.map_some, Option.getD_some, ctorText, hemp, hc, Bool.false_eq_true, if_false]
    rfl

theorem truthy_of_ok (o : Option Str) (h : ∀ s, o = some s → s ≠ []) : truthy o = o := by
  cases o with
  | none => rfl
  | some s => exact truthy_some s (h s rfl)

theorem dictIssuer_orElse {E} (cls : Cls E) (c : Config) (h : ∀ i, c.issuer = some i → i ≠ []) :
    (dictIssuer cls c <|> cls.clsIssuer) = (c.issuer <|> cls.clsIssuer) := by
  unfold dictIssuer
  rw [truthy_of_ok _ h]
  cases hi : c.issuer with
  | none => rfl
  | some i =>
    by_cases he : some i = cls.clsIssuer
    · simp [he]
    · simp [he]

/-- the body shared by the plain and the encrypted form -/
theorem fromDict_state {E} (cls : Cls E) (c : Config) (h : DictOk c) (kn : Str) (hk : kn = sKey ∨ kn = sEnckey) (v : JVal E)
    (r : Bool) (hkey : ctorKey cls (if kn = sEnckey then KeyFmt.encrypted else KeyFmt.base32) v = .ok (c.key, r)) :
    fromDict cls (dictState cls c ++ [(kn, v)]) =
      .ok { key := c.key, alg := c.alg, digits := c.digits, period := c.period, label := c.label,
            issuer := c.issuer <|> cls.clsIssuer, changed := r } := by
  obtain ⟨hty, hcls, hv, hkk, hek, halg, hdig, hper, hlab, hiss, hunk, hctor, _⟩ := dict_lookup cls c kn hk v
  unfold fromDict
  simp only [hty, hcls, Bool.false_eq_true, if_false, dictType, checkOtpType, if_true, Out.bind, hv, dictVersion_current, hunk, hctor,
    halg, hdig, hper, hlab, hiss, hkk, hek]
  have hn := hashNames_facts c.alg h.alg
  have hnames : c.alg ≠ [] := by
    intro e; have := hn.2.1; rw [e] at this; exact this (by decide)
  have ea : ctorAlg cls ((if c.alg ≠ Gen.TotpSerial.defaultAlg then some (JVal.str c.alg) else none).getD (.str Gen.TotpSerial.defaultAlg)) = .ok c.alg := by
    by_cases ha : c.alg = Gen.TotpSerial.defaultAlg
    · simp only [ha, ne_eq, not_true_eq_false, if_false, Option.getD_none]
      exact ctorAlg_str cls _ _ (by decide) defaultAlg_lookup
    · simp only [ha, ne_eq, not_false_eq_true, if_true, Option.getD_some]
      exact ctorAlg_str cls _ _ hnames hn.2.2.2
  have ed : ctorDigits cls ((if c.digits ≠ Gen.TotpSerial.defaultDigits then some (JVal.int c.digits) else none).getD (.int Gen.TotpSerial.defaultDigits)) = .ok c.digits := by
    by_cases hd : c.digits = Gen.TotpSerial.defaultDigits
    · simp only [hd, ne_eq, not_true_eq_false, if_false, Option.getD_none]; rfl
    · simp only [hd, ne_eq, not_false_eq_true, if_true, Option.getD_some]; exact ctorDigits_int cls _ h.digits
  have ep : ctorPeriod cls ((if c.period ≠ Gen.TotpSerial.defaultPeriod then some (JVal.int c.period) else none).getD (.int Gen.TotpSerial.defaultPeriod)) = .ok c.period := by
    by_cases hp : c.period = Gen.TotpSerial.defaultPeriod
    · simp only [hp, ne_eq, not_true_eq_false, if_false, Option.getD_none]; rfl
    · simp only [hp, ne_eq, not_false_eq_true, if_true, Option.getD_some]; exact ctorPeriod_int cls _ h.period
  have el : ctorText (E := E) (((truthy c.label).map JVal.str).getD .null) none = .ok c.label := by
    rw [truthy_of_ok _ (fun s hs => (h.label s hs).1), ctorText_opt c.label none h.label]
    cases c.label <;> rfl
  have ei : ctorText (E := E) (((dictIssuer cls c).map JVal.str).getD .null) cls.clsIssuer = .ok (c.issuer <|> cls.clsIssuer) := by
    rw [ctorText_opt (dictIssuer cls c) cls.clsIssuer, dictIssuer_orElse cls c (fun i hi => (h.issuer i hi).1)]
    intro s hs
    unfold dictIssuer at hs
    rw [truthy_of_ok _ (fun i hi => (h.issuer i hi).1)] at hs
    cases hi : c.issuer with
    | none => simp [hi] at hs
    | some i =>
      simp only [hi] at hs
      split at hs
      · injection hs with hs; subst hs; exact h.issuer i hi
      · cases hs
  rcases hk with rfl | rfl
  · have e1 : (sKey = sEnckey) = False := by decide
    simp only [e1, if_false, if_true, dictKey, Out.bind] at hkey ⊢
    unfold construct
    simp only [ea, hkey, ed, el, ei, ep, Out.bind, ne_eq, not_true_eq_false, decide_false, Bool.false_or]
  · have e1 : (sEnckey = sKey) = False := by decide
    simp only [e1, if_false, if_true, dictKey, Out.bind] at hkey ⊢
    unfold construct
    simp only [ea, hkey, ed, el, ei, ep, Out.bind, ne_eq, not_true_eq_false, decide_false, Bool.false_or]

/-- from_dict(to_dict(encrypt=False)) -/
theorem fromDict_toDict_plain {E} (cls : Cls E) (c : Config) (h : DictOk c) (seed : Nat) :
    (toDict cls c (some false) seed).bind (fromDict cls) =
      .ok { key := c.key, alg := c.alg, digits := c.digits, period := c.period, label := c.label,
            issuer := c.issuer <|> cls.clsIssuer, changed := false } := by
  unfold toDict wantEncrypt
  simp only [Bool.false_eq_true, if_false, Out.bind]
  exact fromDict_state cls c h sKey (Or.inl rfl) _ false (by
    have : (sKey = sEnckey) = False := by decide
    simp only [this, if_false]; exact ctorKey_b32 cls c.key h.key_ne h.key_wf)

/-- from_dict(to_dict()) through the class wallet: all that is asked of the wallet is that the encrypted key it
    produced decrypts to the key (`r` = its needs_recrypt verdict) -/
theorem fromDict_toDict_encrypted {E} (cls : Cls E) (w : Wallet E) (hw : cls.wallet = some w) (c : Config) (h : DictOk c)
    (enc : Option Bool) (henc : wantEncrypt cls enc = true) (seed : Nat) (e : E) (r : Bool)
    (he : w.encrypt seed c.key = .ok e) (hd : w.decrypt e = .ok (c.key, r)) :
    (toDict cls c enc seed).bind (fromDict cls) =
      .ok { key := c.key, alg := c.alg, digits := c.digits, period := c.period, label := c.label,
            issuer := c.issuer <|> cls.clsIssuer, changed := r } := by
  unfold toDict
  simp only [henc, if_true, hw, he, Out.bind]
  exact fromDict_state cls c h sEnckey (Or.inr rfl) _ r (by simp only [if_true, ctorKey, hw, hd])

/-- the loading class may differ in everything but must hold a wallet that decrypts the blob -/
theorem fromDict_toDict_other_class {E} (cls cls' : Cls E) (hiss : cls'.clsIssuer = cls.clsIssuer) (c : Config) (h : DictOk c) (seed : Nat) :
    (toDict cls c (some false) seed).bind (fromDict cls') =
      .ok { key := c.key, alg := c.alg, digits := c.digits, period := c.period, label := c.label,
            issuer := c.issuer <|> cls.clsIssuer, changed := false } := by
  unfold toDict wantEncrypt
  simp only [Bool.false_eq_true, if_false, Out.bind]
  have hs : dictState cls c = dictState cls' c := by unfold dictState; rw [hiss]
  rw [hs, ← hiss]
  exact fromDict_state cls' c h sKey (Or.inl rfl) _ false (by
    have : (sKey = sEnckey) = False := by decide
    simp only [this, if_false]; exact ctorKey_b32 cls' c.key h.key_ne h.key_wf)

/-! ### json: `sort_keys=True` changes the order of the entries only -/
theorem insertKey_perm {β} (p : Str × β) : ∀ l : List (Str × β), List.Perm (insertKey p l) (p :: l)
  | [] => List.Perm.refl _
  | q :: r => by
    unfold insertKey
    split
    · exact ((insertKey_perm p r).cons q).trans (List.Perm.swap p q r)
    · exact List.Perm.refl _

theorem sortKeys_perm {β} : ∀ d : List (Str × β), List.Perm (sortKeys d) d
  | [] => List.Perm.refl _
  | p :: r => by
    have ih := sortKeys_perm r
    unfold sortKeys at ih ⊢
    simp only [List.foldr_cons]
    exact (insertKey_perm p _).trans (ih.cons p)

theorem lookupKey_perm {β} (k : Str) {d d' : List (Str × β)} (h : List.Perm d d') (hn : (d.map Prod.fst).Nodup) :
    lookupKey k d = lookupKey k d' := by
  induction h with
  | nil => rfl
  | cons x _ ih =>
    obtain ⟨k', v⟩ := x
    simp only [List.map_cons, List.nodup_cons] at hn
    simp only [lookupKey, ih hn.2]
  | swap x y l =>
    obtain ⟨kx, vx⟩ := x
    obtain ⟨ky, vy⟩ := y
    simp only [List.map_cons, List.nodup_cons, List.mem_cons, not_or] at hn
    simp only [lookupKey]
    by_cases e1 : ky = k <;> by_cases e2 : kx = k
    · exact absurd (e1.trans e2.symm) hn.1.1
    · simp [e1, e2]
    · simp [e1, e2]
    · simp [e1, e2]
  | trans h1 _ ih1 ih2 =>
    rw [ih1 hn, ih2 ((h1.map Prod.fst).nodup_iff.1 hn)]

/-- `from_dict` looks entries up by name only: the order of a dict with distinct keys does not matter -/
theorem fromDict_perm {E} (cls : Cls E) {d d' : Dict E} (h : List.Perm d d') (hn : (d.map Prod.fst).Nodup) :
    fromDict cls d = fromDict cls d' := by
  unfold fromDict hasKey
  simp only [lookupKey_perm _ h hn, h.any_eq]

theorem fromJson_toJson_plain {E} (cls : Cls E) (c : Config) (h : DictOk c) (seed : Nat) :
    (toJson cls c (some false) seed).bind (fromJson cls) =
      .ok { key := c.key, alg := c.alg, digits := c.digits, period := c.period, label := c.label,
            issuer := c.issuer <|> cls.clsIssuer, changed := false } := by
  have hrt := fromDict_toDict_plain cls c h seed
  unfold toJson
  unfold toDict wantEncrypt at hrt ⊢
  simp only [Bool.false_eq_true, if_false, Out.bind, fromJson] at hrt ⊢
  have hn := (dict_lookup cls c sKey (Or.inl rfl) (.str (base32Key c.key))).2.2.2.2.2.2.2.2.2.2.2.2
  rw [← hrt]
  have hp := sortKeys_perm (dictState cls c ++ [(sKey, JVal.str (base32Key c.key))])
  exact (fromDict_perm cls hp.symm hn).symm

end Lemmas.TotpSerial
