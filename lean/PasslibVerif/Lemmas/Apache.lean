import PasslibVerif.Model.Apache
namespace Lemmas.Apache
open Py Model.Apache

def keys (r : List (Key × Bytes)) : List Key := r.map (·.1)

def recTokens (src : List Tok) : List Key :=
  src.filterMap fun | .record k => some k | .skipped _ => none

/-- the consistency invariant between `_records` and `_source` -/
structure Inv (s : St) : Prop where
  keysNodup : (keys s.records).Nodup
  covered : ∀ k, k ∈ keys s.records → k ∈ recTokens s.source
  tokNodup : (recTokens s.source).Nodup

/-! ### dictionary facts -/
theorem lookup_isSome_iff (k : Key) : ∀ r : List (Key × Bytes), (lookup k r).isSome = true ↔ k ∈ keys r
  | [] => by simp [lookup, keys]
  | (k', v) :: rest => by
    simp only [lookup, keys, List.map_cons, List.mem_cons]
    by_cases h : k' = k
    · simp [h]
    · have ih := lookup_isSome_iff k rest
      simp only [keys] at ih
      simp only [h, if_false, ih]
      constructor
      · intro hm; exact Or.inr hm
      · rintro (e | hm)
        · exact absurd e.symm h
        · exact hm

theorem hasKey_iff (k : Key) (r : List (Key × Bytes)) : hasKey k r = true ↔ k ∈ keys r :=
  lookup_isSome_iff k r

theorem keys_setItem (k : Key) (v : Bytes) : ∀ r : List (Key × Bytes),
    keys (setItem k v r) = if k ∈ keys r then keys r else keys r ++ [k]
  | [] => by simp [setItem, keys]
  | (k', v') :: rest => by
    have ih := keys_setItem k v rest
    simp only [keys] at ih ⊢
    by_cases h : k' = k
    · subst h; simp [setItem]
    · have h' : ¬ k = k' := fun e => h e.symm
      simp only [setItem, h, if_false, List.map_cons, ih, List.mem_cons, h', false_or]
      split <;> simp_all

theorem keys_filter_sub (p : Key × Bytes → Bool) (r : List (Key × Bytes)) :
    ∀ k, k ∈ keys (r.filter p) → k ∈ keys r := by
  intro k hk
  simp only [keys, List.mem_map] at hk ⊢
  obtain ⟨x, hx, rfl⟩ := hk
  exact ⟨x, (List.mem_filter.1 hx).1, rfl⟩

theorem keys_filter_nodup (p : Key × Bytes → Bool) (r : List (Key × Bytes)) (h : (keys r).Nodup) :
    (keys (r.filter p)).Nodup := by
  simp only [keys] at h ⊢
  induction r with
  | nil => simp
  | cons x xs ih =>
    simp only [List.map_cons, List.nodup_cons] at h
    simp only [List.filter_cons]
    split
    · simp only [List.map_cons, List.nodup_cons]
      refine ⟨?_, ih h.2⟩
      intro hm
      apply h.1
      obtain ⟨y, hy, e⟩ := List.mem_map.1 hm
      exact List.mem_map.2 ⟨y, (List.mem_filter.1 hy).1, e⟩
    · exact ih h.2

theorem lookup_setItem_self (k : Key) (v : Bytes) : ∀ r, lookup k (setItem k v r) = some v
  | [] => by simp [setItem, lookup]
  | (k', v') :: rest => by
    by_cases h : k' = k
    · subst h; simp [setItem, lookup]
    · simp [setItem, lookup, h, lookup_setItem_self k v rest]

theorem lookup_setItem_other (k k2 : Key) (v : Bytes) (hne : k2 ≠ k) : ∀ r, lookup k2 (setItem k v r) = lookup k2 r
  | [] => by simp [setItem, lookup, hne.symm]
  | (k', v') :: rest => by
    by_cases h : k' = k
    · subst h; simp [setItem, lookup, hne.symm]
    · simp only [setItem, h, if_false, lookup, lookup_setItem_other k k2 v hne rest]

theorem delItem_eq_filter (k : Key) : ∀ r, delItem k r = r.filter (fun p => !(p.1 == k))
  | [] => rfl
  | (k', v') :: rest => by
    by_cases h : k' = k
    · simp [delItem, h, delItem_eq_filter k rest]
    · simp [delItem, h, delItem_eq_filter k rest]

theorem lookup_delItem_self (k : Key) : ∀ r, lookup k (delItem k r) = none
  | [] => rfl
  | (k', v') :: rest => by
    by_cases h : k' = k
    · simp [delItem, h, lookup_delItem_self k rest]
    · simp [delItem, h, lookup, lookup_delItem_self k rest]

theorem lookup_delItem_other (k k2 : Key) (hne : k2 ≠ k) : ∀ r, lookup k2 (delItem k r) = lookup k2 r
  | [] => rfl
  | (k', v') :: rest => by
    by_cases h : k' = k
    · subst h; simp [delItem, lookup, hne.symm, lookup_delItem_other k' k2 hne rest]
    · simp [delItem, h, lookup, lookup_delItem_other k k2 hne rest]

theorem recTokens_append (a b : List Tok) : recTokens (a ++ b) = recTokens a ++ recTokens b := by
  simp [recTokens, List.filterMap_append]

theorem mem_recTokens (k : Key) (src : List Tok) : k ∈ recTokens src ↔ Tok.record k ∈ src := by
  simp only [recTokens, List.mem_filterMap]
  constructor
  · rintro ⟨t, ht, e⟩
    cases t with
    | skipped _ => simp at e
    | record k' => simp at e; subst e; exact ht
  · intro h; exact ⟨_, h, rfl⟩

/-! ### the invariant is established by loading and preserved by every operation -/
theorem inv_empty : Inv St.empty := ⟨by simp [keys, St.empty], by simp [keys, St.empty], by simp [recTokens, St.empty]⟩

/-- loop invariant of `_load_lines`: record tokens are exactly the keys, in order, without repeats -/
def AccInv (a : LoadAcc) : Prop := recTokens a.source = keys a.records ∧ (keys a.records).Nodup

theorem accInv_step (digest : Bool) (a a' : LoadAcc) (line : Bytes) (h : AccInv a)
    (hs : loadStep digest a line = .ok a') : AccInv a' := by
  simp only [loadStep] at hs
  by_cases hc : ((lstrip line).isEmpty || decide ((lstrip line).head? = some 35)) = true
  · rw [if_pos hc] at hs; cases hs; exact h
  · rw [if_neg hc] at hs
    cases hp : parseRecord digest line with
    | error e => simp [hp] at hs
    | ok kv =>
      obtain ⟨key, value⟩ := kv
      simp only [hp] at hs
      by_cases hk : hasKey key a.records = true
      · rw [if_pos hk] at hs; cases hs; exact h
      · rw [if_neg hk] at hs
        cases hs
        have hnot : key ∉ keys a.records := fun hm => hk ((hasKey_iff key a.records).2 hm)
        obtain ⟨h1, h2⟩ := h
        constructor
        · simp only [recTokens_append, keys, List.map_append, List.map_cons, List.map_nil]
          split
          · simp only [keys] at h1; rw [h1]; simp [recTokens]
          · simp only [recTokens_append, keys] at h1 ⊢; rw [h1]; simp [recTokens]
        · simp only [keys, List.map_append, List.map_cons, List.map_nil] at hnot ⊢
          rw [List.nodup_append]
          exact ⟨h2, by simp, by intro x hx y hy; simp at hy; subst hy; intro e; subst e; exact hnot hx⟩

theorem accInv_loop (digest : Bool) : ∀ (lines : List Bytes) (a a' : LoadAcc), AccInv a →
    loadLoop digest a lines = .ok a' → AccInv a'
  | [], a, a', h, hs => by simp [loadLoop] at hs; subst hs; exact h
  | l :: ls, a, a', h, hs => by
    unfold loadLoop at hs
    split at hs
    · cases hs
    · rename_i acc1 hst
      exact accInv_loop digest ls acc1 a' (accInv_step digest a acc1 l h hst) hs

theorem inv_load (digest : Bool) (lines : List Bytes) (s : St) (h : loadLines digest lines = .ok s) : Inv s := by
  unfold loadLines at h
  split at h
  · cases h
  · rename_i acc hl
    have hacc := accInv_loop digest lines _ acc ⟨by simp [recTokens, keys], by simp [keys]⟩ hl
    cases h
    obtain ⟨h1, h2⟩ := hacc
    have hrt : ∀ extra : Bytes, recTokens (acc.source ++ [Tok.skipped extra]) = recTokens acc.source := by
      intro e; simp [recTokens_append, recTokens]
    refine ⟨h2, ?_, ?_⟩
    · intro k hk
      show k ∈ recTokens (if _ then _ else _)
      split
      · rw [h1]; exact hk
      · rw [hrt, h1]; exact hk
    · show (recTokens (if _ then _ else _)).Nodup
      split
      · rw [h1]; exact h2
      · rw [hrt, h1]; exact h2

theorem inv_setRecord (s : St) (k : Key) (v : Bytes) (h : Inv s) : Inv (setRecord s k v).1 := by
  obtain ⟨h1, h2, h3⟩ := h
  unfold setRecord
  simp only
  by_cases hex : hasKey k s.records = true
  · -- existing key: source unchanged, keys unchanged
    have hmem := (hasKey_iff k s.records).1 hex
    have hk : keys (setItem k v s.records) = keys s.records := by rw [keys_setItem]; simp [hmem]
    simp only [hex, Bool.not_true, Bool.false_and, Bool.false_eq_true, if_false]
    exact ⟨by rw [hk]; exact h1, by rw [hk]; exact h2, h3⟩
  · have hnm : k ∉ keys s.records := fun hm => hex ((hasKey_iff k s.records).2 hm)
    have hk : keys (setItem k v s.records) = keys s.records ++ [k] := by rw [keys_setItem]; simp [hnm]
    have hex' : hasKey k s.records = false := by simpa using hex
    simp only [hex', Bool.not_false, Bool.true_and]
    by_cases hc : s.source.contains (Tok.record k) = true
    · -- deleted earlier: its token is still there, nothing is appended
      simp only [hc, Bool.not_true, Bool.false_eq_true, if_false]
      refine ⟨?_, ?_, h3⟩
      · rw [hk, List.nodup_append]
        exact ⟨h1, by simp, by intro x hx y hy; simp at hy; subst hy; intro e; subst e; exact hnm hx⟩
      · intro k' hk'
        rw [hk] at hk'
        rcases List.mem_append.1 hk' with hm | hm
        · exact h2 k' hm
        · simp at hm; subst hm
          exact (mem_recTokens k' s.source).2 (by simpa using hc)
    · have hc' : s.source.contains (Tok.record k) = false := by simpa using hc
      simp only [hc', Bool.not_false, if_true]
      have hnt : k ∉ recTokens s.source := fun hm => hc (by simpa using (mem_recTokens k s.source).1 hm)
      refine ⟨?_, ?_, ?_⟩
      · rw [hk, List.nodup_append]
        exact ⟨h1, by simp, by intro x hx y hy; simp at hy; subst hy; intro e; subst e; exact hnm hx⟩
      · intro k' hk'
        rw [hk] at hk'
        rw [recTokens_append]
        rcases List.mem_append.1 hk' with hm | hm
        · exact List.mem_append.2 (Or.inl (h2 k' hm))
        · simp at hm; subst hm; exact List.mem_append.2 (Or.inr (by simp [recTokens]))
      · rw [recTokens_append, List.nodup_append]
        exact ⟨h3, by simp [recTokens], by intro x hx y hy; simp [recTokens] at hy; subst hy; intro e; subst e; exact hnt hx⟩

theorem inv_filter (s : St) (p : Key × Bytes → Bool) (h : Inv s) : Inv ⟨s.records.filter p, s.source⟩ :=
  ⟨keys_filter_nodup p s.records h.keysNodup, fun k hk => h.covered k (keys_filter_sub p s.records k hk), h.tokNodup⟩

theorem inv_setItem_existing (s : St) (k : Key) (v : Bytes) (hk : k ∈ keys s.records) (h : Inv s) :
    Inv ⟨setItem k v s.records, s.source⟩ := by
  have e : keys (setItem k v s.records) = keys s.records := by rw [keys_setItem]; simp [hk]
  exact ⟨by rw [e]; exact h.keysNodup, by rw [e]; exact h.covered, h.tokNodup⟩

theorem inv_step (digest : Bool) (vau : Bytes → Bytes → Bool × Option Bytes) (s : St) (op : Op) (h : Inv s) :
    Inv (step digest vau s op) := by
  cases op with
  | load data =>
    simp only [step, loadString]
    split
    · rename_i s' hl; exact inv_load digest _ s' hl
    · exact h
  | setHash u r hh =>
    simp only [step, setHash]
    split
    · rename_i s' b hs
      split at hs
      · cases hs
      · rename_i k _
        cases hs
        exact inv_setRecord s k hh h
    · exact h
  | delete u r =>
    simp only [step, delete]
    split
    · rename_i s' b hs
      split at hs
      · cases hs
      · split at hs
        · cases hs; rw [delItem_eq_filter]; exact inv_filter s _ h
        · cases hs; exact h
    · exact h
  | deleteRealm r =>
    simp only [step, deleteRealm]
    split
    · rename_i s' n hs
      split at hs
      · cases hs
      · cases hs; exact inv_filter s _ h
    · exact h
  | check u p =>
    simp only [step, checkPassword]
    split
    · rename_i s' b hs
      split at hs
      · cases hs
      · rename_i k _
        split at hs
        · cases hs; exact h
        · rename_i hv hl
          split at hs
          · cases hs
            exact inv_setItem_existing s k _ ((lookup_isSome_iff k s.records).1 (by simp [hl])) h
          · cases hs; exact h
    · exact h

theorem inv_run (digest : Bool) (vau : Bytes → Bytes → Bool × Option Bytes) :
    ∀ (ops : List Op) (s : St), Inv s → Inv (run digest vau s ops)
  | [], s, h => h
  | op :: ops, s, h => by
    unfold run
    simp only [List.foldl_cons]
    exact inv_run digest vau ops _ (inv_step digest vau s op h)

end Lemmas.Apache
