import PasslibVerif.Lemmas.DigestLen
import PasslibVerif.Lemmas.PbkdfLen
import PasslibVerif.Spec.Formats.Iterated
import PasslibVerif.Spec.Formats.Kdf
/-
Output shape of the digests the Misc family uses — SHA-1 (20 octets), SHA-224 (28), SHA-384 (48) next to the SHA-256 / SHA-512 / MD5
facts of `Lemmas.DigestLen` — as `Lemmas.PbkdfLen.HashOK` instances, and what follows for iterated hashing (fshp) and for the PBKDF2
keys of scram / scrypt.
-/
namespace Lemmas.C01MiscDigest
open Py Lemmas.PbkdfLen Lemmas.DigestLen

theorem sha1_compress_size (H M : Array UInt32) : (Spec.SHA1.compress H M).size = 5 := by
  simp [Spec.SHA1.compress]

theorem sha1_length (msg : List Nat) : (Spec.SHA1.sha1 msg).length = 20 := by
  unfold Spec.SHA1.sha1
  have h := foldl_size Spec.SHA1.compress 5 sha1_compress_size
    (Spec.SHA1.blocks (Spec.SHA1.toWords (Spec.SHA1.pad msg) #[])) Spec.SHA1.H0 (by decide)
  generalize List.foldl Spec.SHA1.compress _ _ = arr at h
  obtain ⟨l⟩ := arr
  simp only [List.size_toArray] at h
  simp only [Spec.SHA1.fromWords]
  match l, h with
  | [a, b, c, d, e], _ => simp

theorem sha1_bytes (msg : List Nat) : ∀ x ∈ Spec.SHA1.sha1 msg, x < 256 := by
  intro x hx
  unfold Spec.SHA1.sha1 Spec.SHA1.fromWords at hx
  simp only [List.mem_flatMap] at hx
  obtain ⟨w, _, hw⟩ := hx
  simp only [List.mem_cons, List.not_mem_nil, or_false] at hw
  rcases hw with rfl | rfl | rfl | rfl <;> exact UInt8.toNat_lt _

/-- the untruncated SHA-512 pipeline with any 8-word initial value gives 64 octets -/
theorem sha512_core_length (H0 : Array UInt64) (h0 : H0.size = 8) (msg : List Nat) :
    (Spec.SHA512.fromWords (Spec.SHA512.hashBlocks H0 msg).toList).length = 64 := by
  unfold Spec.SHA512.hashBlocks
  have h := foldl_size Spec.SHA512.compress 8 sha512_compress_size
    (Spec.SHA512.blocks (Spec.SHA512.toWords (Spec.SHA512.pad msg) #[])) H0 h0
  generalize List.foldl Spec.SHA512.compress _ _ = arr at h
  obtain ⟨l⟩ := arr
  simp only [List.size_toArray] at h
  simp only [Spec.SHA512.fromWords]
  match l, h with
  | [a, b, c, d, e, f, g, hh], _ => simp

theorem sha512_core_bytes (ws : List UInt64) : ∀ x ∈ Spec.SHA512.fromWords ws, x < 256 := by
  intro x hx
  unfold Spec.SHA512.fromWords at hx
  simp only [List.mem_flatMap] at hx
  obtain ⟨w, _, hw⟩ := hx
  simp only [List.mem_cons, List.not_mem_nil, or_false] at hw
  rcases hw with rfl | rfl | rfl | rfl | rfl | rfl | rfl | rfl <;> exact UInt8.toNat_lt _

theorem sha384_length (msg : List Nat) : (Spec.SHA512.sha384 msg).length = 48 := by
  unfold Spec.SHA512.sha384
  rw [List.length_take, sha512_core_length _ (by decide)]
  decide

theorem sha384_bytes (msg : List Nat) : ∀ x ∈ Spec.SHA512.sha384 msg, x < 256 := by
  intro x hx
  exact sha512_core_bytes _ x (List.mem_of_mem_take hx)

theorem sha256_core_length (H0 : Array UInt32) (h0 : H0.size = 8) (msg : List Nat) :
    (Spec.SHA256.fromWords (Spec.SHA256.hashBlocks H0 msg).toList).length = 32 := by
  unfold Spec.SHA256.hashBlocks
  have h := foldl_size Spec.SHA256.compress 8 sha256_compress_size
    (Spec.SHA256.blocks (Spec.SHA256.toWords (Spec.SHA256.pad msg) #[])) H0 h0
  generalize List.foldl Spec.SHA256.compress _ _ = arr at h
  obtain ⟨l⟩ := arr
  simp only [List.size_toArray] at h
  simp only [Spec.SHA256.fromWords]
  match l, h with
  | [a, b, c, d, e, f, g, hh], _ => simp

theorem sha256_core_bytes (ws : List UInt32) : ∀ x ∈ Spec.SHA256.fromWords ws, x < 256 := by
  intro x hx
  unfold Spec.SHA256.fromWords at hx
  simp only [List.mem_flatMap] at hx
  obtain ⟨w, _, hw⟩ := hx
  simp only [List.mem_cons, List.not_mem_nil, or_false] at hw
  rcases hw with rfl | rfl | rfl | rfl <;> exact UInt8.toNat_lt _

theorem sha224_length (msg : List Nat) : (Spec.SHA256.sha224 msg).length = 28 := by
  unfold Spec.SHA256.sha224
  rw [List.length_take, sha256_core_length _ (by decide)]
  decide

theorem sha224_bytes (msg : List Nat) : ∀ x ∈ Spec.SHA256.sha224 msg, x < 256 := by
  intro x hx
  exact sha256_core_bytes _ x (List.mem_of_mem_take hx)

theorem hashOK_sha1 : HashOK Spec.SHA1.sha1 20 := fun x => ⟨sha1_length x, sha1_bytes x⟩
theorem hashOK_sha224 : HashOK Spec.SHA256.sha224 28 := fun x => ⟨sha224_length x, sha224_bytes x⟩
theorem hashOK_sha256 : HashOK Spec.SHA256.sha256 32 := fun x => ⟨sha256_length x, sha256_bytes x⟩
theorem hashOK_sha384 : HashOK Spec.SHA512.sha384 48 := fun x => ⟨sha384_length x, sha384_bytes x⟩
theorem hashOK_sha512 : HashOK Spec.SHA512.sha512 64 := fun x => ⟨sha512_length x, sha512_bytes x⟩
theorem hashOK_md5 : HashOK Spec.MD5.md5 16 := fun x => ⟨md5_length x, md5_bytes x⟩

/-- re-hashing keeps the shape: `iterate H n (H x)` is a digest -/
theorem iterate_hashOK (H : Bytes → Bytes) (n : Nat) (hH : HashOK H n) : ∀ (k : Nat) (x : Bytes),
    (Spec.Formats.iterate H k (H x)).length = n ∧ Bytes.WF (Spec.Formats.iterate H k (H x))
  | 0, x => hH x
  | k + 1, x => by simpa [Spec.Formats.iterate] using iterate_hashOK H n hH k (H x)

/-- the four fshp variants: digest size per variant (`_variant_info`) -/
def fshpSize : Nat → Nat
  | 0 => 20 | 1 => 32 | 2 => 48 | _ => 64

theorem fshpHash_ok (v : Nat) (hv : v < 4) : ∃ H, Spec.Formats.fshpHash v = some H ∧ HashOK H (fshpSize v) := by
  match v, hv with
  | 0, _ => exact ⟨_, rfl, hashOK_sha1⟩
  | 1, _ => exact ⟨_, rfl, hashOK_sha256⟩
  | 2, _ => exact ⟨_, rfl, hashOK_sha384⟩
  | 3, _ => exact ⟨_, rfl, hashOK_sha512⟩

/-- the six digests the scram specification names -/
theorem algOK (a : Spec.Formats.HashAlg)
    (h : a = Spec.Formats.algSha1 ∨ a = Spec.Formats.algSha256 ∨ a = Spec.Formats.algSha512 ∨ a = Spec.Formats.algMd5 ∨
         a = Spec.Formats.algSha224 ∨ a = Spec.Formats.algSha384) : HashOK a.H a.hLen ∧ 0 < a.hLen := by
  rcases h with h | h | h | h | h | h <;> subst h
  · exact ⟨hashOK_sha1, by decide⟩
  · exact ⟨hashOK_sha256, by decide⟩
  · exact ⟨hashOK_sha512, by decide⟩
  · exact ⟨hashOK_md5, by decide⟩
  · exact ⟨hashOK_sha224, by decide⟩
  · exact ⟨hashOK_sha384, by decide⟩

/-- a PBKDF2 key of the Spec has the requested length and is octets -/
theorem spec_pbkdf2_props (a : Spec.Formats.HashAlg) (h : HashOK a.H a.hLen ∧ 0 < a.hLen) (pwd salt : Bytes) (rounds keylen : Nat) :
    (Spec.Formats.pbkdf2 a pwd salt rounds keylen).length = keylen ∧ Bytes.WF (Spec.Formats.pbkdf2 a pwd salt rounds keylen) :=
  pbkdf2_props a.H a.blockSize a.hLen h.1 h.2 pwd salt rounds keylen

/-- the scrypt key (RFC 7914 transcription) has the requested length and is octets -/
theorem scrypt_props (P S : Bytes) (N r p dkLen : Nat) :
    (Spec.Scrypt.scrypt P S N r p dkLen).length = dkLen ∧ Bytes.WF (Spec.Scrypt.scrypt P S N r p dkLen) := by
  unfold Spec.Scrypt.scrypt Spec.Scrypt.pbkdf2_hmac_sha256
  exact pbkdf2_props _ 64 32 hashOK_sha256 (by decide) _ _ _ _

end Lemmas.C01MiscDigest
