import PasslibVerif.Model.Md4
import PasslibVerif.Spec.MD4
import PasslibVerif.Lemmas.Bits
import PasslibVerif.Lemmas.Md4Tables
/-
MD4: the model's `process` (passlib `_process`) is the RFC 1320 compression function
(`Spec.MD4.compress`, on `UInt32` words), related through `.toNat`.
-/
namespace Lemmas.Md4
open Model.Md4 Gen.Md4

/-! ### word arithmetic -/

/-- when the left-shifted part is cut to 32 bits, `+` and `|||` of the two halves agree -/
theorem rot_add_eq_or (t s : Nat) (ht : t < 2 ^ 32) (hs : s ≤ 32) :
    (t <<< s) % 2 ^ 32 + t >>> (32 - s) = (t <<< s) % 2 ^ 32 ||| t >>> (32 - s) := by
  have h32 : (2 : Nat) ^ 32 = 2 ^ s * 2 ^ (32 - s) := by rw [← Nat.pow_add]; congr 1; omega
  have hlt : t >>> (32 - s) < 2 ^ s := by
    rw [Nat.shiftRight_eq_div_pow, Nat.div_lt_iff_lt_mul (Nat.two_pow_pos _), ← h32]; exact ht
  rw [Nat.shiftLeft_eq, Nat.mul_comm t, h32, Nat.mul_mod_mul_left]
  exact Nat.two_pow_add_eq_or_of_lt hlt _

/-- THE ROTATION IDENTITY (generic): passlib's `((t << s) & MASK_32) + (t >> (32 - s))`
    is the 32-bit left rotation `rotl` of RFC 1320 §2, for every 32-bit `t` and `0 < s < 32`. -/
theorem rotStore_eq_rotl (t s : UInt32) (hs0 : 0 < s.toNat) (hs : s.toNat < 32) :
    rotStore t.toNat s.toNat = (Spec.MD4.rotl t s).toNat := by
  have h1 : (32 - s).toNat = 32 - s.toNat := by
    rw [UInt32.toNat_sub]; simp only [UInt32.toNat_ofNat]; omega
  unfold rotStore Spec.MD4.rotl
  rw [UInt32.toNat_or, UInt32.toNat_shiftLeft, UInt32.toNat_shiftRight, h1,
    Nat.mod_eq_of_lt hs, Nat.mod_eq_of_lt (show 32 - s.toNat < 32 by omega),
    ← rot_add_eq_or _ _ t.toNat_lt (by omega)]
  simp only [MASK_32, Bits.and32bit]

/-- Python's `(~x) & z` (as generated: `invAnd`) is the 32-bit `~~~x &&& z` -/
theorem invAnd_eq (x z : Nat) (hx : x < 2 ^ 32) (hz : z < 2 ^ 32) :
    (2 ^ 32 - 1 - x) &&& z = invAnd x z := by
  apply Nat.eq_of_testBit_eq; intro i
  rw [show 2 ^ 32 - 1 - x = 2 ^ 32 - (x + 1) by omega]
  simp only [invAnd, Nat.testBit_and, Nat.testBit_xor, Nat.testBit_two_pow_sub_succ hx]
  by_cases hi : i < 32
  · simp only [hi, decide_true, Bool.true_and]
    cases x.testBit i <;> cases z.testBit i <;> rfl
  · have : z.testBit i = false :=
      Nat.testBit_lt_two_pow (Nat.lt_of_lt_of_le hz (Nat.pow_le_pow_right (by omega) (by omega)))
    simp [hi, this]

theorem F_eq (x y z : UInt32) : (Spec.MD4.F x y z).toNat = F x.toNat y.toNat z.toNat := by
  unfold Spec.MD4.F F
  rw [UInt32.toNat_or, UInt32.toNat_and, UInt32.toNat_and, UInt32.toNat_not]
  rw [← invAnd_eq _ _ x.toNat_lt z.toNat_lt]

theorem G_eq (x y z : UInt32) : (Spec.MD4.G x y z).toNat = G x.toNat y.toNat z.toNat := by
  simp only [Spec.MD4.G, G, UInt32.toNat_or, UInt32.toNat_and]

theorem H_eq (x y z : UInt32) : (Spec.MD4.H x y z).toNat = (x.toNat ^^^ y.toNat) ^^^ z.toNat := by
  simp only [Spec.MD4.H, UInt32.toNat_xor]

/-- the `t` expression of the round that operation `i` belongs to -/
def tfOf (i : Nat) : Nat → Nat → Nat → Nat → Nat → Nat :=
  if i < 16 then T1 else if i < 32 then T2 else T3

theorem T1_eq (i : Nat) (hi : i < 16) (a b c d x : UInt32) :
    T1 a.toNat b.toNat c.toNat d.toNat x.toNat = (a + Spec.MD4.aux i b c d + x).toNat := by
  simp only [Spec.MD4.aux, hi, ↓reduceIte, T1, MASK_32, Bits.and32bit, UInt32.toNat_add, F_eq]
  omega

/-- (omega chokes in the kernel on two large literals at once, hence the constant is a variable) -/
theorem modadd (a g x k : Nat) :
    (a + g + x + k) % 4294967296 = ((a + (g + k) % 4294967296) % 4294967296 + x) % 4294967296 := by omega

theorem k2_toNat : (0x5a827999 : UInt32).toNat = K2 := by decide
theorem k3_toNat : (0x6ed9eba1 : UInt32).toNat = K3 := by decide

/- The Lean kernel cannot unfold `T2`/`T3` against a term of the shape `(x + K2) &&& m` (it starts
   peeling the 1.5·10⁹ successors of the constant: "deep recursion").  Going through a copy of the
   expression with the constant as a *variable* avoids that. -/
def T2k (k sa sb sc sd xk : Nat) : Nat := ((((sa + (G sb sc sd)) + xk) + k) &&& MASK_32)
def T3k (k sa sb sc sd xk : Nat) : Nat := ((((sa + ((sb ^^^ sc) ^^^ sd)) + xk) + k) &&& MASK_32)
theorem T2_k (a b c d x : Nat) : T2 a b c d x = T2k K2 a b c d x := rfl
theorem T3_k (a b c d x : Nat) : T3 a b c d x = T3k K3 a b c d x := rfl
theorem T2k_eq (k a b c d x : Nat) : T2k k a b c d x = (a + G b c d + x + k) % 4294967296 := by
  simp only [T2k, MASK_32, Bits.and32bit]
theorem T3k_eq (k a b c d x : Nat) : T3k k a b c d x = (a + ((b ^^^ c) ^^^ d) + x + k) % 4294967296 := by
  simp only [T3k, MASK_32, Bits.and32bit]

theorem T2_eq (i : Nat) (h1 : 16 ≤ i) (h2 : i < 32) (a b c d x : UInt32) :
    T2 a.toNat b.toNat c.toNat d.toNat x.toNat = (a + Spec.MD4.aux i b c d + x).toNat := by
  rw [T2_k, T2k_eq]
  simp only [Spec.MD4.aux, show ¬ i < 16 by omega, h2, ↓reduceIte, UInt32.toNat_add, G_eq, k2_toNat,
    Nat.reducePow]
  exact modadd _ _ _ _

theorem T3_eq (i : Nat) (h1 : 32 ≤ i) (a b c d x : UInt32) :
    T3 a.toNat b.toNat c.toNat d.toNat x.toNat = (a + Spec.MD4.aux i b c d + x).toNat := by
  rw [T3_k, T3k_eq]
  simp only [Spec.MD4.aux, show ¬ i < 16 by omega, show ¬ i < 32 by omega, ↓reduceIte, UInt32.toNat_add,
    H_eq, k3_toNat, Nat.reducePow]
  exact modadd _ _ _ _

/-! ### one operation `[abcd k s]` -/

/-- the model's register list seen from the rotating record of `Spec.MD4.step`, `j` = operation number mod 4 -/
def view (j : Nat) (r : Spec.MD4.Regs) : List Nat :=
  match j with
  | 0 => [r.a.toNat, r.b.toNat, r.c.toNat, r.d.toNat]
  | 1 => [r.b.toNat, r.c.toNat, r.d.toNat, r.a.toNat]
  | 2 => [r.c.toNat, r.d.toNat, r.a.toNat, r.b.toNat]
  | _ => [r.d.toNat, r.a.toNat, r.b.toNat, r.c.toNat]

/-- plumbing of one row: `state[a] = …` on the list = rotating the record -/
theorem step_view (tf : Nat → Nat → Nat → Nat → Nat → Nat) (X : List Nat) (j k s : Nat) (hj : j < 4)
    (r : Spec.MD4.Regs) (a' : UInt32)
    (h : a'.toNat = rotStore (tf r.a.toNat r.b.toNat r.c.toNat r.d.toNat (X.getD k 0)) s) :
    roundStep tf X (view j r) (rfcRoles j ++ [k, s]) =
      view ((j + 1) % 4) { a := r.d, b := a', c := r.b, d := r.c } := by
  have : j = 0 ∨ j = 1 ∨ j = 2 ∨ j = 3 := by omega
  rcases this with rfl | rfl | rfl | rfl <;> simp [roundStep, view, rfcRoles, h]

theorem rfcRoles_mod (i : Nat) : rfcRoles i = rfcRoles (i % 4) := by
  simp only [rfcRoles, Nat.mod_mod]

theorem getD_words (XU : Array UInt32) (k : Nat) :
    (XU.toList.map UInt32.toNat).getD k 0 = XU[k]!.toNat := by
  simp only [List.getD_eq_getElem?_getD, List.getElem?_map, Array.getElem!_eq_getD, Array.getD_eq_getD_getElem?,
    Array.getElem?_toList]
  cases XU[k]? <;> rfl

/-- one operation: model row `i` on the list view = `Spec.MD4.step … i` on the record -/
theorem step_eq (tf : Nat → Nat → Nat → Nat → Nat → Nat) (XU : Array UInt32) (i : Nat) (hi : i < 48)
    (htf : ∀ a b c d x : UInt32,
      tf a.toNat b.toNat c.toNat d.toNat x.toNat = (a + Spec.MD4.aux i b c d + x).toNat)
    (r : Spec.MD4.Regs) :
    roundStep tf (XU.toList.map UInt32.toNat) (view (i % 4) r) (allRows.getD i []) =
      view ((i + 1) % 4) (Spec.MD4.step XU r i) := by
  obtain ⟨hrow, hs0, hs⟩ := rows_spec i hi
  rw [hrow, rfcRoles_mod, Nat.add_mod i 1 4]
  unfold Spec.MD4.step
  apply step_view _ _ _ _ _ (Nat.mod_lt _ (by omega))
  rw [getD_words, htf, rotStore_eq_rotl _ _ hs0 hs]

/-! ### sixteen operations, then forty-eight -/

/-- two folds over the same index range stay related if each step keeps them related -/
theorem foldl_range'_rel {α β : Type} (R : Nat → α → β → Prop) (f : α → Nat → α) (g : β → Nat → β)
    (n : Nat) : ∀ (lo : Nat) (a : α) (b : β), R lo a b →
    (∀ i a b, lo ≤ i → i < lo + n → R i a b → R (i + 1) (f a i) (g b i)) →
    R (lo + n) ((List.range' lo n).foldl f a) ((List.range' lo n).foldl g b) := by
  induction n with
  | zero => intro lo a b h0 _; simpa using h0
  | succ n ih =>
    intro lo a b h0 hs
    rw [List.range'_succ, List.foldl_cons, List.foldl_cons, show lo + (n + 1) = (lo + 1) + n by omega]
    exact ih (lo + 1) _ _ (hs lo a b (Nat.le_refl _) (by omega) h0)
      (fun i a b h1 h2 => hs i a b (by omega) (by omega))

/-- one round (16 rows of the model's table = 16 `Spec.MD4.step`s) -/
theorem round_eq (tf : Nat → Nat → Nat → Nat → Nat → Nat) (XU : Array UInt32) (lo : Nat) (hlo : lo + 16 ≤ 48)
    (htf : ∀ i, lo ≤ i → i < lo + 16 → ∀ a b c d x : UInt32,
      tf a.toNat b.toNat c.toNat d.toNat x.toNat = (a + Spec.MD4.aux i b c d + x).toNat)
    (r : Spec.MD4.Regs) :
    (List.range' lo 16).foldl (fun st i => roundStep tf (XU.toList.map UInt32.toNat) st (allRows.getD i []))
        (view (lo % 4) r) =
      view ((lo + 16) % 4) ((List.range' lo 16).foldl (Spec.MD4.step XU) r) := by
  apply foldl_range'_rel (fun i st r => st = view (i % 4) r)
  · rfl
  · intro i st r h1 h2 h
    subst h
    exact step_eq tf XU i (by omega) (htf i h1 h2) r

theorem range48 : List.range 48 = List.range' 0 16 ++ List.range' 16 16 ++ List.range' 32 16 := by decide

theorem process_def (regs block : List Nat) : process regs block =
    (List.range 4).map fun i => addBack (regs.getD i 0)
      ((round3.foldl (roundStep T3 (unpackWords block)) (round2.foldl (roundStep T2 (unpackWords block))
        (round1.foldl (roundStep T1 (unpackWords block)) regs))).getD i 0) := rfl

theorem compress_def (a b c d : UInt32) (XU : Array UInt32) : Spec.MD4.compress #[a, b, c, d] XU =
    let r := (List.range 48).foldl (Spec.MD4.step XU) ⟨a, b, c, d⟩
    #[a + r.a, b + r.b, c + r.c, d + r.d] := rfl


def r48 (a b c d : UInt32) (XU : Array UInt32) : Spec.MD4.Regs :=
  (List.range' 32 16).foldl (Spec.MD4.step XU)
    ((List.range' 16 16).foldl (Spec.MD4.step XU) ((List.range' 0 16).foldl (Spec.MD4.step XU) ⟨a, b, c, d⟩))

theorem rounds_eq (a b c d : UInt32) (XU : Array UInt32) :
    (List.range' 32 16).foldl (fun st i => roundStep T3 (XU.toList.map UInt32.toNat) st (allRows.getD i []))
      ((List.range' 16 16).foldl (fun st i => roundStep T2 (XU.toList.map UInt32.toNat) st (allRows.getD i []))
        ((List.range' 0 16).foldl (fun st i => roundStep T1 (XU.toList.map UInt32.toNat) st (allRows.getD i []))
          (view 0 ⟨a, b, c, d⟩))) = view 0 (r48 a b c d XU) := by
  have h1 := round_eq T1 XU 0 (by omega) (fun i _ h2 => T1_eq i (by omega)) ⟨a, b, c, d⟩
  have h2 := round_eq T2 XU 16 (by omega) (fun i h1 h2 => T2_eq i h1 (by omega))
    ((List.range' 0 16).foldl (Spec.MD4.step XU) ⟨a, b, c, d⟩)
  have h3 := round_eq T3 XU 32 (by omega) (fun i h1 _ => T3_eq i h1)
    ((List.range' 16 16).foldl (Spec.MD4.step XU) ((List.range' 0 16).foldl (Spec.MD4.step XU) ⟨a, b, c, d⟩))
  simp only [Nat.reduceAdd, Nat.reduceMod, Nat.zero_mod] at h1 h2 h3
  rw [h1, h2, h3, r48]

theorem process_rows (regs block : List Nat) : process regs block =
    (List.range 4).map fun i => addBack (regs.getD i 0)
      (((List.range' 32 16).foldl (fun st i => roundStep T3 (unpackWords block) st (allRows.getD i []))
      ((List.range' 16 16).foldl (fun st i => roundStep T2 (unpackWords block) st (allRows.getD i []))
        ((List.range' 0 16).foldl (fun st i => roundStep T1 (unpackWords block) st (allRows.getD i []))
          regs))).getD i 0) := by
  rw [process_def, round1_rows, round2_rows, round3_rows, List.foldl_map, List.foldl_map, List.foldl_map]

theorem compress_r48 (a b c d : UInt32) (XU : Array UInt32) : Spec.MD4.compress #[a, b, c, d] XU =
    #[a + (r48 a b c d XU).a, b + (r48 a b c d XU).b, c + (r48 a b c d XU).c, d + (r48 a b c d XU).d] := by
  rw [compress_def, range48, List.foldl_append, List.foldl_append]; rfl


/-- the three round loops of `_process`, then the add-back loop, in terms of the 48 `Spec.MD4.step`s -/
theorem pw1 (a b c d : UInt32) (XU : Array UInt32) (block : List Nat)
    (hX : unpackWords block = XU.toList.map UInt32.toNat) :
    process (view 0 ⟨a, b, c, d⟩) block =
      (List.range 4).map fun i => addBack ((view 0 ⟨a, b, c, d⟩).getD i 0) ((view 0 (r48 a b c d XU)).getD i 0) := by
  rw [process_rows, hX, rounds_eq]

theorem pw2 (a b c d : UInt32) (r : Spec.MD4.Regs) :
      ([0, 1, 2, 3].map fun i => addBack ((view 0 ⟨a, b, c, d⟩).getD i 0) ((view 0 r).getD i 0)) =
      (#[a + r.a, b + r.b, c + r.c, d + r.d]).toList.map UInt32.toNat := by
  simp [view, addBack, MASK_32, Bits.and32bit, UInt32.toNat_add]

theorem view0 (a b c d : UInt32) : [a.toNat, b.toNat, c.toNat, d.toNat] = view 0 ⟨a, b, c, d⟩ := rfl

/-- (b), word-level form: on any four registers and any block of words `XU`,
    passlib's `_process` computes `Spec.MD4.compress` -/
theorem process_words_eq (a b c d : UInt32) (XU : Array UInt32) (block : List Nat)
    (hX : unpackWords block = XU.toList.map UInt32.toNat) :
    process [a.toNat, b.toNat, c.toNat, d.toNat] block =
      (Spec.MD4.compress #[a, b, c, d] XU).toList.map UInt32.toNat := by
  have h4 : List.range 4 = [0, 1, 2, 3] := by decide
  rw [view0, pw1 a b c d XU block hX, h4, pw2, compress_r48]
/-! ### bytes ↔ words (`struct.unpack("<16I")` vs RFC 1320 §2 / `Spec.MD4.toWords`) -/

theorem u8 (a : Nat) (ha : a < 256) : a.toUInt8.toNat = a := by
  simp [Nat.toUInt8, Nat.mod_eq_of_lt ha]
theorem leWord_eq (a b c d : Nat) (ha : a < 256) (hb : b < 256) (hc : c < 256) (hd : d < 256) :
    (a.toUInt8.toUInt32 ||| (b.toUInt8.toUInt32 <<< 8) ||| (c.toUInt8.toUInt32 <<< 16) |||
      (d.toUInt8.toUInt32 <<< 24)).toNat = leWord a b c d := by
  simp only [UInt32.toNat_or, UInt32.toNat_shiftLeft, UInt8.toNat_toUInt32, u8 _ ha, u8 _ hb, u8 _ hc, u8 _ hd,
    UInt32.toNat_ofNat, Nat.shiftLeft_eq]
  rw [Nat.mod_eq_of_lt (show b * 2 ^ 8 < 2 ^ 32 by omega), Nat.mod_eq_of_lt (show c * 2 ^ 16 < 2 ^ 32 by omega),
    Nat.mod_eq_of_lt (show d * 2 ^ 24 < 2 ^ 32 by omega)]
  simp (disch := omega) only [Bits.or_mul]
  unfold leWord; omega

theorem toWords_eq (l : List Nat) (acc : Array UInt32) (h : ∀ b ∈ l, b < 256) :
    (Spec.MD4.toWords l acc).toList.map UInt32.toNat = acc.toList.map UInt32.toNat ++ unpackWords l := by
  fun_induction Spec.MD4.toWords l acc with
  | case1 a b c d rest acc ih =>
    simp only [List.mem_cons, forall_eq_or_imp] at h
    obtain ⟨ha, hb, hc, hd, hr⟩ := h
    rw [ih hr]
    simp only [Array.toList_push, List.map_append, List.map_cons, List.map_nil, unpackWords,
      leWord_eq a b c d ha hb hc hd, List.append_assoc, List.singleton_append]
  | case2 l acc hne =>
    have : unpackWords l = [] := by
      unfold unpackWords
      split
      · exact absurd rfl (hne _ _ _ _ _)
      · rfl
    rw [this, List.append_nil]

/-- (b) `_process` = RFC 1320 compression function: for well-formed registers (four values < 2^32)
    and a block of bytes (< 256; for `_process` always 64 of them — the equation does not even need
    that), the model's `process` is `Spec.MD4.compress` on the corresponding `UInt32` words. -/
theorem process_eq_spec (regs block : List Nat) (hlen : regs.length = 4) (hregs : ∀ x ∈ regs, x < 2 ^ 32)
    (hblock : ∀ b ∈ block, b < 256) :
    process regs block =
      (Spec.MD4.compress (regs.map UInt32.ofNat).toArray (Spec.MD4.toWords block #[])).toList.map UInt32.toNat := by
  match regs, hlen with
  | [p, q, r, s], _ =>
    simp only [List.mem_cons, List.not_mem_nil, or_false, forall_eq_or_imp, forall_eq] at hregs
    obtain ⟨hp, hq, hr, hs⟩ := hregs
    have e : ∀ n, n < 2 ^ 32 → (UInt32.ofNat n).toNat = n := fun n h => UInt32.toNat_ofNat_of_lt' h
    have := process_words_eq (UInt32.ofNat p) (UInt32.ofNat q) (UInt32.ofNat r) (UInt32.ofNat s)
      (Spec.MD4.toWords block #[]) block (by have := toWords_eq block #[] hblock; simpa using this.symm)
    rw [e p hp, e q hq, e r hr, e s hs] at this
    rw [this]; rfl

end Lemmas.Md4
