import PasslibVerif.Model.Registry
import PasslibVerif.Lemmas.PyStr
/-
Helper lemmas for Props/C17Registry.lean: the insertion-ordered dict, the sort of `list_crypt_handlers`, valid names, and what each
function of the registry model can do to the state.
-/
namespace Model.Registry
open Py

/-! ### dicts -/

theorem get?_put_self {α : Type} (l : List (Name × α)) (k : Name) (v : α) : get? (put l k v) k = some v := by
  induction l with
  | nil => simp [put, get?]
  | cons p t ih =>
    obtain ⟨a, x⟩ := p
    by_cases h : a = k
    · simp [put, get?, h]
    · simp [put, get?, h, ih]

theorem get?_put_ne {α : Type} (l : List (Name × α)) (k n : Name) (v : α) (hne : k ≠ n) : get? (put l k v) n = get? l n := by
  induction l with
  | nil => simp [put, get?, hne]
  | cons p t ih =>
    obtain ⟨a, x⟩ := p
    by_cases h : a = k
    · subst h; simp [put, get?, hne]
    · by_cases h2 : a = n
      · subst h2; simp [put, get?, h]
      · simp [put, get?, h, h2, ih]

theorem get?_del_self {α : Type} (l : List (Name × α)) (k : Name) : get? (del l k) k = none := by
  induction l with
  | nil => simp [del, get?]
  | cons p t ih =>
    obtain ⟨a, x⟩ := p
    by_cases h : a = k
    · simp [del, h, ih]
    · simp [del, get?, h, ih]

theorem get?_del_ne {α : Type} (l : List (Name × α)) (k n : Name) (hne : k ≠ n) : get? (del l k) n = get? l n := by
  induction l with
  | nil => simp [del, get?]
  | cons p t ih =>
    obtain ⟨a, x⟩ := p
    by_cases h : a = k
    · subst h; simp [del, get?, hne, ih]
    · by_cases h2 : a = n
      · subst h2; simp [del, get?, h]
      · simp [del, get?, h, h2, ih]

theorem get?_del_some {α : Type} (l : List (Name × α)) (k n : Name) (v : α) (h : get? (del l k) n = some v) : get? l n = some v := by
  by_cases hk : k = n
  · subst hk; rw [get?_del_self] at h; cases h
  · rwa [get?_del_ne l k n hk] at h

theorem mem_keys_iff {α : Type} (l : List (Name × α)) (n : Name) : n ∈ keys l ↔ (get? l n).isSome = true := by
  induction l with
  | nil => simp [keys, get?]
  | cons p t ih =>
    obtain ⟨a, x⟩ := p
    by_cases h : a = n
    · simp [keys, get?, h]
    · have ih' : n ∈ List.map (fun x => x.fst) t ↔ (get? t n).isSome = true := ih
      have h' : ¬ n = a := fun e => h e.symm
      simp [keys, get?, h, h', ih']

/-! ### the order of `sorted` on str -/

theorem ltName_irrefl : ∀ a : Name, ltName a a = false
  | [] => rfl
  | c :: t => by simp [ltName, ltName_irrefl t]

theorem ltName_trans : ∀ a b c : Name, ltName a b = true → ltName b c = true → ltName a c = true
  | [], [], _, h, _ => by simp [ltName] at h
  | [], _ :: _, [], _, h => by simp [ltName] at h
  | [], _ :: _, _ :: _, _, _ => by simp [ltName]
  | _ :: _, [], _, h, _ => by simp [ltName] at h
  | _ :: _, _ :: _, [], _, h => by simp [ltName] at h
  | x :: s, y :: t, z :: u, h1, h2 => by
    simp only [ltName, Bool.or_eq_true, decide_eq_true_eq, Bool.and_eq_true] at h1 h2 ⊢
    rcases h1 with h1 | ⟨e1, h1⟩
    · rcases h2 with h2 | ⟨e2, _⟩
      · left; omega
      · left; omega
    · rcases h2 with h2 | ⟨e2, h2⟩
      · left; omega
      · right; exact ⟨by omega, ltName_trans s t u h1 h2⟩

/-- trichotomy -/
theorem ltName_total : ∀ a b : Name, ltName a b = false → a ≠ b → ltName b a = true
  | [], [], _, h => absurd rfl h
  | [], _ :: _, h, _ => by simp [ltName] at h
  | _ :: _, [], _, _ => by simp [ltName]
  | x :: s, y :: t, h, hne => by
    simp only [ltName, Bool.or_eq_false_iff, decide_eq_false_iff_not, Bool.and_eq_false_iff] at h
    simp only [ltName, Bool.or_eq_true, decide_eq_true_eq, Bool.and_eq_true]
    obtain ⟨h1, h2⟩ := h
    by_cases e : x = y
    · subst e
      right
      refine ⟨rfl, ltName_total s t ?_ ?_⟩
      · rcases h2 with h2 | h2
        · exact absurd rfl h2
        · exact h2
      · intro e2; exact hne (by rw [e2])
    · left; omega

/-- strictly increasing -/
def Sorted (l : List Name) : Prop := l.Pairwise fun a b => ltName a b = true

theorem mem_insertName (n x : Name) : ∀ l : List Name, x ∈ insertName n l ↔ x = n ∨ x ∈ l
  | [] => by simp [insertName]
  | m :: rest => by
    unfold insertName
    split
    · simp
    · split
      · rename_i _ e; subst e; simp
      · simp [mem_insertName n x rest]; constructor
        · rintro (h | h | h)
          · exact Or.inr (Or.inl h)
          · exact Or.inl h
          · exact Or.inr (Or.inr h)
        · rintro (h | h | h)
          · exact Or.inr (Or.inl h)
          · exact Or.inl h
          · exact Or.inr (Or.inr h)

theorem sorted_insertName (n : Name) : ∀ l : List Name, Sorted l → Sorted (insertName n l)
  | [], _ => by simp [insertName, Sorted]
  | m :: rest, h => by
    have hm : ∀ b ∈ rest, ltName m b = true := (List.pairwise_cons.mp h).1
    have hr : Sorted rest := (List.pairwise_cons.mp h).2
    unfold insertName
    split
    · rename_i hlt
      refine List.pairwise_cons.mpr ⟨?_, h⟩
      intro b hb
      rcases List.mem_cons.mp hb with e | hb
      · subst e; exact hlt
      · exact ltName_trans n m b hlt (hm b hb)
    · split
      · exact h
      · rename_i hlt hne
        refine List.pairwise_cons.mpr ⟨?_, sorted_insertName n rest hr⟩
        intro b hb
        rcases (mem_insertName n b rest).mp hb with e | hb
        · subst e; exact ltName_total b m (by simpa using hlt) hne
        · exact hm b hb

theorem sorted_sortNames : ∀ l : List Name, Sorted (sortNames l)
  | [] => by simp [sortNames, Sorted]
  | a :: t => by
    have := sorted_insertName a _ (sorted_sortNames t)
    simpa [sortNames] using this

theorem mem_sortNames (x : Name) : ∀ l : List Name, x ∈ sortNames l ↔ x ∈ l
  | [] => by simp [sortNames]
  | a :: t => by
    have ih := mem_sortNames x t
    have : sortNames (a :: t) = insertName a (sortNames t) := by simp [sortNames]
    rw [this, mem_insertName, ih]; simp

theorem sorted_nodup (l : List Name) (h : Sorted l) : l.Nodup := by
  unfold Sorted at h
  refine List.Pairwise.imp ?_ h
  intro a b hab e
  subst e
  rw [ltName_irrefl] at hab
  cases hab

/-! ### valid names -/

theorem matchItems_head {c : Nat} {t : List Nat} (h : matchItems (c :: t) Gen.RegistryTables.nameRe = true) : 97 ≤ c ∧ c ≤ 122 := by
  simp [Gen.RegistryTables.nameRe, matchItems, inClass] at h
  omega

theorem nameReMatch_head {s : Name} (h : nameReMatch s = true) : ∃ c t, s = c :: t ∧ 97 ≤ c ∧ c ≤ 122 := by
  cases s with
  | nil => simp [nameReMatch, matchItems, Gen.RegistryTables.nameRe] at h
  | cons c t =>
    refine ⟨c, t, rfl, ?_⟩
    simp only [nameReMatch, Bool.or_eq_true, Bool.and_eq_true] at h
    rcases h with h | ⟨_, h⟩
    · exact matchItems_head h
    · cases t with
      | nil => simp [matchItems, Gen.RegistryTables.nameRe] at h
      | cons d u =>
        have : (c :: d :: u).dropLast = c :: (d :: u).dropLast := by simp [List.dropLast]
        rw [this] at h
        exact matchItems_head h

theorem validName_iff (s : Name) : validName s = true ↔
    s ≠ [] ∧ pyLower s = s ∧ nameReMatch s = true ∧ hasDunder s = false ∧ s ∉ Gen.RegistryTables.forbidden := by
  unfold validName validateName
  by_cases h1 : s = []
  · simp [h1]
  · by_cases h2 : pyLower s = s
    · by_cases h3 : nameReMatch s = true
      · by_cases h4 : hasDunder s = true
        · simp [h1, h2, h3, h4]
        · by_cases h5 : s ∈ Gen.RegistryTables.forbidden
          · simp [h1, h2, h3, h4, h5]
          · simp [h1, h2, h3, h4, h5]
      · simp [h1, h2, h3]
    · simp [h1, h2]

theorem validName_not_us {s : Name} (h : validName s = true) : us s = false := by
  obtain ⟨c, t, e, hc, _⟩ := nameReMatch_head ((validName_iff s).mp h).2.2.1
  subst e
  simp [us]
  omega

/-- members of the character classes of `_name_re`, and the newline `$` tolerates, are not hyphens -/
theorem matchItems_no_hyphen : ∀ (s : Name) (items : List (List (Nat × Nat) × Bool)),
    (∀ it ∈ items, inClass it.1 45 = false) → matchItems s items = true → 45 ∉ s
  | [], _, _, _ => by simp
  | c :: t, [], _, h => by simp [matchItems] at h
  | c :: t, (cls, plus) :: rest, hcl, h => by
    simp only [matchItems, Bool.and_eq_true] at h
    obtain ⟨hc, h⟩ := h
    have hne : c ≠ 45 := by
      intro e; subst e
      rw [hcl (cls, plus) (by simp)] at hc; cases hc
    have hrest : ∀ it ∈ rest, inClass it.1 45 = false := fun it hit => hcl it (by simp [hit])
    have ht : 45 ∉ t := by
      cases plus with
      | true =>
        simp only [if_true, Bool.or_eq_true] at h
        rcases h with h | h
        · exact matchItems_no_hyphen t ((cls, true) :: rest) hcl h
        · exact matchItems_no_hyphen t rest hrest h
      | false =>
        simp only [Bool.false_eq_true, if_false] at h
        exact matchItems_no_hyphen t rest hrest h
    intro hm
    rcases List.mem_cons.mp hm with e | hm
    · exact hne e.symm
    · exact ht hm

theorem nameRe_classes_no_hyphen : ∀ it ∈ Gen.RegistryTables.nameRe, inClass it.1 45 = false := by decide

theorem nameReMatch_no_hyphen {s : Name} (h : nameReMatch s = true) : 45 ∉ s := by
  simp only [nameReMatch, Bool.or_eq_true, Bool.and_eq_true] at h
  rcases h with h | ⟨hl, h⟩
  · exact matchItems_no_hyphen s _ nameRe_classes_no_hyphen h
  · have := matchItems_no_hyphen s.dropLast _ nameRe_classes_no_hyphen h
    intro hm
    have hs : s ≠ [] := by intro e; subst e; simp at hm
    rw [← List.dropLast_concat_getLast hs] at hm
    rcases List.mem_append.mp hm with hm | hm
    · exact this hm
    · have e1 : s.getLast? = some (s.getLast hs) := List.getLast?_eq_some_getLast hs
      rw [e1] at hl
      simp at hm hl
      omega

/-- a valid name is its own normal form: `get_crypt_handler` looks it up as it is -/
theorem norm_of_valid {s : Name} (h : validName s = true) : norm s = s := by
  obtain ⟨_, hl, hre, _, _⟩ := (validName_iff s).mp h
  have hno := nameReMatch_no_hyphen hre
  have : s.map (fun c => if c = 45 then 95 else c) = s := by
    conv => rhs; rw [← List.map_id s]
    apply List.map_congr_left
    intro c hc
    have : c ≠ 45 := fun e => hno (e ▸ hc)
    simp [this]
  unfold norm
  rw [this, hl]

end Model.Registry
