import PasslibVerif.Lemmas.PyUtil
/- UTF-8 facts for Props.C05Util: what decodes is the encoding of what it decodes to; the shape of one encoded character;
   utf8_truncate on valid UTF-8 stops on a character boundary; the sanity check of utf8_truncate never fires -/
namespace Lemmas.PyUtil
open Py Model.PyUtil
open Model.TotpSerial (utf8Encode utf8EncodeCp utf8Decode isCont isScalar)
open Lemmas.TotpSerial (isScalar_iff utf8Decode_cons utf8_roundtrip)

theorem utf8Encode_cons (c : Nat) (s : Str) : utf8Encode (c :: s) = utf8EncodeCp c ++ utf8Encode s := by
  simp [utf8Encode]

/-! ### strict decoding is injective: `b.decode("utf-8").encode("utf-8") == b` -/

theorem decode_encode_aux : ∀ (n : Nat) (b : Bytes) (s : Str), b.length ≤ n → utf8Decode b = some s →
    s.all isScalar = true ∧ utf8Encode s = b := by
  intro n
  induction n with
  | zero =>
    intro b s hl h
    have : b = [] := List.eq_nil_of_length_eq_zero (by omega)
    subst this
    simp [utf8Decode] at h; subst h; simp [utf8Encode]
  | succ k ih =>
    intro b s hl h
    cases b with
    | nil => simp [utf8Decode] at h; subst h; simp [utf8Encode]
    | cons b0 r =>
      rw [utf8Decode_cons] at h
      simp only [List.length_cons] at hl
      by_cases h1 : b0 < 0x80
      · simp only [h1, if_true] at h
        obtain ⟨s', hs', rfl⟩ := Option.map_eq_some_iff.mp h
        obtain ⟨i1, i2⟩ := ih r s' (by omega) hs'
        refine ⟨?_, ?_⟩
        · simp only [List.all_cons, i1, Bool.and_true]; rw [isScalar_iff]; omega
        · rw [utf8Encode_cons, i2]; simp [utf8EncodeCp, h1]
      · by_cases h2 : b0 < 0xC2
        · simp [h1, h2] at h
        · by_cases h3 : b0 < 0xE0
          · simp only [h1, h2, h3, if_true, if_false] at h
            cases r with
            | nil => simp at h
            | cons b1 r1 =>
              simp only at h
              by_cases c1 : isCont b1 = true
              · simp only [c1, if_true] at h
                obtain ⟨s', hs', rfl⟩ := Option.map_eq_some_iff.mp h
                simp only [List.length_cons] at hl
                obtain ⟨i1, i2⟩ := ih r1 s' (by omega) hs'
                unfold isCont at c1; simp at c1
                refine ⟨?_, ?_⟩
                · simp only [List.all_cons, i1, Bool.and_true]; rw [isScalar_iff]; omega
                · rw [utf8Encode_cons, i2]
                  have e1 : ¬ ((b0 - 0xC0) * 64 + (b1 - 0x80) < 0x80) := by omega
                  have e2 : (b0 - 0xC0) * 64 + (b1 - 0x80) < 0x800 := by omega
                  have e3 : 0xC0 + ((b0 - 0xC0) * 64 + (b1 - 0x80)) / 64 = b0 := by omega
                  have e4 : 0x80 + ((b0 - 0xC0) * 64 + (b1 - 0x80)) % 64 = b1 := by omega
                  simp only [utf8EncodeCp, e1, e2, e3, e4, if_true, if_false, List.cons_append, List.nil_append]
              · simp [c1] at h
          · by_cases h4 : b0 < 0xF0
            · simp only [h1, h2, h3, h4, if_true, if_false] at h
              match r, h, hl with
              | [], h, _ => simp at h
              | [_], h, _ => simp at h
              | b1 :: b2 :: r2, h, hl =>
                simp only at h
                split at h
                · rename_i hc
                  simp only [Bool.and_eq_true, decide_eq_true_eq, Bool.not_eq_true', Bool.and_eq_false_iff,
                    decide_eq_false_iff_not] at hc
                  obtain ⟨⟨⟨c1, c2⟩, c3⟩, c4⟩ := hc
                  obtain ⟨s', hs', rfl⟩ := Option.map_eq_some_iff.mp h
                  simp only [List.length_cons] at hl
                  obtain ⟨i1, i2⟩ := ih r2 s' (by omega) hs'
                  unfold isCont at c1 c2; simp at c1 c2
                  refine ⟨?_, ?_⟩
                  · simp only [List.all_cons, i1, Bool.and_true]; rw [isScalar_iff]; omega
                  · rw [utf8Encode_cons, i2]
                    generalize hc : (b0 - 0xE0) * 4096 + (b1 - 0x80) * 64 + (b2 - 0x80) = c at *
                    have e1 : ¬ (c < 0x80) := by omega
                    have e2 : ¬ (c < 0x800) := by omega
                    have e2' : c < 0x10000 := by omega
                    have e3 : 0xE0 + c / 4096 = b0 := by omega
                    have e4 : 0x80 + c / 64 % 64 = b1 := by omega
                    have e5 : 0x80 + c % 64 = b2 := by omega
                    simp only [utf8EncodeCp, e1, e2, e2', e3, e4, e5, if_true, if_false, List.cons_append, List.nil_append]
                · simp at h
            · by_cases h5 : b0 < 0xF5
              · simp only [h1, h2, h3, h4, h5, if_true, if_false] at h
                match r, h, hl with
                | [], h, _ => simp at h
                | [_], h, _ => simp at h
                | [_, _], h, _ => simp at h
                | b1 :: b2 :: b3 :: r3, h, hl =>
                  simp only at h
                  split at h
                  · rename_i hc
                    simp only [Bool.and_eq_true, decide_eq_true_eq] at hc
                    obtain ⟨⟨⟨⟨c1, c2⟩, c3⟩, c4⟩, c5⟩ := hc
                    obtain ⟨s', hs', rfl⟩ := Option.map_eq_some_iff.mp h
                    simp only [List.length_cons] at hl
                    obtain ⟨i1, i2⟩ := ih r3 s' (by omega) hs'
                    unfold isCont at c1 c2 c3; simp at c1 c2 c3
                    refine ⟨?_, ?_⟩
                    · simp only [List.all_cons, i1, Bool.and_true]; rw [isScalar_iff]; omega
                    · rw [utf8Encode_cons, i2]
                      generalize hc : (b0 - 0xF0) * 262144 + (b1 - 0x80) * 4096 + (b2 - 0x80) * 64 + (b3 - 0x80) = c at *
                      have e1 : ¬ (c < 0x80) := by omega
                      have e2 : ¬ (c < 0x800) := by omega
                      have e2' : ¬ (c < 0x10000) := by omega
                      have e3 : 0xF0 + c / 262144 = b0 := by omega
                      have e4 : 0x80 + c / 4096 % 64 = b1 := by omega
                      have e5 : 0x80 + c / 64 % 64 = b2 := by omega
                      have e6 : 0x80 + c % 64 = b3 := by omega
                      simp only [utf8EncodeCp, e1, e2, e2', e3, e4, e5, e6, if_true, if_false, List.cons_append, List.nil_append]
                  · simp at h
              · simp [h1, h2, h3, h4, h5] at h

/-- what decodes (strictly) consists of scalar values and encodes back to the same bytes -/
theorem decode_encode (b : Bytes) (s : Str) (h : utf8Decode b = some s) : s.all isScalar = true ∧ utf8Encode s = b :=
  decode_encode_aux b.length b s (Nat.le_refl _) h

/-! ### the shape of one encoded character -/

theorem isCont_notCont (b : Nat) (h : isCont b = true) : notContByte b = false := by
  have hb : b < 256 := by unfold isCont at h; simp at h; omega
  rw [notContByte_eq b hb, h]; rfl

theorem notCont_of (b : Nat) (hb : b < 256) (h : isCont b = false) : notContByte b = true := by
  rw [notContByte_eq b hb, h]; rfl

theorem encCp_shape (c : Nat) (h : isScalar c = true) :
    ∃ b0 tl, utf8EncodeCp c = b0 :: tl ∧ notContByte b0 = true ∧ (∀ b ∈ tl, notContByte b = false) ∧ tl.length ≤ 3 := by
  rw [isScalar_iff] at h
  unfold utf8EncodeCp
  by_cases h1 : c < 0x80
  · refine ⟨c, [], by simp [h1], notCont_of c (by omega) (by unfold isCont; simp; omega), by simp, by simp⟩
  · by_cases h2 : c < 0x800
    · refine ⟨0xC0 + c / 64, [0x80 + c % 64], by simp [h1, h2], notCont_of _ (by omega) (by unfold isCont; simp), ?_, by simp⟩
      intro b hb; simp at hb; subst hb; exact isCont_notCont _ (by unfold isCont; simp; omega)
    · by_cases h3 : c < 0x10000
      · refine ⟨0xE0 + c / 4096, [0x80 + c / 64 % 64, 0x80 + c % 64], by simp [h1, h2, h3],
          notCont_of _ (by omega) (by unfold isCont; simp; omega), ?_, by simp⟩
        intro b hb; simp at hb
        rcases hb with rfl | rfl <;> exact isCont_notCont _ (by unfold isCont; simp; omega)
      · refine ⟨0xF0 + c / 262144, [0x80 + c / 4096 % 64, 0x80 + c / 64 % 64, 0x80 + c % 64], by simp [h1, h2, h3],
          notCont_of _ (by omega) (by unfold isCont; simp; omega), ?_, by simp⟩
        intro b hb; simp at hb
        rcases hb with rfl | rfl | rfl <;> exact isCont_notCont _ (by unfold isCont; simp; omega)

/-- an encoded text is empty or starts with a non-continuation byte -/
theorem enc_head (s : Str) (h : s.all isScalar = true) :
    utf8Encode s = [] ∨ ∃ b r, utf8Encode s = b :: r ∧ notContByte b = true := by
  cases s with
  | nil => left; simp [utf8Encode]
  | cons c s =>
    right
    simp only [List.all_cons, Bool.and_eq_true] at h
    obtain ⟨b0, tl, e, hb, _, _⟩ := encCp_shape c h.1
    exact ⟨b0, tl ++ utf8Encode s, by rw [utf8Encode_cons, e]; rfl, hb⟩

/-! ### utf8_truncate inside / in front of one character -/

theorem truncNat_zero (b : Nat) (r : Bytes) (h : notContByte b = true) : utf8TruncateNat (b :: r) 0 = [] := by
  unfold utf8TruncateNat
  simp only [List.length_cons, List.drop_zero]
  have : ¬ (0 ≥ r.length + 1) := by omega
  simp only [this, if_false]
  have : min (0 + 3) (r.length + 1) - 0 = (min 3 (r.length + 1) - 1) + 1 := by omega
  rw [this]; simp [contRun, h]

theorem truncNat_inside (b0 : Nat) (tl r : Bytes) (n : Nat) (htl : ∀ b ∈ tl, notContByte b = false) (hlen : tl.length ≤ 3)
    (hr : r = [] ∨ ∃ b r', r = b :: r' ∧ notContByte b = true) (h0 : 0 < n) (hn : n ≤ tl.length) :
    utf8TruncateNat ((b0 :: tl) ++ r) n = b0 :: tl := by
  unfold utf8TruncateNat
  simp only [List.length_append, List.length_cons]
  have : ¬ (n ≥ tl.length + 1 + r.length) := by omega
  simp only [this, if_false]
  obtain ⟨m, rfl⟩ : ∃ m, n = m + 1 := ⟨n - 1, by omega⟩
  have hd : List.drop (m + 1) (b0 :: tl ++ r) = List.drop m tl ++ r := by
    simp only [List.cons_append, List.drop_succ_cons]
    exact List.drop_append_of_le_length (by omega)
  rw [hd]
  have hrun := contRun_run (List.drop m tl) (min (m + 1 + 3) (tl.length + 1 + r.length) - (m + 1)) r
    (fun b hb => htl b (List.mem_of_mem_drop hb)) (by simp only [List.length_drop]; omega) hr
  rw [hrun, List.length_drop]
  have : m + 1 + (tl.length - m) = (b0 :: tl).length := by simp only [List.length_cons]; omega
  rw [this]
  exact List.take_left' rfl

/-- on the encoding of a text, utf8_truncate returns the encoding of a prefix of the text -/
theorem truncNat_valid : ∀ (s : Str), s.all isScalar = true → ∀ n, ∃ k, utf8TruncateNat (utf8Encode s) n = utf8Encode (s.take k) := by
  intro s
  induction s with
  | nil => intro _ n; exact ⟨0, by simp [utf8Encode, utf8TruncateNat]⟩
  | cons c s ih =>
    intro h n
    simp only [List.all_cons, Bool.and_eq_true] at h
    obtain ⟨b0, tl, e, hb, htl, hlen⟩ := encCp_shape c h.1
    rw [utf8Encode_cons, e]
    by_cases h0 : n = 0
    · subst h0
      exact ⟨0, by rw [List.cons_append, truncNat_zero _ _ hb]; simp [utf8Encode]⟩
    · by_cases hn : n ≤ tl.length
      · refine ⟨1, ?_⟩
        rw [truncNat_inside b0 tl (utf8Encode s) n htl hlen (enc_head s h.2) (by omega) hn]
        simp [utf8Encode, e]
      · obtain ⟨k, hk⟩ := ih h.2 (n - (b0 :: tl).length)
        refine ⟨k + 1, ?_⟩
        rw [truncNat_append (b0 :: tl) (utf8Encode s) n (by simp only [List.length_cons]; omega), hk]
        rw [List.take_succ_cons, utf8Encode_cons, e]

theorem all_take (s : Str) (k : Nat) (h : s.all isScalar = true) : (s.take k).all isScalar = true := by
  rw [List.all_eq_true] at h ⊢
  intro x hx; exact h x (List.mem_of_mem_take hx)

theorem startsWith_take (s : Str) (k : Nat) : pyStartsWith s (s.take k) = true := by
  unfold pyStartsWith
  simp only [List.length_take, beq_iff_eq]
  by_cases h : k ≤ s.length
  · rw [Nat.min_eq_left h]
  · rw [Nat.min_eq_right (by omega), List.take_of_length_le (Nat.le_refl _), List.take_of_length_le (by omega)]

/-- `assert sanity_check()` of utf8_truncate never fires -/
theorem sanity_ok (src : Bytes) (n : Nat) : sanityCheck src (utf8TruncateNat src n) = .ok true := by
  unfold sanityCheck
  cases hd : utf8Decode src with
  | none => rfl
  | some text =>
    obtain ⟨hs, he⟩ := decode_encode src text hd
    obtain ⟨k, hk⟩ := truncNat_valid text hs n
    simp only
    rw [← he, hk, utf8_roundtrip _ (all_take text k hs)]
    simp [startsWith_take]

/-! ### NUL bytes and NUL characters -/

theorem mem_zero_encCp (c : Nat) : 0 ∈ utf8EncodeCp c ↔ c = 0 := by
  unfold utf8EncodeCp
  by_cases h1 : c < 0x80
  · simp [h1]; omega
  · by_cases h2 : c < 0x800
    · simp [h1, h2]; omega
    · by_cases h3 : c < 0x10000
      · simp [h1, h2, h3]; omega
      · simp [h1, h2, h3]; omega

/-- the encoded bytes hold a NUL exactly when the text does (UTF-8 has no other way of producing a zero byte) -/
theorem mem_zero_encode (s : Str) : 0 ∈ utf8Encode s ↔ 0 ∈ s := by
  induction s with
  | nil => simp [utf8Encode]
  | cons c s ih =>
    rw [utf8Encode_cons, List.mem_append, mem_zero_encCp, ih, List.mem_cons]
    constructor
    · rintro (h | h)
      · left; exact h.symm
      · right; exact h
    · rintro (h | h)
      · left; exact h.symm
      · right; exact h

end Lemmas.PyUtil
