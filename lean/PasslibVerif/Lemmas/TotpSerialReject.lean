import PasslibVerif.Lemmas.TotpSerialDict
/- inconsistent / incomplete sources are refused -/
namespace Lemmas.TotpSerial
open Py Model.Handler Model.TotpSerial Model.TotpKey

/-! ### uri: scheme, type, label -/
theorem fromUri_wrong_scheme {E} (cls : Cls E) (u : Str) (h : (urlsplit (pyStrip u)).scheme ≠ sOtpauth) :
    fromUri cls u = .error .valueError := by
  unfold fromUri; simp only [h, ne_eq, not_false_eq_true, if_true]

theorem fromUri_unknown_type {E} (cls : Cls E) (u : Str) (hs : (urlsplit (pyStrip u)).scheme = sOtpauth)
    (h1 : (urlsplit (pyStrip u)).netloc ≠ sTotp) (h2 : (urlsplit (pyStrip u)).netloc ≠ sHotp) :
    fromUri cls u = .error .valueError := by
  unfold fromUri checkOtpType; simp only [hs, ne_eq, not_true_eq_false, if_false, h1, h2, Out.bind]

theorem fromUri_hotp {E} (cls : Cls E) (u : Str) (hs : (urlsplit (pyStrip u)).scheme = sOtpauth)
    (h : (urlsplit (pyStrip u)).netloc = sHotp) : fromUri cls u = .error .notImplemented := by
  unfold fromUri checkOtpType
  have : sHotp ≠ sTotp := by decide
  simp only [hs, ne_eq, not_true_eq_false, if_false, h, this, if_true, Out.bind]

theorem fromUri_missing_label {E} (cls : Cls E) (u : Str) (hs : (urlsplit (pyStrip u)).scheme = sOtpauth)
    (ht : (urlsplit (pyStrip u)).netloc = sTotp) (hp : (urlsplit (pyStrip u)).path = [] ∨ (urlsplit (pyStrip u)).path = [47]) :
    fromUri cls u = .error .valueError := by
  unfold fromUri checkOtpType fromParsedUri
  simp only [hs, ne_eq, not_true_eq_false, if_false, ht, if_true, Out.bind]
  rcases hp with hp | hp <;> simp only [hp]

/-! ### uri: duplicate parameters -/
theorem hasKey_iff {β} (k : Str) : ∀ d : List (Str × β), hasKey k d = true ↔ k ∈ d.map Prod.fst
  | [] => by simp [hasKey, lookupKey]
  | (k', v) :: r => by
    have ih := hasKey_iff k r
    unfold hasKey at ih ⊢
    by_cases e : k' = k
    · simp [lookupKey, e]
    · have e' : ¬ k = k' := fun x => e x.symm
      simp [lookupKey, e, e', ih]

/-- the duplicate check accepts exactly the parameter lists without a repeated name -/
theorem addParams_nodup : ∀ (ps acc : List (Str × Str)), ((acc ++ ps).map Prod.fst).Nodup → addParams acc ps = .ok (acc ++ ps)
  | [], acc, _ => by simp [addParams]
  | (k, v) :: r, acc, h => by
    have hk : hasKey k acc = false := by
      cases hh : hasKey k acc with
      | false => rfl
      | true =>
        have := (hasKey_iff k acc).1 hh
        simp only [List.map_append, List.map_cons, List.nodup_append, List.nodup_cons] at h
        exact absurd rfl (h.2.2 k this k (by simp))
    have h' : (((acc ++ [(k, v)]) ++ r).map Prod.fst).Nodup := by simpa using h
    simp only [addParams, hk, Bool.false_eq_true, if_false, addParams_nodup r (acc ++ [(k, v)]) h', List.append_assoc, List.singleton_append]

theorem addParams_dup : ∀ (ps acc : List (Str × Str)), (acc.map Prod.fst).Nodup → ¬ ((acc ++ ps).map Prod.fst).Nodup →
    addParams acc ps = .error .valueError
  | [], acc, h1, h2 => by simp at h2; exact absurd h1 h2
  | (k, v) :: r, acc, h1, h2 => by
    cases hh : hasKey k acc with
    | true => simp only [addParams, hh, if_true]
    | false =>
      have hk : k ∉ acc.map Prod.fst := fun hm => by
        have := (hasKey_iff k acc).2 hm; rw [hh] at this; cases this
      have h1' : ((acc ++ [(k, v)]).map Prod.fst).Nodup := by
        simp only [List.map_append, List.map_cons, List.map_nil, List.nodup_append, List.nodup_cons, List.not_mem_nil, not_false_eq_true,
          List.nodup_nil, and_self, List.mem_singleton, true_and]
        exact ⟨h1, fun a ha b hb => by subst hb; intro e; subst e; exact hk ha⟩
      have h2' : ¬ (((acc ++ [(k, v)]) ++ r).map Prod.fst).Nodup := by simpa using h2
      simp only [addParams, hh, Bool.false_eq_true, if_false, addParams_dup r (acc ++ [(k, v)]) h1' h2']

theorem uri_duplicate_param {E} (cls : Cls E) (lp q label0 : Str) (il : Option Str × Str) (pairs : List (Str × Str))
    (h1 : unquote lp = .ok label0) (h2 : splitLabel label0 = .ok il) (h3 : parseQsl q = .ok pairs)
    (hdup : ¬ (sLabel :: pairs.map Prod.fst).Nodup) :
    fromLabelQuery cls lp q = .error .valueError := by
  unfold fromLabelQuery
  simp only [h1, h2, Out.bind]
  split
  · rfl
  · simp only [h3, Out.bind, addParams_dup pairs [(sLabel, pyStrip il.2)] (by simp) (by simpa using hdup)]

/-! ### uri: conflicting issuers, missing secret -/
theorem addParams_cases (ps acc : List (Str × Str)) : addParams acc ps = .ok (acc ++ ps) ∨ addParams acc ps = .error .valueError := by
  induction ps generalizing acc with
  | nil => left; simp [addParams]
  | cons p r ih =>
    obtain ⟨k, v⟩ := p
    cases hh : hasKey k acc with
    | true => right; simp only [addParams, hh, if_true]
    | false =>
      simp only [addParams, hh, Bool.false_eq_true, if_false]
      rcases ih (acc ++ [(k, v)]) with h | h
      · left; simpa using h
      · right; exact h

theorem uri_conflicting_issuer {E} (cls : Cls E) (lp q label0 i l i' : Str) (pairs : List (Str × Str))
    (h1 : unquote lp = .ok label0) (h2 : splitLabel label0 = .ok (some i, l)) (hi : i ≠ []) (h3 : parseQsl q = .ok pairs)
    (hiss : lookupKey sIssuer pairs = some i') (hne : i' ≠ i) :
    fromLabelQuery cls lp q = .error .valueError := by
  unfold fromLabelQuery
  simp only [h1, h2, Out.bind]
  split
  · rfl
  · simp only [h3, Out.bind]
    rcases addParams_cases pairs [(sLabel, pyStrip l)] with h | h
    · have e : lookupKey sIssuer ([(sLabel, pyStrip l)] ++ pairs) = some i' := by
        have : (sLabel = sIssuer) = False := by decide
        simp only [List.singleton_append, lookupKey, this, if_false, hiss]
      simp only [h, syncIssuer, truthy_some i hi, e, hne, ne_eq, not_false_eq_true, if_true]
    · simp only [h]

theorem lookupKey_append {β} (k : Str) (a b : List (Str × β)) :
    lookupKey k (a ++ b) = (match lookupKey k a with | some v => some v | none => lookupKey k b) := by
  induction a with
  | nil => simp [lookupKey]
  | cons p r ih =>
    obtain ⟨k', v⟩ := p
    by_cases e : k' = k
    · simp [lookupKey, e]
    · simp [lookupKey, e, ih]

theorem syncIssuer_cases (iss : Option Str) (params : List (Str × Str)) :
    syncIssuer iss params = .ok params ∨ (∃ i, syncIssuer iss params = .ok (params ++ [(sIssuer, i)])) ∨ syncIssuer iss params = .error .valueError := by
  unfold syncIssuer
  cases truthy iss with
  | none => left; rfl
  | some i =>
    cases lookupKey sIssuer params with
    | none => right; left; exact ⟨i, rfl⟩
    | some i' =>
      by_cases e : i' = i
      · left; simp [e]
      · right; right; simp [e]

/-- a uri without a (non-blank) `secret` parameter is refused (the name `cls` aside, see `uri_param_cls_typeError`) -/
theorem uri_missing_secret {E} (cls : Cls E) (lp q label0 : Str) (il : Option Str × Str) (pairs : List (Str × Str))
    (h1 : unquote lp = .ok label0) (h2 : splitLabel label0 = .ok il) (h3 : parseQsl q = .ok pairs)
    (hs : lookupKey sSecret pairs = none) (hc : lookupKey sCls pairs = none) :
    fromLabelQuery cls lp q = .error .valueError := by
  unfold fromLabelQuery
  simp only [h1, h2, Out.bind]
  split
  · rfl
  · simp only [h3, Out.bind]
    rcases addParams_cases pairs [(sLabel, pyStrip il.2)] with h | h
    · simp only [h]
      have e1 : lookupKey sSecret ([(sLabel, pyStrip il.2)] ++ pairs) = none := by
        have : (sLabel = sSecret) = False := by decide
        simp only [List.singleton_append, lookupKey, this, if_false, hs]
      have e2 : lookupKey sCls ([(sLabel, pyStrip il.2)] ++ pairs) = none := by
        have : (sLabel = sCls) = False := by decide
        simp only [List.singleton_append, lookupKey, this, if_false, hc]
      rcases syncIssuer_cases il.1 ([(sLabel, pyStrip il.2)] ++ pairs) with h' | ⟨i, h'⟩ | h'
      · simp only [h', adaptUriParams, hasKey, e2, Option.isSome_none, Bool.false_eq_true, if_false, e1, truthy]
      · have e1' : lookupKey sSecret (([(sLabel, pyStrip il.2)] ++ pairs) ++ [(sIssuer, i)]) = none := by
          have : (sIssuer = sSecret) = False := by decide
          rw [lookupKey_append, e1]; simp only [lookupKey, this, if_false]
        have e2' : lookupKey sCls (([(sLabel, pyStrip il.2)] ++ pairs) ++ [(sIssuer, i)]) = none := by
          have : (sIssuer = sCls) = False := by decide
          rw [lookupKey_append, e2]; simp only [lookupKey, this, if_false]
        simp only [h', adaptUriParams, hasKey, e2', Option.isSome_none, Bool.false_eq_true, if_false, e1', truthy]
      · simp only [h']
    · simp only [h]

/-- `parse_qsl` drops a field with a blank value, so `secret=` is a missing secret -/
theorem qslField_blank (n : Str) (hn : 61 ∉ n) : qslField (n ++ [61]) = .ok none := by
  unfold qslField
  have : (n ++ [61]).isEmpty = false := by simp
  simp only [this, Bool.false_eq_true, if_false, findSplit_append 61 n [] hn, List.isEmpty_nil, if_true]

/-! ### dict -/
theorem dict_missing_type {E} (cls : Cls E) (d : Dict E) (h : lookupKey sType d = none) : fromDict cls d = .error .valueError := by
  unfold fromDict; simp only [h]

theorem dict_unknown_type {E} (cls : Cls E) (d : Dict E) (t : Str) (h : lookupKey sType d = some (.str t)) (hc : hasKey sCls d = false)
    (h1 : t ≠ sTotp) (h2 : t ≠ sHotp) : fromDict cls d = .error .valueError := by
  unfold fromDict; simp only [h, hc, Bool.false_eq_true, if_false, dictType, checkOtpType, h1, h2, Out.bind]

theorem dict_nontext_type {E} (cls : Cls E) (d : Dict E) (ty : JVal E) (h : lookupKey sType d = some ty) (hc : hasKey sCls d = false)
    (hty : ∀ t, ty ≠ .str t) : fromDict cls d = .error .valueError := by
  unfold fromDict; simp only [h, hc, Bool.false_eq_true, if_false, Out.bind]
  cases ty with
  | str t => exact absurd rfl (hty t)
  | _ => rfl

theorem dict_hotp {E} (cls : Cls E) (d : Dict E) (h : lookupKey sType d = some (.str sHotp)) (hc : hasKey sCls d = false) :
    fromDict cls d = .error .notImplemented := by
  have : sHotp ≠ sTotp := by decide
  unfold fromDict; simp only [h, hc, Bool.false_eq_true, if_false, dictType, checkOtpType, this, if_true, Out.bind]

/-- version missing, null, 0 / false, or outside [min_json_version, json_version] -/
def BadVersion {E} (v : Option (JVal E)) : Prop :=
  v = none ∨ v = some .null ∨ v = some (.bool false) ∨ v = some (.str []) ∨
  ∃ n : Int, v = some (.int n) ∧ (n = 0 ∨ n < Gen.TotpSerial.minJsonVersion ∨ n > Gen.TotpSerial.jsonVersion)

theorem dictVersion_bad {E} (v : Option (JVal E)) (h : BadVersion v) : dictVersion v = .error .valueError := by
  rcases h with rfl | rfl | rfl | rfl | ⟨n, rfl, hn⟩
  · rfl
  · rfl
  · rfl
  · rfl
  · simp only [dictVersion, Out.bind]
    have : (decide (n = 0) || decide (n < Gen.TotpSerial.minJsonVersion) || decide (n > Gen.TotpSerial.jsonVersion)) = true := by
      simp only [Bool.or_eq_true, decide_eq_true_eq]
      rcases hn with h | h | h
      · exact Or.inl (Or.inl h)
      · exact Or.inl (Or.inr h)
      · exact Or.inr h
    simp only [this, if_true]

theorem dict_bad_version {E} (cls : Cls E) (d : Dict E) (h : lookupKey sType d = some (.str sTotp)) (hc : hasKey sCls d = false)
    (hv : BadVersion (lookupKey sV d)) : fromDict cls d = .error .valueError := by
  unfold fromDict
  simp only [h, hc, Bool.false_eq_true, if_false, dictType, checkOtpType, if_true, Out.bind, dictVersion_bad _ hv]

theorem dict_missing_key {E} (cls : Cls E) (d : Dict E) (h : lookupKey sType d = some (.str sTotp)) (hc : hasKey sCls d = false)
    (ver : Int) (hv : dictVersion (lookupKey sV d) = .ok ver) (h1 : lookupKey sKey d = none) (h2 : lookupKey sEnckey d = none) :
    fromDict cls d = .error .valueError := by
  unfold fromDict
  simp only [h, hc, Bool.false_eq_true, if_false, dictType, checkOtpType, if_true, Out.bind, hv, h1, h2, dictKey]

/-- `from_json`: text that is not JSON, or JSON that is not an object -/
theorem json_not_object {E} (cls : Cls E) : fromJson cls (JDoc.invalid (E := E)) = .error .valueError ∧ fromJson cls (JDoc.nonDict (E := E)) = .error .valueError :=
  ⟨rfl, rfl⟩

end Lemmas.TotpSerial
