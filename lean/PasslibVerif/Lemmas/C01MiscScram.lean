import PasslibVerif.Lemmas.C01MiscFshp
/-
C01 / Misc family, scram: the digest map `hash` builds is `ScramWF`; what the overridden `verify` computes on a record whose digest
map is known (the `full=True` loop, the deciding digest of `full=False`).  Everything holds for EVERY normalisation function `prep`
(SASLprep is a parameter of the model).
-/
namespace Lemmas.C01Misc
open Py Model.Handler Model.Formats Model.Verify Model.VerifyFmt.Misc Lemmas.FormatsMisc Lemmas.C01MiscDigest Lemmas.PbkdfLen Lemmas.Handler

/-! ### the six digests -/
def sixAlgs : List Str := [ofString "md5", ofString "sha-1", ofString "sha-224", ofString "sha-256", ofString "sha-384", ofString "sha-512"]

theorem scramAlg_some (a : Str) (h : Spec.Formats.HashAlg) (ha : scramAlg a = some h) :
    a ∈ sixAlgs ∧ (h = Spec.Formats.algSha1 ∨ h = Spec.Formats.algSha256 ∨ h = Spec.Formats.algSha512 ∨ h = Spec.Formats.algMd5 ∨
         h = Spec.Formats.algSha224 ∨ h = Spec.Formats.algSha384) := by
  unfold scramAlg at ha
  repeat' split at ha
  all_goals first
    | (cases ha; done)
    | (simp only [Option.some.injEq] at ha; subst ha; subst_vars; refine ⟨by decide, ?_⟩; simp)

theorem algOK_six : ∀ a ∈ sixAlgs, AlgOK a := by
  intro a ha
  simp only [sixAlgs, List.mem_cons, List.not_mem_nil, or_false] at ha
  rcases ha with h | h | h | h | h | h <;> subst h <;> exact ⟨by decide +kernel, by decide, by decide, by decide⟩

/-- admissible `algs` of `scram.using(algs=…)` inside the model: normalised names of the six digests, sorted, with sha-1 -/
structure ScramAlgsOK (algs : List Str) : Prop where
  sorted : Sorted algs
  sha1 : SHA1 ∈ algs
  six : ∀ a ∈ algs, a ∈ sixAlgs

theorem ScramAlgsOK.algOK {algs : List Str} (h : ScramAlgsOK algs) : ∀ a ∈ algs, AlgOK a := fun a ha => algOK_six a (h.six a ha)

theorem ScramAlgsOK.ne {algs : List Str} (h : ScramAlgsOK algs) : algs ≠ [] := by
  intro e; have := h.sha1; rw [e] at this; cases this

theorem scramAlgs_settings (algs : List Str) (h : ScramAlgsOK algs) (salt : Bytes) (r : Nat) (x : Option Str) :
    scramAlgs { scramSettings algs salt r with checksum := x } = algs := by
  have hj : joinChar 44 algs ≠ [] := joinChar_ne_nil 44 algs h.ne (fun a ha => (h.algOK a ha).ne)
  have he : (joinChar 44 algs).isEmpty = false := by
    cases hjj : joinChar 44 algs with
    | nil => exact absurd hjj hj
    | cons _ _ => rfl
  simp only [scramAlgs, scramSettings, he, Bool.false_eq_true, if_false]
  exact split_join 44 algs h.ne (fun a ha => (h.algOK a ha).clean.1)

/-! ### keys -/
theorem scramKey_wf (prep : Bytes → Res Bytes) (a : Str) (b salt : Bytes) (r : Nat) (k : Bytes)
    (h : scramKey prep a b salt r = .ok k) : Bytes.WF k ∧ a ∈ sixAlgs := by
  unfold scramKey at h
  cases hp : prep b with
  | error e => simp [hp, resBind] at h
  | ok nb =>
    simp only [hp, resBind] at h
    cases ha : scramAlg a with
    | none => simp [ha] at h
    | some alg =>
      simp only [ha] at h
      split at h
      · cases h
      · simp only [Except.ok.injEq] at h
        subst h
        obtain ⟨hm, hs⟩ := scramAlg_some a alg ha
        exact ⟨(spec_pbkdf2_props alg (algOK alg hs) nb salt r alg.hLen).2, hm⟩

/-- the digest map of `_calc_checksum`: one entry per alg, in order, each the key of its alg -/
theorem scramKeys_ok (prep : Bytes → Res Bytes) (b salt : Bytes) (r : Nat) : ∀ (algs : List Str) (kvs : List (Str × Bytes)),
    scramKeys prep b salt r algs = .ok kvs → kvs.map (·.1) = algs ∧ ∀ kv ∈ kvs, scramKey prep kv.1 b salt r = .ok kv.2
  | [], kvs, h => by
    simp only [scramKeys, Except.ok.injEq] at h; subst h; exact ⟨rfl, by simp⟩
  | a :: as, kvs, h => by
    simp only [scramKeys] at h
    cases hk : scramKey prep a b salt r with
    | error e => simp [hk, resBind] at h
    | ok k =>
      simp only [hk, resBind] at h
      cases hr : scramKeys prep b salt r as with
      | error e => simp [hr, Except.map] at h
      | ok rest =>
        simp only [hr, Except.map, Except.ok.injEq] at h
        subst h
        obtain ⟨h1, h2⟩ := scramKeys_ok prep b salt r as rest hr
        refine ⟨by simp [h1], ?_⟩
        intro kv hkv
        rcases List.mem_cons.1 hkv with e | hm
        · subst e; exact hk
        · exact h2 kv hm

/-- … and it exists whenever the normalisation succeeds, the digests are among the six and rounds ≥ 1 -/
theorem scramKeys_exists (prep : Bytes → Res Bytes) (b nb salt : Bytes) (r : Nat) (hp : prep b = .ok nb) (hr : 1 ≤ r) :
    ∀ algs : List Str, (∀ a ∈ algs, a ∈ sixAlgs) → ∃ kvs, scramKeys prep b salt r algs = .ok kvs
  | [], _ => ⟨[], rfl⟩
  | a :: as, h => by
    obtain ⟨rest, hrest⟩ := scramKeys_exists prep b nb salt r hp hr as (fun x hx => h x (by simp [hx]))
    have ha := h a (by simp)
    have hsome : (scramAlg a).isSome = true := by
      simp only [sixAlgs, List.mem_cons, List.not_mem_nil, or_false] at ha
      rcases ha with e | e | e | e | e | e <;> subst e <;> decide
    obtain ⟨alg, halg⟩ := Option.isSome_iff_exists.1 hsome
    have hr0 : ¬ r < 1 := by omega
    refine ⟨(a, Spec.Formats.scramSaltedPassword alg nb salt r) :: rest, ?_⟩
    simp [scramKeys, scramKey, hp, resBind, halg, hr0, hrest, Except.map]

theorem scramDigest_settings (prep : Bytes → Res Bytes) (b : Bytes) (algs : List Str) (h : ScramAlgsOK algs) (salt : Bytes) (r : Nat)
    (x : Option Str) :
    scramDigest prep b { scramSettings algs salt r with checksum := x } = (scramKeys prep b salt r algs).map (scramChkEncode algs) := by
  unfold scramDigest
  rw [scramAlgs_settings algs h salt r x]
  rfl

/-- the record `hash` builds is well-formed in the sense of C07 -/
theorem scramWF_of_keys (prep : Bytes → Res Bytes) (b : Bytes) (algs : List Str) (h : ScramAlgsOK algs) (salt : Bytes)
    (hs : Bytes.WF salt ∧ salt.length ≤ 1024) (r : Nat) (hr : 1 ≤ r ∧ r ≤ 4294967295) (kvs : List (Str × Bytes))
    (hk : scramKeys prep b salt r algs = .ok kvs) :
    ScramWF { scramSettings algs salt r with checksum := some (scramChkEncode algs kvs) } := by
  obtain ⟨hn, hkeys⟩ := scramKeys_ok prep b salt r algs kvs hk
  refine ⟨rfl, ⟨r, rfl, hr.1, hr.2⟩, ⟨salt, rfl, hs.1, hs.2⟩, ⟨kvs, ?_, ?_, ?_, ?_, ?_⟩⟩
  · simp only [scramSettings, hn]
  · simp only [hn]
  · rw [hn]; exact h.sorted
  · rw [hn]; exact h.sha1
  · intro kv hkv
    have hmem : kv.1 ∈ algs := by rw [← hn]; exact List.mem_map.2 ⟨kv, hkv, rfl⟩
    exact ⟨h.algOK kv.1 hmem, (scramKey_wf prep kv.1 b salt r kv.2 (hkeys kv hkv)).1⟩

/-- decoding the stored digest map gives the map back -/
theorem scramChk_decode_encode (algs : List Str) (h : ScramAlgsOK algs) (kvs : List (Str × Bytes)) (hn : kvs.map (·.1) = algs) :
    scramChkDecode algs (scramChkEncode algs kvs) = kvs := by
  have hne : (kvs.map (·.1)).Pairwise (· ≠ ·) := by rw [hn]; exact sorted_ne _ h.sorted
  have := chkEncode_eq kvs hne kvs (fun _ hh => hh)
  rw [hn] at this
  rw [this]
  have h2 := chkDecode_flat kvs
  rw [hn] at h2
  exact h2

/-! ### the `full=True` loop -/
theorem scramKey_unique {prep : Bytes → Res Bytes} {a : Str} {b salt : Bytes} {r : Nat} {k k' : Bytes}
    (h : scramKey prep a b salt r = .ok k) (h' : scramKey prep a b salt r = .ok k') : k = k' := by
  rw [h] at h'; cases h'; rfl

/-- every stored digest equals its recomputed key: the loop answers True (for a non-empty map) without raising -/
theorem fullLoop_all_match (prep : Bytes → Res Bytes) (b salt : Bytes) (r : Nat) : ∀ (l : List (Str × Bytes)) (c : Bool),
    (∀ kv ∈ l, scramKey prep kv.1 b salt r = .ok kv.2) → scramFullLoop prep b salt r l c false = .ok (c || !l.isEmpty)
  | [], c, _ => by simp [scramFullLoop]
  | (a, d) :: rest, c, h => by
    have hk := h (a, d) (by simp)
    simp only at hk
    simp only [scramFullLoop, hk, resBind, ne_eq, not_true_eq_false, if_false, beq_self_eq_true, if_true]
    rw [fullLoop_all_match prep b salt r rest true (fun kv hkv => h kv (by simp [hkv]))]
    simp

/-- all keys computable, one stored digest right and one wrong (or mis-sized): a value error, whatever the order -/
theorem fullLoop_inconsistent (prep : Bytes → Res Bytes) (b salt : Bytes) (r : Nat) : ∀ (l : List (Str × Bytes)) (c f : Bool),
    (∀ kv ∈ l, ∃ k, scramKey prep kv.1 b salt r = .ok k) →
    (c = true ∨ ∃ kv ∈ l, scramKey prep kv.1 b salt r = .ok kv.2) →
    (f = true ∨ ∃ kv ∈ l, ∃ k, scramKey prep kv.1 b salt r = .ok k ∧ k ≠ kv.2) →
    scramFullLoop prep b salt r l c f = .error .valueError
  | [], c, f, _, hc, hf => by
    have hc' : c = true := by rcases hc with h | ⟨kv, hm, _⟩; exact h; cases hm
    have hf' : f = true := by rcases hf with h | ⟨kv, hm, _⟩; exact h; cases hm
    simp [scramFullLoop, hc', hf']
  | (a, d) :: rest, c, f, hall, hc, hf => by
    obtain ⟨k, hk⟩ := hall (a, d) (by simp)
    simp only at hk
    have hall' : ∀ kv ∈ rest, ∃ k, scramKey prep kv.1 b salt r = .ok k := fun kv hkv => hall kv (by simp [hkv])
    simp only [scramFullLoop, hk, resBind]
    by_cases hlen : d.length ≠ k.length
    · simp [hlen]
    · simp only [hlen, if_false]
      by_cases hkd : k = d
      · subst hkd
        simp only [beq_self_eq_true, if_true]
        apply fullLoop_inconsistent prep b salt r rest true f hall' (Or.inl rfl)
        rcases hf with h | ⟨kv, hm, k', hk', hne⟩
        · exact Or.inl h
        · rcases List.mem_cons.1 hm with e | hm'
          · subst e; exact absurd (scramKey_unique hk' hk) hne
          · exact Or.inr ⟨kv, hm', k', hk', hne⟩
      · have hb : (k == d) = false := by simpa using hkd
        simp only [hb, Bool.false_eq_true, if_false]
        apply fullLoop_inconsistent prep b salt r rest c true hall' _ (Or.inl rfl)
        rcases hc with h | ⟨kv, hm, hk'⟩
        · exact Or.inl h
        · rcases List.mem_cons.1 hm with e | hm'
          · subst e; exact absurd (scramKey_unique hk hk') hkd
          · exact Or.inr ⟨kv, hm', hk'⟩

/-! ### the deciding digest of `full=False` -/
theorem find_mem {α} (p : α → Bool) : ∀ (l : List α) (x : α), l.find? p = some x → x ∈ l ∧ p x = true
  | [], _, h => by simp at h
  | y :: ys, x, h => by
    simp only [List.find?] at h
    cases hp : p y with
    | true => simp only [hp, Option.some.injEq] at h; subst h; exact ⟨by simp, hp⟩
    | false => simp only [hp] at h; have := find_mem p ys x h; exact ⟨by simp [this.1], this.2⟩

/-- the deciding entry is an entry of the map whose name is one of `_verify_algs` -/
theorem scramDeciding_mem (chkmap : List (Str × Bytes)) (a : Str) (d : Bytes) (h : scramDeciding chkmap = some (a, d)) :
    (a, d) ∈ chkmap ∧ a ∈ scramVerifyAlgs := by
  unfold scramDeciding at h
  obtain ⟨x, hx, hf⟩ := List.exists_of_findSome?_eq_some h
  have := find_mem _ chkmap (a, d) hf
  refine ⟨this.1, ?_⟩
  have e : a = x := by simpa using this.2
  rw [e]; exact hx

/-- a map with a sha-1 entry always has a deciding entry (the `AssertionError` branch is unreachable after `from_string`) -/
theorem scramDeciding_some (chkmap : List (Str × Bytes)) (h : SHA1 ∈ chkmap.map (·.1)) : ∃ a d, scramDeciding chkmap = some (a, d) := by
  cases hd : scramDeciding chkmap with
  | some ad => exact ⟨ad.1, ad.2, rfl⟩
  | none =>
    exfalso
    unfold scramDeciding at hd
    rw [List.findSome?_eq_none_iff] at hd
    have h1 := hd SHA1 (by decide)
    rcases List.mem_map.1 h with ⟨kv, hkv, e⟩
    rw [List.find?_eq_none] at h1
    exact h1 kv hkv (by simpa using e)

theorem hashSecret_valid (h : Hasher) (s : Secret) (p : Parsed) (hs : Str) (hh : hashSecret h s p = .ok hs) : validateSecret s = .ok () := by
  unfold hashSecret at hh
  cases hv : validateSecret s with
  | error e => simp [hv] at hh
  | ok u => rfl

/-! ### the link to the Spec -/
theorem zip_map_same {α β γ} (f : α → β) (g : α → γ) : ∀ l : List α, (l.map f).zip (l.map g) = l.map fun x => (f x, g x)
  | [] => rfl
  | x :: xs => by simp [zip_map_same f g xs]

/-- one `alg=digest` element as the Spec defines it -/
theorem scramKey_is_spec (prep : Bytes → Res Bytes) (a : Str) (b salt : Bytes) (r : Nat) (k : Bytes) (h : scramKey prep a b salt r = .ok k) :
    ∃ nb alg, prep b = .ok nb ∧ scramAlg a = some alg ∧ Model.B64.ab64Encode k = Spec.Formats.scramDigest alg nb salt r := by
  unfold scramKey at h
  cases hp : prep b with
  | error e => simp [hp, resBind] at h
  | ok nb =>
    simp only [hp, resBind] at h
    cases ha : scramAlg a with
    | none => simp [ha] at h
    | some alg =>
      simp only [ha] at h
      split at h
      · cases h
      · simp only [Except.ok.injEq] at h
        subst h
        exact ⟨nb, alg, rfl, rfl, rfl⟩

end Lemmas.C01Misc
