import PasslibVerif.Lemmas.C08FamiliesMisc
/-
scram: the error kinds of `scram.from_string` (the digest names go through `norm_hash_name`: UnknownHashError — a ValueError subclass —, the
TypeError of `hashlib.new` for reserved names or a NUL, and the model's fuel guard) and the C08 set for scram's OWN `verify`
(`scramVerify prep full`), for every `prep` whose only error is the model's NotImplementedError (SASLprep outside the tables: `asciiPrep`).
-/
namespace Lemmas.C08FamiliesMiscScram
open Py Model.Handler Model.Formats Model.Verify Model.VerifyFmt.Misc Props.C01 Lemmas.C08Families Lemmas.FormatsMisc Lemmas.C08FamiliesMisc

/-- the error kinds of `norm_hash_name` -/
def IANA : List ErrKind := [.typeError, .unknownHash, .runtimeError]

theorem lookupRaises_type : ∀ x ∈ Gen.MiscTables.lookupRaises, x.2 = ErrKind.typeError := by decide

theorem lookupIana_err : ∀ (fuel : Nat) (d : Str), OnlyErr IANA (lookupIana fuel d)
  | 0, d => by unfold lookupIana; exact .err _ (by simp [IANA])
  | fuel + 1, d => by
    unfold lookupIana
    simp only
    refine .ite (.err _ (by simp [IANA])) (.ite (lookupIana_err fuel _) (.ite (.err _ (by simp [IANA])) ?_))
    split
    · rename_i x k hf
      have := lookupRaises_type _ (List.mem_of_find?_eq_some hf)
      simp only at this; subst this
      exact .err _ (by simp [IANA])
    · exact .ok _

theorem normIana_err (a : Str) : OnlyErr IANA (normIana a) := lookupIana_err _ _

theorem scramPairs_err : ∀ (l : List Str) (acc : List (Str × Bytes)), OnlyErr IANA (scramPairs l acc)
  | [], acc => by unfold scramPairs; exact .ok _
  | pair :: rest, acc => by
    unfold scramPairs
    split
    · refine .bind ?_ fun b => scramPairs_err rest _
      split
      · exact .ok _
      · exact .vErr
    · exact .vErr

theorem scramNormChecksum_err : ∀ l : List (Str × Bytes), OnlyErr IANA (scramNormChecksum l)
  | [] => by unfold scramNormChecksum; exact .ok _
  | (alg, _) :: rest => by
    unfold scramNormChecksum
    exact .bind (normIana_err _) fun i => .ite .vErr (.ite .vErr (scramNormChecksum_err rest))

theorem mapNorm_err : ∀ l : List Str, OnlyErr IANA (mapMRes normIana l)
  | [] => by unfold mapMRes; exact .ok _
  | a :: as => by unfold mapMRes; exact .bind (normIana_err _) fun b => .map _ (mapNorm_err as)

theorem scramNormAlgs_err (l : List Str) : OnlyErr IANA (scramNormAlgs l) := by
  unfold scramNormAlgs
  refine .bind (mapNorm_err l) fun x => ?_
  simp only
  exact .ite .vErr (.ite .vErr (.ok _))

theorem scramParse_err (hs : Str) : OnlyErr IANA (scramParse hs) := by
  unfold scramParse
  split
  · exact .vErr
  · split
    · refine .bind (pyInt_err _) fun rounds => .ite .vErr (.bind ?_ fun salt => .ite .vErr (.ite ?_ ?_))
      · split
        · exact .ok _
        · exact .vErr
      · exact .bind (scramPairs_err _ _) fun kvs => .bind (scramNormChecksum_err _) fun _ =>
          .ite .vErr (.ite .vErr (.ite .vErr (.bind (scramNormAlgs_err _) fun algs => .ok _)))
      · exact .ite .vErr (.ite .vErr (.bind (scramNormAlgs_err _) fun algs => .ok _))
    · exact .vErr

theorem scram_parse_err (hs : Str) : OnlyErr IANA (parseOf scram hs) := parseOf_err scram hs (scramParse_err hs)

/-- every error kind scram's `verify` can raise in the model beyond Value / Size: the parser's, the SASLprep stand-in's and an unknown digest's
    NotImplementedError, and the `assert` of the quick path ("sha-1 digest not found!") -/
def SCRAM : List ErrKind := [.typeError, .unknownHash, .runtimeError, .notImplemented, .assertionError]

theorem iana_sub : ∀ e ∈ IANA, e ∈ SCRAM := by decide

theorem scramKey_err (prep : Bytes → Res Bytes) (hprep : ∀ b, OnlyErr [.notImplemented] (prep b)) (a : Str) (b salt : Bytes) (r : Nat) :
    OnlyErr SCRAM (scramKey prep a b salt r) := by
  unfold scramKey
  refine .bind ((hprep b).mono (by decide)) fun nb => ?_
  split
  · exact .err _ (by decide)
  · exact .ite .verr (.ok _)

theorem scramFullLoop_err (prep : Bytes → Res Bytes) (hprep : ∀ b, OnlyErr [.notImplemented] (prep b)) (b salt : Bytes) (r : Nat) :
    ∀ (l : List (Str × Bytes)) (c f : Bool), OnlyErr SCRAM (scramFullLoop prep b salt r l c f)
  | [], c, f => by unfold scramFullLoop; exact .ite .verr (.ok _)
  | (a, d) :: rest, c, f => by
    unfold scramFullLoop
    exact .bind (scramKey_err prep hprep a b salt r) fun other =>
      .ite .verr (.ite (scramFullLoop_err prep hprep b salt r rest _ _) (scramFullLoop_err prep hprep b salt r rest _ _))

theorem toBytes_err (s : Secret) (e : ErrKind) (h : s.toBytes = .error e) : e = .valueError := by
  unfold Secret.toBytes at h
  cases s with
  | bytes bs => simp at h
  | text cps => simp only at h; split at h <;> simp at h; exact h.symm

theorem onlyErr_total {E : List ErrKind} {r : Res Bool} (h : OnlyErr E r) : Total E false r := by
  unfold Total
  cases r with
  | ok v => exact Or.inl ⟨v, rfl⟩
  | error e =>
    rcases h e rfl with h1 | h1
    · right; left; rw [h1]
    · right; right; right; right; exact ⟨e, h1, rfl⟩

theorem scramVerify_total (prep : Bytes → Res Bytes) (hprep : ∀ b, OnlyErr [.notImplemented] (prep b)) (full : Bool) (s : Secret) (hs : Str) :
    Total SCRAM false (scramVerify prep full s hs) := by
  unfold scramVerify
  cases hv : validateSecret s with
  | error e =>
    unfold validateSecret at hv
    by_cases hl : s.len > MAX_PASSWORD_SIZE
    · simp [hl] at hv; right; right; left; simp only; rw [← hv]
    · simp [hl] at hv
  | ok u =>
    simp only
    apply onlyErr_total
    cases hp : parseOf scram hs with
    | error e => simp only; intro e' he'; cases he'; exact (scram_parse_err hs e hp).imp id (iana_sub e)
    | ok p =>
      simp only
      cases hc : p.checksum with
      | none => exact .verr
      | some enc =>
        simp only
        refine .ite .verr ?_
        cases hb : s.toBytes with
        | error e => simp only; intro e' he'; cases he'; exact Or.inl (toBytes_err s e hb)
        | ok b =>
          simp only
          cases full with
          | true => simp only [if_true]; exact scramFullLoop_err prep hprep b _ _ _ _ _
          | false =>
            simp only [Bool.false_eq_true, if_false]
            split
            · exact .err _ (by decide)
            · exact .map _ (scramKey_err prep hprep _ b _ _)

theorem scramVerify_same_parse (prep : Bytes → Res Bytes) (full : Bool) (s : Secret) (h1 h2 : Str) (hp : parseOf scram h1 = parseOf scram h2) :
    scramVerify prep full s h1 = scramVerify prep full s h2 := by
  unfold scramVerify; rw [hp]

theorem asciiPrep_err (b : Bytes) : OnlyErr [.notImplemented] (asciiPrep b) := by
  unfold asciiPrep; exact .ite (.ok _) (.err _ (by simp))

theorem scramDeciding_nil : scramDeciding [] = none := by decide

/-- quick path (`full=False`): the answer for a string with the same settings is decided by ITS deciding digest — another deciding digest
    (same algorithm) is rejected; the other digests of the record are not looked at (documented: `full=True` checks them all) -/
theorem scramVerify_altered_deciding (prep : Bytes → Res Bytes) (s : Secret) (hs hs' : Str) (p : Parsed) (enc enc' a : Str) (d d' : Bytes)
    (hp : parseOf scram hs = .ok { p with checksum := some enc }) (hp' : parseOf scram hs' = .ok { p with checksum := some enc' })
    (hd : scramDeciding (scramChkDecode (scramAlgs p) enc) = some (a, d))
    (hd' : scramDeciding (scramChkDecode (scramAlgs p) enc') = some (a, d'))
    (hv : scramVerify prep false s hs = .ok true) : scramVerify prep false s hs' = .ok (d' == d) := by
  have e1 : ∀ x, scramAlgs { p with checksum := x } = scramAlgs p := fun _ => rfl
  have ne : ∀ enc a d, scramDeciding (scramChkDecode (scramAlgs p) enc) = some (a, d) → (scramChkDecode (scramAlgs p) enc).isEmpty = false := by
    intro enc a d h
    cases hl : scramChkDecode (scramAlgs p) enc with
    | nil => rw [hl, scramDeciding_nil] at h; cases h
    | cons x xs => rfl
  unfold scramVerify at hv ⊢
  cases hvs : validateSecret s with
  | error e => simp [hvs] at hv
  | ok u =>
    simp only [hvs, hp, hp', e1, ne _ _ _ hd, ne _ _ _ hd', Bool.false_eq_true, if_false, hd, hd'] at hv ⊢
    cases hb : s.toBytes with
    | error e => simp [hb] at hv
    | ok b =>
      simp only [hb] at hv ⊢
      cases hk : scramKey prep a b (p.salt.getD []) (p.rounds.getD 0).toNat with
      | error e => simp [hk, Except.map] at hv
      | ok k =>
        simp only [hk, Except.map, Except.ok.injEq, beq_iff_eq] at hv ⊢
        subst hv
        rw [Bool.eq_iff_iff]; simp only [beq_iff_eq]
        exact ⟨fun e => e.symm, fun e => e.symm⟩

end Lemmas.C08FamiliesMiscScram
