import PasslibVerif.Lemmas.OrLin
import PasslibVerif.Lemmas.DesLayout
import PasslibVerif.Model.Des
/-
Machine-checked facts about passlib's DES tables and the functions built directly on them.
Finite table facts are closed by `decide +kernel`; statements over all 64-bit (56-bit, …)
inputs follow from OR-linearity of both sides plus agreement on the unit vectors
(`OrLin.ext_units`).
-/
namespace Lemmas.DesTables
open OrLin DesLayout Spec.Des Model.Des

/-! ## (a) SPE is S, P, E of FIPS 46-3 in passlib's layout (all 8 x 64 entries) -/

theorem spe_eq_fips : Gen.Des.SPE = specSPE := by decide +kernel

/-! ## (b), (c) OR-linear rows, OR-linear `_permute` -/


structure RowLin (r : List Nat) : Prop where
  zero : r.getD 0 0 = 0
  or : ∀ a b, a < 16 → b < 16 → r.getD (a ||| b) 0 = r.getD a 0 ||| r.getD b 0

def rowLinB (r : List Nat) : Bool :=
  r.getD 0 0 == 0 &&
  (List.range 16).all fun a => (List.range 16).all fun b =>
    r.getD (a ||| b) 0 == (r.getD a 0 ||| r.getD b 0)

def tblLinB (t : List (List Nat)) : Bool := t.all rowLinB

theorem rowLin_of_B {r : List Nat} (h : rowLinB r = true) : RowLin r := by
  unfold rowLinB at h
  rw [Bool.and_eq_true] at h
  refine ⟨eq_of_beq h.1, fun a b ha hb => ?_⟩
  have h2 := h.2
  rw [List.all_eq_true] at h2
  have h3 := h2 a (List.mem_range.2 ha)
  rw [List.all_eq_true] at h3
  exact eq_of_beq (h3 b (List.mem_range.2 hb))

theorem tblLin_of_B {t : List (List Nat)} (h : tblLinB t = true) : ∀ r ∈ t, RowLin r := by
  intro r hr
  unfold tblLinB at h
  rw [List.all_eq_true] at h
  exact rowLin_of_B (h r hr)

/-- a row lookup `r[c & 0xF]` is OR-linear in `c` -/
theorem row_orlin {r : List Nat} (h : RowLin r) : OrLin (fun c => r.getD (c &&& 0xF) 0) := by
  refine ⟨by simpa using h.zero, fun a b => ?_⟩
  have ha : a &&& 0xF < 16 := Nat.lt_succ_of_le Nat.and_le_right
  have hb : b &&& 0xF < 16 := Nat.lt_succ_of_le Nat.and_le_right
  show r.getD ((a ||| b) &&& 0xF) 0 = _
  rw [Nat.and_or_distrib_right]
  exact h.or _ _ ha hb

/-- `_permute` as a structural recursion -/
def permuteRec (c : Nat) : List (List Nat) → Nat
  | [] => 0
  | r :: rs => r.getD (c &&& 0xF) 0 ||| permuteRec (c >>> 4) rs

theorem permute_foldl (p : List (List Nat)) : ∀ (out c : Nat),
    (p.foldl (fun (st : Nat × Nat) (r : List Nat) => (st.1 ||| r.getD (st.2 &&& 0xF) 0, st.2 >>> 4))
      (out, c)).1 = out ||| permuteRec c p := by
  induction p with
  | nil => intro out c; simp [permuteRec]
  | cons r rs ih => intro out c; simp only [List.foldl_cons, permuteRec]; rw [ih, Nat.or_assoc]

theorem permute_eq_rec (c : Nat) (p : List (List Nat)) : permute c p = permuteRec c p := by
  unfold permute; rw [permute_foldl]; simp

theorem permuteRec_orlin : ∀ (t : List (List Nat)), (∀ r ∈ t, RowLin r) → OrLin (fun c => permuteRec c t)
  | [], _ => const0
  | r :: rs, h => by
    have ih := permuteRec_orlin rs (fun r' hr' => h r' (List.mem_cons_of_mem _ hr'))
    exact orOf (row_orlin (h r (List.mem_cons_self))) (comp' ih (shiftRight 4))

/-- (c) for a table whose rows are OR-linear, `_permute(·, tbl)` is an OR-linear map -/
theorem permute_or_linear {t : List (List Nat)} (h : tblLinB t = true) : OrLin (fun c => permute c t) := by
  have : (fun c => permute c t) = (fun c => permuteRec c t) := funext fun c => permute_eq_rec c t
  rw [this]; exact permuteRec_orlin t (tblLin_of_B h)

theorem permute_orlin' {t : List (List Nat)} (h : tblLinB t = true) {g} (hg : OrLin g) :
    OrLin (fun x => permute (g x) t) := comp' (permute_or_linear h) hg

/-- hence it is determined by its values on the unit vectors -/
theorem permute_ext_units {t : List (List Nat)} (h : tblLinB t = true) {g : Nat → Nat} (hg : OrLin g)
    (n : Nat) (hu : ∀ i, i < n → permute (2^i) t = g (2^i)) : ∀ x, x < 2^n → permute x t = g x :=
  ext_units (permute_or_linear h) hg n hu

/-! OR-linearity of the spec-side building blocks -/

theorem bit_orlin' (n k : Nat) {g} (hg : OrLin g) : OrLin (fun x => bit (g x) n k) := by
  unfold bit
  exact ite _ (andMask' 1 (shiftRight' _ hg)) const0

theorem perm_orlin' : ∀ (T : List Nat) (n : Nat) {g}, OrLin g → OrLin (fun x => perm (g x) T n)
  | [], _, _, _ => const0
  | t :: ts, n, g, hg => by
    simp only [perm]
    exact orOf (shiftLeft' _ (bit_orlin' n t hg)) (perm_orlin' ts n hg)

theorem chunk_orlin' (j : Nat) {g} (hg : OrLin g) : OrLin (fun x => chunk (g x) j) := by
  unfold chunk; exact andMask' _ (shiftRight' _ hg)

theorem rev6_orlin' {g} (hg : OrLin g) : OrLin (fun x => rev6 (g x)) := by
  unfold rev6; exact perm_orlin' _ _ hg

theorem placeAux_orlin' : ∀ (js : List Nat) {g}, OrLin g → OrLin (fun x => placeAux (g x) js)
  | [], _, _ => const0
  | j :: js, g, hg => by
    simp only [placeAux]
    exact orOf (shiftLeft' _ (rev6_orlin' (chunk_orlin' j hg))) (placeAux_orlin' js hg)

theorem place_orlin' {g} (hg : OrLin g) : OrLin (fun x => place (g x)) := by
  unfold place; exact placeAux_orlin' _ hg

theorem expand_orlin' {g} (hg : OrLin g) : OrLin (fun x => expand (g x)) := by
  unfold expand; exact place_orlin' (perm_orlin' _ _ hg)


theorem ie_rows : tblLinB Gen.Des.IE3264 = true := by decide +kernel
theorem cf_rows : tblLinB Gen.Des.CF6464 = true := by decide +kernel
theorem pcx_rows : (Gen.Des.PCXROT.all fun p => tblLinB p.1 && tblLinB p.2) = true := by decide +kernel


/-- (b) every 16-entry row of IE3264, CF6464 and of all sixteen PCXROT tables is OR-linear:
    `r[0] = 0` and `r[a ||| b] = r[a] ||| r[b]` for all `a, b < 16`. -/
theorem rows_or_linear :
    (∀ r ∈ Gen.Des.IE3264, RowLin r) ∧ (∀ r ∈ Gen.Des.CF6464, RowLin r) ∧
    (∀ p ∈ Gen.Des.PCXROT, (∀ r ∈ p.1, RowLin r) ∧ (∀ r ∈ p.2, RowLin r)) := by
  refine ⟨tblLin_of_B ie_rows, tblLin_of_B cf_rows, fun p hp => ?_⟩
  have h := pcx_rows
  rw [List.all_eq_true] at h
  have hp' := h p hp
  rw [Bool.and_eq_true] at hp'
  exact ⟨tblLin_of_B hp'.1, tblLin_of_B hp'.2⟩

/-! ## (d) initial expansion -/

def preL (input : Nat) : Nat := ((input >>> 31) &&& 0xAAAAAAAA) ||| (input &&& 0x55555555)
def preR (input : Nat) : Nat := ((input >>> 32) &&& 0xAAAAAAAA) ||| ((input >>> 1) &&& 0x55555555)

theorem preL_orlin : OrLin preL := orOf (andMask' _ (shiftRight' _ OrLin.id)) (andMask' _ OrLin.id)
theorem preR_orlin : OrLin preR := orOf (andMask' _ (shiftRight' _ OrLin.id)) (andMask' _ (shiftRight' _ OrLin.id))

theorem initLR_eq (input : Nat) :
    initLR input = (permute (preL input) Gen.Des.IE3264, permute (preR input) Gen.Des.IE3264) := by
  unfold initLR
  by_cases h : input = 0
  · subst h
    have hz := (permute_or_linear ie_rows).zero
    simp [preL, preR, hz]
  · simp [h, preL, preR]

theorem ie_eq_fips (input : Nat) (h : input < 2^64) :
    initLR input = (expand (perm input IP 64 >>> 32), expand (perm input IP 64 &&& 0xFFFFFFFF)) := by
  rw [initLR_eq]
  have h1 := ext_unitsB (f := fun x => permute (preL x) Gen.Des.IE3264)
    (g := fun x => expand (perm x IP 64 >>> 32))
    (permute_orlin' ie_rows preL_orlin) (expand_orlin' (shiftRight' _ (perm_orlin' _ _ OrLin.id))) 64
    (by decide +kernel) input h
  have h2 := ext_unitsB (f := fun x => permute (preR x) Gen.Des.IE3264)
    (g := fun x => expand (perm x IP 64 &&& 0xFFFFFFFF))
    (permute_orlin' ie_rows preR_orlin) (expand_orlin' (andMask' _ (perm_orlin' _ _ OrLin.id))) 64
    (by decide +kernel) input h
  rw [h1, h2]


/-! ## (d) final permutation -/

theorem join_hi (l r : Nat) (hr : r < 2^32) : ((l <<< 32) ||| r) >>> 32 = l := by
  rw [Nat.shiftLeft_eq, Nat.mul_comm, ← Nat.two_pow_add_eq_or_of_lt hr, Nat.shiftRight_eq_div_pow]
  omega

theorem join_lo (l r : Nat) (hr : r < 2^32) : ((l <<< 32) ||| r) &&& 0xFFFFFFFF = r := by
  have hm : (0xFFFFFFFF : Nat) = 2^32 - 1 := by decide
  rw [Nat.shiftLeft_eq, Nat.mul_comm, ← Nat.two_pow_add_eq_or_of_lt hr, hm, Nat.and_two_pow_sub_one_eq_mod]
  omega

theorem join_lt (l r : Nat) (hl : l < 2^32) (hr : r < 2^32) : ((l <<< 32) ||| r) < 2^64 := by
  rw [Nat.shiftLeft_eq, Nat.mul_comm, ← Nat.two_pow_add_eq_or_of_lt hr]
  omega

theorem finalCF_orlin' {g h} (hg : OrLin g) (hh : OrLin h) : OrLin (fun x => finalCF (g x, h x)) := by
  unfold finalCF
  exact permute_orlin' cf_rows
    (orOf (orOf (orOf (andMask' _ (shiftRight' _ hg)) (andMask' _ (shiftLeft' _ hg)))
      (andMask' _ (shiftRight' _ hh))) (andMask' _ (shiftLeft' _ hh)))

theorem cf_eq_fips_x (x : Nat) (h : x < 2^64) :
    finalCF (expand (x >>> 32), expand (x &&& 0xFFFFFFFF)) = perm x FP 64 :=
  ext_unitsB (f := fun x => finalCF (expand (x >>> 32), expand (x &&& 0xFFFFFFFF)))
    (g := fun x => perm x FP 64)
    (finalCF_orlin' (expand_orlin' (shiftRight' _ OrLin.id)) (expand_orlin' (andMask' _ OrLin.id)))
    (perm_orlin' _ _ OrLin.id) 64 (by decide +kernel) x h

theorem cf_eq_fips (l r : Nat) (hl : l < 2^32) (hr : r < 2^32) :
    finalCF (expand l, expand r) = perm ((l <<< 32) ||| r) FP 64 := by
  have := cf_eq_fips_x ((l <<< 32) ||| r) (join_lt l r hl hr)
  rwa [join_hi l r hr, join_lo l r hr] at this


/-! ## (d) key schedule -/

def flat : List (Nat × Nat) → List Nat
  | [] => []
  | (a, b) :: t => a :: b :: flat t

def pairUp : List Nat → List (Nat × Nat)
  | a :: b :: t => (a, b) :: pairUp t
  | _ => []

theorem pairUp_flat : ∀ l, pairUp (flat l) = l
  | [] => rfl
  | (a, b) :: t => by simp [flat, pairUp, pairUp_flat t]

theorem flat_length : ∀ l, (flat l).length = 2 * l.length
  | [] => rfl
  | (a, b) :: t => by simp [flat, flat_length t]; omega

theorem iterKS_length (k : Nat) : ∀ tbls, (iterKeySchedule k tbls).length = tbls.length := by
  intro tbls
  induction tbls generalizing k with
  | nil => rfl
  | cons p rest ih => obtain ⟨pe, po⟩ := p; simp [iterKeySchedule, ih]

def pairsLinB (tbls : List (List (List Nat) × List (List Nat))) : Bool :=
  tbls.all fun p => tblLinB p.1 && tblLinB p.2

/-- every entry of the model key schedule is an OR-linear function of the key -/
theorem iterKS_orlin : ∀ (tbls : List (List (List Nat) × List (List Nat))), pairsLinB tbls = true →
    ∀ (i : Nat) {g}, OrLin g → OrLin (fun k => (flat (iterKeySchedule (g k) tbls)).getD i 0)
  | [], _, i, _, _ => by simp [iterKeySchedule, flat]; exact const0
  | (pe, po) :: rest, h, i, g, hg => by
    have h' : (tblLinB pe = true ∧ tblLinB po = true) ∧ pairsLinB rest = true := by
      simpa [pairsLinB, List.all_cons, Bool.and_eq_true] using h
    have he : OrLin (fun k => permute (g k) pe) := permute_orlin' h'.1.1 hg
    have ho : OrLin (fun k => permute (permute (g k) pe) po) := permute_orlin' h'.1.2 he
    simp only [iterKeySchedule, flat]
    match i with
    | 0 => simpa using andMask' _ he
    | 1 => simpa using andMask' _ ho
    | i + 2 => simpa using iterKS_orlin rest h'.2 i ho

theorem rotl28_orlin' (s : Nat) {g} (hg : OrLin g) : OrLin (fun x => rotl28 (g x) s) := by
  unfold rotl28; exact andMask' _ (orOf (shiftLeft' _ hg) (shiftRight' _ hg))

theorem rotCD_orlin' (s : Nat) {g} (hg : OrLin g) : OrLin (fun x => rotCD (g x) s) := by
  unfold rotCD
  exact orOf (shiftLeft' _ (rotl28_orlin' s (shiftRight' _ hg))) (rotl28_orlin' s (andMask' _ hg))

theorem keyStates_orlin {F : Nat → Nat} (hF : ∀ {g}, OrLin g → OrLin (fun x => F (g x))) :
    ∀ (ss : List Nat) (i : Nat) {g}, OrLin g →
      OrLin (fun x => ((keyStates (g x) ss).map F).getD i 0)
  | [], i, _, _ => by simp [keyStates]; exact const0
  | s :: ss, i, g, hg => by
    have h1 := rotCD_orlin' s hg
    simp only [keyStates, List.map_cons]
    match i with
    | 0 => simpa using hF h1
    | i + 1 => simpa using keyStates_orlin hF ss i h1

theorem keyStates_length (cd : Nat) : ∀ ss, (keyStates cd ss).length = ss.length := by
  intro ss
  induction ss generalizing cd with
  | nil => rfl
  | cons s ss ih => simp [keyStates, ih]

theorem ks_eq_fips (key : Nat) (h : key < 2^64) :
    flat (ksList key) = (subkeys key).map place := by
  have hu : ((List.range 64).all fun b => flat (ksList (2^b)) == (subkeys (2^b)).map place) = true := by
    decide +kernel
  have hlen1 : (flat (ksList key)).length = 16 := by
    simp [ksList, flat_length, iterKS_length, Gen.Des.PCXROT]
  have hlen2 : ((subkeys key).map place).length = 16 := by
    simp [subkeys, keyStates_length, SHIFTS]
  apply List.ext_getElem (by rw [hlen1, hlen2])
  intro i h1 h2
  have hi := ext_unitsB
    (f := fun k => (flat (ksList k)).getD i 0) (g := fun k => ((subkeys k).map place).getD i 0)
    (iterKS_orlin _ pcx_rows i OrLin.id)
    (by
      have := keyStates_orlin (F := fun cd => place (perm cd PC2 56))
        (fun hg => place_orlin' (perm_orlin' _ _ hg)) SHIFTS i (perm_orlin' PC1 64 OrLin.id)
      simpa [subkeys, List.map_map, Function.comp_def] using this)
    64
    (by
      rw [List.all_eq_true] at hu ⊢
      intro b hb
      have := eq_of_beq (hu b hb)
      simp [this])
    key h
  simp only [List.getD_eq_getElem?_getD, List.getElem?_eq_getElem h1, List.getElem?_eq_getElem h2,
    Option.getD_some] at hi
  exact hi

theorem ksList_eq (key : Nat) (h : key < 2^64) : ksList key = pairUp ((subkeys key).map place) := by
  rw [← ks_eq_fips key h, pairUp_flat]


/-! ## (e) expand / shrink -/

def unpackOr (bs : List Nat) : Nat := bs.foldl (fun acc b => (acc <<< 8) ||| b) 0

theorem unpack_foldl_or : ∀ (bs : List Nat) (acc : Nat), (∀ b ∈ bs, b < 256) →
    bs.foldl (fun acc b => acc * 256 + b) acc = bs.foldl (fun acc b => (acc <<< 8) ||| b) acc
  | [], _, _ => rfl
  | b :: bs, acc, h => by
    have hb : b < 2^8 := h b List.mem_cons_self
    simp only [List.foldl_cons]
    rw [unpack_foldl_or bs _ (fun b' hb' => h b' (List.mem_cons_of_mem _ hb'))]
    congr 1
    rw [Nat.shiftLeft_eq, Nat.mul_comm acc (2^8), ← Nat.two_pow_add_eq_or_of_lt hb]
    omega

theorem unpack64_eq_or (bs : List Nat) (h : ∀ b ∈ bs, b < 256) : unpack64 bs = unpackOr bs :=
  unpack_foldl_or bs 0 h

theorem unpack_foldl_lt : ∀ (bs : List Nat) (acc : Nat), (∀ b ∈ bs, b < 256) →
    bs.foldl (fun acc b => acc * 256 + b) acc < (acc + 1) * 256 ^ bs.length
  | [], acc, _ => by simp
  | b :: bs, acc, h => by
    have hb : b < 256 := h b List.mem_cons_self
    simp only [List.foldl_cons, List.length_cons]
    have ih := unpack_foldl_lt bs (acc * 256 + b) (fun b' hb' => h b' (List.mem_cons_of_mem _ hb'))
    have : (acc * 256 + b + 1) * 256 ^ bs.length ≤ (acc + 1) * 256 ^ (bs.length + 1) := by
      rw [Nat.pow_succ, Nat.mul_comm (256 ^ bs.length) 256, ← Nat.mul_assoc]
      apply Nat.mul_le_mul_right
      omega
    omega

/-- the 8 output bytes of `expand_des_key` for the 56-bit integer `k` -/
def expandBytesOf (k : Nat) : List Nat :=
  Gen.Des._EXPAND_ITER.map (fun shift => ((k >>> shift) &&& 0x7F) <<< 1)

theorem expandBytesOf_lt (k : Nat) : ∀ b ∈ expandBytesOf k, b < 256 := by
  intro b hb
  simp only [expandBytesOf, List.mem_map] at hb
  obtain ⟨s, _, rfl⟩ := hb
  have : (k >>> s) &&& 0x7F ≤ 0x7F := Nat.and_le_right
  rw [Nat.shiftLeft_eq]; omega

theorem unpack56_pack56 (k : Nat) (h : k < 2^56) : unpack56 (pack56 k) = k := by
  have hm : (0xFF : Nat) = 2^8 - 1 := by decide
  simp only [unpack56, unpack64, pack56, pack64, List.map_cons, List.map_nil, List.drop_succ_cons,
    List.drop_zero, List.foldl_cons, List.foldl_nil, hm, Nat.and_two_pow_sub_one_eq_mod,
    Nat.shiftRight_eq_div_pow]
  omega

theorem expandDesKeyInt_ok (k : Nat) (h : k < 2^56) :
    expandDesKeyInt k = .ok (unpackOr (expandBytesOf k)) := by
  have hg : ¬ k > Gen.Des.INT_56_MASK := by simp [Gen.Des.INT_56_MASK]; omega
  have hlen : (pack56 k).length = 7 := by simp [pack56, pack64]
  simp only [expandDesKeyInt, hg, if_false, expandDesKeyBytes, hlen, ne_eq, not_true_eq_false,
    unpack56_pack56 k h, Except.map]
  rw [← unpack64_eq_or _ (expandBytesOf_lt k)]
  rfl

def shrinkOf (key : Nat) : Nat :=
  ([0, 7, 14, 21, 28, 35, 42, 49].foldl
      (fun (st : Nat × Nat) offset => (st.1 ||| ((st.2 &&& 0x7F) <<< offset), st.2 >>> 8))
      (0, key >>> 1)).1

theorem shrinkDesKeyInt_ok (key : Nat) (h : key < 2^64) : shrinkDesKeyInt key = .ok (shrinkOf key) := by
  have hg : ¬ key > Gen.Des.INT_64_MASK := by simp [Gen.Des.INT_64_MASK]; omega
  simp only [shrinkDesKeyInt, hg, if_false, shrinkOf]

theorem expandOf_lt (k : Nat) : unpackOr (expandBytesOf k) < 2^64 := by
  rw [← unpack64_eq_or _ (expandBytesOf_lt k)]
  have := unpack_foldl_lt (expandBytesOf k) 0 (expandBytesOf_lt k)
  have hl : (expandBytesOf k).length = 8 := by simp [expandBytesOf, Gen.Des._EXPAND_ITER]
  rw [hl] at this
  exact this

theorem expandOf_orlin : OrLin (fun k => unpackOr (expandBytesOf k)) := by
  simp only [unpackOr, expandBytesOf, Gen.Des._EXPAND_ITER, List.map_cons, List.map_nil,
    List.foldl_cons, List.foldl_nil]
  orlin

theorem shrinkOf_orlin' {g} (hg : OrLin g) : OrLin (fun k => shrinkOf (g k)) := by
  simp only [shrinkOf, List.foldl_cons, List.foldl_nil]
  orlin

theorem shrink_expand_of (k : Nat) (h : k < 2^56) : shrinkOf (unpackOr (expandBytesOf k)) = k :=
  ext_unitsB (f := fun k => shrinkOf (unpackOr (expandBytesOf k))) (g := fun k => k)
    (shrinkOf_orlin' expandOf_orlin) OrLin.id 56 (by decide +kernel) k h

/-- (e) `shrink_des_key(expand_des_key(k)) == k` for every 56-bit integer `k` -/
theorem expand_shrink_inverse (k : Nat) (h : k < 2^56) :
    (expandDesKeyInt k >>= shrinkDesKeyInt) = .ok k := by
  rw [expandDesKeyInt_ok k h]
  show shrinkDesKeyInt (unpackOr (expandBytesOf k)) = _
  rw [shrinkDesKeyInt_ok _ (expandOf_lt k), shrink_expand_of k h]


/-! ## parity-bit facts (cheap corollaries of the same method) -/

/-- `expand_des_key` leaves all eight parity bits clear -/
theorem expand_parity_clear (k : Nat) (h : k < 2^56) :
    unpackOr (expandBytesOf k) &&& Gen.Des._KPARITY_MASK = 0 :=
  ext_unitsB (f := fun k => unpackOr (expandBytesOf k) &&& Gen.Des._KPARITY_MASK) (g := fun _ => 0)
    (andMask' _ expandOf_orlin) const0 56 (by decide +kernel) k h

/-- `shrink_des_key` ignores the parity bits -/
theorem shrink_ignores_parity (key : Nat) (h : key < 2^64) :
    shrinkOf (key &&& Gen.Des._KDATA_MASK) = shrinkOf key :=
  ext_unitsB (f := fun k => shrinkOf (k &&& Gen.Des._KDATA_MASK)) (g := fun k => shrinkOf k)
    (shrinkOf_orlin' (andMask' _ OrLin.id)) (shrinkOf_orlin' OrLin.id) 64 (by decide +kernel) key h

/-- `expand_des_key(shrink_des_key(key))` is `key` with the parity bits cleared -/
theorem shrink_expand (key : Nat) (h : key < 2^64) :
    unpackOr (expandBytesOf (shrinkOf key)) = key &&& Gen.Des._KDATA_MASK :=
  ext_unitsB (f := fun k => unpackOr (expandBytesOf (shrinkOf k))) (g := fun k => k &&& Gen.Des._KDATA_MASK)
    (comp' expandOf_orlin (shrinkOf_orlin' OrLin.id)) (andMask' _ OrLin.id) 64 (by decide +kernel) key h

/-- the FIPS key schedule ignores the parity bits … -/
theorem subkeys_ignore_parity (key : Nat) (h : key < 2^64) :
    subkeys (key &&& Gen.Des._KDATA_MASK) = subkeys key := by
  have := ext_unitsB (f := fun k => perm (k &&& Gen.Des._KDATA_MASK) PC1 64) (g := fun k => perm k PC1 64)
    (perm_orlin' _ _ (andMask' _ OrLin.id)) (perm_orlin' _ _ OrLin.id) 64 (by decide +kernel) key h
  simp only [subkeys]
  rw [this]

/-- … and so does passlib's (`des_encrypt_int_block` "parity bits are ignored completely") -/
theorem ksList_ignores_parity (key : Nat) (h : key < 2^64) :
    ksList (key &&& Gen.Des._KDATA_MASK) = ksList key := by
  have hm : key &&& Gen.Des._KDATA_MASK < 2^64 := Nat.lt_of_le_of_lt Nat.and_le_left h
  rw [ksList_eq _ hm, ksList_eq _ h, subkeys_ignore_parity key h]

theorem desCore_ignores_parity (key input salt rounds : Nat) (h : key < 2^64) :
    desCore (key &&& Gen.Des._KDATA_MASK) input salt rounds = desCore key input salt rounds := by
  simp only [desCore, ksList_ignores_parity key h]

#print axioms spe_eq_fips
#print axioms rows_or_linear
#print axioms permute_or_linear
#print axioms permute_ext_units
#print axioms ie_eq_fips
#print axioms cf_eq_fips
#print axioms ks_eq_fips
#print axioms expand_shrink_inverse
#print axioms expand_parity_clear
#print axioms shrink_ignores_parity
#print axioms shrink_expand
#print axioms subkeys_ignore_parity
#print axioms ksList_ignores_parity
#print axioms desCore_ignores_parity
end Lemmas.DesTables
