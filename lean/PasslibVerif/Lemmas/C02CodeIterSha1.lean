import PasslibVerif.Lemmas.C02CodeIterBase
/-
C02, group `Iter`, part 3: `sha1_crypt._calc_checksum_builtin` — the `compile_hmac` chain and `encode_transposed_bytes` with
`_chk_offsets` against NetBSD's `__crypt_sha1`; and the secrets: what `Secret.toBytes` returns is a byte string.
-/
namespace Lemmas.C02CodeIter
open Py Model.Code.Iter Lemmas.PbkdfLen
open Model.Verify (Secret utf8 utf8Cp)
open Spec.ShaCrypt (b64From24)

/-! ### secrets -/

/-- a secret as Python can hold it: the items of a bytes object are below 256 (text is any list of code points) -/
def SecretWF : Secret → Prop
  | .text _ => True
  | .bytes bs => Bytes.WF bs

instance (s : Secret) : Decidable (SecretWF s) := by cases s <;> unfold SecretWF <;> infer_instance

theorem utf8Cp_wf (c : Nat) (b : Bytes) (h : utf8Cp c = some b) : Bytes.WF b := by
  unfold utf8Cp at h
  intro x hx
  split at h
  · cases h; simp at hx; omega
  · split at h
    · cases h; simp at hx; omega
    · split at h
      · cases h
      · split at h
        · cases h; simp at hx; omega
        · split at h
          · cases h; simp at hx; omega
          · cases h

theorem utf8_wf : ∀ (cps : List Nat) (b : Bytes), utf8 cps = some b → Bytes.WF b
  | [], b, h => by cases h; intro x hx; cases hx
  | c :: rest, b, h => by
    unfold utf8 at h
    cases hc : utf8Cp c with
    | none => simp [hc] at h
    | some a =>
      cases hr : utf8 rest with
      | none => simp [hc, hr] at h
      | some r =>
        simp [hc, hr] at h
        subst h
        exact wf_append (utf8Cp_wf c a hc) (utf8_wf rest r hr)

theorem toBytes_wf (s : Secret) (b : Bytes) (hs : SecretWF s) (hb : s.toBytes = .ok b) : Bytes.WF b := by
  cases s with
  | bytes bs => simp [Secret.toBytes] at hb; subst hb; exact hs
  | text cps =>
    unfold Secret.toBytes at hb
    cases hu : utf8 cps with
    | none => simp [hu] at hb
    | some r => simp [hu] at hb; subst hb; exact utf8_wf cps r hu

/-! ### the HMAC chain -/
theorem keyedHmac_eq (H : Bytes → Bytes) (D : Nat) (hH : HashOK H D) (key : Bytes) (hk : Bytes.WF key) :
    Model.Hmac.compileHmac H 64 D key = Spec.Hmac.hmac H 64 key := by
  funext msg
  exact Lemmas.Hmac.hmac_eq_rfc2104 H 64 D (fun x => ⟨(hH x).2, (hH x).1⟩) key msg hk

theorem hmac_hashOK (H : Bytes → Bytes) (D : Nat) (hH : HashOK H D) (key : Bytes) : HashOK (Spec.Hmac.hmac H 64 key) D := by
  intro msg
  unfold Spec.Hmac.hmac
  exact hH _

theorem sha1_magic_ascii : ∀ c ∈ SHA1_MAGIC, c < 128 := by decide

theorem sha1_magic : SHA1_MAGIC = Spec.Formats.ascii "$sha1$" := by decide

/-- the digest before encoding: `rounds` applications of the keyed HMAC to the seed -/
theorem sha1Chain_eq (H : Bytes → Bytes) (hH : HashOK H 20) (b : Bytes) (hb : Bytes.WF b) (salt : List Nat) (rounds : Nat)
    (hr : 1 ≤ rounds) :
    forRange (Model.Hmac.compileHmac H 64 20 b) rounds (salt ++ SHA1_MAGIC ++ pyStr rounds) =
      Spec.Formats.iterate (Spec.Hmac.hmac H 64 b) (rounds - 1)
        (Spec.Hmac.hmac H 64 b (salt ++ Spec.Formats.ascii "$sha1$" ++ Spec.Formats.decimal rounds)) := by
  obtain ⟨n, rfl⟩ : ∃ n, rounds = n + 1 := ⟨rounds - 1, by omega⟩
  rw [forRange_eq_iterate, keyedHmac_eq H 20 hH b hb, sha1_magic, pyStr_eq_decimal, Nat.add_sub_cancel]
  rfl

/-! ### `h64.encode_transposed_bytes(result, _chk_offsets)` -/
theorem sha1Encode_eq (d : Bytes) (hlen : d.length = 20) (hb : Bytes.WF d) :
    Model.B64.encodeTransposed Model.B64.h64 d Gen.B64.sha1_chk_offsets = .ok (Spec.Formats.sha1CryptEncode d) := by
  unfold Model.B64.encodeTransposed
  rw [Lemmas.ShaCryptEnc.transpose_eq d _ (by rw [hlen]; decide)]
  simp only [Model.B64.encodeBytes, Lemmas.ShaCryptEnc.h64_little, Lemmas.ShaCryptEnc.charmap_eq]
  congr 1
  have r := Lemmas.ShaCryptEnc.getD_lt d hb
  have ch : ∀ i j k, List.map (Model.B64.encode64 Spec.ShaCrypt.itoa64)
      (Gen.B64.encLittleChunk (d.getD i 0) (d.getD j 0) (d.getD k 0)) = b64From24 (d.getD k 0) (d.getD j 0) (d.getD i 0) 4 :=
    fun i j k => Lemmas.ShaCryptEnc.chunk_eq _ _ _ (r i) (r j) (r k)
  simp only [Gen.B64.sha1_chk_offsets, List.map_cons, List.map_nil, Lemmas.ShaCryptEnc.enc6_chunk, Model.B64.enc6,
    Bool.false_eq_true, if_false, List.map_append, ch]
  simp [Spec.Formats.sha1CryptEncode]

end Lemmas.C02CodeIter
