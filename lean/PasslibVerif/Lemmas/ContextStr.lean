import PasslibVerif.Model.ContextStr
import PasslibVerif.Lemmas.ContextFresh
import PasslibVerif.Props.C01
/-
Lemmas for Props.C04Str, part 1 — everything that holds for ANY registry entry that is `Sound` for the settings a hash was made
with (format round-trips, checksum does not read the stored checksum, the class identifies what it renders, the parsed cost is
the cost it was made with): how the atoms `factsOf` computes relate to the hasher models, and what the policy model then answers.
-/
namespace Lemmas.ContextStr
open Py Model.Handler Model.Verify Model.Rounds Model.Context Model.ContextStr Lemmas.Context Lemmas.Rounds Props.C01

/-- what C04 needs of a hasher for the settings `hash()` used: the C01 / C07 facts -/
structure Sound (e : HasherEntry) (salt : Str) (n : Option Int) : Prop where
  rt : RoundTrips e.hasher (e.settings salt n)
  ic : IgnoresChecksum e.hasher
  id : ∀ s hs, hashSecret e.hasher s (e.settings salt n) = .ok hs → e.identify hs = true
  cost : ∀ c, e.costOf { e.settings salt n with checksum := some c } = n

/-! ### `hashSecret` unfolded -/
theorem hash_parts (h : Hasher) (s : Secret) (p : Parsed) (hs : Str) (hh : hashSecret h s p = .ok hs) :
    validateSecret s = .ok () ∧ ∃ c, checksumOf h true s p = .ok c ∧ hs = h.render { p with checksum := some c } := by
  unfold hashSecret at hh
  cases hv : validateSecret s with
  | error e => simp [hv] at hh
  | ok u =>
    simp only [hv] at hh
    cases hc : checksumOf h true s p with
    | error e => simp [hc] at hh
    | ok c =>
      simp only [hc, Except.ok.injEq] at hh
      exact ⟨rfl, c, rfl, hh.symm⟩

/-- a string made by a sound entry: identified by it, parses to the settings it was made with, verifies its secret -/
theorem own_hash (e : HasherEntry) (salt : Str) (n : Option Int) (hsound : Sound e salt n) (s : Secret) (hs : Str)
    (hh : hashSecret e.hasher s (e.settings salt n) = .ok hs) :
    e.identify hs = true ∧ verify e.hasher s hs = .ok true ∧
    ∃ c, checksumOf e.hasher true s (e.settings salt n) = .ok c ∧
      e.hasher.parse hs = .ok { e.settings salt n with checksum := some c } ∧
      e.costOf { e.settings salt n with checksum := some c } = n := by
  obtain ⟨_, c, hc, rfl⟩ := hash_parts _ s _ hs hh
  obtain ⟨b, hb⟩ := checksumOf_is_digest _ true s _ c hc
  exact ⟨hsound.id s _ hh, verify_own_hash _ s _ _ hsound.rt hsound.ic hh, c, hc, hsound.rt b c hb, hsound.cost c⟩

/-! ### the registry entries of a scheme list -/
def ents (l : List SchemeInfo) : List (String × HasherEntry) :=
  l.filterMap fun s => (entryOf s.name).map fun e => (s.name, e)

theorem entriesOf_eq (c : Cfg) : entriesOf c = ents c.schemes := rfl

/-- does the registered hasher of that name claim the string (independent of any context) -/
def cl (hs : Str) (name : String) : Bool :=
  match entryOf name with
  | some e => e.identify hs
  | none => false

theorem ents_cons (s : SchemeInfo) (l : List SchemeInfo) :
    ents (s :: l) = match entryOf s.name with | some e => (s.name, e) :: ents l | none => ents l := by
  unfold ents
  rw [List.filterMap_cons]
  cases entryOf s.name <;> rfl

theorem lookup_ents (n : String) : ∀ l : List SchemeInfo,
    lookupA n (ents l) = if l.any (fun s => s.name = n) then entryOf n else none
  | [] => by simp [ents, lookupA]
  | s :: l => by
    rw [ents_cons]
    cases he : entryOf s.name with
    | none =>
      simp only [lookup_ents n l, List.any_cons]
      by_cases hn : s.name = n
      · subst hn; simp [he]
      · simp [hn]
    | some e =>
      simp only [lookupA, List.any_cons]
      by_cases hn : s.name = n
      · subst hn; simp [he]
      · simp [hn, lookup_ents n l]

theorem claimsIn_ents (hs : Str) (l : List SchemeInfo) (n : String) (hn : l.any (fun s => s.name = n) = true) :
    claimsIn (ents l) hs n = cl hs n := by
  unfold claimsIn cl
  rw [lookup_ents, hn]
  simp only [if_true]
  cases entryOf n <;> rfl

theorem claimsIn_ents_mem (hs : Str) (l : List SchemeInfo) (s : SchemeInfo) (h : s ∈ l) :
    claimsIn (ents l) hs s.name = cl hs s.name :=
  claimsIn_ents hs l s.name (by rw [List.any_eq_true]; exact ⟨s, h, by simp⟩)

theorem find_congr {α} (p q : α → Bool) : ∀ l : List α, (∀ x ∈ l, p x = q x) → l.find? p = l.find? q
  | [], _ => rfl
  | a :: l, h => by
    simp only [List.find?_cons, h a (by simp)]
    cases q a
    · exact find_congr p q l (fun x hx => h x (by simp [hx]))
    · rfl

theorem ents_fst_mem (l : List SchemeInfo) (p : String × HasherEntry) (hp : p ∈ ents l) :
    ∃ s ∈ l, s.name = p.1 ∧ entryOf s.name = some p.2 := by
  unfold ents at hp
  obtain ⟨s, hs, he⟩ := List.mem_filterMap.1 hp
  cases h : entryOf s.name with
  | none => simp [h] at he
  | some e => simp [h] at he; subst he; exact ⟨s, hs, rfl, h⟩

/-- the policy model's `identify` over the computed atoms looks at the registry only -/
theorem identify_facts (c : Cfg) (hs : Str) (secret : Secret) :
    identify c (factsOf (entriesOf c) hs secret) =
      match c.schemes.find? (fun s => cl hs s.name) with | some s => .ok s | none => .error .unknownHash := by
  unfold identify factsOf
  simp only
  rw [entriesOf_eq, find_congr _ (fun s => cl hs s.name) c.schemes (fun s h => claimsIn_ents_mem hs c.schemes s h)]
  cases List.find? (fun s => cl hs s.name) c.schemes <;> rfl

theorem firstClaimer_ents (hs : Str) (l : List SchemeInfo) :
    firstClaimer (ents l) hs = (ents l).find? (fun p => cl hs p.1) := by
  unfold firstClaimer
  apply find_congr
  intro p hp
  obtain ⟨s, hsl, hn, _⟩ := ents_fst_mem l p hp
  rw [← hn]; exact claimsIn_ents_mem hs l s hsl

/-- the first claiming entry is the entry of the first claiming scheme -/
theorem find_ents (hs : Str) : ∀ l : List SchemeInfo,
    match l.find? (fun s => cl hs s.name) with
    | some s => ∃ e, entryOf s.name = some e ∧ (ents l).find? (fun p => cl hs p.1) = some (s.name, e)
    | none => (ents l).find? (fun p => cl hs p.1) = none
  | [] => by simp [ents]
  | s :: l => by
    rw [ents_cons, List.find?_cons]
    cases hc : cl hs s.name with
    | true =>
      simp only
      cases he : entryOf s.name with
      | none => unfold cl at hc; simp [he] at hc
      | some e => exact ⟨e, rfl, by simp [List.find?_cons, hc]⟩
    | false =>
      simp only
      have ih := find_ents hs l
      cases he : entryOf s.name with
      | none => simpa using ih
      | some e => simpa [List.find?_cons, hc] using ih

/-- … so, once the string is attributed to scheme `s`, the atoms are the answers of that scheme's hasher model -/
theorem facts_of_identified (c : Cfg) (hs : Str) (secret : Secret) (s : SchemeInfo)
    (hi : identify c (factsOf (entriesOf c) hs secret) = .ok s) :
    ∃ e, entryOf s.name = some e ∧ e.identify hs = true ∧ firstClaimer (entriesOf c) hs = some (s.name, e) ∧
      (factsOf (entriesOf c) hs secret).verifies = verify e.hasher secret hs ∧
      (factsOf (entriesOf c) hs secret).rounds = (match e.hasher.parse hs with | .ok p => e.costOf p | .error _ => none) ∧
      (factsOf (entriesOf c) hs secret).selfFlag = false := by
  rw [identify_facts] at hi
  have hf := find_ents hs c.schemes
  cases hfind : c.schemes.find? (fun s => cl hs s.name) with
  | none => simp [hfind] at hi
  | some s' =>
    simp only [hfind, Except.ok.injEq] at hi hf
    subst hi
    obtain ⟨e, he, hfe⟩ := hf
    have hcl : cl hs s'.name = true := by have := List.find?_some hfind; simpa using this
    have hid : e.identify hs = true := by unfold cl at hcl; simpa [he] using hcl
    have hfc : firstClaimer (entriesOf c) hs = some (s'.name, e) := by rw [entriesOf_eq, firstClaimer_ents]; exact hfe
    refine ⟨e, he, hid, hfc, ?_, ?_, rfl⟩
    · unfold factsOf; simp only [hfc]
    · unfold factsOf; simp only [hfc]
      cases e.hasher.parse hs <;> rfl

/-- the atoms do not depend on the secret, except `verifies` -/
theorem identify_secret_irrelevant (c : Cfg) (hs : Str) (s1 s2 : Secret) :
    identify c (factsOf (entriesOf c) hs s1) = identify c (factsOf (entriesOf c) hs s2) := by
  rw [identify_facts, identify_facts]

/-! ### attribution -/

/-- a scheme of the context that claims the string: the string is attributed to it or to an EARLIER claimer -/
theorem identify_of_claim (c : Cfg) (hs : Str) (secret : Secret) (x : SchemeInfo) (hx : x ∈ c.schemes) (hcl : cl hs x.name = true) :
    ∃ y, identify c (factsOf (entriesOf c) hs secret) = .ok y ∧ cl hs y.name = true ∧
      ∃ pre post, c.schemes = pre ++ y :: post ∧ (∀ t ∈ pre, cl hs t.name = false) ∧ (y = x ∨ x ∈ post) := by
  rw [identify_facts]
  cases hfind : c.schemes.find? (fun s => cl hs s.name) with
  | none =>
    rw [List.find?_eq_none] at hfind
    exact absurd hcl (hfind x hx)
  | some y =>
    obtain ⟨pre, post, hsplit, hy, hpre⟩ := find_first _ _ _ hfind
    refine ⟨y, rfl, hy, pre, post, hsplit, hpre, ?_⟩
    rw [hsplit] at hx
    rcases List.mem_append.1 hx with h | h
    · have := hpre x h; rw [hcl] at this; cases this
    · rcases List.mem_cons.1 h with h | h
      · exact Or.inl h.symm
      · exact Or.inr h

/-! ### what `hashWith` went through -/
theorem hashWith_ok (c : Cfg) (cat : Cat) (draw : Nat) (fv : Int) (salt : Str) (s : Secret) (hs : Str)
    (hh : hashWith c cat draw fv salt s = .ok hs) :
    ∃ d n e, hashCtx c cat draw fv = .ok (d, n) ∧ entryOf d = some e ∧ hashSecret e.hasher s (e.settings salt n) = .ok hs := by
  unfold hashWith at hh
  cases hd : defaultScheme c cat with
  | error e => simp [hd] at hh
  | ok d =>
    simp only [hd] at hh
    cases hf : c.schemes.find? (fun x => x.name = d) with
    | none => simp [hf] at hh
    | some si =>
      simp only [hf] at hh
      cases hr : getRecord c si cat with
      | error e => simp [hr] at hh
      | ok r =>
        simp only [hr] at hh
        cases hv : validateSecret s with
        | error e => simp [hv] at hh
        | ok u =>
          simp only [hv] at hh
          cases hc : hashCtx c cat draw fv with
          | error e => simp [hc] at hh
          | ok p =>
            obtain ⟨d', n⟩ := p
            simp only [hc] at hh
            cases he : entryOf d' with
            | none => simp [he] at hh
            | some e => simp only [he] at hh; exact ⟨d', n, e, rfl, he, hh⟩

/-- conversely: when the policy model produces (scheme, cost) and the hasher model hashes, `hashWith` is that string -/
theorem hashWith_of (c : Cfg) (cat : Cat) (draw : Nat) (fv : Int) (salt : Str) (s : Secret) (d : String) (n : Option Int)
    (e : HasherEntry) (hc : hashCtx c cat draw fv = .ok (d, n)) (he : entryOf d = some e) :
    hashWith c cat draw fv salt s = hashSecret e.hasher s (e.settings salt n) := by
  obtain ⟨hd, si, r, hmem, hname, hr, _⟩ := hash_by_default_scheme c cat draw fv d n hc
  have hc' := hc
  unfold hashCtx at hc
  simp only [hd] at hc
  unfold hashWith
  simp only [hd]
  cases hf : c.schemes.find? (fun x => x.name = d) with
  | none => simp [hf] at hc
  | some si' =>
    simp only [hf] at hc ⊢
    cases hr' : getRecord c si' cat with
    | error e' => simp [hr'] at hc
    | ok r' =>
      simp only [hc', he]
      cases hv : validateSecret s with
      | ok u => rfl
      | error e' => unfold hashSecret; simp [hv]

end Lemmas.ContextStr
