import PasslibVerif.Lemmas.C01PbkdfEx1
/-
C01 for the PBKDF family — real hashes evaluated inside the kernel, part 2: pbkdf2_sha512, sha1_crypt.
-/
namespace Lemmas.C01Pbkdf.Real
open Py Model.Handler Model.Formats Model.Verify Model.VerifyFmt.Pbkdf

set_option maxRecDepth 100000

theorem pbkdf2_sha512 : hashSecret pbkdf2_sha512Hasher PW (mc3Settings PBKDF2_SHA512_IDENT S16 1) =
    .ok (ofString "$pbkdf2-sha512$1$MDEyMzQ1Njc4OWFiY2RlZg$Y7jC86CbgxP3gXcXA8vJn8QsO8JG0TALCNgbuxd91FDVbgVZRCeX6QcNFXO0T3U1J.GcedciCdWqKeMuAHyzPA") := by
  decide +kernel

theorem sha1_crypt : hashSecret sha1CryptHasher PW (mc3Settings SHA1C_IDENT (ofString "8QBd3jkw") 1) =
    .ok (ofString "$sha1$1$8QBd3jkw$JU8Im77web3ePbQBtw5O0LR5Edzo") := by decide +kernel

end Lemmas.C01Pbkdf.Real
