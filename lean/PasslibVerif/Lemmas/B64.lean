import PasslibVerif.Model.B64
import PasslibVerif.Lemmas.Bits
/- helper lemmas for Props/C12 -/
namespace Lemmas.B64
open Py Gen.B64 Model.B64 Bits

/-! ### chunk / tail round trips (about the GENERATED bodies) -/

theorem little_chunk (x1 x2 x3 : Nat) (h1 : x1 < 256) (h2 : x2 < 256) :
    (match encLittleChunk x1 x2 x3 with
     | [a,b,c,d] => decLittleChunk a b c d
     | _ => []) = [x1,x2,x3] := by
  simp only [encLittleChunk, decLittleChunk]
  simp (disch := omega) only [and63, and15, and3, Nat.shiftRight_eq_div_pow, Nat.shiftLeft_eq, mul_or, or_mul, List.cons.injEq, and_true]
  refine ⟨?_, ?_, ?_⟩ <;> omega

theorem big_chunk (x1 x2 x3 : Nat) (h2 : x2 < 256) (h3 : x3 < 256) :
    (match encBigChunk x1 x2 x3 with
     | [a,b,c,d] => decBigChunk a b c d
     | _ => []) = [x1,x2,x3] := by
  simp only [encBigChunk, decBigChunk]
  simp (disch := omega) only [and63, and15, and3, Nat.shiftRight_eq_div_pow, Nat.shiftLeft_eq, mul_or, or_mul, List.cons.injEq, and_true]
  refine ⟨?_, ?_, ?_⟩ <;> omega

theorem little_tail1 (x1 : Nat) (h1 : x1 < 256) :
    (match encLittleTail1 x1 with | [a,b] => decLittleTail2 a b | _ => []) = [x1] := by
  simp only [encLittleTail1, decLittleTail2]
  simp (disch := omega) only [and63, and15, and3, Nat.shiftRight_eq_div_pow, Nat.shiftLeft_eq, mul_or, or_mul, List.cons.injEq, and_true]
  omega

theorem big_tail1 (x1 : Nat) (h1 : x1 < 256) :
    (match encBigTail1 x1 with | [a,b] => decBigTail2 a b | _ => []) = [x1] := by
  simp only [encBigTail1, decBigTail2]
  simp (disch := omega) only [and63, and15, and3, Nat.shiftRight_eq_div_pow, Nat.shiftLeft_eq, mul_or, or_mul, List.cons.injEq, and_true]
  omega

theorem little_tail2 (x1 x2 : Nat) (h1 : x1 < 256) (h2 : x2 < 256) :
    (match encLittleTail2 x1 x2 with | [a,b,c] => decLittleTail3 a b c | _ => []) = [x1,x2] := by
  simp only [encLittleTail2, decLittleTail3]
  simp (disch := omega) only [and63, and15, and3, Nat.shiftRight_eq_div_pow, Nat.shiftLeft_eq, mul_or, or_mul, List.cons.injEq, and_true]
  refine ⟨?_, ?_⟩ <;> omega

theorem big_tail2 (x1 x2 : Nat) (h1 : x1 < 256) (h2 : x2 < 256) :
    (match encBigTail2 x1 x2 with | [a,b,c] => decBigTail3 a b c | _ => []) = [x1,x2] := by
  simp only [encBigTail2, decBigTail3]
  simp (disch := omega) only [and63, and15, and3, Nat.shiftRight_eq_div_pow, Nat.shiftLeft_eq, mul_or, or_mul, List.cons.injEq, and_true]
  refine ⟨?_, ?_⟩ <;> omega

/-! ### the recursion -/

theorem dec6_enc6 (big : Bool) : ∀ (bs : Bytes), Bytes.WF bs → dec6 big (enc6 big bs) = bs
  | [], _ => by simp [enc6, dec6]
  | [x1], h => by
    have h1 : x1 < 256 := h x1 (by simp)
    cases big
    · have := little_tail1 x1 h1; simpa [enc6, dec6, encLittleTail1] using this
    · have := big_tail1 x1 h1; simpa [enc6, dec6, encBigTail1] using this
  | [x1, x2], h => by
    have h1 : x1 < 256 := h x1 (by simp)
    have h2 : x2 < 256 := h x2 (by simp)
    cases big
    · have := little_tail2 x1 x2 h1 h2; simpa [enc6, dec6, encLittleTail2] using this
    · have := big_tail2 x1 x2 h1 h2; simpa [enc6, dec6, encBigTail2] using this
  | x1 :: x2 :: x3 :: rest, h => by
    have h1 : x1 < 256 := h x1 (by simp)
    have h2 : x2 < 256 := h x2 (by simp)
    have h3 : x3 < 256 := h x3 (by simp)
    have ih := dec6_enc6 big rest (fun b hb => h b (by simp [hb]))
    cases big
    · have := little_chunk x1 x2 x3 h1 h2
      simp only [encLittleChunk] at this
      simp only [enc6, encLittleChunk, Bool.false_eq_true, if_false, List.cons_append, List.nil_append, dec6, ih]
      rw [this]; rfl
    · have := big_chunk x1 x2 x3 h2 h3
      simp only [encBigChunk] at this
      simp only [enc6, encBigChunk, if_true, List.cons_append, List.nil_append, dec6, ih]
      rw [this]; rfl

theorem enc6_length (big : Bool) : ∀ bs : Bytes, (enc6 big bs).length = (4 * bs.length + 2) / 3
  | [] => by simp [enc6]
  | [_] => by cases big <;> simp [enc6, encLittleTail1, encBigTail1]
  | [_, _] => by cases big <;> simp [enc6, encLittleTail2, encBigTail2]
  | x1 :: x2 :: x3 :: rest => by
    have ih := enc6_length big rest
    cases big <;> simp [enc6, encLittleChunk, encBigChunk, ih] <;> omega

theorem enc6_lt64 (big : Bool) : ∀ bs : Bytes, Bytes.WF bs → ∀ v ∈ enc6 big bs, v < 64
  | [], _ => by simp [enc6]
  | [x1], h => by
    have h1 : x1 < 256 := h x1 (by simp)
    cases big <;> simp only [enc6, encLittleTail1, encBigTail1, Bool.false_eq_true, if_false, if_true,
      List.mem_cons, List.not_mem_nil, or_false] <;> intro v hv <;> rcases hv with hv | hv <;> subst hv <;>
      simp (disch := omega) only [and63, and3, Nat.shiftRight_eq_div_pow, Nat.shiftLeft_eq] <;> omega
  | [x1, x2], h => by
    have h1 : x1 < 256 := h x1 (by simp)
    have h2 : x2 < 256 := h x2 (by simp)
    cases big <;> simp only [enc6, encLittleTail2, encBigTail2, Bool.false_eq_true, if_false, if_true,
      List.mem_cons, List.not_mem_nil, or_false] <;> intro v hv <;> rcases hv with hv | hv | hv <;> subst hv <;>
      simp (disch := omega) only [and63, and15, and3, Nat.shiftRight_eq_div_pow, Nat.shiftLeft_eq, mul_or, or_mul] <;> omega
  | x1 :: x2 :: x3 :: rest, h => by
    have h1 : x1 < 256 := h x1 (by simp)
    have h2 : x2 < 256 := h x2 (by simp)
    have h3 : x3 < 256 := h x3 (by simp)
    have ih := enc6_lt64 big rest (fun b hb => h b (by simp [hb]))
    intro v hv
    cases big <;> simp only [enc6, encLittleChunk, encBigChunk, Bool.false_eq_true, if_false, if_true,
      List.cons_append, List.nil_append, List.mem_cons] at hv <;>
      rcases hv with hv | hv | hv | hv | hv <;> first
        | exact ih v hv
        | (subst hv; simp (disch := omega) only [and63, and15, and3, Nat.shiftRight_eq_div_pow, Nat.shiftLeft_eq, mul_or, or_mul] <;> omega)

end Lemmas.B64
