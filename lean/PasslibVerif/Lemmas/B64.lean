import PasslibVerif.Model.B64
import PasslibVerif.Lemmas.Bits
/- helper lemmas for Props/C12 -/
namespace Lemmas.B64
open Py Gen.B64 Model.B64 Bits

/-! ### chunk / tail round trips (about the GENERATED bodies) -/

theorem little_chunk (x1 x2 x3 : Nat) (h1 : x1 < 256) (h2 : x2 < 256) :
    (match encLittleChunk x1 x2 x3 with
     | [a,b,c,d] => decLittleChunk a b c d
     | _ => []) = [x1,x2,x3] := by
  simp only [encLittleChunk, decLittleChunk]
  bitsimp
  refine ⟨?_, ?_, ?_⟩ <;> omega

theorem big_chunk (x1 x2 x3 : Nat) (h2 : x2 < 256) (h3 : x3 < 256) :
    (match encBigChunk x1 x2 x3 with
     | [a,b,c,d] => decBigChunk a b c d
     | _ => []) = [x1,x2,x3] := by
  simp only [encBigChunk, decBigChunk]
  bitsimp
  refine ⟨?_, ?_, ?_⟩ <;> omega

theorem little_tail1 (x1 : Nat) (h1 : x1 < 256) :
    (match encLittleTail1 x1 with | [a,b] => decLittleTail2 a b | _ => []) = [x1] := by
  simp only [encLittleTail1, decLittleTail2]
  bitsimp
  omega

theorem big_tail1 (x1 : Nat) (h1 : x1 < 256) :
    (match encBigTail1 x1 with | [a,b] => decBigTail2 a b | _ => []) = [x1] := by
  simp only [encBigTail1, decBigTail2]
  bitsimp
  omega

theorem little_tail2 (x1 x2 : Nat) (h1 : x1 < 256) (h2 : x2 < 256) :
    (match encLittleTail2 x1 x2 with | [a,b,c] => decLittleTail3 a b c | _ => []) = [x1,x2] := by
  simp only [encLittleTail2, decLittleTail3]
  bitsimp
  refine ⟨?_, ?_⟩ <;> omega

theorem big_tail2 (x1 x2 : Nat) (h1 : x1 < 256) (h2 : x2 < 256) :
    (match encBigTail2 x1 x2 with | [a,b,c] => decBigTail3 a b c | _ => []) = [x1,x2] := by
  simp only [encBigTail2, decBigTail3]
  bitsimp
  refine ⟨?_, ?_⟩ <;> omega

/-! ### the recursion -/

theorem dec6_enc6 (big : Bool) : ∀ (bs : Bytes), Bytes.WF bs → dec6 big (enc6 big bs) = bs
  | [], _ => by simp [enc6, dec6]
  | [x1], h => by
    have h1 : x1 < 256 := h x1 (by simp)
    cases big
    · have := little_tail1 x1 h1; simpa [enc6, dec6, encLittleTail1] using this
    · have := big_tail1 x1 h1; simpa [enc6, dec6, encBigTail1] using this
  | [x1, x2], h => by
    have h1 : x1 < 256 := h x1 (by simp)
    have h2 : x2 < 256 := h x2 (by simp)
    cases big
    · have := little_tail2 x1 x2 h1 h2; simpa [enc6, dec6, encLittleTail2] using this
    · have := big_tail2 x1 x2 h1 h2; simpa [enc6, dec6, encBigTail2] using this
  | x1 :: x2 :: x3 :: rest, h => by
    have h1 : x1 < 256 := h x1 (by simp)
    have h2 : x2 < 256 := h x2 (by simp)
    have h3 : x3 < 256 := h x3 (by simp)
    have ih := dec6_enc6 big rest (fun b hb => h b (by simp [hb]))
    cases big
    · have := little_chunk x1 x2 x3 h1 h2
      simp only [encLittleChunk] at this
      simp only [enc6, encLittleChunk, Bool.false_eq_true, if_false, List.cons_append, List.nil_append, dec6, ih]
      rw [this]; rfl
    · have := big_chunk x1 x2 x3 h2 h3
      simp only [encBigChunk] at this
      simp only [enc6, encBigChunk, if_true, List.cons_append, List.nil_append, dec6, ih]
      rw [this]; rfl

theorem enc6_length (big : Bool) : ∀ bs : Bytes, (enc6 big bs).length = (4 * bs.length + 2) / 3
  | [] => by simp [enc6]
  | [_] => by cases big <;> simp [enc6, encLittleTail1, encBigTail1]
  | [_, _] => by cases big <;> simp [enc6, encLittleTail2, encBigTail2]
  | x1 :: x2 :: x3 :: rest => by
    have ih := enc6_length big rest
    cases big <;> simp [enc6, encLittleChunk, encBigChunk, ih] <;> omega

theorem enc6_lt64 (big : Bool) : ∀ bs : Bytes, Bytes.WF bs → ∀ v ∈ enc6 big bs, v < 64
  | [], _ => by simp [enc6]
  | [x1], h => by
    have h1 : x1 < 256 := h x1 (by simp)
    cases big <;> simp only [enc6, encLittleTail1, encBigTail1, Bool.false_eq_true, if_false, if_true,
      List.mem_cons, List.not_mem_nil, or_false] <;> intro v hv <;> rcases hv with hv | hv <;> subst hv <;>
      bitsimp <;> omega
  | [x1, x2], h => by
    have h1 : x1 < 256 := h x1 (by simp)
    have h2 : x2 < 256 := h x2 (by simp)
    cases big <;> simp only [enc6, encLittleTail2, encBigTail2, Bool.false_eq_true, if_false, if_true,
      List.mem_cons, List.not_mem_nil, or_false] <;> intro v hv <;> rcases hv with hv | hv | hv <;> subst hv <;>
      bitsimp <;> omega
  | x1 :: x2 :: x3 :: rest, h => by
    have h1 : x1 < 256 := h x1 (by simp)
    have h2 : x2 < 256 := h x2 (by simp)
    have h3 : x3 < 256 := h x3 (by simp)
    have ih := enc6_lt64 big rest (fun b hb => h b (by simp [hb]))
    intro v hv
    cases big <;> simp only [enc6, encLittleChunk, encBigChunk, Bool.false_eq_true, if_false, if_true,
      List.cons_append, List.nil_append, List.mem_cons] at hv <;>
      rcases hv with hv | hv | hv | hv | hv <;> first
        | exact ih v hv
        | (subst hv; bitsimp <;> omega)

end Lemmas.B64

namespace Lemmas.B64
open Py Gen.B64 Model.B64 Bits Spec.Rfc4648

/-! ### agreement with the RFC 4648 transcription -/

theorem enc6_big_eq_rfc : ∀ bs : Bytes, Bytes.WF bs → enc6 true bs = groups64 bs
  | [], _ => by simp [enc6, groups64]
  | [x1], h => by
    have h1 : x1 < 256 := h x1 (by simp)
    simp only [enc6, groups64, if_true, encBigTail1]
    bitsimp
    refine ⟨?_, ?_⟩ <;> omega
  | [x1, x2], h => by
    have h1 : x1 < 256 := h x1 (by simp)
    have h2 : x2 < 256 := h x2 (by simp)
    simp only [enc6, groups64, if_true, encBigTail2]
    bitsimp
    refine ⟨?_, ?_, ?_⟩ <;> omega
  | x1 :: x2 :: x3 :: rest, h => by
    have h1 : x1 < 256 := h x1 (by simp)
    have h2 : x2 < 256 := h x2 (by simp)
    have h3 : x3 < 256 := h x3 (by simp)
    have ih := enc6_big_eq_rfc rest (fun b hb => h b (by simp [hb]))
    simp only [enc6, groups64, if_true, encBigChunk, ih, List.cons_append, List.nil_append]
    bitsimp
    refine ⟨?_, ?_, ?_, ?_⟩ <;> omega

theorem enc6_little_eq_crypt : ∀ bs : Bytes, Bytes.WF bs → enc6 false bs = groups64le bs
  | [], _ => by simp [enc6, groups64le]
  | [x1], h => by
    have h1 : x1 < 256 := h x1 (by simp)
    simp only [enc6, groups64le, Bool.false_eq_true, if_false, encLittleTail1]
    bitsimp
    omega
  | [x1, x2], h => by
    have h1 : x1 < 256 := h x1 (by simp)
    have h2 : x2 < 256 := h x2 (by simp)
    simp only [enc6, groups64le, Bool.false_eq_true, if_false, encLittleTail2]
    bitsimp
    refine ⟨?_, ?_, ?_⟩ <;> omega
  | x1 :: x2 :: x3 :: rest, h => by
    have h1 : x1 < 256 := h x1 (by simp)
    have h2 : x2 < 256 := h x2 (by simp)
    have h3 : x3 < 256 := h x3 (by simp)
    have ih := enc6_little_eq_crypt rest (fun b hb => h b (by simp [hb]))
    simp only [enc6, groups64le, Bool.false_eq_true, if_false, encLittleChunk, ih, List.cons_append, List.nil_append]
    bitsimp
    refine ⟨?_, ?_, ?_, ?_⟩ <;> omega

/-- libpass' copies of the generators are the same functions -/
theorem lpEnc6_eq (big : Bool) : ∀ bs : Bytes, lpEnc6 big bs = enc6 big bs
  | [] => by simp [enc6, lpEnc6]
  | [_] => by cases big <;> simp [enc6, lpEnc6, encLittleTail1, lpEncLittleTail1, encBigTail1, lpEncBigTail1]
  | [_, _] => by cases big <;> simp [enc6, lpEnc6, encLittleTail2, lpEncLittleTail2, encBigTail2, lpEncBigTail2]
  | x1 :: x2 :: x3 :: rest => by
    have ih := lpEnc6_eq big rest
    cases big <;> simp [enc6, lpEnc6, encLittleChunk, lpEncLittleChunk, encBigChunk, lpEncBigChunk, ih]

/-! ### character maps -/

/-- a charmap is usable: 64 entries and position lookup inverts indexing -/
def CharmapOK (cm : List Nat) : Prop :=
  cm.length = 64 ∧ ∀ i, i < 64 → decode64 cm (cm.getD i 0) = some i

instance (cm : List Nat) : Decidable (CharmapOK cm) := by unfold CharmapOK; infer_instance

theorem decodeAll_map_encode (cm : List Nat) (ok : CharmapOK cm) :
    ∀ vs : List Nat, (∀ v ∈ vs, v < 64) → decodeAll cm (vs.map (encode64 cm)) = some vs
  | [], _ => rfl
  | v :: vs, h => by
    have hv : v < 64 := h v (by simp)
    have ih := decodeAll_map_encode cm ok vs (fun x hx => h x (by simp [hx]))
    simp only [List.map, decodeAll, encode64, ok.2 v hv, ih]

theorem decode_encode (e : Engine) (ok : CharmapOK e.charmap) (bs : Bytes) (h : Bytes.WF bs) :
    decodeBytes e (encodeBytes e bs) = .ok bs := by
  unfold decodeBytes encodeBytes
  have hl : ((enc6 e.big bs).map (encode64 e.charmap)).length % 4 ≠ 1 := by
    rw [List.length_map, enc6_length]; omega
  rw [if_neg hl, decodeAll_map_encode e.charmap ok _ (enc6_lt64 e.big bs h)]
  simp only [dec6_enc6 e.big bs h]

theorem encode_alphabet (e : Engine) (ok : CharmapOK e.charmap) (bs : Bytes) (h : Bytes.WF bs) :
    ∀ c ∈ encodeBytes e bs, c ∈ e.charmap := by
  intro c hc
  unfold encodeBytes at hc
  rcases List.mem_map.1 hc with ⟨v, hv, rfl⟩
  have hv64 := enc6_lt64 e.big bs h v hv
  unfold encode64
  have : v < e.charmap.length := by rw [ok.1]; exact hv64
  simp only [List.getD, List.getElem?_eq_getElem this, Option.getD_some]
  exact List.getElem_mem _

theorem encode_length (e : Engine) (bs : Bytes) : (encodeBytes e bs).length = (4 * bs.length + 2) / 3 := by
  unfold encodeBytes; rw [List.length_map, enc6_length]

/-! ### error laws of decode -/

theorem decode_len1mod4_error (e : Engine) (s : Bytes) (h : s.length % 4 = 1) :
    decodeBytes e s = .error .valueError := by
  unfold decodeBytes; rw [if_pos h]

theorem decodeAll_none_of_foreign (cm : List Nat) : ∀ (s : Bytes) (c : Nat), c ∈ s → c ∉ cm → decodeAll cm s = none
  | [], _, h, _ => by cases h
  | x :: xs, c, h, hc => by
    rcases List.mem_cons.1 h with rfl | h'
    · have : decode64 cm c = none := by
        unfold decode64
        have : ¬ (cm.idxOf c < cm.length) := by
          rw [List.idxOf_lt_length_iff]; exact hc
        simp [this]
      simp [decodeAll, this]
    · have ih := decodeAll_none_of_foreign cm xs c h' hc
      simp only [decodeAll, ih]
      cases decode64 cm x <;> rfl

theorem decode_bad_char_error (e : Engine) (s : Bytes) (c : Nat) (hc : c ∈ s) (hf : c ∉ e.charmap) :
    decodeBytes e s = .error .valueError := by
  unfold decodeBytes
  split
  · rfl
  · rw [decodeAll_none_of_foreign e.charmap s c hc hf]

end Lemmas.B64

namespace Lemmas.B64
open Py Gen.B64 Model.B64 Bits Spec.Rfc4648

/-! ### padding bits: decoding ignores them; clearing them is idempotent -/

/-- clear the unused bits of the final 6-bit value (mirrors the recursion of `dec6`) -/
def clearPad (big : Bool) : List Nat → List Nat
  | v1 :: v2 :: v3 :: v4 :: rest => v1 :: v2 :: v3 :: v4 :: clearPad big rest
  | [v1, v2, v3] => [v1, v2, v3 &&& (63 - (if big then padinfo3BitsBig else padinfo3BitsLittle))]
  | [v1, v2] => [v1, v2 &&& (63 - (if big then padinfo2BitsBig else padinfo2BitsLittle))]
  | l => l

theorem pad_facts : ∀ v, v < 64 →
    ((v &&& (63 - padinfo2BitsLittle)) &&& 3 = v &&& 3) ∧
    ((v &&& (63 - padinfo3BitsLittle)) &&& 15 = v &&& 15) ∧
    ((v &&& (63 - padinfo2BitsBig)) >>> 4 = v >>> 4) ∧
    ((v &&& (63 - padinfo3BitsBig)) >>> 2 = v >>> 2) ∧
    ((v &&& (63 - padinfo2BitsLittle)) &&& padinfo2BitsLittle = 0) ∧
    ((v &&& (63 - padinfo3BitsLittle)) &&& padinfo3BitsLittle = 0) ∧
    ((v &&& (63 - padinfo2BitsBig)) &&& padinfo2BitsBig = 0) ∧
    ((v &&& (63 - padinfo3BitsBig)) &&& padinfo3BitsBig = 0) := by decide

theorem and48 : ∀ v, v < 64 → v &&& (63 - 15) = v / 2^4 * 2^4 := by decide
theorem and60 : ∀ v, v < 64 → v &&& (63 - 3) = v / 2^2 * 2^2 := by decide

/-- decoding does not look at the padding bits -/
theorem dec6_clearPad (big : Bool) : ∀ vs : List Nat, (∀ v ∈ vs, v < 64) → dec6 big (clearPad big vs) = dec6 big vs
  | [], _ => rfl
  | [_], _ => rfl
  | [v1, v2], h => by
    have f := pad_facts v2 (h v2 (by simp))
    cases big
    · simp only [clearPad, dec6, decLittleTail2, Bool.false_eq_true, if_false, f.1]
    · simp only [clearPad, dec6, decBigTail2, if_true, f.2.2.1]
  | [v1, v2, v3], h => by
    have f := pad_facts v3 (h v3 (by simp))
    cases big
    · simp only [clearPad, dec6, decLittleTail3, Bool.false_eq_true, if_false, f.2.1]
    · simp only [clearPad, dec6, decBigTail3, if_true, f.2.2.2.1]
  | v1 :: v2 :: v3 :: v4 :: rest, h => by
    have ih := dec6_clearPad big rest (fun x hx => h x (by simp [hx]))
    simp only [clearPad, dec6, ih]

/-- clearing is idempotent -/
theorem clearPad_idem (big : Bool) : ∀ vs : List Nat, clearPad big (clearPad big vs) = clearPad big vs
  | [] => rfl
  | [_] => rfl
  | [v1, v2] => by
    simp only [clearPad, List.cons.injEq, and_true, true_and, Nat.and_assoc, Nat.and_self]
  | [v1, v2, v3] => by
    simp only [clearPad, List.cons.injEq, and_true, true_and, Nat.and_assoc, Nat.and_self]
  | v1 :: v2 :: v3 :: v4 :: rest => by
    simp only [clearPad, clearPad_idem big rest]

/-- the canonical (re-encoded) form of any decodable value list is its cleared form -/
theorem enc6_dec6_eq_clearPad (big : Bool) : ∀ vs : List Nat, (∀ v ∈ vs, v < 64) → vs.length % 4 ≠ 1 →
    enc6 big (dec6 big vs) = clearPad big vs
  | [], _, _ => rfl
  | [_], _, hl => by simp at hl
  | [v1, v2], h, _ => by
    have h1 := h v1 (by simp); have h2 := h v2 (by simp)
    cases big
    · simp only [dec6, decLittleTail2, Bool.false_eq_true, if_false, enc6, encLittleTail1, clearPad, padinfo2BitsLittle]
      bitsimp
      refine ⟨?_, ?_⟩
      · omega
      · have : (63 - 15 * 2 ^ 2) = 3 := by decide
        rw [this, Bits.and3]; omega
    · simp only [dec6, decBigTail2, if_true, enc6, encBigTail1, clearPad, padinfo2BitsBig]
      bitsimp
      refine ⟨?_, ?_⟩
      · omega
      · rw [and48 v2 h2]; omega
  | [v1, v2, v3], h, _ => by
    have h1 := h v1 (by simp); have h2 := h v2 (by simp); have h3 := h v3 (by simp)
    cases big
    · simp only [dec6, decLittleTail3, Bool.false_eq_true, if_false, enc6, encLittleTail2, clearPad, padinfo3BitsLittle]
      bitsimp
      refine ⟨?_, ?_, ?_⟩
      · omega
      · omega
      · have : (63 - 3 * 2 ^ 4) = 15 := by decide
        rw [this, Bits.and15]; omega
    · simp only [dec6, decBigTail3, if_true, enc6, encBigTail2, clearPad, padinfo3BitsBig]
      bitsimp
      refine ⟨?_, ?_, ?_⟩
      · omega
      · omega
      · rw [and60 v3 h3]; omega
  | v1 :: v2 :: v3 :: v4 :: rest, h, hl => by
    have h1 := h v1 (by simp); have h2 := h v2 (by simp); have h3 := h v3 (by simp); have h4 := h v4 (by simp)
    have ih := enc6_dec6_eq_clearPad big rest (fun x hx => h x (by simp [hx])) (by simp at hl; omega)
    cases big
    · simp only [dec6, decLittleChunk, Bool.false_eq_true, if_false, List.cons_append, List.nil_append, enc6, encLittleChunk, clearPad, ih]
      bitsimp
      refine ⟨?_, ?_, ?_, ?_⟩ <;> omega
    · simp only [dec6, decBigChunk, if_true, List.cons_append, List.nil_append, enc6, encBigChunk, clearPad, ih]
      bitsimp
      refine ⟨?_, ?_, ?_, ?_⟩ <;> omega

end Lemmas.B64

namespace Lemmas.B64
open Py Gen.B64 Model.B64 Bits Spec.Rfc4648

/-! ### RFC 4648 transcription: inverse laws (used for b64s / ab64 / b32 helpers) -/

theorem ungroups64_groups64 : ∀ bs : Bytes, Bytes.WF bs → ungroups64 (groups64 bs) = some bs
  | [], _ => rfl
  | [x1], h => by
    have h1 : x1 < 256 := h x1 (by simp)
    simp only [groups64, ungroups64, Option.some.injEq, List.cons.injEq, and_true]; omega
  | [x1, x2], h => by
    have h1 : x1 < 256 := h x1 (by simp)
    have h2 : x2 < 256 := h x2 (by simp)
    simp only [groups64, ungroups64, Option.some.injEq, List.cons.injEq, and_true]
    refine ⟨?_, ?_⟩ <;> omega
  | x1 :: x2 :: x3 :: rest, h => by
    have h1 : x1 < 256 := h x1 (by simp)
    have h2 : x2 < 256 := h x2 (by simp)
    have h3 : x3 < 256 := h x3 (by simp)
    have ih := ungroups64_groups64 rest (fun b hb => h b (by simp [hb]))
    simp only [groups64, List.cons_append, List.nil_append, ungroups64, ih, Option.map_some, Option.some.injEq,
      List.cons.injEq, and_true]
    refine ⟨?_, ?_, ?_⟩ <;> omega

theorem groups64_lt64 : ∀ bs : Bytes, ∀ v ∈ groups64 bs, v < 64
  | [], v, h => by simp [groups64] at h
  | [x1], v, h => by
    simp only [groups64, List.mem_cons, List.not_mem_nil, or_false] at h
    rcases h with h | h <;> subst h <;> omega
  | [x1, x2], v, h => by
    simp only [groups64, List.mem_cons, List.not_mem_nil, or_false] at h
    rcases h with h | h | h <;> subst h <;> omega
  | x1 :: x2 :: x3 :: rest, v, h => by
    simp only [groups64, List.cons_append, List.nil_append, List.mem_cons] at h
    rcases h with h | h | h | h | h
    · subst h; omega
    · subst h; omega
    · subst h; omega
    · subst h; omega
    · exact groups64_lt64 rest v h

theorem groups64_length : ∀ bs : Bytes, (groups64 bs).length = (4 * bs.length + 2) / 3
  | [] => rfl
  | [_] => by simp [groups64]
  | [_, _] => by simp [groups64]
  | _ :: _ :: _ :: rest => by
    simp only [groups64, List.cons_append, List.nil_append, List.length_cons, groups64_length rest]; omega

end Lemmas.B64
