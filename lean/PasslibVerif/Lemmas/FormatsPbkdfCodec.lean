import PasslibVerif.Model.Formats.Pbkdf
import PasslibVerif.Lemmas.Handler
import PasslibVerif.Lemmas.B64Std
/- The lenient C decoder inverts the RFC 4648 encoder; the ab64 / `-_` base64 / upper-hex field codecs of the PBKDF family
   are exact inverses on what `to_string` emits, and what they emit is ASCII and free of the field separator. -/
namespace Lemmas.FormatsPbkdf
open Py Model.Handler Model.Formats Model.B64 Spec.Rfc4648 Lemmas.B64

def enc (v : Nat) : Nat := stdAlphabet.getD v 0

theorem enc_facts : ∀ v, v < 64 → enc v ≠ 61 ∧ decode64 stdAlphabet (enc v) = some v ∧ enc v ∈ stdAlphabet := by
  decide +kernel

theorem std_chars : ∀ c ∈ stdAlphabet ++ [61], c < 128 ∧ c ≠ 36 ∧ c ≠ 45 ∧ c ≠ 95 ∧ c ≠ 46 := by decide +kernel

/-- one data character moves the state machine on -/
theorem a2bGo_d0 (v : Nat) (hv : v < 64) (rest : List Nat) (left pads : Nat) :
    a2bGo (enc v :: rest) 0 left pads = a2bGo rest 1 v 0 := by
  obtain ⟨h1, h2, _⟩ := enc_facts v hv
  simp only [a2bGo, h1, if_false, h2]
theorem a2bGo_d1 (v : Nat) (hv : v < 64) (rest : List Nat) (left pads : Nat) :
    a2bGo (enc v :: rest) 1 left pads = (a2bGo rest 2 (v % 16) 0).map ((left * 4 + v / 16) :: ·) := by
  obtain ⟨h1, h2, _⟩ := enc_facts v hv
  simp only [a2bGo, h1, if_false, h2]
theorem a2bGo_d2 (v : Nat) (hv : v < 64) (rest : List Nat) (left pads : Nat) :
    a2bGo (enc v :: rest) 2 left pads = (a2bGo rest 3 (v % 4) 0).map ((left * 16 + v / 4) :: ·) := by
  obtain ⟨h1, h2, _⟩ := enc_facts v hv
  simp only [a2bGo, h1, if_false, h2]
theorem a2bGo_d3 (v : Nat) (hv : v < 64) (rest : List Nat) (left pads : Nat) :
    a2bGo (enc v :: rest) 3 left pads = (a2bGo rest 0 0 0).map ((left * 64 + v) :: ·) := by
  obtain ⟨h1, h2, _⟩ := enc_facts v hv
  simp only [a2bGo, h1, if_false, h2]

theorem padLen64_add3 (n : Nat) : padLen64 (n + 3) = padLen64 n := by unfold padLen64; omega

/-- `a2b_base64(b2a_base64(bs)) = bs` for the lenient decoder on the padded RFC 4648 encoding -/
theorem a2b_base64 : ∀ bs : Bytes, Bytes.WF bs → a2bBase64 (base64 bs) = some bs
  | [], _ => by decide
  | [x1], h => by
    have h1 : x1 < 256 := h x1 (by simp)
    have e : base64 [x1] = [enc (x1 * 16 / 64 % 64), enc (x1 * 16 % 64), 61, 61] := by
      simp [base64, base64NoPad, groups64, padLen64, enc, List.replicate]
    rw [e]; unfold a2bBase64
    rw [a2bGo_d0 _ (by omega), a2bGo_d1 _ (by omega)]
    simp only [a2bGo]
    simp
    omega
  | [x1, x2], h => by
    have h1 : x1 < 256 := h x1 (by simp)
    have h2 : x2 < 256 := h x2 (by simp)
    have e : base64 [x1, x2] =
        [enc ((x1 * 256 + x2) * 4 / 4096 % 64), enc ((x1 * 256 + x2) * 4 / 64 % 64), enc ((x1 * 256 + x2) * 4 % 64), 61] := by
      simp [base64, base64NoPad, groups64, padLen64, enc, List.replicate]
    rw [e]; unfold a2bBase64
    rw [a2bGo_d0 _ (by omega), a2bGo_d1 _ (by omega), a2bGo_d2 _ (by omega)]
    simp only [a2bGo]
    simp
    refine ⟨?_, ?_⟩ <;> omega
  | x1 :: x2 :: x3 :: rest, h => by
    have h1 : x1 < 256 := h x1 (by simp)
    have h2 : x2 < 256 := h x2 (by simp)
    have h3 : x3 < 256 := h x3 (by simp)
    have ih := a2b_base64 rest (fun b hb => h b (by simp [hb]))
    have e : base64 (x1 :: x2 :: x3 :: rest) =
        enc ((x1 * 65536 + x2 * 256 + x3) / 262144 % 64) :: enc ((x1 * 65536 + x2 * 256 + x3) / 4096 % 64) ::
        enc ((x1 * 65536 + x2 * 256 + x3) / 64 % 64) :: enc ((x1 * 65536 + x2 * 256 + x3) % 64) :: base64 rest := by
      simp only [base64, base64NoPad, groups64, List.cons_append, List.nil_append, List.map_cons, List.map_append, enc,
        List.length_cons]
      rw [show rest.length + 1 + 1 + 1 = rest.length + 3 from rfl, padLen64_add3]
    rw [e]; unfold a2bBase64 at ih ⊢
    rw [a2bGo_d0 _ (by omega), a2bGo_d1 _ (by omega), a2bGo_d2 _ (by omega), a2bGo_d3 _ (by omega), ih]
    simp only [Option.map_some, Option.some.injEq, List.cons.injEq, and_true]
    refine ⟨?_, ?_, ?_⟩ <;> omega

theorem mem_base64NoPad (bs : Bytes) : ∀ c ∈ base64NoPad bs, c ∈ stdAlphabet := by
  intro c hc
  unfold base64NoPad at hc
  rcases List.mem_map.1 hc with ⟨v, hv, rfl⟩
  exact (enc_facts v (groups64_lt64 bs v hv)).2.2

theorem mem_base64 (bs : Bytes) : ∀ c ∈ base64 bs, c ∈ stdAlphabet ++ [61] := by
  intro c hc
  unfold base64 at hc
  rcases List.mem_append.1 hc with h | h
  · exact List.mem_append_left _ (mem_base64NoPad bs c h)
  · have := List.eq_of_mem_replicate h
    subst this; simp

/-- `b64s_decode` re-pads exactly what `b64s_encode` stripped -/
theorem repad (bs : Bytes) :
    b64sEncode bs ++ (if (b64sEncode bs).length % 4 = 2 then [61, 61] else if (b64sEncode bs).length % 4 = 3 then [61] else [])
      = base64 bs := by
  unfold b64sEncode base64
  congr 1
  have hl : (base64NoPad bs).length = (4 * bs.length + 2) / 3 := by
    unfold base64NoPad; rw [List.length_map, groups64_length]
  rw [hl]
  unfold padLen64
  have h3 : bs.length % 3 = 0 ∨ bs.length % 3 = 1 ∨ bs.length % 3 = 2 := by omega
  rcases h3 with h | h | h
  · have a : ¬ ((4 * bs.length + 2) / 3 % 4 = 2) := by omega
    have b : ¬ ((4 * bs.length + 2) / 3 % 4 = 3) := by omega
    have c : (3 - bs.length % 3) % 3 = 0 := by omega
    rw [if_neg a, if_neg b, c]; rfl
  · have a : (4 * bs.length + 2) / 3 % 4 = 2 := by omega
    have c : (3 - bs.length % 3) % 3 = 2 := by omega
    rw [if_pos a, c]; rfl
  · have a : ¬ ((4 * bs.length + 2) / 3 % 4 = 2) := by omega
    have b : (4 * bs.length + 2) / 3 % 4 = 3 := by omega
    have c : (3 - bs.length % 3) % 3 = 1 := by omega
    rw [if_neg a, if_pos b, c]; rfl

theorem b64sDecodeL_encode (bs : Bytes) (h : Bytes.WF bs) : b64sDecodeL (b64sEncode bs) = .ok bs := by
  unfold b64sDecodeL
  have hl : ¬ ((b64sEncode bs).length % 4 = 1) := by
    unfold b64sEncode base64NoPad; rw [List.length_map, groups64_length]; omega
  simp only [hl, if_false, repad, a2b_base64 bs h]

theorem allLt_of_mem (s : Str) (h : ∀ c ∈ s, c < 128) : isAscii s = true := by
  unfold isAscii; rw [List.all_eq_true]; intro c hc; simpa using h c hc

/-! ### the three field codecs -/

/-- what a raw-field codec has to satisfy for the parse ∘ render round trip -/
structure CodecOK (sep : Nat) (encode : Bytes → Str) (decode : Str → Res Bytes) : Prop where
  roundtrip : ∀ bs, Bytes.WF bs → decode (encode bs) = .ok bs
  noSep : ∀ bs, sep ∉ encode bs
  nonEmpty : ∀ bs, bs ≠ [] → encode bs ≠ []

theorem ab64_mem (bs : Bytes) : ∀ c ∈ ab64Encode bs, c < 128 ∧ c ≠ 36 := by
  intro c hc
  unfold ab64Encode at hc
  rcases List.mem_map.1 hc with ⟨d, hd, rfl⟩
  have hm := std_chars d (List.mem_append_left _ (mem_base64NoPad bs d hd))
  unfold plusToDot
  split <;> omega

theorem ab64_unmap (bs : Bytes) : (ab64Encode bs).map dotToPlus = b64sEncode bs := by
  unfold ab64Encode
  rw [List.map_map]
  conv => rhs; rw [← List.map_id (b64sEncode bs)]
  apply List.map_congr_left
  intro c hc
  have := b64s_no_dot bs c hc
  simp only [Function.comp, plusToDot, dotToPlus, id]
  by_cases e : c = 43 <;> simp [e, this]

theorem ab64_codec : CodecOK DOLLAR ab64Encode ab64Field where
  roundtrip := by
    intro bs h
    unfold ab64Field
    rw [allLt_of_mem _ (fun c hc => (ab64_mem bs c hc).1)]
    simp only [if_true, ab64_unmap, b64sDecodeL_encode bs h]
  noSep := by
    intro bs hm
    exact (ab64_mem bs DOLLAR hm).2 rfl
  nonEmpty := by
    intro bs hne e
    have := congrArg List.length e
    unfold ab64Encode b64sEncode base64NoPad at this
    simp only [List.length_map, groups64_length, List.length_nil] at this
    cases bs with
    | nil => exact hne rfl
    | cons _ _ => simp only [List.length_cons] at this; omega

theorem b64Alt_mem (bs : Bytes) : ∀ c ∈ b64AltEncode bs, c < 128 ∧ c ≠ 36 := by
  intro c hc
  unfold b64AltEncode at hc
  rcases List.mem_map.1 hc with ⟨d, hd, rfl⟩
  have hm := std_chars d (mem_base64 bs d hd)
  unfold stdToAlt
  split
  · omega
  · split <;> omega

theorem b64Alt_unmap (bs : Bytes) : (b64AltEncode bs).map altToStd = base64 bs := by
  unfold b64AltEncode
  rw [List.map_map]
  conv => rhs; rw [← List.map_id (base64 bs)]
  apply List.map_congr_left
  intro c hc
  have hm := std_chars c (mem_base64 bs c hc)
  simp only [Function.comp, stdToAlt, altToStd, id]
  by_cases e : c = 43
  · simp [e]
  · by_cases e2 : c = 47
    · simp [e2]
    · have a : c ≠ 45 := hm.2.2.1
      have b : c ≠ 95 := hm.2.2.2.1
      simp [e, e2, a, b]

theorem base64_length_pos (bs : Bytes) (hne : bs ≠ []) : base64 bs ≠ [] := by
  intro e
  have := congrArg List.length e
  unfold base64 base64NoPad at this
  simp only [List.length_append, List.length_map, groups64_length, List.length_nil] at this
  cases bs with
  | nil => exact hne rfl
  | cons _ _ => simp only [List.length_cons] at this; omega

theorem b64Alt_codec : CodecOK DOLLAR b64AltEncode (fun s => toRes (b64AltField s)) where
  roundtrip := by
    intro bs h
    unfold b64AltField
    rw [allLt_of_mem _ (fun c hc => (b64Alt_mem bs c hc).1)]
    simp only [if_true, b64Alt_unmap, a2b_base64 bs h, toRes]
  noSep := by
    intro bs hm
    exact (b64Alt_mem bs DOLLAR hm).2 rfl
  nonEmpty := by
    intro bs hne e
    unfold b64AltEncode at e
    exact base64_length_pos bs hne (List.map_eq_nil_iff.1 e)

theorem b64Std_roundtrip (bs : Bytes) (h : Bytes.WF bs) : b64StdField (base64 bs) = some bs := by
  unfold b64StdField
  rw [allLt_of_mem _ (fun c hc => (std_chars c (mem_base64 bs c hc)).1)]
  simp only [if_true, a2b_base64 bs h]

/-! hex -/
theorem hexNibble_upper : ∀ d, d < 16 →
    hexNibble (upperHexChar d) = some d ∧ upperHexChar d < 128 ∧ upperHexChar d ≠ 46 := by decide

theorem unhexlify_hexlify : ∀ bs : Bytes, Bytes.WF bs → pbUnhexlify (pbHexlifyUpper bs) = some bs
  | [], _ => rfl
  | b :: rest, h => by
    have hb : b < 256 := h b (by simp)
    have ih := unhexlify_hexlify rest (fun x hx => h x (by simp [hx]))
    simp only [pbHexlifyUpper, pbUnhexlify, (hexNibble_upper (b / 16) (by omega)).1, (hexNibble_upper (b % 16) (by omega)).1, ih,
      Option.some.injEq, List.cons.injEq, and_true]
    omega

theorem hexlify_mem : ∀ (bs : Bytes), Bytes.WF bs → ∀ c ∈ pbHexlifyUpper bs, c < 128 ∧ c ≠ 46
  | [], _, c, hc => by simp [pbHexlifyUpper] at hc
  | b :: rest, h, c, hc => by
    have hb : b < 256 := h b (by simp)
    simp only [pbHexlifyUpper, List.mem_cons] at hc
    rcases hc with e | e | hm
    · subst e; exact (hexNibble_upper (b / 16) (by omega)).2
    · subst e; exact (hexNibble_upper (b % 16) (by omega)).2
    · exact hexlify_mem rest (fun x hx => h x (by simp [hx])) c hm

theorem hexlify_ge48 : ∀ (bs : Bytes), ∀ c ∈ pbHexlifyUpper bs, 48 ≤ c
  | [], c, hc => by simp [pbHexlifyUpper] at hc
  | b :: rest, c, hc => by
    simp only [pbHexlifyUpper, List.mem_cons] at hc
    rcases hc with e | e | hm
    · subst e; unfold upperHexChar; split <;> omega
    · subst e; unfold upperHexChar; split <;> omega
    · exact hexlify_ge48 rest c hm

theorem hex_codec : CodecOK DOT pbHexlifyUpper (fun s => toRes (unhexField s)) where
  roundtrip := by
    intro bs h
    unfold unhexField
    rw [allLt_of_mem _ (fun c hc => (hexlify_mem bs h c hc).1)]
    simp only [if_true, unhexlify_hexlify bs h, toRes]
  noSep := by
    intro bs hm
    have := hexlify_ge48 bs DOT hm
    unfold DOT at this; omega
  nonEmpty := by
    intro bs hne e
    cases bs with
    | nil => exact hne rfl
    | cons _ _ => simp [pbHexlifyUpper] at e

end Lemmas.FormatsPbkdf
