import PasslibVerif.Model.UsingMisc
/-
Helper lemmas for Props/C09Misc.lean: the generated `norm_integer` without a maximum, powers of two under `validate`,
the alias table of fshp, the decomposition of `scram._norm_algs`.
-/
namespace Lemmas.UsingMisc
open Py Model.Handler Model.UsingMisc

/-- `norm_integer(…, min=lo)` (no maximum) as one expression -/
theorem normInteger_none (v lo : Int) (relaxed : Bool) :
    Gen.Decisions.normInteger v lo none relaxed = if v < lo then (if relaxed then .ok lo else .error .valueError) else .ok v := by
  unfold Gen.Decisions.normInteger
  by_cases h : v < lo <;> cases relaxed <;> simp [h]

theorem normInteger_ok_ge (v lo : Int) (relaxed : Bool) (r : Int) (h : Gen.Decisions.normInteger v lo none relaxed = .ok r) :
    lo ≤ r ∧ (lo ≤ v → r = v) ∧ (v < lo → relaxed = true ∧ r = lo) := by
  rw [normInteger_none] at h
  by_cases hv : v < lo
  · cases relaxed with
    | false => simp [hv] at h
    | true =>
      simp only [hv, if_true, Except.ok.injEq] at h
      subst h
      exact ⟨Int.le_refl _, by omega, fun _ => ⟨rfl, rfl⟩⟩
  · simp only [hv, if_false, Except.ok.injEq] at h
    subst h
    exact ⟨by omega, fun _ => rfl, by omega⟩

/-- `n = 1 << k` passes the power-of-two test of `validate` -/
theorem pow_and_pred (k : Nat) : (1 <<< k) &&& ((1 <<< k) - 1) = 0 := by
  rw [Nat.one_shiftLeft]
  apply Nat.eq_of_testBit_eq
  intro i
  simp

theorem two_le_shift (k : Nat) (h : 1 ≤ k) : 2 ≤ 1 <<< k := by
  rw [Nat.one_shiftLeft]
  calc 2 = 2 ^ 1 := rfl
    _ ≤ 2 ^ k := Nat.pow_le_pow_right (by omega) h

/-- `validate` spelled out: it accepts exactly r ≥ 1, p ≥ 1, r·p ≤ MAX_RP (for n a power of two ≥ 2) -/
theorem validate_shift (k : Nat) (hk : 1 ≤ k) (r p : Int) :
    validate (1 <<< k) r p = if r < 1 ∨ p < 1 ∨ r * p > Gen.UsingMisc.scryptMaxRP then .error .valueError else .ok () := by
  unfold validate
  have h2 := two_le_shift k hk
  have h0 := pow_and_pred k
  have hn : ¬ (1 <<< k < 2 ∨ (1 <<< k) &&& ((1 <<< k) - 1) ≠ 0) := by
    intro h; rcases h with h | h
    · omega
    · exact h h0
  by_cases h1 : r < 1
  · simp [h1]
  · by_cases h2 : p < 1
    · simp [h1, h2]
    · by_cases h3 : r * p > Gen.UsingMisc.scryptMaxRP
      · simp [h1, h2, h3]
      · simp only [h1, h2, h3, hn, if_false, or_self]

theorem validate_error_kind (n : Nat) (r p : Int) (e : ErrKind) (h : validate n r p = .error e) : e = .valueError := by
  unfold validate at h
  repeat' split at h
  all_goals first | (cases h; rfl) | cases h

theorem validate_ok (n : Nat) (r p : Int) (h : validate n r p = .ok ()) :
    1 ≤ r ∧ 1 ≤ p ∧ r * p ≤ Gen.UsingMisc.scryptMaxRP := by
  unfold validate at h
  by_cases h1 : r < 1
  · simp [h1] at h
  · by_cases h2 : p < 1
    · simp [h1, h2] at h
    · by_cases h3 : r * p > Gen.UsingMisc.scryptMaxRP
      · simp [h1, h2, h3] at h
      · exact ⟨by omega, by omega, by omega⟩

/-! ### fshp tables (facts about the literals read from the source) -/

/-- every alias points at a variant of the table -/
theorem aliases_point_at_variants : ∀ kv ∈ variantAliases, isVariant kv.2 = true := by decide

/-- every variant is reachable by its decimal text and by its hash name -/
theorem every_variant_has_aliases :
    ∀ e ∈ variantInfo, variantAliases.lookup e.2.1 = some e.1 ∧
      variantAliases.lookup (ofString (toString e.1)) = some e.1 := by decide +kernel

theorem lookup_mem {α β} [BEq α] [LawfulBEq α] : ∀ (l : List (α × β)) (k : α) (v : β), l.lookup k = some v → (k, v) ∈ l
  | [], _, _, h => by simp [List.lookup] at h
  | (k', v') :: l, k, v, h => by
    unfold List.lookup at h
    by_cases hk : k == k'
    · simp only [hk] at h
      have := eq_of_beq hk
      cases h; subst this
      exact List.mem_cons_self
    · simp only [hk] at h
      exact List.mem_cons_of_mem _ (lookup_mem l k v h)

theorem alias_is_variant (s : Str) (v : Int) (h : variantAliases.lookup s = some v) : isVariant v = true :=
  aliases_point_at_variants (s, v) (lookup_mem _ _ _ h)

/-! ### scram._norm_algs -/
open Model.Formats in
theorem scramNormAlgs_ok (algs l : List Str) (h : scramNormAlgs algs = .ok l) :
    ∃ l', mapMRes normIana algs = .ok l' ∧ l = sortStrs l' ∧ (∀ a ∈ l, a.length ≤ 9) ∧ SHA1 ∈ l := by
  unfold scramNormAlgs resBind at h
  cases hm : mapMRes normIana algs with
  | error e => simp [hm] at h
  | ok l' =>
    simp only [hm] at h
    by_cases h9 : (sortStrs l').any (·.length > 9) = true
    · simp [h9, vErr] at h
    · simp only [h9] at h
      by_cases hs : (sortStrs l').contains SHA1 = true
      · simp only [hs, Bool.not_true] at h
        simp only [Bool.false_eq_true, if_false, Except.ok.injEq] at h
        subst h
        refine ⟨l', rfl, rfl, ?_, ?_⟩
        · intro a ha
          have : ¬ (a.length > 9) := by
            intro hgt
            apply h9
            exact List.any_eq_true.2 ⟨a, ha, by simpa using hgt⟩
          omega
        · simpa using hs
      · have hs' : SHA1 ∉ sortStrs l' := by simpa using hs
        simp [hs, hs', vErr] at h

open Model.Formats in
/-- after a successful normalisation of the names: too long a name, then a missing "sha-1", are value errors -/
theorem scramNormAlgs_of_names (algs l' : List Str) (hm : mapMRes normIana algs = .ok l') :
    scramNormAlgs algs =
      if (sortStrs l').any (·.length > 9) then .error .valueError
      else if !(sortStrs l').contains SHA1 then .error .valueError else .ok (sortStrs l') := by
  unfold scramNormAlgs resBind
  simp only [hm, vErr]

end Lemmas.UsingMisc
