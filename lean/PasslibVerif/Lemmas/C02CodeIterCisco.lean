import PasslibVerif.Lemmas.C02CodeIterSha1
import PasslibVerif.Props.C11
/-
C02, group `Iter`, part 4: fshp (pbkdf1 with the arguments swapped), cisco_pix / cisco_asa (`repeat_string`, `right_pad_string`,
every-fourth-byte filter) and cisco_type7 (`_cipher`, `%02d`) against the specifications.
-/
namespace Lemmas.C02CodeIter
open Py Model.Code.Iter Lemmas.PbkdfLen
open Model.Verify (Secret utf8 utf8Cp)

/-! ### fshp -/
theorem pbkdfIter_eq (H : Bytes → Bytes) : ∀ (n : Nat) (x : Bytes), Spec.Pbkdf.iter H n x = Spec.Formats.iterate H n x
  | 0, _ => rfl
  | n + 1, x => by simp only [Spec.Pbkdf.iter, Spec.Formats.iterate, pbkdfIter_eq H n]

/-- `pbkdf1(H, secret=salt, salt=secret, rounds, keylen=digest size)`: the salt is hashed BEFORE the password -/
theorem fshp_core (H : Bytes → Bytes) (size : Nat) (hH : HashOK H size) (salt b : Bytes) (rounds : Nat) (hr : 1 ≤ rounds) :
    Model.Hmac.pbkdf1 H size salt b rounds (some size) = .ok (Spec.Formats.iterate H (rounds - 1) (H (salt ++ b))) := by
  rw [Props.C11.pbkdf1_eq_spec H size salt b rounds size hr (Nat.le_refl _)]
  unfold Spec.Pbkdf.pbkdf1
  rw [pbkdfIter_eq]
  have hl : (Spec.Formats.iterate H (rounds - 1) (H (salt ++ b))).length = size :=
    iterate_length H size (fun x => (hH x).1) _ _ (hH _).1
  rw [List.take_of_length_le (by omega)]

/-! ### cisco: `repeat_string(user, 4)` -/
theorem repeatString4 (ub : Bytes) (h : ub ≠ []) : Model.ShaCrypt.repeatString ub 4 = Spec.Formats.ciscoUser4 ub := by
  unfold Model.ShaCrypt.repeatString Spec.Formats.ciscoUser4
  match ub, h with
  | [a], _ => simp [List.replicate, List.range, List.range.loop]
  | [a, b], _ => simp [List.replicate, List.range, List.range.loop]
  | [a, b, c], _ => simp [List.replicate, List.range, List.range.loop]
  | a :: b :: c :: d :: rest, _ =>
    have h0 : 3 / (rest.length + 1 + 1 + 1 + 1) = 0 := Nat.div_eq_of_lt (by omega)
    have m1 : 1 % (rest.length + 1 + 1 + 1 + 1) = 1 := Nat.mod_eq_of_lt (by omega)
    have m2 : 2 % (rest.length + 1 + 1 + 1 + 1) = 2 := Nat.mod_eq_of_lt (by omega)
    have m3 : 3 % (rest.length + 1 + 1 + 1 + 1) = 3 := Nat.mod_eq_of_lt (by omega)
    simp [h0, List.replicate, List.range, List.range.loop, m1, m2, m3]

theorem ciscoUser4_nil : Spec.Formats.ciscoUser4 [] = [] := rfl

/-! ### `right_pad_string` -/
theorem rightPad_eq (s : Bytes) (n : Nat) : rightPadString s n = (s ++ List.replicate n 0).take n := by
  unfold rightPadString
  by_cases h : n > s.length
  · simp only [h, if_true]
    rw [List.take_append, List.take_of_length_le (by omega), List.take_replicate]
    congr 2
    omega
  · simp only [h, if_false]
    rw [List.take_append_of_le_length (by omega)]

theorem rightPad_length (s : Bytes) (n : Nat) : (rightPadString s n).length = n := by
  rw [rightPad_eq, List.length_take, List.length_append, List.length_replicate]
  omega

/-! ### the user name as the code holds it -/

/-- `self.user` and the octets the specification is given (`[]` = no user) -/
def UserIs (user : Option Secret) (ub : Bytes) : Prop :=
  match user with
  | none => ub = []
  | some u => u.toBytes = .ok ub

instance (user : Option Secret) (ub : Bytes) : Decidable (UserIs user ub) := by
  cases user <;> unfold UserIs <;> infer_instance

theorem utf8Cp_ne_nil (c : Nat) (a : Bytes) (h : utf8Cp c = some a) : a ≠ [] := by
  unfold utf8Cp at h
  repeat' split at h
  all_goals first | (cases h; simp) | cases h

theorem len_zero_iff (u : Secret) (ub : Bytes) (h : u.toBytes = .ok ub) : u.len = 0 ↔ ub = [] := by
  cases u with
  | bytes bs =>
    simp only [Secret.toBytes, Except.ok.injEq] at h
    subst h
    simp [Secret.len]
  | text cps =>
    cases cps with
    | nil =>
      simp only [Secret.toBytes, utf8, Except.ok.injEq] at h
      subst h
      simp [Secret.len]
    | cons c rest =>
      simp only [Secret.len, List.length_cons]
      constructor
      · intro h0; omega
      · intro h0
        subst h0
        exfalso
        unfold Secret.toBytes utf8 at h
        cases hc : utf8Cp c with
        | none => simp [hc] at h
        | some a =>
          cases hr : utf8 rest with
          | none => simp [hc, hr] at h
          | some r =>
            simp [hc, hr] at h
            exact utf8Cp_ne_nil c a hc h.1

/-- the `if user:` block: the four bytes of the user name are appended when the rule says so -/
theorem appendUser_eq (asa : Bool) (user : Option Secret) (ub secret : Bytes) (hu : UserIs user ub) :
    ciscoAppendUser asa user secret =
      .ok (if !asa || secret.length < 28 then secret ++ Spec.Formats.ciscoUser4 ub else secret) := by
  unfold ciscoAppendUser
  cases user with
  | none =>
    have : ub = [] := hu
    subst this
    simp [ciscoUser4_nil]
  | some u =>
    have hb : u.toBytes = .ok ub := hu
    by_cases h0 : u.len = 0
    · have : ub = [] := (len_zero_iff u ub hb).1 h0
      subst this
      simp [h0, ciscoUser4_nil]
    · have hne : ub ≠ [] := fun e => h0 ((len_zero_iff u ub hb).2 e)
      simp only [h0, if_false, hb, repeatString4 ub hne]
      split <;> rfl

/-! ### every fourth byte is dropped -/
theorem dropEveryFourth_eq (d : Bytes) (hlen : d.length = 16) :
    dropEveryFourth d = (List.range 16).filterMap fun i => if i % 4 = 3 then none else some (d.getD i 0) := by
  match d, hlen with
  | [d0, d1, d2, d3, d4, d5, d6, d7, d8, d9, d10, d11, d12, d13, d14, d15], _ =>
    simp [dropEveryFourth, List.zipIdx, List.range, List.range.loop, List.filterMap, List.filter]

theorem zipIdx_fst_mem {α : Type} : ∀ (l : List α) (k : Nat) (p : α × Nat), p ∈ l.zipIdx k → p.1 ∈ l
  | [], _, _, h => by cases h
  | a :: rest, k, p, h => by
    rw [List.zipIdx_cons, List.mem_cons] at h
    rcases h with h | h
    · subst h; exact List.mem_cons_self ..
    · exact List.mem_cons_of_mem _ (zipIdx_fst_mem rest (k + 1) p h)

theorem dropEveryFourth_wf (d : Bytes) (h : Bytes.WF d) : Bytes.WF (dropEveryFourth d) := by
  intro x hx
  unfold dropEveryFourth at hx
  simp only [List.mem_map, List.mem_filter] at hx
  obtain ⟨p, ⟨hp, _⟩, rfl⟩ := hx
  exact h _ (zipIdx_fst_mem d 0 p hp)

/-- steps 4-6 of the published description on the padded input -/
theorem ciscoEncode_eq (md5 : Bytes → Bytes) (hH : HashOK md5 16) (padded : Bytes) :
    h64Encode (dropEveryFourth (md5 padded)) =
      Spec.Formats.h64le ((List.range 16).filterMap fun i => if i % 4 = 3 then none else some ((md5 padded).getD i 0)) := by
  rw [h64Encode_eq _ (dropEveryFourth_wf _ (hH padded).2), dropEveryFourth_eq _ (hH padded).1]

/-! ### cisco_type7 -/
theorem type7_key : TYPE7_KEY = Spec.Formats.type7Key := rfl
theorem type7_key_len : TYPE7_KEY.length = 53 := by decide
theorem type7_key_small : ∀ k ∈ TYPE7_KEY, k < 128 := by decide

theorem zipIdx_map_eq_mapIdx {α β : Type} (f : α → Nat → β) : ∀ (l : List α) (k : Nat),
    (l.zipIdx k).map (fun p => f p.1 p.2) = l.mapIdx (fun i a => f a (i + k))
  | [], _ => rfl
  | a :: rest, k => by
    simp only [List.zipIdx_cons, List.map_cons, List.mapIdx_cons, Nat.zero_add, List.cons.injEq, true_and]
    rw [zipIdx_map_eq_mapIdx f rest (k + 1)]
    congr 1
    funext i a
    congr 1
    omega

theorem type7Cipher_eq (data : Bytes) (salt : Nat) :
    type7Cipher data salt = data.mapIdx fun i c => c ^^^ Spec.Formats.type7Key.getD ((i + salt) % 53) 0 := by
  unfold type7Cipher
  simp only [type7_key_len]
  rw [zipIdx_map_eq_mapIdx (fun v idx => v ^^^ TYPE7_KEY.getD ((salt + idx) % 53) 0) data 0, type7_key]
  congr 1
  funext i c
  simp only [Nat.add_zero, Nat.add_comm]

theorem type7Cipher_wf (data : Bytes) (salt : Nat) (h : Bytes.WF data) : Bytes.WF (type7Cipher data salt) := by
  intro x hx
  unfold type7Cipher at hx
  simp only [List.mem_map] at hx
  obtain ⟨p, hp, rfl⟩ := hx
  have hv : p.1 < 256 := h _ (zipIdx_fst_mem data 0 p hp)
  have hk : TYPE7_KEY.getD ((salt + p.2) % TYPE7_KEY.length) 0 < 256 := by
    have hlt : (salt + p.2) % TYPE7_KEY.length < TYPE7_KEY.length := Nat.mod_lt _ (by decide)
    rw [List.getD_eq_getElem?_getD, List.getElem?_eq_getElem hlt, Option.getD_some]
    have := type7_key_small _ (List.getElem_mem hlt)
    omega
  exact Nat.xor_lt_two_pow (n := 8) hv hk

/-- `"%02d" % salt` for a salt below 100 -/
theorem fmt02d (salt : Nat) (h : salt < 100) : fmtZeroPad 2 (salt : Int) = [48 + salt / 10 % 10, 48 + salt % 10] := by
  have : ∀ k : Fin 100, fmtZeroPad 2 ((k.val : Nat) : Int) = [48 + k.val / 10 % 10, 48 + k.val % 10] := by decide
  exact this ⟨salt, h⟩

end Lemmas.C02CodeIter
