/-
OR-linear maps on `Nat` (`f 0 = 0`, `f (a ||| b) = f a ||| f b`) and the extension lemma:
two OR-linear maps that agree on the unit vectors `2^i`, `i < n`, agree below `2^n`.
-/
namespace OrLin

structure OrLin (f : Nat → Nat) : Prop where
  zero : f 0 = 0
  or : ∀ a b, f (a ||| b) = f a ||| f b

theorem split_high (x n : Nat) : x = (2^n * (x / 2^n)) ||| (x % 2^n) := by
  have h := Nat.two_pow_add_eq_or_of_lt (i := n) (b := x % 2^n) (Nat.mod_lt _ (Nat.two_pow_pos n)) (x / 2^n)
  rw [← h]; exact (Nat.div_add_mod x (2^n)).symm

/-- two OR-linear maps that agree on the unit vectors below n agree on everything below 2^n -/
theorem ext_units {f g : Nat → Nat} (hf : OrLin f) (hg : OrLin g) :
    ∀ n, (∀ i, i < n → f (2^i) = g (2^i)) → ∀ x, x < 2^n → f x = g x
  | 0, _, x, hx => by
    have : x = 0 := by simpa using hx
    subst this; rw [hf.zero, hg.zero]
  | n+1, hu, x, hx => by
    have ih := ext_units hf hg n (fun i hi => hu i (by omega))
    rw [split_high x n, hf.or, hg.or]
    have hlo : x % 2^n < 2^n := Nat.mod_lt _ (Nat.two_pow_pos n)
    rw [ih _ hlo]
    have hq : x / 2^n < 2 := by
      apply (Nat.div_lt_iff_lt_mul (Nat.two_pow_pos n)).2
      have : 2^(n+1) = 2 * 2^n := by rw [Nat.pow_succ]; omega
      omega
    generalize x / 2^n = q at hq
    have hcases : q = 0 ∨ q = 1 := by omega
    rcases hcases with h | h
    · rw [h]; simp [hf.zero, hg.zero]
    · rw [h]; simp [hu n (by omega)]

theorem comp {f g} (hf : OrLin f) (hg : OrLin g) : OrLin (f ∘ g) :=
  ⟨by simp [Function.comp, hg.zero, hf.zero], fun a b => by simp [Function.comp, hg.or, hf.or]⟩

/-- `comp` in eta-expanded form -/
theorem comp' {f g} (hf : OrLin f) (hg : OrLin g) : OrLin (fun x => f (g x)) := comp hf hg

theorem id : OrLin (fun x => x) := ⟨rfl, fun _ _ => rfl⟩
theorem const0 : OrLin (fun _ => 0) := ⟨rfl, fun _ _ => by simp⟩

theorem shiftRight (k : Nat) : OrLin (· >>> k) := ⟨by simp, fun a b => by simp [Nat.shiftRight_or_distrib]⟩
theorem shiftLeft (k : Nat) : OrLin (· <<< k) := ⟨by simp, fun a b => by simp [Nat.shiftLeft_or_distrib]⟩
theorem andMask (m : Nat) : OrLin (· &&& m) := ⟨by simp, fun a b => by simp [Nat.and_or_distrib_right]⟩
theorem orOf {f g} (hf : OrLin f) (hg : OrLin g) : OrLin (fun x => f x ||| g x) :=
  ⟨by simp [hf.zero, hg.zero], fun a b => by
    simp only [hf.or, hg.or]
    apply Nat.eq_of_testBit_eq; intro i; simp only [Nat.testBit_or]; cases (f a).testBit i <;> cases (f b).testBit i <;> cases (g a).testBit i <;> cases (g b).testBit i <;> rfl⟩

theorem ite (c : Prop) [Decidable c] {f g} (hf : OrLin f) (hg : OrLin g) :
    OrLin (fun x => if c then f x else g x) := by
  by_cases h : c <;> simp [h] <;> assumption

/-! pattern-friendly (eta-expanded) closure lemmas, usable with `apply` -/
theorem andMask' {g} (m : Nat) (hg : OrLin g) : OrLin (fun x => g x &&& m) := comp' (andMask m) hg
theorem shiftRight' {g} (k : Nat) (hg : OrLin g) : OrLin (fun x => g x >>> k) := comp' (shiftRight k) hg
theorem shiftLeft' {g} (k : Nat) (hg : OrLin g) : OrLin (fun x => g x <<< k) := comp' (shiftLeft k) hg

/-- boolean form of "agree on the unit vectors below n", suitable for `decide +kernel` -/
theorem ext_unitsB {f g : Nat → Nat} (hf : OrLin f) (hg : OrLin g) (n : Nat)
    (h : ((List.range n).all fun i => f (2^i) == g (2^i)) = true) :
    ∀ x, x < 2^n → f x = g x := by
  apply ext_units hf hg n
  intro i hi
  rw [List.all_eq_true] at h
  exact eq_of_beq (h i (List.mem_range.2 hi))

end OrLin

/-- discharge `OrLin (fun x => …)` goals built from `|||`, `&&&` mask, shifts and hypotheses -/
macro "orlin" : tactic =>
  `(tactic| with_reducible (repeat' (first | assumption | exact OrLin.id | exact OrLin.const0 | apply OrLin.orOf | apply OrLin.andMask' | apply OrLin.shiftRight' | apply OrLin.shiftLeft')))
