import PasslibVerif.Props.C01
import PasslibVerif.Model.VerifyFmt.Misc
import PasslibVerif.Lemmas.C01MiscDigest
import PasslibVerif.Lemmas.FormatsMisc
/-
C01 / Misc family, generic adapter facts (`FormatE` → `Hasher`) and the fshp instance: the key has the variant's size, so the record
`hash` builds is `FshpWF` and the C07 round trip applies.
-/
namespace Lemmas.C01Misc
open Py Model.Handler Model.Formats Model.Verify Model.VerifyFmt.Misc Lemmas.FormatsMisc Lemmas.C01MiscDigest Lemmas.PbkdfLen

/-- a C07 round trip (`resBind (renderE p) parseE = ok (some p)`) is a round trip of the hasher view -/
theorem parseOf_renderOf (f : FormatE) (p : Parsed) (h : resBind (f.renderE p) f.parseE = .ok (some p)) :
    parseOf f (renderOf f p) = .ok p := by
  unfold parseOf renderOf
  cases hr : f.renderE p with
  | error e => rw [hr] at h; simp [resBind] at h
  | ok s =>
    rw [hr] at h
    simp only [resBind] at h
    simp only [h]

theorem renderOf_ok (f : FormatE) (p : Parsed) (s : Str) (h : f.renderE p = .ok s) : renderOf f p = s := by
  unfold renderOf; rw [h]

/-- what `hashSecret` returns is the rendering of the settings with some checksum the digest function produced -/
theorem hashSecret_shape (h : Hasher) (s : Secret) (p : Parsed) (hs : Str) (hh : hashSecret h s p = .ok hs) :
    ∃ b c, s.toBytes = .ok b ∧ h.digest b p = .ok c ∧ hs = h.render { p with checksum := some c } := by
  unfold hashSecret at hh
  cases hv : validateSecret s with
  | error e => simp [hv] at hh
  | ok u =>
    simp only [hv] at hh
    cases hc : checksumOf h true s p with
    | error e => simp [hc] at hh
    | ok c =>
      simp only [hc, Except.ok.injEq] at hh
      unfold checksumOf at hc
      cases hb : s.toBytes with
      | error e => simp [hb] at hc
      | ok b =>
        simp only [hb] at hc
        split at hc
        · cases hc
        · split at hc
          · cases hc
          · exact ⟨b, c, rfl, hc, hh.symm⟩

/-- `hash` succeeds for a hasher without truncation policy and NUL refusal whenever the digest function does -/
theorem hashSecret_ok (h : Hasher) (s : Secret) (p : Parsed) (b : Bytes) (c : Str) (ht : h.truncateSize = none) (hn : h.rejectsNul = false)
    (hv : s.len ≤ MAX_PASSWORD_SIZE) (hb : s.toBytes = .ok b) (hd : h.digest b p = .ok c) :
    hashSecret h s p = .ok (h.render { p with checksum := some c }) := by
  unfold hashSecret validateSecret checksumOf checkTruncate checkNul
  have : ¬ s.len > MAX_PASSWORD_SIZE := by omega
  simp [this, hb, ht, hn, hd]

/-- the driver's `hashE` and the generic `hashSecret` agree whenever either succeeds with a rendering that succeeds -/
theorem hashE_ok (f : FormatE) (h : Hasher) (hr : h.render = renderOf f) (s : Secret) (p : Parsed) (hs : Str)
    (hh : hashE f h s p = .ok hs) : hashSecret h s p = .ok hs := by
  unfold hashE at hh
  unfold hashSecret
  cases hv : validateSecret s with
  | error e => simp [hv] at hh
  | ok u =>
    simp only [hv] at hh ⊢
    cases hc : checksumOf h true s p with
    | error e => simp [hc] at hh
    | ok c =>
      simp only [hc] at hh ⊢
      rw [hr, renderOf_ok f _ hs hh]

/-- … and an error of `hashE` other than the renderer's is the same error of `hashSecret` -/
theorem hashE_of_render_ok (f : FormatE) (h : Hasher) (hr : h.render = renderOf f) (s : Secret) (p : Parsed)
    (hren : ∀ c, ∃ str, f.renderE { p with checksum := some c } = .ok str) : hashE f h s p = hashSecret h s p := by
  unfold hashE hashSecret
  cases hv : validateSecret s with
  | error e => rfl
  | ok u =>
    simp only
    cases hc : checksumOf h true s p with
    | error e => rfl
    | ok c =>
      simp only
      obtain ⟨str, hstr⟩ := hren c
      rw [hr, renderOf_ok f _ str hstr, hstr]

/-! ### fshp -/
theorem fshpChecksumSize_eq (v : Nat) (hv : v < 4) : fshpChecksumSize (v : Int) = some (fshpSize v) := by
  match v, hv with
  | 0, _ => rfl
  | 1, _ => rfl
  | 2, _ => rfl
  | 3, _ => rfl

theorem fshpDigest_settings (b : Bytes) (v : Nat) (salt : Bytes) (r : Nat) (x : Option Str) :
    fshpDigest b { fshpSettings v salt r with checksum := x } = fshpKey v b salt r := by
  simp [fshpDigest, fshpSettings, extraNat, natField, List.find?]

/-- the key `_calc_checksum` returns: as many octets as the variant's digest -/
theorem fshpKey_props (v : Nat) (hv : v < 4) (b salt : Bytes) (r : Nat) (hr : 1 ≤ r) :
    ∃ c, fshpKey v b salt r = .ok c ∧ c.length = fshpSize v ∧ Bytes.WF c := by
  obtain ⟨H, hH, hok⟩ := fshpHash_ok v hv
  have hr0 : r ≠ 0 := by omega
  refine ⟨Spec.Formats.iterate H (r - 1) (H (salt ++ b)), ?_, (iterate_hashOK H _ hok _ _).1, (iterate_hashOK H _ hok _ _).2⟩
  simp [fshpKey, hH, hr0]

theorem fshpWF_of_key (v : Nat) (hv : v < 4) (salt : Bytes) (hs : Bytes.WF salt) (r : Nat) (hr : 1 ≤ r ∧ r ≤ 4294967295)
    (c : Bytes) (hl : c.length = fshpSize v) (hw : Bytes.WF c) :
    FshpWF { fshpSettings v salt r with checksum := some c } :=
  ⟨rfl, ⟨r, rfl, hr.1, hr.2⟩, ⟨v, rfl, hv, c, rfl, hw, by rw [fshpChecksumSize_eq v hv, hl]⟩, ⟨salt, rfl, hs⟩⟩

/-- the link to the Spec: base64(salt ‖ key) is `Spec.Formats.fshp` -/
theorem fshp_spec_of_key (v : Nat) (b salt : Bytes) (r : Nat) (c : Bytes) (h : fshpKey v b salt r = .ok c) :
    Spec.Formats.fshp v b salt r = some (stdB64Encode (salt ++ c)) := by
  unfold fshpKey at h
  unfold Spec.Formats.fshp
  cases hH : Spec.Formats.fshpHash v with
  | none => simp [hH] at h
  | some H =>
    simp only [hH] at h
    by_cases hr : r = 0
    · simp [hr] at h
    · simp only [hr, if_false, Except.ok.injEq] at h
      subst h
      simp [hr, stdB64Encode, Spec.Formats.b64]

end Lemmas.C01Misc
