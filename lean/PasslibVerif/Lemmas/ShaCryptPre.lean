import PasslibVerif.Lemmas.R42
/-
The digest-A / P / S preparation of `_raw_sha2_crypt` against steps 1–20 of the specification:
`repeat_string` = "one digest per block, then the first N bytes"; the `while i: … i >>= 1` loop = step 11;
both ways of computing DP agree; `[:salt_len]` = step 20 for salts not longer than a digest.
-/
namespace Lemmas.ShaCryptPre
open Py Model.ShaCrypt
open Spec.ShaCrypt (blocksOf bitsOfLength)

theorem take_flatten_replicate (src : Bytes) (q r m : Nat) (hr : r < src.length ∨ r = 0)
    (hm : q + 1 ≤ m ∨ (r = 0 ∧ q ≤ m)) :
    ((List.replicate m src).flatten).take (q * src.length + r) = (List.replicate q src).flatten ++ src.take r := by
  induction q generalizing m with
  | zero =>
    simp only [Nat.zero_mul, Nat.zero_add, List.replicate_zero, List.flatten_nil, List.nil_append]
    by_cases h0 : r = 0
    · subst h0; simp
    · have hm1 : 1 ≤ m := by omega
      obtain ⟨m', rfl⟩ : ∃ m', m = m' + 1 := ⟨m - 1, by omega⟩
      rw [List.replicate_succ, List.flatten_cons]
      exact List.take_append_of_le_length (by omega)
  | succ q ih =>
    have hm1 : 1 ≤ m := by omega
    obtain ⟨m', rfl⟩ : ∃ m', m = m' + 1 := ⟨m - 1, by omega⟩
    have e : (q + 1) * src.length + r = src.length + (q * src.length + r) := by
      rw [Nat.add_mul]; omega
    rw [e, List.replicate_succ, List.flatten_cons, List.take_length_add_append, ih m' (by omega),
      List.replicate_succ, List.flatten_cons, List.append_assoc]

/-- `repeat_string(src, n)` is the specification's "entire digest for each full block, first N bytes for the rest" -/
theorem repeatString_eq_blocksOf (src : Bytes) (n : Nat) (hL : 0 < src.length) :
    repeatString src n = blocksOf src n := by
  unfold repeatString blocksOf
  by_cases h0 : n = 0
  · subst h0; simp
  · simp only [h0, if_false]
    have hdm := Nat.div_add_mod n src.length
    have hr := Nat.mod_lt n hL
    generalize hq : n / src.length = q at *
    generalize hrr : n % src.length = r at *
    have hn : n = q * src.length + r := by rw [Nat.mul_comm]; omega
    have hmult : (q + 1 ≤ 1 + (n - 1) / src.length) ∨ (r = 0 ∧ q ≤ 1 + (n - 1) / src.length) := by
      by_cases hr0 : r = 0
      · right
        refine ⟨hr0, ?_⟩
        subst hr0
        have hq1 : 1 ≤ q := by
          rcases Nat.eq_zero_or_pos q with h | h
          · subst h; simp at hn; omega
          · exact h
        obtain ⟨q', rfl⟩ : ∃ q', q = q' + 1 := ⟨q - 1, by omega⟩
        have : n - 1 = (src.length - 1) + q' * src.length := by
          rw [hn, Nat.add_mul]; omega
        rw [this, Nat.add_mul_div_right _ _ hL, Nat.div_eq_of_lt (by omega)]
        omega
      · left
        have : n - 1 = (r - 1) + q * src.length := by omega
        rw [this, Nat.add_mul_div_right _ _ hL, Nat.div_eq_of_lt (by omega)]
        omega
    have := take_flatten_replicate src q r (1 + (n - 1) / src.length) (Or.inl hr) hmult
    rw [← hn] at this
    exact this

/-- the `while i: update(one if i & 1 else zero); i >>= 1` loop feeds exactly step 11's bytes -/
theorem bitLoop_eq (one zero : Bytes) (fuel i : Nat) (h : i ≤ fuel) :
    bitLoop one zero fuel i = bitsOfLength one zero i := by
  induction fuel generalizing i with
  | zero =>
    have : i = 0 := by omega
    subst this; simp [bitLoop, bitsOfLength]
  | succ f ih =>
    cases i with
    | zero => simp [bitLoop, bitsOfLength]
    | succ k =>
      rw [bitLoop, bitsOfLength]
      simp only [Nat.succ_ne_zero, if_false, Nat.and_one_is_mod, Nat.shiftRight_eq_div_pow, Nat.pow_one]
      rw [ih ((k + 1) / 2) (by omega)]
      have : ((k + 1) % 2 ≠ 0) ↔ ((k + 1) % 2 = 1) := by omega
      simp only [this]

theorem feedLoop_eq (pwd : Bytes) (k : Nat) (acc : Bytes) :
    feedLoop pwd k acc = acc ++ (List.replicate k pwd).flatten := by
  induction k generalizing acc with
  | zero => simp [feedLoop]
  | succ k ih => rw [feedLoop, ih, List.replicate_succ, List.flatten_cons, List.append_assoc]

/-- the incremental (≥ 96 bytes) way of computing DP feeds the same bytes as `pwd * pwd_len` -/
theorem dp_paths_agree (pwd : Bytes) (h : 0 < pwd.length) :
    feedLoop pwd (pwd.length - 1) pwd = (List.replicate pwd.length pwd).flatten := by
  rw [feedLoop_eq]
  obtain ⟨n, hn⟩ : ∃ n, pwd.length = n + 1 := ⟨pwd.length - 1, by omega⟩
  rw [hn, List.replicate_succ, List.flatten_cons]; rfl

/-- `digest[:n]` is step 20's sequence when the salt is not longer than a digest -/
theorem take_eq_blocksOf (d : Bytes) (n : Nat) (hL : 0 < d.length) (hn : n ≤ d.length) : d.take n = blocksOf d n := by
  unfold blocksOf
  by_cases hlt : n < d.length
  · simp [Nat.div_eq_of_lt hlt, Nat.mod_eq_of_lt hlt]
  · have : n = d.length := by omega
    subst this
    simp [Nat.div_self hL]

/-! ### md5-crypt -/

theorem blocksOf_step (d : Bytes) (n : Nat) (hL : 0 < d.length) (hn : d.length ≤ n) :
    blocksOf d n = d ++ blocksOf d (n - d.length) := by
  unfold blocksOf
  have h1 : n / d.length = (n - d.length) / d.length + 1 := by
    conv => lhs; rw [show n = (n - d.length) + d.length by omega]
    rw [Nat.add_div_right _ hL]
  have h2 : n % d.length = (n - d.length) % d.length := by
    conv => lhs; rw [show n = (n - d.length) + d.length by omega]
    rw [Nat.add_mod_right]
  rw [h1, h2, List.replicate_succ, List.flatten_cons, List.append_assoc]

/-- PHK's `for (pl = strlen(pw); pl > 0; pl -= 16) update(final, min(pl, 16))` feeds the same bytes as
    `repeat_string(final, len(pw))` -/
theorem finalBlocks_eq (fin : Bytes) (hfin : fin.length = 16) (fuel pl : Nat) (h : pl ≤ fuel) :
    Spec.Md5Crypt.finalBlocks fin fuel pl = blocksOf fin pl := by
  induction fuel generalizing pl with
  | zero =>
    have : pl = 0 := by omega
    subst this; simp [Spec.Md5Crypt.finalBlocks, blocksOf]
  | succ f ih =>
    rw [Spec.Md5Crypt.finalBlocks]
    by_cases h0 : pl = 0
    · subst h0; simp [blocksOf]
    · simp only [h0, if_false]
      by_cases hle : pl ≤ 16
      · rw [Nat.min_eq_left hle, ih (pl - 16) (by omega), show pl - 16 = 0 by omega]
        rw [take_eq_blocksOf fin pl (by omega) (by omega)]
        simp [blocksOf]
      · have hge : 16 ≤ pl := by omega
        rw [Nat.min_eq_right hge, ih (pl - 16) (by omega), blocksOf_step fin pl (by omega) (by omega), hfin]
        congr 1
        rw [← hfin]; exact List.take_length

theorem weirdBits_eq (pw : Bytes) (n : Nat) : Spec.Md5Crypt.weirdBits pw n = bitsOfLength [0] (pw.take 1) n := by
  induction n using Nat.strongRecOn with
  | _ n ih =>
    cases n with
    | zero => simp [Spec.Md5Crypt.weirdBits, bitsOfLength]
    | succ k => rw [Spec.Md5Crypt.weirdBits, bitsOfLength, ih ((k + 1) / 2) (by omega)]

theorem md5_loop_eq (H : Bytes → Bytes) (pw salt : Bytes) (n i : Nat) (C : Bytes) :
    Spec.Md5Crypt.loop H pw salt n i C = Spec.ShaCrypt.loop H pw salt n i C := by
  induction n generalizing i C with
  | zero => rfl
  | succ n ih => simp only [Spec.Md5Crypt.loop, Spec.ShaCrypt.loop, ih]; rfl

end Lemmas.ShaCryptPre
