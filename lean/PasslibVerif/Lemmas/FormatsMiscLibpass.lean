import PasslibVerif.Lemmas.FormatsMiscBase
/-
R1 for the libpass inspection helpers:  inspect(info.as_str()) = info  for well-formed `info`.
-/
set_option linter.unusedSimpArgs false
namespace Lemmas.FormatsMisc
open Py Model.Handler Model.Formats Lemmas.Handler

/-! ### sha_crypt -/
structure LpShaWF (ident : Str) (n : Nat) (p : Parsed) : Prop where
  ident : p.ident = ident
  extra : p.extra = []
  rounds : p.rounds = none ∨ ∃ r : Nat, p.rounds = some (r : Int)
  salt : ∃ s, p.salt = some s ∧ 1 ≤ s.length ∧ s.length ≤ 16 ∧ s.all isDot = true ∧
    (p.rounds = none → (ofString "rounds=").isPrefixOf s = false)
  hash : ∃ c, p.checksum = some c ∧ c.length = n ∧ c.all isDot = true

theorem lpShaTail_ok (n : Nat) (salt hash : Str) (h1 : 1 ≤ salt.length) (h2 : salt.length ≤ 16) (hs : salt.all isDot = true)
    (hl : hash.length = n) (hh : hash.all isDot = true) : lpShaTail n (salt ++ DOLLAR :: hash) = some (salt, hash) := by
  unfold lpShaTail
  have hlen : (salt ++ DOLLAR :: hash).length = salt.length + 1 + n := by simp [hl]; omega
  have hk : (salt ++ DOLLAR :: hash).length - n - 1 = salt.length := by omega
  have hlt : ¬ ((salt ++ DOLLAR :: hash).length < n + 2) := by omega
  rw [if_neg hlt]
  simp only [hk]
  have e1 : (salt ++ DOLLAR :: hash).take salt.length = salt := by simp
  have e2 : (salt ++ DOLLAR :: hash).drop salt.length = DOLLAR :: hash := by simp
  have e3 : (salt ++ DOLLAR :: hash).drop (salt.length + 1) = hash := by
    rw [← List.drop_drop, e2]; rfl
  rw [e1, e2, e3]
  simp [hs, hh, h2]

theorem rounds_lit : ofString "$rounds=" = DOLLAR :: ofString "rounds=" := by decide

theorem lp_sha_roundtrip (d : Nat) (n : Nat) (p : Parsed) (h : LpShaWF [DOLLAR, d, DOLLAR] n p) :
    resBind (lpShaRender p) (lpShaParse [DOLLAR, d, DOLLAR] n) = .ok (some p) := by
  obtain ⟨hi, he, hr, ⟨s, hs, hs1, hs2, hsd, hnr⟩, ⟨c, hc, hcl, hcd⟩⟩ := h
  obtain ⟨pi, pr, ps, pc, pe⟩ := p
  simp only at hi he hr hs hc hnr
  subst hi he hs hc
  have htail := lpShaTail_ok n s c hs1 hs2 hsd hcl hcd
  have htake : ([DOLLAR, d, DOLLAR] : Str).take 2 = [DOLLAR, d] := rfl
  rcases hr with hr | ⟨r, hr⟩
  · subst hr
    have hrender : lpShaRender ⟨[DOLLAR, d, DOLLAR], none, some s, some c, []⟩ = .ok ([DOLLAR, d] ++ (DOLLAR :: (s ++ DOLLAR :: c))) := by
      simp [lpShaRender]
    rw [hrender]
    simp only [resBind, lpShaParse, htake, lit_append]
    have hno : lpShaWithRounds n (DOLLAR :: (s ++ DOLLAR :: c)) = none := by
      unfold lpShaWithRounds
      have : (ofString "$rounds=").isPrefixOf (DOLLAR :: (s ++ DOLLAR :: c)) = false := by
        rw [rounds_lit]
        simp only [List.isPrefixOf, BEq.rfl, Bool.true_and]
        rw [isPrefixOf_append_sep DOLLAR _ s c (by decide)]
        exact hnr rfl
      simp only [lit, stripPrefix_none this, Option.bind_none]
    rw [hno]
    have hl : lit [DOLLAR] (DOLLAR :: (s ++ DOLLAR :: c)) = some (s ++ DOLLAR :: c) := lit_append [DOLLAR] _
    simp only [hl, Option.bind_some, htail]
  · subst hr
    have hrender : lpShaRender ⟨[DOLLAR, d, DOLLAR], some (r : Int), some s, some c, []⟩ =
        .ok ([DOLLAR, d] ++ (ofString "$rounds=" ++ (fmtDec (r : Int) ++ DOLLAR :: (s ++ DOLLAR :: c)))) := by
      simp [lpShaRender, rounds_lit]
    rw [hrender]
    simp only [resBind, lpShaParse, htake, lit_append]
    have hsc := scan_fmtDec r DOLLAR (s ++ DOLLAR :: c) not_udigit_dollar
    have hw : lpShaWithRounds n (ofString "$rounds=" ++ (fmtDec (r : Int) ++ DOLLAR :: (s ++ DOLLAR :: c))) = some (fmtDec (r : Int), s, c) := by
      unfold lpShaWithRounds
      simp only [lit_append, Option.bind_some, hsc.1, hsc.2, fmtDec_ne_nil r, Bool.false_eq_true, if_false]
      have hl : lit [DOLLAR] (DOLLAR :: (s ++ DOLLAR :: c)) = some (s ++ DOLLAR :: c) := lit_append [DOLLAR] _
      simp only [hl, Option.bind_some, htail, Option.map_some]
    rw [hw]
    simp only [pyInt_fmtDec]
    rfl

/-! ### bcrypt -/
structure LpBcryptWF (p : Parsed) : Prop where
  ident : p.ident ∈ lpBcryptPrefixes
  extra : p.extra = []
  rounds : ∃ r : Nat, p.rounds = some (r : Int)
  salt : ∃ s, p.salt = some s ∧ s.length = 22 ∧ s.all isDot = true
  hash : ∃ c, p.checksum = some c ∧ c.length = 31 ∧ c.all isDot = true

/-- `f"{rounds:02}"` is a run of ASCII digits that `int()` reads back -/
theorem fmtZeroPad2 (r : Nat) : fmtZeroPad 2 (r : Int) = (if r < 10 then [48] else []) ++ fmtDec (r : Int) := by
  have hn : ((r : Int) ≥ 0) := Int.natCast_nonneg r
  unfold fmtZeroPad fmtDec
  simp only [hn, if_true, Int.toNat_natCast, decDigitsPadded, decDigits]
  by_cases h10 : r < 10
  · have hnd : numDigits r = 1 := by
      unfold numDigits
      cases r with
      | zero => rfl
      | succ k => unfold numDigitsFuel; simp [h10]
    simp only [hnd, h10, if_true]
    have : max 2 1 = 2 := rfl
    rw [this]
    simp only [Digits.toDigits, List.reverse_cons, List.reverse_nil, List.nil_append, List.map_cons, List.map_nil, List.cons_append]
    have : r / 10 % 10 = 0 := by omega
    simp [this, digitChar]
  · have hnd : 2 ≤ numDigits r := by
      unfold numDigits
      cases r with
      | zero => omega
      | succ k =>
        unfold numDigitsFuel
        simp only [h10, if_false]
        have := (numDigitsFuel_spec k ((k + 1) / 10) (by omega)).1
        omega
    have : max 2 (numDigits r) = numDigits r := by omega
    simp [this, h10]

theorem pyInt_zeroPad2 (r : Nat) : pyInt (fmtZeroPad 2 (r : Int)) = .ok (r : Int) := by
  rw [fmtZeroPad2]
  by_cases h10 : r < 10
  · simp only [h10, if_true]
    -- "0d": leading zero does not change the value
    have : r ∈ List.range 10 := List.mem_range.2 h10
    have hall : ((List.range 10).all fun r => pyInt ([48] ++ fmtDec (r : Int)) == .ok (r : Int)) = true := by decide +kernel
    have := List.all_eq_true.1 hall r this
    simpa using this
  · simp only [h10, if_false, List.nil_append, pyInt_fmtDec]

theorem fmtZeroPad2_udigits (r : Nat) : ∀ c ∈ fmtZeroPad 2 (r : Int), isUDigit c = true := by
  rw [fmtZeroPad2]
  intro c hc
  rcases List.mem_append.1 hc with h | h
  · by_cases h10 : r < 10
    · simp only [h10, if_true, List.mem_singleton] at h; subst h; decide +kernel
    · simp [h10] at h
  · exact fmtDec_udigits r c h

theorem fmtZeroPad2_ne_nil (r : Nat) : (fmtZeroPad 2 (r : Int)).isEmpty = false := by
  rw [fmtZeroPad2]
  have := fmtDec_ne_nil r
  cases hf : fmtDec (r : Int) with
  | nil => rw [hf] at this; simp at this
  | cons a b => by_cases h10 : r < 10 <;> simp [h10]

theorem lp_bcrypt_roundtrip (p : Parsed) (h : LpBcryptWF p) : resBind (lpBcryptRender p) lpBcryptParse = .ok (some p) := by
  obtain ⟨hi, he, ⟨r, hr⟩, ⟨s, hs, hsl, hsd⟩, ⟨c, hc, hcl, hcd⟩⟩ := h
  obtain ⟨pi, pr, ps, pc, pe⟩ := p
  simp only at hi he hr hs hc
  subst he hr hs hc
  have hpl : pi.length = 2 := by
    simp only [lpBcryptPrefixes, List.mem_cons, List.not_mem_nil, or_false] at hi
    rcases hi with h | h | h <;> subst h <;> rfl
  simp only [lpBcryptRender, resBind, Option.getD_some]
  unfold lpBcryptParse
  have hl0 : lit [DOLLAR] (DOLLAR :: (pi ++ DOLLAR :: (fmtZeroPad 2 (r : Int) ++ DOLLAR :: (s ++ c)))) =
      some (pi ++ DOLLAR :: (fmtZeroPad 2 (r : Int) ++ DOLLAR :: (s ++ c))) := lit_append [DOLLAR] _
  simp only [hl0]
  have htk : (pi ++ DOLLAR :: (fmtZeroPad 2 (r : Int) ++ DOLLAR :: (s ++ c))).take 2 = pi := by
    rw [← hpl]; simp
  have hdr : (pi ++ DOLLAR :: (fmtZeroPad 2 (r : Int) ++ DOLLAR :: (s ++ c))).drop 2 = DOLLAR :: (fmtZeroPad 2 (r : Int) ++ DOLLAR :: (s ++ c)) := by
    rw [← hpl]; simp
  have hcont : lpBcryptPrefixes.contains pi = true := by simpa using hi
  simp only [htk, hdr, hcont, Bool.not_true, Bool.false_eq_true, if_false]
  have hl1 : lit [DOLLAR] (DOLLAR :: (fmtZeroPad 2 (r : Int) ++ DOLLAR :: (s ++ c))) = some (fmtZeroPad 2 (r : Int) ++ DOLLAR :: (s ++ c)) :=
    lit_append [DOLLAR] _
  simp only [hl1]
  have hsc := takeWhile_stop isUDigit (fmtZeroPad 2 (r : Int)) DOLLAR (s ++ c) (fmtZeroPad2_udigits r) not_udigit_dollar
  simp only [hsc.1, hsc.2, fmtZeroPad2_ne_nil r, Bool.false_eq_true, if_false]
  have hl2 : lit [DOLLAR] (DOLLAR :: (s ++ c)) = some (s ++ c) := lit_append [DOLLAR] _
  simp only [hl2]
  have e1 : (s ++ c).take 22 = s := by rw [← hsl]; simp
  have e2 : (s ++ c).drop 22 = c := by rw [← hsl]; simp
  have e3 : c.take 31 = c := by rw [← hcl]; simp
  have e4 : (s ++ c).drop 53 = [] := by
    apply List.drop_eq_nil_of_le; simp [hsl, hcl]
  simp only [e1, e2, e3, e4, hsl, hcl, hsd, hcd, atEnd, pyInt_zeroPad2]
  rfl

/-! ### pbkdf2 -/
structure LpPbkdf2WF (digestName : Str) (p : Parsed) : Prop where
  ident : p.ident = DOLLAR :: (digestName ++ [DOLLAR])
  extra : p.extra = []
  rounds : ∃ r : Nat, p.rounds = some (r : Int)
  salt : ∃ s, p.salt = some s ∧ s ≠ [] ∧ s.all isDot = true
  hash : ∃ c, p.checksum = some c ∧ c ≠ [] ∧ c.all isDot = true ∧ DOLLAR ∉ c

theorem lpSplit_ok (salt hash : Str) (hs : salt ≠ []) (hsd : salt.all isDot = true) (hh : hash ≠ []) (hhd : hash.all isDot = true)
    (hd : DOLLAR ∉ hash) : lpSplitSaltHash (salt ++ DOLLAR :: hash) = some (salt, hash) := by
  unfold lpSplitSaltHash
  have hall : (salt ++ DOLLAR :: hash).all isDot = true := by
    simp only [List.all_append, List.all_cons, hsd, hhd, Bool.and_true, Bool.true_and]; decide
  simp only [hall, Bool.not_true, Bool.false_eq_true, if_false]
  cases hr : hash.reverse with
  | nil => exact absurd (List.reverse_eq_nil_iff.1 hr) hh
  | cons last h0r =>
    have hhash : hash = h0r.reverse ++ [last] := by
      have := congrArg List.reverse hr
      simpa using this
    have hrev : (salt ++ DOLLAR :: hash).reverse = last :: (h0r ++ DOLLAR :: salt.reverse) := by
      simp [hr]
    rw [hrev]
    have hnd : ∀ x ∈ h0r, (decide (x ≠ DOLLAR)) = true := by
      intro x hx
      have : x ∈ hash := by rw [hhash]; simp [hx]
      have : x ≠ DOLLAR := fun e => hd (e ▸ this)
      simpa using this
    have hsc := takeWhile_stop (fun x => decide (x ≠ DOLLAR)) h0r DOLLAR salt.reverse hnd (by simp)
    simp only [hsc.1, hsc.2]
    have hne : salt.reverse.isEmpty = false := by
      cases hsr : salt.reverse with
      | nil => exact absurd (List.reverse_eq_nil_iff.1 hsr) hs
      | cons _ _ => rfl
    simp only [hne, Bool.false_eq_true, if_false, List.reverse_reverse, hhash]

theorem not_ldd_dollar : isLowerDigitDash DOLLAR = false := by decide

theorem lp_pbkdf2_roundtrip (dn : Str) (hdn : dn ≠ []) (hdc : ∀ x ∈ dn, isLowerDigitDash x = true) (p : Parsed)
    (h : LpPbkdf2WF dn p) : resBind (lpPbkdf2Render p) (lpPbkdf2Parse dn) = .ok (some p) := by
  obtain ⟨hi, he, ⟨r, hr⟩, ⟨s, hs, hsn, hsd⟩, ⟨c, hc, hcn, hcd, hcdl⟩⟩ := h
  obtain ⟨pi, pr, ps, pc, pe⟩ := p
  simp only at hi he hr hs hc
  subst hi he hr hs hc
  have hrender : lpPbkdf2Render ⟨DOLLAR :: (dn ++ [DOLLAR]), some (r : Int), some s, some c, []⟩ =
      .ok ([DOLLAR] ++ (dn ++ DOLLAR :: (fmtDec (r : Int) ++ DOLLAR :: (s ++ DOLLAR :: c)))) := by
    simp [lpPbkdf2Render]
  rw [hrender]
  simp only [resBind]
  unfold lpPbkdf2Parse
  simp only [lit_append]
  have h1 := takeWhile_stop isLowerDigitDash dn DOLLAR (fmtDec (r : Int) ++ DOLLAR :: (s ++ DOLLAR :: c)) hdc not_ldd_dollar
  have hdne : dn.isEmpty = false := by cases dn <;> simp_all
  simp only [h1.1, h1.2, hdne, Bool.false_eq_true, if_false]
  have hl1 : lit [DOLLAR] (DOLLAR :: (fmtDec (r : Int) ++ DOLLAR :: (s ++ DOLLAR :: c))) = some (fmtDec (r : Int) ++ DOLLAR :: (s ++ DOLLAR :: c)) :=
    lit_append [DOLLAR] _
  simp only [hl1]
  have h2 := scan_fmtDec r DOLLAR (s ++ DOLLAR :: c) not_udigit_dollar
  simp only [h2.1, h2.2, fmtDec_ne_nil r, Bool.false_eq_true, if_false]
  have hl2 : lit [DOLLAR] (DOLLAR :: (s ++ DOLLAR :: c)) = some (s ++ DOLLAR :: c) := lit_append [DOLLAR] _
  simp only [hl2, Option.bind_some, lpSplit_ok s c hsn hsd hcn hcd hcdl, ne_eq, not_true_eq_false, if_false, pyInt_fmtDec]
  rfl

theorem lp_pbkdf2_sha256_roundtrip (p : Parsed) (h : LpPbkdf2WF (ofString "pbkdf2-sha256") p) :
    resBind (lp_pbkdf2_sha256.renderE p) lp_pbkdf2_sha256.parseE = .ok (some p) :=
  lp_pbkdf2_roundtrip _ (by decide) (by decide) p h

theorem lp_pbkdf2_sha512_roundtrip (p : Parsed) (h : LpPbkdf2WF (ofString "pbkdf2-sha512") p) :
    resBind (lp_pbkdf2_sha512.renderE p) lp_pbkdf2_sha512.parseE = .ok (some p) :=
  lp_pbkdf2_roundtrip _ (by decide) (by decide) p h

/-! ### PHC records -/
def PhcText (lo hi : Nat) (s : Str) : Prop := lo ≤ s.length ∧ s.length ≤ hi ∧ s.all isPhcValue = true

structure LpPhcArgon2WF (p : Parsed) : Prop where
  ident : p.ident ∈ argon2Phc.ids
  rounds : p.rounds = none
  extra : ∃ m t pp : Nat, p.extra = [("memory_cost", fmtDec (m : Int)), ("time_cost", fmtDec (t : Int)), ("parallelism_cost", fmtDec (pp : Int))]
  salt : ∃ s, p.salt = some s ∧ PhcText 11 64 s
  hash : ∃ c, p.checksum = some c ∧ PhcText 16 86 c

theorem phcValue_not (c : Nat) (h : isPhcValue c = true) : c ≠ DOLLAR ∧ c ≠ 44 ∧ c ≠ 61 := by
  refine ⟨?_, ?_, ?_⟩ <;> (intro e; subst e; revert h; decide)

theorem phcValue_digit (c : Nat) (h : 48 ≤ c ∧ c ≤ 57) : isPhcValue c = true := by
  simp [isPhcValue, isAlnum, isADigit, h.1, h.2]

theorem fmtDec_phc (n : Nat) : (fmtDec (n : Int)).all isPhcValue = true :=
  all_of_forall fun c hc => phcValue_digit c (fmtDec_digits n c hc)

theorem not_mem_of_phc (s : Str) (h : s.all isPhcValue = true) (c : Nat) (hc : isPhcValue c = false) : c ∉ s := by
  intro hm
  have := forall_of_all h c hm
  rw [hc] at this; cases this

/-- one rendered `name=value` item parses back -/
theorem phcItem_ok (n v : Str) (hn : phcNameOk n = true) (hn61 : 61 ∉ n) (hv : v.all isPhcValue = true) (hvne : v.isEmpty = false) :
    phcItem (n ++ 61 :: v) = some (n, v) := by
  unfold phcItem
  have hv61 : 61 ∉ v := not_mem_of_phc v hv 61 (by decide)
  rw [splitChar_append_sep 61 n v hn61, splitChar_no_sep 61 v hv61]
  simp [hn, hv, hvne]

/-- three rendered items -/
theorem phcParams3 (n1 n2 n3 v1 v2 v3 : Str)
    (h1 : phcNameOk n1 = true) (h2 : phcNameOk n2 = true) (h3 : phcNameOk n3 = true)
    (g1 : 61 ∉ n1 ∧ 44 ∉ n1) (g2 : 61 ∉ n2 ∧ 44 ∉ n2) (g3 : 61 ∉ n3 ∧ 44 ∉ n3)
    (hv1 : v1.all isPhcValue = true ∧ v1.isEmpty = false) (hv2 : v2.all isPhcValue = true ∧ v2.isEmpty = false)
    (hv3 : v3.all isPhcValue = true ∧ v3.isEmpty = false) :
    phcParams (joinChar 44 [n1 ++ 61 :: v1, n2 ++ 61 :: v2, n3 ++ 61 :: v3]) = some [(n1, v1), (n2, v2), (n3, v3)] := by
  unfold phcParams
  have c1 : 44 ∉ n1 ++ 61 :: v1 := by
    intro hm; rcases List.mem_append.1 hm with h | h
    · exact g1.2 h
    · rcases List.mem_cons.1 h with h | h
      · cases h
      · exact not_mem_of_phc v1 hv1.1 44 (by decide) h
  have c2 : 44 ∉ n2 ++ 61 :: v2 := by
    intro hm; rcases List.mem_append.1 hm with h | h
    · exact g2.2 h
    · rcases List.mem_cons.1 h with h | h
      · cases h
      · exact not_mem_of_phc v2 hv2.1 44 (by decide) h
  have c3 : 44 ∉ n3 ++ 61 :: v3 := by
    intro hm; rcases List.mem_append.1 hm with h | h
    · exact g3.2 h
    · rcases List.mem_cons.1 h with h | h
      · cases h
      · exact not_mem_of_phc v3 hv3.1 44 (by decide) h
  rw [split_join 44 _ (by simp) (by
    intro f hf
    simp only [List.mem_cons, List.not_mem_nil, or_false] at hf
    rcases hf with h | h | h <;> subst h <;> assumption)]
  simp [List.mapM_cons, phcItem_ok n1 v1 h1 g1.1 hv1.1 hv1.2, phcItem_ok n2 v2 h2 g2.1 hv2.1 hv2.2, phcItem_ok n3 v3 h3 g3.1 hv3.1 hv3.2]

theorem ldd_not_dollar (s : Str) (h : s.all isLowerDigitDash = true) : DOLLAR ∉ s := by
  intro hm
  have := forall_of_all h DOLLAR hm
  revert this; decide

theorem lp_phc_argon2_roundtrip (p : Parsed) (h : LpPhcArgon2WF p) :
    resBind (lpPhcRender argon2Phc p) (lpPhcParse argon2Phc) = .ok (some p) := by
  obtain ⟨hi, hr, ⟨m, t, pp, he⟩, ⟨s, hs, hs1, hs2, hs3⟩, ⟨c, hc, hc1, hc2, hc3⟩⟩ := h
  obtain ⟨pi, pr, ps, pc, pe⟩ := p
  simp only at hi hr he hs hc
  subst hr he hs hc
  have hid : phcNameOk pi = true ∧ DOLLAR ∉ pi := by
    simp only [argon2Phc, List.mem_cons, List.not_mem_nil, or_false] at hi
    rcases hi with h | h | h <;> subst h <;> exact ⟨by decide, by decide⟩
  have hcont : argon2Phc.ids.contains pi = true := by simpa using hi
  have hsd : DOLLAR ∉ s := not_mem_of_phc s hs3 DOLLAR (by decide)
  have hcd : DOLLAR ∉ c := not_mem_of_phc c hc3 DOLLAR (by decide)
  -- the rendered string as a `$`-join of separator-free fields
  let params := joinChar 44 [ofString "m" ++ 61 :: fmtDec (m : Int), ofString "t" ++ 61 :: fmtDec (t : Int), ofString "p" ++ 61 :: fmtDec (pp : Int)]
  have hrender : lpPhcRender argon2Phc ⟨pi, none, some s, some c,
      [("memory_cost", fmtDec (m : Int)), ("time_cost", fmtDec (t : Int)), ("parallelism_cost", fmtDec (pp : Int))]⟩ =
      .ok (joinChar DOLLAR [[], pi, ofString "v=19", params, s, c]) := by
    simp only [lpPhcRender, argon2Phc, List.zip, List.zipWith, List.map, Option.getD_some, params]
    have : fmtDec (19 : Int) = ofString "19" := by decide +kernel
    simp [joinChar, this, ofString]
  have hpar : phcParams params = some [(ofString "m", fmtDec (m : Int)), (ofString "t", fmtDec (t : Int)), (ofString "p", fmtDec (pp : Int))] :=
    phcParams3 _ _ _ _ _ _ (by decide) (by decide) (by decide) (by decide) (by decide) (by decide)
      ⟨fmtDec_phc m, fmtDec_ne_nil m⟩ ⟨fmtDec_phc t, fmtDec_ne_nil t⟩ ⟨fmtDec_phc pp, fmtDec_ne_nil pp⟩
  have hpd : DOLLAR ∉ params := by
    apply not_mem_joinChar DOLLAR 44 (by decide)
    intro f hf
    simp only [List.mem_cons, List.not_mem_nil, or_false] at hf
    rcases hf with h | h | h <;> subst h <;>
      exact not_mem_kv _ _ _ _ (by decide) (by decide) (not_mem_fmtDec DOLLAR (by decide) _)
  rw [hrender]
  simp only [resBind]
  unfold lpPhcParse
  rw [split_join DOLLAR _ (by simp) (by
    intro f hf
    simp only [List.mem_cons, List.not_mem_nil, or_false] at hf
    rcases hf with h | h | h | h | h | h <;> subst h
    · simp
    · exact hid.2
    · decide
    · exact hpd
    · exact hsd
    · exact hcd)]
  have hv : phcVersion (ofString "v=19") = some (ofString "19") := by decide
  have h19 : pyInt (ofString "19") = .ok 19 := by decide +kernel
  simp only [List.isEmpty_nil, Bool.not_true, Bool.false_eq_true, if_false, hv, hid.1, hpar]
  have hlen : (11 ≤ s.length && s.length ≤ 64 && s.all isPhcValue && 16 ≤ c.length && c.length ≤ 86 && c.all isPhcValue) = true := by
    simp [hs1, hs2, hs3, hc1, hc2, hc3]
  simp only [hlen, Bool.not_true, Bool.false_eq_true, if_false, h19, resBind, Except.map, hcont]
  have hver : (argon2Phc.version == some (19 : Int)) = true := by decide
  simp only [hver, Bool.and_true, Bool.not_true, Bool.false_eq_true, if_false]
  simp [argon2Phc, phcConvert, dictGet, resBind, pyInt_fmtDec, Except.map, ofString]

structure LpPhcBcryptSha256WF (p : Parsed) : Prop where
  ident : p.ident = ofString "bcrypt-sha256"
  rounds : p.rounds = none
  extra : ∃ (v r : Nat) (t : Str), t.all isPhcValue = true ∧ t.isEmpty = false ∧
    p.extra = [("version_", fmtDec (v : Int)), ("type", t), ("rounds", fmtDec (r : Int))]
  salt : ∃ s, p.salt = some s ∧ PhcText 11 64 s
  hash : ∃ c, p.checksum = some c ∧ PhcText 16 86 c

theorem lp_phc_bcrypt_sha256_roundtrip (p : Parsed) (h : LpPhcBcryptSha256WF p) :
    resBind (lpPhcRender bcryptSha256Phc p) (lpPhcParse bcryptSha256Phc) = .ok (some p) := by
  obtain ⟨hi, hr, ⟨v, r, t, ht, htne, he⟩, ⟨s, hs, hs1, hs2, hs3⟩, ⟨c, hc, hc1, hc2, hc3⟩⟩ := h
  obtain ⟨pi, pr, ps, pc, pe⟩ := p
  simp only at hi hr he hs hc
  subst hi hr he hs hc
  have hsd : DOLLAR ∉ s := not_mem_of_phc s hs3 DOLLAR (by decide)
  have hcd : DOLLAR ∉ c := not_mem_of_phc c hc3 DOLLAR (by decide)
  let params := joinChar 44 [ofString "v" ++ 61 :: fmtDec (v : Int), ofString "t" ++ 61 :: t, ofString "r" ++ 61 :: fmtDec (r : Int)]
  have hrender : lpPhcRender bcryptSha256Phc ⟨ofString "bcrypt-sha256", none, some s, some c,
      [("version_", fmtDec (v : Int)), ("type", t), ("rounds", fmtDec (r : Int))]⟩ =
      .ok (joinChar DOLLAR [[], ofString "bcrypt-sha256", params, s, c]) := by
    simp only [lpPhcRender, bcryptSha256Phc, List.zip, List.zipWith, List.map, Option.getD_some, params]
    simp [joinChar, ofString]
  have hpar : phcParams params = some [(ofString "v", fmtDec (v : Int)), (ofString "t", t), (ofString "r", fmtDec (r : Int))] :=
    phcParams3 _ _ _ _ _ _ (by decide) (by decide) (by decide) (by decide) (by decide) (by decide)
      ⟨fmtDec_phc v, fmtDec_ne_nil v⟩ ⟨ht, htne⟩ ⟨fmtDec_phc r, fmtDec_ne_nil r⟩
  have hpd : DOLLAR ∉ params := by
    apply not_mem_joinChar DOLLAR 44 (by decide)
    intro f hf
    simp only [List.mem_cons, List.not_mem_nil, or_false] at hf
    rcases hf with h | h | h <;> subst h
    · exact not_mem_kv _ _ _ _ (by decide) (by decide) (not_mem_fmtDec DOLLAR (by decide) _)
    · exact not_mem_kv _ _ _ _ (by decide) (by decide) (not_mem_of_phc t ht DOLLAR (by decide))
    · exact not_mem_kv _ _ _ _ (by decide) (by decide) (not_mem_fmtDec DOLLAR (by decide) _)
  rw [hrender]
  simp only [resBind]
  unfold lpPhcParse
  rw [split_join DOLLAR _ (by simp) (by
    intro f hf
    simp only [List.mem_cons, List.not_mem_nil, or_false] at hf
    rcases hf with h | h | h | h | h <;> subst h
    · simp
    · decide
    · exact hpd
    · exact hsd
    · exact hcd)]
  have hid : phcNameOk (ofString "bcrypt-sha256") = true := by decide
  simp only [List.isEmpty_nil, Bool.not_true, Bool.false_eq_true, if_false, hid, hpar]
  have hlen : (11 ≤ s.length && s.length ≤ 64 && s.all isPhcValue && 16 ≤ c.length && c.length ≤ 86 && c.all isPhcValue) = true := by
    simp [hs1, hs2, hs3, hc1, hc2, hc3]
  simp only [hlen, Bool.not_true, Bool.false_eq_true, if_false, resBind]
  have hsel : (bcryptSha256Phc.ids.contains (ofString "bcrypt-sha256") && bcryptSha256Phc.version == (none : Option Int)) = true := by decide
  simp only [hsel, Bool.not_true, Bool.false_eq_true, if_false]
  simp [bcryptSha256Phc, phcConvert, dictGet, resBind, pyInt_fmtDec, Except.map, ofString]

end Lemmas.FormatsMisc
