import PasslibVerif.Lemmas.SaslprepTables
/-
Logic of `Model.Saslprep.saslprep` and its relation to `Spec.Saslprep.saslprep` (RFC 4013 over RFC 3454).
-/
namespace Lemmas.Saslprep
open Model.Saslprep Py
open Gen.Saslprep (a1 b1 c12 c21_c22 c3 c4 c5 c6 c7 c8 c9 d1 d2)

/-- B.1 or C.1.2: what the mapping stage removes / replaces and what the two `assert`s look for -/
def dirty (c : Nat) : Bool := inTable b1 c || inTable c12 c

/-- the fixed part of `forbidden_` (every entry but the bidi one) -/
def listed (c : Nat) : Bool :=
  inTable a1 c || inTable c21_c22 c || inTable c3 c || inTable c4 c || inTable c5 c || inTable c6 c ||
  inTable c7 c || inTable c8 c || inTable c9 c

/-- a text without B.1 / C.1.2 characters -/
def Clean (x : List Nat) : Prop := ∀ c ∈ x, dirty c = false

instance (x : List Nat) : Decidable (Clean x) := by unfold Clean; infer_instance

/-- the assumption on the external normalisation at one input: a clean text stays clean -/
def NfkcClean (nfkc : List Nat → List Nat) (x : List Nat) : Prop := Clean x → Clean (nfkc x)

/-! ### mapping stage -/

theorem mapStage_nil : mapStage [] = [] := rfl

theorem mapStage_cons (c : Nat) (s : List Nat) :
    mapStage (c :: s) = (if inTable b1 c then [] else if inTable c12 c then [0x20] else [c]) ++ mapStage s := by
  simp only [mapStage, tableOf_drop, tableOf_space, replacement_eq, List.filter_cons]
  cases h1 : inTable b1 c <;> cases h2 : inTable c12 c <;> simp [h1, h2]

theorem mapStage_eq_spec (s : List Nat) : mapStage s = s.flatMap (Spec.Saslprep.mapChar rfcTables) := by
  induction s with
  | nil => rfl
  | cons c s ih =>
    rw [mapStage_cons, ih, List.flatMap_cons]
    simp only [Spec.Saslprep.mapChar, member_eq_inTable, rfcTables]

theorem mapStage_eq_specAlt (s : List Nat) (h : 0x200B ∉ s) :
    mapStage s = s.flatMap (Spec.Saslprep.mapCharAlt rfcTables) := by
  induction s with
  | nil => rfl
  | cons c s ih =>
    have hc : c ≠ 0x200B := fun e => h (by simp [e])
    have hs : 0x200B ∉ s := fun e => h (List.mem_cons_of_mem _ e)
    rw [mapStage_cons, ih hs, List.flatMap_cons]
    simp only [Spec.Saslprep.mapCharAlt, member_eq_inTable, rfcTables]
    have := b1_c12_inter c
    cases h1 : inTable b1 c <;> cases h2 : inTable c12 c <;> simp_all

theorem dirty_space : dirty 0x20 = false := by simp [dirty, space_not_b1, space_not_c12]

theorem mapStage_clean (s : List Nat) : Clean (mapStage s) := by
  induction s with
  | nil => intro c hc; cases hc
  | cons c s ih =>
    rw [mapStage_cons]
    intro x hx
    rcases List.mem_append.1 hx with hx | hx
    · cases h1 : inTable b1 c <;> cases h2 : inTable c12 c <;> simp [h1, h2] at hx
      · subst hx; simp [dirty, h1, h2]
      · subst hx; exact dirty_space
    · exact ih x hx

theorem mapStage_of_clean {x : List Nat} (h : Clean x) : mapStage x = x := by
  induction x with
  | nil => rfl
  | cons c s ih =>
    have hc := h c (by simp)
    simp only [dirty, Bool.or_eq_false_iff] at hc
    rw [mapStage_cons, ih (fun y hy => h y (List.mem_cons_of_mem _ hy))]
    simp [hc.1, hc.2]

/-! ### the loop -/

theorem any_assert (c : Nat) : assertTables.any (inTable · c) = dirty c := by
  simp [assertTables_eq, dirty]

theorem any_forbidden (bidi : Table) (c : Nat) :
    (forbiddenTables bidi).any (inTable · c) = (listed c || inTable bidi c) := by
  simp only [forbiddenTables_eq, List.any_cons, List.any_nil, listed, Bool.or_false]
  cases inTable a1 c <;> cases inTable c21_c22 c <;> cases inTable c3 c <;> cases inTable c4 c <;> simp [Bool.or_assoc]

theorem checkChar_eq (bidi : Table) (c : Nat) :
    checkChar (forbiddenTables bidi) c =
      if dirty c then .error .assertionError
      else if listed c || inTable bidi c then .error .valueError else .ok () := by
  simp only [checkChar, any_assert, any_forbidden, forbiddenRaises_eq]

/-- what one character does to the loop -/
def bad (bidi : Table) (c : Nat) : Bool := dirty c || listed c || inTable bidi c

theorem checkLoop_cons (bidi : Table) (c : Nat) (cs : List Nat) :
    checkLoop (forbiddenTables bidi) (c :: cs) =
      if dirty c then .error .assertionError
      else if listed c || inTable bidi c then .error .valueError
      else checkLoop (forbiddenTables bidi) cs := by
  simp only [checkLoop, checkChar_eq]
  cases dirty c <;> cases (listed c || inTable bidi c) <;> rfl

theorem checkLoop_ok_iff (bidi : Table) (data : List Nat) :
    checkLoop (forbiddenTables bidi) data = .ok () ↔ ∀ c ∈ data, bad bidi c = false := by
  induction data with
  | nil => simp [checkLoop]
  | cons c cs ih =>
    rw [checkLoop_cons]
    simp only [List.mem_cons, forall_eq_or_imp]
    have hb : bad bidi c = (dirty c || (listed c || inTable bidi c)) := by simp [bad, Bool.or_assoc]
    rw [hb]
    cases h1 : dirty c <;> cases h2 : (listed c || inTable bidi c) <;> simp [ih]

theorem checkLoop_cases (bidi : Table) (data : List Nat) :
    checkLoop (forbiddenTables bidi) data = .ok () ∨
    checkLoop (forbiddenTables bidi) data = .error .assertionError ∨
    checkLoop (forbiddenTables bidi) data = .error .valueError := by
  induction data with
  | nil => simp [checkLoop]
  | cons c cs ih =>
    rw [checkLoop_cons]
    cases dirty c <;> cases (listed c || inTable bidi c) <;> simp [ih]

/-- the assertion fires exactly when the FIRST character the loop objects to is a B.1 / C.1.2 one -/
theorem checkLoop_assert_iff (bidi : Table) (data : List Nat) :
    checkLoop (forbiddenTables bidi) data = .error .assertionError ↔
      ∃ pre c post, data = pre ++ c :: post ∧ dirty c = true ∧ ∀ x ∈ pre, bad bidi x = false := by
  induction data with
  | nil => simp [checkLoop]
  | cons c cs ih =>
    rw [checkLoop_cons]
    cases h1 : dirty c
    · cases h2 : (listed c || inTable bidi c)
      · simp only [Bool.false_eq_true, if_false, ih]
        constructor
        · rintro ⟨pre, x, post, rfl, hx, hpre⟩
          refine ⟨c :: pre, x, post, rfl, hx, ?_⟩
          intro y hy
          rcases List.mem_cons.1 hy with rfl | hy
          · simpa [bad, h1, Bool.or_assoc] using h2
          · exact hpre y hy
        · rintro ⟨pre, x, post, e, hx, hpre⟩
          cases pre with
          | nil =>
            simp at e
            rw [← e.1, h1] at hx
            cases hx
          | cons p pre' =>
            simp at e
            exact ⟨pre', x, post, e.2, hx, fun y hy => hpre y (List.mem_cons_of_mem _ hy)⟩
      · simp only [Bool.false_eq_true, if_false, if_true]
        constructor
        · intro h; cases h
        · rintro ⟨pre, x, post, e, hx, hpre⟩
          cases pre with
          | nil =>
            simp at e
            rw [← e.1, h1] at hx
            cases hx
          | cons p pre' =>
            simp at e
            have := hpre p (by simp)
            rw [← e.1] at this
            simp [bad, h1, Bool.or_assoc] at this
            simp [this] at h2
    · simp only [if_true, true_iff]
      exact ⟨[], c, cs, rfl, h1, by simp⟩

/-- on a clean text the loop is the prohibited-output test with value errors only -/
theorem checkLoop_clean (bidi : Table) {data : List Nat} (h : Clean data) :
    checkLoop (forbiddenTables bidi) data =
      if data.any (fun c => listed c || inTable bidi c) then .error .valueError else .ok () := by
  induction data with
  | nil => simp [checkLoop]
  | cons c cs ih =>
    have hc := h c (by simp)
    rw [checkLoop_cons, ih (fun y hy => h y (List.mem_cons_of_mem _ hy)), hc, List.any_cons]
    cases (listed c || inTable bidi c) <;> simp

/-! ### the bidi initialisation -/

theorem pyIndex_first (f : Nat) (rest : List Nat) : pyIndex (f :: rest) Gen.Saslprep.bidiFirstIdx = some f := by
  simp [pyIndex, firstIdx_eq]

theorem pyIndex_neg_one (data : List Nat) (h : data ≠ []) : pyIndex data (-1) = some (data.getLast h) := by
  have hl : 1 ≤ data.length := by
    cases data with
    | nil => exact absurd rfl h
    | cons a b => simp
  have e : pyIndex data (-1) = if 1 ≤ data.length then data[data.length - 1]? else none := rfl
  rw [e, if_pos hl, ← List.getLast?_eq_getElem?, List.getLast?_eq_some_getLast h]

theorem pyIndex_last (data : List Nat) (h : data ≠ []) :
    pyIndex data Gen.Saslprep.bidiLastIdx = some (data.getLast h) := by
  rw [lastIdx_eq]; exact pyIndex_neg_one data h

theorem bidiInit_eq (f : Nat) (rest : List Nat) :
    bidiInit (f :: rest) =
      if inTable d1 f then
        (if inTable d1 ((f :: rest).getLast (by simp)) then .ok d2 else .error .valueError)
      else .ok d1 := by
  simp only [bidiInit, pyIndex_first, pyIndex_last (f :: rest) (by simp), tableOf_ral, tableOf_ralBranch,
    tableOf_nonRalBranch, malformedRaises_eq]
  cases inTable d1 f <;> simp
  split <;> simp_all

/-! ### Boolean list helpers -/

theorem any_or {α} (p q : α → Bool) (l : List α) : l.any (fun x => p x || q x) = (l.any p || l.any q) := by
  induction l with
  | nil => rfl
  | cons a l ih =>
    simp only [List.any_cons, ih]
    cases p a <;> cases q a <;> cases l.any p <;> cases l.any q <;> rfl

theorem any_congr_mem {α} {p q : α → Bool} {l : List α} (h : ∀ x ∈ l, p x = q x) : l.any p = l.any q := by
  induction l with
  | nil => rfl
  | cons a l ih =>
    simp only [List.any_cons, h a (by simp), ih (fun x hx => h x (List.mem_cons_of_mem _ hx))]

theorem prohibited_eq (c : Nat) : Spec.Saslprep.prohibited rfcTables c = (inTable c12 c || listed c) := by
  simp only [Spec.Saslprep.prohibited, member_eq_inTable, rfcTables, listed]
  cases inTable c12 c <;> cases inTable a1 c <;> cases inTable c21_c22 c <;> cases inTable c3 c <;> cases inTable c4 c <;>
    cases inTable c5 c <;> cases inTable c6 c <;> cases inTable c7 c <;> cases inTable c8 c <;> cases inTable c9 c <;> rfl

theorem prohibited_clean {data : List Nat} (h : Clean data) :
    data.any (Spec.Saslprep.prohibited rfcTables) = data.any listed := by
  apply any_congr_mem
  intro c hc
  have := h c hc
  simp only [dirty, Bool.or_eq_false_iff] at this
  rw [prohibited_eq, this.2, Bool.false_or]

theorem bidiOk_eq (f : Nat) (rest : List Nat) :
    Spec.Saslprep.bidiOk rfcTables (f :: rest) =
      if (f :: rest).any (inTable d1) then
        (!(f :: rest).any (inTable d2) && inTable d1 f && inTable d1 ((f :: rest).getLast (by simp)))
      else true := by
  have e1 : (fun c => Spec.Saslprep.member rfcTables.d1 c) = inTable d1 := by
    funext c; exact member_eq_inTable _ _
  have e2 : (fun c => Spec.Saslprep.member rfcTables.d2 c) = inTable d2 := by
    funext c; exact member_eq_inTable _ _
  unfold Spec.Saslprep.bidiOk
  rw [show Spec.Saslprep.member rfcTables.d1 = inTable d1 from e1,
      show Spec.Saslprep.member rfcTables.d2 = inTable d2 from e2,
      List.getLast?_eq_some_getLast (by simp : f :: rest ≠ [])]
  rfl

theorem any_of_mem {p : Nat → Bool} {l : List Nat} {x : Nat} (hx : x ∈ l) (hp : p x = true) : l.any p = true :=
  List.any_eq_true.2 ⟨x, hx, hp⟩

/-! ### model = spec after the normalisation, on clean data -/

theorem afterNormalize_eq_spec {data : List Nat} (h : Clean data) :
    afterNormalize data =
      (if data.any (Spec.Saslprep.prohibited rfcTables) then .error .valueError
       else if !Spec.Saslprep.bidiOk rfcTables data then .error .valueError else .ok data) := by
  cases data with
  | nil => rfl
  | cons f rest =>
    rw [prohibited_clean h, bidiOk_eq]
    simp only [afterNormalize, List.isEmpty_cons, Bool.false_eq_true, if_false, bidiInit_eq]
    have hf : inTable d1 f = true → (f :: rest).any (inTable d1) = true := any_of_mem (by simp)
    have hl : inTable d1 ((f :: rest).getLast (by simp)) = true → (f :: rest).any (inTable d1) = true :=
      any_of_mem (List.getLast_mem _)
    cases h1 : inTable d1 f
    · simp only [Bool.false_eq_true, if_false, checkLoop_clean d1 h, any_or]
      cases (f :: rest).any listed <;> cases (f :: rest).any (inTable d1) <;> simp
    · cases h2 : inTable d1 ((f :: rest).getLast (by simp))
      · simp only [if_true, Bool.false_eq_true, if_false, hf h1]
        cases (f :: rest).any listed <;> simp
      · simp only [if_true, checkLoop_clean d2 h, any_or, hf h1]
        cases (f :: rest).any listed <;> cases (f :: rest).any (inTable d2) <;> simp

/-! ### accepted results, error kinds -/

theorem bidiInit_cases (data : List Nat) (h : data ≠ []) :
    bidiInit data = .ok d1 ∨ bidiInit data = .ok d2 ∨ bidiInit data = .error .valueError := by
  cases data with
  | nil => exact absurd rfl h
  | cons f rest =>
    rw [bidiInit_eq]
    cases inTable d1 f <;> cases inTable d1 ((f :: rest).getLast (by simp)) <;> simp

theorem afterNormalize_nil : afterNormalize [] = .ok [] := rfl

theorem afterNormalize_cons (f : Nat) (rest : List Nat) :
    afterNormalize (f :: rest) =
      match bidiInit (f :: rest) with
      | .error e => .error e
      | .ok bidi =>
        match checkLoop (forbiddenTables bidi) (f :: rest) with
        | .error e => .error e
        | .ok () => .ok (f :: rest) := rfl

/-- acceptance: the result is the normalised text itself, it is clean, and the loop passed for the table the bidi
    initialisation chose -/
theorem afterNormalize_ok {data r : List Nat} (h : afterNormalize data = .ok r) :
    r = data ∧ Clean data ∧ (data = [] ∨ ∃ bidi, bidiInit data = .ok bidi ∧ ∀ c ∈ data, bad bidi c = false) := by
  cases data with
  | nil =>
    rw [afterNormalize_nil] at h
    injection h with h
    have hcl : Clean [] := fun c hc => by cases hc
    exact ⟨h.symm, hcl, Or.inl rfl⟩
  | cons f rest =>
    rw [afterNormalize_cons] at h
    cases hb : bidiInit (f :: rest) with
    | error e => simp only [hb] at h; cases h
    | ok bidi =>
      simp only [hb] at h
      cases hl : checkLoop (forbiddenTables bidi) (f :: rest) with
      | error e => simp only [hl] at h; cases h
      | ok u =>
        simp only [hl] at h
        injection h with h
        have hall := (checkLoop_ok_iff bidi (f :: rest)).1 hl
        refine ⟨h.symm, ?_, Or.inr ⟨bidi, rfl, hall⟩⟩
        intro c hc
        have := hall c hc
        simp only [bad, Bool.or_eq_false_iff] at this
        exact this.1.1

theorem afterNormalize_assert_iff (data : List Nat) :
    afterNormalize data = .error .assertionError ↔
      ∃ bidi, bidiInit data = .ok bidi ∧
        ∃ pre c post, data = pre ++ c :: post ∧ dirty c = true ∧ ∀ x ∈ pre, bad bidi x = false := by
  cases data with
  | nil =>
    rw [afterNormalize_nil]
    constructor
    · intro h; cases h
    · rintro ⟨_, _, pre, c, post, e, _⟩
      cases pre <;> cases e
  | cons f rest =>
    rw [afterNormalize_cons]
    cases hb : bidiInit (f :: rest) with
    | error e =>
      have := bidiInit_cases (f :: rest) (by simp)
      rw [hb] at this
      simp at this
      subst this
      simp
    | ok bidi =>
      simp only [Except.ok.injEq, exists_eq_left']
      rw [← checkLoop_assert_iff]
      rcases checkLoop_cases bidi (f :: rest) with h | h | h <;> rw [h] <;> simp

theorem afterNormalize_error_kinds {data : List Nat} {e : ErrKind} (h : afterNormalize data = .error e) :
    e = .assertionError ∨ e = .valueError := by
  cases data with
  | nil => rw [afterNormalize_nil] at h; cases h
  | cons f rest =>
    rw [afterNormalize_cons] at h
    rcases bidiInit_cases (f :: rest) (by simp) with hb | hb | hb <;> simp only [hb] at h
    · rcases checkLoop_cases d1 (f :: rest) with hl | hl | hl <;> simp only [hl] at h <;> simp at h <;> simp [← h]
    · rcases checkLoop_cases d2 (f :: rest) with hl | hl | hl <;> simp only [hl] at h <;> simp at h <;> simp [← h]
    · simp at h; simp [← h]

theorem afterNormalize_dirty_rejected {data : List Nat} (h : ¬ Clean data) : ∃ e, afterNormalize data = .error e := by
  cases hr : afterNormalize data with
  | error e => exact ⟨e, rfl⟩
  | ok r => exact absurd (afterNormalize_ok hr).2.1 h

theorem afterNormalize_clean_no_assert {data : List Nat} (h : Clean data) :
    afterNormalize data ≠ .error .assertionError := by
  rw [afterNormalize_eq_spec h]
  split
  · simp
  · split <;> simp

/-! ### printable ASCII -/

theorem ascii_facts {c : Nat} (h1 : 0x20 ≤ c) (h2 : c ≤ 0x7E) :
    dirty c = false ∧ listed c = false ∧ inTable d1 c = false := by
  have h := List.all_eq_true.1 ascii_avoid
  have f : ∀ t, t ∈ [a1, b1, c12, c21_c22, c3, c4, c5, c6, c7, c8, c9, d1] → inTable t c = false :=
    fun t ht => inTable_false_of_avoid (h t ht) h1 h2
  simp only [dirty, listed, f a1 (by simp), f b1 (by simp), f c12 (by simp), f c21_c22 (by simp), f c3 (by simp),
    f c4 (by simp), f c5 (by simp), f c6 (by simp), f c7 (by simp), f c8 (by simp), f c9 (by simp), f d1 (by simp)]
  simp

theorem any_false_of_forall {p : Nat → Bool} {l : List Nat} (h : ∀ x ∈ l, p x = false) : l.any p = false := by
  induction l with
  | nil => rfl
  | cons a l ih => simp [List.any_cons, h a (by simp), ih (fun x hx => h x (List.mem_cons_of_mem _ hx))]

theorem afterNormalize_ascii {s : List Nat} (h : ∀ c ∈ s, 0x20 ≤ c ∧ c ≤ 0x7E) : afterNormalize s = .ok s := by
  have hc : Clean s := fun c hc => (ascii_facts (h c hc).1 (h c hc).2).1
  rw [afterNormalize_eq_spec hc, prohibited_clean hc,
    any_false_of_forall (fun c hc => (ascii_facts (h c hc).1 (h c hc).2).2.1)]
  cases s with
  | nil => rfl
  | cons f rest =>
    rw [bidiOk_eq, any_false_of_forall (fun c hc => (ascii_facts (h c hc).1 (h c hc).2).2.2)]
    simp

end Lemmas.Saslprep
