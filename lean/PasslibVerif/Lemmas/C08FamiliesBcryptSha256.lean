import PasslibVerif.Lemmas.C08FamiliesDesBcrypt
/-
Closes the gap left in Lemmas/C08FamiliesDesBcrypt.lean: the parser-acceptance lemma for `bcrypt_sha256.from_string` (type 2a / 2b, cost 4..31,
22 canonical salt characters) — so the bcrypt back end is defined on everything the parser returns and `C08Facts []` holds: the RuntimeError of
`bcryptCore` is not reachable from `verify`.
-/
namespace Lemmas.C08FamiliesBcryptSha256
open Py Model.Handler Model.Formats Model.Verify Model.VerifyFmt.DesBcrypt Props.C01 Lemmas.C08Families Lemmas.C08Crypt Lemmas.Formats
  Lemmas.C01DesBcrypt Lemmas.C08FamiliesDesBcrypt

/-- the type field the two regular expressions allow: `2[ab]` (v1), `2b` (v2) -/
theorem bsSettings_type (s : Str) (ver : Int) (t rs : Str) (h : bsSettings s = some (ver, t, rs)) : t = ofString "2a" ∨ t = ofString "2b" := by
  unfold bsSettings at h
  split at h
  · split at h
    · simp only [Option.bind_eq_some_iff] at h
      obtain ⟨v, _, h2⟩ := h
      split at h2
      · cases h2
      · simp only [Option.some.injEq, Prod.mk.injEq] at h2; exact Or.inr h2.2.1.symm
    · cases h
  · split at h
    · rename_i hc
      simp only [Option.some.injEq, Prod.mk.injEq] at h
      rw [← h.2.1]
      simp only [Bool.and_eq_true, Bool.or_eq_true, decide_eq_true_eq] at hc
      exact hc.1
    · cases h
  · cases h

/-- whatever `bcrypt_sha256.from_string` accepts: an ident of the corrected algorithm and bcrypt-shaped fields -/
theorem bcrypt_sha256_parse_wf (hs : Str) (p : Parsed) (hp : bcryptSha256Parse hs = some p) :
    p.ident ∈ bcryptOkIdents ∧ (∃ n : Nat, p.rounds = some (n : Int) ∧ 4 ≤ n ∧ n ≤ 31) ∧ ∃ s, p.salt = some s ∧ BcCanon 22 s := by
  unfold bcryptSha256Parse at hp
  simp only [Option.bind_eq_some_iff] at hp
  obtain ⟨body, _, ⟨st, salt, dig⟩, _, ⟨ver, t, rs⟩, hset, h3⟩ := hp
  simp only at h3
  split at h3
  · cases h3
  · simp only [Option.bind_eq_some_iff] at h3
    obtain ⟨rounds, _, h4⟩ := h3
    split at h4
    · cases h4
    · have hw := bcFields_spec _ _ _ _ _ p h4
      refine ⟨?_, hw.rounds, hw.salt⟩
      rw [hw.ident]
      rcases bsSettings_type st ver t rs hset with ht | ht <;> subst ht <;> decide

theorem bcryptCore_of_sha256_parse (hs : Str) (p : Parsed) (key : Bytes) (hp : bcryptSha256Parse hs = some p) : ∃ c, bcryptCore key p = .ok c := by
  obtain ⟨hi, ⟨n, hr, hn1, hn2⟩, salt, hsalt, hc1, hc2, _⟩ := bcrypt_sha256_parse_wf hs p hp
  exact bcryptCore_some p key p.ident salt n rfl hsalt hr hi hc1 hc2 ⟨hn1, hn2⟩

theorem bcrypt_sha256_facts : C08Facts [] bcryptSha256Hasher where
  parseErr := fun hs e he => Or.inl (toRes_error _ e he)
  digestErr := fun hs p b e hp he => by
    have hp' := toRes_ok _ p hp
    have he' : bcryptSha256Digest b p = .error e := he
    unfold bcryptSha256Digest at he'
    split at he'
    · obtain ⟨c, hc⟩ := bcryptCore_of_sha256_parse hs p _ hp'
      rw [hc] at he'; cases he'
    · split at he'
      · obtain ⟨c, hc⟩ := bcryptCore_of_sha256_parse hs p _ hp'
        rw [hc] at he'; cases he'
      · cases he'; exact Or.inl rfl
  ignores := bcrypt_sha256_facts_partial.ignores

end Lemmas.C08FamiliesBcryptSha256
