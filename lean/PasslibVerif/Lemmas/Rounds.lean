import PasslibVerif.Model.Rounds
namespace Lemmas.Rounds
open Py Model.Rounds

/-- sane hard limits: max (when set) is non-zero and not below min -/
def HardOK (lo : Int) (hi : Option Int) : Prop := ∀ hx, hi = some hx → lo ≤ hx ∧ 0 < hx
def inHard (lo : Int) (hi : Option Int) (n : Int) : Prop := lo ≤ n ∧ ∀ hx, hi = some hx → n ≤ hx

theorem eff_hard (lo : Int) (hi : Option Int) (h : HardOK lo hi) : eff hi = hi := by
  cases hi with
  | none => rfl
  | some hx => have := (h hx rfl).2; simp [eff]; omega

/-- the three possible answers of normInt -/
theorem normInt_cases (lo : Int) (hi : Option Int) (h : HardOK lo hi) (v : Int) (relaxed : Bool) (n : Int)
    (hn : normInt lo hi v relaxed = .ok n) :
    (v < lo ∧ n = lo ∧ relaxed = true) ∨ (∃ hx, hi = some hx ∧ hx < v ∧ n = hx ∧ relaxed = true) ∨
    (n = v ∧ lo ≤ v ∧ ∀ hx, hi = some hx → v ≤ hx) := by
  unfold normInt at hn
  rw [eff_hard lo hi h] at hn
  cases hi with
  | none =>
    simp only at hn
    split at hn
    · split at hn
      · cases hn; left; exact ⟨by assumption, rfl, by assumption⟩
      · cases hn
    · cases hn; right; right; exact ⟨rfl, by omega, by intro hx e; cases e⟩
  | some hx =>
    have ⟨h1, h2⟩ := h hx rfl
    simp only at hn
    split at hn
    · split at hn
      · split at hn
        · omega
        · cases hn; left; exact ⟨by assumption, rfl, by assumption⟩
      · cases hn
    · split at hn
      · split at hn
        · cases hn; right; left; exact ⟨_, rfl, by omega, rfl, by assumption⟩
        · cases hn
      · cases hn; right; right; exact ⟨rfl, by omega, by intro y e; cases e; omega⟩

theorem normInt_inHard (lo : Int) (hi : Option Int) (h : HardOK lo hi) (v : Int) (relaxed : Bool) (n : Int)
    (hn : normInt lo hi v relaxed = .ok n) : inHard lo hi n := by
  rcases normInt_cases lo hi h v relaxed n hn with ⟨_, rfl, _⟩ | ⟨hx, rfl, _, e, _⟩ | ⟨rfl, h1, h2⟩
  · exact ⟨Int.le_refl _, fun hx e => (h hx e).1⟩
  · subst e; exact ⟨(h _ rfl).1, fun y e => by cases e; exact Int.le_refl _⟩
  · exact ⟨h1, h2⟩

/-- strict mode refuses every value outside the hard limits -/
theorem normInt_strict_error (lo : Int) (hi : Option Int) (h : HardOK lo hi) (v : Int)
    (hout : v < lo ∨ ∃ hx, hi = some hx ∧ hx < v) : normInt lo hi v false = .error .valueError := by
  unfold normInt
  rw [eff_hard lo hi h]
  rcases hout with hlo | ⟨hx, rfl, hgt⟩
  · simp [hlo]
  · have ⟨h1, h2⟩ := h hx rfl
    have : ¬ v < lo := by omega
    simp [this, hgt]

/-- relaxed mode clamps to the nearest limit; in-range values are kept in both modes -/
theorem normInt_relaxed (lo : Int) (hi : Option Int) (h : HardOK lo hi) (v : Int) :
    (v < lo → normInt lo hi v true = .ok lo) ∧
    (∀ hx, hi = some hx → hx < v → normInt lo hi v true = .ok hx) ∧
    (∀ r, lo ≤ v → (∀ hx, hi = some hx → v ≤ hx) → normInt lo hi v r = .ok v) := by
  refine ⟨?_, ?_, ?_⟩
  · intro hlo
    unfold normInt; rw [eff_hard lo hi h]
    cases hi with
    | none => simp [hlo]
    | some hx =>
      have ⟨h1, h2⟩ := h hx rfl
      have : ¬ lo > hx := by omega
      simp [hlo, this]
  · intro hx e hgt; subst e
    have ⟨h1, h2⟩ := h hx rfl
    have : ¬ v < lo := by omega
    unfold normInt; rw [eff_hard lo _ h]
    simp [this, hgt]
  · intro r hlo hhi
    unfold normInt; rw [eff_hard lo hi h]
    have : ¬ v < lo := by omega
    cases hi with
    | none => simp [this]
    | some hx =>
      have := hhi hx rfl
      have hng : ¬ v > hx := by omega
      simp [*]

/-- monotone: normalising preserves order (both modes) -/
theorem normInt_mono (lo : Int) (hi : Option Int) (h : HardOK lo hi) (a b : Int) (relaxed : Bool) (na nb : Int)
    (hab : a ≤ b) (ha : normInt lo hi a relaxed = .ok na) (hb : normInt lo hi b relaxed = .ok nb) : na ≤ nb := by
  have ia := normInt_inHard lo hi h a relaxed na ha
  have ib := normInt_inHard lo hi h b relaxed nb hb
  rcases normInt_cases lo hi h a relaxed na ha with ⟨_, rfl, _⟩ | ⟨hx, rfl, hxa, ena, _⟩ | ⟨rfl, _, _⟩
  · exact ib.1
  · subst ena
    rcases normInt_cases lo (some na) h b relaxed nb hb with ⟨_, rfl, _⟩ | ⟨hy, e, _, enb, _⟩ | ⟨rfl, _, _⟩
    · omega
    · cases e; omega
    · omega
  · rcases normInt_cases lo hi h b relaxed nb hb with ⟨_, rfl, _⟩ | ⟨hy, rfl, _, enb, _⟩ | ⟨rfl, _, _⟩
    · omega
    · subst enb; exact ia.2 _ rfl
    · exact hab

/-! ### the desired window -/
/-- ordered window (only bounds that Python treats as set constrain anything) -/
def WindowOK (mn mx : Option Int) : Prop := ∀ a b, eff mn = some a → eff mx = some b → a ≤ b

def InWindow (mn mx : Option Int) (r : Int) : Prop :=
  (∀ a, eff mn = some a → a ≤ r) ∧ (∀ b, eff mx = some b → r ≤ b)

theorem outsideWin_iff (mn mx : Option Int) (r : Int) : outsideWin mn mx r = false ↔ InWindow mn mx r := by
  unfold outsideWin InWindow
  cases hm : eff mn <;> cases hx : eff mx <;> simp <;> omega

theorem eff_getD (mn : Option Int) : (∀ a, eff mn = some a → a = mn.getD 0) ∧ (eff mn = none → mn.getD 0 = 0) := by
  cases mn with
  | none => simp [eff]
  | some v => by_cases h : v = 0 <;> simp [eff, h]

theorem clipWin_inWindow (mn mx : Option Int) (hw : WindowOK mn mx) (r : Int)
    (hpos : 0 ≤ mn.getD 0) (hmx0 : ∀ b, eff mx = some b → 0 ≤ b) : InWindow mn mx (clipWin mn mx r) := by
  unfold clipWin InWindow
  have ⟨g1, g2⟩ := eff_getD mn
  cases hm : eff mn with
  | none =>
    have := g2 hm
    refine ⟨(by intro a e; cases e), ?_⟩
    intro b hb
    simp only [hb]
    have := hmx0 b hb
    split
    · omega
    · split <;> omega
  | some a =>
    have ea := g1 a hm
    refine ⟨?_, ?_⟩
    · intro a' e; cases e
      split
      · omega
      · cases hx : eff mx with
        | none => simp; omega
        | some b =>
          have := hw a b hm hx
          simp only; split <;> omega
    · intro b hb
      have := hw a b hm hb
      simp only [hb]
      split
      · omega
      · split <;> omega

/-- inside the window, clipping is the identity -/
theorem clipWin_id (mn mx : Option Int) (r : Int) (h : InWindow mn mx r) (hr : 0 ≤ r) : clipWin mn mx r = r := by
  unfold clipWin
  obtain ⟨h1, h2⟩ := h
  have ⟨g1, g2⟩ := eff_getD mn
  have hlo : ¬ r < mn.getD 0 := by
    cases hm : eff mn with
    | none => have := g2 hm; omega
    | some a => have := g1 a hm; have := h1 a hm; omega
  simp only [hlo, if_false]
  cases hx : eff mx with
  | none => rfl
  | some b => have := h2 b hx; simp only; split <;> omega

end Lemmas.Rounds
