import PasslibVerif.Lemmas.C01DesBcrypt
import PasslibVerif.Lemmas.B64
import PasslibVerif.Lemmas.Blowfish
/-
Lemmas for Props.C01DesBcrypt, part 2 (bcrypt family): the 31 checksum characters the Spec produces are canonical bcrypt64 text
(alphabet, length, padding bits clear — so `_norm_checksum`'s repair leaves them alone and the C07 round trip applies); the Spec is
defined on every admissible (ident, cost, salt); bytes past the 72nd never reach the Blowfish state.
-/
namespace Lemmas.C01DesBcrypt
open Py Model.Handler Model.Formats Model.Verify Props.C01 Lemmas.Formats Model.VerifyFmt.DesBcrypt

theorem bc64_eq : bc64 = Spec.Formats.bcryptAlphabet := by decide

theorem bc64_getD_mem : ∀ k, k < 64 → bc64.contains (bc64.getD k 0) = true := by decide

theorem bc64_decode_getD : ∀ v, v < 64 → Model.B64.decode64 bc64 (bc64.getD v 0) = some v := by decide

/-- RFC 4648 grouping of 3k+2 bytes: the last 6-bit value carries two zero padding bits -/
theorem groups64_last_pad : ∀ bs : List Nat, bs.length % 3 = 2 →
    ∃ init v, Spec.Rfc4648.groups64 bs = init ++ [v] ∧ v % 4 = 0 ∧ v < 64
  | [], h => by simp at h
  | [_], h => by simp at h
  | [a, b], _ => ⟨[(a * 256 + b) * 4 / 4096 % 64, (a * 256 + b) * 4 / 64 % 64], (a * 256 + b) * 4 % 64, rfl, by omega, by omega⟩
  | a :: b :: c :: rest, h => by
    have hr : rest.length % 3 = 2 := by simp only [List.length_cons] at h; omega
    obtain ⟨init, v, e, h4, h64⟩ := groups64_last_pad rest hr
    refine ⟨[(a * 65536 + b * 256 + c) / 262144 % 64, (a * 65536 + b * 256 + c) / 4096 % 64, (a * 65536 + b * 256 + c) / 64 % 64,
      (a * 65536 + b * 256 + c) % 64] ++ init, v, ?_, h4, h64⟩
    simp only [Spec.Rfc4648.groups64, e, List.append_assoc]

/-- `encode_base64(ciphertext, 23)`: 31 characters of the bcrypt alphabet, a fixed point of `check_repair_unused` -/
theorem bcrypt64_canon (bs : List Nat) (hlen : bs.length = 23) : BcCanon 31 (Spec.Formats.bcrypt64 bs) := by
  have hall : allIn bc64 (Spec.Formats.bcrypt64 bs) = true := by
    unfold Spec.Formats.bcrypt64 allIn
    rw [← bc64_eq]
    simp only [List.all_map, List.all_eq_true, Function.comp]
    intro v hv
    exact bc64_getD_mem v (Lemmas.B64.groups64_lt64 bs v hv)
  have hl31 : (Spec.Formats.bcrypt64 bs).length = 31 := by
    simp [Spec.Formats.bcrypt64, Lemmas.B64.groups64_length, hlen]
  refine ⟨hall, hl31, ?_⟩
  obtain ⟨init, v, e, h4, h64⟩ := groups64_last_pad bs (by rw [hlen])
  have hform : Spec.Formats.bcrypt64 bs = init.map (bc64.getD · 0) ++ [bc64.getD v 0] := by
    unfold Spec.Formats.bcrypt64
    rw [e, ← bc64_eq]
    simp
  have hl : (init.map (bc64.getD · 0) ++ [bc64.getD v 0]).length = 31 := by rw [← hform]; exact hl31
  have ht : (init.map (bc64.getD · 0) ++ [bc64.getD v 0]).length % 4 = 2 ∨ (init.map (bc64.getD · 0) ++ [bc64.getD v 0]).length % 4 = 3 := by
    rw [hl]; decide
  have hev := bcRepair_eval (init.map (bc64.getD · 0)) (bc64.getD v 0) v ht (bc64_decode_getD v h64)
  have hpb : Model.B64.padBits Model.B64.bcrypt64 ((init.map (bc64.getD · 0) ++ [bc64.getD v 0]).length % 4) = 3 := by rw [hl]; decide
  have hz : v &&& 3 = 0 := by
    have := Nat.and_two_pow_sub_one_eq_mod v 2
    simp only [Nat.reducePow, Nat.add_one_sub_one] at this
    omega
  rw [hpb, if_pos hz] at hev
  rw [hform]
  exact hev

/-! ### the Blowfish side: 23 bytes -/

theorem ecb_length (st : Spec.Bcrypt.State) : ∀ ws : List Nat, (Spec.Bcrypt.ecb st ws).length = ws.length
  | [] => rfl
  | [_] => rfl
  | l :: r :: rest => by simp only [Spec.Bcrypt.ecb, List.length_cons, ecb_length st rest]

theorem iter_ecb_length (st : Spec.Bcrypt.State) (n : Nat) (ws : List Nat) : (Spec.Bcrypt.iter (Spec.Bcrypt.ecb st) n ws).length = ws.length := by
  induction n generalizing ws with
  | zero => rfl
  | succ n ih => rw [Spec.Bcrypt.iter, ih, ecb_length]

theorem flatMap_wordBytes_length (ws : List Nat) : (ws.flatMap Spec.Bcrypt.wordBytes).length = 4 * ws.length := by
  induction ws with
  | nil => rfl
  | cons w ws ih => simp only [List.flatMap_cons, List.length_append, ih, Spec.Bcrypt.wordBytes, List.length_cons, List.length_nil]; omega

theorem bcryptRaw_length (cost : Nat) (salt key : List Nat) : (Spec.Bcrypt.bcryptRaw cost salt key).length = 23 := by
  unfold Spec.Bcrypt.bcryptRaw
  simp only [List.length_take, flatMap_wordBytes_length, iter_ecb_length]
  have : Spec.Bcrypt.ctext0.length = 6 := by decide
  omega

/-- whatever the Spec returns as a bcrypt checksum is canonical -/
theorem spec_bcrypt_canon (ident : List Nat) (cost : Nat) (salt22 pwd c : List Nat)
    (h : Spec.Formats.bcrypt ident cost salt22 pwd = some c) : BcCanon 31 c := by
  unfold Spec.Formats.bcrypt at h
  cases hn : Spec.Formats.bcryptNul ident with
  | none => simp [hn] at h
  | some nul =>
    cases hd : Spec.Formats.bcrypt64Decode salt22 with
    | none => simp [hn, hd] at h
    | some raw =>
      simp only [hn, hd, Option.bind_eq_bind, Option.bind_some] at h
      split at h
      · cases h
      · simp only [Option.some.injEq] at h
        subst h
        exact bcrypt64_canon _ (bcryptRaw_length _ _ _)

/-! ### the Spec is defined on admissible settings -/

theorem ungroups64_some : ∀ vs : List Nat, vs.length % 4 ≠ 1 → ∃ bs, Spec.Rfc4648.ungroups64 vs = some bs
  | [], _ => ⟨_, rfl⟩
  | [_], h => by simp at h
  | [_, _], _ => ⟨_, rfl⟩
  | [_, _, _], _ => ⟨_, rfl⟩
  | a :: b :: c :: d :: rest, h => by
    have hr : rest.length % 4 ≠ 1 := by simp only [List.length_cons] at h; omega
    obtain ⟨bs, e⟩ := ungroups64_some rest hr
    exact ⟨_, by simp only [Spec.Rfc4648.ungroups64, e, Option.map_some]; rfl⟩

theorem bcryptNul_ok (ident : Str) (hi : ident ∈ bcryptOkIdents) : ∃ nul, Spec.Formats.bcryptNul (stripDollars ident) = some nul := by
  simp only [bcryptOkIdents, List.mem_cons, List.not_mem_nil, or_false] at hi
  rcases hi with rfl | rfl | rfl | rfl
  · exact ⟨false, by decide⟩
  · exact ⟨true, by decide⟩
  · exact ⟨true, by decide⟩
  · exact ⟨true, by decide⟩

theorem spec_bcrypt_some (ident salt : Str) (cost : Nat) (pwd : Bytes) (hi : ident ∈ bcryptOkIdents) (hs : allIn bc64 salt = true)
    (hl : salt.length = 22) (hc : 4 ≤ cost ∧ cost ≤ 31) : ∃ c, Spec.Formats.bcrypt (stripDollars ident) cost salt pwd = some c := by
  obtain ⟨nul, hn⟩ := bcryptNul_ok ident hi
  have hdec : ∃ raw, Spec.Formats.bcrypt64Decode salt = some raw := by
    unfold Spec.Formats.bcrypt64Decode
    have : salt.all (Spec.Formats.bcryptAlphabet.contains ·) = true := by rw [← bc64_eq]; exact hs
    rw [this]
    simp only [if_true]
    exact ungroups64_some _ (by rw [List.length_map, hl]; decide)
  obtain ⟨raw, hd⟩ := hdec
  unfold Spec.Formats.bcrypt
  have hcond : ¬ (salt.length ≠ 22 ∨ cost < 4 ∨ cost > 31) := by omega
  simp only [hn, hd, Option.bind_eq_bind, Option.bind_some, hcond, if_false]
  exact ⟨_, rfl⟩

theorem bcryptCore_some (p : Parsed) (key : Bytes) (ident salt : Str) (cost : Nat) (hid : p.ident = ident) (hsalt : p.salt = some salt)
    (hr : p.rounds = some (cost : Int)) (hi : ident ∈ bcryptOkIdents) (hs : allIn bc64 salt = true) (hl : salt.length = 22)
    (hc : 4 ≤ cost ∧ cost ≤ 31) : ∃ c, bcryptCore key p = .ok c := by
  obtain ⟨c, e⟩ := spec_bcrypt_some ident salt cost (key.take 72) hi hs hl hc
  refine ⟨c, ?_⟩
  unfold bcryptCore
  simp only [hid, hsalt, hr, Option.getD_some, Int.toNat_natCast, e]

theorem bcryptCore_canon (p : Parsed) (key : Bytes) (c : Str) (h : bcryptCore key p = .ok c) : BcCanon 31 c := by
  unfold bcryptCore at h
  split at h
  · rename_i c' e
    simp only [Except.ok.injEq] at h
    subst h
    exact spec_bcrypt_canon _ _ _ _ _ e
  · cases h

/-! ### bcrypt's own hash / verify (`bcChecksumOf`) in terms of the generic ones on the encoded secret -/

theorem validate_bytes (b : Bytes) (h : b.length ≤ MAX_PASSWORD_SIZE) : validateSecret (.bytes b) = .ok () := by
  unfold validateSecret Secret.len
  have : ¬ b.length > MAX_PASSWORD_SIZE := by omega
  simp [this]

/-- a successful `bcrypt.hash` is the generic `hash` of the encoded secret, which fits the size limit as bytes too -/
theorem bcHashSecret_ok (h : Hasher) (s : Secret) (p : Parsed) (hs : Str) (hh : bcHashSecret h s p = .ok hs) :
    ∃ b, s.len ≤ MAX_PASSWORD_SIZE ∧ s.toBytes = .ok b ∧ b.length ≤ MAX_PASSWORD_SIZE ∧ hashSecret h (.bytes b) p = .ok hs := by
  unfold bcHashSecret at hh
  cases hv : validateSecret s with
  | error e => simp [hv] at hh
  | ok u =>
    have hl : s.len ≤ MAX_PASSWORD_SIZE := by
      unfold validateSecret at hv
      by_cases hgt : s.len > MAX_PASSWORD_SIZE
      · simp [hgt] at hv
      · omega
    simp only [hv] at hh
    unfold bcChecksumOf at hh
    cases hb : s.toBytes with
    | error e => simp [hb] at hh
    | ok b =>
      simp only [hb] at hh
      by_cases hgt : b.length > MAX_PASSWORD_SIZE
      · simp [hgt] at hh
      · simp only [hgt, if_false] at hh
        refine ⟨b, hl, rfl, by omega, ?_⟩
        unfold hashSecret
        rw [validate_bytes b (by omega)]
        exact hh

theorem bcHashSecret_of_bytes (h : Hasher) (s : Secret) (p : Parsed) (b : Bytes) (hl : s.len ≤ MAX_PASSWORD_SIZE)
    (hb : s.toBytes = .ok b) (hbl : b.length ≤ MAX_PASSWORD_SIZE) : bcHashSecret h s p = hashSecret h (.bytes b) p := by
  have hv : validateSecret s = .ok () := by
    unfold validateSecret
    have : ¬ s.len > MAX_PASSWORD_SIZE := by omega
    simp [this]
  have hgt : ¬ b.length > MAX_PASSWORD_SIZE := by omega
  unfold bcHashSecret bcChecksumOf hashSecret
  simp only [hv, hb, hgt, if_false, validate_bytes b hbl]
  rfl

theorem bcVerify_of_bytes (h : Hasher) (s : Secret) (hs : Str) (b : Bytes) (hl : s.len ≤ MAX_PASSWORD_SIZE)
    (hb : s.toBytes = .ok b) (hbl : b.length ≤ MAX_PASSWORD_SIZE) : bcVerify h s hs = verify h (.bytes b) hs := by
  have hv : validateSecret s = .ok () := by
    unfold validateSecret
    have : ¬ s.len > MAX_PASSWORD_SIZE := by omega
    simp [this]
  have hgt : ¬ b.length > MAX_PASSWORD_SIZE := by omega
  unfold bcVerify bcChecksumOf verify
  simp only [hv, hb, hgt, if_false, validate_bytes b hbl]
  rfl

end Lemmas.C01DesBcrypt
