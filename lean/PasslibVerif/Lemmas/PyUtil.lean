import PasslibVerif.Model.PyUtil
import PasslibVerif.Lemmas.TotpSerialUtf8
/- helper lemmas for Props.C05Util: repeat_string (lengths / elements), the continuation-byte scan of utf8_truncate -/
namespace Lemmas.PyUtil
open Py Model.PyUtil
open Model.TotpSerial (utf8Encode utf8EncodeCp utf8Decode isCont isScalar)
open Lemmas.TotpSerial (isScalar_iff utf8Decode_cons)

/-! ### `seq * k` -/

theorem pyMul_length (s : List Nat) (m : Nat) : (pyMul s (m : Int)).length = m * s.length := by
  unfold pyMul
  simp only [Int.toNat_natCast]
  induction m with
  | zero => simp
  | succ k ih => rw [List.replicate_succ, List.flatten_cons, List.length_append, ih, Nat.succ_mul]; omega

theorem pyMul_getElem? (s : List Nat) : ∀ (m i : Nat), i < m * s.length → (pyMul s (m : Int))[i]? = s[i % s.length]? := by
  intro m
  unfold pyMul
  simp only [Int.toNat_natCast]
  induction m with
  | zero => intro i h; simp at h
  | succ k ih =>
    intro i h
    rw [List.replicate_succ, List.flatten_cons]
    by_cases hi : i < s.length
    · rw [List.getElem?_append_left hi, Nat.mod_eq_of_lt hi]
    · have hge : s.length ≤ i := Nat.le_of_not_lt hi
      rw [List.getElem?_append_right hge, ih (i - s.length) (by rw [Nat.succ_mul] at h; omega), Nat.mod_eq_sub_mod hge]

theorem mult_cast (k L : Nat) : (1 + (((k + 1 : Nat) : Int) - 1) / (L : Int)) = ((1 + k / L : Nat) : Int) := by
  have : ((k + 1 : Nat) : Int) - 1 = (k : Int) := by omega
  rw [this, ← Int.natCast_ediv]; omega

theorem le_mult_mul (k L : Nat) (hL : 0 < L) : k + 1 ≤ (1 + k / L) * L := by
  have := Nat.lt_mul_div_succ k hL
  rw [Nat.mul_comm] at this
  rw [Nat.add_comm 1]; omega

/-! ### continuation bytes -/

theorem notContByte_eq : ∀ b : Nat, b < 256 → notContByte b = !isCont b := by
  set_option maxRecDepth 10000 in decide +kernel

theorem contRun_le : ∀ (f : Nat) (l : Bytes), contRun f l ≤ f ∧ contRun f l ≤ l.length := by
  intro f
  induction f with
  | zero => intro l; simp [contRun]
  | succ k ih =>
    intro l
    cases l with
    | nil => simp [contRun]
    | cons b r =>
      simp only [contRun]
      split
      · simp
      · have := ih r; simp only [List.length_cons]; omega

/-- the bytes the scan steps over are continuation bytes -/
theorem contRun_all : ∀ (f : Nat) (l : Bytes), ∀ b ∈ l.take (contRun f l), notContByte b = false := by
  intro f
  induction f with
  | zero => intro l b hb; simp [contRun] at hb
  | succ k ih =>
    intro l
    cases l with
    | nil => intro b hb; simp [contRun] at hb
    | cons x r =>
      intro b hb
      simp only [contRun] at hb
      split at hb
      · simp at hb
      · rename_i hx
        rw [Nat.add_comm, List.take_succ_cons] at hb
        rcases List.mem_cons.mp hb with rfl | h
        · simpa using hx
        · exact ih r b h

/-- where the scan stops: at the end of the window, at the end of the string, or in front of a non-continuation byte -/
theorem contRun_stop : ∀ (f : Nat) (l : Bytes),
    contRun f l = f ∨ contRun f l = l.length ∨ ∃ b, l[contRun f l]? = some b ∧ notContByte b = true := by
  intro f
  induction f with
  | zero => intro l; simp [contRun]
  | succ k ih =>
    intro l
    cases l with
    | nil => simp [contRun]
    | cons x r =>
      simp only [contRun]
      split
      · rename_i hx; right; right; exact ⟨x, by simp, hx⟩
      · rcases ih r with h | h | ⟨b, h1, h2⟩
        · left; omega
        · right; left; simp only [List.length_cons]; omega
        · right; right; refine ⟨b, ?_, h2⟩
          rw [Nat.add_comm, List.getElem?_cons_succ]; exact h1

/-- a run of continuation bytes followed by nothing / by a non-continuation byte is stepped over completely
    when the window is long enough -/
theorem contRun_run : ∀ (t : Bytes) (f : Nat) (r : Bytes), (∀ b ∈ t, notContByte b = false) → t.length ≤ f →
    (r = [] ∨ ∃ b r', r = b :: r' ∧ notContByte b = true) → contRun f (t ++ r) = t.length := by
  intro t
  induction t with
  | nil =>
    intro f r _ _ hr
    cases f with
    | zero => simp [contRun]
    | succ k =>
      rcases hr with rfl | ⟨b, r', rfl, hb⟩
      · simp [contRun]
      · simp [contRun, hb]
  | cons x t ih =>
    intro f r ht hf hr
    cases f with
    | zero => simp at hf
    | succ k =>
      have hx : notContByte x = false := ht x (by simp)
      simp only [List.cons_append, contRun, hx, List.length_cons]
      rw [ih k r (fun b hb => ht b (by simp [hb])) (by simp at hf; omega) hr]
      simp; omega

/-! ### the truncation past a complete prefix -/

theorem truncNat_append (a r : Bytes) (n : Nat) (h : a.length ≤ n) :
    utf8TruncateNat (a ++ r) n = a ++ utf8TruncateNat r (n - a.length) := by
  unfold utf8TruncateNat
  simp only [List.length_append]
  by_cases hn : n ≥ a.length + r.length
  · have : n - a.length ≥ r.length := by omega
    simp [hn, this]
  · have h2 : ¬ (n - a.length ≥ r.length) := by omega
    simp only [hn, h2, if_false]
    have hd : List.drop n (a ++ r) = List.drop (n - a.length) r := by
      rw [List.drop_append]
      simp [List.drop_eq_nil_of_le h]
    have hf : min (n + 3) (a.length + r.length) - n = min (n - a.length + 3) r.length - (n - a.length) := by omega
    rw [hd, hf]
    rw [List.take_append]
    have : List.take (n + contRun (min (n - a.length + 3) r.length - (n - a.length)) (List.drop (n - a.length) r)) a = a :=
      List.take_of_length_le (by omega)
    rw [this]
    congr 2
    omega

end Lemmas.PyUtil
