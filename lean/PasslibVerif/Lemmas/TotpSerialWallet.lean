import PasslibVerif.Lemmas.TotpSerialReject
import PasslibVerif.Lemmas.B64Std
/- AppWallet: encrypt_key / decrypt_key round trip under any wallet that still lists the tag; default tag -/
namespace Lemmas.TotpSerial
open Py Model.Handler Model.TotpSerial Model.TotpKey

/-- what is assumed of `_cipher_aes_key` (AES-256-CTR keyed by PBKDF2 of secret and salt): it maps byte strings to
    byte strings and applying it twice with the same secret, salt and cost gives the data back -/
structure CipherOk (cipher : Cipher) : Prop where
  wf : ∀ s salt c d, Bytes.WF d → Bytes.WF (cipher s salt c d)
  invol : ∀ s salt c d, cipher s salt c (cipher s salt c d) = d

theorem isEmpty_false_of_ne {α} (l : List α) (h : l ≠ []) : l.isEmpty = false := by
  cases l with
  | nil => exact absurd rfl h
  | cons _ _ => rfl

/-- the dict `encrypt_key` writes -/
theorem walletEncrypt_eq (cipher : Cipher) (w : AppWallet) (tag : Str) (secret salt key : Bytes)
    (hd : truthy w.defaultTag = some tag) (hs : lookupKey tag w.secrets = some secret) (hk : key ≠ []) :
    walletEncrypt cipher w salt key =
      .ok [(sV, .int 1), (sC, .int w.cost), (sT, .str tag), (sS, .str (Model.B64.b32encode salt)),
           (sK, .str (Model.B64.b32encode (cipher secret salt w.cost key)))] := by
  simp only [walletEncrypt, isEmpty_false_of_ne key hk, Bool.false_eq_true, if_false, hd, hs]

/-- an encrypted key decrypts to the original under ANY wallet that still lists the tag with the same secret;
    `needs_recrypt` reports a different cost or default tag -/
theorem wallet_roundtrip (cipher : Cipher) (hc : CipherOk cipher) (w w' : AppWallet) (tag : Str) (secret salt key : Bytes)
    (hd : truthy w.defaultTag = some tag) (hs : lookupKey tag w.secrets = some secret)
    (hs' : lookupKey tag w'.secrets = some secret) (hk : key ≠ []) (hkw : Bytes.WF key) (hsw : Bytes.WF salt) (hcost : 0 ≤ w.cost) :
    (walletEncrypt cipher w salt key).bind (walletDecrypt cipher w') =
      .ok (key, decide (w.cost ≠ w'.cost) || decide (some tag ≠ w'.defaultTag)) := by
  rw [walletEncrypt_eq cipher w tag secret salt key hd hs hk]
  have hne : w'.secrets.isEmpty = false := by
    cases hw : w'.secrets with
    | nil => rw [hw] at hs'; simp [lookupKey] at hs'
    | cons _ _ => rfl
  have hcf : ¬ (w.cost < 0) := by omega
  simp (config := { decide := true }) only [Out.bind, walletDecrypt, encVersion, encStr, encInt, lookupKey, if_true, if_false,
    Lemmas.B64.b32_roundtrip _ (hc.wf secret salt w.cost key hkw), Lemmas.B64.b32_roundtrip _ hsw, Out.ofRes, getSecret, hne,
    Bool.false_eq_true, hs', hcf, hc.invol]

/-- finding: a tag the wallet no longer lists leaves `decrypt_key` (hence `from_dict` / `from_json`) with KeyError -/
theorem wallet_unknown_tag (cipher : Cipher) (w' : AppWallet) (e : EncDict) (tag k : Str) (cost : Int) (ck : Bytes)
    (hv : encVersion e = .ok ()) (ht : encStr e sT = .ok tag) (hcst : encInt e sC = .ok cost) (hk : encStr e sK = .ok k)
    (hb : Model.B64.b32decode k = .ok ck) (hmiss : lookupKey tag w'.secrets = none) :
    walletDecrypt cipher w' e = .error .keyError := by
  have hg : getSecret w' tag = .error .keyError := by
    unfold getSecret; rw [hmiss]; split <;> rfl
  simp only [walletDecrypt, hv, ht, hcst, hk, hb, Out.bind, Out.ofRes, hg]

/-! ### default tag -/
theorem maxBy_cons (lt : Str → Str → Bool) (t : Str) (ts : List Str) :
    maxBy lt (t :: ts) = match maxBy lt ts with
      | none => some t
      | some m => if lt t m then some m else some t := rfl

theorem maxBy_mem (lt : Str → Str → Bool) : ∀ (l : List Str) (m : Str), maxBy lt l = some m → m ∈ l
  | [], m, h => by simp [maxBy] at h
  | t :: ts, m, h => by
    rw [maxBy_cons] at h
    cases hm : maxBy lt ts with
    | none => rw [hm] at h; dsimp only at h; injection h with h; simp [h]
    | some m' =>
      rw [hm] at h; dsimp only at h
      have := maxBy_mem lt ts m' hm
      cases hc : lt t m' with
      | true => simp only [hc, if_true] at h; injection h with h; subst h; exact List.mem_cons_of_mem _ this
      | false => simp only [hc, Bool.false_eq_true, if_false] at h; injection h with h; simp [h]

theorem maxBy_none (lt : Str → Str → Bool) : ∀ l : List Str, maxBy lt l = none → l = []
  | [], _ => rfl
  | t :: ts, h => by
    rw [maxBy_cons] at h
    cases hm : maxBy lt ts with
    | none => rw [hm] at h; cases h
    | some m' =>
      rw [hm] at h; dsimp only at h
      cases hc : lt t m' <;> simp [hc] at h

/-- `lt` is the strict part of a total preorder -/
structure StrictWeak (lt : Str → Str → Bool) : Prop where
  irr : ∀ a, lt a a = false
  asym : ∀ a b, lt a b = true → lt b a = false
  ntr : ∀ a b c, lt a b = false → lt b c = false → lt a c = false

/-- the picked element is a greatest one -/
theorem maxBy_max (lt : Str → Str → Bool) (hlt : StrictWeak lt) :
    ∀ (l : List Str) (m : Str), maxBy lt l = some m → ∀ x ∈ l, lt m x = false
  | [], m, h, _, _ => by simp [maxBy] at h
  | t :: ts, m, h, x, hx => by
    rw [maxBy_cons] at h
    cases hm : maxBy lt ts with
    | none =>
      rw [hm] at h; dsimp only at h; injection h with h; subst h
      have := maxBy_none lt ts hm; subst this
      simp only [List.mem_singleton] at hx; subst hx
      exact hlt.irr x
    | some m' =>
      rw [hm] at h; dsimp only at h
      have ih := maxBy_max lt hlt ts m' hm
      simp only [List.mem_cons] at hx
      cases hc : lt t m' with
      | true =>
        simp only [hc, if_true] at h; injection h with h; subst h
        rcases hx with rfl | hx
        · exact hlt.asym _ _ hc
        · exact ih x hx
      | false =>
        simp only [hc, Bool.false_eq_true, if_false] at h; injection h with h; subst h
        rcases hx with rfl | hx
        · exact hlt.irr _
        · exact hlt.ntr _ _ _ hc (ih x hx)

theorem numLt_strictWeak : StrictWeak (fun a b => decide (asciiNat a < asciiNat b)) where
  irr := fun a => by simp
  asym := fun a b h => by simp at h ⊢; omega
  ntr := fun a b c h1 h2 => by simp at h1 h2 ⊢; omega

theorem strLt_irr : ∀ a : Str, strLt a a = false
  | [] => rfl
  | x :: r => by simp [strLt, strLt_irr r]

theorem strLt_asym : ∀ a b : Str, strLt a b = true → strLt b a = false
  | [], [], h => by simp [strLt] at h
  | [], _ :: _, _ => rfl
  | _ :: _, [], h => by simp [strLt] at h
  | x :: as, y :: bs, h => by
    simp only [strLt, Bool.or_eq_true, decide_eq_true_eq, Bool.and_eq_true] at h
    simp only [strLt, Bool.or_eq_false_iff, decide_eq_false_iff_not, Bool.and_eq_false_imp, decide_eq_true_eq]
    rcases h with h | ⟨h1, h2⟩
    · exact ⟨by omega, fun e => by omega⟩
    · exact ⟨by omega, fun _ => strLt_asym as bs h2⟩

theorem strLt_ntr : ∀ a b c : Str, strLt a b = false → strLt b c = false → strLt a c = false
  | [], [], c, _, h2 => h2
  | [], _ :: _, _, h1, _ => by simp [strLt] at h1
  | _ :: _, _, [], _, _ => rfl
  | _ :: _, [], _ :: _, _, h2 => by simp [strLt] at h2
  | x :: as, y :: bs, z :: cs, h1, h2 => by
    simp only [strLt, Bool.or_eq_false_iff, decide_eq_false_iff_not, Bool.and_eq_false_imp, decide_eq_true_eq] at h1 h2 ⊢
    refine ⟨by omega, fun e => ?_⟩
    have e1 : x = y := by omega
    have e2 : y = z := by omega
    exact strLt_ntr as bs cs (h1.2 e1) (h2.2 e2)

theorem strLt_strictWeak : StrictWeak strLt := ⟨strLt_irr, strLt_asym, strLt_ntr⟩

/-- the default tag is one of the tags, and none is greater: numerically when all tags are digit strings,
    lexicographically (code points) otherwise; no tags, no default -/
theorem pickDefaultTag_spec (tags : List Str) :
    (tags = [] → pickDefaultTag tags = none) ∧
    ∀ m, pickDefaultTag tags = some m → m ∈ tags ∧
      (tags.all allAsciiDigits = true → ∀ x ∈ tags, asciiNat x ≤ asciiNat m) ∧
      (tags.all allAsciiDigits = false → ∀ x ∈ tags, strLt m x = false) := by
  constructor
  · intro h; subst h; rfl
  · intro m hm
    unfold pickDefaultTag at hm
    cases hall : tags.all allAsciiDigits with
    | true =>
      rw [hall] at hm; simp only [if_true] at hm
      refine ⟨maxBy_mem _ tags m hm, fun _ x hx => ?_, fun h => Bool.noConfusion h⟩
      have := maxBy_max _ numLt_strictWeak tags m hm x hx
      simp at this; exact this
    | false =>
      rw [hall] at hm; simp only [Bool.false_eq_true, if_false] at hm
      exact ⟨maxBy_mem _ tags m hm, fun h => Bool.noConfusion h, fun _ x hx => maxBy_max _ strLt_strictWeak tags m hm x hx⟩

/-! ### through the TOTP class -/

/-- to_dict() on a class with wallet `w`, from_dict() on a class with wallet `w'` that still lists the tag: the object comes back -/
theorem totp_wallet_roundtrip (cipher : Cipher) (hc : CipherOk cipher) (salts : Nat → Bytes) (hsalts : ∀ n, Bytes.WF (salts n))
    (w w' : AppWallet) (tag : Str) (secret : Bytes)
    (hd : truthy w.defaultTag = some tag) (hs : lookupKey tag w.secrets = some secret) (hs' : lookupKey tag w'.secrets = some secret)
    (hcost : 0 ≤ w.cost)
    (cls cls' : Cls EncDict) (hw : cls.wallet = some (w.toWallet cipher salts)) (hw' : cls'.wallet = some (w'.toWallet cipher salts))
    (hiss : cls'.clsIssuer = cls.clsIssuer) (c : Config) (h : DictOk c) (seed : Nat) :
    (toDict cls c none seed).bind (fromDict cls') =
      .ok { key := c.key, alg := c.alg, digits := c.digits, period := c.period, label := c.label,
            issuer := c.issuer <|> cls.clsIssuer,
            changed := decide (w.cost ≠ w'.cost) || decide (some tag ≠ w'.defaultTag) } := by
  have hsec : w.defaultTag.isSome = true := by
    cases hdt : w.defaultTag with
    | none => rw [hdt] at hd; cases hd
    | some _ => rfl
  unfold toDict wantEncrypt
  simp only [hw, hsec, if_true, AppWallet.toWallet, walletEncrypt_eq cipher w tag secret (salts seed) c.key hd hs h.key_ne, Out.bind]
  have hs2 : dictState cls c = dictState cls' c := by unfold dictState; rw [hiss]
  rw [hs2, ← hiss]
  have hrt := wallet_roundtrip cipher hc w w' tag secret (salts seed) c.key hd hs hs' h.key_ne h.key_wf (hsalts seed) hcost
  rw [walletEncrypt_eq cipher w tag secret (salts seed) c.key hd hs h.key_ne] at hrt
  simp only [Out.bind] at hrt
  exact fromDict_state cls' c h sEnckey (Or.inr rfl)
    (.enc [(sV, .int 1), (sC, .int w.cost), (sT, .str tag), (sS, .str (Model.B64.b32encode (salts seed))),
           (sK, .str (Model.B64.b32encode (cipher secret (salts seed) w.cost c.key)))])
    (decide (w.cost ≠ w'.cost) || decide (some tag ≠ w'.defaultTag)) (by
    simp only [if_true, ctorKey, hw', AppWallet.toWallet, List.isEmpty_cons, Bool.false_eq_true, if_false]
    exact hrt)

end Lemmas.TotpSerial
