import PasslibVerif.Props.C01
import PasslibVerif.Props.C08
import PasslibVerif.Lemmas.C08Crypt
/-
C08 for ANY hasher of the generic model, in the form the format families instantiate (Props/C08Families*.lean).

`C08Facts extra h` collects what a family has to establish about one hasher:
  * the parser raises ValueError, or one of the error kinds listed in `extra` (e.g. the TypeError `ab64_decode` raises on malformed
    base64: documented "value / type error"), on ANY string;
  * the checksum algorithm, run on whatever the parser returned, answers or raises ValueError / one of `extra`;
  * the checksum algorithm does not read the stored checksum.
From these: `verify` is total with an exactly enumerated error set (`Total extra nul`: NullPasswordError only where the class refuses
NUL), an altered checksum never verifies, strings with the same parse are indistinguishable, configuration strings are value errors.
The same four for a `PrefixWrapper` around such a hasher (`unwrap; inner.verify`).
-/
namespace Lemmas.C08Families
open Py Model.Handler Model.Verify Props.C01

/-- the answers the property allows for one hasher: a Boolean, ValueError, PasswordSizeError, NullPasswordError only if `nul`,
    and the error kinds of `extra` (the parser's / digest's documented non-ValueError errors; `[]` for most classes) -/
def Total (extra : List ErrKind) (nul : Bool) (r : Res Bool) : Prop :=
  (∃ v, r = .ok v) ∨ r = .error .valueError ∨ r = .error .sizeError ∨ (nul = true ∧ r = .error .nullError) ∨
    ∃ e ∈ extra, r = .error e

/-- an error of the parser / digest: ValueError or one of `extra` -/
def ErrIn (extra : List ErrKind) (e : ErrKind) : Prop := e = .valueError ∨ e ∈ extra

structure C08Facts (extra : List ErrKind) (h : Hasher) : Prop where
  parseErr : ∀ hs e, h.parse hs = .error e → ErrIn extra e
  digestErr : ∀ hs p b e, h.parse hs = .ok p → h.digest b p = .error e → ErrIn extra e
  ignores : IgnoresChecksum h

/-- the usual case: `parse = toRes ∘ f` (ValueError only) and a digest that always answers -/
theorem facts_of_toRes {h : Hasher} (f : Str → Option Parsed) (hp : h.parse = fun s => toRes (f s))
    (hd : ∀ b p, ∃ c, h.digest b p = .ok c) (hi : IgnoresChecksum h) : C08Facts [] h where
  parseErr := fun hs e he => by rw [hp] at he; exact Or.inl (Lemmas.C08Crypt.toRes_error _ e he)
  digestErr := fun hs p b e _ he => by obtain ⟨c, hc⟩ := hd b p; rw [hc] at he; cases he
  ignores := hi

theorem C08Facts.mono {extra extra' : List ErrKind} {h : Hasher} (F : C08Facts extra h) (hsub : ∀ e ∈ extra, e ∈ extra') :
    C08Facts extra' h where
  parseErr := fun hs e he => (F.parseErr hs e he).imp id (hsub e)
  digestErr := fun hs p b e hp he => (F.digestErr hs p b e hp he).imp id (hsub e)
  ignores := F.ignores

/-- where an error of `verify` comes from, with the NUL refusal tied to the class attribute -/
theorem verify_error_sources (h : Hasher) (s : Secret) (hs : Str) (e : ErrKind) (hv : verify h s hs = .error e) :
    (e = .sizeError ∧ s.len > MAX_PASSWORD_SIZE) ∨ e = .valueError ∨ (e = .nullError ∧ h.rejectsNul = true) ∨ h.parse hs = .error e ∨
      ∃ b p, h.parse hs = .ok p ∧ h.digest b p = .error e := by
  unfold verify at hv
  cases hvs : validateSecret s with
  | error e' =>
    simp only [hvs, Except.error.injEq] at hv
    unfold validateSecret at hvs
    by_cases hl : s.len > MAX_PASSWORD_SIZE
    · simp [hl] at hvs; left; exact ⟨by rw [← hv, ← hvs], hl⟩
    · simp [hl] at hvs
  | ok u =>
    simp only [hvs] at hv
    cases hp : h.parse hs with
    | error e' => simp only [hp, Except.error.injEq] at hv; right; right; right; left; rw [hv]
    | ok p =>
      simp only [hp] at hv
      cases hc : p.checksum with
      | none => simp only [hc, Except.error.injEq] at hv; right; left; exact hv.symm
      | some chk =>
        simp only [hc] at hv
        unfold checksumOf at hv
        cases hb : s.toBytes with
        | error e' =>
          simp only [hb, Except.error.injEq] at hv
          right; left
          unfold Secret.toBytes at hb
          cases s with
          | bytes bs => simp at hb
          | text cps => simp only at hb; split at hb <;> simp at hb; rw [← hv, ← hb]
        | ok b =>
          simp only [hb, Bool.false_eq_true, if_false] at hv
          cases hn : checkNul h b with
          | error e' =>
            simp only [hn, Except.error.injEq] at hv
            right; right; left
            unfold checkNul at hn
            split at hn
            · rename_i hcond
              simp only [Except.error.injEq] at hn
              exact ⟨by rw [← hv, ← hn], hcond.1⟩
            · cases hn
          | ok u =>
            simp only [hn] at hv
            cases hd : h.digest b p with
            | error e' => simp only [hd, Except.error.injEq] at hv; right; right; right; right; exact ⟨b, p, rfl, by rw [hd, hv]⟩
            | ok d => simp [hd] at hv

/-- C08 totality: every string, every secret -/
theorem verify_total {extra : List ErrKind} {h : Hasher} (F : C08Facts extra h) (s : Secret) (hs : Str) :
    Total extra h.rejectsNul (verify h s hs) := by
  unfold Total
  cases hv : verify h s hs with
  | ok v => exact Or.inl ⟨v, rfl⟩
  | error e =>
    right
    have hE : ErrIn extra e → (Except.error e : Res Bool) = .error .valueError ∨ (Except.error e : Res Bool) = .error .sizeError ∨
        (h.rejectsNul = true ∧ (Except.error e : Res Bool) = .error .nullError) ∨ ∃ e' ∈ extra, (Except.error e : Res Bool) = .error e' := by
      rintro (h1 | h1)
      · left; rw [h1]
      · right; right; right; exact ⟨e, h1, rfl⟩
    rcases verify_error_sources h s hs e hv with ⟨h1, _⟩ | h1 | ⟨h1, h2⟩ | h1 | ⟨b, p, hp, hd⟩
    · right; left; rw [h1]
    · left; rw [h1]
    · right; right; left; exact ⟨h2, by rw [h1]⟩
    · exact hE (F.parseErr hs e h1)
    · exact hE (F.digestErr hs p b e hp hd)

/-- the size error is raised exactly for an oversized secret (no parser / digest of the families raises it) -/
theorem verify_sizeError_iff {extra : List ErrKind} {h : Hasher} (F : C08Facts extra h) (hx : ErrKind.sizeError ∉ extra) (s : Secret)
    (hs : Str) : verify h s hs = .error .sizeError ↔ s.len > MAX_PASSWORD_SIZE := by
  constructor
  · intro hv
    rcases verify_error_sources h s hs _ hv with ⟨_, h1⟩ | h1 | ⟨h1, _⟩ | h1 | ⟨b, p, hp, hd⟩
    · exact h1
    · cases h1
    · cases h1
    · rcases F.parseErr hs _ h1 with h2 | h2
      · cases h2
      · exact absurd h2 hx
    · rcases F.digestErr hs p b _ hp hd with h2 | h2
      · cases h2
      · exact absurd h2 hx
  · intro hl; exact (oversized_refused h s {} hs hl).2

/-- a value of `Total` excludes every other error kind -/
theorem Total.not_other {extra : List ErrKind} {nul : Bool} {r : Res Bool} (ht : Total extra nul r) (e : ErrKind)
    (h1 : e ≠ .valueError) (h2 : e ≠ .sizeError) (h3 : e ≠ .nullError) (h4 : e ∉ extra) : r ≠ .error e := by
  intro hr; subst hr
  rcases ht with ⟨v, hv⟩ | hv | hv | ⟨_, hv⟩ | ⟨e', he', hv⟩
  · cases hv
  · cases hv; exact h1 rfl
  · cases hv; exact h2 rfl
  · cases hv; exact h3 rfl
  · cases hv; exact h4 he'

/-- a class that does not refuse NUL never raises NullPasswordError -/
theorem Total.no_null {extra : List ErrKind} {r : Res Bool} (ht : Total extra false r) (h4 : ErrKind.nullError ∉ extra) :
    r ≠ .error .nullError := by
  intro hr; subst hr
  rcases ht with ⟨v, hv⟩ | hv | hv | ⟨hf, _⟩ | ⟨e', he', hv⟩
  · cases hv
  · cases hv
  · cases hv
  · cases hf
  · cases hv; exact h4 he'

/-- C08 altered checksum, string level: `hs` verifies `s`; `hs'` parses to the same settings with another checksum: False for `s` -/
theorem altered_checksum_rejected {extra : List ErrKind} {h : Hasher} (F : C08Facts extra h) (s : Secret) (hs hs' : Str) (p : Parsed)
    (c c' : Str) (hp : h.parse hs = .ok { p with checksum := some c }) (hp' : h.parse hs' = .ok { p with checksum := some c' })
    (hne : c' ≠ c) (hv : verify h s hs = .ok true) : verify h s hs' = .ok false :=
  Props.C08.altered_checksum_never_verifies h s hs hs' p c c' F.ignores hp hp' hne hv

/-- C08 altered checksum, `hash` level: `hs` was made by `hash` for `s` under settings on which the format round-trips -/
theorem altered_hash_rejected {extra : List ErrKind} {h : Hasher} (F : C08Facts extra h) (s : Secret) (p : Parsed) (hs hs' c' : Str)
    (hrt : RoundTrips h p) (hh : hashSecret h s p = .ok hs) (hp' : h.parse hs' = .ok { p with checksum := some c' })
    (hne : h.parse hs' ≠ h.parse hs) : verify h s hs' = .ok false :=
  Lemmas.C08Crypt.altered_checksum_of_hash h s p hs hs' c' hrt F.ignores hh hp' hne

/-- more: ANY alteration that keeps the settings the digest reads (same parse up to the checksum) is decided by the checksum alone -/
theorem altered_iff_checksum {extra : List ErrKind} {h : Hasher} (F : C08Facts extra h) (s : Secret) (hs hs' : Str) (p : Parsed)
    (c c' : Str) (hp : h.parse hs = .ok { p with checksum := some c }) (hp' : h.parse hs' = .ok { p with checksum := some c' })
    (hv : verify h s hs = .ok true) : verify h s hs' = .ok (c' == c) := by
  by_cases hcc : c' = c
  · subst hcc
    rw [Props.C08.verify_depends_on_parse h s hs' hs (by rw [hp, hp']), hv]; simp
  · rw [altered_checksum_rejected F s hs hs' p c c' hp hp' hcc hv]; simp [hcc]

theorem same_parse_same_answer (h : Hasher) (s : Secret) (h1 h2 : Str) (hp : h.parse h1 = h.parse h2) :
    verify h s h1 = verify h s h2 := Props.C08.verify_depends_on_parse h s h1 h2 hp

theorem config_string_value_error (h : Hasher) (s : Secret) (hs : Str) (p : Parsed) (hl : s.len ≤ MAX_PASSWORD_SIZE)
    (hp : h.parse hs = .ok p) (hc : p.checksum = none) : verify h s hs = .error .valueError :=
  Props.C08.config_string_is_value_error h s hs p (by unfold validateSecret; simp; omega) hp hc

/-! ### PrefixWrapper around a hasher: `verify(secret, hash) = wrapped.verify(secret, unwrap(hash))`, unwrap first

`unwrap hs = some inner string` or `none` (InvalidHashError, a ValueError).  Stated for any `unwrap : Str → Option Str` so that the
three wrapper models of the families (Pbkdf.wrapVerify, Static.wrapVerify, Wrap.wrapVerifyWith) are instances. -/

def unwrapVerify (unwrap : Str → Option Str) (inner : Secret → Str → Res Bool) (s : Secret) (hs : Str) : Res Bool :=
  match unwrap hs with
  | none => .error .valueError
  | some u => inner s u

theorem unwrap_total {extra : List ErrKind} {nul : Bool} (unwrap : Str → Option Str) (inner : Secret → Str → Res Bool)
    (hin : ∀ s u, Total extra nul (inner s u)) (s : Secret) (hs : Str) : Total extra nul (unwrapVerify unwrap inner s hs) := by
  unfold unwrapVerify
  cases unwrap hs with
  | none => exact Or.inr (Or.inl rfl)
  | some u => exact hin s u

theorem unwrap_same_parse (unwrap : Str → Option Str) (h : Hasher) (s : Secret) (h1 h2 u1 u2 : Str)
    (hu1 : unwrap h1 = some u1) (hu2 : unwrap h2 = some u2) (hp : h.parse u1 = h.parse u2) :
    unwrapVerify unwrap (verify h) s h1 = unwrapVerify unwrap (verify h) s h2 := by
  unfold unwrapVerify; rw [hu1, hu2]; exact same_parse_same_answer h s u1 u2 hp

theorem unwrap_altered_checksum_rejected {extra : List ErrKind} {h : Hasher} (F : C08Facts extra h) (unwrap : Str → Option Str)
    (s : Secret) (hs hs' u u' : Str) (p : Parsed) (c c' : Str) (hu : unwrap hs = some u) (hu' : unwrap hs' = some u')
    (hp : h.parse u = .ok { p with checksum := some c }) (hp' : h.parse u' = .ok { p with checksum := some c' })
    (hne : c' ≠ c) (hv : unwrapVerify unwrap (verify h) s hs = .ok true) : unwrapVerify unwrap (verify h) s hs' = .ok false := by
  unfold unwrapVerify at hv ⊢; rw [hu] at hv; rw [hu']
  exact altered_checksum_rejected F s u u' p c c' hp hp' hne hv

theorem unwrap_config_string_value_error (unwrap : Str → Option Str) (h : Hasher) (s : Secret) (hs u : Str) (p : Parsed)
    (hl : s.len ≤ MAX_PASSWORD_SIZE) (hu : unwrap hs = some u) (hp : h.parse u = .ok p) (hc : p.checksum = none) :
    unwrapVerify unwrap (verify h) s hs = .error .valueError := by
  unfold unwrapVerify; rw [hu]; exact config_string_value_error h s u p hl hp hc

/-- a string without the wrapper's prefix is a ValueError whatever the secret (even an oversized one: unwrap comes first) -/
theorem unwrap_no_prefix (unwrap : Str → Option Str) (inner : Secret → Str → Res Bool) (s : Secret) (hs : Str)
    (hu : unwrap hs = none) : unwrapVerify unwrap inner s hs = .error .valueError := by
  unfold unwrapVerify; rw [hu]

end Lemmas.C08Families
