import PasslibVerif.Lemmas.C01DesBcrypt
/-
Lemmas for Props.C01DesBcrypt, part 3 (DES family beyond des_crypt): alphabet / length of the bigcrypt and crypt16 checksums, and
"the eighth bit of a password byte is not part of a DES key" carried through the chunking of bsdi_crypt, bigcrypt and crypt16.
-/
namespace Lemmas.C01DesBcrypt
open Py Model.Handler Model.Formats Model.Verify Props.C01 Lemmas.Formats
open Spec.Formats (desKeyOfChars desCryptBlock bigcryptSegs chunks chunksOf bsdiFold bsdiKey bsdiCrypt)

/-! ### bigcrypt / crypt16: the checksum is hash64 text of the right length -/

theorem desCrypt_ok (pwd salt : Bytes) : allIn h64 (Spec.Formats.desCrypt pwd salt) = true ∧ (Spec.Formats.desCrypt pwd salt).length = 11 :=
  desCryptBlock_ok _ _ _

theorem bigcryptSegs_ok : ∀ (segs : List Bytes) (salt : Bytes),
    allIn h64 (bigcryptSegs salt segs) = true ∧ (bigcryptSegs salt segs).length = 11 * segs.length
  | [], _ => ⟨rfl, rfl⟩
  | seg :: rest, salt => by
    have h1 := desCrypt_ok seg salt
    have h2 := bigcryptSegs_ok rest ((Spec.Formats.desCrypt seg salt).take 2)
    simp only [bigcryptSegs, Lemmas.Formats.allIn_append, h1.1, h2.1, Bool.and_self, List.length_append, h1.2, h2.2, List.length_cons,
      true_and]
    omega

theorem chunks_ne_nil (n fuel : Nat) (bs : Bytes) (h : bs ≠ []) : chunks n (fuel + 1) bs ≠ [] := by
  unfold chunks
  have : bs.isEmpty = false := by
    cases bs with
    | nil => exact absurd rfl h
    | cons _ _ => rfl
  simp [this]

theorem chunksOf_ne_nil (n : Nat) (bs : Bytes) (h : bs ≠ []) : chunksOf n bs ≠ [] := by
  unfold chunksOf
  cases hb : bs with
  | nil => exact absurd hb h
  | cons b rest => exact chunks_ne_nil n rest.length (b :: rest) (by simp)

/-- bigcrypt: a positive multiple of eleven hash64 characters -/
theorem bigcrypt_ok (pwd salt : Bytes) :
    allIn h64 (Spec.Formats.bigcrypt pwd salt) = true ∧ 0 < (Spec.Formats.bigcrypt pwd salt).length ∧ (Spec.Formats.bigcrypt pwd salt).length % 11 = 0 := by
  unfold Spec.Formats.bigcrypt
  have hne : (if pwd.isEmpty = true then [[]] else chunksOf 8 pwd) ≠ [] := by
    split
    · simp
    · rename_i h
      exact chunksOf_ne_nil 8 pwd (by intro e; subst e; simp at h)
  have hok := bigcryptSegs_ok (if pwd.isEmpty = true then [[]] else chunksOf 8 pwd) (salt.take 2)
  refine ⟨hok.1, ?_, ?_⟩
  · rw [hok.2]
    have : 0 < (if pwd.isEmpty = true then [[]] else chunksOf 8 pwd).length := List.length_pos_iff.mpr hne
    omega
  · rw [hok.2]; omega

theorem crypt16_ok (pwd salt : Bytes) : allIn h64 (Spec.Formats.crypt16 pwd salt) = true ∧ (Spec.Formats.crypt16 pwd salt).length = 22 := by
  refine ⟨?_, Lemmas.C02Formats.crypt16_length pwd salt⟩
  unfold Spec.Formats.crypt16
  simp only [Lemmas.Formats.allIn_append, (desCryptBlock_ok _ _ _).1, Bool.and_self]

/-! ### the eighth bit -/

/-- `a` and `b` are the same text up to the eighth bit of each byte -/
def Same7 (a b : Bytes) : Prop := a.map (· % 128) = b.map (· % 128)

theorem Same7.length {a b : Bytes} (h : Same7 a b) : a.length = b.length := by
  have := congrArg List.length h
  simpa using this

theorem Same7.getD {a b : Bytes} (h : Same7 a b) (i : Nat) : a.getD i 0 % 128 = b.getD i 0 % 128 := by
  have e : ∀ l : Bytes, (l.map (· % 128)).getD i 0 = l.getD i 0 % 128 := by
    intro l
    simp only [List.getD_eq_getElem?_getD, List.getElem?_map]
    cases l[i]? <;> simp
  rw [← e a, ← e b, h]

theorem Same7.take {a b : Bytes} (h : Same7 a b) (n : Nat) : Same7 (a.take n) (b.take n) := by
  unfold Same7 at h ⊢
  rw [List.map_take, List.map_take, h]

theorem Same7.drop {a b : Bytes} (h : Same7 a b) (n : Nat) : Same7 (a.drop n) (b.drop n) := by
  unfold Same7 at h ⊢
  rw [List.map_drop, List.map_drop, h]

theorem Same7.isEmpty {a b : Bytes} (h : Same7 a b) : a.isEmpty = b.isEmpty := by
  have := h.length
  cases a <;> cases b <;> simp_all

theorem Same7.key {a b : Bytes} (h : Same7 a b) : desKeyOfChars a = desKeyOfChars b :=
  desKeyOfChars_congr a b (fun i _ => h.getD i)

theorem Same7.desCrypt {a b : Bytes} (h : Same7 a b) (salt : Bytes) : Spec.Formats.desCrypt a salt = Spec.Formats.desCrypt b salt :=
  desCrypt_congr a b salt (fun i _ => h.getD i)

/-- two lists of segments, pairwise the same up to the eighth bit -/
inductive AllSame7 : List Bytes → List Bytes → Prop
  | nil : AllSame7 [] []
  | cons {a b : Bytes} {as bs : List Bytes} : Same7 a b → AllSame7 as bs → AllSame7 (a :: as) (b :: bs)

theorem chunks_same7 (n : Nat) : ∀ (fuel : Nat) (a b : Bytes), Same7 a b → AllSame7 (chunks n fuel a) (chunks n fuel b)
  | 0, _, _, _ => AllSame7.nil
  | fuel + 1, a, b, h => by
    unfold chunks
    rw [h.isEmpty]
    split
    · exact AllSame7.nil
    · exact AllSame7.cons (h.take n) (chunks_same7 n fuel _ _ (h.drop n))

theorem chunksOf_same7 (n : Nat) (a b : Bytes) (h : Same7 a b) : AllSame7 (chunksOf n a) (chunksOf n b) := by
  unfold chunksOf
  rw [h.length]
  exact chunks_same7 n _ a b h

theorem bsdiFold_same7 : ∀ (xs ys : List Bytes), AllSame7 xs ys → ∀ k, bsdiFold k xs = bsdiFold k ys
  | _, _, .nil, _ => rfl
  | _, _, .cons h t, k => by
    simp only [bsdiFold, h.key]
    exact bsdiFold_same7 _ _ t _

/-- bsdi_crypt reads seven bits of every byte -/
theorem bsdiCrypt_same7 (a b salt : Bytes) (rounds : Nat) (h : Same7 a b) : bsdiCrypt a salt rounds = bsdiCrypt b salt rounds := by
  unfold bsdiCrypt bsdiKey
  rw [h.key, bsdiFold_same7 _ _ (chunksOf_same7 8 _ _ (h.drop 8))]

theorem bigcryptSegs_same7 : ∀ (xs ys : List Bytes), AllSame7 xs ys → ∀ salt, bigcryptSegs salt xs = bigcryptSegs salt ys
  | _, _, .nil, _ => rfl
  | _, _, .cons h t, salt => by
    simp only [bigcryptSegs, h.desCrypt]
    rw [bigcryptSegs_same7 _ _ t]

/-- bigcrypt reads seven bits of every byte -/
theorem bigcrypt_same7 (a b salt : Bytes) (h : Same7 a b) : Spec.Formats.bigcrypt a salt = Spec.Formats.bigcrypt b salt := by
  unfold Spec.Formats.bigcrypt
  rw [h.isEmpty]
  split
  · rfl
  · exact bigcryptSegs_same7 _ _ (chunksOf_same7 8 a b h) _

/-- crypt16 reads seven bits of each of the first sixteen bytes (zero past the end) -/
theorem crypt16_congr (a b salt : Bytes) (h : ∀ i, i < 16 → a.getD i 0 % 128 = b.getD i 0 % 128) : Spec.Formats.crypt16 a salt = Spec.Formats.crypt16 b salt := by
  have g1 : ∀ (l : Bytes) i, i < 8 → (l.take 8).getD i 0 = l.getD i 0 := by
    intro l i hi
    simp only [List.getD_eq_getElem?_getD, List.getElem?_take, hi, if_true]
  have g2 : ∀ (l : Bytes) i, i < 8 → ((l.drop 8).take 8).getD i 0 = l.getD (8 + i) 0 := by
    intro l i hi
    simp only [List.getD_eq_getElem?_getD, List.getElem?_take, hi, if_true, List.getElem?_drop]
  unfold Spec.Formats.crypt16
  simp only []
  rw [desKeyOfChars_congr (a.take 8) (b.take 8) (fun i hi => by rw [g1 a i hi, g1 b i hi]; exact h i (by omega)),
    desKeyOfChars_congr ((a.drop 8).take 8) ((b.drop 8).take 8) (fun i hi => by rw [g2 a i hi, g2 b i hi]; exact h (8 + i) (by omega))]

theorem take_getD (n : Nat) (a b : Bytes) (h : a.take n = b.take n) (i : Nat) (hi : i < n) : a.getD i 0 = b.getD i 0 := by
  have ha : (a.take n).getD i 0 = a.getD i 0 := by simp only [List.getD_eq_getElem?_getD, List.getElem?_take, hi, if_true]
  have hb : (b.take n).getD i 0 = b.getD i 0 := by simp only [List.getD_eq_getElem?_getD, List.getElem?_take, hi, if_true]
  rw [← ha, ← hb, h]

end Lemmas.C01DesBcrypt
