import PasslibVerif.Model.Blowfish
import PasslibVerif.Lemmas.Bits
import PasslibVerif.Lemmas.BlowfishPi
/-
Lemmas for C11 (Blowfish / bcrypt): passlib's engines (base.py loop, unrolled.py generated
code) and `raw_bcrypt` equal the executable specification `Spec.Bcrypt`.
-/
namespace Lemmas.Blowfish
open Spec.Bcrypt Model.Blowfish Gen.Blowfish

/-! ## generic helpers -/

theorem length18 {α : Type} (l : List α) (h : l.length = 18) :
    ∃ a0 a1 a2 a3 a4 a5 a6 a7 a8 a9 a10 a11 a12 a13 a14 a15 a16 a17,
      l = [a0, a1, a2, a3, a4, a5, a6, a7, a8, a9, a10, a11, a12, a13, a14, a15, a16, a17] := by
  rcases l with _ | ⟨a0, l⟩
  · simp at h
  rcases l with _ | ⟨a1, l⟩
  · simp at h
  rcases l with _ | ⟨a2, l⟩
  · simp at h
  rcases l with _ | ⟨a3, l⟩
  · simp at h
  rcases l with _ | ⟨a4, l⟩
  · simp at h
  rcases l with _ | ⟨a5, l⟩
  · simp at h
  rcases l with _ | ⟨a6, l⟩
  · simp at h
  rcases l with _ | ⟨a7, l⟩
  · simp at h
  rcases l with _ | ⟨a8, l⟩
  · simp at h
  rcases l with _ | ⟨a9, l⟩
  · simp at h
  rcases l with _ | ⟨a10, l⟩
  · simp at h
  rcases l with _ | ⟨a11, l⟩
  · simp at h
  rcases l with _ | ⟨a12, l⟩
  · simp at h
  rcases l with _ | ⟨a13, l⟩
  · simp at h
  rcases l with _ | ⟨a14, l⟩
  · simp at h
  rcases l with _ | ⟨a15, l⟩
  · simp at h
  rcases l with _ | ⟨a16, l⟩
  · simp at h
  rcases l with _ | ⟨a17, l⟩
  · simp at h
  rcases l with _ | ⟨b, l⟩
  · exact ⟨_, _, _, _, _, _, _, _, _, _, _, _, _, _, _, _, _, _, rfl⟩
  · simp at h

/-- two folds over `List.range n` stay related -/
theorem foldl_range_rel {α β : Type} (f : α → Nat → α) (g : β → Nat → β) (R : Nat → α → β → Prop)
    (n : Nat) (a : α) (b : β) (h0 : R 0 a b)
    (hs : ∀ k a b, k < n → R k a b → R (k + 1) (f a k) (g b k)) :
    R n ((List.range n).foldl f a) ((List.range n).foldl g b) := by
  induction n with
  | zero => simpa using h0
  | succ n ih =>
    rw [List.range_succ, List.foldl_append, List.foldl_append]
    simp only [List.foldl_cons, List.foldl_nil]
    exact hs n _ _ (Nat.lt_succ_self n) (ih (fun k a b hk => hs k a b (Nat.lt_succ_of_lt hk)))

/-! ## (a) one block: unrolled = loop = spec -/

/-- the `F` expression as written in passlib (mask once at the end, top byte unmasked) -/
def gF (S0 S1 S2 S3 : Array Nat) (x : Nat) : Nat :=
  ((((lookup S0 (x >>> 24) + lookup S1 ((x >>> 16) &&& 255)) ^^^ lookup S2 ((x >>> 8) &&& 255))
    + lookup S3 (x &&& 255)) &&& 4294967295)

/-- one statement of unrolled.py: `b ^= F(a) ^ p`, followed by exchanging the roles -/
def gstep (S0 S1 S2 S3 : Array Nat) (p : Nat) (x : Nat × Nat) : Nat × Nat :=
  (x.2 ^^^ (gF S0 S1 S2 S3 x.1 ^^^ p), x.1)

set_option maxRecDepth 4000 in
/-- the 16 generated statements are 16 applications of `gstep` -/
theorem feistelRounds_eq (p1 p2 p3 p4 p5 p6 p7 p8 p9 p10 p11 p12 p13 p14 p15 p16 p17 : Nat)
    (S0 S1 S2 S3 : Array Nat) (l r : Nat) :
    feistelRounds p1 p2 p3 p4 p5 p6 p7 p8 p9 p10 p11 p12 p13 p14 p15 p16 p17 S0 S1 S2 S3 l r =
      (let x := [p1, p2, p3, p4, p5, p6, p7, p8, p9, p10, p11, p12, p13, p14, p15, p16].foldl
          (fun x p => gstep S0 S1 S2 S3 p x) (l, r)
       (x.2 ^^^ p17, x.1)) := by
  rfl

/-- sub-keys `P[1..16]` -/
def midKeys (P : List Nat) : List Nat := (List.range' 1 16).map (lookupL P)

theorem encipherUnrolled_eq_fold (e : Engine) (l r : Nat) :
    encipherUnrolled e l r =
      (let x := (midKeys e.P).foldl (fun x p => gstep (box e 0) (box e 1) (box e 2) (box e 3) p x)
          (l ^^^ lookupL e.P 0, r)
       (x.2 ^^^ lookupL e.P 17, x.1)) := by
  unfold encipherUnrolled Gen.Blowfish.encipher
  simp only [feistelRounds_eq]
  rfl

theorem encipherLoop_eq_fold (e : Engine) (l r : Nat) :
    encipherLoop e l r =
      (let x := (midKeys e.P).foldl (fun x p => gstep (box e 0) (box e 1) (box e 2) (box e 3) p x)
          (l ^^^ lookupL e.P 0, r)
       (x.2 ^^^ lookupL e.P 17, x.1)) := by
  unfold encipherLoop midKeys
  simp only [List.foldl_map]
  have hstep : ∀ (lr : Nat × Nat) (i : Nat),
      (((((lookup (box e 0) (lr.1 >>> 24) + lookup (box e 1) ((lr.1 >>> 16) &&& 0xFF))
                    ^^^ lookup (box e 2) ((lr.1 >>> 8) &&& 0xFF))
                  + lookup (box e 3) (lr.1 &&& 0xFF)) &&& 0xFFFFFFFF) ^^^ lookupL e.P i ^^^ lr.2, lr.1)
        = gstep (box e 0) (box e 1) (box e 2) (box e 3) (lookupL e.P i) lr := by
    intro lr i
    simp only [gstep, gF]
    rw [Nat.xor_comm]
  simp only [hstep]

/-- **unrolled.py `encipher` = base.py `encipher`**, for every engine state and block
    (no well-formedness needed: both index the same tables in the same way). -/
theorem encipherUnrolled_eq_loop (e : Engine) (l r : Nat) :
    encipherUnrolled e l r = encipherLoop e l r := by
  rw [encipherUnrolled_eq_fold, encipherLoop_eq_fold]

/-- well-formed engine state: 18 sub-keys, each a 32-bit word -/
def WF (st : State) : Prop := st.P.length = 18 ∧ ∀ p ∈ st.P, p < 4294967296

theorem two32 : (4294967296 : Nat) = 2 ^ 32 := by decide

theorem add_xor_add_mod (a c d : Nat) :
    ((a % 4294967296 ^^^ c) + d) % 4294967296 = ((a ^^^ c) + d) % 4294967296 := by
  rw [two32, Nat.add_mod, Nat.xor_mod_two_pow, Nat.mod_mod, ← Nat.xor_mod_two_pow, ← Nat.add_mod]

theorem F_lt (st : State) (x : Nat) : F st x < 4294967296 := by
  unfold F add32; exact Nat.mod_lt _ (by decide)

theorem gF_eq_F (st : State) (x : Nat) (hx : x < 4294967296) :
    gF (box st 0) (box st 1) (box st 2) (box st 3) x = F st x := by
  have h24 : (x >>> 24) % 256 = x >>> 24 := by
    rw [Nat.shiftRight_eq_div_pow]; omega
  simp only [gF, F, add32, State.sbox, box, lookup, Bits.and255, Bits.and32bit, h24]
  rw [add_xor_add_mod]

def shift (p : Nat) (x : Nat × Nat) : Nat × Nat := (x.1 ^^^ p, x.2)

theorem gstep_shift (st : State) (p p' : Nat) (x : Nat × Nat) (h : x.1 ^^^ p < 4294967296) :
    gstep (box st 0) (box st 1) (box st 2) (box st 3) p' (shift p x) = shift p' (round st x p) := by
  simp only [gstep, shift, round, gF_eq_F st _ h]
  congr 1
  ac_rfl

theorem fold_gstep_round (st : State) (qs : List Nat) (ql : Nat) :
    ∀ (p : Nat) (x : Nat × Nat), p < 4294967296 → (∀ q ∈ qs, q < 4294967296) →
      x.1 < 4294967296 → x.2 < 4294967296 →
      (qs ++ [ql]).foldl (fun x p => gstep (box st 0) (box st 1) (box st 2) (box st 3) p x) (shift p x)
        = shift ql ((p :: qs).foldl (round st) x) := by
  induction qs with
  | nil =>
    intro p x hp _ hx1 _
    simp only [List.nil_append, List.foldl_cons, List.foldl_nil]
    exact gstep_shift st p ql x (Nat.xor_lt_two_pow (n := 32) hx1 hp)
  | cons q qs ih =>
    intro p x hp hq hx1 hx2
    have hxp : x.1 ^^^ p < 4294967296 := Nat.xor_lt_two_pow (n := 32) hx1 hp
    simp only [List.cons_append, List.foldl_cons]
    rw [gstep_shift st p q x hxp]
    rw [ih q (round st x p) (hq q (by simp)) (fun q' h' => hq q' (by simp [h']))]
    · simp only [List.foldl_cons]
    · exact Nat.xor_lt_two_pow (n := 32) (F_lt st _) hx2
    · exact hxp


theorem round_lt (st : State) (x : Nat × Nat) (p : Nat) (hp : p < 4294967296)
    (h1 : x.1 < 4294967296) (h2 : x.2 < 4294967296) :
    (round st x p).1 < 4294967296 ∧ (round st x p).2 < 4294967296 :=
  ⟨Nat.xor_lt_two_pow (n := 32) (F_lt st _) h2, Nat.xor_lt_two_pow (n := 32) h1 hp⟩

theorem foldl_round_lt (st : State) (ps : List Nat) :
    ∀ (x : Nat × Nat), (∀ p ∈ ps, p < 4294967296) → x.1 < 4294967296 → x.2 < 4294967296 →
      (ps.foldl (round st) x).1 < 4294967296 ∧ (ps.foldl (round st) x).2 < 4294967296 := by
  induction ps with
  | nil => intro x _ h1 h2; exact ⟨h1, h2⟩
  | cons p ps ih =>
    intro x hp h1 h2
    have := round_lt st x p (hp p (by simp)) h1 h2
    exact ih _ (fun q hq => hp q (by simp [hq])) this.1 this.2

/-- **base.py `encipher` = Blowfish encryption of the specification** on well-formed states -/
theorem encipherLoop_eq_spec (st : State) (h : WF st) (l r : Nat)
    (hl : l < 4294967296) (hr : r < 4294967296) :
    encipherLoop st l r = Spec.Bcrypt.encipher st (l, r) := by
  obtain ⟨P, S⟩ := st
  obtain ⟨hlen, hP⟩ := h
  obtain ⟨p0, p1, p2, p3, p4, p5, p6, p7, p8, p9, p10, p11, p12, p13, p14, p15, p16, p17, rfl⟩ :=
    length18 P hlen
  rw [encipherLoop_eq_fold]
  have hmid : midKeys [p0, p1, p2, p3, p4, p5, p6, p7, p8, p9, p10, p11, p12, p13, p14, p15, p16, p17]
      = [p1, p2, p3, p4, p5, p6, p7, p8, p9, p10, p11, p12, p13, p14, p15] ++ [p16] := rfl
  have := fold_gstep_round ⟨[p0, p1, p2, p3, p4, p5, p6, p7, p8, p9, p10, p11, p12, p13, p14, p15, p16, p17], S⟩
    [p1, p2, p3, p4, p5, p6, p7, p8, p9, p10, p11, p12, p13, p14, p15] p16 p0 (l, r)
    (hP p0 (by simp)) (fun q hq => hP q (List.mem_cons_of_mem p0 (List.mem_of_mem_take (i := 15) hq))) hl hr
  have e0 : (l ^^^ lookupL [p0, p1, p2, p3, p4, p5, p6, p7, p8, p9, p10, p11, p12, p13, p14, p15, p16, p17] 0, r)
      = shift p0 (l, r) := rfl
  have e17 : lookupL [p0, p1, p2, p3, p4, p5, p6, p7, p8, p9, p10, p11, p12, p13, p14, p15, p16, p17] 17 = p17 := rfl
  have g16 : [p0, p1, p2, p3, p4, p5, p6, p7, p8, p9, p10, p11, p12, p13, p14, p15, p16, p17].getD 16 0 = p16 := rfl
  have g17 : [p0, p1, p2, p3, p4, p5, p6, p7, p8, p9, p10, p11, p12, p13, p14, p15, p16, p17].getD 17 0 = p17 := rfl
  have etake : List.take 16 [p0, p1, p2, p3, p4, p5, p6, p7, p8, p9, p10, p11, p12, p13, p14, p15, p16, p17]
      = p0 :: [p1, p2, p3, p4, p5, p6, p7, p8, p9, p10, p11, p12, p13, p14, p15] := rfl
  simp only [Spec.Bcrypt.encipher, hmid, e0, e17, g16, g17, etake, this]
  simp only [shift]

theorem encipher_spec_lt (st : State) (h : WF st) (l r : Nat)
    (hl : l < 4294967296) (hr : r < 4294967296) :
    (Spec.Bcrypt.encipher st (l, r)).1 < 4294967296 ∧ (Spec.Bcrypt.encipher st (l, r)).2 < 4294967296 := by
  obtain ⟨hlen, hP⟩ := h
  have hk : ∀ i, st.P.getD i 0 < 4294967296 := by
    intro i
    rw [List.getD_eq_getElem?_getD]
    cases hi : st.P[i]? with
    | none => simp
    | some v => exact hP v (List.mem_of_getElem? hi)
  have hf := foldl_round_lt st (st.P.take 16) (l, r) (fun p hp => hP p (List.mem_of_mem_take hp)) hl hr
  unfold Spec.Bcrypt.encipher
  exact ⟨Nat.xor_lt_two_pow (n := 32) hf.2 (hk 17), Nat.xor_lt_two_pow (n := 32) hf.1 (hk 16)⟩

/-! ## (b) key schedule -/

/-- `Spec.Bcrypt.expandStep` for an arbitrary block function `E` and salt word stream `sw` -/
def schedStep (E : State → Nat × Nat → Nat × Nat) (sw : Nat → Nat)
    (acc : State × (Nat × Nat)) (k : Nat) : State × (Nat × Nat) :=
  let blk := (acc.2.1 ^^^ sw (2 * k), acc.2.2 ^^^ sw (2 * k + 1))
  let blk := E acc.1 blk
  (writePair acc.1 k blk, blk)

/-- the 521-pair replacement loop of ExpandKey -/
def sched (E : State → Nat × Nat → Nat × Nat) (sw : Nat → Nat) (st : State) : State :=
  ((List.range 521).foldl (schedStep E sw) (st, (0, 0))).1

theorem expandKey_eq_sched (st : State) (salt key : List Nat) :
    expandKey st salt key =
      sched Spec.Bcrypt.encipher (streamWord salt)
        { st with P := st.P.mapIdx fun i p => p ^^^ streamWord key i } := rfl

theorem range521 :
    List.range 521 = List.range 9 ++
      (List.range 4).flatMap (fun b => (List.range 128).map (fun k => 9 + 128 * b + k)) := by
  decide +kernel

/-- the loop over the 521 pairs, split as passlib's three nested loops -/
theorem sched_phases (E : State → Nat × Nat → Nat × Nat) (sw : Nat → Nat) (acc : State × (Nat × Nat)) :
    (List.range 521).foldl (schedStep E sw) acc =
      (List.range 4).foldl (fun acc b =>
          (List.range 128).foldl (fun acc k => schedStep E sw acc (9 + 128 * b + k)) acc)
        ((List.range 9).foldl (schedStep E sw) acc) := by
  rw [range521, List.foldl_append, List.foldl_flatMap]
  simp only [List.foldl_map]

/-- the accumulator of the specification's loop seen in passlib's loop state -/
def toAcc (st : Loop) : State × (Nat × Nat) := (st.e, (st.l, st.r))

/-- bound method as a function on blocks -/
def asBlock (enc : Engine → Nat → Nat → Nat × Nat) : State → Nat × Nat → Nat × Nat :=
  fun e b => enc e b.1 b.2

theorem writePair_P (e : State) (k : Nat) (hk : k < 9) (lr : Nat × Nat) :
    writePair e k lr = setP e (2 * k) lr := by
  simp [writePair, hk, setP]

theorem writePair_S (e : State) (b k : Nat) (hk : k < 128) (lr : Nat × Nat) :
    writePair e (9 + 128 * b + k) lr = setBox e b (2 * k) lr := by
  have h1 : ¬ (9 + 128 * b + k < 9) := by omega
  have h2 : (9 + 128 * b + k - 9) / 128 = b := by omega
  have h3 : (9 + 128 * b + k - 9) % 128 = k := by omega
  simp only [writePair, h1, if_false, h2, h3, setBox]

/-- base.py `expand` is the 521-pair loop with the all-zero salt stream -/
theorem expandBase_eq_sched (enc : Engine → Nat → Nat → Nat × Nat) (e : Engine) (kw : List Nat) :
    expandBase enc e kw =
      sched (asBlock enc) (fun _ => 0) { e with P := xorKeyWords e.P kw } := by
  unfold expandBase sched
  rw [sched_phases]
  have key := foldl_range_rel
    (f := fun (st : Loop) b => (List.range 128).foldl (fun (st : Loop) k =>
        let i := 2 * k
        let lr := enc st.e st.l st.r
        { st with e := setBox st.e b i lr, l := lr.1, r := lr.2 }) st)
    (g := fun acc b => (List.range 128).foldl (fun acc k => schedStep (asBlock enc) (fun _ => 0) acc (9 + 128 * b + k)) acc)
    (R := fun _ st acc => toAcc st = acc) 4
    ((List.range 9).foldl (fun (st : Loop) k =>
      let i := 2 * k
      let lr := enc st.e st.l st.r
      { st with e := setP st.e i lr, l := lr.1, r := lr.2 }) { e := { e with P := xorKeyWords e.P kw }, l := 0, r := 0 })
    ((List.range 9).foldl (schedStep (asBlock enc) (fun _ => 0)) ({ e with P := xorKeyWords e.P kw }, (0, 0)))
    (by
      apply foldl_range_rel (R := fun _ (st : Loop) acc => toAcc st = acc)
      · rfl
      · intro k st acc hk h
        subst h
        simp only [toAcc, schedStep, asBlock, Nat.xor_zero, writePair_P _ k hk])
    (by
      intro b st acc hb h
      apply foldl_range_rel (R := fun _ (st : Loop) acc => toAcc st = acc)
      · exact h
      · intro k st acc hk h
        subst h
        simp only [toAcc, schedStep, asBlock, Nat.xor_zero, writePair_S _ b k hk])
  have key2 := congrArg Prod.fst key
  simp only [toAcc] at key2
  exact key2

/-- word `i` of the cyclic repetition of the word list `sw` -/
def cyc (sw : List Nat) (i : Nat) : Nat := lookupL sw (i % sw.length)

/-- passlib's running salt index `s` (`s += 2; if s == salt_size: s = 0`) is `2k mod salt_size` -/
theorem cyc_idx (n k : Nat) (hn : 0 < n) (he : n % 2 = 0) :
    (2 * k + 1) % n = (2 * k) % n + 1 ∧
    (2 * (k + 1)) % n = (if (2 * k) % n + 2 = n then 0 else (2 * k) % n + 2) := by
  have hq := Nat.div_add_mod (2 * k) n
  have hs : (2 * k) % n < n := Nat.mod_lt _ hn
  have hs2 : (2 * k) % n % 2 = 0 := by
    rw [Nat.mod_mod_of_dvd _ (Nat.dvd_of_mod_eq_zero he)]; omega
  generalize (2 * k) % n = s at *
  generalize (2 * k) / n = q at *
  constructor
  · have : 2 * k + 1 = (s + 1) + n * q := by omega
    rw [this, Nat.add_mul_mod_self_left, Nat.mod_eq_of_lt (by omega)]
  · by_cases h : s + 2 = n
    · rw [if_pos h]
      have : 2 * (k + 1) = n * q + n := by omega
      rw [this, Nat.add_mod_right, Nat.mul_mod_right]
    · rw [if_neg h]
      have : 2 * (k + 1) = (s + 2) + n * q := by omega
      rw [this, Nat.add_mul_mod_self_left, Nat.mod_eq_of_lt (by omega)]

/-- relation between passlib's loop state before pair `k` and the specification's accumulator -/
def SRel (n : Nat) (k : Nat) (st : Loop) (acc : State × (Nat × Nat)) : Prop :=
  toAcc st = acc ∧ st.s = (2 * k) % n

theorem saltedStep_rel (enc : Engine → Nat → Nat → Nat × Nat) (sw : List Nat)
    (hn : 0 < sw.length) (he : sw.length % 2 = 0) (k : Nat) (st : Loop)
    (hs : st.s = (2 * k) % sw.length) (W : State → Nat × Nat → State) :
    SRel sw.length (k + 1)
      { (saltedStep enc sw st).1 with e := W (saltedStep enc sw st).1.e (saltedStep enc sw st).2 }
      (let blk := asBlock enc st.e (st.l ^^^ cyc sw (2 * k), st.r ^^^ cyc sw (2 * k + 1))
       (W st.e blk, blk)) := by
  obtain ⟨h1, h2⟩ := cyc_idx sw.length k hn he
  simp only [SRel, toAcc, saltedStep, asBlock, cyc, hs, h1, h2, and_self]

/-- `eks_salted_expand` is the 521-pair loop with the cyclically repeated salt words -/
theorem eksSaltedExpand_eq_sched (enc : Engine → Nat → Nat → Nat × Nat) (e : Engine) (kw sw : List Nat)
    (hn : 0 < sw.length) (he : sw.length % 2 = 0) :
    eksSaltedExpand enc e kw sw =
      sched (asBlock enc) (cyc sw) { e with P := xorKeyWords e.P kw } := by
  unfold eksSaltedExpand sched
  rw [sched_phases]
  have key := foldl_range_rel
    (f := fun (st : Loop) b => (List.range 128).foldl (fun (st : Loop) k =>
        let i := 2 * k
        let sl := saltedStep enc sw st
        { sl.1 with e := setBox sl.1.e b i sl.2 }) st)
    (g := fun acc b => (List.range 128).foldl (fun acc k => schedStep (asBlock enc) (cyc sw) acc (9 + 128 * b + k)) acc)
    (R := fun b st acc => SRel sw.length (9 + 128 * b) st acc) 4
    ((List.range 9).foldl (fun (st : Loop) k =>
      let i := 2 * k
      let sl := saltedStep enc sw st
      { sl.1 with e := setP sl.1.e i sl.2 }) { e := { e with P := xorKeyWords e.P kw }, l := 0, r := 0, s := 0 })
    ((List.range 9).foldl (schedStep (asBlock enc) (cyc sw)) ({ e with P := xorKeyWords e.P kw }, (0, 0)))
    (by
      apply foldl_range_rel (R := fun k (st : Loop) acc => SRel sw.length k st acc)
      · exact ⟨rfl, by simp⟩
      · intro k st acc hk h
        obtain ⟨h, hs⟩ := h
        subst h
        have := saltedStep_rel enc sw hn he k st hs (fun e lr => setP e (2 * k) lr)
        simpa only [toAcc, schedStep, writePair_P _ k hk] using this)
    (by
      intro b st acc hb h
      have := foldl_range_rel
        (f := fun (st : Loop) k =>
          let i := 2 * k
          let sl := saltedStep enc sw st
          { sl.1 with e := setBox sl.1.e b i sl.2 })
        (g := fun acc k => schedStep (asBlock enc) (cyc sw) acc (9 + 128 * b + k))
        (R := fun k (st : Loop) acc => SRel sw.length (9 + 128 * b + k) st acc) 128 st acc h
        (by
          intro k st acc hk h
          obtain ⟨h, hs⟩ := h
          subst h
          have := saltedStep_rel enc sw hn he (9 + 128 * b + k) st hs (fun e lr => setBox e b (2 * k) lr)
          rw [Nat.add_assoc (9 + 128 * b) k 1] at this
          simpa only [toAcc, schedStep, writePair_S _ b k hk] using this)
      have e1 : 9 + 128 * b + 128 = 9 + 128 * (b + 1) := by omega
      rw [e1] at this
      exact this)
  have key2 := congrArg Prod.fst key.1
  simp only [toAcc] at key2
  exact key2

/-! ### unrolled.py `expand` = base.py `expand` run with the unrolled `encipher` -/

/-- one `P[i], P[i+1] = l, r = encipher(l, r)` step on `(P, (l, r))` with fixed S-boxes -/
def pblock (S0 S1 S2 S3 : Array Nat) (acc : List Nat × (Nat × Nat)) (j : Nat) : List Nat × (Nat × Nat) :=
  let lr := Gen.Blowfish.encipher acc.1 S0 S1 S2 S3 acc.2.1 acc.2.2
  ((acc.1.set (2 * j) lr.1).set (2 * j + 1) lr.2, lr)

theorem xorKeyWords18 (a0 a1 a2 a3 a4 a5 a6 a7 a8 a9 a10 a11 a12 a13 a14 a15 a16 a17 : Nat) (kw : List Nat) :
    xorKeyWords [a0, a1, a2, a3, a4, a5, a6, a7, a8, a9, a10, a11, a12, a13, a14, a15, a16, a17] kw =
     [a0 ^^^ lookupL kw 0, a1 ^^^ lookupL kw 1, a2 ^^^ lookupL kw 2, a3 ^^^ lookupL kw 3, a4 ^^^ lookupL kw 4,
      a5 ^^^ lookupL kw 5, a6 ^^^ lookupL kw 6, a7 ^^^ lookupL kw 7, a8 ^^^ lookupL kw 8, a9 ^^^ lookupL kw 9,
      a10 ^^^ lookupL kw 10, a11 ^^^ lookupL kw 11, a12 ^^^ lookupL kw 12, a13 ^^^ lookupL kw 13, a14 ^^^ lookupL kw 14,
      a15 ^^^ lookupL kw 15, a16 ^^^ lookupL kw 16, a17 ^^^ lookupL kw 17] := by
  have h : List.range 18 = [0,1,2,3,4,5,6,7,8,9,10,11,12,13,14,15,16,17] := rfl
  unfold xorKeyWords
  rw [h]
  simp only [List.foldl_cons, List.foldl_nil, List.set_cons_zero, List.set_cons_succ, lookupL,
    List.getD_cons_zero, List.getD_cons_succ]

/-- the straight-line P part of unrolled.py `expand` is nine `pblock`s after the key xor -/
theorem expandP_eq_fold (P kw : List Nat) (hP : P.length = 18) (S0 S1 S2 S3 : Array Nat) :
    expandP P kw S0 S1 S2 S3 = (List.range 9).foldl (pblock S0 S1 S2 S3) (xorKeyWords P kw, (0, 0)) := by
  obtain ⟨a0, a1, a2, a3, a4, a5, a6, a7, a8, a9, a10, a11, a12, a13, a14, a15, a16, a17, rfl⟩ := length18 P hP
  have h9 : List.range 9 = [0, 1, 2, 3, 4, 5, 6, 7, 8] := rfl
  rw [h9, xorKeyWords18]
  simp only [List.foldl_cons, List.foldl_nil]
  unfold expandP
  extract_lets -merge p0 p1 p2 p3 p4 p5 p6 p7 p8 p9 p10 p11 p12 p13 p14 p15 p16 p17 l r lr0 q0 q1 l0 r0 x1 lr1 q2 q3 l1 r1 x2 lr2 q4 q5 l2 r2 x3 lr3 q6 q7 l3 r3 x4 lr4 q8 q9 l4 r4 x5 lr5 q10 q11 l5 r5 x6 lr6 q12 q13 l6 r6 x7 lr7 q14 q15 l7 r7 x8 lr8 q16 q17 l8 r8
  show _ = pblock S0 S1 S2 S3 (pblock S0 S1 S2 S3 (pblock S0 S1 S2 S3 (pblock S0 S1 S2 S3 (pblock S0 S1 S2 S3
    (pblock S0 S1 S2 S3 (pblock S0 S1 S2 S3 (pblock S0 S1 S2 S3 (pblock S0 S1 S2 S3
      ([p0, p1, p2, p3, p4, p5, p6, p7, p8, p9, p10, p11, p12, p13, p14, p15, p16, p17], ((0 : Nat), (0 : Nat)))
      0) 1) 2) 3) 4) 5) 6) 7) 8
  have h0 : pblock S0 S1 S2 S3 ([p0, p1, p2, p3, p4, p5, p6, p7, p8, p9, p10, p11, p12, p13, p14, p15, p16, p17], ((0 : Nat), (0 : Nat))) 0 = ([q0, q1, p2, p3, p4, p5, p6, p7, p8, p9, p10, p11, p12, p13, p14, p15, p16, p17], lr0) := by
    unfold pblock Gen.Blowfish.encipher
    simp only [Nat.zero_xor]
    rfl
  rw [h0]
  have h1 : pblock S0 S1 S2 S3 ([q0, q1, p2, p3, p4, p5, p6, p7, p8, p9, p10, p11, p12, p13, p14, p15, p16, p17], lr0) 1 = ([q0, q1, q2, q3, p4, p5, p6, p7, p8, p9, p10, p11, p12, p13, p14, p15, p16, p17], lr1) := by
    unfold pblock Gen.Blowfish.encipher
    rfl
  rw [h1]
  have h2 : pblock S0 S1 S2 S3 ([q0, q1, q2, q3, p4, p5, p6, p7, p8, p9, p10, p11, p12, p13, p14, p15, p16, p17], lr1) 2 = ([q0, q1, q2, q3, q4, q5, p6, p7, p8, p9, p10, p11, p12, p13, p14, p15, p16, p17], lr2) := by
    unfold pblock Gen.Blowfish.encipher
    rfl
  rw [h2]
  have h3 : pblock S0 S1 S2 S3 ([q0, q1, q2, q3, q4, q5, p6, p7, p8, p9, p10, p11, p12, p13, p14, p15, p16, p17], lr2) 3 = ([q0, q1, q2, q3, q4, q5, q6, q7, p8, p9, p10, p11, p12, p13, p14, p15, p16, p17], lr3) := by
    unfold pblock Gen.Blowfish.encipher
    rfl
  rw [h3]
  have h4 : pblock S0 S1 S2 S3 ([q0, q1, q2, q3, q4, q5, q6, q7, p8, p9, p10, p11, p12, p13, p14, p15, p16, p17], lr3) 4 = ([q0, q1, q2, q3, q4, q5, q6, q7, q8, q9, p10, p11, p12, p13, p14, p15, p16, p17], lr4) := by
    unfold pblock Gen.Blowfish.encipher
    rfl
  rw [h4]
  have h5 : pblock S0 S1 S2 S3 ([q0, q1, q2, q3, q4, q5, q6, q7, q8, q9, p10, p11, p12, p13, p14, p15, p16, p17], lr4) 5 = ([q0, q1, q2, q3, q4, q5, q6, q7, q8, q9, q10, q11, p12, p13, p14, p15, p16, p17], lr5) := by
    unfold pblock Gen.Blowfish.encipher
    rfl
  rw [h5]
  have h6 : pblock S0 S1 S2 S3 ([q0, q1, q2, q3, q4, q5, q6, q7, q8, q9, q10, q11, p12, p13, p14, p15, p16, p17], lr5) 6 = ([q0, q1, q2, q3, q4, q5, q6, q7, q8, q9, q10, q11, q12, q13, p14, p15, p16, p17], lr6) := by
    unfold pblock Gen.Blowfish.encipher
    rfl
  rw [h6]
  have h7 : pblock S0 S1 S2 S3 ([q0, q1, q2, q3, q4, q5, q6, q7, q8, q9, q10, q11, q12, q13, p14, p15, p16, p17], lr6) 7 = ([q0, q1, q2, q3, q4, q5, q6, q7, q8, q9, q10, q11, q12, q13, q14, q15, p16, p17], lr7) := by
    unfold pblock Gen.Blowfish.encipher
    rfl
  rw [h7]
  have h8 : pblock S0 S1 S2 S3 ([q0, q1, q2, q3, q4, q5, q6, q7, q8, q9, q10, q11, q12, q13, q14, q15, p16, p17], lr7) 8 = ([q0, q1, q2, q3, q4, q5, q6, q7, q8, q9, q10, q11, q12, q13, q14, q15, q16, q17], lr8) := by
    unfold pblock Gen.Blowfish.encipher
    rfl
  rw [h8]

/-- passlib's P loop run with the unrolled `encipher`, on `(P, (l, r))` -/
theorem pphase_unrolled (S : Array (Array Nat)) (P0 : List Nat) :
    (List.range 9).foldl (fun (st : Loop) k =>
        let i := 2 * k
        let lr := encipherUnrolled st.e st.l st.r
        { st with e := setP st.e i lr, l := lr.1, r := lr.2 }) { e := { P := P0, S := S }, l := 0, r := 0 }
      = (let acc := (List.range 9).foldl (pblock (S.getD 0 #[]) (S.getD 1 #[]) (S.getD 2 #[]) (S.getD 3 #[])) (P0, (0, 0))
         { e := { P := acc.1, S := S }, l := acc.2.1, r := acc.2.2 }) := by
  apply foldl_range_rel (R := fun _ (st : Loop) (acc : List Nat × (Nat × Nat)) =>
    st = { e := { P := acc.1, S := S }, l := acc.2.1, r := acc.2.2 })
  · rfl
  · intro k st acc hk h
    subst h
    rfl

/-- **unrolled.py `expand` = base.py `expand`** (with `self.encipher` the unrolled one) -/
theorem expandUnrolled_eq_base (e : Engine) (kw : List Nat) (hP : e.P.length = 18) :
    expandUnrolled e kw = expandBase encipherUnrolled e kw := by
  obtain ⟨P, S⟩ := e
  unfold expandUnrolled expandBase
  simp only [box]
  rw [pphase_unrolled, expandP_eq_fold P kw hP]
  generalize (List.range 9).foldl (pblock (S.getD 0 #[]) (S.getD 1 #[]) (S.getD 2 #[]) (S.getD 3 #[])) (xorKeyWords P kw, (0, 0)) = acc
  have h128 : expandBoxLimit / expandBoxStep = 128 := rfl
  rw [h128]
  have key := foldl_range_rel
    (f := fun (st : Loop) b => (List.range 128).foldl (fun (st : Loop) k =>
        let j := expandBoxStep * k
        let lr := expandSBody (lookupL acc.1 0) (lookupL acc.1 1) (lookupL acc.1 2) (lookupL acc.1 3) (lookupL acc.1 4)
          (lookupL acc.1 5) (lookupL acc.1 6) (lookupL acc.1 7) (lookupL acc.1 8) (lookupL acc.1 9) (lookupL acc.1 10)
          (lookupL acc.1 11) (lookupL acc.1 12) (lookupL acc.1 13) (lookupL acc.1 14) (lookupL acc.1 15) (lookupL acc.1 16)
          (lookupL acc.1 17) (st.e.S.getD 0 #[]) (st.e.S.getD 1 #[]) (st.e.S.getD 2 #[]) (st.e.S.getD 3 #[]) st.l st.r
        { st with e := setBox st.e b j lr, l := lr.1, r := lr.2 }) st)
    (g := fun (st : Loop) b => (List.range 128).foldl (fun (st : Loop) k =>
        let i := 2 * k
        let lr := encipherUnrolled st.e st.l st.r
        { st with e := setBox st.e b i lr, l := lr.1, r := lr.2 }) st)
    (R := fun _ st st' => st = st' ∧ st.e.P = acc.1) 4
    { e := { P := acc.1, S := S }, l := acc.2.1, r := acc.2.2 }
    { e := { P := acc.1, S := S }, l := acc.2.1, r := acc.2.2 }
    ⟨rfl, rfl⟩
    (by
      intro b st st' hb h
      apply foldl_range_rel (R := fun _ (st st' : Loop) => st = st' ∧ st.e.P = acc.1)
      · exact h
      · intro k st st' hk h
        obtain ⟨h, hp⟩ := h
        subst h
        obtain ⟨⟨P', S'⟩, l, r, s⟩ := st
        simp only at hp
        subst hp
        exact ⟨rfl, rfl⟩)
  exact congrArg Loop.e key.1

/-! ## (d) `key_to_words` -/

theorem be32 (b0 b1 b2 b3 : Nat) (h0 : b0 < 256) (h1 : b1 < 256) (h2 : b2 < 256) (h3 : b3 < 256) :
    (b0 <<< 24) ||| (b1 <<< 16) ||| (b2 <<< 8) ||| b3 = ((b0 * 256 + b1) * 256 + b2) * 256 + b3 := by
  simp only [Nat.or_assoc]
  bitsimp
  omega

/-- element `j` of `data * m` -/
theorem getD_flatten_replicate (data : List Nat) (hn : 0 < data.length) :
    ∀ (m j : Nat), j < m * data.length →
      ((List.replicate m data).flatten).getD j 0 = data.getD (j % data.length) 0 := by
  intro m
  induction m with
  | zero => intro j hj; simp at hj
  | succ m ih =>
    intro j hj
    rw [List.replicate_succ, List.flatten_cons]
    by_cases h : j < data.length
    · rw [Nat.mod_eq_of_lt h]
      simp only [List.getD_eq_getElem?_getD, List.getElem?_append_left h]
    · have h' : data.length ≤ j := Nat.le_of_not_lt h
      have hj' : j - data.length < m * data.length := by
        rw [Nat.succ_mul] at hj; omega
      have := ih (j - data.length) hj'
      rw [← Nat.mod_eq_sub_mod h'] at this
      rw [← this]
      simp only [List.getD_eq_getElem?_getD, List.getElem?_append_right h']

/-- `repeat_string(data, size)[j] = data[j mod len(data)]` -/
theorem repeatString_getD (data : List Nat) (hn : 0 < data.length) (size j : Nat) (hj : j < size) :
    (repeatString data size).getD j 0 = data.getD (j % data.length) 0 := by
  unfold repeatString
  have hlt : size - 1 < data.length * ((size - 1) / data.length + 1) := Nat.lt_mul_div_succ _ hn
  have hj2 : j < (1 + (size - 1) / data.length) * data.length := by
    rw [Nat.mul_comm, Nat.add_comm]; omega
  rw [← getD_flatten_replicate data hn _ j hj2]
  simp only [List.getD_eq_getElem?_getD, List.getElem?_take, hj, if_true]

/-- byte string: every element `< 256` -/
def BytesWF (data : List Nat) : Prop := ∀ b ∈ data, b < 256

theorem getD_lt_of_all {M : Nat} (hM : 0 < M) (data : List Nat) (h : ∀ b ∈ data, b < M) (j : Nat) :
    data.getD j 0 < M := by
  rw [List.getD_eq_getElem?_getD]
  cases hj : data[j]? with
  | none => simpa using hM
  | some v => exact h v (List.mem_of_getElem? hj)

theorem streamWord_nil (i : Nat) : streamWord [] i = 0 := by
  simp [streamWord, streamByte]

theorem unpackBE_congr (size : Nat) (X Y : List Nat)
    (h : ∀ j, j < 4 * size → X.getD j 0 = Y.getD j 0) : unpackBE size X = unpackBE size Y := by
  unfold unpackBE
  apply List.map_congr_left
  intro i hi
  have hi' : i < size := List.mem_range.mp hi
  rw [h (4 * i) (by omega), h (4 * i + 1) (by omega), h (4 * i + 2) (by omega), h (4 * i + 3) (by omega)]

/-- **`key_to_words` reads the cyclic key stream of the specification**: word `i` is the
    big-endian word made of bytes `4i .. 4i+3 (mod len)` of `data` -/
theorem keyToWords_eq (data : List Nat) (h : BytesWF data) :
    keyToWords data = (List.range 18).map (streamWord data) := by
  unfold keyToWords
  by_cases h0 : data.length = 0
  · have : data = [] := List.eq_nil_of_length_eq_zero h0
    subst this
    simp only [List.length_nil, if_true]
    have : streamWord [] = fun _ => 0 := funext streamWord_nil
    rw [this]
    rfl
  · rw [if_neg h0]
    have hn : 0 < data.length := Nat.pos_of_ne_zero h0
    have h72 : (18 : Nat) <<< 2 = 72 := rfl
    rw [h72]
    unfold unpackBE
    apply List.map_congr_left
    intro i hi
    have hi' : i < 18 := List.mem_range.mp hi
    rw [repeatString_getD data hn 72 (4 * i) (by omega), repeatString_getD data hn 72 (4 * i + 1) (by omega),
      repeatString_getD data hn 72 (4 * i + 2) (by omega), repeatString_getD data hn 72 (4 * i + 3) (by omega)]
    rw [be32 _ _ _ _ (getD_lt_of_all (by decide) data h _) (getD_lt_of_all (by decide) data h _)
      (getD_lt_of_all (by decide) data h _) (getD_lt_of_all (by decide) data h _)]
    rfl

theorem keyToWords_length (data : List Nat) : (keyToWords data).length = 18 := by
  unfold keyToWords unpackBE
  split <;> simp

theorem keyToWords_lookup (data : List Nat) (h : BytesWF data) (i : Nat) (hi : i < 18) :
    lookupL (keyToWords data) i = streamWord data i := by
  rw [keyToWords_eq data h]
  simp [lookupL, List.getD_eq_getElem?_getD, hi]

theorem streamWord_lt (data : List Nat) (h : BytesWF data) (i : Nat) : streamWord data i < 4294967296 := by
  unfold streamWord streamByte
  have a := getD_lt_of_all (by decide) data h ((4 * i) % data.length)
  have b := getD_lt_of_all (by decide) data h ((4 * i + 1) % data.length)
  have c := getD_lt_of_all (by decide) data h ((4 * i + 2) % data.length)
  have d := getD_lt_of_all (by decide) data h ((4 * i + 3) % data.length)
  omega

/-- **the 72-byte limit**: only the first 72 bytes of a key reach the 18 key words
    (no assumption on the byte values) -/
theorem keyToWords_take72 (data : List Nat) (h72 : 72 ≤ data.length) :
    keyToWords (data.take 72) = keyToWords data := by
  have hlen : (data.take 72).length = 72 := by simp [List.length_take]; omega
  unfold keyToWords
  rw [if_neg (by omega), if_neg (by omega)]
  have e72 : (18 : Nat) <<< 2 = 72 := rfl
  rw [e72]
  apply unpackBE_congr
  intro j hj
  rw [repeatString_getD _ (by omega) 72 j hj, repeatString_getD _ (by omega) 72 j hj, hlen,
    Nat.mod_eq_of_lt (by omega : j < 72), Nat.mod_eq_of_lt (by omega : j < data.length)]
  simp only [List.getD_eq_getElem?_getD, List.getElem?_take, hj, if_true]

/-- two keys that agree on their first 72 bytes have the same key words -/
theorem keyToWords_prefix72 (d1 d2 : List Nat) (h1 : 72 ≤ d1.length) (h2 : 72 ≤ d2.length)
    (h : d1.take 72 = d2.take 72) : keyToWords d1 = keyToWords d2 := by
  rw [← keyToWords_take72 d1 h1, ← keyToWords_take72 d2 h2, h]

/-- the same fact for the specification's key stream -/
theorem streamWord_take72 (data : List Nat) (h72 : 72 ≤ data.length) (i : Nat) (hi : i < 18) :
    streamWord (data.take 72) i = streamWord data i := by
  have hlen : (data.take 72).length = 72 := by simp [List.length_take]; omega
  have hb : ∀ j, j < 72 → streamByte (data.take 72) j = streamByte data j := by
    intro j hj
    unfold streamByte
    rw [hlen, Nat.mod_eq_of_lt hj, Nat.mod_eq_of_lt (by omega : j < data.length)]
    simp only [List.getD_eq_getElem?_getD, List.getElem?_take, hj, if_true]
  unfold streamWord
  rw [hb _ (by omega), hb _ (by omega), hb _ (by omega), hb _ (by omega)]

/-! ### well-formedness is preserved; the block functions agree on well-formed states -/

theorem WF_set (P : List Nat) (hP : ∀ p ∈ P, p < 4294967296) (i v : Nat) (hv : v < 4294967296) :
    ∀ p ∈ P.set i v, p < 4294967296 := by
  intro p hp
  rcases List.mem_or_eq_of_mem_set hp with h | h
  · exact hP p h
  · exact h ▸ hv

theorem writePair_WF (st : State) (h : WF st) (k : Nat) (blk : Nat × Nat)
    (h1 : blk.1 < 4294967296) (h2 : blk.2 < 4294967296) : WF (writePair st k blk) := by
  unfold writePair
  split
  · exact ⟨by simp [h.1], WF_set _ (WF_set _ h.2 _ _ h1) _ _ h2⟩
  · exact h

theorem asBlock_encipher_spec (impl : Impl) (st : State) (h : WF st) (blk : Nat × Nat)
    (h1 : blk.1 < 4294967296) (h2 : blk.2 < 4294967296) :
    asBlock (Model.Blowfish.encipher impl) st blk = Spec.Bcrypt.encipher st blk ∧
      (Spec.Bcrypt.encipher st blk).1 < 4294967296 ∧ (Spec.Bcrypt.encipher st blk).2 < 4294967296 := by
  refine ⟨?_, encipher_spec_lt st h blk.1 blk.2 h1 h2⟩
  cases impl with
  | base => exact encipherLoop_eq_spec st h blk.1 blk.2 h1 h2
  | unrolled =>
    show encipherUnrolled st blk.1 blk.2 = _
    rw [encipherUnrolled_eq_loop]
    exact encipherLoop_eq_spec st h blk.1 blk.2 h1 h2

/-- the 521-pair loop only depends on the block function on well-formed states and 32-bit
    blocks, and keeps the state well-formed -/
theorem sched_congr (E1 E2 : State → Nat × Nat → Nat × Nat) (sw1 sw2 : Nat → Nat)
    (hE : ∀ st blk, WF st → blk.1 < 4294967296 → blk.2 < 4294967296 →
      E1 st blk = E2 st blk ∧ (E2 st blk).1 < 4294967296 ∧ (E2 st blk).2 < 4294967296)
    (hsw : ∀ i, sw1 i = sw2 i ∧ sw2 i < 4294967296) (st : State) (h : WF st) :
    sched E1 sw1 st = sched E2 sw2 st ∧ WF (sched E2 sw2 st) := by
  unfold sched
  have key := foldl_range_rel (schedStep E1 sw1) (schedStep E2 sw2)
    (fun _ a b => a = b ∧ WF b.1 ∧ b.2.1 < 4294967296 ∧ b.2.2 < 4294967296) 521 (st, (0, 0)) (st, (0, 0))
    ⟨rfl, h, Nat.zero_lt_succ _, Nat.zero_lt_succ _⟩
    (by
      intro k a b hk hab
      obtain ⟨rfl, hw, hl, hr⟩ := hab
      have x1 := Nat.xor_lt_two_pow (n := 32) hl (hsw (2 * k)).2
      have x2 := Nat.xor_lt_two_pow (n := 32) hr (hsw (2 * k + 1)).2
      have hb := hE a.1 (a.2.1 ^^^ sw2 (2 * k), a.2.2 ^^^ sw2 (2 * k + 1)) hw x1 x2
      simp only [schedStep, (hsw (2 * k)).1, (hsw (2 * k + 1)).1, hb.1, true_and]
      exact ⟨writePair_WF _ hw _ _ hb.2.1 hb.2.2, hb.2.1, hb.2.2⟩)
  exact ⟨congrArg Prod.fst key.1, key.2.1⟩

theorem xorKeyWords_spec (P : List Nat) (hP : P.length = 18) (key : List Nat) (hk : BytesWF key) :
    xorKeyWords P (keyToWords key) = P.mapIdx fun i p => p ^^^ streamWord key i := by
  obtain ⟨a0, a1, a2, a3, a4, a5, a6, a7, a8, a9, a10, a11, a12, a13, a14, a15, a16, a17, rfl⟩ := length18 P hP
  rw [xorKeyWords18]
  simp [List.mapIdx_cons, keyToWords_lookup key hk]

theorem WF_xor (st : State) (h : WF st) (key : List Nat) (hk : BytesWF key) :
    WF { st with P := st.P.mapIdx fun i p => p ^^^ streamWord key i } := by
  refine ⟨by simp [h.1], ?_⟩
  intro p hp
  simp only [List.mem_mapIdx] at hp
  obtain ⟨i, hi, rfl⟩ := hp
  exact Nat.xor_lt_two_pow (n := 32) (h.2 _ (List.getElem_mem hi)) (streamWord_lt key hk i)

theorem getD_replicate_zero (n j : Nat) : (List.replicate n 0).getD j 0 = 0 := by
  rw [List.getD_eq_getElem?_getD, List.getElem?_replicate]; split <;> rfl

theorem streamWord_zeroSalt (i : Nat) : streamWord zeroSalt i = 0 := by
  unfold streamWord streamByte zeroSalt
  simp only [getD_replicate_zero]

/-! ### the three key-schedule methods against ExpandKey -/

theorem expandBase_spec (impl : Impl) (e : Engine) (h : WF e) (key : List Nat) (hk : BytesWF key) :
    expandBase (Model.Blowfish.encipher impl) e (keyToWords key) = expandKey e zeroSalt key ∧
      WF (expandKey e zeroSalt key) := by
  rw [expandBase_eq_sched, expandKey_eq_sched, xorKeyWords_spec e.P h.1 key hk]
  exact sched_congr _ _ _ _ (fun st blk hw => asBlock_encipher_spec impl st hw blk)
    (fun i => ⟨(streamWord_zeroSalt i).symm, by rw [streamWord_zeroSalt]; exact Nat.zero_lt_succ _⟩) _
    (WF_xor e h key hk)

/-- **`expand(key_words)` = ExpandKey(state, 0, key)** for both engine classes -/
theorem expand_eq_spec (impl : Impl) (e : Engine) (h : WF e) (key : List Nat) (hk : BytesWF key) :
    Model.Blowfish.expand impl e (keyToWords key) = expandKey e zeroSalt key ∧
      WF (expandKey e zeroSalt key) := by
  cases impl with
  | base => exact expandBase_spec .base e h key hk
  | unrolled =>
    show expandUnrolled e (keyToWords key) = _ ∧ _
    rw [expandUnrolled_eq_base e _ h.1]
    exact expandBase_spec .unrolled e h key hk

theorem cyc_salt16 (salt : List Nat) (hs : BytesWF salt) (hlen : salt.length = 16) (i : Nat) :
    cyc ((keyToWords salt).take 4) i = streamWord salt i := by
  have hl : ((keyToWords salt).take 4).length = 4 := by
    simp [List.length_take, keyToWords_length]
  have h4 : i % 4 < 4 := Nat.mod_lt _ (by decide)
  unfold cyc
  rw [hl]
  have : lookupL ((keyToWords salt).take 4) (i % 4) = lookupL (keyToWords salt) (i % 4) := by
    simp only [lookupL, List.getD_eq_getElem?_getD, List.getElem?_take, h4, if_true]
  rw [this, keyToWords_lookup salt hs _ (by omega)]
  unfold streamWord streamByte
  rw [hlen]
  have e0 : (4 * (i % 4)) % 16 = (4 * i) % 16 := by omega
  have e1 : (4 * (i % 4) + 1) % 16 = (4 * i + 1) % 16 := by omega
  have e2 : (4 * (i % 4) + 2) % 16 = (4 * i + 2) % 16 := by omega
  have e3 : (4 * (i % 4) + 3) % 16 = (4 * i + 3) % 16 := by omega
  rw [e0, e1, e2, e3]

/-- **`eks_salted_expand(key_words, salt_words[:4])` = ExpandKey(state, salt, key)** -/
theorem eks_salted_expand_eq_spec (impl : Impl) (e : Engine) (h : WF e) (key salt : List Nat)
    (hk : BytesWF key) (hs : BytesWF salt) (hlen : salt.length = 16) :
    eksSaltedExpand (Model.Blowfish.encipher impl) e (keyToWords key) ((keyToWords salt).take 4)
        = expandKey e salt key ∧ WF (expandKey e salt key) := by
  have hl : ((keyToWords salt).take 4).length = 4 := by
    simp [List.length_take, keyToWords_length]
  rw [eksSaltedExpand_eq_sched _ _ _ _ (by rw [hl]; decide) (by rw [hl]), expandKey_eq_sched,
    xorKeyWords_spec e.P h.1 key hk]
  exact sched_congr _ _ _ _ (fun st blk hw => asBlock_encipher_spec impl st hw blk)
    (fun i => ⟨cyc_salt16 salt hs hlen i, streamWord_lt salt hs i⟩) _ (WF_xor e h key hk)

/-- **`eks_repeated_expand`** = `rounds` times `ExpandKey(state, 0, key); ExpandKey(state, 0, salt)` -/
theorem eks_repeated_expand_eq_spec (impl : Impl) (key salt : List Nat) (hk : BytesWF key) (hs : BytesWF salt) :
    ∀ (rounds : Nat) (e : Engine), WF e →
      eksRepeatedExpand (Model.Blowfish.expand impl) e (keyToWords key) (keyToWords salt) rounds
          = iter (fun st => expandKey (expandKey st zeroSalt key) zeroSalt salt) rounds e ∧
        WF (iter (fun st => expandKey (expandKey st zeroSalt key) zeroSalt salt) rounds e) := by
  intro rounds
  induction rounds with
  | zero => intro e h; exact ⟨rfl, h⟩
  | succ n ih =>
    intro e h
    have h1 := expand_eq_spec impl e h key hk
    have h2 := expand_eq_spec impl _ h1.2 salt hs
    simp only [eksRepeatedExpand, iter, h1.1, h2.1]
    exact ih _ h2.2

/-! ### bcrypt64 salt decoding yields bytes -/

theorem decodeAll_lt (cm : List Nat) : ∀ (src vs : List Nat), Model.B64.decodeAll cm src = some vs →
    ∀ v ∈ vs, v < cm.length := by
  intro src
  induction src with
  | nil => intro vs h; simp [Model.B64.decodeAll] at h; subst h; simp
  | cons c cs ih =>
    intro vs h
    simp only [Model.B64.decodeAll] at h
    cases hc : Model.B64.decode64 cm c with
    | none => simp [hc] at h
    | some v =>
      cases hcs : Model.B64.decodeAll cm cs with
      | none => simp [hc, hcs] at h
      | some vs' =>
        simp only [hc, hcs, Option.some.injEq] at h
        subst h
        intro w hw
        rcases List.mem_cons.mp hw with rfl | hw
        · unfold Model.B64.decode64 at hc
          simp only at hc
          split at hc
          · rename_i hlt; cases hc; exact hlt
          · cases hc
        · exact ih vs' hcs w hw

open Model.B64 Gen.B64 in
theorem dec6_big_WF : ∀ vs : List Nat, (∀ v ∈ vs, v < 64) → ∀ b ∈ dec6 true vs, b < 256
  | [], _ => by simp [dec6]
  | [_], _ => by simp [dec6]
  | [x1, x2], h => by
    have h1 : x1 < 64 := h x1 (by simp)
    have h2 : x2 < 64 := h x2 (by simp)
    simp only [dec6, decBigTail2, if_true, List.mem_cons, List.not_mem_nil, or_false]
    intro b hb; subst hb; bitsimp; omega
  | [x1, x2, x3], h => by
    have h1 : x1 < 64 := h x1 (by simp)
    have h2 : x2 < 64 := h x2 (by simp)
    have h3 : x3 < 64 := h x3 (by simp)
    simp only [dec6, decBigTail3, if_true, List.mem_cons, List.not_mem_nil, or_false]
    intro b hb; rcases hb with hb | hb <;> subst hb <;> bitsimp <;> omega
  | x1 :: x2 :: x3 :: x4 :: rest, h => by
    have h1 : x1 < 64 := h x1 (by simp)
    have h2 : x2 < 64 := h x2 (by simp)
    have h3 : x3 < 64 := h x3 (by simp)
    have h4 : x4 < 64 := h x4 (by simp)
    have ih := dec6_big_WF rest (fun b hb => h b (by simp [hb]))
    intro b hb
    simp only [dec6, decBigChunk, if_true, List.cons_append, List.nil_append, List.mem_cons] at hb
    rcases hb with hb | hb | hb | hb <;> first
      | exact ih b hb
      | (subst hb; bitsimp <;> omega)

theorem bcrypt64_decode_WF (src raw : List Nat)
    (h : Model.B64.decodeBytes Model.B64.bcrypt64 src = .ok raw) : BytesWF raw := by
  unfold Model.B64.decodeBytes at h
  split at h
  · cases h
  · split at h
    · cases h
    · rename_i vs hvs
      cases h
      have hlen : Model.B64.bcrypt64.charmap.length = 64 := by decide
      have := decodeAll_lt _ _ _ hvs
      rw [hlen] at this
      exact dec6_big_WF vs this

/-! ## (c) `raw_bcrypt` -/

theorem init_eq : Engine.init = initState := rfl

theorem WF_init : WF initState := by
  refine ⟨by decide, ?_⟩
  show ∀ p ∈ BLOWFISH_P, p < 4294967296
  decide

theorem cdata_eq : BCRYPT_CDATA = ctext0 := by decide +kernel

theorem cdata_lt : ∀ w ∈ BCRYPT_CDATA, w < 4294967296 := by decide

/-- `repeat_encipher` = iterated Blowfish encryption -/
theorem repeatEncipher_eq_iter (impl : Impl) (e : Engine) (h : WF e) :
    ∀ (count l r : Nat), l < 4294967296 → r < 4294967296 →
      repeatEncipher (Model.Blowfish.encipher impl) e l r count
          = iter (Spec.Bcrypt.encipher e) count (l, r) ∧
        (iter (Spec.Bcrypt.encipher e) count (l, r)).1 < 4294967296 ∧
        (iter (Spec.Bcrypt.encipher e) count (l, r)).2 < 4294967296 := by
  intro count
  induction count with
  | zero => intro l r hl hr; exact ⟨rfl, hl, hr⟩
  | succ n ih =>
    intro l r hl hr
    have hs := asBlock_encipher_spec impl e h (l, r) hl hr
    simp only [asBlock] at hs
    simp only [repeatEncipher, iter, hs.1]
    exact ih _ _ hs.2.1 hs.2.2

/-- 64 (or `n`) rounds of ECB over three blocks = each block iterated separately -/
theorem iter_ecb6 (e : State) : ∀ (n a b c d f g : Nat),
    iter (ecb e) n [a, b, c, d, f, g] =
      [(iter (Spec.Bcrypt.encipher e) n (a, b)).1, (iter (Spec.Bcrypt.encipher e) n (a, b)).2,
       (iter (Spec.Bcrypt.encipher e) n (c, d)).1, (iter (Spec.Bcrypt.encipher e) n (c, d)).2,
       (iter (Spec.Bcrypt.encipher e) n (f, g)).1, (iter (Spec.Bcrypt.encipher e) n (f, g)).2] := by
  intro n
  induction n with
  | zero => intro a b c d f g; rfl
  | succ n ih =>
    intro a b c d f g
    simp only [iter, ecb, ih]

theorem encipherCData_eq (impl : Impl) (e : Engine) (h : WF e) :
    encipherCData (Model.Blowfish.encipher impl) e = iter (ecb e) 64 ctext0 := by
  rw [← cdata_eq]
  have hlt := cdata_lt
  unfold BCRYPT_CDATA at hlt ⊢
  rw [iter_ecb6]
  unfold encipherCData BCRYPT_CDATA
  simp only [List.foldl_cons, List.foldl_nil, lookupL, List.getD_cons_zero, List.getD_cons_succ,
    List.set_cons_zero, List.set_cons_succ]
  rw [(repeatEncipher_eq_iter impl e h 64 _ _ (hlt _ (by simp)) (hlt _ (by simp))).1,
    (repeatEncipher_eq_iter impl e h 64 _ _ (hlt _ (by simp)) (hlt _ (by simp))).1,
    (repeatEncipher_eq_iter impl e h 64 _ _ (hlt _ (by simp)) (hlt _ (by simp))).1]

theorem packBE_eq (data : List Nat) : packBE data = data.flatMap wordBytes := by
  unfold packBE wordBytes
  simp only [Bits.and255]

theorem digest_eq (a b c d f g : Nat) :
    (packBE [a, b, c, d, f, g]).dropLast = ([a, b, c, d, f, g].flatMap wordBytes).take 23 := by
  rw [packBE_eq]
  simp [wordBytes, List.flatMap_cons, List.dropLast]

theorem one_shiftLeft (n : Nat) : 1 <<< n = 2 ^ n := by
  rw [Nat.shiftLeft_eq, Nat.one_mul]

theorem key_eq (nul : Bool) (pwd : List Nat) :
    (if nul = true then pwd ++ BNULL else pwd) = bcryptKey nul pwd := by
  cases nul <;> rfl

theorem bcryptKey_WF (nul : Bool) (pwd : List Nat) (h : BytesWF pwd) : BytesWF (bcryptKey nul pwd) := by
  cases nul
  · exact h
  · intro b hb
    simp only [bcryptKey, if_true, List.mem_append, List.mem_singleton] at hb
    rcases hb with hb | hb
    · exact h b hb
    · subst hb; decide

/-- **`raw_bcrypt` computes bcrypt**: for a supported ident, a salt text that decodes to at
    least 16 bytes, a cost in 4..31 and any password (byte string), the model of passlib's
    `raw_bcrypt` (either engine class) returns the bcrypt-base64 text of the specification's
    23-byte digest for the first 16 salt bytes. -/
theorem raw_bcrypt_eq_spec (impl : Impl) (pwd : List Nat) (ident : String) (salt : List Nat) (cost : Nat)
    (nul : Bool) (raw : List Nat)
    (hpwd : BytesWF pwd)
    (hid : parseIdent ident = .ok nul)
    (hsalt : Model.B64.decodeBytes Model.B64.bcrypt64 salt = .ok raw)
    (hlen : 16 ≤ raw.length) (hc4 : 4 ≤ cost) (hc31 : cost ≤ 31) :
    rawBcrypt impl pwd ident salt cost =
      .ok (Model.B64.encodeBytes Model.B64.bcrypt64 (bcrypt nul cost (raw.take 16) pwd)) := by
  have hraw : BytesWF raw := bcrypt64_decode_WF salt raw hsalt
  have hs16 : BytesWF (raw.take 16) := fun b hb => hraw b (List.mem_of_mem_take hb)
  have hl16 : (raw.take 16).length = 16 := by simp [List.length_take]; omega
  have hkey := bcryptKey_WF nul pwd hpwd
  unfold rawBcrypt
  simp only [hid, hsalt]
  rw [if_neg (by omega), if_neg (by omega)]
  simp only [key_eq, init_eq, one_shiftLeft]
  have h1 := eks_salted_expand_eq_spec impl initState WF_init (bcryptKey nul pwd) (raw.take 16) hkey hs16 hl16
  rw [h1.1]
  have h2 := eks_repeated_expand_eq_spec impl (bcryptKey nul pwd) (raw.take 16) hkey hs16 (2 ^ cost) _ h1.2
  rw [h2.1, encipherCData_eq impl _ h2.2]
  unfold bcrypt bcryptRaw eksBlowfishSetup
  simp only
  unfold ctext0
  have h6 : List.range 6 = [0, 1, 2, 3, 4, 5] := rfl
  rw [h6]
  simp only [List.map_cons, List.map_nil, iter_ecb6, digest_eq]

theorem parseIdent_ok (ident : String) (nul : Bool) (h : parseIdent ident = .ok nul) :
    ¬ (ident ≠ "2" ∧ ident ≠ "2a" ∧ ident ≠ "2b" ∧ ident ≠ "2y") := by
  unfold parseIdent at h
  intro hn
  simp [hn.1, hn.2.1, hn.2.2.1, hn.2.2.2] at h
  split at h <;> cases h

theorem parseIdent_error (ident : String) (m : String) (h : parseIdent ident = .error m) :
    ident ≠ "2" ∧ ident ≠ "2a" ∧ ident ≠ "2b" ∧ ident ≠ "2y" := by
  unfold parseIdent at h
  refine ⟨?_, ?_, ?_, ?_⟩ <;> intro hi <;> subst hi <;> simp at h

/-- **which arguments raise**: `raw_bcrypt` raises `ValueError` exactly when the ident is not
    one of 2, 2a, 2b, 2y, or the salt text does not decode, or decodes to fewer than 16
    bytes, or the cost is outside 4..31 — and returns a value otherwise. -/
theorem raw_bcrypt_error_iff (impl : Impl) (pwd : List Nat) (ident : String) (salt : List Nat) (cost : Nat) :
    (∃ m, rawBcrypt impl pwd ident salt cost = .error m) ↔
      (ident ≠ "2" ∧ ident ≠ "2a" ∧ ident ≠ "2b" ∧ ident ≠ "2y") ∨
      (∀ raw, Model.B64.decodeBytes Model.B64.bcrypt64 salt = .ok raw → raw.length < 16) ∨
      cost < 4 ∨ 31 < cost := by
  unfold rawBcrypt
  cases hid : parseIdent ident with
  | error m =>
    simp only
    exact ⟨fun _ => Or.inl (parseIdent_error ident m hid), fun _ => ⟨m, rfl⟩⟩
  | ok nul =>
    have hno := parseIdent_ok ident nul hid
    simp only
    cases hd : Model.B64.decodeBytes Model.B64.bcrypt64 salt with
    | error k =>
      simp only
      exact ⟨fun _ => Or.inr (Or.inl (fun raw h => by cases h)), fun _ => ⟨_, rfl⟩⟩
    | ok raw =>
      simp only
      by_cases hl : raw.length < 16
      · rw [if_pos hl]
        exact ⟨fun _ => Or.inr (Or.inl (fun raw' h => by cases h; exact hl)), fun _ => ⟨_, rfl⟩⟩
      · rw [if_neg hl]
        by_cases hc : cost < 4 ∨ cost > 31
        · rw [if_pos hc]
          exact ⟨fun _ => Or.inr (Or.inr hc), fun _ => ⟨_, rfl⟩⟩
        · rw [if_neg hc]
          constructor
          · rintro ⟨m, hm⟩; cases hm
          · rintro (h | h | h)
            · exact absurd h hno
            · exact absurd (h raw rfl) hl
            · exact absurd h hc

/-- **the initial state is π**: the reflected `BLOWFISH_P` / `BLOWFISH_S` literals are the
    first 1042 words of the fractional part of π -/
theorem initState_eq_pi : initState = initStatePi := by
  unfold initState initStatePi
  simp only
  rw [← Lemmas.BlowfishPi.blowfish_P_eq_pi, ← Lemmas.BlowfishPi.blowfish_S_eq_pi]

/-- the two engine classes are interchangeable in `raw_bcrypt` -/
theorem raw_bcrypt_impl_irrelevant (pwd : List Nat) (ident : String) (salt : List Nat) (cost : Nat)
    (hpwd : BytesWF pwd) :
    rawBcrypt .unrolled pwd ident salt cost = rawBcrypt .base pwd ident salt cost := by
  cases hid : parseIdent ident with
  | error m => unfold rawBcrypt; simp only [hid]
  | ok nul =>
    cases hd : Model.B64.decodeBytes Model.B64.bcrypt64 salt with
    | error k => unfold rawBcrypt; simp only [hid, hd]
    | ok raw =>
      by_cases hl : raw.length < 16
      · unfold rawBcrypt; simp only [hid, hd, hl, if_true]
      · by_cases hc : cost < 4 ∨ cost > 31
        · unfold rawBcrypt; simp only [hid, hd, hl, hc, if_true, if_false]
        · rw [raw_bcrypt_eq_spec .unrolled pwd ident salt cost nul raw hpwd hid hd (by omega) (by omega) (by omega),
            raw_bcrypt_eq_spec .base pwd ident salt cost nul raw hpwd hid hd (by omega) (by omega) (by omega)]

end Lemmas.Blowfish
