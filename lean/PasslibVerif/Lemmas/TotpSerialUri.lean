import PasslibVerif.Lemmas.TotpSerialQuote
import PasslibVerif.Lemmas.Handler
import PasslibVerif.Lemmas.TotpKey
/- from_uri ∘ to_uri -/
namespace Lemmas.TotpSerial
open Py Model.Handler Model.TotpSerial Model.TotpKey

/-! ### strip / split helpers -/

/-- no leading / trailing character that `str.strip()` removes -/
def NoEdgeWs (l : Str) : Prop :=
  (∀ c, l.head? = some c → Gen.TotpSerial.stripWs.contains c = false) ∧
  (∀ c, l.getLast? = some c → Gen.TotpSerial.stripWs.contains c = false)

theorem dropWhile_head {p : Nat → Bool} : ∀ l : Str, (∀ c, l.head? = some c → p c = false) → l.dropWhile p = l
  | [], _ => rfl
  | c :: r, h => by simp [List.dropWhile, h c rfl]

theorem pyStrip_id (l : Str) (h : NoEdgeWs l) : pyStrip l = l := by
  unfold pyStrip
  rw [dropWhile_head l h.1, dropWhile_head l.reverse (by simpa [List.head?_reverse] using h.2), List.reverse_reverse]

theorem noEdgeWs_of_all (l : Str) (h : ∀ c ∈ l, Gen.TotpSerial.stripWs.contains c = false) : NoEdgeWs l := by
  constructor
  · intro c hc; exact h c (List.mem_of_mem_head? hc)
  · intro c hc; exact h c (List.mem_of_mem_getLast? hc)

theorem findSplit_none (d : Nat) : ∀ s : Str, d ∉ s → findSplit d s = none
  | [], _ => rfl
  | c :: r, h => by
    have hc : c ≠ d := fun e => h (by simp [e])
    have hr : d ∉ r := fun hm => h (by simp [hm])
    simp [findSplit, hc, findSplit_none d r hr]

theorem findSplit_append (d : Nat) : ∀ (a b : Str), d ∉ a → findSplit d (a ++ d :: b) = some (a, b)
  | [], b, _ => by simp [findSplit]
  | c :: r, b, h => by
    have hc : c ≠ d := fun e => h (by simp [e])
    have hr : d ∉ r := fun hm => h (by simp [hm])
    simp [findSplit, hc, findSplit_append d r b hr]

theorem mem_joinChar (sep : Nat) : ∀ (fs : List Str) (c : Nat), c ∈ joinChar sep fs → c = sep ∨ ∃ f ∈ fs, c ∈ f
  | [], c, h => by simp [joinChar] at h
  | [p], c, h => by right; exact ⟨p, by simp, by simpa [joinChar] using h⟩
  | p :: q :: ps, c, h => by
    simp only [joinChar, List.mem_append, List.mem_cons] at h
    rcases h with h | h | h
    · right; exact ⟨p, by simp, h⟩
    · left; exact h
    · rcases mem_joinChar sep (q :: ps) c h with h | ⟨f, hf, hc⟩
      · left; exact h
      · right; exact ⟨f, by simp at hf ⊢; right; exact hf, hc⟩

/-! ### characters of a generated uri -/

/-- unreserved characters, '%' and '@': what `quote(·, "@")` / `quote(·, "")` emit -/
def plainChars : List Nat := Gen.TotpSerial.alwaysSafe ++ [37, 64]

theorem plainChars_facts : ∀ c ∈ plainChars,
    c ≠ 35 ∧ c ≠ 63 ∧ c ≠ 47 ∧ c ≠ 58 ∧ c ≠ 38 ∧ c ≠ 61 ∧ c ≠ 43 ∧
    Gen.TotpSerial.stripWs.contains c = false ∧ Gen.TotpSerial.urlLstrip.contains c = false ∧
    Gen.TotpSerial.urlRemoved.contains c = false := by decide

theorem quotedChar_plain (safe : List Nat) (hs : ∀ x ∈ safe, x = 64) (c : Nat) (h : quotedChar safe c) : c ∈ plainChars := by
  unfold plainChars
  rcases h with h | ⟨_, h⟩ | h
  · simp only [List.mem_append]; left; simpa using h
  · have := hs c (by simpa using h); subst this; simp
  · subst h; simp

/-- delimiters the uri adds around quoted text -/
def uriChars : List Nat := plainChars ++ [58, 47, 63, 38, 61]

theorem uriChars_facts : ∀ c ∈ uriChars,
    c ≠ 35 ∧ Gen.TotpSerial.stripWs.contains c = false ∧ Gen.TotpSerial.urlLstrip.contains c = false ∧
    Gen.TotpSerial.urlRemoved.contains c = false := by decide

theorem filter_id {p : Nat → Bool} : ∀ l : Str, (∀ c ∈ l, p c = true) → l.filter p = l
  | [], _ => rfl
  | c :: r, h => by
    simp [List.filter, h c (by simp), filter_id r (fun x hx => h x (by simp [hx]))]

/-- `urlsplit` of "otpauth://totp/" + label part + "?" + query when neither part contains a delimiter it looks for -/
theorem urlsplit_uri (lp q : Str) (hlp : ∀ c ∈ lp, c ∈ uriChars ∧ c ≠ 63) (hq : ∀ c ∈ q, c ∈ uriChars) :
    urlsplit (sUriHead ++ lp ++ 63 :: q) = { scheme := sOtpauth, netloc := sTotp, path := 47 :: lp, query := q, fragment := [] } := by
  have hall : ∀ c ∈ sUriHead ++ lp ++ 63 :: q, c ∈ uriChars := by
    intro c hc
    simp only [List.mem_append, List.mem_cons] at hc
    rcases hc with (hc | hc) | hc | hc
    · revert c; decide
    · exact (hlp c hc).1
    · subst hc; decide
    · exact hq c hc
  have h35lp : 35 ∉ lp := fun h => (uriChars_facts 35 (hlp 35 h).1).1 rfl
  have h35q : 35 ∉ q := fun h => (uriChars_facts 35 (hq 35 h)).1 rfl
  have h63lp : 63 ∉ lp := fun h => (hlp 63 h).2 rfl
  unfold urlsplit
  have e1 : (sUriHead ++ lp ++ 63 :: q).dropWhile Gen.TotpSerial.urlLstrip.contains = sUriHead ++ lp ++ 63 :: q := by
    apply dropWhile_head
    intro c hc
    exact (uriChars_facts c (hall c (List.mem_of_mem_head? hc))).2.2.1
  have e2 : (sUriHead ++ lp ++ 63 :: q).filter (fun c => !Gen.TotpSerial.urlRemoved.contains c) = sUriHead ++ lp ++ 63 :: q := by
    apply filter_id
    intro c hc
    have := (uriChars_facts c (hall c hc)).2.2.2
    simp only [this, Bool.not_false]
  rw [e1, e2]
  have e3 : findSplit 58 (sUriHead ++ lp ++ 63 :: q) = some (sOtpauth, [47, 47, 116, 111, 116, 112, 47] ++ lp ++ 63 :: q) := by
    have : sUriHead ++ lp ++ 63 :: q = sOtpauth ++ 58 :: ([47, 47, 116, 111, 116, 112, 47] ++ lp ++ 63 :: q) := by
      simp [sUriHead, sOtpauth]
    rw [this]; exact findSplit_append 58 sOtpauth _ (by decide)
  simp only [e3]
  have e4 : (!sOtpauth.isEmpty && Gen.TotpSerial.asciiAlpha.contains (sOtpauth.headD 0) && sOtpauth.all Gen.TotpSerial.schemeChars.contains) = true := by decide
  simp only [e4, if_true]
  have e5 : sOtpauth.map asciiLower = sOtpauth := by decide
  have e6 : ([47, 47, 116, 111, 116, 112, 47] ++ lp ++ 63 :: q).take 2 = [47, 47] := by simp
  simp only [e5, e6, if_true]
  have e7 : ([47, 47, 116, 111, 116, 112, 47] ++ lp ++ 63 :: q).drop 2 = sTotp ++ 47 :: (lp ++ 63 :: q) := by simp [sTotp]
  rw [e7]
  have e8 : (sTotp ++ 47 :: (lp ++ 63 :: q)).takeWhile (fun c => !isNetlocDelim c) = sTotp := by
    simp [sTotp, List.takeWhile, isNetlocDelim]
  have e9 : (sTotp ++ 47 :: (lp ++ 63 :: q)).dropWhile (fun c => !isNetlocDelim c) = 47 :: (lp ++ 63 :: q) := by
    simp [sTotp, List.dropWhile, isNetlocDelim]
  rw [e8, e9]
  have e10 : findSplit 35 (47 :: (lp ++ 63 :: q)) = none := by
    apply findSplit_none
    simp only [List.mem_cons, List.mem_append, not_or]
    exact ⟨by decide, h35lp, by decide, h35q⟩
  have e11 : findSplit 63 (47 :: (lp ++ 63 :: q)) = some (47 :: lp, q) := by
    have : 47 :: (lp ++ 63 :: q) = (47 :: lp) ++ 63 :: q := by simp
    rw [this]; apply findSplit_append
    simp only [List.mem_cons, not_or]; exact ⟨by decide, h63lp⟩
  simp only [e10, e11]

theorem pyStrip_uri (lp q : Str) (hlp : ∀ c ∈ lp, c ∈ uriChars) (hq : ∀ c ∈ q, c ∈ uriChars) :
    pyStrip (sUriHead ++ lp ++ 63 :: q) = sUriHead ++ lp ++ 63 :: q := by
  apply pyStrip_id
  apply noEdgeWs_of_all
  intro c hc
  have : c ∈ uriChars := by
    simp only [List.mem_append, List.mem_cons] at hc
    rcases hc with (hc | hc) | hc | hc
    · revert c; decide
    · exact hlp c hc
    · subst hc; decide
    · exact hq c hc
  exact (uriChars_facts c this).2.1

/-! ### the query string -/

/-- one rendered `key=value` field -/
def field (p : Str × Str) : Str := p.1 ++ 61 :: quoteBytes Gen.TotpSerial.valueSafe (utf8Encode p.2)

theorem renderParams_eq : ∀ ps : List (Str × Str), (∀ p ∈ ps, p.2.all isScalar = true) → renderParams ps = .ok (ps.map field)
  | [], _ => rfl
  | (k, v) :: r, h => by
    have ih := renderParams_eq r (fun p hp => h p (by simp [hp]))
    have hv := h (k, v) (by simp)
    simp only [renderParams, quote_eq v _ hv, ih, Out.bind, List.map_cons, field]

def keyNames : List Str := [sSecret, sAlgorithm, sDigits, sPeriod, sIssuer]

theorem keyNames_facts : ∀ k ∈ keyNames, (∀ c ∈ k, c ∈ plainChars) ∧ plusToSpace k = k ∧ unquote k = .ok k := by decide

theorem valueSafe_no_pct : Gen.TotpSerial.valueSafe.contains 37 = false := by decide
theorem labelSafe_no_pct : Gen.TotpSerial.labelSafe.contains 37 = false := by decide
theorem issuerSafe_no_pct : Gen.TotpSerial.issuerSafe.contains 37 = false := by decide
theorem valueSafe_at : ∀ x ∈ Gen.TotpSerial.valueSafe, x = 64 := by decide
theorem labelSafe_at : ∀ x ∈ Gen.TotpSerial.labelSafe, x = 64 := by decide
theorem issuerSafe_at : ∀ x ∈ Gen.TotpSerial.issuerSafe, x = 64 := by decide

theorem quoted_plain (safe : List Nat) (hs : ∀ x ∈ safe, x = 64) (v : Str) (hv : v.all isScalar = true) :
    ∀ c ∈ quoteBytes safe (utf8Encode v), c ∈ plainChars := fun c hc =>
  quotedChar_plain safe hs c (quoteBytes_chars safe _ (utf8Encode_wf v hv) c hc)

theorem plusToSpace_id (s : Str) (h : 43 ∉ s) : plusToSpace s = s := by
  unfold plusToSpace
  induction s with
  | nil => rfl
  | cons c r ih =>
    have hc : c ≠ 43 := fun e => h (by simp [e])
    simp [hc, ih (fun hm => h (by simp [hm]))]

/-- what a good parameter is: a known name, a non-empty value of scalar values -/
def GoodParam (p : Str × Str) : Prop := p.1 ∈ keyNames ∧ p.2 ≠ [] ∧ p.2.all isScalar = true

theorem field_chars (p : Str × Str) (h : GoodParam p) : ∀ c ∈ field p, c ∈ plainChars ∨ c = 61 := by
  intro c hc
  unfold field at hc
  simp only [List.mem_append, List.mem_cons] at hc
  rcases hc with hc | hc | hc
  · left; exact (keyNames_facts p.1 h.1).1 c hc
  · right; exact hc
  · left; exact quoted_plain _ valueSafe_at p.2 h.2.2 c hc

theorem qslField_field (p : Str × Str) (h : GoodParam p) : qslField (field p) = .ok (some p) := by
  obtain ⟨k, v⟩ := p
  have hk := keyNames_facts k h.1
  have hq := quoted_plain _ valueSafe_at v h.2.2
  have h61 : 61 ∉ k := fun hm => (plainChars_facts 61 (hk.1 61 hm)).2.2.2.2.2.1 rfl
  have h43 : 43 ∉ quoteBytes Gen.TotpSerial.valueSafe (utf8Encode v) := fun hm => (plainChars_facts 43 (hq 43 hm)).2.2.2.2.2.2.1 rfl
  have hne : quoteBytes Gen.TotpSerial.valueSafe (utf8Encode v) ≠ [] := quoteBytes_ne_nil _ _ (utf8Encode_ne_nil v h.2.1)
  unfold qslField field
  have e1 : (k ++ 61 :: quoteBytes Gen.TotpSerial.valueSafe (utf8Encode v)).isEmpty = false := by simp
  simp only [e1, Bool.false_eq_true, if_false, findSplit_append 61 k _ h61]
  have e2 : (quoteBytes Gen.TotpSerial.valueSafe (utf8Encode v)).isEmpty = false := by
    cases hq' : quoteBytes Gen.TotpSerial.valueSafe (utf8Encode v) with
    | nil => exact absurd hq' hne
    | cons _ _ => rfl
  simp only [e2, Bool.false_eq_true, if_false, hk.2.1, hk.2.2, plusToSpace_id _ h43,
    unquote_quoteBytes v _ valueSafe_no_pct h.2.2, Out.bind]

theorem qslFields_fields : ∀ ps : List (Str × Str), (∀ p ∈ ps, GoodParam p) → qslFields (ps.map field) = .ok ps
  | [], _ => rfl
  | p :: r, h => by
    have ih := qslFields_fields r (fun x hx => h x (by simp [hx]))
    simp only [List.map_cons, qslFields, qslField_field p (h p (by simp)), ih, Out.bind]

theorem parseQsl_join (ps : List (Str × Str)) (hne : ps ≠ []) (h : ∀ p ∈ ps, GoodParam p) :
    parseQsl (joinChar 38 (ps.map field)) = .ok ps := by
  have h38 : ∀ f ∈ ps.map field, 38 ∉ f := by
    intro f hf hm
    rcases List.mem_map.1 hf with ⟨p, hp, rfl⟩
    rcases field_chars p (h p hp) 38 hm with hc | hc
    · exact (plainChars_facts 38 hc).2.2.2.2.1 rfl
    · exact absurd hc (by decide)
  have hne' : ps.map field ≠ [] := by simpa using hne
  unfold parseQsl
  have e : (joinChar 38 (ps.map field)).isEmpty = false := by
    cases ps with
    | nil => exact absurd rfl hne
    | cons p r =>
      cases r with
      | nil => simp [joinChar, field]
      | cons p' r' => simp [joinChar, field]
  simp only [e, Bool.false_eq_true, if_false, Lemmas.Handler.split_join 38 _ hne' h38, qslFields_fields ps h]

theorem query_chars (ps : List (Str × Str)) (h : ∀ p ∈ ps, GoodParam p) : ∀ c ∈ joinChar 38 (ps.map field), c ∈ uriChars := by
  intro c hc
  rcases mem_joinChar 38 _ c hc with rfl | ⟨f, hf, hcf⟩
  · decide
  · rcases List.mem_map.1 hf with ⟨p, hp, rfl⟩
    rcases field_chars p (h p hp) c hcf with hc' | rfl
    · unfold uriChars; simp [hc']
    · decide

/-! ### the object side -/

/-- what the theorem asks of an object (everything the constructor guarantees, plus a label that is present and
    free of ':', and text that UTF-8 can encode) -/
structure UriOk (c : Config) (l : Str) : Prop where
  key_ne : c.key ≠ []
  key_wf : Bytes.WF c.key
  alg : c.alg ∈ Gen.TotpSerial.hashNames
  digits : 6 ≤ c.digits ∧ c.digits ≤ 10
  period : 1 ≤ c.period
  label : c.label = some l
  l_ne : l ≠ []
  l_colon : 58 ∉ l
  l_scalar : l.all isScalar = true
  issuer : ∀ i, c.issuer = some i → i ≠ [] ∧ 58 ∉ i ∧ i.all isScalar = true

def issuerParam (c : Config) : List (Str × Str) :=
  match c.issuer with
  | some i => [(sIssuer, i)]
  | none => []

def allParams (c : Config) : List (Str × Str) := toUriParams c ++ issuerParam c

def labelPart (c : Config) (l : Str) : Str :=
  match c.issuer with
  | some i => quoteBytes Gen.TotpSerial.issuerSafe (utf8Encode i) ++ 58 :: quoteBytes Gen.TotpSerial.labelSafe (utf8Encode l)
  | none => quoteBytes Gen.TotpSerial.labelSafe (utf8Encode l)

theorem hashNames_facts : ∀ n ∈ Gen.TotpSerial.hashNames,
    (pyUpper n).all isScalar = true ∧ pyUpper n ≠ [] ∧ lookupHash (pyUpper n) = .ok n ∧ lookupHash n = .ok n := by decide +kernel

theorem defaultAlg_lookup : lookupHash Gen.TotpSerial.defaultAlg = .ok Gen.TotpSerial.defaultAlg := by decide +kernel

theorem base32Key_ne_nil (k : Bytes) (h : k ≠ []) : base32Key k ≠ [] := by
  intro e
  have hl := congrArg List.length e
  unfold base32Key Model.B64.b32encode Spec.Rfc4648.base32NoPad at hl
  simp only [List.length_map, Lemmas.Rfc4648.groups32_length, List.length_nil] at hl
  have : 0 < k.length := by cases k with | nil => exact absurd rfl h | cons _ _ => simp
  omega

theorem base32Key_scalar (k : Bytes) : (base32Key k).all isScalar = true := by
  rw [List.all_eq_true]
  intro c hc
  have := (Lemmas.TotpKey.b32_alphabet_clean c (Lemmas.TotpKey.b32encode_mem k c hc)).2
  unfold isScalar; simp; omega

theorem int_eq_toNat (d : Int) (h : 0 ≤ d) : d = ((d.toNat : Nat) : Int) := (Int.toNat_of_nonneg h).symm

theorem fmtDec_good (d : Int) (h : 0 ≤ d) : fmtDec d ≠ [] ∧ (fmtDec d).all isScalar = true ∧ pyIntOfStr (fmtDec d) = some d := by
  rw [int_eq_toNat d h]
  refine ⟨?_, ?_, Lemmas.Handler.int_of_fmtDec _⟩
  · intro e
    have := (Lemmas.Handler.fmtDec_not_padded d.toNat).2
    rw [e] at this; simp at this
  · rw [List.all_eq_true]
    intro c hc
    have := Lemmas.Handler.fmtDec_digits d.toNat c hc
    unfold isScalar; simp; omega

theorem keyNames_mem : sSecret ∈ keyNames ∧ sAlgorithm ∈ keyNames ∧ sDigits ∈ keyNames ∧ sPeriod ∈ keyNames ∧ sIssuer ∈ keyNames := by decide

theorem allParams_good (c : Config) (l : Str) (h : UriOk c l) : ∀ p ∈ allParams c, GoodParam p := by
  intro p hp
  unfold allParams toUriParams issuerParam at hp
  simp only [List.mem_append, List.mem_cons, List.not_mem_nil, or_false] at hp
  rcases hp with (((hp | hp) | hp) | hp) | hp
  · subst hp
    exact ⟨keyNames_mem.1, base32Key_ne_nil _ h.key_ne, base32Key_scalar _⟩
  · split at hp
    · simp only [List.mem_singleton] at hp; subst hp
      have := hashNames_facts c.alg h.alg
      exact ⟨keyNames_mem.2.1, this.2.1, this.1⟩
    · cases hp
  · split at hp
    · simp only [List.mem_singleton] at hp; subst hp
      have := fmtDec_good c.digits (by have := h.digits.1; omega)
      exact ⟨keyNames_mem.2.2.1, this.1, this.2.1⟩
    · cases hp
  · split at hp
    · simp only [List.mem_singleton] at hp; subst hp
      have := fmtDec_good c.period (by have := h.period; omega)
      exact ⟨keyNames_mem.2.2.2.1, this.1, this.2.1⟩
    · cases hp
  · cases hi : c.issuer with
    | none => simp [hi] at hp
    | some i =>
      simp only [hi, List.mem_singleton] at hp; subst hp
      have := h.issuer i hi
      exact ⟨keyNames_mem.2.2.2.2, this.1, this.2.2⟩

theorem allParams_ne_nil (c : Config) : allParams c ≠ [] := by
  unfold allParams toUriParams; simp

theorem truthy_some (s : Str) (h : s ≠ []) : truthy (some s) = some s := by
  cases s with
  | nil => exact absurd rfl h
  | cons _ _ => rfl

/-- L1: what `to_uri()` writes -/
theorem toUri_eq (c : Config) (l : Str) (h : UriOk c l) :
    toUri c = .ok (sUriHead ++ labelPart c l ++ 63 :: joinChar 38 ((allParams c).map field)) := by
  have hgood := allParams_good c l h
  have hrender := renderParams_eq (allParams c) (fun p hp => (hgood p hp).2.2)
  unfold toUri
  simp only [h.label, truthy_some l h.l_ne]
  have e1 : l.contains 58 = false := by simpa using h.l_colon
  simp only [e1, Bool.false_eq_true, if_false, quote_eq l _ h.l_scalar, Out.bind]
  unfold toUriIssuer
  cases hi : c.issuer with
  | none =>
    have e2 : allParams c = toUriParams c := by simp [allParams, issuerParam, hi]
    rw [e2] at hrender
    simp only [truthy, Out.bind, hrender, labelPart, hi, e2]
  | some i =>
    have hiss := h.issuer i hi
    have e2 : allParams c = toUriParams c ++ [(sIssuer, i)] := by simp [allParams, issuerParam, hi]
    rw [e2] at hrender
    have e3 : i.contains 58 = false := by simpa using hiss.2.1
    simp only [truthy_some i hiss.1, e3, Bool.false_eq_true, if_false, quote_eq i _ hiss.2.2, Out.bind, hrender, labelPart, hi, e2]

theorem labelPart_chars (c : Config) (l : Str) (h : UriOk c l) : ∀ x ∈ labelPart c l, x ∈ uriChars ∧ x ≠ 63 := by
  have hl := quoted_plain _ labelSafe_at l h.l_scalar
  have key : ∀ x, x ∈ plainChars ∨ x = 58 → x ∈ uriChars ∧ x ≠ 63 := by
    intro x hx
    rcases hx with hx | hx
    · exact ⟨by unfold uriChars; simp [hx], (plainChars_facts x hx).2.1⟩
    · subst hx; exact ⟨by decide, by decide⟩
  intro x hx
  unfold labelPart at hx
  cases hi : c.issuer with
  | none => rw [hi] at hx; exact key x (Or.inl (hl x hx))
  | some i =>
    rw [hi] at hx
    have hq := quoted_plain _ issuerSafe_at i (h.issuer i hi).2.2
    simp only [List.mem_append, List.mem_cons] at hx
    rcases hx with hx | hx | hx
    · exact key x (Or.inl (hq x hx))
    · exact key x (Or.inr hx)
    · exact key x (Or.inl (hl x hx))

theorem labelPart_ne_nil (c : Config) (l : Str) (h : UriOk c l) : labelPart c l ≠ [] := by
  have := quoteBytes_ne_nil Gen.TotpSerial.labelSafe _ (utf8Encode_ne_nil l h.l_ne)
  unfold labelPart
  cases c.issuer with
  | none => simpa using this
  | some i => simp

/-- L3: the label part unquotes and splits back into (issuer prefix, label) -/
theorem label_back (c : Config) (l : Str) (h : UriOk c l) :
    (unquote (labelPart c l)).bind splitLabel = .ok (c.issuer, l) := by
  unfold labelPart
  cases hi : c.issuer with
  | none =>
    simp only [unquote_quoteBytes l _ labelSafe_no_pct h.l_scalar, Out.bind, splitLabel]
    have : l.contains 58 = false := by simpa using h.l_colon
    simp only [this, Bool.false_eq_true, if_false]
  | some i =>
    have hiss := h.issuer i hi
    have hsc : (i ++ 58 :: l).all isScalar = true := by
      simp only [List.all_append, List.all_cons, hiss.2.2, h.l_scalar, Bool.and_true, Bool.true_and]
      decide
    have htok : pctTokens (quoteBytes Gen.TotpSerial.issuerSafe (utf8Encode i) ++ 58 :: quoteBytes Gen.TotpSerial.labelSafe (utf8Encode l))
        = (utf8Encode (i ++ 58 :: l)).map Tok.byte := by
      rw [quoteBytes_tokens _ issuerSafe_no_pct _ (utf8Encode_wf i hiss.2.2), pctTokens_cons_ne 58 _ (by decide)]
      have := quoteBytes_tokens _ labelSafe_no_pct _ (utf8Encode_wf l h.l_scalar) []
      simp only [List.append_nil, pctTokens] at this
      rw [this]
      have e : utf8Encode (i ++ 58 :: l) = utf8Encode i ++ 58 :: utf8Encode l := by
        rw [utf8Encode_append]; simp [utf8Encode, utf8EncodeCp]
      rw [e]; simp [tokOf]
    rw [unquote_of_tokens _ _ hsc htok]
    simp only [Out.bind, splitLabel]
    have e1 : (i ++ 58 :: l).contains 58 = true := by simp
    simp only [e1, if_true, Lemmas.Handler.splitChar_append_sep 58 i l hiss.2.1, Lemmas.Handler.splitChar_no_sep 58 l h.l_colon]

/-! ### parameters → constructor -/

theorem Out.bind_assoc {α β γ} (x : Out α) (f : α → Out β) (g : β → Out γ) :
    (x.bind f).bind g = x.bind fun a => (f a).bind g := by
  cases x <;> rfl

def fullParams (c : Config) (l : Str) : List (Str × Str) := (sLabel, l) :: allParams c

theorem params_lookup (c : Config) (l : Str) :
    addParams [(sLabel, l)] (allParams c) = .ok (fullParams c l) ∧
    hasKey sCls (fullParams c l) = false ∧
    lookupKey sSecret (fullParams c l) = some (base32Key c.key) ∧
    lookupKey sLabel (fullParams c l) = some l ∧
    lookupKey sAlgorithm (fullParams c l) = (if c.alg ≠ Gen.TotpSerial.defaultAlg then some (pyUpper c.alg) else none) ∧
    lookupKey sDigits (fullParams c l) = (if c.digits ≠ Gen.TotpSerial.defaultDigits then some (fmtDec c.digits) else none) ∧
    lookupKey sPeriod (fullParams c l) = (if c.period ≠ Gen.TotpSerial.defaultPeriod then some (fmtDec c.period) else none) ∧
    lookupKey sIssuer (fullParams c l) = c.issuer := by
  unfold fullParams allParams toUriParams issuerParam
  by_cases h1 : c.alg = Gen.TotpSerial.defaultAlg <;> by_cases h2 : c.digits = Gen.TotpSerial.defaultDigits <;>
    by_cases h3 : c.period = Gen.TotpSerial.defaultPeriod <;> cases c.issuer <;>
    simp (config := { decide := true }) [h1, h2, h3, addParams, hasKey, lookupKey]

theorem syncIssuer_same (c : Config) (l l' : Str) (h : UriOk c l) : syncIssuer c.issuer (fullParams c l') = .ok (fullParams c l') := by
  unfold syncIssuer
  cases hi : c.issuer with
  | none => rfl
  | some i =>
    have := (params_lookup c l').2.2.2.2.2.2.2
    simp only [truthy_some i (h.issuer i hi).1, this, hi, ne_eq, not_true_eq_false, if_false]

/-- the constructor call `from_uri` ends with -/
theorem construct_uri {E} (cls : Cls E) (k : Bytes) (hk : k ≠ []) (hwf : Bytes.WF k) (A alg : Str) (hA : A ≠ []) (hlk : lookupHash A = .ok alg)
    (d p : Int) (hd : 6 ≤ d ∧ d ≤ 10) (hp : 1 ≤ p) (l : Str) (hl : l ≠ []) (hlc : 58 ∉ l)
    (iss : Option Str) (hiss : ∀ i, iss = some i → i ≠ [] ∧ 58 ∉ i) :
    construct cls { key := .str (base32Key k), fmt := .base32, digits := .int d, alg := .str A, period := .int p,
                    label := .str l, issuer := optStr iss } =
      .ok { key := k, alg := alg, digits := d, period := p, label := some l, issuer := iss <|> cls.clsIssuer, changed := false } := by
  unfold construct
  have e1 : ctorAlg cls (.str A) = .ok alg := by
    unfold ctorAlg
    cases A with
    | nil => exact absurd rfl hA
    | cons a r => simpa using hlk
  have e2 : ctorKey cls .base32 (.str (base32Key k)) = .ok (k, false) := by
    have hne := base32Key_ne_nil k hk
    have hemp : (base32Key k).isEmpty = false := by
      cases hb : base32Key k with
      | nil => exact absurd hb hne
      | cons _ _ => rfl
    simp only [ctorKey, hemp, Bool.false_eq_true, if_false, Lemmas.TotpKey.base32_key_roundtrip k hwf, Out.ofRes, Out.bind]
  have e3 : ctorDigits cls (.int d) = .ok d := by
    unfold ctorDigits
    have : (decide (d < 6) || decide (d > 10)) = false := by simp; omega
    simp only [this, Bool.false_eq_true, if_false]
  have e4 : ctorText (E := E) (.str l) none = .ok (some l) := by
    have hemp : l.isEmpty = false := by cases l with | nil => exact absurd rfl hl | cons _ _ => rfl
    have hc : l.contains 58 = false := by simpa using hlc
    simp only [ctorText, hemp, hc, Bool.false_eq_true, if_false]
  have e5 : ctorText (optStr (E := E) iss) cls.clsIssuer = .ok (iss <|> cls.clsIssuer) := by
    cases iss with
    | none => rfl
    | some i =>
      have := hiss i rfl
      have hemp : i.isEmpty = false := by cases i with | nil => exact absurd rfl this.1 | cons _ _ => rfl
      have hc : i.contains 58 = false := by simpa using this.2
      simp only [optStr, ctorText, hemp, hc, Bool.false_eq_true, if_false]
      rfl
  have e6 : ctorPeriod cls (.int p) = .ok p := by
    unfold ctorPeriod
    have : ¬ (p < 1) := by omega
    simp only [this, if_false]
  simp only [e1, e2, e3, e4, e5, e6, Out.bind, Bool.or_false]

theorem adapt_full {E} (cls : Cls E) (c : Config) (l : Str) (h : UriOk c l) (l' : Str) (hl' : l' ≠ []) (hc' : 58 ∉ l') :
    adaptUriParams cls (fullParams c l') =
      .ok { key := c.key, alg := c.alg, digits := c.digits, period := c.period, label := some l',
            issuer := c.issuer <|> cls.clsIssuer, changed := false } := by
  obtain ⟨_, hcls, hsec, hlab, halg, hdig, hper, hiss⟩ := params_lookup c l'
  unfold adaptUriParams
  simp only [hcls, Bool.false_eq_true, if_false, hsec, truthy_some _ (base32Key_ne_nil c.key h.key_ne), hdig, hper, halg, hlab, hiss]
  have ed : uriIntParam (if c.digits ≠ Gen.TotpSerial.defaultDigits then some (fmtDec c.digits) else none) Gen.TotpSerial.defaultDigits = .ok c.digits := by
    have g := fmtDec_good c.digits (by have := h.digits.1; have := h.period; omega)
    by_cases hd : c.digits = Gen.TotpSerial.defaultDigits
    · simp [uriIntParam, truthy, hd]
    · simp only [uriIntParam, hd, ne_eq, not_false_eq_true, if_true, truthy_some _ g.1, uriParseInt, g.2.2]
  have ep : uriIntParam (if c.period ≠ Gen.TotpSerial.defaultPeriod then some (fmtDec c.period) else none) Gen.TotpSerial.defaultPeriod = .ok c.period := by
    have g := fmtDec_good c.period (by have := h.digits.1; have := h.period; omega)
    by_cases hd : c.period = Gen.TotpSerial.defaultPeriod
    · simp [uriIntParam, truthy, hd]
    · simp only [uriIntParam, hd, ne_eq, not_false_eq_true, if_true, truthy_some _ g.1, uriParseInt, g.2.2]
  simp only [ed, ep, Out.bind]
  have hn := hashNames_facts c.alg h.alg
  have hiss' : ∀ i, c.issuer = some i → i ≠ [] ∧ 58 ∉ i := fun i hi => ⟨(h.issuer i hi).1, (h.issuer i hi).2.1⟩
  by_cases ha : c.alg = Gen.TotpSerial.defaultAlg
  · have e : (truthy (if c.alg ≠ Gen.TotpSerial.defaultAlg then some (pyUpper c.alg) else none)).getD Gen.TotpSerial.defaultAlg = Gen.TotpSerial.defaultAlg := by
      simp [ha, truthy]
    rw [e]
    have := construct_uri cls c.key h.key_ne h.key_wf Gen.TotpSerial.defaultAlg c.alg (by decide) (by rw [ha]; exact defaultAlg_lookup)
      c.digits c.period h.digits h.period l' hl' hc' c.issuer hiss'
    exact this
  · have e : (truthy (if c.alg ≠ Gen.TotpSerial.defaultAlg then some (pyUpper c.alg) else none)).getD Gen.TotpSerial.defaultAlg = pyUpper c.alg := by
      simp [ha, truthy_some _ hn.2.1]
    rw [e]
    exact construct_uri cls c.key h.key_ne h.key_wf (pyUpper c.alg) c.alg hn.2.1 hn.2.2.1
      c.digits c.period h.digits h.period l' hl' hc' c.issuer hiss'

theorem mem_dropWhile {p : Nat → Bool} : ∀ (l : Str) (c : Nat), c ∈ l.dropWhile p → c ∈ l
  | [], _, h => by simp at h
  | x :: r, c, h => by
    simp only [List.dropWhile] at h
    split at h
    · exact List.mem_cons_of_mem _ (mem_dropWhile r c h)
    · exact h

theorem mem_pyStrip (l : Str) (c : Nat) (h : c ∈ pyStrip l) : c ∈ l := by
  unfold pyStrip at h
  have h1 := mem_dropWhile _ c (List.mem_reverse.1 h)
  exact mem_dropWhile l c (List.mem_reverse.1 h1)

/-- from_uri(to_uri()), label whitespace included: the loaded label is `label.strip()`; a label that is all
    whitespace yields a uri that is refused -/
theorem fromUri_toUri_gen {E} (cls : Cls E) (c : Config) (l : Str) (h : UriOk c l) :
    (toUri c).bind (fromUri cls) =
      if (pyStrip l).isEmpty then .error .valueError else
      .ok { key := c.key, alg := c.alg, digits := c.digits, period := c.period, label := some (pyStrip l),
            issuer := c.issuer <|> cls.clsIssuer, changed := false } := by
  have hgood := allParams_good c l h
  have hlp := labelPart_chars c l h
  have hq := query_chars (allParams c) hgood
  rw [toUri_eq c l h]
  simp only [Out.bind]
  unfold fromUri
  rw [pyStrip_uri _ _ (fun x hx => (hlp x hx).1) hq, urlsplit_uri _ _ hlp hq]
  simp only [ne_eq, not_true_eq_false, if_false, checkOtpType, if_true, Out.bind]
  unfold fromParsedUri
  have hne := labelPart_ne_nil c l h
  cases hL : labelPart c l with
  | nil => exact absurd hL hne
  | cons x xs =>
    simp only
    rw [← hL]
    unfold fromLabelQuery
    rw [← Out.bind_assoc, label_back c l h]
    simp only [Out.bind]
    by_cases e : (pyStrip l).isEmpty = true
    · simp only [e, if_true]
    · have e' : (pyStrip l).isEmpty = false := by simpa using e
      have hl' : pyStrip l ≠ [] := by intro hh; rw [hh] at e'; simp at e'
      have hc' : 58 ∉ pyStrip l := fun hm => h.l_colon (mem_pyStrip l 58 hm)
      simp only [e', Bool.false_eq_true, if_false, parseQsl_join _ (allParams_ne_nil c) hgood, Out.bind,
        (params_lookup c (pyStrip l)).1, syncIssuer_same c l (pyStrip l) h, adapt_full cls c l h (pyStrip l) hl' hc']

/-- from_uri(to_uri()) for a label without surrounding whitespace -/
theorem fromUri_toUri {E} (cls : Cls E) (c : Config) (l : Str) (h : UriOk c l) (hedge : NoEdgeWs l) :
    (toUri c).bind (fromUri cls) =
      .ok { key := c.key, alg := c.alg, digits := c.digits, period := c.period, label := some l,
            issuer := c.issuer <|> cls.clsIssuer, changed := false } := by
  rw [fromUri_toUri_gen cls c l h, pyStrip_id l hedge]
  have : l.isEmpty = false := by cases l with | nil => exact absurd rfl h.l_ne | cons _ _ => rfl
  simp only [this, Bool.false_eq_true, if_false]

end Lemmas.TotpSerial
