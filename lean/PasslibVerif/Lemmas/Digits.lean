/- base-N digit strings (least significant first): shared by the integer codecs (C12) and
   the random string helpers (C06) -/
namespace Digits

def toDigits (N : Nat) : Nat → Nat → List Nat
  | 0, _ => []
  | n+1, v => v % N :: toDigits N n (v / N)

def ofDigits (N : Nat) : List Nat → Nat
  | [] => 0
  | d :: ds => d + N * ofDigits N ds

theorem toDigits_length (N n v) : (toDigits N n v).length = n := by
  induction n generalizing v with
  | zero => rfl
  | succ n ih => simp [toDigits, ih]

theorem toDigits_lt (N : Nat) (hN : 0 < N) (n v) : ∀ d ∈ toDigits N n v, d < N := by
  induction n generalizing v with
  | zero => simp [toDigits]
  | succ n ih =>
    intro d hd
    simp only [toDigits, List.mem_cons] at hd
    rcases hd with h | h
    · rw [h]; exact Nat.mod_lt _ hN
    · exact ih _ d h

/-- injective on [0, N^n): the digits determine the value -/
theorem ofDigits_toDigits (N : Nat) (hN : 0 < N) (n v : Nat) (hv : v < N^n) :
    ofDigits N (toDigits N n v) = v := by
  induction n generalizing v with
  | zero => simp at hv; simp [toDigits, ofDigits, hv]
  | succ n ih =>
    simp only [toDigits, ofDigits]
    have hdiv : v / N < N^n := by
      apply (Nat.div_lt_iff_lt_mul hN).2
      rw [Nat.pow_succ] at hv; exact hv
    rw [ih _ hdiv]
    have := Nat.div_add_mod v N
    omega

/-- surjective: every digit string of length n over [0,N) is hit, by a value < N^n -/
theorem toDigits_ofDigits (N : Nat) (hN : 0 < N) (ds : List Nat) (h : ∀ d ∈ ds, d < N) :
    toDigits N ds.length (ofDigits N ds) = ds ∧ ofDigits N ds < N^ds.length := by
  induction ds with
  | nil => simp [toDigits, ofDigits]
  | cons d ds ih =>
    have hd : d < N := h d (by simp)
    have ⟨ih1, ih2⟩ := ih (fun x hx => h x (by simp [hx]))
    simp only [List.length_cons, toDigits, ofDigits]
    have m : (d + N * ofDigits N ds) % N = d := by
      rw [Nat.add_mul_mod_self_left]; exact Nat.mod_eq_of_lt hd
    have q : (d + N * ofDigits N ds) / N = ofDigits N ds := by
      rw [Nat.add_mul_div_left _ _ hN, Nat.div_eq_of_lt hd]; simp
    refine ⟨by rw [m, q, ih1], ?_⟩
    rw [Nat.pow_succ]
    have : N * ofDigits N ds + N ≤ N * N ^ ds.length := by
      have := Nat.mul_le_mul_left N (Nat.succ_le_of_lt ih2)
      simpa [Nat.mul_succ] using this
    rw [Nat.mul_comm (N ^ ds.length)]
    omega

/-- two values below N^n with the same digits are equal -/
theorem toDigits_injective (N : Nat) (hN : 0 < N) (n a b : Nat) (ha : a < N^n) (hb : b < N^n)
    (h : toDigits N n a = toDigits N n b) : a = b := by
  rw [← ofDigits_toDigits N hN n a ha, ← ofDigits_toDigits N hN n b hb, h]

/-- big-endian accumulate: `out = out*N + d` over the reversed digit string -/
theorem foldl_reverse_eq_ofDigits (N : Nat) (ds : List Nat) :
    ds.reverse.foldl (fun out d => out * N + d) 0 = ofDigits N ds := by
  induction ds with
  | nil => rfl
  | cons d ds ih =>
    simp only [List.reverse_cons, List.foldl_append, List.foldl_cons, List.foldl_nil, ih, ofDigits]
    rw [Nat.mul_comm]; omega

end Digits
