import PasslibVerif.Model.Totp
namespace Lemmas.Totp
open Py Gen.Totp Model.Totp

theorem findMatch_ge {gen : Nat → List Nat} {tok} : ∀ {n start c}, findMatch gen tok start n = some c →
    start ≤ c ∧ c < start + n ∧ gen c = tok
  | 0, _, _, h => by simp [findMatch] at h
  | n+1, start, c, h => by
    unfold findMatch at h
    split at h
    · rename_i hg; cases h; exact ⟨Nat.le_refl _, by omega, hg⟩
    · have := findMatch_ge h; exact ⟨by omega, by omega, this.2.2⟩

theorem findMatch_least {gen : Nat → List Nat} {tok} : ∀ {n start c}, findMatch gen tok start n = some c →
    ∀ d, start ≤ d → d < c → gen d ≠ tok
  | 0, _, _, h => by simp [findMatch] at h
  | n+1, start, c, h => by
    unfold findMatch at h
    split at h
    · cases h; intro d h1 h2; omega
    · rename_i hne
      intro d h1 h2
      by_cases e : d = start
      · subst e; exact hne
      · exact findMatch_least h d (by omega) h2

theorem findMatch_none {gen : Nat → List Nat} {tok} : ∀ {n start}, findMatch gen tok start n = none →
    ∀ d, start ≤ d → d < start + n → gen d ≠ tok
  | 0, _, _ => by intro d h1 h2; omega
  | n+1, start, h => by
    unfold findMatch at h
    split at h
    · cases h
    · rename_i hne
      intro d h1 h2
      by_cases e : d = start
      · subst e; exact hne
      · exact findMatch_none h d (by omega) (by omega)

theorem findMatch_some_of_exists {gen : Nat → List Nat} {tok} : ∀ {n start} d, start ≤ d → d < start + n →
    gen d = tok → ∃ c, findMatch gen tok start n = some c
  | 0, _, d, h1, h2, _ => by omega
  | n+1, start, d, h1, h2, hg => by
    unfold findMatch
    split
    · exact ⟨_, rfl⟩
    · rename_i hne
      have : d ≠ start := by intro e; subst e; exact hne hg
      exact findMatch_some_of_exists d (by omega) (by omega) hg

/-! floor division facts for a positive period -/
theorem fdiv_eq_ediv (t p : Int) (hp : 0 < p) : Int.fdiv t p = t / p :=
  Int.fdiv_eq_ediv_of_nonneg t (Int.le_of_lt hp)

theorem counter_floor (t p : Int) (hp : 0 < p) :
    p * timeToCounter t p ≤ t ∧ t < p * (timeToCounter t p + 1) := by
  unfold timeToCounter
  rw [fdiv_eq_ediv t p hp]
  have h1 := Int.emod_add_mul_ediv t p
  have h2 := Int.emod_nonneg t (Int.ne_of_gt hp)
  have h3 := Int.emod_lt_of_pos t hp
  rw [Int.mul_add, Int.mul_one]
  constructor <;> omega

theorem le_counter_iff (c t p : Int) (hp : 0 < p) : c ≤ timeToCounter t p ↔ p * c ≤ t := by
  unfold timeToCounter
  rw [fdiv_eq_ediv t p hp, Int.le_ediv_iff_mul_le hp, Int.mul_comm]

theorem counter_lt_iff (c t p : Int) (hp : 0 < p) : timeToCounter t p < c ↔ t < p * c := by
  unfold timeToCounter
  rw [fdiv_eq_ediv t p hp, Int.ediv_lt_iff_lt_mul hp, Int.mul_comm]

end Lemmas.Totp
