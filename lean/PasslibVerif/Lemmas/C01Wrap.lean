import PasslibVerif.Model.VerifyFmt.Wrap
import PasslibVerif.Props.C01
import PasslibVerif.Lemmas.Handler
/-
Generic facts about `PrefixWrapper` (Model/VerifyFmt/Wrap.lean), for ANY wrapped hasher: the string laws of `_wrap_hash` /
`_unwrap_hash`, the hasher view `wrapHasher` inherits `RoundTrips` / `IgnoresChecksum`, and the code view equals the hasher view.
-/
namespace Lemmas.C01Wrap
open Py Model.Handler Model.Verify Model.VerifyFmt.Wrap Lemmas.Handler Props.C01

theorem stripPrefix_some (p h r : Str) (e : stripPrefix p h = some r) : h = p ++ r := by
  unfold stripPrefix at e
  split at e
  · rename_i hp
    cases e
    obtain ⟨t, rfl⟩ := List.isPrefixOf_iff_prefix.mp hp
    simp
  · cases e

theorem stripPrefix_none (p h : Str) (e : p.isPrefixOf h = false) : stripPrefix p h = none := by
  unfold stripPrefix; simp [e]

theorem stripPrefix_nil (h : Str) : stripPrefix [] h = some h := by
  unfold stripPrefix; simp

/-- `_wrap_hash` succeeds exactly on `orig ++ r`, giving `pfx ++ r` -/
theorem wrapStr_ok (pfx orig hs x : Str) (e : wrapStr pfx orig hs = .ok x) : ∃ r, hs = orig ++ r ∧ x = pfx ++ r := by
  unfold wrapStr at e
  cases h : stripPrefix orig hs with
  | none => simp [h] at e
  | some r =>
    simp only [h, Except.ok.injEq] at e
    exact ⟨r, stripPrefix_some _ _ _ h, e.symm⟩

theorem wrapStr_append (pfx orig r : Str) : wrapStr pfx orig (orig ++ r) = .ok (pfx ++ r) := by
  unfold wrapStr; rw [stripPrefix_append]

theorem unwrapStr_append (pfx orig r : Str) : unwrapStr pfx orig (pfx ++ r) = .ok (orig ++ r) := by
  unfold unwrapStr; rw [stripPrefix_append]

theorem unwrapStr_ok (pfx orig hs u : Str) (e : unwrapStr pfx orig hs = .ok u) : ∃ r, hs = pfx ++ r ∧ u = orig ++ r := by
  unfold unwrapStr at e
  cases h : stripPrefix pfx hs with
  | none => simp [h] at e
  | some r =>
    simp only [h, Except.ok.injEq] at e
    exact ⟨r, stripPrefix_some _ _ _ h, e.symm⟩

/-- `_unwrap_hash (_wrap_hash h) = h` -/
theorem unwrap_wrap (pfx orig hs x : Str) (e : wrapStr pfx orig hs = .ok x) : unwrapStr pfx orig x = .ok hs := by
  obtain ⟨r, rfl, rfl⟩ := wrapStr_ok pfx orig hs x e
  exact unwrapStr_append pfx orig r

/-- `_wrap_hash (_unwrap_hash x) = x` -/
theorem wrap_unwrap (pfx orig x hs : Str) (e : unwrapStr pfx orig x = .ok hs) : wrapStr pfx orig hs = .ok x := by
  obtain ⟨r, rfl, rfl⟩ := unwrapStr_ok pfx orig x hs e
  exact wrapStr_append pfx orig r

/-- what `PrefixWrapper.hash` returns: the wrapped class's string with `orig` replaced by `pfx` -/
theorem wrapHashWith_ok (pfx orig : Str) (ih : Secret → Parsed → Res Str) (s : Secret) (p : Parsed) (hs : Str)
    (e : wrapHashWith pfx orig ih s p = .ok hs) : ∃ r, ih s p = .ok (orig ++ r) ∧ hs = pfx ++ r := by
  unfold wrapHashWith at e
  cases h : ih s p with
  | error x => simp [h] at e
  | ok hs0 =>
    simp only [h] at e
    obtain ⟨r, rfl, rfl⟩ := wrapStr_ok pfx orig hs0 hs e
    exact ⟨r, rfl, rfl⟩

theorem wrapHashWith_of_inner (pfx orig : Str) (ih : Secret → Parsed → Res Str) (s : Secret) (p : Parsed) (r : Str)
    (e : ih s p = .ok (orig ++ r)) : wrapHashWith pfx orig ih s p = .ok (pfx ++ r) := by
  unfold wrapHashWith; rw [e]; exact wrapStr_append pfx orig r

theorem wrapHashWith_error (pfx orig : Str) (ih : Secret → Parsed → Res Str) (s : Secret) (p : Parsed) (x : ErrKind)
    (e : ih s p = .error x) : wrapHashWith pfx orig ih s p = .error x := by
  unfold wrapHashWith; rw [e]

/-- `PrefixWrapper.verify` of a string with the prefix is the wrapped `verify` of the unwrapped string -/
theorem wrapVerifyWith_append (pfx orig : Str) (iv : Secret → Str → Res Bool) (s : Secret) (r : Str) :
    wrapVerifyWith pfx orig iv s (pfx ++ r) = iv s (orig ++ r) := by
  unfold wrapVerifyWith; rw [unwrapStr_append]

theorem wrapVerifyWith_foreign (pfx orig : Str) (iv : Secret → Str → Res Bool) (s : Secret) (hs : Str)
    (e : pfx.isPrefixOf hs = false) : wrapVerifyWith pfx orig iv s hs = .error .valueError := by
  unfold wrapVerifyWith unwrapStr; rw [stripPrefix_none _ _ e]

theorem wrapIdentifyWith_append (pfx orig : Str) (ii : Str → Bool) (r : Str) :
    wrapIdentifyWith pfx orig ii (pfx ++ r) = ii (orig ++ r) := by
  unfold wrapIdentifyWith; rw [stripPrefix_append]

theorem wrapIdentifyWith_foreign (pfx orig : Str) (ii : Str → Bool) (hs : Str) (e : pfx.isPrefixOf hs = false) :
    wrapIdentifyWith pfx orig ii hs = false := by
  unfold wrapIdentifyWith; rw [stripPrefix_none _ _ e]

/-! ### the hasher view -/

/-- the condition the real `_wrap_hash` tests: what the wrapped class renders for these settings starts with `orig_prefix` -/
def RendersWith (inner : Hasher) (orig : Str) (p : Parsed) : Prop :=
  ∀ c, ∃ r, inner.render { p with checksum := some c } = orig ++ r

theorem rendersWith_nil (inner : Hasher) (p : Parsed) : RendersWith inner [] p := fun _ => ⟨_, rfl⟩

theorem wrapHasher_render (pfx orig : Str) (inner : Hasher) (p : Parsed) (r : Str) (e : inner.render p = orig ++ r) :
    (wrapHasher pfx orig inner).render p = pfx ++ r := by
  simp [wrapHasher, e]

theorem wrapHasher_parse_append (pfx orig : Str) (inner : Hasher) (r : Str) :
    (wrapHasher pfx orig inner).parse (pfx ++ r) = inner.parse (orig ++ r) := by
  simp only [wrapHasher]; rw [stripPrefix_append]

theorem wrapHasher_digest (pfx orig : Str) (inner : Hasher) : (wrapHasher pfx orig inner).digest = inner.digest := rfl

theorem wrapHasher_checksumOf (pfx orig : Str) (inner : Hasher) (f : Bool) (s : Secret) (p : Parsed) :
    checksumOf (wrapHasher pfx orig inner) f s p = checksumOf inner f s p := rfl

/-- the wrapper round-trips wherever the wrapped hasher does and its rendering starts with `orig_prefix` -/
theorem wrap_roundtrips (pfx orig : Str) (inner : Hasher) (p : Parsed) (hrt : RoundTrips inner p) (hr : RendersWith inner orig p) :
    RoundTrips (wrapHasher pfx orig inner) p := by
  intro b c hc
  obtain ⟨r, e⟩ := hr c
  rw [wrapHasher_render pfx orig inner _ r e, wrapHasher_parse_append, ← e]
  exact hrt b c hc

theorem wrap_ignores_checksum (pfx orig : Str) (inner : Hasher) (hi : IgnoresChecksum inner) :
    IgnoresChecksum (wrapHasher pfx orig inner) := fun b p x => hi b p x

/-- `PrefixWrapper.hash` IS `hashSecret` of the hasher view (same string, same error) when the wrapped rendering starts with `orig_prefix` -/
theorem wrapHash_eq_hashSecret (pfx orig : Str) (inner : Hasher) (s : Secret) (p : Parsed) (hr : RendersWith inner orig p) :
    wrapHash pfx orig inner s p = hashSecret (wrapHasher pfx orig inner) s p := by
  unfold wrapHash wrapHashWith hashSecret
  cases validateSecret s with
  | error e => rfl
  | ok u =>
    simp only [wrapHasher_checksumOf]
    cases checksumOf inner true s p with
    | error e => rfl
    | ok c =>
      obtain ⟨r, e⟩ := hr c
      simp only [wrapHasher_render pfx orig inner _ r e, e, wrapStr_append]

/-- `PrefixWrapper.verify` IS `verify` of the hasher view whenever the secret passes the size check or the string has the prefix -/
theorem wrapVerify_eq_verify (pfx orig : Str) (inner : Hasher) (s : Secret) (hs : Str)
    (h : validateSecret s = .ok () ∨ pfx.isPrefixOf hs = true) :
    wrapVerify pfx orig inner s hs = verify (wrapHasher pfx orig inner) s hs := by
  unfold wrapVerify wrapVerifyWith unwrapStr
  cases hp : stripPrefix pfx hs with
  | some r =>
    simp only []
    unfold verify
    simp only [wrapHasher, hp]
    rfl
  | none =>
    have hv : validateSecret s = .ok () := by
      cases h with
      | inl h => exact h
      | inr h => unfold stripPrefix at hp; simp [h] at hp
    unfold verify
    simp only [hv, wrapHasher, hp]

/-- … and the only disagreement: an oversized secret against a string without the prefix — the code looks at the prefix first -/
theorem wrapVerify_oversized_foreign (pfx orig : Str) (inner : Hasher) (s : Secret) (hs : Str)
    (hl : s.len > MAX_PASSWORD_SIZE) (hp : pfx.isPrefixOf hs = false) :
    wrapVerify pfx orig inner s hs = .error .valueError ∧ verify (wrapHasher pfx orig inner) s hs = .error .sizeError :=
  ⟨wrapVerifyWith_foreign pfx orig _ s hs hp, (oversized_refused _ s {} hs hl).2⟩

end Lemmas.C01Wrap
