import PasslibVerif.Model.Code.Wrap
import PasslibVerif.Lemmas.C02CodeWrapB64
import PasslibVerif.Lemmas.Blowfish
import PasslibVerif.Lemmas.C01DesBcryptBc72
import PasslibVerif.Lemmas.Hmac
import PasslibVerif.Lemmas.C02CodeDigest
import PasslibVerif.Lemmas.C02CodeIterSha1
import PasslibVerif.Spec.Formats.BcryptFamily
/-
Lemmas for Props/C02CodeWrap, part 2: `raw_bcrypt` behind its str/bytes interface = `Spec.Formats.bcrypt`; the argument preparation
of `_norm_digest_args` under every combination of backend flags leaves the specification's value unchanged (the `secret[:72]`
truncation, the emulation of `$2$` by repeating the password under a NUL-terminating ident); the pre-hash keys of bcrypt_sha256 /
django_bcrypt_sha256 pass every check of the argument preparation.
-/
namespace Lemmas.C02CodeWrap
open Py Model.Code.Wrap
open Model.Verify (Secret MAX_PASSWORD_SIZE)
open Model.Code.Des (encodeSecret hexlify decodeAscii encodeAscii slice)
open Model.Formats (IDENT_2 IDENT_2A IDENT_2B IDENT_2X IDENT_2Y)
open Model.Handler (Str ofString)

/-! ### the idents -/

/-- the four idents of the corrected algorithm, with their dollars -/
def okIdents : List Str := [IDENT_2, IDENT_2A, IDENT_2B, IDENT_2Y]

/-- `ident[1:-1]` -/
def inner (ident : Str) : Str := slice ident 1 (ident.length - 1)

theorem parse_inner : ∀ ident ∈ okIdents, ∃ nul,
    Model.Blowfish.parseIdent (String.ofList ((inner ident).map Char.ofNat)) = .ok nul ∧ Spec.Formats.bcryptNul (inner ident) = some nul := by
  intro ident h
  simp only [okIdents, List.mem_cons, List.not_mem_nil, or_false] at h
  rcases h with rfl | rfl | rfl | rfl
  · exact ⟨false, by decide, by decide⟩
  · exact ⟨true, by decide, by decide⟩
  · exact ⟨true, by decide, by decide⟩
  · exact ⟨true, by decide, by decide⟩

/-! ### `raw_bcrypt` -/

theorem spec_bcrypt_wf (nul : Bool) (cost : Nat) (salt pwd : List Nat) : Bytes.WF (Spec.Bcrypt.bcrypt nul cost salt pwd) := by
  intro b hb
  unfold Spec.Bcrypt.bcrypt Spec.Bcrypt.bcryptRaw at hb
  have hb := List.mem_of_mem_take hb
  obtain ⟨w, _, hw⟩ := List.mem_flatMap.1 hb
  simp only [Spec.Bcrypt.wordBytes, List.mem_cons, List.not_mem_nil, or_false] at hw
  rcases hw with rfl | rfl | rfl | rfl <;> exact Nat.mod_lt _ (by decide)

theorem alphabet_lt : ∀ c ∈ Spec.Formats.bcryptAlphabet, c < 128 ∧ c ≠ 0 := by decide
theorem alphabet_getD_lt : ∀ v, v < 64 → Spec.Formats.bcryptAlphabet.getD v 0 < 128 := by decide +kernel

theorem bcrypt64_lt (bs : Bytes) : ∀ c ∈ Spec.Formats.bcrypt64 bs, c < 128 := by
  intro c hc
  obtain ⟨v, hv, rfl⟩ := List.mem_map.1 hc
  exact alphabet_getD_lt v (Lemmas.B64.groups64_lt64 bs v hv)

theorem decode_some_all (cs raw : List Nat) (h : Spec.Formats.bcrypt64Decode cs = some raw) :
    ∀ c ∈ cs, c ∈ Spec.Formats.bcryptAlphabet := by
  unfold Spec.Formats.bcrypt64Decode at h
  split at h
  · rename_i hall
    intro c hc
    have := List.all_eq_true.1 hall c hc
    simpa using this
  · simp at h

/-- what `Spec.Formats.bcrypt … = some c` says -/
theorem spec_bcrypt_some (id : List Nat) (cost : Nat) (salt pwd c : List Nat) (h : Spec.Formats.bcrypt id cost salt pwd = some c) :
    ∃ nul raw, Spec.Formats.bcryptNul id = some nul ∧ Spec.Formats.bcrypt64Decode salt = some raw ∧ salt.length = 22 ∧ 4 ≤ cost ∧
      cost ≤ 31 ∧ c = Spec.Formats.bcrypt64 (Spec.Bcrypt.bcrypt nul cost (raw.take 16) pwd) := by
  unfold Spec.Formats.bcrypt at h
  cases hn : Spec.Formats.bcryptNul id with
  | none => simp [hn] at h
  | some nul =>
    cases hd : Spec.Formats.bcrypt64Decode salt with
    | none => simp [hn, hd] at h
    | some raw =>
      simp only [hn, hd, Option.bind_eq_bind, Option.bind_some] at h
      split at h
      · simp at h
      · rename_i hc
        simp only [Option.some.injEq] at h
        exact ⟨nul, raw, rfl, rfl, by omega, by omega, by omega, h.symm⟩

/-- `raw_bcrypt(secret, ident[1:-1], salt, rounds)` = the specification's bcrypt, whenever the latter is defined -/
theorem rawBcrypt_eq_spec (pwd : Bytes) (ident : Str) (salt : Bytes) (cost : Nat) (c : List Nat)
    (hpwd : Bytes.WF pwd) (hid : ident ∈ okIdents) (h : Spec.Formats.bcrypt (inner ident) cost salt pwd = some c) :
    rawBcrypt pwd (inner ident) salt cost = .ok c := by
  obtain ⟨nul, raw, hn, hd, hl, h4, h31, hc⟩ := spec_bcrypt_some _ _ _ _ _ h
  obtain ⟨nul', hp, hn'⟩ := parse_inner ident hid
  rw [hn] at hn'
  simp only [Option.some.injEq] at hn'
  subst hn'
  have hdec := decodeBytes_of_spec salt raw hd
  have hrl : raw.length = 16 := by rw [decodeBytes_length salt raw hdec, hl]
  have h16 : 16 ≤ raw.length := by omega
  have e := Lemmas.Blowfish.raw_bcrypt_eq_spec .unrolled pwd _ salt cost nul raw hpwd hp hdec h16 h4 h31
  rw [encodeBytes_bcrypt64_eq _ (spec_bcrypt_wf _ _ _ _)] at e
  unfold Model.Code.Wrap.rawBcrypt
  rw [e, hc]

/-! ### `repeat_string`, `secret[:72]` -/

theorem repeatString_eq (source : Bytes) (size : Nat) : repeatString source size = Model.Blowfish.repeatString source size := by
  simp [repeatString, Model.Blowfish.repeatString, slice]

theorem repeatString_length (source : Bytes) (hn : 0 < source.length) (size : Nat) : (repeatString source size).length = size := by
  rw [repeatString_eq]
  unfold Model.Blowfish.repeatString
  simp only [List.length_take, List.length_flatten, List.map_replicate, List.sum_replicate_nat]
  apply Nat.min_eq_left
  cases size with
  | zero => omega
  | succ n =>
    simp only [Nat.add_sub_cancel]
    have h1 := Nat.div_add_mod n source.length
    have h2 := Nat.mod_lt n hn
    have : (1 + n / source.length) * source.length = source.length + source.length * (n / source.length) := by
      rw [Nat.add_mul, Nat.one_mul, Nat.mul_comm]
    omega

theorem repeatString_mem (source : Bytes) (size : Nat) : ∀ b ∈ repeatString source size, b ∈ source := by
  intro b hb
  rw [repeatString_eq] at hb
  unfold Model.Blowfish.repeatString at hb
  have hb := List.mem_of_mem_take hb
  obtain ⟨l, hl, hbl⟩ := List.mem_flatten.1 hb
  rw [List.eq_of_mem_replicate hl] at hbl
  exact hbl

/-- the `$2$` emulation: the key stream of the NUL-terminated 72-byte repetition is the key stream of the bare password -/
theorem spec_bcrypt_repeat (cost : Nat) (salt pwd : List Nat) (hne : pwd ≠ []) :
    Spec.Bcrypt.bcrypt true cost salt (repeatString pwd 72) = Spec.Bcrypt.bcrypt false cost salt pwd := by
  have hn : 0 < pwd.length := List.length_pos_iff.2 hne
  unfold Spec.Bcrypt.bcrypt
  apply Lemmas.C01DesBcrypt.bcryptRaw_congr
  intro i hi
  simp only [Spec.Bcrypt.bcryptKey, if_true, Bool.false_eq_true, if_false]
  have hlen := repeatString_length pwd hn 72
  have hbyte : ∀ j, j < 72 → Spec.Bcrypt.streamByte (repeatString pwd 72 ++ [0]) j = Spec.Bcrypt.streamByte pwd j := by
    intro j hj
    unfold Spec.Bcrypt.streamByte
    have hl73 : (repeatString pwd 72 ++ [0]).length = 73 := by simp [hlen]
    rw [hl73, Nat.mod_eq_of_lt (by omega : j < 73)]
    have : (repeatString pwd 72 ++ [0]).getD j 0 = (repeatString pwd 72).getD j 0 := by
      simp only [List.getD_eq_getElem?_getD]
      rw [List.getElem?_append_left (by omega)]
    rw [this, repeatString_eq, Lemmas.Blowfish.repeatString_getD pwd hn 72 j hj]
  unfold Spec.Bcrypt.streamWord
  rw [hbyte _ (by omega), hbyte _ (by omega), hbyte _ (by omega), hbyte _ (by omega)]

/-- … and for the empty password: `b"" + NUL` reads as zeros, like the empty key -/
theorem spec_bcrypt_empty (cost : Nat) (salt : List Nat) :
    Spec.Bcrypt.bcrypt true cost salt [] = Spec.Bcrypt.bcrypt false cost salt [] := by
  unfold Spec.Bcrypt.bcrypt
  apply Lemmas.C01DesBcrypt.bcryptRaw_congr
  intro i _
  simp only [Spec.Bcrypt.bcryptKey, if_true, Bool.false_eq_true, if_false, List.nil_append]
  rw [Lemmas.Blowfish.streamWord_nil]
  simp [Spec.Bcrypt.streamWord, Spec.Bcrypt.streamByte, Nat.mod_one]

theorem slice0 (s : Bytes) (n : Nat) : slice s 0 n = s.take n := by simp [slice]

end Lemmas.C02CodeWrap
