import PasslibVerif.Lemmas.ContextStr
import PasslibVerif.Props.C01Crypt
import PasslibVerif.Props.C01DesBcrypt
import PasslibVerif.Props.C01Pbkdf
/-
Lemmas for Props.C04Str, part 2 — the seven registry entries are `Sound` (from the C01 / C07 theorems of each format) for every
salt `hash()` can draw and every cost inside the class's hard limits; their `identify` functions are pairwise disjoint.
-/
namespace Lemmas.ContextStr
open Py Model.Handler Model.Formats Model.Verify Model.Rounds Model.Context Model.ContextStr Model.VerifyCrypt
open Lemmas.Context Lemmas.Rounds Lemmas.Formats Lemmas.Handler Props.C01

/-- the cost is what the class can carry: absent for a class without `rounds`, inside `min_rounds … max_rounds` otherwise -/
def CostOK (e : HasherEntry) (n : Option Int) : Prop :=
  match e.base with
  | none => n = none
  | some b => ∃ k, n = some k ∧ b.hardMin ≤ k ∧ ∀ hx, eff b.hardMax = some hx → k ≤ hx

theorem natOf_some (k : Int) (hk : 0 ≤ k) : ((natOf (some k) : Nat) : Int) = k := by
  unfold natOf; simp only [Option.getD_some]; omega

/-! ### per entry -/
theorem identByPrefix_append (ident rest : Str) (hne : ident ≠ []) : identByPrefix ident (ident ++ rest) = true := by
  unfold identByPrefix
  rw [prefix_append]
  cases ident <;> simp_all

theorem sha2_identify_render (p : Parsed) (hne : p.ident ≠ []) : identByPrefix p.ident (sha2Render p) = true := by
  unfold sha2Render
  split
  · rw [List.append_assoc]; exact identByPrefix_append _ _ hne
  · rw [List.append_assoc, List.append_assoc]; exact identByPrefix_append _ _ hne

theorem md5_sound (salt : Str) (hs : allIn h64 salt = true) (hl : salt.length ≤ 8) : Sound md5Entry salt none where
  rt := Props.C01Crypt.md5_roundtrips false salt hs hl
  ic := fun _ _ _ => rfl
  id := by
    intro s hsr hh
    obtain ⟨_, c, _, rfl⟩ := hash_parts _ s _ hsr hh
    exact md5_identify_render (ofString "$1$") (by decide) { md5Entry.settings salt none with checksum := some c } rfl
  cost := fun _ => rfl

theorem sha256_sound (salt : Str) (k : Int) (hs : allIn h64 salt = true) (hl : salt.length ≤ 16)
    (hr : 1000 ≤ k ∧ k ≤ 999999999) : Sound sha256Entry salt (some k) where
  rt := Props.C01Crypt.sha256_roundtrips salt (natOf (some k)) hs hl (by have := natOf_some k (by omega); omega)
  ic := fun _ _ _ => rfl
  id := by
    intro s hsr hh
    obtain ⟨_, c, _, rfl⟩ := hash_parts _ s _ hsr hh
    exact sha2_identify_render { sha256Entry.settings salt (some k) with checksum := some c } (by show ofString "$5$" ≠ []; decide)
  cost := by
    intro c
    show some ((natOf (some k) : Nat) : Int) = some k
    rw [natOf_some k (by omega)]

theorem sha512_sound (salt : Str) (k : Int) (hs : allIn h64 salt = true) (hl : salt.length ≤ 16)
    (hr : 1000 ≤ k ∧ k ≤ 999999999) : Sound sha512Entry salt (some k) where
  rt := Props.C01Crypt.sha512_roundtrips salt (natOf (some k)) hs hl (by have := natOf_some k (by omega); omega)
  ic := fun _ _ _ => rfl
  id := by
    intro s hsr hh
    obtain ⟨_, c, _, rfl⟩ := hash_parts _ s _ hsr hh
    exact sha2_identify_render { sha512Entry.settings salt (some k) with checksum := some c } (by show ofString "$6$" ≠ []; decide)
  cost := by
    intro c
    show some ((natOf (some k) : Nat) : Int) = some k
    rw [natOf_some k (by omega)]

theorem des_sound (salt : Str) (hs : allIn h64 salt = true) (hl : salt.length = 2) : Sound desEntry salt none where
  rt := Props.C01DesBcrypt.des_crypt_roundtrips false salt hs hl
  ic := Props.C01DesBcrypt.des_crypt_ignores_checksum false
  id := fun s hsr hh => Props.C01DesBcrypt.des_crypt_identifies_own_hash false s salt hsr hs hl hh
  cost := fun _ => rfl

theorem bsdi_sound (salt : Str) (k : Int) (hs : allIn h64 salt = true) (hl : salt.length = 4)
    (hr : 1 ≤ k ∧ k ≤ 16777215) : Sound bsdiEntry salt (some k) where
  rt := Props.C01DesBcrypt.bsdi_crypt_roundtrips salt (natOf (some k)) hs hl (by have := natOf_some k (by omega); omega)
  ic := Props.C01DesBcrypt.bsdi_crypt_ignores_checksum
  id := fun s hsr hh => Props.C01DesBcrypt.bsdi_crypt_identifies_own_hash s salt hsr (natOf (some k)) hs hl
    (by have := natOf_some k (by omega); omega) hh
  cost := by
    intro c
    show some ((natOf (some k) : Nat) : Int) = some k
    rw [natOf_some k (by omega)]

theorem phpass_sound (salt : Str) (k : Int) (hs : allIn h64 salt = true) (hl : salt.length = 8)
    (hr : 7 ≤ k ∧ k ≤ 30) : Sound phpassEntry salt (some k) where
  rt := Props.C01DesBcrypt.phpass_roundtrips (ofString "$P$") salt (natOf (some k)) (Or.inl rfl) hs hl
    (by have := natOf_some k (by omega); omega)
  ic := Props.C01DesBcrypt.phpass_ignores_checksum
  id := fun s hsr hh => Props.C01DesBcrypt.phpass_identifies_own_hash s (ofString "$P$") salt hsr (natOf (some k)) (Or.inl rfl) hs hl
    (by have := natOf_some k (by omega); omega) hh
  cost := by
    intro c
    show some ((natOf (some k) : Nat) : Int) = some k
    rw [natOf_some k (by omega)]

theorem pbkdf2_sha256_sound (salt : Str) (k : Int) (hs : Bytes.WF salt) (hl : salt.length ≤ 1024)
    (hr : 1 ≤ k ∧ k ≤ 4294967295) : Sound pbkdf2Sha256Entry salt (some k) where
  rt := Props.C01Pbkdf.pbkdf2_sha256_roundtrips salt (natOf (some k))
    ⟨hs, hl, by have := natOf_some k (by omega); omega, by have := natOf_some k (by omega); omega⟩
  ic := fun _ _ _ => rfl
  id := fun s hsr hh => Props.C01Pbkdf.pbkdf2_sha256_identifies_own_hash s salt (natOf (some k)) hsr hh
  cost := by
    intro c
    show some ((natOf (some k) : Nat) : Int) = some k
    rw [natOf_some k (by omega)]

/-- every registry entry is sound for every salt `hash()` can draw and every cost the class can carry -/
theorem entry_sound (name : String) (e : HasherEntry) (salt : Str) (n : Option Int) (he : entryOf name = some e)
    (hsalt : saltOK name salt = true) (hc : CostOK e n) : Sound e salt n := by
  unfold entryOf at he
  split at he <;> simp only [Option.some.injEq, reduceCtorEq] at he <;> subst he
  · have : n = none := hc
    subst this
    simp only [saltOK, if_true, Bool.and_eq_true, decide_eq_true_eq] at hsalt
    exact md5_sound salt hsalt.1 hsalt.2
  · obtain ⟨k, rfl, h1, h2⟩ := hc
    simp only [saltOK, String.reduceEq, if_false, true_or, if_true, Bool.and_eq_true, decide_eq_true_eq] at hsalt
    exact sha256_sound salt k hsalt.1 hsalt.2 ⟨h1, h2 999999999 (by decide)⟩
  · obtain ⟨k, rfl, h1, h2⟩ := hc
    simp only [saltOK, String.reduceEq, if_false, or_true, if_true, Bool.and_eq_true, decide_eq_true_eq] at hsalt
    exact sha512_sound salt k hsalt.1 hsalt.2 ⟨h1, h2 999999999 (by decide)⟩
  · have : n = none := hc
    subst this
    simp only [saltOK, String.reduceEq, if_false, or_self, if_true, Bool.and_eq_true, decide_eq_true_eq] at hsalt
    exact des_sound salt hsalt.1 hsalt.2
  · obtain ⟨k, rfl, h1, h2⟩ := hc
    simp only [saltOK, String.reduceEq, if_false, or_self, if_true, Bool.and_eq_true, decide_eq_true_eq] at hsalt
    exact bsdi_sound salt k hsalt.1 hsalt.2 ⟨h1, h2 16777215 (by decide)⟩
  · obtain ⟨k, rfl, h1, h2⟩ := hc
    simp only [saltOK, String.reduceEq, if_false, or_self, if_true, Bool.and_eq_true, decide_eq_true_eq] at hsalt
    exact phpass_sound salt k hsalt.1 hsalt.2 ⟨h1, h2 30 (by decide)⟩
  · obtain ⟨k, rfl, h1, h2⟩ := hc
    simp only [saltOK, String.reduceEq, if_false, or_self, if_true, Bool.and_eq_true, decide_eq_true_eq] at hsalt
    exact pbkdf2_sha256_sound salt k hsalt.1 hsalt.2 ⟨h1, h2 4294967295 (by decide)⟩

/-! ### the `identify` functions are pairwise disjoint -/

/-- the scheme a string can belong to, read off its first characters -/
def kind (hs : Str) : String :=
  if hs.take 3 = [36, 49, 36] then "md5_crypt"
  else if hs.take 3 = [36, 53, 36] then "sha256_crypt"
  else if hs.take 3 = [36, 54, 36] then "sha512_crypt"
  else if hs.take 3 = [36, 80, 36] ∨ hs.take 3 = [36, 72, 36] then "phpass"
  else if hs.take 3 = [36, 112, 98] then "pbkdf2_sha256"
  else if hs.head? = some 95 then "bsdi_crypt"
  else "des_crypt"

theorem prefix_take3 (ident hs : Str) (h : ident.isPrefixOf hs = true) (hl : 3 ≤ ident.length) : hs.take 3 = ident.take 3 := by
  obtain ⟨t, rfl⟩ := List.isPrefixOf_iff_prefix.1 h
  exact List.take_append_of_le_length hl

theorem identByPrefix_take3 (ident hs : Str) (h : identByPrefix ident hs = true) (hl : 3 ≤ ident.length) :
    hs.take 3 = ident.take 3 := by
  unfold identByPrefix at h
  simp only [Bool.and_eq_true] at h
  exact prefix_take3 ident hs h.2 hl

theorem head_of_take3 (hs : Str) (a : Nat) (t : Str) (h : hs.take 3 = a :: t) : hs.head? = some a := by
  cases hs with
  | nil => simp at h
  | cons x xs => simp at h; simp [h.1]

theorem chompNl_head (h : Str) (hl : 2 ≤ (chompNl h).length) : (chompNl h).head? = h.head? := by
  unfold chompNl at hl ⊢
  split
  · rename_i hn
    simp only [hn, if_true] at hl
    match h, hl with
    | a :: b :: r, _ => simp [List.dropLast]
    | [a], hl => simp at hl
    | [], hl => simp at hl
  · rfl

theorem des_head (hs : Str) (h : desCryptIdentify hs = true) : ∃ c, hs.head? = some c ∧ reH64Ci c = true := by
  unfold desCryptIdentify desShape at h
  simp only [Bool.and_eq_true, Bool.or_eq_true, decide_eq_true_eq] at h
  obtain ⟨_, hlen, hall⟩ := h
  have hl : 2 ≤ (chompNl hs).length := by rcases hlen with h | h <;> omega
  have hh := chompNl_head hs hl
  cases hc : chompNl hs with
  | nil => rw [hc] at hl; simp at hl
  | cons c r =>
    rw [hc] at hh hall
    simp only [List.all_cons, Bool.and_eq_true] at hall
    exact ⟨c, by simpa using hh.symm, hall.1⟩

theorem bsdi_head (hs : Str) (h : bsdi_crypt.identify hs = true) : hs.head? = some 95 := by
  simp only [bsdi_crypt, Bool.and_eq_true] at h
  have h2 := h.2
  unfold bsdiShape at h2
  cases hc : chompNl hs with
  | nil => simp [hc] at h2
  | cons c r =>
    simp only [hc, Bool.and_eq_true, Bool.or_eq_true, decide_eq_true_eq] at h2
    have hl : 2 ≤ (chompNl hs).length := by rw [hc]; simp only [List.length_cons]; rcases h2.1.2 with h | h <;> omega
    have hh := chompNl_head hs hl
    rw [hc] at hh
    simp only [List.head?_cons] at hh
    rw [← hh, h2.1.1]; rfl

theorem kind_of_claim (name : String) (e : HasherEntry) (hs : Str) (he : entryOf name = some e) (hid : e.identify hs = true) :
    kind hs = name := by
  unfold entryOf at he
  split at he <;> simp only [Option.some.injEq, reduceCtorEq] at he <;> subst he
  · have := identByPrefix_take3 _ hs hid (by decide)
    have h3 : hs.take 3 = [36, 49, 36] := by rw [this]; decide
    simp [kind, h3]
  · have := identByPrefix_take3 _ hs hid (by decide)
    have h3 : hs.take 3 = [36, 53, 36] := by rw [this]; decide
    simp [kind, h3]
  · have := identByPrefix_take3 _ hs hid (by decide)
    have h3 : hs.take 3 = [36, 54, 36] := by rw [this]; decide
    simp [kind, h3]
  · obtain ⟨c, hc, hr⟩ := des_head hs hid
    have hne : ∀ a t, hs.take 3 = a :: t → reH64Ci a = true := by
      intro a t ht
      have := head_of_take3 hs a t ht
      rw [hc] at this; cases this; exact hr
    have n36 : reH64Ci 36 = false := by decide
    have n95 : reH64Ci 95 = false := by decide
    have h1 : ∀ t, hs.take 3 ≠ 36 :: t := fun t ht => by have := hne 36 t ht; rw [n36] at this; cases this
    have h2 : hs.head? ≠ some 95 := by rw [hc]; intro h; cases h; rw [n95] at hr; cases hr
    simp [kind, h1, h2]
  · have hh := bsdi_head hs hid
    have h1 : ∀ t, hs.take 3 ≠ 36 :: t := fun t ht => by have := head_of_take3 hs 36 t ht; rw [hh] at this; cases this
    simp [kind, h1, hh]
  · have hid' : identAny phpassIdents hs = true := hid
    unfold identAny phpassIdents at hid'
    simp only [List.any_cons, List.any_nil, Bool.or_false, Bool.or_eq_true] at hid'
    rcases hid' with h | h
    · have := prefix_take3 _ hs h (by decide)
      have h3 : hs.take 3 = [36, 80, 36] := by rw [this]; decide
      simp [kind, h3]
    · have := prefix_take3 _ hs h (by decide)
      have h3 : hs.take 3 = [36, 72, 36] := by rw [this]; decide
      simp [kind, h3]
  · have := identByPrefix_take3 PBKDF2_SHA256_IDENT hs hid (by decide)
    have h3 : hs.take 3 = [36, 112, 98] := by rw [this]; decide
    simp [kind, h3]

/-- a string is claimed by at most one of the seven hashers -/
theorem cl_unique (hs : Str) (n1 n2 : String) (h1 : cl hs n1 = true) (h2 : cl hs n2 = true) : n1 = n2 := by
  unfold cl at h1 h2
  cases he1 : entryOf n1 with
  | none => simp [he1] at h1
  | some e1 =>
    cases he2 : entryOf n2 with
    | none => simp [he2] at h2
    | some e2 =>
      simp only [he1, he2] at h1 h2
      rw [← kind_of_claim n1 e1 hs he1 h1, ← kind_of_claim n2 e2 hs he2 h2]

end Lemmas.ContextStr
