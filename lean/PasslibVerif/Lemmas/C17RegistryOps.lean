import PasslibVerif.Lemmas.C17Registry
/-
What each function of the registry model can do: case analyses used by Props/C17Registry.lean, and the invariant.
-/
namespace Model.Registry
open Py

instance : DecidableEq (Except Err Val)
  | .ok a, .ok b => if h : a = b then isTrue (by rw [h]) else isFalse (by intro e; cases e; exact h rfl)
  | .error a, .error b => if h : a = b then isTrue (by rw [h]) else isFalse (by intro e; cases e; exact h rfl)
  | .ok _, .error _ => isFalse (by intro e; cases e)
  | .error _, .ok _ => isFalse (by intro e; cases e)

/-- what may sit under key `k` of `_handlers` (the proxy's instance dict): a private attribute of the proxy (anything), or a truthy
    handler object under its own, valid, name -/
def GoodEntry (k : Name) (h : Handler) : Prop :=
  us k = true ∨ (validName k = true ∧ h.name = .str k ∧ h.truthy = true ∧ h.attrsOk = true)

def pathOk (p : Name) : Bool := match checkPath p with | .ok _ => true | .error _ => false

/-- the invariant of the registry -/
structure RegInv (s : State) : Prop where
  handlers : ∀ k h, get? s.handlers k = some h → GoodEntry k h
  locations : ∀ k p, get? s.locations k = some p → validName k = true ∧ pathOk p = true

theorem validateAttr_ok {na : NameAttr} {name : Name} (h : validateAttr na = .ok name) : na = .str name ∧ validName name = true := by
  cases na with
  | missing => simp [validateAttr] at h
  | other t => cases t <;> simp [validateAttr] at h
  | str s =>
    simp only [validateAttr] at h
    unfold validName
    split at h
    · rename_i hv
      cases h
      simp [hv]
    · cases h

theorem validateAttr_str {s : Name} (h : validName s = true) : validateAttr (.str s) = .ok s := by
  unfold validName at h
  simp only [validateAttr]
  split at h
  · rfl
  · cases h

theorem isCryptHandler_attrs {h : Handler} (hc : isCryptHandler h = true) : h.attrsOk = true := by
  unfold isCryptHandler at hc
  simp at hc
  exact hc.1

theorem store_ok {s s' : State} {name : Name} {h : Handler} {f : Bool} (hr : store s name h f = .ok s') :
    (s' = s ∧ ∃ o, get? s.handlers name = some o ∧ o.id = h.id) ∨ s' = { s with handlers := put s.handlers name h } := by
  unfold store at hr
  split at hr
  · rename_i other ho
    split at hr
    · split at hr
      · rename_i hid
        cases hr
        exact Or.inl ⟨rfl, other, ho, hid⟩
      · split at hr
        · cases hr; exact Or.inr rfl
        · cases hr
    · cases hr; exact Or.inr rfl
  · cases hr; exact Or.inr rfl

/-- a successful registration: the object is a truthy handler with a valid str name; the state is unchanged (the same object was there)
    or the object now sits under its name -/
theorem register_ok {s s' : State} {h : Handler} {f : Bool} {a : Option Name} (hr : register s h f a = .ok s') :
    ∃ name, h.name = .str name ∧ validName name = true ∧ h.truthy = true ∧ h.attrsOk = true ∧ attrMismatch a name = false ∧
      ((s' = s ∧ ∃ o, get? s.handlers name = some o ∧ o.id = h.id) ∨ s' = { s with handlers := put s.handlers name h }) := by
  unfold register at hr
  split at hr
  · cases hr
  rename_i hc
  split at hr
  · cases hr
  rename_i ht
  split at hr
  · cases hr
  rename_i name hv
  obtain ⟨hn, hval⟩ := validateAttr_ok hv
  have hc' : h.attrsOk = true := isCryptHandler_attrs (by simpa using hc)
  have ht' : h.truthy = true := by simpa using ht
  split at hr
  · cases hr
  rename_i hat
  exact ⟨name, hn, hval, ht', hc', by simpa using hat, store_ok hr⟩

/-- registered with a non-empty `_attr`: the object carries that name -/
theorem register_attr {s s' : State} {h : Handler} {f : Bool} {a : Name} (hr : register s h f (some a) = .ok s') (ha : a ≠ []) :
    h.name = .str a := by
  obtain ⟨name, hn, _, _, _, hat, _⟩ := register_ok hr
  simp [attrMismatch, ha] at hat
  rw [hn, hat]

theorem inv_put_handler {s : State} (hi : RegInv s) {k : Name} {h : Handler} (hg : GoodEntry k h) :
    RegInv { s with handlers := put s.handlers k h } := by
  refine ⟨?_, hi.locations⟩
  intro k' h' hk
  by_cases e : k = k'
  · subst e
    rw [get?_put_self] at hk
    cases hk
    exact hg
  · rw [get?_put_ne _ _ _ _ e] at hk
    exact hi.handlers k' h' hk

theorem register_inv {s s' : State} {h : Handler} {f : Bool} {a : Option Name} (hi : RegInv s) (hr : register s h f a = .ok s') : RegInv s' := by
  obtain ⟨name, hn, hv, ht, hc, _, hs⟩ := register_ok hr
  rcases hs with ⟨e, _⟩ | e
  · rw [e]; exact hi
  · rw [e]; exact inv_put_handler hi (Or.inr ⟨hv, hn, ht, hc⟩)

theorem registerPath_ok {s s' : State} {n p : Name} (hr : registerPath s n p = .ok s') :
    validName n = true ∧ pathOk p = true ∧ s' = { s with locations := put s.locations n p } := by
  unfold registerPath at hr
  split at hr
  · cases hr
  rename_i u hv
  split at hr
  · cases hr
  rename_i u2 hp
  cases hr
  refine ⟨?_, ?_, rfl⟩
  · unfold validName; rw [hv]
  · unfold pathOk; rw [hp]

theorem registerPath_inv {s s' : State} {n p : Name} (hi : RegInv s) (hr : registerPath s n p = .ok s') : RegInv s' := by
  obtain ⟨hv, hp, e⟩ := registerPath_ok hr
  rw [e]
  refine ⟨hi.handlers, ?_⟩
  intro k q hk
  by_cases e2 : n = k
  · subst e2
    rw [get?_put_self] at hk
    cases hk
    exact ⟨hv, hp⟩
  · rw [get?_put_ne _ _ _ _ e2] at hk
    exact hi.locations k q hk

theorem lazyLoad_ok {w : World} {s s' : State} {name path : Name} {h : Handler} (hl : lazyLoad w s name path = .ok (h, s')) :
    register s h false (some name) = .ok s' := by
  unfold lazyLoad at hl
  split at hl
  · cases hl
  split at hl
  · cases hl
  split at hl
  · cases hl
  split at hl
  · cases hl
  split at hl
  · cases hl
  · rename_i h0 hg s0 hr
    cases hl
    exact hr

theorem notFound_not_handler (d : Bool) (e : Err) (h : Handler) : notFound d e ≠ .ok (.handler h) := by
  unfold notFound; cases d <;> simp

/-- everything `get_crypt_handler` can do -/
theorem getHandler_cases (w : World) (s : State) (n : Name) (d : Bool) :
    (us n = true ∧ getHandler w s n d = (false, notFound d .invalidName, s)) ∨
    (us n = false ∧ ∃ h, get? s.handlers n = some h ∧ getHandler w s n d = (false, .ok (.handler h), s)) ∨
    (us n = false ∧ get? s.handlers n = none ∧ norm n ≠ n ∧ ∃ h, get? s.handlers (norm n) = some h ∧ getHandler w s n d = (true, .ok (.handler h), s)) ∨
    (us n = false ∧ get? s.handlers n = none ∧ get? s.handlers (norm n) = none ∧
      ((∃ path h s', get? s.locations (norm n) = some path ∧ path ≠ [] ∧ lazyLoad w s (norm n) path = .ok (h, s') ∧
          getHandler w s n d = (decide (norm n ≠ n), .ok (.handler h), s')) ∨
       (∃ r, (∀ h, r ≠ .ok (.handler h)) ∧ getHandler w s n d = (decide (norm n ≠ n), r, s)))) := by
  by_cases hu : us n = true
  · left; exact ⟨hu, by simp [getHandler, hu]⟩
  right
  have hu' : us n = false := by simpa using hu
  cases h1 : get? s.handlers n with
  | some h => left; exact ⟨hu', h, rfl, by simp [getHandler, hu', h1]⟩
  | none =>
    right
    by_cases hn : norm n = n
    · right
      refine ⟨hu', rfl, by rw [hn]; exact h1, ?_⟩
      cases h3 : get? s.locations (norm n) with
      | none =>
        right
        exact ⟨notFound d .notFound, notFound_not_handler d _, by rw [hn] at h3; simp [getHandler, hu', h1, hn, h3]⟩
      | some path =>
        rw [hn] at h3
        by_cases hp : path = []
        · right
          exact ⟨notFound d .notFound, notFound_not_handler d _, by simp [getHandler, hu', h1, hn, h3, hp]⟩
        · cases h4 : lazyLoad w s n path with
          | error e =>
            right
            exact ⟨.error e, by intro h; simp, by simp [getHandler, hu', h1, hn, h3, hp, h4]⟩
          | ok r =>
            obtain ⟨h, s'⟩ := r
            left
            refine ⟨path, h, s', rfl, hp, by rw [hn]; exact h4, by simp [getHandler, hu', h1, hn, h3, hp, h4]⟩
    · cases h2 : get? s.handlers (norm n) with
      | some h => left; exact ⟨hu', rfl, hn, h, rfl, by simp [getHandler, hu', h1, hn, h2]⟩
      | none =>
        right
        refine ⟨hu', rfl, rfl, ?_⟩
        cases h3 : get? s.locations (norm n) with
        | none =>
          right
          exact ⟨notFound d .notFound, notFound_not_handler d _, by simp [getHandler, hu', h1, hn, h2, h3]⟩
        | some path =>
          by_cases hp : path = []
          · right
            exact ⟨notFound d .notFound, notFound_not_handler d _, by simp [getHandler, hu', h1, hn, h2, h3, hp]⟩
          · cases h4 : lazyLoad w s (norm n) path with
            | error e =>
              right
              exact ⟨.error e, by intro h; simp, by simp [getHandler, hu', h1, hn, h2, h3, hp, h4]⟩
            | ok r =>
              obtain ⟨h, s'⟩ := r
              left
              exact ⟨path, h, s', rfl, hp, h4, by simp [getHandler, hu', h1, hn, h2, h3, hp, h4]⟩

theorem getHandler_inv {w : World} {s : State} (hi : RegInv s) (n : Name) (d : Bool) : RegInv (getHandler w s n d).2.2 := by
  rcases getHandler_cases w s n d with ⟨_, e⟩ | ⟨_, h, _, e⟩ | ⟨_, _, _, h, _, e⟩ | ⟨_, _, _, ⟨path, h, s', _, _, hl, e⟩ | ⟨r, _, e⟩⟩
  · rw [e]; exact hi
  · rw [e]; exact hi
  · rw [e]; exact hi
  · rw [e]; exact register_inv hi (lazyLoad_ok hl)
  · rw [e]; exact hi

/-- what `passlib.hash.<a>` does to the state is what `get_crypt_handler(a, None)` does -/
theorem proxyGet_state (w : World) (s : State) (a : Name) :
    (proxyGet w s a).2.2 = s ∨ (proxyGet w s a).2.2 = (getHandler w s a true).2.2 := by
  unfold proxyGet
  split
  · left; rfl
  · split
    · left; rfl
    · split
      · rename_i wn h s' e
        right
        split <;> simp [e]
      · rename_i e; right; simp [e]
      · rename_i e; right; simp [e]

theorem get?_mem {α : Type} : ∀ (l : List (Name × α)) (k : Name) (v : α), get? l k = some v → (k, v) ∈ l
  | [], _, _, h => by simp [get?] at h
  | (a, x) :: t, k, v, h => by
    by_cases e : a = k
    · subst e; simp [get?] at h; subst h; simp
    · simp [get?, e] at h
      exact List.mem_cons_of_mem _ (get?_mem t k v h)

end Model.Registry
