import PasslibVerif.Lemmas.ContextStrSound
/-
Lemmas for Props.C04Str, part 3 — the policy model over the computed atoms: what `hashCtx` hands to the hasher model, the
atoms of a string made by a scheme of the context, the record of the category's default scheme accepts what it generated.
-/
namespace Lemmas.ContextStr
open Py Model.Handler Model.Formats Model.Verify Model.Rounds Model.Context Model.ContextStr
open Lemmas.Context Lemmas.Rounds Props.C01

theorem cfgOver_mem (c : Cfg) (h : cfgOver c = true) (s : SchemeInfo) (hs : s ∈ c.schemes) :
    ∃ e, entryOf s.name = some e ∧ s.base = e.base := by
  unfold cfgOver at h
  rw [List.all_eq_true] at h
  have := h s hs
  cases he : entryOf s.name with
  | none => simp [he] at this
  | some e => simp only [he, decide_eq_true_eq] at this; exact ⟨e, rfl, this⟩

theorem record_of_get (c : Cfg) (s : SchemeInfo) (cat : Cat) (r : Record) (hr : getRecord c s cat = .ok r) :
    ∃ o dep, createRecord s o dep = .ok r := by
  unfold getRecord at hr
  cases cat with
  | none => exact ⟨_, _, hr⟩
  | some kk => simp only at hr; split at hr <;> exact ⟨_, _, hr⟩

/-- `hashCtx` unfolded (keeps the hard-limit check of the generated cost, which `hash_by_default_scheme` drops) -/
theorem hashCtx_parts (c : Cfg) (cat : Cat) (draw : Nat) (fv : Int) (d : String) (n : Option Int)
    (hh : hashCtx c cat draw fv = .ok (d, n)) :
    defaultScheme c cat = .ok d ∧ ∃ s r, c.schemes.find? (fun x => x.name = d) = some s ∧ s ∈ c.schemes ∧ s.name = d ∧
      getRecord c s cat = .ok r ∧
      (match r.cls with | none => n = none | some cls => ∃ k, generateChecked cls draw fv = .ok k ∧ n = some k) := by
  unfold hashCtx at hh
  cases hd : defaultScheme c cat with
  | error e => simp [hd] at hh
  | ok d' =>
    simp only [hd] at hh
    cases hf : c.schemes.find? (fun x => x.name = d') with
    | none => simp [hf] at hh
    | some s =>
      simp only [hf] at hh
      have hmem : s ∈ c.schemes := List.mem_of_find?_eq_some hf
      have hname : s.name = d' := by have := List.find?_some hf; simpa using this
      cases hr : getRecord c s cat with
      | error e => simp [hr] at hh
      | ok r =>
        simp only [hr] at hh
        cases hc : r.cls with
        | none =>
          simp only [hc, Except.ok.injEq, Prod.mk.injEq] at hh
          obtain ⟨rfl, rfl⟩ := hh
          exact ⟨rfl, s, r, hf, hmem, hname, hr, by simp [hc]⟩
        | some cls =>
          simp only [hc] at hh
          cases hg : generateChecked cls draw fv with
          | error e => simp [hg, Except.map] at hh
          | ok k =>
            simp only [hg, Except.map, Except.ok.injEq, Prod.mk.injEq] at hh
            obtain ⟨rfl, rfl⟩ := hh
            exact ⟨rfl, s, r, hf, hmem, hname, hr, by simp [hc]; exact hg⟩

/-- the cost the policy model generates is one the default scheme's class can carry -/
theorem hashCtx_cost (c : Cfg) (hover : cfgOver c = true) (cat : Cat) (draw : Nat) (fv : Int) (d : String) (n : Option Int)
    (hh : hashCtx c cat draw fv = .ok (d, n)) : ∃ e, entryOf d = some e ∧ CostOK e n := by
  obtain ⟨_, s, r, _, hmem, hname, hr, hcls⟩ := hashCtx_parts c cat draw fv d n hh
  obtain ⟨e, he, hb⟩ := cfgOver_mem c hover s hmem
  obtain ⟨o, dep, hcr⟩ := record_of_get c s cat r hr
  have hck := (createRecord_ok s o dep r hcr).2.2
  refine ⟨e, hname ▸ he, ?_⟩
  unfold CostOK
  cases hbase : e.base with
  | none =>
    rw [hbase] at hb
    simp only [hb] at hck
    simp only [hck] at hcls
    exact hcls
  | some b =>
    rw [hbase] at hb
    simp only [hb] at hck
    obtain ⟨a, cls, hu, hc⟩ := hck
    simp only [hc] at hcls
    obtain ⟨k, hg, hn⟩ := hcls
    obtain ⟨_, h1, h2⟩ := generateChecked_ok cls draw fv k hg
    obtain ⟨s1, s2, _⟩ := using_shape b cls a hu
    exact ⟨k, hn, by rw [← s1]; exact h1, by rw [← s2]; exact h2⟩

/-! ### the atoms of a string made by a scheme of the context -/

/-- the string is attributed to the (first) scheme of that name: no other modelled hasher claims it -/
theorem attributed_exact (c : Cfg) (hs : Str) (secret : Secret) (x : SchemeInfo) (hx : x ∈ c.schemes) (hcl : cl hs x.name = true) :
    ∃ y, c.schemes.find? (fun t => t.name = x.name) = some y ∧ identify c (factsOf (entriesOf c) hs secret) = .ok y ∧ y.name = x.name := by
  rw [identify_facts]
  have hagree : ∀ t ∈ c.schemes, cl hs t.name = decide (t.name = x.name) := by
    intro t _
    by_cases ht : t.name = x.name
    · rw [ht, hcl]; simp
    · have : cl hs t.name = false := by
        cases h : cl hs t.name with
        | false => rfl
        | true => exact absurd (cl_unique hs _ _ h hcl) ht
      rw [this]; simp [ht]
  rw [find_congr _ (fun t => decide (t.name = x.name)) c.schemes hagree]
  cases hf : c.schemes.find? (fun t => decide (t.name = x.name)) with
  | none =>
    rw [List.find?_eq_none] at hf
    exact absurd (by simp) (hf x hx)
  | some y =>
    have : y.name = x.name := by have := List.find?_some hf; simpa using this
    exact ⟨y, rfl, rfl, this⟩

/-- everything the policy model sees of a string made by scheme `x` of the context (sound for the settings used) -/
theorem made_by_facts (c : Cfg) (x : SchemeInfo) (hx : x ∈ c.schemes) (e : HasherEntry) (he : entryOf x.name = some e)
    (salt : Str) (n : Option Int) (hsound : Sound e salt n) (s : Secret) (hs : Str)
    (hh : hashSecret e.hasher s (e.settings salt n) = .ok hs) (secret' : Secret) :
    ∃ y, c.schemes.find? (fun t => t.name = x.name) = some y ∧ y.name = x.name ∧
      identify c (factsOf (entriesOf c) hs secret') = .ok y ∧
      firstClaimer (entriesOf c) hs = some (x.name, e) ∧
      (factsOf (entriesOf c) hs secret').rounds = n ∧ (factsOf (entriesOf c) hs secret').selfFlag = false ∧
      (factsOf (entriesOf c) hs secret').verifies = verify e.hasher secret' hs ∧
      ∃ cc, checksumOf e.hasher true s (e.settings salt n) = .ok cc ∧
        e.hasher.parse hs = .ok { e.settings salt n with checksum := some cc } := by
  obtain ⟨hid, _, cc, hck, hparse, hcost⟩ := own_hash e salt n hsound s hs hh
  have hcl : cl hs x.name = true := by unfold cl; rw [he]; exact hid
  obtain ⟨y, hfy, hiy, hyn⟩ := attributed_exact c hs secret' x hx hcl
  obtain ⟨e2, he2, _, hfc, hv, hr, hflag⟩ := facts_of_identified c hs secret' y hiy
  rw [hyn, he] at he2
  cases he2
  rw [hyn] at hfc
  refine ⟨y, hfy, hyn, hiy, hfc, ?_, hflag, hv, cc, hck, hparse⟩
  rw [hr, hparse]
  exact hcost

/-! ### the default scheme's record accepts the cost it generated -/

/-- a class without the make-odd step: the record generates inside its own window (from `generate_in_window`) -/
theorem default_window_accepts (c : Cfg) (cat : Cat) (draw : Nat) (fv : Int) (d : String) (n : Option Int)
    (hh : hashCtx c cat draw fv = .ok (d, n)) (s : SchemeInfo) (r : Record)
    (hf : c.schemes.find? (fun x => x.name = d) = some s) (hr : getRecord c s cat = .ok r)
    (hbase : ∀ b, s.base = some b → BaseOK b ∧ b.forceOdd = false) :
    ∀ cls k, r.cls = some cls → n = some k → needsUpdate cls k = false := by
  intro cls k hc hn
  obtain ⟨_, s', r', hf', hmem, _, hr', hcls⟩ := hashCtx_parts c cat draw fv d n hh
  rw [hf] at hf'; cases hf'
  rw [hr] at hr'; cases hr'
  simp only [hc] at hcls
  obtain ⟨k', hg, hn'⟩ := hcls
  rw [hn] at hn'; cases hn'
  obtain ⟨o, dep, hcr⟩ := record_of_get c s cat r hr
  have hck := (createRecord_ok s o dep r hcr).2.2
  cases hb : s.base with
  | none => simp only [hb] at hck; rw [hck] at hc; cases hc
  | some b =>
    simp only [hb] at hck
    obtain ⟨a, cls', hu, hcls'⟩ := hck
    rw [hc] at hcls'; cases hcls'
    obtain ⟨hbok, hodd⟩ := hbase b hb
    have hw := window_of_single_call b cls a hbok hu
    have hshape := using_shape b cls a hu
    have hodd' : cls.forceOdd = false := by rw [hshape.2.2.1]; exact hodd
    have hcok := using_preserves_ok b cls a hbok.ok hu
    have := generate_in_window cls hw hodd'
      (by cases hcm : cls.minDesired with
          | none => simp
          | some x => simpa using hcok.mn x hcm)
      (by intro bb hbb
          cases hcm : cls.maxDesired with
          | none => simp [hcm, eff] at hbb
          | some y =>
            have := hcok.mx y hcm
            by_cases hy : y = 0 <;> simp [hcm, eff, hy] at hbb; omega)
      (fun dd hdd => using_default_in_window b cls a hbok.ok hu hw dd hdd) draw fv k (generateChecked_ok cls draw fv k hg).1
    exact this.2

/-- the record of the category's default scheme does not flag a string that carries the cost it generated -/
theorem default_record_accepts (c : Cfg) (cat : Cat) (draw : Nat) (fv : Int) (d : String) (n : Option Int)
    (hh : hashCtx c cat draw fv = .ok (d, n)) (s : SchemeInfo) (r : Record)
    (hf : c.schemes.find? (fun x => x.name = d) = some s) (hr : getRecord c s cat = .ok r)
    (hacc : ∀ cls k, r.cls = some cls → n = some k → needsUpdate cls k = false)
    (h : HashFacts) (hrounds : h.rounds = n) (hflag : h.selfFlag = false) :
    r.deprecated = false ∧ recordNeedsUpdate r h = false := by
  obtain ⟨hd, s', _, hf', _, hname, _, _⟩ := hashCtx_parts c cat draw fv d n hh
  rw [hf] at hf'; cases hf'
  have hnd : r.deprecated = false := getRecord_default_not_dep c s cat r (by rw [hname]; exact hd) hr
  refine ⟨hnd, ?_⟩
  unfold recordNeedsUpdate
  simp only [hnd, hflag, Bool.false_or, hrounds]
  cases hc : r.cls with
  | none => rfl
  | some cls =>
    cases hn : n with
    | none => rfl
    | some k => exact hacc cls k hc hn

/-- the entries' own classes: sane limits, no window of their own; only bsdi_crypt makes generated costs odd -/
theorem entry_base_ok (name : String) (e : HasherEntry) (b : Cls) (he : entryOf name = some e) (hb : e.base = some b) :
    BaseOK b ∧ (name ≠ "bsdi_crypt" → b.forceOdd = false) := by
  unfold entryOf at he
  split at he <;> simp only [Option.some.injEq, reduceCtorEq] at he <;> subst he <;>
    simp only [md5Entry, sha256Entry, sha512Entry, desEntry, bsdiEntry, phpassEntry, pbkdf2Sha256Entry, Option.some.injEq, reduceCtorEq] at hb <;>
    subst hb <;>
    exact ⟨⟨rfl, rfl, ⟨(by intro hx h; cases h; exact ⟨by decide, by decide⟩), (by decide), (by intro a h; cases h),
      (by intro a h; cases h), (by intro a h; cases h; decide)⟩⟩, by simp⟩

/-! ### `hashWith` fails like `hashCtx` once the secret has passed the size check -/
theorem hashWith_err (c : Cfg) (cat : Cat) (draw : Nat) (fv : Int) (salt : Str) (s : Secret) (err : ErrKind)
    (hv : validateSecret s = .ok ()) (hc : hashCtx c cat draw fv = .error err) : hashWith c cat draw fv salt s = .error err := by
  unfold hashWith
  unfold hashCtx at hc
  cases hd : defaultScheme c cat with
  | error e => simp only [hd] at hc ⊢; cases hc; rfl
  | ok d =>
    simp only [hd] at hc ⊢
    cases hf : c.schemes.find? (fun x => x.name = d) with
    | none => simp only [hf] at hc ⊢; cases hc; rfl
    | some si =>
      simp only [hf] at hc ⊢
      cases hr : getRecord c si cat with
      | error e => simp only [hr] at hc ⊢; cases hc; rfl
      | ok r =>
        simp only [hv]
        have : hashCtx c cat draw fv = .error err := by
          unfold hashCtx; simp only [hd, hf, hr]; simp only [hr] at hc; exact hc
        simp only [this]

end Lemmas.ContextStr
