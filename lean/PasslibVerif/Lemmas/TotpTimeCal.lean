import PasslibVerif.Model.TotpTime
/-
Calendar lemmas for `Model.TotpTime`: CPython's `_ymd2ord` / `_ord2ymd` are inverse to each other (every year, every valid
month and day), `_days_before_year` in the 400/100/4/1-year mixed radix (146097 / 36524 / 1461 / 365 days), monotonicity.
-/
namespace Lemmas.TotpTimeCal
open Model.TotpTime

theorem isLeap_iff (y : Int) : isLeap y = true ↔ (y % 4 = 0 ∧ (y % 100 ≠ 0 ∨ y % 400 = 0)) := by
  simp [isLeap]

/-- digits of `year - 1` in the mixed radix 400 / 100 / 4 / 1 and what they say about `_days_before_year` and `_is_leap` -/
theorem daysBeforeYear_digits (y : Int) :
    let Y := y - 1
    let a := Y / 400
    let b := Y % 400 / 100
    let c := Y % 100 / 4
    let e := Y % 4
    0 ≤ b ∧ b ≤ 3 ∧ 0 ≤ c ∧ c ≤ 24 ∧ 0 ≤ e ∧ e ≤ 3 ∧ y = 400 * a + 100 * b + 4 * c + e + 1 ∧
    daysBeforeYear y = 146097 * a + 36524 * b + 1461 * c + 365 * e ∧
    ((y % 4 = 0 ∧ (y % 100 ≠ 0 ∨ y % 400 = 0)) ↔ (e = 3 ∧ (c ≠ 24 ∨ b = 3))) := by
  intro Y a b c e
  simp only [Y, a, b, c, e, daysBeforeYear]
  omega

/-- the four `divmod`s of `_ord2ymd` on 146097·a + 36524·b + 1461·c + 365·e + (day of year) -/
theorem cycle_split (a b c e doy : Int) (hb : 0 ≤ b) (hb' : b ≤ 3) (hc : 0 ≤ c) (hc' : c ≤ 24) (he : 0 ≤ e) (he' : e ≤ 3)
    (hd : 0 ≤ doy) (hd' : doy < 365 ∨ (doy = 365 ∧ e = 3 ∧ (c ≠ 24 ∨ b = 3))) :
    let n := 146097 * a + 36524 * b + 1461 * c + 365 * e + doy
    let n400 := n / 146097
    let r1 := n % 146097
    let n100 := r1 / 36524
    let r2 := r1 % 36524
    let n4 := r2 / 1461
    let r3 := r2 % 1461
    let n1 := r3 / 365
    let r4 := r3 % 365
    n400 = a ∧
    (doy < 365 → n100 = b ∧ n4 = c ∧ n1 = e ∧ r4 = doy) ∧
    (doy = 365 → (n1 = 4 ∨ n100 = 4) ∧ n100 * 100 + n4 * 4 + n1 = 100 * b + 4 * c + e + 1) := by
  intro n n400 r1 n100 r2 n4 r3 n1 r4
  have h1 : n400 = a := by simp only [n400, n]; omega
  have h2 : r1 = 36524 * b + 1461 * c + 365 * e + doy := by simp only [r1, n]; omega
  refine ⟨h1, ?_, ?_⟩
  · intro hlt
    have h3 : n100 = b := by simp only [n100, h2]; omega
    have h4 : r2 = 1461 * c + 365 * e + doy := by simp only [r2, h2]; omega
    have h5 : n4 = c := by simp only [n4, h4]; omega
    have h6 : r3 = 365 * e + doy := by simp only [r3, h4]; omega
    have h7 : n1 = e := by simp only [n1, h6]; omega
    have h8 : r4 = doy := by simp only [r4, h6]; omega
    exact ⟨h3, h5, h7, h8⟩
  · intro heq
    have he3 : e = 3 := by omega
    rcases (show c ≤ 23 ∨ (c = 24 ∧ b = 3) by omega) with hc23 | ⟨hc24, hb3⟩
    · have h3 : n100 = b := by simp only [n100, h2]; omega
      have h4 : r2 = 1461 * c + 1460 := by simp only [r2, h2]; omega
      have h5 : n4 = c := by simp only [n4, h4]; omega
      have h6 : r3 = 1460 := by simp only [r3, h4]; omega
      have h7 : n1 = 4 := by simp only [n1, h6]; omega
      rw [h3, h5, h7]; omega
    · have h2' : r1 = 146096 := by rw [h2]; omega
      have h3 : n100 = 4 := by simp only [n100, h2']; omega
      have h4 : r2 = 0 := by simp only [r2, h2']; omega
      have h5 : n4 = 0 := by simp only [n4, h4]; omega
      have h6 : r3 = 0 := by simp only [r3, h4]; omega
      have h7 : n1 = 0 := by simp only [n1, h6]; omega
      rw [h3, h5, h7]; omega

/-! ### the month table (2 × 12 months × 31 days and 2 × 366 days of the year, checked by the kernel) -/

theorem month_table_fwd : ∀ leap : Bool, ∀ m : Nat, m < 13 → ∀ d : Nat, d < 32 →
    (1 ≤ m ∧ 1 ≤ d ∧ (d : Int) ≤ daysInMonthL leap ((m : Nat) : Int)) →
    monthDayOf leap (daysBeforeMonthL leap ((m : Nat) : Int) + ((d : Nat) : Int) - 1) = (((m : Nat) : Int), ((d : Nat) : Int)) := by
  decide +kernel

theorem month_table_bwd : ∀ leap : Bool, ∀ n : Nat, n < 366 → (n < 365 ∨ leap = true) →
    1 ≤ (monthDayOf leap ((n : Nat) : Int)).1 ∧ (monthDayOf leap ((n : Nat) : Int)).1 ≤ 12 ∧
    1 ≤ (monthDayOf leap ((n : Nat) : Int)).2 ∧
    (monthDayOf leap ((n : Nat) : Int)).2 ≤ daysInMonthL leap (monthDayOf leap ((n : Nat) : Int)).1 ∧
    daysBeforeMonthL leap (monthDayOf leap ((n : Nat) : Int)).1 + (monthDayOf leap ((n : Nat) : Int)).2 - 1 = ((n : Nat) : Int) := by
  decide +kernel

theorem daysInMonthL_le (leap : Bool) (m : Int) : daysInMonthL leap m ≤ 31 := by
  unfold daysInMonthL DAYS_IN_MONTH; omega

/-- a valid month and day, found again from the day of the year -/
theorem monthDayOf_dbm (leap : Bool) (m d : Int) (hm : 1 ≤ m) (hm' : m ≤ 12) (hd : 1 ≤ d)
    (hd' : d ≤ daysInMonthL leap m) : monthDayOf leap (daysBeforeMonthL leap m + d - 1) = (m, d) := by
  obtain ⟨k, rfl⟩ : ∃ k : Nat, m = k := ⟨m.toNat, by omega⟩
  obtain ⟨j, rfl⟩ : ∃ j : Nat, d = j := ⟨d.toNat, by omega⟩
  have h31 := daysInMonthL_le leap (k : Nat)
  exact month_table_fwd leap k (by omega) j (by omega) ⟨by omega, by omega, hd'⟩

/-- every day of the year is a valid month and day -/
theorem dbm_monthDayOf (leap : Bool) (n : Int) (h0 : 0 ≤ n) (h1 : n < 365 ∨ (n = 365 ∧ leap = true)) :
    1 ≤ (monthDayOf leap n).1 ∧ (monthDayOf leap n).1 ≤ 12 ∧ 1 ≤ (monthDayOf leap n).2 ∧
    (monthDayOf leap n).2 ≤ daysInMonthL leap (monthDayOf leap n).1 ∧
    daysBeforeMonthL leap (monthDayOf leap n).1 + (monthDayOf leap n).2 - 1 = n := by
  obtain ⟨k, rfl⟩ : ∃ k : Nat, n = k := ⟨n.toNat, by omega⟩
  refine month_table_bwd leap k (by omega) ?_
  rcases h1 with h | ⟨_, h⟩
  · exact Or.inl (by omega)
  · exact Or.inr h

/-- the day of the year of a valid date lies in the year -/
theorem doy_bounds (leap : Bool) (m d : Int) (hm : 1 ≤ m) (hm' : m ≤ 12) (hd : 1 ≤ d) (hd' : d ≤ daysInMonthL leap m) :
    0 ≤ daysBeforeMonthL leap m + d - 1 ∧
    (daysBeforeMonthL leap m + d - 1 < 365 ∨
      (daysBeforeMonthL leap m + d - 1 = 365 ∧ leap = true ∧ m = 12 ∧ d = 31)) := by
  revert hd'
  unfold daysInMonthL daysBeforeMonthL DAYS_IN_MONTH DAYS_BEFORE_MONTH
  cases leap <;> simp <;> omega

end Lemmas.TotpTimeCal
