import PasslibVerif.Lemmas.C02CodeIterSha1
/-
C02, group `Iter`, part 5: `raw_sun_md5_crypt` — passlib's inlined coin toss (the `_XY_ROUNDS` index tables, 7-bit accumulators
`x`, `y`, no `& 0x7F` on `v`) against the variable-by-variable transcription of Solaris `sunmd5.c` (`shift_4`, `shift_7`,
`indirect_4`, `indirect_7`, 8-bit `indirect_a/b` shifted and masked afterwards), the phrase, the loop and the final packing.
-/
namespace Lemmas.C02CodeIter
open Py Model.Code.Iter Lemmas.PbkdfLen
open Spec.Formats (md5bit coinToss)

/-! ### the phrase -/
theorem hamlet_rows : Spec.Formats.hamletLines.map (fun s => s.toList.map Char.toNat) ++ [[0]] = MAGIC_HAMLET_ROWS := by
  decide +kernel

theorem flatMap_map_flatten (ls : List String) :
    (List.flatMap String.toList ls).map Char.toNat = (ls.map fun s => s.toList.map Char.toNat).flatten := by
  induction ls with
  | nil => rfl
  | cons s rest ih => simp only [List.flatMap_cons, List.map_append, List.map_cons, List.flatten_cons, ih]

/-- `MAGIC_HAMLET` of the source is the constant phrase of `sunmd5.c` (with its terminating NUL) -/
theorem magic_hamlet_eq : MAGIC_HAMLET = Spec.Formats.hamlet := by
  unfold MAGIC_HAMLET Spec.Formats.hamlet
  rw [← hamlet_rows, String.toList_join, flatMap_map_flatten, List.flatten_append]
  simp

/-! ### one bit of the digest -/
theorem bit_eq (d : Bytes) (v : Nat) : ((d.getD ((v >>> 3) &&& 15) 0 >>> (v &&& 7)) &&& 1) = md5bit d v := by
  unfold md5bit
  have e1 : (v >>> 3) &&& 15 = v % 128 / 8 := by rw [Bits.and15, Nat.shiftRight_eq_div_pow]; omega
  have e2 : v &&& 7 = v % 8 := Bits.and7 v
  rw [e1, e2, Bits.and1]

theorem md5bit_mod (d : Bytes) (v : Nat) : md5bit d (v % 128) = md5bit d v := by
  unfold md5bit
  have e1 : v % 128 % 128 / 8 = v % 128 / 8 := by omega
  have e2 : v % 128 % 8 = v % 8 := by omega
  rw [e1, e2]

theorem md5bit_lt (d : Bytes) (v : Nat) : md5bit d v < 2 := by
  unfold md5bit; exact Nat.mod_lt _ (by decide)

/-! ### the specification's per-index quantities -/
def byteAt (d : Bytes) (i : Nat) : Nat := d.getD (i % 16) 0

/-- `indirect_7[j]` of `sunmd5.c` -/
def ind7 (d : Bytes) (j : Nat) : Nat :=
  let shift4 := byteAt d (j + 3) % 5
  let shift7 := (byteAt d (j + 3) >>> (byteAt d j % 8)) % 2
  let indirect4 := (byteAt d j >>> shift4) % 16
  (byteAt d indirect4 >>> shift7) % 128

/-- `md5bit(digest, indirect_7[j])` -/
def mbit (d : Bytes) (j : Nat) : Nat := md5bit d (ind7 d j)

theorem coinToss_unfold (d : Bytes) (round : Nat) : coinToss d round =
    md5bit d ((((List.range 8).foldl (fun acc i => acc + mbit d i * 2 ^ i) 0) >>> md5bit d round) % 128) ^^^
    md5bit d ((((List.range 8).foldl (fun acc i => acc + mbit d (i + 8) * 2 ^ i) 0) >>> md5bit d (round + 64)) % 128) := rfl

/-! ### one step of the code's `for i, ia, ib in xrounds:` -/
theorem xyBody_eq (d : Bytes) (x i j ib : Nat) (hj : j < 16) (hib : ib = (j + 3) % 16) :
    xyBody (fun k => d.getD k 0) x (i, j, ib) = x ||| (mbit d j <<< i) := by
  unfold xyBody
  simp only []
  rw [bit_eq, ← md5bit_mod]
  unfold mbit ind7 byteAt
  simp only [hib, Bits.and15, Bits.and7, Bits.and1, Nat.mod_mod, Nat.mod_eq_of_lt hj]

theorem xyFold_eq (d : Bytes) (l : List (Nat × Nat × Nat)) (hl : ∀ t ∈ l, t.2.1 < 16 ∧ t.2.2 = (t.2.1 + 3) % 16) : ∀ x,
    l.foldl (xyBody (fun k => d.getD k 0)) x = l.foldl (fun x t => x ||| (mbit d t.2.1 <<< t.1)) x := by
  induction l with
  | nil => intro x; rfl
  | cons t rest ih =>
    intro x
    obtain ⟨i, j, ib⟩ := t
    have ht := hl (i, j, ib) (List.mem_cons_self ..)
    simp only [List.foldl_cons]
    rw [xyBody_eq d x i j ib ht.1 ht.2]
    exact ih (fun t ht => hl t (List.mem_cons_of_mem _ ht)) _

theorem tables :
    X_ROUNDS_0 = [(0, 0, 3), (1, 1, 4), (2, 2, 5), (3, 3, 6), (4, 4, 7), (5, 5, 8), (6, 6, 9)] ∧
    X_ROUNDS_1 = [(0, 1, 4), (1, 2, 5), (2, 3, 6), (3, 4, 7), (4, 5, 8), (5, 6, 9), (6, 7, 10)] ∧
    Y_ROUNDS_0 = [(0, 8, 11), (1, 9, 12), (2, 10, 13), (3, 11, 14), (4, 12, 15), (5, 13, 0), (6, 14, 1)] ∧
    Y_ROUNDS_1 = [(0, 9, 12), (1, 10, 13), (2, 11, 14), (3, 12, 15), (4, 13, 0), (5, 14, 1), (6, 15, 2)] := by decide

theorem tables_ok : (∀ t ∈ X_ROUNDS_0, t.2.1 < 16 ∧ t.2.2 = (t.2.1 + 3) % 16) ∧ (∀ t ∈ X_ROUNDS_1, t.2.1 < 16 ∧ t.2.2 = (t.2.1 + 3) % 16) ∧
    (∀ t ∈ Y_ROUNDS_0, t.2.1 < 16 ∧ t.2.2 = (t.2.1 + 3) % 16) ∧ (∀ t ∈ Y_ROUNDS_1, t.2.1 < 16 ∧ t.2.2 = (t.2.1 + 3) % 16) := by decide

/-! ### seven OR-ed bits against the shifted and masked 8-bit sum -/
theorem pack0 : ∀ a0 a1 a2 a3 a4 a5 a6 a7 : Fin 2,
    (((((((0 ||| a0.val <<< 0) ||| a1.val <<< 1) ||| a2.val <<< 2) ||| a3.val <<< 3) ||| a4.val <<< 4) ||| a5.val <<< 5) ||| a6.val <<< 6)
      = ((0 + a0.val * 2 ^ 0 + a1.val * 2 ^ 1 + a2.val * 2 ^ 2 + a3.val * 2 ^ 3 + a4.val * 2 ^ 4 + a5.val * 2 ^ 5 + a6.val * 2 ^ 6
          + a7.val * 2 ^ 7) >>> 0) % 128 := by decide

theorem pack1 : ∀ a0 a1 a2 a3 a4 a5 a6 a7 : Fin 2,
    (((((((0 ||| a1.val <<< 0) ||| a2.val <<< 1) ||| a3.val <<< 2) ||| a4.val <<< 3) ||| a5.val <<< 4) ||| a6.val <<< 5) ||| a7.val <<< 6)
      = ((0 + a0.val * 2 ^ 0 + a1.val * 2 ^ 1 + a2.val * 2 ^ 2 + a3.val * 2 ^ 3 + a4.val * 2 ^ 4 + a5.val * 2 ^ 5 + a6.val * 2 ^ 6
          + a7.val * 2 ^ 7) >>> 1) % 128 := by decide

/-- the accumulator of the code's loop (table chosen by the round's bit `s`) is the specification's `indirect_a` / `indirect_b` -/
theorem acc_eq (m : Nat → Nat) (hm : ∀ i, m i < 2) (s : Nat) (hs : s < 2) :
    (if s ≠ 0 then
        (((((((0 ||| m 1 <<< 0) ||| m 2 <<< 1) ||| m 3 <<< 2) ||| m 4 <<< 3) ||| m 5 <<< 4) ||| m 6 <<< 5) ||| m 7 <<< 6)
      else (((((((0 ||| m 0 <<< 0) ||| m 1 <<< 1) ||| m 2 <<< 2) ||| m 3 <<< 3) ||| m 4 <<< 4) ||| m 5 <<< 5) ||| m 6 <<< 6))
      = (((List.range 8).foldl (fun acc i => acc + m i * 2 ^ i) 0) >>> s) % 128 := by
  have hsum : (List.range 8).foldl (fun acc i => acc + m i * 2 ^ i) 0 =
      0 + m 0 * 2 ^ 0 + m 1 * 2 ^ 1 + m 2 * 2 ^ 2 + m 3 * 2 ^ 3 + m 4 * 2 ^ 4 + m 5 * 2 ^ 5 + m 6 * 2 ^ 6 + m 7 * 2 ^ 7 := by
    simp only [List.range, List.range.loop, List.foldl]
  rw [hsum]
  rcases (show s = 0 ∨ s = 1 by omega) with rfl | rfl
  · simp only [ne_eq, not_true, if_false]
    exact pack0 ⟨m 0, hm 0⟩ ⟨m 1, hm 1⟩ ⟨m 2, hm 2⟩ ⟨m 3, hm 3⟩ ⟨m 4, hm 4⟩ ⟨m 5, hm 5⟩ ⟨m 6, hm 6⟩ ⟨m 7, hm 7⟩
  · simp only [ne_eq, Nat.succ_ne_zero, not_false_eq_true, if_true]
    exact pack1 ⟨m 0, hm 0⟩ ⟨m 1, hm 1⟩ ⟨m 2, hm 2⟩ ⟨m 3, hm 3⟩ ⟨m 4, hm 4⟩ ⟨m 5, hm 5⟩ ⟨m 6, hm 6⟩ ⟨m 7, hm 7⟩

/-! ### the coin -/
theorem round_bit (d : Bytes) (round : Nat) :
    ((d.getD ((round >>> 3) &&& 15) 0 >>> (round &&& 7)) &&& 1) = md5bit d round := bit_eq d round

theorem round_bit64 (d : Bytes) (round : Nat) :
    ((d.getD (((round + 64) >>> 3) &&& 15) 0 >>> (round &&& 7)) &&& 1) = md5bit d (round + 64) := by
  rw [← bit_eq d (round + 64)]
  have : (round + 64) &&& 7 = round &&& 7 := by rw [Bits.and7, Bits.and7]; omega
  rw [this]

theorem final_bit (d : Bytes) (x y : Nat) (hx : x < 128) (hy : y < 128) :
    ((d.getD (x >>> 3) 0 >>> (x &&& 7)) ^^^ (d.getD (y >>> 3) 0 >>> (y &&& 7))) &&& 1 = md5bit d x ^^^ md5bit d y := by
  unfold md5bit
  have ex : x % 128 / 8 = x >>> 3 := by rw [Nat.shiftRight_eq_div_pow]; omega
  have ey : y % 128 / 8 = y >>> 3 := by rw [Nat.shiftRight_eq_div_pow]; omega
  rw [ex, ey, Bits.and1, Bits.and7, Bits.and7]
  exact Nat.xor_mod_two_pow (n := 1)

/-- passlib's inlined coin toss is the coin toss of `sunmd5.c`, for every digest value and every round number -/
theorem sunCoin_eq (d : Bytes) (round : Nat) : sunCoin d round = coinToss d round := by
  rw [coinToss_unfold]
  unfold sunCoin
  simp only []
  rw [round_bit, round_bit64]
  have hx : (if md5bit d round ≠ 0 then X_ROUNDS_1 else X_ROUNDS_0).foldl (xyBody fun i => d.getD i 0) 0 =
      (((List.range 8).foldl (fun acc i => acc + mbit d i * 2 ^ i) 0) >>> md5bit d round) % 128 := by
    rw [← acc_eq (mbit d) (fun i => md5bit_lt d _) _ (md5bit_lt d round)]
    split
    · rw [xyFold_eq d _ tables_ok.2.1, tables.2.1]; rfl
    · rw [xyFold_eq d _ tables_ok.1, tables.1]; rfl
  have hy : (if md5bit d (round + 64) ≠ 0 then Y_ROUNDS_1 else Y_ROUNDS_0).foldl (xyBody fun i => d.getD i 0) 0 =
      (((List.range 8).foldl (fun acc i => acc + mbit d (i + 8) * 2 ^ i) 0) >>> md5bit d (round + 64)) % 128 := by
    rw [← acc_eq (fun i => mbit d (i + 8)) (fun i => md5bit_lt d _) _ (md5bit_lt d (round + 64))]
    split
    · rw [xyFold_eq d _ tables_ok.2.2.2, tables.2.2.2]; rfl
    · rw [xyFold_eq d _ tables_ok.2.2.1, tables.2.2.1]; rfl
  rw [hx, hy]
  exact final_bit d _ _ (Nat.mod_lt _ (by decide)) (Nat.mod_lt _ (by decide))

theorem coinToss_lt (d : Bytes) (round : Nat) : coinToss d round < 2 := by
  rw [coinToss_unfold]
  exact Nat.xor_lt_two_pow (n := 1) (md5bit_lt d _) (md5bit_lt d _)

/-! ### the loop, the packing, the configuration string -/
theorem sunBody_eq (md5 : Bytes → Bytes) (d : Bytes) (round : Nat) :
    sunBody md5 d round = md5 (d ++ (if coinToss d round = 1 then Spec.Formats.hamlet else []) ++ Spec.Formats.decimal round) := by
  unfold sunBody
  simp only []
  rw [sunCoin_eq, magic_hamlet_eq, pyStr_eq_decimal]
  have := coinToss_lt d round
  by_cases h : coinToss d round = 1
  · simp [h]
  · have h0 : coinToss d round = 0 := by omega
    simp [h0]

end Lemmas.C02CodeIter

namespace Lemmas.C02CodeIter
open Py Model.Code.Iter Lemmas.PbkdfLen
open Spec.Formats (md5bit coinToss sunLoop sunRound)

theorem sunWhile_eq (real : Nat) : ∀ (fuel round : Nat) (result : Bytes), round + fuel = real →
    sunWhile Spec.MD5.md5 real fuel round result = sunLoop fuel round result
  | 0, _, _, _ => rfl
  | fuel + 1, round, result, h => by
    have hr : round < real := by omega
    simp only [sunWhile, hr, if_true, sunLoop]
    rw [sunBody_eq]
    exact sunWhile_eq real fuel (round + 1) _ (by omega)

/-- every value of the loop is an MD5 digest -/
theorem sunLoop_md5 (P : Bytes → Prop) (hP : ∀ x, P (Spec.MD5.md5 x)) : ∀ (n round : Nat) (d : Bytes), P d → P (sunLoop n round d)
  | 0, _, _, h => h
  | n + 1, round, d, _ => sunLoop_md5 P hP n (round + 1) _ (hP _)

theorem sun_offsets : Gen.B64.sun_md5_chk_offsets = Gen.B64.md5_transpose_map := by decide

theorem sunEncode_eq (d : Bytes) (hlen : d.length = 16) (hb : Bytes.WF d) :
    Model.B64.encodeTransposed Model.B64.h64 d Gen.B64.sun_md5_chk_offsets = .ok (Spec.Md5Crypt.encode (fun i => d.getD i 0)) := by
  rw [sun_offsets]
  exact Lemmas.ShaCryptEnc.encodeMd5_eq d hlen hb

/-- `to_string(_withchk=False)` is the configuration string of the specification -/
theorem sunConfig_eq (salt : List Nat) (rounds : Nat) (bare : Bool) :
    sunToStringNoChk salt rounds bare = Spec.Formats.sunConfig salt rounds bare := by
  unfold sunToStringNoChk Spec.Formats.sunConfig
  have e1 : [36, 109, 100, 53, 44, 114, 111, 117, 110, 100, 115, 61] = Spec.Formats.ascii "$md5,rounds=" := by decide
  have e2 : [36, 109, 100, 53, 36] = Spec.Formats.ascii "$md5$" := by decide
  have e3 : [36] = Spec.Formats.ascii "$" := by decide
  rw [e1, e2, e3, pyStr_eq_decimal]
  by_cases h : rounds = 0
  · subst h; cases bare <;> simp
  · have hp : rounds > 0 := by omega
    cases bare <;> simp [h, hp]

theorem sunConfig_ascii (salt : List Nat) (rounds : Nat) (bare : Bool) (hs : ∀ c ∈ salt, c < 128) :
    ∀ c ∈ sunToStringNoChk salt rounds bare, c < 128 := by
  have hss : ∀ c ∈ (if bare = true then ([] : List Nat) else [36]), c < 128 := by
    cases bare
    · intro c hc; simp at hc; omega
    · intro c hc; simp at hc
  have hp := pyStr_ascii rounds
  have happ : ∀ (a b : List Nat), (∀ c ∈ a, c < 128) → (∀ c ∈ b, c < 128) → ∀ c ∈ a ++ b, c < 128 := by
    intro a b ha hb c hc
    rcases List.mem_append.1 hc with h | h
    · exact ha c h
    · exact hb c h
  unfold sunToStringNoChk
  simp only []
  by_cases hr : rounds > 0
  · simp only [hr, if_true]
    exact happ _ _ (happ _ _ (happ _ _ (happ _ _ (by decide) hp) (by decide)) hs) hss
  · simp only [hr, if_false]
    exact happ _ _ (happ _ _ (by decide) hs) hss

end Lemmas.C02CodeIter
