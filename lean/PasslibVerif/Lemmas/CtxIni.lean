import PasslibVerif.Model.CtxIni
import PasslibVerif.Lemmas.Handler
/-
Helper lemmas for Props/C10Ini: `int(str(n)) = n` for every integer, `str.strip` on edge-clean text, the comma list round trip,
percent escaping against the assumed configparser interpolation, option names.
-/
namespace Lemmas.CtxIni
open Py Model.CtxKey Model.CtxIni
open Model.UsingSalt (strip isWs)

/-! ### character facts (tables reflected from the interpreter, checked by the kernel) -/
theorem ws_tab : ((List.range 127).all fun c => decide (c < 33) || !isWs c) = true := by decide +kernel
theorem sp_tab : ((List.range 127).all fun c => decide (c < 33) || !isSpaceCp c) = true := by decide +kernel

theorem isWs_graph (c : Nat) (h1 : 33 ≤ c) (h2 : c ≤ 126) : isWs c = false := by
  have := List.all_eq_true.1 ws_tab c (List.mem_range.2 (by omega))
  have h : ¬ c < 33 := by omega
  simpa [h] using this

theorem isSpaceCp_graph (c : Nat) (h1 : 33 ≤ c) (h2 : c ≤ 126) : isSpaceCp c = false := by
  have := List.all_eq_true.1 sp_tab c (List.mem_range.2 (by omega))
  have h : ¬ c < 33 := by omega
  simpa [h] using this

theorem isWs_sp : isWs SP = true := by decide +kernel

/-! ### `strip` -/
def edgeClean (t : Str) : Bool :=
  (match t.head? with | some c => !isWs c | none => true) && (match t.getLast? with | some c => !isWs c | none => true)

theorem strip_nil : strip [] = [] := rfl

theorem dropWhile_rev_id (p : Nat → Bool) (t : Str) (h : ∀ c, t.getLast? = some c → p c = false) :
    (t.reverse.dropWhile p).reverse = t := by
  cases hr : t.reverse with
  | nil => have : t = [] := by simpa using hr
           subst this; rfl
  | cons x xs =>
    have hl : t.getLast? = some x := by
      rw [List.getLast?_eq_head?_reverse, hr]; rfl
    simp only [List.dropWhile_cons, h x hl, Bool.false_eq_true, if_false]
    rw [← hr, List.reverse_reverse]

theorem strip_of_edgeClean (t : Str) (h : edgeClean t = true) : strip t = t := by
  unfold edgeClean at h
  rw [Bool.and_eq_true] at h
  cases t with
  | nil => rfl
  | cons c r =>
    have hc : isWs c = false := by simpa using h.1
    unfold strip
    simp only [List.dropWhile_cons, hc, Bool.false_eq_true, if_false]
    apply dropWhile_rev_id
    intro x hx
    have := h.2
    rw [hx] at this
    simpa using this

theorem strip_sp_cons (t : Str) : strip (SP :: t) = strip t := by
  unfold strip
  simp only [List.dropWhile_cons, isWs_sp, if_true]


/-! ### `int(str(n)) == n` for every integer -/
theorem stripSpaces_id (t : Str) (hh : ∀ c, t.head? = some c → isSpaceCp c = false) (hl : ∀ c, t.getLast? = some c → isSpaceCp c = false) :
    stripSpaces t = t := by
  cases t with
  | nil => rfl
  | cons c r =>
    unfold stripSpaces
    simp only [List.dropWhile_cons, hh c rfl, Bool.false_eq_true, if_false]
    exact dropWhile_rev_id _ _ hl

theorem fmtDec_nat_chars (m : Nat) : ∀ c ∈ fmtDec (m : Int), 48 ≤ c ∧ c ≤ 57 := Lemmas.Handler.fmtDec_digits m

theorem fmtDec_nat_ne_nil (m : Nat) : fmtDec (m : Int) ≠ [] := by
  intro e
  have := (Lemmas.Handler.fmtDec_not_padded m).2
  rw [e] at this; simp at this

theorem mem_of_head? {t : Str} {c : Nat} (h : t.head? = some c) : c ∈ t := by
  cases t with
  | nil => simp at h
  | cons x xs => simp at h; simp [h]

theorem mem_of_getLast? {t : Str} {c : Nat} (h : t.getLast? = some c) : c ∈ t := List.mem_of_getLast? h

/-- the digits of a non-negative number read back as that number -/
theorem parseDigits_fmtDec (m : Nat) : parseDigits (fmtDec (m : Int)) none false = some m := by
  have h := Lemmas.Handler.int_of_fmtDec m
  have hc := fmtDec_nat_chars m
  have hs : stripSpaces (fmtDec (m : Int)) = fmtDec (m : Int) :=
    stripSpaces_id _ (fun c h => isSpaceCp_graph c (by have := hc c (mem_of_head? h); omega) (by have := hc c (mem_of_head? h); omega))
      (fun c h => isSpaceCp_graph c (by have := hc c (mem_of_getLast? h); omega) (by have := hc c (mem_of_getLast? h); omega))
  unfold pyIntOfStr at h
  rw [hs] at h
  cases hd : fmtDec (m : Int) with
  | nil => exact absurd hd (fmtDec_nat_ne_nil m)
  | cons d rest =>
    rw [hd] at h
    have hdc := hc d (by rw [hd]; simp)
    split at h
    · rename_i heq; simp at heq
    · rename_i heq; simp only [List.cons.injEq] at heq; omega
    · rename_i heq; simp only [List.cons.injEq] at heq; omega
    · cases hp : parseDigits (d :: rest) none false with
      | none => rw [hp] at h; simp at h
      | some v => rw [hp] at h; simp at h; have : v = m := by omega
                  rw [this]

theorem fmtDec_neg (n : Int) (h : n < 0) : fmtDec n = 45 :: fmtDec (((-n).toNat : Nat) : Int) := by
  have h1 : ¬ n ≥ 0 := by omega
  have h2 : (((-n).toNat : Nat) : Int) ≥ 0 := Int.natCast_nonneg _
  unfold fmtDec
  simp only [h1, h2, if_false, if_true, Int.toNat_natCast]

/-- `int(str(n)) == n` for every integer (CPython's 4300-digit limit aside) -/
theorem pyInt_fmtDec_int (n : Int) : pyIntOfStr (fmtDec n) = some n := by
  by_cases hn : 0 ≤ n
  · have := Lemmas.Handler.int_of_fmtDec n.toNat
    rwa [Int.toNat_of_nonneg hn] at this
  · have hneg : n < 0 := by omega
    rw [fmtDec_neg n hneg]
    generalize hm : (-n).toNat = m
    have hmn : n = -(m : Int) := by omega
    have hc := fmtDec_nat_chars m
    have hne := fmtDec_nat_ne_nil m
    have hs : stripSpaces (45 :: fmtDec (m : Int)) = 45 :: fmtDec (m : Int) := by
      apply stripSpaces_id
      · intro c h; simp at h; subst h; exact isSpaceCp_graph 45 (by omega) (by omega)
      · intro c h
        rw [List.getLast?_cons_of_ne_nil hne] at h
        have := hc c (mem_of_getLast? h)
        exact isSpaceCp_graph c (by omega) (by omega)
    unfold pyIntOfStr
    rw [hs]
    simp [parseDigits_fmtDec m, hmn]

/-- the characters of a rendered integer: digits and '-' -/
theorem fmtDec_chars (n : Int) : ∀ c ∈ fmtDec n, 45 ≤ c ∧ c ≤ 57 := by
  intro c hc
  by_cases hn : 0 ≤ n
  · have := fmtDec_nat_chars n.toNat c (by rwa [Int.toNat_of_nonneg hn])
    omega
  · rw [fmtDec_neg n (by omega)] at hc
    rcases List.mem_cons.1 hc with e | hm
    · omega
    · have := fmtDec_nat_chars _ c hm; omega

theorem fmtDec_ne_nil (n : Int) : fmtDec n ≠ [] := by
  by_cases hn : 0 ≤ n
  · have := fmtDec_nat_ne_nil n.toNat
    rwa [Int.toNat_of_nonneg hn] at this
  · rw [fmtDec_neg n (by omega)]; simp


/-! ### percent escaping against the assumed interpolation -/
theorem pctEscape_cons (c : Nat) (t : Str) : pctEscape (c :: t) = (if c = PCT then [PCT, PCT] else [c]) ++ pctEscape t := by
  simp [pctEscape]

theorem pctEscape_nil : pctEscape [] = [] := rfl

theorem interp_escape : ∀ t : Str, Cfgp.interp (pctEscape t) = .ok t
  | [] => rfl
  | c :: r => by
    rw [pctEscape_cons]
    by_cases hc : c = PCT
    · subst hc
      simp only [if_true, List.cons_append, List.nil_append, Cfgp.interp, interp_escape r]
      rfl
    · simp only [hc, if_false, List.cons_append, List.nil_append]
      unfold Cfgp.interp
      simp only [hc, if_false, interp_escape r]
      rfl

theorem removePairs_cons_ne (c : Nat) (hc : c ≠ PCT) (x : Str) : Cfgp.removePairs (c :: x) = c :: Cfgp.removePairs x := by
  cases x with
  | nil => simp [Cfgp.removePairs]
  | cons d xs => simp [Cfgp.removePairs, hc]

theorem removePairs_escape : ∀ t : Str, PCT ∉ Cfgp.removePairs (pctEscape t)
  | [] => by simp [pctEscape, Cfgp.removePairs]
  | c :: r => by
    rw [pctEscape_cons]
    by_cases hc : c = PCT
    · subst hc
      simp only [if_true, List.cons_append, List.nil_append, Cfgp.removePairs, and_self]
      exact removePairs_escape r
    · simp only [hc, if_false, List.cons_append, List.nil_append]
      rw [removePairs_cons_ne c hc]
      intro hm
      rcases List.mem_cons.1 hm with e | hm
      · exact hc e.symm
      · exact removePairs_escape r hm

theorem beforeSet_escape (t : Str) : Cfgp.beforeSet (pctEscape t) = .ok () := by
  unfold Cfgp.beforeSet
  simp [removePairs_escape t]

theorem mem_pctEscape (x : Nat) (t : Str) : x ∈ pctEscape t ↔ x ∈ t := by
  induction t with
  | nil => simp [pctEscape]
  | cons c r ih =>
    rw [pctEscape_cons]
    by_cases hc : c = PCT
    · subst hc; simp [ih]
    · simp [hc, ih]

theorem pctEscape_id (t : Str) (h : PCT ∉ t) : pctEscape t = t := by
  induction t with
  | nil => rfl
  | cons c r ih =>
    have hc : c ≠ PCT := fun e => h (by simp [e])
    rw [pctEscape_cons, ih (fun hm => h (by simp [hm]))]
    simp [hc]

theorem isWs_pct : isWs PCT = false := by decide +kernel

theorem escape_dropWhile : ∀ t : Str, pctEscape (t.dropWhile isWs) = (pctEscape t).dropWhile isWs
  | [] => rfl
  | c :: r => by
    by_cases hw : isWs c = true
    · have hc : c ≠ PCT := by intro e; rw [e, isWs_pct] at hw; cases hw
      rw [pctEscape_cons]
      simp only [List.dropWhile_cons, hw, if_true, hc, if_false, List.cons_append, List.nil_append]
      exact escape_dropWhile r
    · have hw' : isWs c = false := by simpa using hw
      simp only [List.dropWhile_cons, hw', Bool.false_eq_true, if_false]
      rw [pctEscape_cons]
      by_cases hc : c = PCT
      · subst hc; simp [List.dropWhile_cons, hw']
      · simp [hc, List.dropWhile_cons, hw']

theorem escape_reverse (t : Str) : pctEscape t.reverse = (pctEscape t).reverse := by
  induction t with
  | nil => rfl
  | cons c r ih =>
    rw [pctEscape_cons, List.reverse_cons, List.reverse_append, ← ih]
    have : pctEscape (r.reverse ++ [c]) = pctEscape r.reverse ++ pctEscape [c] := by simp [pctEscape]
    rw [this]
    congr 1
    by_cases hc : c = PCT
    · subst hc; simp [pctEscape]
    · simp [hc, pctEscape]

/-- surrounding blanks are outside the escaping: `escape(t).strip() == escape(t.strip())` -/
theorem strip_escape (t : Str) : strip (pctEscape t) = pctEscape (strip t) := by
  unfold strip
  rw [escape_reverse, escape_dropWhile, escape_reverse, escape_dropWhile]

/-- a '%' in a value survives `_render_ini_value` → `set` → write/read → interpolation: what comes back is the stripped value -/
theorem channel_value (k t : Str) (hk : Cfgp.readKey k = .ok k) (hnl : NL ∉ t) :
    Cfgp.channel (k, pctEscape t) = .ok (k, strip t) := by
  unfold Cfgp.channel
  have hnl' : NL ∉ pctEscape t := fun h => hnl ((mem_pctEscape NL t).1 h)
  simp only [hk, beforeSet_escape, Cfgp.readValue, hnl', if_false, strip_escape]
  simp [interp_escape, bind, Except.bind, pure, Except.pure]

/-! ### option names -/
def lowKeyChar (c : Nat) : Bool := (48 ≤ c && c ≤ 57) || (97 ≤ c && c ≤ 122) || c = 95

theorem lowerAux_id : ∀ (t rev : Str), (∀ c ∈ t, lowKeyChar c = true) → Py.lowerAux rev t = t
  | [], _, _ => rfl
  | c :: r, rev, h => by
    have hc : lowKeyChar c = true := h c (by simp)
    have hlt : c < 128 := by unfold lowKeyChar at hc; simp at hc; omega
    have hs : c ≠ Py.SIGMA := by unfold Py.SIGMA; omega
    have hl : Py.asciiLower c = c := by unfold Py.asciiLower; unfold lowKeyChar at hc; simp at hc; split <;> omega
    simp only [Py.lowerAux, hs, if_false, Py.lowerCp, hlt, if_true, hl, List.cons_append, List.nil_append]
    rw [lowerAux_id r _ (fun x hx => h x (by simp [hx]))]

theorem readKey_low (k : Str) (hne : k ≠ []) (h : k.all lowKeyChar = true) : Cfgp.readKey k = .ok k := by
  unfold Cfgp.readKey
  have hall : k.all Cfgp.keyChar = true := by
    rw [List.all_eq_true] at h ⊢
    intro c hc
    have := h c hc
    unfold lowKeyChar at this; unfold Cfgp.keyChar
    simp at this ⊢; omega
  have he : k.isEmpty = false := by cases k with | nil => exact absurd rfl hne | cons _ _ => rfl
  simp only [he, hall, Bool.not_true, Bool.or_self, Bool.false_eq_true, if_false]
  unfold Py.pyLower
  rw [lowerAux_id k [] (fun c hc => List.all_eq_true.1 h c hc)]


/-! ### the comma list: `splitcomma(", ".join(l)) == l` -/
theorem strip_id (t : Str) (hh : ∀ c, t.head? = some c → isWs c = false) (hl : ∀ c, t.getLast? = some c → isWs c = false) :
    strip t = t := by
  cases t with
  | nil => rfl
  | cons c r =>
    unfold strip
    simp only [List.dropWhile_cons, hh c rfl, Bool.false_eq_true, if_false]
    exact dropWhile_rev_id _ _ hl

theorem getLast?_append_ne_nil (a b : Str) (h : b ≠ []) : (a ++ b).getLast? = b.getLast? := by
  rw [List.getLast?_append]
  cases b with
  | nil => exact absurd rfl h
  | cons x xs => simp [List.getLast?_cons]

/-- a scheme name that survives the comma list: not empty, no comma, no blank at either end -/
def nameOK (n : Str) : Bool := !n.isEmpty && !n.contains COMMA && edgeClean n

theorem nameOK_facts (n : Str) (h : nameOK n = true) :
    n ≠ [] ∧ COMMA ∉ n ∧ (∀ c, n.head? = some c → isWs c = false) ∧ (∀ c, n.getLast? = some c → isWs c = false) := by
  unfold nameOK edgeClean at h
  simp only [Bool.and_eq_true, Bool.not_eq_true', List.contains_eq_mem, decide_eq_false_iff_not] at h
  obtain ⟨⟨h1, h2⟩, h3, h4⟩ := h
  refine ⟨?_, h2, ?_, ?_⟩
  · intro e; subst e; simp at h1
  · intro c hc; rw [hc] at h3; simpa using h3
  · intro c hc; rw [hc] at h4; simpa using h4

def spacePrefixed : List Str → List Str
  | [] => []
  | a :: rest => a :: rest.map (SP :: ·)

theorem joinChar_cons_cons (sep x : Nat) (b : Str) (tl : List Str) :
    Model.Handler.joinChar sep ((x :: b) :: tl) = x :: Model.Handler.joinChar sep (b :: tl) := by
  cases tl <;> simp [Model.Handler.joinChar]

theorem joinCS_eq : ∀ l : List Str, joinCS l = Model.Handler.joinChar COMMA (spacePrefixed l)
  | [] => rfl
  | [a] => rfl
  | a :: b :: rest => by
    have ih := joinCS_eq (b :: rest)
    simp only [spacePrefixed] at ih
    simp only [joinCS, spacePrefixed, List.map_cons, Model.Handler.joinChar, ih, joinChar_cons_cons]

/-- the joined text is not empty, has no blank at either end and does not end with a comma -/
theorem joinCS_edges : ∀ l : List Str, l ≠ [] → (∀ n ∈ l, nameOK n = true) →
    joinCS l ≠ [] ∧ (∀ c, (joinCS l).head? = some c → isWs c = false) ∧ (∀ c, (joinCS l).getLast? = some c → isWs c = false ∧ c ≠ COMMA)
  | [], h, _ => absurd rfl h
  | [a], _, h => by
    obtain ⟨h1, h2, h3, h4⟩ := nameOK_facts a (h a (by simp))
    refine ⟨h1, h3, fun c hc => ⟨h4 c hc, ?_⟩⟩
    intro e; subst e; exact h2 (mem_of_getLast? hc)
  | a :: b :: rest, _, h => by
    obtain ⟨h1, h2, h3, h4⟩ := nameOK_facts a (h a (by simp))
    obtain ⟨i1, i2, i3⟩ := joinCS_edges (b :: rest) (by simp) (fun n hn => h n (by simp [hn]))
    simp only [joinCS]
    refine ⟨by simp, ?_, ?_⟩
    · intro c hc
      cases a with
      | nil => exact absurd rfl h1
      | cons x xs => simp at hc; subst hc; exact h3 _ rfl
    · intro c hc
      have e : a ++ COMMA :: SP :: joinCS (b :: rest) = (a ++ [COMMA, SP]) ++ joinCS (b :: rest) := by simp
      rw [e, getLast?_append_ne_nil _ _ i1] at hc
      exact i3 c hc

theorem splitcomma_nil : splitcomma [] = [] := by decide

theorem splitcomma_joinCS (l : List Str) (h : ∀ n ∈ l, nameOK n = true) : splitcomma (joinCS l) = l := by
  cases l with
  | nil => exact splitcomma_nil
  | cons a rest =>
    obtain ⟨h1, h2, h3⟩ := joinCS_edges (a :: rest) (by simp) h
    have hs : strip (joinCS (a :: rest)) = joinCS (a :: rest) := strip_id _ h2 (fun c hc => (h3 c hc).1)
    have hlast : (joinCS (a :: rest)).getLast? ≠ some COMMA := fun e => (h3 COMMA e).2 rfl
    have hne : (joinCS (a :: rest)).isEmpty = false := by
      cases hj : joinCS (a :: rest) with
      | nil => exact absurd hj h1
      | cons _ _ => rfl
    unfold splitcomma
    simp only [hs, hlast, if_false, hne, Bool.false_eq_true]
    rw [joinCS_eq, Lemmas.Handler.split_join COMMA (spacePrefixed (a :: rest)) (by simp [spacePrefixed])]
    · simp only [spacePrefixed, List.map_cons, List.map_map]
      obtain ⟨_, _, a3, a4⟩ := nameOK_facts a (h a (by simp))
      rw [strip_id a a3 a4]
      congr 1
      have : ∀ (r : List Str), (∀ n ∈ r, nameOK n = true) → List.map (strip ∘ fun x => SP :: x) r = r := by
        intro r hr
        induction r with
        | nil => rfl
        | cons b bs ih =>
          obtain ⟨_, _, b3, b4⟩ := nameOK_facts b (hr b (by simp))
          simp only [List.map_cons, Function.comp, strip_sp_cons, strip_id b b3 b4]
          congr 1
          exact ih (fun n hn => hr n (by simp [hn]))
      exact this rest (fun n hn => h n (by simp [hn]))
    · intro f hf
      simp only [spacePrefixed, List.mem_cons, List.mem_map] at hf
      rcases hf with e | ⟨b, hb, e⟩
      · subst e; exact (nameOK_facts _ (h _ (by simp))).2.1
      · subst e
        have := (nameOK_facts b (h b (by simp [hb]))).2.1
        intro hm
        rcases List.mem_cons.1 hm with e | hm
        · exact absurd e (by decide)
        · exact this hm

end Lemmas.CtxIni
