import PasslibVerif.Lemmas.ApacheFile
/-
Shape of one step of the file-side model: mutators (records change + `_autosave`), the rest.
-/
namespace Lemmas.ApacheFile
open Py Model.ApacheFile Lemmas.Apache
open Model.Apache hiding Op step run

abbrev Vau := Bytes → Bytes → Bool × Option Bytes

/-- the four mutators of the classes (they end with `self._autosave()`) -/
def isMutator : Op → Bool
  | .setHash .. | .delete .. | .deleteRealm .. | .check .. => true
  | _ => false

/-- the (re)loads: `load_string`, `load`, `load_if_changed`, a fresh object -/
def isLoad : Op → Bool
  | .loadString .. | .load .. | .loadIfChanged | .reopen .. => true
  | _ => false

/-- the mutator, on this state, gets as far as `self._autosave()` (it did not raise / return early) -/
def reachesAutosave (vau : Vau) (s : Sys) : Op → Bool
  | .setHash u r h => match setHash s.o.st u r h with | .ok _ => true | .error _ => false
  | .delete u r => match delete s.o.st u r with | .ok (_, true) => true | _ => false
  | .deleteRealm r => match deleteRealm s.o.st r with | .ok _ => true | .error _ => false
  | .check u p => match checkPasswordU vau s.o.st u p with | .ok (_, _, true) => true | _ => false
  | _ => false

/-- the records-level operation (Model.Apache) a mutator performs -/
def recordsOp : Op → Option Model.Apache.Op
  | .setHash u r h => some (.setHash u r h)
  | .delete u r => some (.delete u r)
  | .deleteRealm r => some (.deleteRealm r)
  | .check u p => some (.check u p)
  | _ => none

/-- a mutator either leaves EVERYTHING alone (error / early return), or replaces the records by the result of the
    records-level operation and then runs `_autosave` -/
theorem mutator_shape (digest : Bool) (vau : Vau) (s : Sys) (op : Op) (ao : Model.Apache.Op) (hao : recordsOp op = some ao) :
    (reachesAutosave vau s op = false ∧ (step digest vau s op).1 = s ∧ Model.Apache.step digest vau s.o.st ao = s.o.st) ∨
    (reachesAutosave vau s op = true ∧
      (step digest vau s op).1 =
        ⟨(autosaveStep s.w { s.o with st := Model.Apache.step digest vau s.o.st ao }).1,
         (autosaveStep s.w { s.o with st := Model.Apache.step digest vau s.o.st ao }).2⟩) := by
  cases op <;> simp [recordsOp] at hao <;> subst hao
  case setHash u r h =>
    cases hs : setHash s.o.st u r h with
    | error e => left; simp [reachesAutosave, step, Model.Apache.step, hs]
    | ok x => rcases x with ⟨st', ex⟩; right; simp [reachesAutosave, step, Model.Apache.step, hs]
  case delete u r =>
    cases hs : delete s.o.st u r with
    | error e => left; simp [reachesAutosave, step, Model.Apache.step, hs]
    | ok x =>
      rcases x with ⟨st', ex⟩
      cases ex with
      | true => right; simp [reachesAutosave, step, Model.Apache.step, hs]
      | false =>
        left; simp [reachesAutosave, step, Model.Apache.step, hs]
        unfold delete at hs
        cases hk : encodeKey u r with
        | error e => simp [hk] at hs
        | ok k => simp only [hk] at hs; split at hs <;> simp at hs; exact hs.symm
  case deleteRealm r =>
    cases hs : deleteRealm s.o.st r with
    | error e => left; simp [reachesAutosave, step, Model.Apache.step, hs]
    | ok x => rcases x with ⟨st', n⟩; right; simp [reachesAutosave, step, Model.Apache.step, hs]
  case check u p =>
    have hstep := checkPasswordU_step digest vau s.o.st u p
    cases hs : checkPasswordU vau s.o.st u p with
    | error e => left; rw [hs] at hstep; simp [reachesAutosave, step, hs, ← hstep]
    | ok x =>
      rcases x with ⟨st', r, fl⟩
      rw [hs] at hstep; simp only at hstep
      cases fl with
      | true => right; simp [reachesAutosave, step, hs, ← hstep]
      | false =>
        left; simp [reachesAutosave, step, hs, ← hstep]
        exact checkPasswordU_noflag vau s.o.st st' u p r hs

theorem recordsOp_of_mutator (op : Op) (h : isMutator op = true) : ∃ ao, recordsOp op = some ao := by
  cases op <;> simp [isMutator] at h <;> simp [recordsOp]

theorem reachesAutosave_mutator (vau : Vau) (s : Sys) (op : Op) (h : reachesAutosave vau s op = true) : isMutator op = true := by
  cases op <;> simp [reachesAutosave] at h <;> rfl

end Lemmas.ApacheFile
