import PasslibVerif.Lemmas.FormatsPbkdfHex
import PasslibVerif.Lemmas.FormatsPbkdfCodec
import PasslibVerif.Lemmas.FormatsMd5Sha2
/- parse ∘ render = id for the PBKDF family (sha1_crypt, pbkdf2_*, ldap_pbkdf2_*, cta / dlitz / atlassian / grub pbkdf2,
   the Django salted and pbkdf2 hashes). -/
namespace Lemmas.FormatsPbkdf
open Py Model.Handler Model.Formats Lemmas.Handler Lemmas.Formats

/-! ### normalisers accept what is within the limits -/
theorem normRounds_ok (n : Nat) (h1 : 1 ≤ n) (h2 : n ≤ 4294967295) :
    normRounds 1 (some MAX_ROUNDS) false (n : Int) = some (n : Int) := by
  unfold normRounds MAX_ROUNDS
  have a : ¬ ((n : Int) < 1) := by omega
  have b : ¬ ((n : Int) > 4294967295) := by omega
  simp [a, b]

theorem normSalt_okG (chars : Option (List Nat)) (mn : Nat) (mx : Option Nat) (relaxed : Bool) (s : Str)
    (hc : ∀ cs, chars = some cs → allIn cs s = true) (h1 : mn ≤ s.length) (h2 : ∀ m, mx = some m → s.length ≤ m) :
    normSalt chars mn mx relaxed s = some s := by
  unfold normSalt
  have a : ¬ (s.length < mn) := by omega
  cases chars with
  | none =>
    cases mx with
    | none => simp [a]
    | some m =>
      have b : ¬ (s.length > m) := by have := h2 m rfl; omega
      simp [a, b]
  | some cs =>
    have hcc := hc cs rfl
    cases mx with
    | none => simp [a, hcc]
    | some m =>
      have b : ¬ (s.length > m) := by have := h2 m rfl; omega
      simp [a, b, hcc]

/-- checksum size / alphabet conditions of `_norm_checksum` -/
def SizeOK : Option Nat → Str → Prop
  | none, _ => True
  | some n, c => c.length = n

def CharsOK : Option (List Nat) → Str → Prop
  | none, _ => True
  | some a, c => allIn a c = true

theorem normChecksum_okG (size : Option Nat) (chars : Option (List Nat)) (c : Str) (hs : SizeOK size c) (hc : CharsOK chars c) :
    normChecksum size chars c = some c := by
  unfold normChecksum charsOk
  cases size with
  | none =>
    cases chars with
    | none => simp
    | some a => simp only [CharsOK] at hc; simp [hc]
  | some n =>
    simp only [SizeOK] at hs
    cases chars with
    | none => simp [hs]
    | some a => simp only [CharsOK] at hc; simp [hs, hc]

/-! ### `parse_mc3` on what `render_mc3` emits -/
theorem parseMc3G_full (sep : Nat) (hex : Bool) (ident rs salt c : Str) (dflt : Option Int) (r : Int)
    (hrs : sep ∉ rs) (hs : sep ∉ salt) (hc : sep ∉ c) (hcne : c ≠ []) (hr : parseIntFieldG hex rs dflt = some r) :
    parseMc3G sep hex ident (ident ++ (rs ++ sep :: (salt ++ sep :: c))) dflt = some (r, salt, some c) := by
  unfold parseMc3G
  rw [stripPrefix_append]
  simp only [Option.bind_some]
  rw [splitChar_append_sep sep rs _ hrs, splitChar_append_sep sep salt c hs, splitChar_no_sep sep c hc]
  have : c.isEmpty = false := by cases c <;> simp_all
  simp only [hr, Option.map_some, orNone, this, Bool.false_eq_true, if_false]

theorem parseMc3G_config (sep : Nat) (hex : Bool) (ident rs salt : Str) (dflt : Option Int) (r : Int)
    (hrs : sep ∉ rs) (hs : sep ∉ salt) (hr : parseIntFieldG hex rs dflt = some r) :
    parseMc3G sep hex ident (ident ++ (rs ++ sep :: salt)) dflt = some (r, salt, none) := by
  unfold parseMc3G
  rw [stripPrefix_append]
  simp only [Option.bind_some]
  rw [splitChar_append_sep sep rs _ hrs, splitChar_no_sep sep salt hs]
  simp only [hr, Option.map_some]

/-! ### text handlers on parse_mc3 (sha1_crypt, django_pbkdf2_*, dlitz_pbkdf2_sha1) -/
structure Mc3TextWF (ident : Str) (cs : Option Nat) (cc : Option (List Nat)) (sc : List Nat) (mn : Nat) (mx : Option Nat)
    (p : Parsed) : Prop where
  ident : p.ident = ident
  rounds : ∃ n : Nat, p.rounds = some (n : Int) ∧ 1 ≤ n ∧ n ≤ 4294967295
  salt : ∃ s, p.salt = some s ∧ allIn sc s = true ∧ mn ≤ s.length ∧ (∀ m, mx = some m → s.length ≤ m)
  chk : p.checksum = none ∨ ∃ c, p.checksum = some c ∧ c ≠ [] ∧ DOLLAR ∉ c ∧ SizeOK cs c ∧ CharsOK cc c
  extra : p.extra = []

/-- `render_mc3` output for a non-empty checksum / for a config string -/
def mc3Body (sep : Nat) (ident rs s : Str) : Option Str → Str
  | some c => ident ++ (rs ++ sep :: (s ++ sep :: c))
  | none => ident ++ (rs ++ sep :: s)

/-- the body of every text round trip: any spelling `rs` of the rounds that parses back and has no `$` -/
theorem mc3Text_core (hex : Bool) (ident : Str) (dflt : Option Int) (cs : Option Nat) (cc : Option (List Nat)) (sc : List Nat)
    (mn : Nat) (mx : Option Nat) (hsc : DOLLAR ∉ sc) (n : Nat) (rs s : Str) (chk : Option Str)
    (hrs : DOLLAR ∉ rs) (hr : parseIntFieldG hex rs dflt = some (n : Int)) (h1 : 1 ≤ n) (h2 : n ≤ 4294967295)
    (hs : allIn sc s = true) (hmn : mn ≤ s.length) (hmx : ∀ m, mx = some m → s.length ≤ m)
    (hc : chk = none ∨ ∃ c, chk = some c ∧ c ≠ [] ∧ DOLLAR ∉ c ∧ SizeOK cs c ∧ CharsOK cc c) :
    mc3TextParse hex ident dflt cs cc sc mn mx (mc3Body DOLLAR ident rs s chk) =
      some { ident := ident, rounds := some (n : Int), salt := some s, checksum := chk } := by
  have hsd : DOLLAR ∉ s := not_mem_of_all sc s DOLLAR hsc hs
  have hsalt := normSalt_okG (some sc) mn mx false s (fun cs' e => by cases e; exact hs) hmn hmx
  have hrounds := normRounds_ok n h1 h2
  rcases hc with hc | ⟨c, hc, hcne, hcd, hsz, hch⟩
  · subst hc
    simp only [mc3Body, mc3TextParse, parseMc3G_config DOLLAR hex ident rs s dflt n hrs hsd hr, Option.bind_some, normChkOpt, hsalt,
      hrounds, Option.map_some]
  · subst hc
    have hchk := normChecksum_okG cs cc c hsz hch
    simp only [mc3Body, mc3TextParse, parseMc3G_full DOLLAR hex ident rs s c dflt n hrs hsd hcd hcne hr, Option.bind_some, normChkOpt,
      hchk, Option.map_some, hsalt, hrounds]

theorem renderMc3G_eq (sep : Nat) (hex : Bool) (ident : Str) (rounds : Option Int) (s : Str) (chk : Option Str)
    (hc : ∀ c, chk = some c → c ≠ []) :
    renderMc3G sep hex ident rounds s chk = mc3Body sep ident (roundsStr hex rounds) s chk := by
  unfold renderMc3G
  cases chk with
  | none => rfl
  | some c =>
    have : c.isEmpty = false := by
      have := hc c rfl
      cases c <;> simp_all
    simp only [this, Bool.false_eq_true, if_false, mc3Body]

/-- R1 for the text handlers whose `to_string` is plain `render_mc3` -/
theorem mc3Text_parse_render (hex : Bool) (ident : Str) (dflt : Option Int) (cs : Option Nat) (cc : Option (List Nat))
    (sc : List Nat) (mn : Nat) (mx : Option Nat) (hsc : DOLLAR ∉ sc) (p : Parsed) (h : Mc3TextWF ident cs cc sc mn mx p) :
    mc3TextParse hex ident dflt cs cc sc mn mx (mc3TextRender hex p) = some p := by
  obtain ⟨hi, ⟨n, hr, h1, h2⟩, ⟨s, hs, hsa, hmn, hmx⟩, hc, he⟩ := h
  obtain ⟨pi, pr, ps, pc, pe⟩ := p
  simp only at hi hr hs hc he
  subst hi hr hs he
  have hcne : ∀ c, pc = some c → c ≠ [] := by
    intro c e
    rcases hc with hc | ⟨c', hc, hne, _⟩
    · rw [hc] at e; cases e
    · rw [hc] at e; cases e; exact hne
  have hrender : mc3TextRender hex ⟨pi, some (n : Int), some s, pc, []⟩ =
      mc3Body DOLLAR pi (if hex then fmtHex (n : Int) else fmtDec (n : Int)) s pc := by
    simp only [mc3TextRender, Option.getD_some]
    exact renderMc3G_eq DOLLAR hex pi _ s pc hcne
  rw [hrender]
  exact mc3Text_core hex pi dflt cs cc sc mn mx hsc n _ s pc (fmt_no_sep hex n DOLLAR (by decide))
    (parseIntFieldG_fmt hex n dflt) h1 h2 hsa hmn hmx hc

/-- R1 for dlitz_pbkdf2_sha1: 400 rounds are rendered as an empty field, which parses back to 400 -/
theorem dlitz_parse_render (p : Parsed) (h : Mc3TextWF P5K2_IDENT none none h64 0 (some 1024) p) :
    dlitzParse (dlitzRender p) = some p := by
  obtain ⟨hi, ⟨n, hr, h1, h2⟩, ⟨s, hs, hsa, hmn, hmx⟩, hc, he⟩ := h
  obtain ⟨pi, pr, ps, pc, pe⟩ := p
  simp only at hi hr hs hc he
  subst hi hr hs he
  have hcne : ∀ c, pc = some c → c ≠ [] := by
    intro c e
    rcases hc with hc | ⟨c', hc, hne, _⟩
    · rw [hc] at e; cases e
    · rw [hc] at e; cases e; exact hne
  unfold dlitzParse
  by_cases h400 : n = 400
  · subst h400
    have hrender : dlitzRender ⟨P5K2_IDENT, some ((400 : Nat) : Int), some s, pc, []⟩ =
        mc3Body DOLLAR P5K2_IDENT [] s pc := by
      have e : (some ((400 : Nat) : Int) = some (400 : Int)) := rfl
      simp only [dlitzRender, Option.getD_some, e, if_true]
      exact renderMc3G_eq DOLLAR true P5K2_IDENT none s pc hcne
    rw [hrender]
    exact mc3Text_core true P5K2_IDENT (some 400) none none h64 0 (some 1024) dollar_not_h64 400 [] s pc (by simp)
      (by decide) h1 h2 hsa hmn hmx hc
  · have hne : ¬ (some (n : Int) = some (400 : Int)) := by
      intro e; simp only [Option.some.injEq] at e; omega
    have hrender : dlitzRender ⟨P5K2_IDENT, some (n : Int), some s, pc, []⟩ =
        mc3Body DOLLAR P5K2_IDENT (fmtHex (n : Int)) s pc := by
      simp only [dlitzRender, Option.getD_some, hne, if_false]
      exact renderMc3G_eq DOLLAR true P5K2_IDENT _ s pc hcne
    rw [hrender]
    exact mc3Text_core true P5K2_IDENT (some 400) none none h64 0 (some 1024) dollar_not_h64 n _ s pc
      (fmt_no_sep true n DOLLAR (by decide)) (parseIntFieldG_fmt true n (some 400)) h1 h2 hsa hmn hmx hc

/-! ### raw handlers on parse_mc3 (pbkdf2_*, cta_pbkdf2_sha1, grub_pbkdf2_sha512) -/
structure RawMc3WF (ident : Str) (chkSize : Nat) (p : Parsed) : Prop where
  ident : p.ident = ident
  rounds : ∃ n : Nat, p.rounds = some (n : Int) ∧ 1 ≤ n ∧ n ≤ 4294967295
  salt : ∃ s, p.salt = some s ∧ Bytes.WF s ∧ s.length ≤ 1024
  chk : ∃ c, p.checksum = some c ∧ Bytes.WF c ∧ c.length = chkSize
  extra : p.extra = []

theorem rawInit_ok (ident : Str) (chkSize : Nat) (n : Nat) (s c : Bytes) (h1 : 1 ≤ n) (h2 : n ≤ 4294967295)
    (hs : s.length ≤ 1024) (hc : c.length = chkSize) :
    rawInit ident chkSize 1024 (n : Int) s (some c) =
      some { ident := ident, rounds := some (n : Int), salt := some s, checksum := some c } := by
  have hchk := normChecksum_okG (some chkSize) none c hc trivial
  have hsalt := normSalt_okG none 0 (some 1024) false s (fun _ e => by cases e) (by omega) (fun m e => by cases e; exact hs)
  simp only [rawInit, normChkOpt, hchk, Option.map_some, Option.bind_some, hsalt, normRounds_ok n h1 h2]

/-- what `to_string` of a raw handler emits for well-formed settings, and that it parses back -/
theorem rawMc3_render_parse (sep : Nat) (hex : Bool) (ident : Str) (chkSize : Nat) (enc : Bytes → Str) (dec : Str → Res Bytes)
    (hsep : sep < 48) (hcs : chkSize ≠ 0) (hcodec : CodecOK sep enc dec) (p : Parsed) (h : RawMc3WF ident chkSize p) :
    ∃ rest, rawMc3RenderX sep hex enc p = .ok (ident ++ rest) ∧ rawMc3ParseX sep hex ident chkSize dec (ident ++ rest) = .ok p := by
  obtain ⟨hi, ⟨n, hr, h1, h2⟩, ⟨s, hs, hsw, hsl⟩, ⟨c, hc, hcw, hcl⟩, he⟩ := h
  obtain ⟨pi, pr, ps, pc, pe⟩ := p
  simp only at hi hr hs hc he
  subst hi hr hs hc he
  have hcne : c ≠ [] := by
    intro e; subst e; exact hcs hcl.symm
  have hene := hcodec.nonEmpty c hcne
  have heE : (enc c).isEmpty = false := by
    cases h : enc c with
    | nil => exact absurd h hene
    | cons _ _ => rfl
  refine ⟨(if hex then fmtHex (n : Int) else fmtDec (n : Int)) ++ sep :: (enc s ++ sep :: enc c), ?_, ?_⟩
  · simp only [rawMc3RenderX, renderMc3G, roundsStr, Option.getD_some, heE, Bool.false_eq_true, if_false]
  · simp only [rawMc3ParseX]
    rw [parseMc3G_full sep hex pi _ (enc s) (enc c) none n (fmt_no_sep hex n sep hsep) (hcodec.noSep s) (hcodec.noSep c) hene
      (parseIntFieldG_fmt hex n none)]
    simp only [toRes, Except.bind, hcodec.roundtrip s hsw, optField, hcodec.roundtrip c hcw, Except.map,
      rawInit_ok pi chkSize n s c h1 h2 hsl hcl]

/-- R1 for the raw handlers: holds for any field codec that inverts on bytes and avoids the separator -/
theorem rawMc3_parse_render (sep : Nat) (hex : Bool) (ident : Str) (chkSize : Nat) (enc : Bytes → Str) (dec : Str → Res Bytes)
    (hsep : sep < 48) (hcs : chkSize ≠ 0) (hcodec : CodecOK sep enc dec) (p : Parsed) (h : RawMc3WF ident chkSize p) :
    (rawMc3RenderX sep hex enc p).bind (rawMc3ParseX sep hex ident chkSize dec) = .ok p := by
  obtain ⟨rest, hr, hp⟩ := rawMc3_render_parse sep hex ident chkSize enc dec hsep hcs hcodec p h
  rw [hr]; exact hp

/-! ### PrefixWrapper -/
theorem wrap_parse_render (pfx orig : Str) (inner : Str → Res Parsed) (innerR : Parsed → Res Str) (p : Parsed) (rest : Str)
    (hr : innerR p = .ok (orig ++ rest)) (hp : inner (orig ++ rest) = .ok p) :
    (wrapRenderX pfx orig innerR p).bind (wrapParseX pfx orig inner) = .ok p := by
  simp only [wrapRenderX, hr, Except.bind, stripPrefix_append, wrapParseX, hp]

/-- R1 for ldap_pbkdf2_*: `{PBKDF2…}` + the wrapped hash without its `$pbkdf2…$` ident -/
theorem ldap_pbkdf2_parse_render (pfx ident : Str) (chkSize : Nat) (hcs : chkSize ≠ 0) (p : Parsed) (h : RawMc3WF ident chkSize p) :
    (wrapRenderX pfx ident pbkdf2RenderX p).bind (wrapParseX pfx ident (pbkdf2ParseX ident chkSize)) = .ok p := by
  obtain ⟨rest, hr, hp⟩ := rawMc3_render_parse DOLLAR false ident chkSize _ _ (by decide) hcs ab64_codec p h
  exact wrap_parse_render pfx ident _ _ p rest hr hp

/-! ### atlassian_pbkdf2_sha1 -/
structure AtlassianWF (p : Parsed) : Prop where
  ident : p.ident = ATLASSIAN_IDENT
  rounds : p.rounds = none
  salt : ∃ s, p.salt = some s ∧ Bytes.WF s ∧ s.length = 16
  chk : ∃ c, p.checksum = some c ∧ Bytes.WF c ∧ c.length = 32
  extra : p.extra = []

theorem atlassian_parse_render (p : Parsed) (h : AtlassianWF p) :
    (atlassianRenderX p).bind (fun s => toRes (atlassianParse s)) = .ok p := by
  obtain ⟨hi, hr, ⟨s, hs, hsw, hsl⟩, ⟨c, hc, hcw, hcl⟩, he⟩ := h
  obtain ⟨pi, pr, ps, pc, pe⟩ := p
  simp only at hi hr hs hc he
  subst hi hr hs hc he
  have hw : Bytes.WF (s ++ c) := by
    intro b hb
    rcases List.mem_append.1 hb with h | h
    · exact hsw b h
    · exact hcw b h
  have htake : (s ++ c).take 16 = s := by rw [← hsl]; exact List.take_left
  have hdrop : (s ++ c).drop 16 = c := by rw [← hsl]; exact List.drop_left
  have hchk := normChecksum_okG (some 32) none c hcl trivial
  have hsalt := normSalt_okG none 16 (some 16) false s (fun _ e => by cases e) (by omega) (fun m e => by cases e; omega)
  simp only [atlassianRenderX, Option.getD_some, Except.bind, atlassianParse, stripPrefix_append, Option.bind_some,
    b64Std_roundtrip (s ++ c) hw, htake, hdrop, normChkOpt, hchk, Option.map_some, hsalt, toRes]

/-! ### django_salted_md5 / django_salted_sha1 -/
structure DjSaltedWF (ident : Str) (chkSize : Nat) (p : Parsed) : Prop where
  ident : p.ident = ident
  rounds : p.rounds = none
  salt : ∃ s, p.salt = some s ∧ allIn DJANGO_SALT_CHARS s = true
  chk : p.checksum = none ∨ ∃ c, p.checksum = some c ∧ allIn LOWER_HEX_CHARS c = true ∧ c.length = chkSize
  extra : p.extra = []

theorem dollar_not_djsalt : DOLLAR ∉ DJANGO_SALT_CHARS := by decide
theorem dollar_not_lowerhex : DOLLAR ∉ LOWER_HEX_CHARS := by decide
theorem dollar_not_h64' : DOLLAR ∉ h64 := dollar_not_h64

theorem djSalted_parse_render (ident : Str) (chkSize : Nat) (hcs : chkSize ≠ 0) (p : Parsed) (h : DjSaltedWF ident chkSize p) :
    djSaltedParse ident chkSize (djSaltedRender p) = some p := by
  obtain ⟨hi, hr, ⟨s, hs, hsa⟩, hc, he⟩ := h
  obtain ⟨pi, pr, ps, pc, pe⟩ := p
  simp only at hi hr hs hc he
  subst hi hr hs he
  have hsd : DOLLAR ∉ s := not_mem_of_all _ s DOLLAR dollar_not_djsalt hsa
  have hsalt := normSalt_okG (some DJANGO_SALT_CHARS) 0 none false s (fun cs' e => by cases e; exact hsa) (by omega)
    (fun m e => by cases e)
  rcases hc with hc | ⟨c, hc, hca, hcl⟩
  · subst hc
    simp only [djSaltedRender, renderMc2, Option.getD_some, djSaltedParse, parseMc2, stripPrefix_append, Option.bind_some,
      splitChar_no_sep DOLLAR s hsd, normChkOpt, hsalt, Option.map_some]
  · subst hc
    have hcne : c.isEmpty = false := by
      cases c with
      | nil => exact absurd hcl.symm hcs
      | cons _ _ => rfl
    have hcd : DOLLAR ∉ c := not_mem_of_all _ c DOLLAR dollar_not_lowerhex hca
    have hchk := normChecksum_okG (some chkSize) (some LOWER_HEX_CHARS) c hcl hca
    simp only [djSaltedRender, renderMc2, Option.getD_some, hcne, Bool.false_eq_true, if_false, djSaltedParse, parseMc2,
      List.append_assoc, stripPrefix_append, Option.bind_some, splitChar_append_sep DOLLAR s c hsd,
      splitChar_no_sep DOLLAR c hcd, orNone, normChkOpt, hchk, Option.map_some, hsalt]

/-! ### from the error-precise layer to `Format` -/
theorem toFormat_parse_render (f : FormatX) (p : Parsed) (h : (f.renderX p).bind f.parseX = .ok p) :
    f.toFormat.parse (f.toFormat.render p) = some p := by
  cases hr : f.renderX p with
  | error e => rw [hr] at h; cases h
  | ok s =>
    rw [hr] at h
    simp only [Except.bind] at h
    simp only [FormatX.toFormat, hr, Except.toOption, Option.getD_some, h]

/-! ### identify -/
theorem identByPrefix_append (ident rest : Str) (hne : ident ≠ []) : identByPrefix ident (ident ++ rest) = true := by
  unfold identByPrefix
  rw [prefix_append]
  cases ident with
  | nil => exact absurd rfl hne
  | cons _ _ => simp

theorem mc3Text_identify_render (hex : Bool) (ident : Str) (hne : ident ≠ []) (p : Parsed) (h : p.ident = ident) :
    identByPrefix ident (mc3TextRender hex p) = true := by
  unfold mc3TextRender renderMc3G
  rw [h]
  cases p.checksum with
  | none => exact identByPrefix_append ident _ hne
  | some c => dsimp only; split <;> exact identByPrefix_append ident _ hne

theorem dlitz_identify_render (p : Parsed) (h : p.ident = P5K2_IDENT) : identByPrefix P5K2_IDENT (dlitzRender p) = true := by
  unfold dlitzRender renderMc3G
  rw [h]
  cases p.checksum with
  | none => exact identByPrefix_append _ _ (by decide)
  | some c => dsimp only; split <;> exact identByPrefix_append _ _ (by decide)

theorem rawMc3_identify_render (sep : Nat) (hex : Bool) (enc : Bytes → Str) (ident : Str) (hne : ident ≠ []) (p : Parsed)
    (h : p.ident = ident) (s : Str) (hr : rawMc3RenderX sep hex enc p = .ok s) : identByPrefix ident s = true := by
  unfold rawMc3RenderX renderMc3G at hr
  rw [h] at hr
  cases hc : p.checksum with
  | none => rw [hc] at hr; cases hr
  | some c =>
    rw [hc] at hr
    simp only [Except.ok.injEq] at hr
    subst hr
    split <;> exact identByPrefix_append ident _ hne

theorem djSalted_identify_render (ident : Str) (hne : ident ≠ []) (p : Parsed) (h : p.ident = ident) :
    identByPrefix ident (djSaltedRender p) = true := by
  unfold djSaltedRender renderMc2
  rw [h]
  cases p.checksum with
  | none => exact identByPrefix_append ident _ hne
  | some c =>
    dsimp only
    split
    · exact identByPrefix_append ident _ hne
    · rw [List.append_assoc]; exact identByPrefix_append ident _ hne

theorem atlassian_identify_render (p : Parsed) (h : p.ident = ATLASSIAN_IDENT) (s : Str) (hr : atlassianRenderX p = .ok s) :
    identByPrefix ATLASSIAN_IDENT s = true := by
  unfold atlassianRenderX at hr
  rw [h] at hr
  cases hc : p.checksum with
  | none => rw [hc] at hr; cases hr
  | some c =>
    rw [hc] at hr
    simp only [Except.ok.injEq] at hr
    subst hr
    exact identByPrefix_append _ _ (by decide)

/-- a wrapped hash is identified when the wrapped handler identifies the unwrapped one -/
theorem wrap_identify (pfx orig : Str) (inner : Str → Bool) (rest : Str) (h : inner (orig ++ rest) = true) :
    wrapIdentify pfx orig inner (pfx ++ rest) = true := by
  unfold wrapIdentify
  rw [prefix_append]
  simp [h]

end Lemmas.FormatsPbkdf
