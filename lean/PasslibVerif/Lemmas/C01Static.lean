import PasslibVerif.Props.C01
import PasslibVerif.Lemmas.C01StaticEnc
/-
Generic part of C01 for hashers assembled from a C07 format model and a checksum function (`Model.VerifyFmt.Static.ofFormat`):
what `hashSecret` returns, when it returns, and the bundle `Sound` (round trip on every producible checksum, checksum
independent of the stored checksum, identified) from which the per-format theorems of Props/C01Static.lean follow.
-/
namespace Lemmas.C01Static
open Py Model.Handler Model.Formats Model.Verify Model.VerifyFmt.Static Props.C01 Lemmas.Formats

/-- what a successful `hash` did -/
theorem hashSecret_inv (h : Hasher) (s : Secret) (p : Parsed) (hs : Str) (hh : hashSecret h s p = .ok hs) :
    s.len ≤ MAX_PASSWORD_SIZE ∧ ∃ b c, s.toBytes = .ok b ∧ checkTruncate h b = .ok () ∧ checkNul h b = .ok () ∧
      h.digest b p = .ok c ∧ hs = h.render { p with checksum := some c } := by
  unfold hashSecret validateSecret at hh
  by_cases hl : s.len > MAX_PASSWORD_SIZE
  · simp [hl] at hh
  · simp only [hl, if_false] at hh
    refine ⟨by omega, ?_⟩
    unfold checksumOf at hh
    cases hb : s.toBytes with
    | error e => simp [hb] at hh
    | ok b =>
      simp only [hb, if_true] at hh
      cases ht : checkTruncate h b with
      | error e => simp [ht] at hh
      | ok u =>
        simp only [ht] at hh
        cases hn : checkNul h b with
        | error e => simp [hn] at hh
        | ok u2 =>
          simp only [hn] at hh
          cases hd : h.digest b p with
          | error e => simp [hd] at hh
          | ok c =>
            simp only [hd, Except.ok.injEq] at hh
            exact ⟨b, c, rfl, ht, hn, hd, hh.symm⟩

/-- when `hash` succeeds -/
theorem hashSecret_ok (h : Hasher) (s : Secret) (p : Parsed) (b : Bytes) (c : Str) (hv : s.len ≤ MAX_PASSWORD_SIZE)
    (hb : s.toBytes = .ok b) (ht : checkTruncate h b = .ok ()) (hn : checkNul h b = .ok ()) (hd : h.digest b p = .ok c) :
    hashSecret h s p = .ok (h.render { p with checksum := some c }) := by
  unfold hashSecret validateSecret checksumOf
  have : ¬ s.len > MAX_PASSWORD_SIZE := by omega
  simp only [this, if_false, hb, if_true, ht, hn, hd]

/-- no truncation policy, no NUL refusal -/
theorem checks_trivial (h : Hasher) (ht : h.truncateSize = none) (hn : h.rejectsNul = false) (b : Bytes) :
    checkTruncate h b = .ok () ∧ checkNul h b = .ok () := by
  unfold checkTruncate checkNul
  simp [ht, hn]

/-- everything C01 needs of a hasher for given settings -/
structure Sound (h : Hasher) (identify : Str → Bool) (p : Parsed) : Prop where
  rt : RoundTrips h p
  ic : IgnoresChecksum h
  id : ∀ b c, h.digest b p = .ok c → identify (h.render { p with checksum := some c }) = true

theorem Sound.verifies_own {h : Hasher} {identify : Str → Bool} {p : Parsed} (g : Sound h identify p) (s : Secret) (hs : Str)
    (hh : hashSecret h s p = .ok hs) : verify h s hs = .ok true :=
  verify_own_hash h s p hs g.rt g.ic hh

theorem Sound.identifies {h : Hasher} {identify : Str → Bool} {p : Parsed} (g : Sound h identify p) (s : Secret) (hs : Str)
    (hh : hashSecret h s p = .ok hs) : identify hs = true := by
  obtain ⟨_, b, c, _, _, _, hd, rfl⟩ := hashSecret_inv h s p hs hh
  exact g.id b c hd

/-- `verify` of ANOTHER secret against a produced hash: exactly "the two checksums are equal" -/
theorem Sound.verifies_other {h : Hasher} {identify : Str → Bool} {p : Parsed} (g : Sound h identify p) (s s' : Secret) (hs c' : Str)
    (hh : hashSecret h s p = .ok hs) (hv : s'.len ≤ MAX_PASSWORD_SIZE) (hc' : checksumOf h false s' p = .ok c') :
    ∃ c, checksumOf h true s p = .ok c ∧ verify h s' hs = .ok (c' == c) := by
  have : validateSecret s' = .ok () := by unfold validateSecret; simp; omega
  exact verify_of_hash h s s' p hs c' g.rt g.ic hh this hc'

/-- two secrets with the same bytes-level checksum: the hash of one verifies the other (the documented equivalences) -/
theorem Sound.verifies_equivalent {h : Hasher} {identify : Str → Bool} {p : Parsed} (g : Sound h identify p) (s s' : Secret) (hs : Str)
    (b b' : Bytes) (hh : hashSecret h s p = .ok hs) (hb : s.toBytes = .ok b) (hv : s'.len ≤ MAX_PASSWORD_SIZE)
    (hb' : s'.toBytes = .ok b') (hn : checkNul h b' = .ok ()) (heq : h.digest b' p = h.digest b p) : verify h s' hs = .ok true := by
  obtain ⟨_, b0, c, hb0, ht, hn0, hd, rfl⟩ := hashSecret_inv h s p hs hh
  rw [hb] at hb0; cases hb0
  have hc' : checksumOf h false s' p = .ok c := by
    unfold checksumOf; simp only [hb', hn, heq, hd]; rfl
  obtain ⟨c2, h1, h2⟩ := g.verifies_other s s' _ c (hashSecret_ok h s p b c (by assumption) hb ht hn0 hd) hv hc'
  have : checksumOf h true s p = .ok c := by
    unfold checksumOf; simp only [hb, if_true, ht, hn0, hd]
  rw [this] at h1; cases h1
  simpa using h2

/-- a hasher made of a format model whose round trip / identify theorems hold on a well-formedness predicate that every
    producible checksum satisfies -/
theorem sound_of_format (f : Format) (d : Bytes → Parsed → Res Str) (p : Parsed) (WF : Parsed → Prop)
    (hic : ∀ b q x, d b { q with checksum := x } = d b q)
    (hwf : ∀ b c, d b p = .ok c → WF { p with checksum := some c })
    (hpr : ∀ q, WF q → f.parse (f.render q) = some q)
    (hid : ∀ q, WF q → f.identify (f.render q) = true) : Sound (ofFormat f d) f.identify p where
  rt := by
    intro b c hc
    simp only [ofFormat] at hc ⊢
    rw [hpr _ (hwf b c hc)]; rfl
  ic := hic
  id := by
    intro b c hc
    exact hid _ (hwf b c hc)

/-- identification by parsing: a non-empty string that parses -/
theorem identByParse_of (parse : Str → Option Parsed) (s : Str) (p : Parsed) (hne : s ≠ []) (hp : parse s = some p) :
    identByParse parse s = true := by
  unfold identByParse
  cases s with
  | nil => exact absurd rfl hne
  | cons _ _ => simp [hp]

/-! ### the shapes of the family -/

/-- plain lower-case hexadecimal digests of `n` digits -/
theorem hexLower_sound (name : String) (n : Nat) (hn : n ≠ 0) (d : Bytes → Res Str)
    (hd : ∀ b c, d b = .ok c → c.length = n ∧ allIn lowerHex c = true) :
    Sound (ofFormat (hexLowerFormat name n) fun b _ => d b) (hexLowerFormat name n).identify noSettings :=
  sound_of_format _ _ _ (HexLowerWF n) (fun _ _ _ => rfl)
    (fun b c hc => ⟨rfl, rfl, rfl, rfl, c, rfl, hd b c hc⟩)
    (hexLower_parse_render name n) (hexLower_identify_render name n hn)

/-- upper-cased hexadecimal after a constant prefix (mysql41, oracle10) -/
theorem hexUpper_sound (name : String) (pfx : Str) (hpa : Lemmas.PyStr.Ascii pfx) (hpl : Lemmas.PyStr.NoLower pfx) (n : Nat) (hn : n ≠ 0)
    (d : Bytes → Res Str) (hd : ∀ b c, d b = .ok c → c.length = n ∧ allIn upperHex c = true) :
    Sound (ofFormat (staticFormat name .upper pfx (some n) (some hexChars)) fun b _ => d b)
      (staticFormat name .upper pfx (some n) (some hexChars)).identify noSettings :=
  sound_of_format _ _ _ (HexUpperWF n) (fun _ _ _ => rfl)
    (fun b c hc => ⟨rfl, rfl, rfl, rfl, c, rfl, hd b c hc⟩)
    (hexUpper_parse_render name pfx hpa hpl n)
    (fun q hq => by
      have hp := hexUpper_parse_render name pfx hpa hpl n q hq
      obtain ⟨_, _, _, _, c, hc, hl, _⟩ := hq
      refine identByParse_of _ _ q ?_ hp
      show pfx ++ q.checksum.getD [] ≠ []
      rw [hc]
      cases c with
      | nil => exact absurd hl.symm hn
      | cons _ _ => simp)

/-- no case normalisation: constant prefix + `n` characters of an alphabet (postgres_md5, cisco_pix, cisco_asa) -/
theorem fixed_sound (name : String) (pfx : Str) (n : Nat) (hn : n ≠ 0) (chars : List Nat)
    (d : Bytes → Res Str) (hd : ∀ b c, d b = .ok c → c.length = n ∧ allIn chars c = true) :
    Sound (ofFormat (staticFormat name .keep pfx (some n) (some chars)) fun b _ => d b)
      (staticFormat name .keep pfx (some n) (some chars)).identify noSettings :=
  sound_of_format _ _ _ (FixedChk [] n chars) (fun _ _ _ => rfl)
    (fun b c hc => ⟨rfl, rfl, rfl, rfl, c, rfl, hd b c hc⟩)
    (fixed_parse_render [] pfx n chars)
    (fun q hq => by
      have hp := fixed_parse_render [] pfx n chars q hq
      obtain ⟨_, _, _, _, c, hc, hl, _⟩ := hq
      refine identByParse_of _ _ q ?_ hp
      show pfx ++ q.checksum.getD [] ≠ []
      rw [hc]
      cases c with
      | nil => exact absurd hl.symm hn
      | cons _ _ => simp)

/-- `{MD5}` / `{SHA}` + padded base64 -/
theorem ldapB64_sound (name : String) (ident : Str) (hne : ident ≠ []) (d : Bytes → Res Str)
    (hd : ∀ b c, d b = .ok c → allIn paddedB64 c = true) :
    Sound (ofFormat (ldapB64Format name ident) fun b _ => d b) (ldapB64Format name ident).identify (noSettings ident) :=
  sound_of_format _ _ _ (LdapB64WF ident) (fun _ _ _ => rfl)
    (fun b c hc => ⟨rfl, rfl, rfl, rfl, c, rfl, hd b c hc⟩)
    (ldapB64_parse_render name ident) (fun q _ => ldapB64_identify_render name ident hne q)

end Lemmas.C01Static
