import PasslibVerif.Lemmas.C02CodeDigest
import PasslibVerif.Props.C11Scrypt
import PasslibVerif.Props.C12
/-
Lemmas for Props/C02CodeDigestKdf.lean: `pbkdf2_hmac` steps, `f"{rounds:x}"` is ASCII, `dlitz._get_config` is the specification's
setting string, the scrypt front end on admissible parameters, `h64.encode_bytes` = the specification's little-endian hash64.
-/
namespace Lemmas.C02CodeDigest
open Py Model.Code.Digest
open Model.Verify (Secret)
open Model.Code.Des (encodeSecret hexlify asciiUpper decodeAscii encodeAscii)
open Lemmas.C01Pbkdf (AlgOK pbkdf2_shape)

/-! ### `pbkdf2_hmac` on bytes / ASCII text -/

theorem pbkdf2Hmac_bytes (a : Spec.Formats.HashAlg) (secret salt : Bytes) (rounds k : Nat) (hr : 1 ≤ rounds) (hr' : rounds ≤ 0x7FFFFFFF)
    (hk : 1 ≤ k) : pbkdf2Hmac a (.bytes secret) (.bytes salt) rounds (some k) = .ok (Spec.Formats.pbkdf2 a secret salt rounds k) := by
  simp only [pbkdf2Hmac, Secret.toBytes, hashlibPbkdf2_ok a secret salt rounds k hr hr' hk]

theorem pbkdf2Hmac_text (a : Spec.Formats.HashAlg) (cps secret salt : Bytes) (hu : Model.Verify.utf8 cps = some secret) (rounds k : Nat)
    (hr : 1 ≤ rounds) (hr' : rounds ≤ 0x7FFFFFFF) (hk : 1 ≤ k) :
    pbkdf2Hmac a (.text cps) (.bytes salt) rounds (some k) = .ok (Spec.Formats.pbkdf2 a secret salt rounds k) := by
  simp only [pbkdf2Hmac, toBytes_text cps secret hu]
  simp only [Secret.toBytes, hashlibPbkdf2_ok a secret salt rounds k hr hr' hk]

theorem pbkdf2Hmac_unencodable (a : Spec.Formats.HashAlg) (cps : List Nat) (salt : Secret) (hu : Model.Verify.utf8 cps = none) (rounds : Nat)
    (k : Option Nat) : pbkdf2Hmac a (.text cps) salt rounds k = .error .valueError := by
  simp only [pbkdf2Hmac, Secret.toBytes, hu]

theorem pbkdf2Hmac_zero (a : Spec.Formats.HashAlg) (secret salt : Bytes) (k : Option Nat) :
    pbkdf2Hmac a (.bytes secret) (.bytes salt) 0 k = .error .valueError := by
  simp only [pbkdf2Hmac, Secret.toBytes, hashlibPbkdf2_zero]

/-- a str salt of ASCII characters reaches the KDF as those bytes -/
theorem pbkdf2Hmac_textsalt (a : Spec.Formats.HashAlg) (secret salt : Bytes) (hs : ∀ c ∈ salt, c < 128) (rounds : Nat) (k : Option Nat) :
    pbkdf2Hmac a (.bytes secret) (.text salt) rounds k = hashlibPbkdf2 a secret salt rounds k := by
  simp only [pbkdf2Hmac, Secret.toBytes, utf8_ascii salt hs]

/-! ### `f"{rounds:x}"` -/

theorem digitChar_lt (k : Nat) : (Nat.digitChar k).toNat < 128 := by
  by_cases h : k < 16
  · have key : ∀ k, k < 16 → (Nat.digitChar k).toNat < 128 := by decide
    exact key k h
  · unfold Nat.digitChar
    iterate 16 rw [if_neg (by omega)]
    decide

theorem toDigitsCore_lt (b : Nat) : ∀ (fuel n : Nat) (ds : List Char), (∀ c ∈ ds, c.toNat < 128) →
    ∀ c ∈ Nat.toDigitsCore b fuel n ds, c.toNat < 128
  | 0, _, ds, h => by simpa [Nat.toDigitsCore] using h
  | fuel + 1, n, ds, h => by
    have hd : ∀ c ∈ Nat.digitChar (n % b) :: ds, c.toNat < 128 := by
      intro c hc
      rcases List.mem_cons.1 hc with rfl | hc
      · exact digitChar_lt _
      · exact h c hc
    unfold Nat.toDigitsCore
    simp only []
    split
    · exact hd
    · exact toDigitsCore_lt b fuel (n / b) _ hd

theorem fmtX_lt (n : Nat) : ∀ c ∈ fmtX n, c < 128 := by
  intro c hc
  simp only [fmtX, List.mem_map] at hc
  obtain ⟨ch, hch, rfl⟩ := hc
  exact toDigitsCore_lt 16 _ _ [] (by simp) ch hch

theorem fmtX_eq (n : Nat) : fmtX n = Spec.Formats.hexNum n := rfl

/-! ### `dlitz_pbkdf2_sha1._get_config` -/

theorem dlitzGetConfig_eq (salt : List Nat) (rounds : Nat) : dlitzGetConfig salt rounds = Spec.Formats.dlitzSetting salt rounds := by
  unfold dlitzGetConfig renderMc3Hex Spec.Formats.dlitzSetting
  by_cases h : rounds = 400
  · simp only [h, if_true]; rfl
  · simp only [h, if_false]; rfl

theorem dlitzSetting_lt (salt : List Nat) (rounds : Nat) (hs : ∀ c ∈ salt, c < 128) : ∀ c ∈ Spec.Formats.dlitzSetting salt rounds, c < 128 := by
  intro c hc
  unfold Spec.Formats.dlitzSetting at hc
  simp only [List.mem_append] at hc
  rcases hc with ((hc | hc) | hc) | hc
  · have : ∀ c ∈ Spec.Formats.ascii "$p5k2$", c < 128 := by decide
    exact this c hc
  · split at hc
    · exact absurd hc (by simp)
    · exact fmtX_lt rounds c hc
  · have : ∀ c ∈ Spec.Formats.ascii "$", c < 128 := by decide
    exact this c hc
  · exact hs c hc

/-! ### scrypt -/

theorem scryptFront_ok (secret salt : Bytes) (e r p keylen : Nat) (he1 : 1 ≤ e) (he : e ≤ 32) (hr : 1 ≤ r) (hp : 1 ≤ p)
    (hrp : r * p ≤ 2 ^ 30 - 1) (hk1 : 1 ≤ keylen) (hk : keylen ≤ (2 ^ 32 - 1) * 32) :
    scryptFront (.bytes secret) (.bytes salt) (2 ^ e) r p keylen = .ok (Spec.Scrypt.scrypt secret salt (2 ^ e) r p keylen) := by
  have hv : Model.Scrypt.validate ((2 ^ e : Nat) : Int) (r : Int) (p : Int) = .ok () := by
    rw [Props.C11Scrypt.validate_spec]
    refine ⟨by omega, by omega, ?_, e, he1, by simp⟩
    have : ((r * p : Nat) : Int) ≤ ((2 ^ 30 - 1 : Nat) : Int) := Int.ofNat_le.2 hrp
    simpa using this
  unfold scryptFront
  simp only [hv, Secret.toBytes]
  rw [if_neg (by omega), if_neg (by unfold Gen.Scrypt.MAX_KEYLEN; omega)]
  rw [Props.C11Scrypt.run_eq_rfc7914 e r p secret salt keylen he hr hp]

theorem scryptFront_bad (secret salt : Secret) (n r p keylen : Nat) (h : Model.Scrypt.validate (n : Int) (r : Int) (p : Int) ≠ .ok ()) :
    scryptFront secret salt n r p keylen = .error .valueError := by
  unfold scryptFront
  cases hv : Model.Scrypt.validate (n : Int) (r : Int) (p : Int) with
  | error _ => rfl
  | ok u => cases u; exact absurd hv h

theorem scrypt_wf (P S : List Nat) (N r p dkLen : Nat) : Bytes.WF (Spec.Scrypt.scrypt P S N r p dkLen) := by
  unfold Spec.Scrypt.scrypt
  exact (Props.C11Scrypt.pbkdf2_length _ _ _).2

/-! ### `h64.encode_bytes` -/

theorem h64_encodeBytes_eq (bs : Bytes) (h : Bytes.WF bs) : Model.B64.encodeBytes Model.B64.h64 bs = Spec.Formats.h64le bs := by
  rw [Props.C12.encode_eq_crypt_little Model.B64.h64 rfl bs h]
  rfl

theorem h64le_lt (bs : Bytes) : ∀ c ∈ Spec.Formats.h64le bs, c < 128 := by
  intro c hc
  simp only [Spec.Formats.h64le, List.mem_map] at hc
  obtain ⟨v, _, rfl⟩ := hc
  have key : ∀ c ∈ Spec.Formats.itoa64, c < 128 := by decide
  by_cases hv : v < Spec.Formats.itoa64.length
  · have : Spec.Formats.itoa64.getD v 0 = Spec.Formats.itoa64[v] := by simp [List.getD, hv]
    rw [this]; exact key _ (List.getElem_mem hv)
  · have : Spec.Formats.itoa64.getD v 0 = 0 := by simp [List.getD, List.getElem?_eq_none (Nat.le_of_not_lt hv)]
    rw [this]; decide

end Lemmas.C02CodeDigest
