import PasslibVerif.Lemmas.Bits
import PasslibVerif.Lemmas.B64
import PasslibVerif.Model.ShaCrypt
import PasslibVerif.Spec.ShaCrypt
/-
Step 22: passlib's `h64.encode_transposed_bytes(dc, transpose_map)` produces exactly the characters of the
reference implementation's `b64_from_24bit` calls, for every digest value.
-/
namespace Lemmas.ShaCryptEnc
open Py Model.B64 Model.ShaCrypt
open Spec.ShaCrypt (itoa64 emit b64From24)

theorem charmap_eq : Model.B64.h64.charmap = itoa64 := by decide
theorem lp_charmap_eq : Model.B64.lpH64.charmap = itoa64 := by decide
theorem h64_little : Model.B64.h64.big = false := by decide
theorem lp_little : Model.B64.lpH64.big = false := by decide

/-- one 3-byte chunk = one `b64_from_24bit(c, b, a, 4)` -/
theorem chunk_eq (a b c : Nat) (ha : a < 256) (hb : b < 256) (hc : c < 256) :
    (Gen.B64.encLittleChunk a b c).map (encode64 itoa64) = b64From24 c b a 4 := by
  unfold Gen.B64.encLittleChunk b64From24 emit emit emit emit emit encode64
  simp only [List.map_cons, List.map_nil]
  bitsimp
  have e1 : (c * 65536 + b * 256 + a) % 64 = a % 64 := by omega
  have e2 : (c * 65536 + b * 256 + a) / 64 % 64 = b % 16 * 2 ^ 2 + a / 2 ^ 6 := by omega
  have e3 : (c * 65536 + b * 256 + a) / 64 / 64 % 64 = c % 4 * 2 ^ 4 + b / 2 ^ 4 := by omega
  have e4 : (c * 65536 + b * 256 + a) / 64 / 64 / 64 % 64 = c / 2 ^ 2 := by omega
  rw [e1, e2, e3, e4]
  exact ⟨rfl, rfl, rfl, rfl⟩

/-- two trailing bytes = `b64_from_24bit(0, b, a, 3)` -/
theorem tail2_eq (a b : Nat) (ha : a < 256) (hb : b < 256) :
    (Gen.B64.encLittleTail2 a b).map (encode64 itoa64) = b64From24 0 b a 3 := by
  unfold Gen.B64.encLittleTail2 b64From24 emit emit emit emit encode64
  simp only [List.map_cons, List.map_nil]
  bitsimp
  have e1 : (0 * 65536 + b * 256 + a) % 64 = a % 64 := by omega
  have e2 : (0 * 65536 + b * 256 + a) / 64 % 64 = b % 16 * 2 ^ 2 + a / 2 ^ 6 := by omega
  have e3 : (0 * 65536 + b * 256 + a) / 64 / 64 % 64 = b / 2 ^ 4 := by omega
  rw [e1, e2, e3]
  exact ⟨rfl, rfl, rfl⟩

/-- one trailing byte = `b64_from_24bit(0, 0, a, 2)` -/
theorem tail1_eq (a : Nat) (ha : a < 256) :
    (Gen.B64.encLittleTail1 a).map (encode64 itoa64) = b64From24 0 0 a 2 := by
  unfold Gen.B64.encLittleTail1 b64From24 emit emit emit encode64
  simp only [List.map_cons, List.map_nil]
  bitsimp
  have e1 : (0 * 65536 + 0 * 256 + a) % 64 = a % 64 := by omega
  have e2 : (0 * 65536 + 0 * 256 + a) / 64 % 64 = a / 2 ^ 6 := by omega
  rw [e1, e2]
  exact ⟨rfl, rfl⟩

theorem transpose_eq (dc : Bytes) (offs : List Nat) (h : ∀ o ∈ offs, o < dc.length) :
    transpose dc offs = some (offs.map (fun i => dc.getD i 0)) := by
  unfold transpose
  induction offs with
  | nil => rfl
  | cons o rest ih =>
    have ho : o < dc.length := h o (by simp)
    rw [List.mapM_cons, ih (fun x hx => h x (by simp [hx]))]
    simp [List.getD, List.getElem?_eq_getElem ho]

end Lemmas.ShaCryptEnc

namespace Lemmas.ShaCryptEnc
open Py Model.B64 Model.ShaCrypt
open Spec.ShaCrypt (itoa64 emit b64From24 encode256 encode512 order256 order512)

/-- a byte string: every element below 256 -/
def IsBytes (bs : Bytes) : Prop := ∀ x ∈ bs, x < 256

theorem getD_lt (dc : Bytes) (h : IsBytes dc) (i : Nat) : dc.getD i 0 < 256 := by
  unfold List.getD
  cases hi : dc[i]? with
  | none => simp
  | some v => simp only [Option.getD_some]; exact h v (List.mem_of_getElem? hi)

theorem enc6_chunk (a b c : Nat) (rest : List Nat) :
    enc6 false (a :: b :: c :: rest) = Gen.B64.encLittleChunk a b c ++ enc6 false rest := by
  simp [enc6]

theorem encode256_eq (dc : Bytes) (hlen : dc.length = 32) (hb : IsBytes dc) :
    encodeWith Gen.B64.sha256_transpose_map dc = .ok (encode256 (fun i => dc.getD i 0)) := by
  unfold encodeWith encodeTransposed
  rw [transpose_eq dc _ (by rw [hlen]; decide)]
  simp only [encodeBytes, h64_little, charmap_eq]
  congr 1
  have r := getD_lt dc hb
  simp only [Gen.B64.sha256_transpose_map, List.map_cons, List.map_nil, enc6_chunk, enc6, Bool.false_eq_true, if_false,
    List.map_append, chunk_eq _ _ _ (r _) (r _) (r _), tail2_eq _ _ (r _) (r _)]
  simp [encode256, order256]

theorem encode512_eq (dc : Bytes) (hlen : dc.length = 64) (hb : IsBytes dc) :
    encodeWith Gen.B64.sha512_transpose_map dc = .ok (encode512 (fun i => dc.getD i 0)) := by
  unfold encodeWith encodeTransposed
  rw [transpose_eq dc _ (by rw [hlen]; decide)]
  simp only [encodeBytes, h64_little, charmap_eq]
  congr 1
  have r := getD_lt dc hb
  simp only [Gen.B64.sha512_transpose_map, List.map_cons, List.map_nil, enc6_chunk, enc6, Bool.false_eq_true, if_false,
    List.map_append, chunk_eq _ _ _ (r _) (r _) (r _), tail1_eq _ (r _)]
  simp [encode512, order512]

theorem encodeMd5_eq (dc : Bytes) (hlen : dc.length = 16) (hb : IsBytes dc) :
    encodeWith Gen.B64.md5_transpose_map dc = .ok (Spec.Md5Crypt.encode (fun i => dc.getD i 0)) := by
  unfold encodeWith encodeTransposed
  rw [transpose_eq dc _ (by rw [hlen]; decide)]
  simp only [encodeBytes, h64_little, charmap_eq]
  congr 1
  have r := getD_lt dc hb
  simp only [Gen.B64.md5_transpose_map, List.map_cons, List.map_nil, enc6_chunk, enc6, Bool.false_eq_true, if_false,
    List.map_append, chunk_eq _ _ _ (r _) (r _) (r _), tail1_eq _ (r _)]
  simp [Spec.Md5Crypt.encode, Spec.Md5Crypt.order]

theorem lpEncodeBytes_eq (t : Bytes) : lpEncodeBytes lpH64 t = encodeBytes lpH64 t := by
  unfold lpEncodeBytes encodeBytes; rw [Lemmas.B64.lpEnc6_eq]

theorem lp256_map_eq : Gen.B64.lp_sha256_transpose_map = Gen.B64.sha256_transpose_map := by decide
theorem lp512_map_eq : Gen.B64.lp_sha512_transpose_map = Gen.B64.sha512_transpose_map := by decide
theorem lp_engine_eq : (lpH64.charmap, lpH64.big) = (h64.charmap, h64.big) := by decide

theorem lpEncodeWith_eq (map : List Nat) (dc : Bytes) : lpEncodeWith map dc = encodeWith map dc := by
  unfold lpEncodeWith encodeWith encodeTransposed
  cases transpose dc map with
  | none => rfl
  | some t =>
    simp only [lpEncodeBytes_eq, encodeBytes]
    have := lp_engine_eq
    simp only [Prod.mk.injEq] at this
    rw [this.1, this.2]

theorem lpEncode256_eq (dc : Bytes) (hlen : dc.length = 32) (hb : IsBytes dc) :
    lpEncodeWith Gen.B64.lp_sha256_transpose_map dc = .ok (encode256 (fun i => dc.getD i 0)) := by
  rw [lpEncodeWith_eq, lp256_map_eq]; exact encode256_eq dc hlen hb

theorem lpEncode512_eq (dc : Bytes) (hlen : dc.length = 64) (hb : IsBytes dc) :
    lpEncodeWith Gen.B64.lp_sha512_transpose_map dc = .ok (encode512 (fun i => dc.getD i 0)) := by
  rw [lpEncodeWith_eq, lp512_map_eq]; exact encode512_eq dc hlen hb

end Lemmas.ShaCryptEnc
