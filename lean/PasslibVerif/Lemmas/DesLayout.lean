import PasslibVerif.Spec.Des
/-
The data layout passlib's DES uses for a 32-bit half (from /verif/notes/des_derivation.md):
`expand x = place (E x)`, where `place` puts the j-th 6-bit group of the 48-bit E output,
bit-reversed, at bit `58 - 8j` of a 64-bit word.
-/
namespace DesLayout
open Spec.Des

/-- reverse the 6 bits of `c` -/
def rev6 (c : Nat) : Nat := perm c [6, 5, 4, 3, 2, 1] 6

def placeAux (e48 : Nat) : List Nat → Nat
  | [] => 0
  | j :: js => (rev6 (chunk e48 j) <<< (58 - 8 * j)) ||| placeAux e48 js

/-- `place(e48) = OR_j rev6((e48 >> (42-6j)) & 63) << (58-8j)`, j = 0..7 -/
def place (e48 : Nat) : Nat := placeAux e48 [0, 1, 2, 3, 4, 5, 6, 7]

/-- `expand(x32) = place(perm(x32, E, 32))` -/
def expand (x : Nat) : Nat := place (perm x E 32)

/-- SPE as the note derives it from FIPS S, P, E:
    `SPE[j][b6] = expand(perm(S_j(rev6 b6) << (28-4j), P, 32))` -/
def specSPE : List (List Nat) :=
  (List.range 8).map fun j => (List.range 64).map fun b6 =>
    expand (perm (sbox j (rev6 b6) <<< (28 - 4 * j)) P 32)

end DesLayout
