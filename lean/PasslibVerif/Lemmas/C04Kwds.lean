import PasslibVerif.Model.ContextKwds
/-
Helper lemmas for Props/C04Kwds: the strip helper, the load history, record lookup.
-/
namespace Lemmas.C04Kwds
open Py Model.ContextKwds

theorem strip_mem (c : Cfg) (r : Rec) (kws : List Kw) (k : Kw) :
    k ∈ strip c r kws ↔ k ∈ kws ∧ (k ∈ r.hasher.contextKwds ∨ k ∉ allKwds c) := by
  simp only [strip, List.mem_filter]
  constructor
  · rintro ⟨h1, h2⟩
    refine ⟨h1, ?_⟩
    by_cases hd : k ∈ r.hasher.contextKwds
    · exact Or.inl hd
    · right; intro ha; simp [ha, hd] at h2
  · rintro ⟨h1, h2⟩
    refine ⟨h1, ?_⟩
    rcases h2 with h | h <;> simp [h]

theorem strip_nil (c : Cfg) (r : Rec) : strip c r [] = [] := rfl

theorem strip_id_of_noKwds (c : Cfg) (r : Rec) (kws : List Kw) (h : allKwds c = []) : strip c r kws = kws := by
  simp [strip, h]

/-- the state a context built directly from `c` has -/
def build (c : Cfg) : State := step State.raw (.load c)

theorem step_load (st : State) (c : Cfg) : step st (.load c) = build c := by
  simp only [build, step]

/-- the configuration of the last successful load of a history -/
def lastLoad : List Event → Option Cfg
  | [] => none
  | e :: rest =>
    match lastLoad rest with
    | some c => some c
    | none => match e with
      | .load c => some c
      | .failed => none

theorem run_eq (hist : List Event) : ∀ st : State,
    run st hist = (match lastLoad hist with | some c => build c | none => st) := by
  induction hist with
  | nil => intro st; rfl
  | cons e rest ih =>
    intro st
    have : run st (e :: rest) = run (step st e) rest := rfl
    rw [this, ih]
    simp only [lastLoad]
    cases hl : lastLoad rest with
    | some c => rfl
    | none => cases e with
      | load c => simp [step_load]
      | failed => rfl

theorem build_instNone (c : Cfg) : (build c).instNone = (allKwds c).isEmpty := by
  simp only [build, step]
  split <;> simp_all

theorem build_cfg (c : Cfg) : (build c).cfg = c := by
  simp only [build, step]
  split <;> rfl

/-- the invariant: the method is shadowed by None only when no scheme declares a context keyword -/
def Good (st : State) : Prop := st.instNone = true → allKwds st.cfg = []

theorem good_raw : Good State.raw := by intro h; cases h

theorem good_build (c : Cfg) : Good (build c) := by
  intro h
  rw [build_instNone] at h
  rw [build_cfg]
  simpa using h

theorem passKwds_eq_strip (st : State) (hg : Good st) (r : Rec) (kws : List Kw) :
    passKwds st r kws = strip st.cfg r kws := by
  unfold passKwds
  split
  · rename_i h; rw [strip_id_of_noKwds _ _ _ (hg h)]
  · rfl

theorem recordsLookup_hasher (c : Cfg) (n : String) (cat : Cat) (r : Rec) (h : recordsLookup c n cat = some r) :
    r.hasher ∈ c.hashers ∧ r.hasher.name = n := by
  unfold recordsLookup at h
  split at h
  · cases h
  · rename_i hh hf
    have hm := List.mem_of_find?_eq_some hf
    have hn := List.find?_some hf
    have hn' : hh.name = n := by simpa using hn
    split at h
    · cases h; exact ⟨hm, hn'⟩
    · split at h
      · cases h; exact ⟨hm, hn'⟩
      · cases h

theorem getRecordNamed_hasher (c : Cfg) (n : String) (cat : Arg) (r : Rec) (h : getRecordNamed c n cat = .ok r) :
    r.hasher ∈ c.hashers ∧ r.hasher.name = n := by
  unfold getRecordNamed at h
  split at h
  · cases h
  · split at h
    · rename_i r' hl; cases h; exact recordsLookup_hasher _ _ _ _ hl
    · cases h
  · split at h
    · rename_i r' hl; cases h; exact recordsLookup_hasher _ _ _ _ hl
    · split at h
      · split at h
        · rename_i r' hl; cases h; exact recordsLookup_hasher _ _ _ _ hl
        · cases h
      · cases h

theorem getRecord_hasher (c : Cfg) (scheme cat : Arg) (r : Rec) (h : getRecord c scheme cat = .ok r) :
    r.hasher ∈ c.hashers := by
  have via : ∀ r, (match cat with
      | .other => (.error .typeError : Res Rec)
      | _ => match defaultScheme c cat.toCat with
        | .error e => .error e
        | .ok d => getRecordNamed c d cat) = .ok r → r.hasher ∈ c.hashers := by
    intro r h
    split at h
    · cases h
    · split at h
      · cases h
      · exact (getRecordNamed_hasher _ _ _ _ h).1
  unfold getRecord at h
  simp only at h
  split at h
  · cases h
  · exact via r h
  · split at h
    · exact (getRecordNamed_hasher _ _ _ _ h).1
    · exact via r h

theorem declared_mem_allKwds (c : Cfg) (h : Hasher) (hm : h ∈ c.hashers) (k : Kw) (hk : k ∈ h.contextKwds) : k ∈ allKwds c := by
  simp only [allKwds, List.mem_flatMap]
  exact ⟨h, hm, hk⟩

end Lemmas.C04Kwds
