import PasslibVerif.Lemmas.FormatsMiscLibpass
import PasslibVerif.Lemmas.FormatsMiscPasslib
import PasslibVerif.Lemmas.FormatsMiscScram
import PasslibVerif.Lemmas.FormatsMiscLimits
/-
Misc family: the bridge from `FormatE` round trips to the plain `Format` view, identify-after-render,
and concrete witnesses that the well-formedness predicates are inhabited.
-/
set_option linter.unusedSimpArgs false
namespace Lemmas.FormatsMisc
open Py Model.Handler Model.Formats Lemmas.Handler

/-- a `FormatE` round trip is a round trip of the forgetful `Format` -/
theorem toFormat_roundtrip (f : FormatE) (p : Parsed) (h : resBind (f.renderE p) f.parseE = .ok (some p)) :
    f.toFormat.parse (f.toFormat.render p) = some p := by
  unfold FormatE.toFormat
  cases hr : f.renderE p with
  | error e => rw [hr] at h; simp [resBind] at h
  | ok s =>
    rw [hr] at h
    simp only [resBind] at h
    simp only [hr, h]

/-- R2: whatever round-trips once is a fixed point of render ∘ parse -/
theorem roundtrip_stable (f : FormatE) (p : Parsed) (h : resBind (f.renderE p) f.parseE = .ok (some p)) :
    ∃ s, f.renderE p = .ok s ∧ resBind (f.parseE s) (fun q => match q with | some q => f.renderE q | none => vErr) = .ok s := by
  cases hr : f.renderE p with
  | error e => rw [hr] at h; simp [resBind] at h
  | ok s =>
    rw [hr] at h
    simp only [resBind] at h
    exact ⟨s, rfl, by simp only [h, resBind, hr]⟩

/-! ### identify(render x) -/
theorem scrypt_identify_render (p : Parsed) (h : ScryptWF p ∨ Scrypt7WF p) :
    ∃ s, scryptRender p = .ok s ∧ scryptIdentify s = true := by
  have hrt : resBind (scryptRender p) scryptParse = .ok (some p) := by
    rcases h with h | h
    · exact scrypt_roundtrip p h
    · exact scrypt7_roundtrip p h
  cases hr : scryptRender p with
  | error e => rw [hr] at hrt; simp [resBind] at hrt
  | ok s =>
    refine ⟨s, rfl, ?_⟩
    rw [hr] at hrt
    simp only [resBind] at hrt
    -- the parser only succeeds behind one of the two identifiers
    unfold scryptParse at hrt
    unfold scryptIdentify startsWith
    unfold stripPrefix at hrt
    by_cases h1 : IDENT_SCRYPT.isPrefixOf s = true
    · simp [h1]
    · by_cases h2 : IDENT_7.isPrefixOf s = true
      · simp [h2]
      · simp [h1, h2, vErr] at hrt

theorem fshp_identify_render (p : Parsed) (h : FshpWF p) : ∃ s, fshpRender p = .ok s ∧ identByPrefix FSHP_IDENT s = true := by
  obtain ⟨hi, ⟨r, hr, _, _⟩, ⟨v, he, hv, c, hc, _, _⟩, ⟨s, hs, _⟩⟩ := h
  obtain ⟨pi, pr, ps, pc, pe⟩ := p
  simp only at hi hr he hs hc
  subst hi hr he hs hc
  simp only [fshpRender]
  refine ⟨_, rfl, ?_⟩
  unfold identByPrefix
  rw [prefix_append]
  simp [FSHP_IDENT, ofString]

theorem scram_identify_render (p : Parsed) (h : ScramWF p) : ∃ s, scramRender p = .ok s ∧ identByPrefix SCRAM_IDENT s = true := by
  have hrt := scram_roundtrip p h
  cases hr : scramRender p with
  | error e => rw [hr] at hrt; simp [resBind] at hrt
  | ok s =>
    refine ⟨s, rfl, ?_⟩
    rw [hr] at hrt
    simp only [resBind] at hrt
    unfold scramParse stripPrefix at hrt
    unfold identByPrefix
    by_cases h1 : SCRAM_IDENT.isPrefixOf s = true
    · have : s ≠ [] := by intro e; subst e; revert h1; decide
      cases s <;> simp_all
    · simp [h1, vErr] at hrt

/-! ### the well-formedness predicates are inhabited -/
theorem algOK_sha1 : AlgOK SHA1 := ⟨by decide +kernel, by decide, by decide, by decide⟩
theorem algOK_sha256 : AlgOK (ofString "sha-256") := ⟨by decide +kernel, by decide, by decide, by decide⟩
theorem algOK_sha512 : AlgOK (ofString "sha-512") := ⟨by decide +kernel, by decide, by decide, by decide⟩

/-- the default alg list of passlib's scram (sha-1, sha-256, sha-512) with arbitrary digests is well-formed -/
theorem scramWF_default (r : Nat) (hr : 1 ≤ r ∧ r ≤ 4294967295) (salt d1 d2 d3 : Bytes) (hs : Bytes.WF salt ∧ salt.length ≤ 1024)
    (h1 : Bytes.WF d1) (h2 : Bytes.WF d2) (h3 : Bytes.WF d3) :
    ScramWF { ident := SCRAM_IDENT, rounds := some (r : Int), salt := some salt,
              checksum := some (scramChkEncode [SHA1, ofString "sha-256", ofString "sha-512"] [(SHA1, d1), (ofString "sha-256", d2), (ofString "sha-512", d3)]),
              extra := [("algs", ofString "sha-1,sha-256,sha-512")] } := by
  refine ⟨rfl, ⟨r, rfl, hr.1, hr.2⟩, ⟨salt, rfl, hs.1, hs.2⟩, ⟨[(SHA1, d1), (ofString "sha-256", d2), (ofString "sha-512", d3)], ?_, rfl, ?_, ?_, ?_⟩⟩
  · simp only [List.map]; congr 1
  · unfold Sorted; simp only [List.map]; decide
  · simp
  · intro kv hk
    simp only [List.mem_cons, List.not_mem_nil, or_false] at hk
    rcases hk with h | h | h <;> subst h
    · exact ⟨algOK_sha1, h1⟩
    · exact ⟨algOK_sha256, h2⟩
    · exact ⟨algOK_sha512, h3⟩

end Lemmas.FormatsMisc
