import PasslibVerif.Lemmas.BitHom
import PasslibVerif.Lemmas.DesTables
/-
(f) passlib's table-driven DES (`Model.Des`) equals textbook FIPS 46-3 DES with the crypt(3)
salt / multi-pass generalisation (`Spec.Des.desCryptCore`) for ALL in-range arguments.

Proof shape: the model keeps each 32-bit half `x` as `expand x = place (E x)`.
  * `ie_eq_fips`  : the initial tables produce `(expand l₀, expand r₀)` with `l₀ r₀ = IP(input)`;
  * `ks_eq_fips`  : the key-schedule words are `place Kᵢ`;
  * `halfStep_eq` : one SPE half-step on `expand r` is `expand (P(S(saltSwap(E r) xor K)))`
                    (xor/and-homomorphism of the bit selections, `spe_lookup`, `place_chunks`);
  * `cf_eq_fips`  : the final table maps `(expand l, expand r)` to `FP(l ‖ r)`.
-/
namespace Lemmas.DesEquiv
open OrLin DesLayout Spec.Des Model.Des BitHom Lemmas.DesTables

/-! ## `place` as a bit selection: homomorphism properties -/

/-- `place` written as a FIPS-style selection table (0 = constant zero bit) -/
def PLACE : List Nat :=
  [6,5,4,3,2,1,0,0, 12,11,10,9,8,7,0,0, 18,17,16,15,14,13,0,0, 24,23,22,21,20,19,0,0,
   30,29,28,27,26,25,0,0, 36,35,34,33,32,31,0,0, 42,41,40,39,38,37,0,0, 48,47,46,45,44,43,0,0]

theorem place_eq_perm (e : Nat) (h : e < 2^48) : place e = perm e PLACE 48 :=
  ext_unitsB (f := fun e => place e) (g := fun e => perm e PLACE 48)
    (place_orlin' OrLin.id) (perm_orlin' _ _ OrLin.id) 48 (by decide +kernel) e h

theorem place_xor (a b : Nat) (ha : a < 2^48) (hb : b < 2^48) : place (a ^^^ b) = place a ^^^ place b := by
  rw [place_eq_perm _ (Nat.xor_lt_two_pow ha hb), place_eq_perm a ha, place_eq_perm b hb, perm_xor]

theorem place_and (a b : Nat) (ha : a < 2^48) (hb : b < 2^48) : place (a &&& b) = place a &&& place b := by
  rw [place_eq_perm _ (Nat.and_lt_two_pow _ hb), place_eq_perm a ha, place_eq_perm b hb, perm_and]

theorem place_shr24 (e : Nat) (h : e < 2^48) : place (e >>> 24) = place e >>> 32 :=
  ext_unitsB (f := fun e => place (e >>> 24)) (g := fun e => place e >>> 32)
    (place_orlin' (shiftRight' _ OrLin.id)) (shiftRight' _ (place_orlin' OrLin.id)) 48 (by decide +kernel) e h

theorem place_shl24 (t : Nat) (h : t < 2^24) : place (t <<< 24) = place t <<< 32 :=
  ext_unitsB (f := fun e => place (e <<< 24)) (g := fun e => place e <<< 32)
    (place_orlin' (shiftLeft' _ OrLin.id)) (shiftLeft' _ (place_orlin' OrLin.id)) 24 (by decide +kernel) t h

theorem expandSalt_orlin : OrLin expandSalt := by
  unfold expandSalt; orlin

/-- passlib's 32-bit salt word is `place` of the spec's 24-bit salt mask -/
theorem place_saltMask (salt : Nat) (h : salt < 2^24) : place (saltMask salt) = expandSalt salt :=
  ext_unitsB (f := fun s => place (saltMask s)) (g := expandSalt)
    (place_orlin' (by unfold saltMask; exact perm_orlin' _ _ OrLin.id)) expandSalt_orlin 24
    (by decide +kernel) salt h

theorem saltMask_lt (salt : Nat) : saltMask salt < 2^24 := by
  unfold saltMask; exact perm_lt _ _ _

theorem expand_xor (a b : Nat) : expand (a ^^^ b) = expand a ^^^ expand b := by
  unfold expand
  rw [perm_xor, place_xor _ _ (perm_lt _ _ _) (perm_lt _ _ _)]


/-! ## one half-step of the model loop is one FIPS round function (with salt) -/

/-- the model's salt word `k = ((X >> 32) ^ X) & salt` for `X = place e` -/
def kOf (e salt : Nat) : Nat := ((place e >>> 32) ^^^ place e) &&& expandSalt salt

/-- step (i): the word `B` fed to the SPE lookups is `place (saltSwap (E r) salt xor k)` -/
theorem B_eq (e kk salt : Nat) (he : e < 2^48) (hk : kk < 2^48) (hs : salt < 2^24) :
    (kOf e salt <<< 32) ^^^ kOf e salt ^^^ place e ^^^ place kk = place (saltSwap e salt ^^^ kk) := by
  have hm : saltMask salt < 2^24 := saltMask_lt salt
  have hm48 : saltMask salt < 2^48 := Nat.lt_of_lt_of_le hm (Nat.pow_le_pow_right (by decide) (by decide))
  have he24 : e >>> 24 < 2^48 := Nat.lt_of_le_of_lt (Nat.shiftRight_le _ _) he
  have ht24 : ((e >>> 24) ^^^ e) &&& saltMask salt < 2^24 := Nat.and_lt_two_pow _ hm
  have ht48 : ((e >>> 24) ^^^ e) &&& saltMask salt < 2^48 := Nat.and_lt_two_pow _ hm48
  have hx48 : (e >>> 24) ^^^ e < 2^48 := Nat.xor_lt_two_pow he24 he
  have hts : (((e >>> 24) ^^^ e) &&& saltMask salt) <<< 24 < 2^48 := by
    rw [Nat.shiftLeft_eq]
    have : (2:Nat)^48 = 2^24 * 2^24 := by decide
    rw [this]
    exact Nat.mul_lt_mul_of_lt_of_le ht24 (Nat.le_refl _) (Nat.two_pow_pos _)
  -- k is place of the spec's t
  have hkt : place (((e >>> 24) ^^^ e) &&& saltMask salt) = kOf e salt := by
    rw [place_and _ _ hx48 hm48, place_xor _ _ he24 he, place_shr24 e he, place_saltMask salt hs, kOf]
  generalize kOf e salt = k at hkt ⊢
  simp only [saltSwap]
  rw [place_xor _ _ (Nat.xor_lt_two_pow (Nat.xor_lt_two_pow he ht48) hts) hk,
    place_xor _ _ (Nat.xor_lt_two_pow he ht48) hts, place_xor _ _ he ht48,
    place_shl24 _ ht24, hkt]
  generalize place e = X
  generalize place kk = K
  generalize k <<< 32 = A
  rw [Nat.xor_comm (A ^^^ k) X, Nat.xor_comm A k, Nat.xor_assoc X k A]


/-- step (ii): the eight 6-bit indices read off `place b` are the bit-reversed 6-bit groups of `b` -/
theorem place_chunks (b : Nat) (h : b < 2^48) :
    (place b >>> 58) &&& 0x3F = rev6 (chunk b 0) ∧ (place b >>> 50) &&& 0x3F = rev6 (chunk b 1) ∧
    (place b >>> 42) &&& 0x3F = rev6 (chunk b 2) ∧ (place b >>> 34) &&& 0x3F = rev6 (chunk b 3) ∧
    (place b >>> 26) &&& 0x3F = rev6 (chunk b 4) ∧ (place b >>> 18) &&& 0x3F = rev6 (chunk b 5) ∧
    (place b >>> 10) &&& 0x3F = rev6 (chunk b 6) ∧ (place b >>> 2) &&& 0x3F = rev6 (chunk b 7) := by
  have key : ∀ (s j : Nat),
      ((List.range 48).all fun i => ((place (2^i) >>> s) &&& 0x3F) == rev6 (chunk (2^i) j)) = true →
      (place b >>> s) &&& 0x3F = rev6 (chunk b j) := fun s j hu =>
    ext_unitsB (f := fun b => (place b >>> s) &&& 0x3F) (g := fun b => rev6 (chunk b j))
      (andMask' _ (shiftRight' _ (place_orlin' OrLin.id))) (rev6_orlin' (chunk_orlin' j OrLin.id)) 48 hu b h
  exact ⟨key 58 0 (by decide +kernel), key 50 1 (by decide +kernel), key 42 2 (by decide +kernel),
    key 34 3 (by decide +kernel), key 26 4 (by decide +kernel), key 18 5 (by decide +kernel),
    key 10 6 (by decide +kernel), key 2 7 (by decide +kernel)⟩

/-- the SPE entry for S-box `j` on (un-reversed) input `c`, as the note derives it -/
def speTerm (j c : Nat) : Nat := expand (perm (sbox j c <<< (28 - 4 * j)) P 32)

theorem spe_lookupB : ((List.range 8).all fun j => (List.range 64).all fun c =>
    (SPEj j).getD (rev6 c) 0 == speTerm j c) = true := by decide +kernel

/-- step (iii) -/
theorem spe_lookup (j c : Nat) (hj : j < 8) (hc : c < 64) : (SPEj j).getD (rev6 c) 0 = speTerm j c := by
  have h := spe_lookupB
  rw [List.all_eq_true] at h
  have h2 := h j (List.mem_range.2 hj)
  rw [List.all_eq_true] at h2
  exact eq_of_beq (h2 c (List.mem_range.2 hc))

theorem chunk_lt (b j : Nat) : chunk b j < 64 := Nat.lt_succ_of_le Nat.and_le_right

theorem S_lt16B : (S.all fun row => row.all fun v => decide (v < 16)) = true := by decide +kernel

theorem getD_lt {l : List Nat} {n : Nat} (h : ∀ v ∈ l, v < n) (hn : 0 < n) (i : Nat) : l.getD i 0 < n := by
  rw [List.getD_eq_getElem?_getD]
  cases hi : l[i]? with
  | none => simpa using hn
  | some v => simpa using h v (List.mem_of_getElem? hi)

theorem sbox_lt (j c : Nat) : sbox j c < 16 := by
  unfold sbox
  simp only
  apply getD_lt _ (by decide)
  intro v hv
  have h := S_lt16B
  rw [List.all_eq_true] at h
  rw [List.getD_eq_getElem?_getD] at hv
  cases hj : S[j]? with
  | none => rw [hj] at hv; simp at hv
  | some row =>
    rw [hj] at hv
    have h2 := h row (List.mem_of_getElem? hj)
    rw [List.all_eq_true] at h2
    simpa using h2 v hv

/-- `concat4` with xor instead of or -/
def concat4x : List Nat → Nat
  | [] => 0
  | s :: ss => (s <<< (4 * ss.length)) ^^^ concat4x ss

theorem concat4_xor : ∀ (l : List Nat), (∀ s ∈ l, s < 16) →
    concat4 l = concat4x l ∧ concat4 l < 2 ^ (4 * l.length)
  | [], _ => by simp [concat4, concat4x]
  | s :: ss, h => by
    have ih := concat4_xor ss (fun s' hs' => h s' (List.mem_cons_of_mem _ hs'))
    have hs : s < 16 := h s List.mem_cons_self
    simp only [concat4, concat4x, List.length_cons]
    constructor
    · rw [glue_or_eq_xor _ _ _ ih.2, ih.1]
    · apply Nat.or_lt_two_pow
      · rw [Nat.shiftLeft_eq]
        have : 2 ^ (4 * (ss.length + 1)) = 16 * 2 ^ (4 * ss.length) := by
          rw [Nat.mul_add, Nat.pow_add]; omega
        rw [this]
        exact Nat.mul_lt_mul_of_lt_of_le hs (Nat.le_refl _) (Nat.two_pow_pos _)
      · exact Nat.lt_of_lt_of_le ih.2 (Nat.pow_le_pow_right (by decide) (by omega))

/-- steps (ii)–(iv): the eight SPE lookups on `place b` give `expand (P (S b))` -/
theorem speXor_place (b : Nat) (h : b < 2^48) : speXor (place b) = expand (perm (sboxes b) P 32) := by
  obtain ⟨c0, c1, c2, c3, c4, c5, c6, c7⟩ := place_chunks b h
  unfold speXor
  rw [c0, c1, c2, c3, c4, c5, c6, c7,
    spe_lookup 0 _ (by decide) (chunk_lt b 0), spe_lookup 1 _ (by decide) (chunk_lt b 1),
    spe_lookup 2 _ (by decide) (chunk_lt b 2), spe_lookup 3 _ (by decide) (chunk_lt b 3),
    spe_lookup 4 _ (by decide) (chunk_lt b 4), spe_lookup 5 _ (by decide) (chunk_lt b 5),
    spe_lookup 6 _ (by decide) (chunk_lt b 6), spe_lookup 7 _ (by decide) (chunk_lt b 7)]
  simp only [speTerm, ← expand_xor, ← perm_xor]
  have hr : List.range 8 = [0, 1, 2, 3, 4, 5, 6, 7] := by decide
  have hx := (concat4_xor ((List.range 8).map (fun j => sbox j (chunk b j)))
    (by intro s hs; simp only [List.mem_map] at hs; obtain ⟨j, _, rfl⟩ := hs; exact sbox_lt _ _)).1
  unfold sboxes
  rw [hx, hr]
  simp only [List.map_cons, List.map_nil, concat4x, List.length_cons, List.length_nil]
  generalize sbox 0 (chunk b 0) = s0
  generalize sbox 1 (chunk b 1) = s1
  generalize sbox 2 (chunk b 2) = s2
  generalize sbox 3 (chunk b 3) = s3
  generalize sbox 4 (chunk b 4) = s4
  generalize sbox 5 (chunk b 5) = s5
  generalize sbox 6 (chunk b 6) = s6
  generalize sbox 7 (chunk b 7) = s7
  simp only [Nat.xor_assoc, Nat.xor_zero, Nat.reduceMul, Nat.reduceSub, Nat.reduceAdd, Nat.zero_add]


/-- one model half-step on `expand r` with key word `place kk` is `expand` of the salted FIPS
    cipher function -/
theorem halfStep_eq (r kk salt : Nat) (hk : kk < 2^48) (hs : salt < 2^24) :
    halfStep (expand r) (place kk) (expandSalt salt) = expand (feistelSalted r kk salt) := by
  have he : perm r E 32 < 2^48 := perm_lt _ _ _
  have hB := B_eq (perm r E 32) kk salt he hk hs
  unfold halfStep
  simp only
  unfold kOf at hB
  unfold expand
  rw [hB]
  have hsw : saltSwap (perm r E 32) salt ^^^ kk < 2^48 := by
    apply Nat.xor_lt_two_pow _ hk
    unfold saltSwap
    simp only
    have hm48 : saltMask salt < 2^48 :=
      Nat.lt_of_lt_of_le (saltMask_lt salt) (Nat.pow_le_pow_right (by decide) (by decide))
    have ht24 : ((perm r E 32 >>> 24) ^^^ perm r E 32) &&& saltMask salt < 2^24 :=
      Nat.and_lt_two_pow _ (saltMask_lt salt)
    have ht48 : ((perm r E 32 >>> 24) ^^^ perm r E 32) &&& saltMask salt < 2^48 := Nat.and_lt_two_pow _ hm48
    apply Nat.xor_lt_two_pow (Nat.xor_lt_two_pow he ht48)
    rw [Nat.shiftLeft_eq]
    have : (2:Nat)^48 = 2^24 * 2^24 := by decide
    rw [this]
    exact Nat.mul_lt_mul_of_lt_of_le ht24 (Nat.le_refl _) (Nat.two_pow_pos _)
  have := speXor_place _ hsw
  unfold expand at this
  rw [this]
  rfl


/-! ## rounds, passes -/

theorem roundPair_eq (salt l r k1 k2 : Nat) (h1 : k1 < 2^48) (h2 : k2 < 2^48) (hs : salt < 2^24) :
    roundPair (expandSalt salt) (expand l, expand r) (place k1, place k2) =
      ((expand (roundSalted salt (roundSalted salt (l, r) k1) k2).1),
       (expand (roundSalted salt (roundSalted salt (l, r) k1) k2).2)) := by
  simp only [roundPair, roundSalted]
  rw [halfStep_eq r k1 salt h1 hs, ← expand_xor, halfStep_eq _ k2 salt h2 hs, ← expand_xor]

/-- the state pair seen through `expand` -/
def expandLR (lr : Nat × Nat) : Nat × Nat := (expand lr.1, expand lr.2)

theorem fold_eq (salt : Nat) (hs : salt < 2^24) : ∀ (ks : List Nat) (lr : Nat × Nat),
    (∀ k ∈ ks, k < 2^48) → ks.length % 2 = 0 →
    (pairUp (ks.map place)).foldl (roundPair (expandSalt salt)) (expandLR lr) =
      expandLR (ks.foldl (roundSalted salt) lr)
  | [], lr, _, _ => by simp only [List.map_nil, pairUp, List.foldl_nil]
  | [_], _, _, hl => by simp at hl
  | k1 :: k2 :: rest, lr, hk, hl => by
    have h1 : k1 < 2^48 := hk k1 (by simp)
    have h2 : k2 < 2^48 := hk k2 (by simp)
    have ih := fold_eq salt hs rest (roundSalted salt (roundSalted salt lr k1) k2)
      (fun k hk' => hk k (by simp [hk'])) (by simp at hl; omega)
    simp only [List.map_cons, pairUp, List.foldl_cons]
    rw [← ih]
    congr 1
    exact roundPair_eq salt lr.1 lr.2 k1 k2 h1 h2 hs

theorem mainLoop_eq (salt : Nat) (hs : salt < 2^24) (ks : List Nat)
    (hk : ∀ k ∈ ks, k < 2^48) (hl : ks.length % 2 = 0) : ∀ (n : Nat) (lr : Nat × Nat),
    mainLoop (pairUp (ks.map place)) (expandSalt salt) n (expandLR lr) = expandLR (passes ks salt n lr)
  | 0, lr => by simp only [mainLoop, passes]
  | n + 1, lr => by
    simp only [mainLoop, passes, pass16]
    rw [fold_eq salt hs ks lr hk hl]
    have e : ∀ p : Nat × Nat, ((expandLR p).2, (expandLR p).1) = expandLR (p.2, p.1) := fun p => by
      simp only [expandLR]
    rw [e]
    exact mainLoop_eq salt hs ks hk hl n _


/-! ## bounds carried through the spec computation -/

def Bnd (lr : Nat × Nat) : Prop := lr.1 < 2^32 ∧ lr.2 < 2^32

theorem feistelSalted_lt (r k salt : Nat) : feistelSalted r k salt < 2^32 := by
  unfold feistelSalted; exact perm_lt _ _ _

theorem roundSalted_bnd (salt : Nat) (lr : Nat × Nat) (k : Nat) (h : Bnd lr) : Bnd (roundSalted salt lr k) :=
  ⟨h.2, Nat.xor_lt_two_pow h.1 (feistelSalted_lt _ _ _)⟩

theorem foldl_bnd (salt : Nat) : ∀ (ks : List Nat) (lr : Nat × Nat), Bnd lr →
    Bnd (ks.foldl (roundSalted salt) lr)
  | [], _, h => h
  | k :: ks, lr, h => by
    simp only [List.foldl_cons]
    exact foldl_bnd salt ks _ (roundSalted_bnd salt lr k h)

theorem passes_bnd (ks : List Nat) (salt : Nat) : ∀ (n : Nat) (lr : Nat × Nat), Bnd lr →
    Bnd (passes ks salt n lr)
  | 0, _, h => h
  | n + 1, lr, h => by
    simp only [passes, pass16]
    have := foldl_bnd salt ks lr h
    exact passes_bnd ks salt n _ ⟨this.2, this.1⟩

theorem subkeys_lt (key : Nat) : ∀ k ∈ subkeys key, k < 2^48 := by
  intro k hk
  simp only [subkeys, List.mem_map] at hk
  obtain ⟨cd, _, rfl⟩ := hk
  exact perm_lt _ _ _

theorem subkeys_length (key : Nat) : (subkeys key).length = 16 := by
  simp [subkeys, keyStates_length, SHIFTS]

/-! ## (f) the model equals the specification -/

/-- the computational core of `des_encrypt_int_block` is salted multi-pass FIPS DES -/
theorem desCore_eq_spec (key input salt rounds : Nat)
    (hk : key < 2^64) (hi : input < 2^64) (hs : salt < 2^24) :
    desCore key input salt rounds = desCryptCore key input salt rounds := by
  have hx : perm input IP 64 < 2^64 := perm_lt _ _ _
  have hb0 : Bnd (perm input IP 64 >>> 32, perm input IP 64 &&& 0xFFFFFFFF) := by
    constructor
    · show perm input IP 64 >>> 32 < 2^32
      rw [Nat.shiftRight_eq_div_pow]; omega
    · exact Nat.lt_succ_of_le Nat.and_le_right
  have hb := passes_bnd (subkeys key) salt rounds _ hb0
  unfold desCore desCryptCore
  simp only
  rw [ksList_eq key hk, ie_eq_fips input hi]
  have := mainLoop_eq salt hs (subkeys key) (subkeys_lt key) (by rw [subkeys_length]) rounds
    (perm input IP 64 >>> 32, perm input IP 64 &&& 0xFFFFFFFF)
  simp only [expandLR] at this
  rw [this]
  exact cf_eq_fips _ _ hb.1 hb.2

/-- (f) for every in-range argument tuple, passlib's `des_encrypt_int_block` returns (does not
    raise, and equals) salted multi-pass FIPS 46-3 DES. -/
theorem des_model_eq_spec (key input salt rounds : Nat)
    (hk : key < 2^64) (hi : input < 2^64) (hs : salt < 2^24) (hr : 1 ≤ rounds) :
    desEncryptIntBlock key input salt rounds = .ok (desCryptCore key input salt rounds) := by
  have g1 : ¬ rounds < 1 := by omega
  have g2 : ¬ salt > Gen.Des.INT_24_MASK := by simp [Gen.Des.INT_24_MASK]; omega
  have g3 : ¬ key > Gen.Des.INT_64_MASK := by simp [Gen.Des.INT_64_MASK]; omega
  have g4 : ¬ input > Gen.Des.INT_64_MASK := by simp [Gen.Des.INT_64_MASK]; omega
  simp only [desEncryptIntBlock, g1, g2, g3, g4, if_false]
  rw [desCore_eq_spec key input salt rounds hk hi hs]

/-! ## plain DES -/

theorem saltMask_zero : saltMask 0 = 0 := by decide +kernel

theorem feistelSalted_zero (r k : Nat) : feistelSalted r k 0 = feistel r k := by
  simp [feistelSalted, feistel, saltSwap, saltMask_zero]

/-- `salt = 0`, `rounds = 1` of the crypt(3) generalisation is textbook FIPS 46-3 DES -/
theorem desCryptCore_plain (key block : Nat) : desCryptCore key block 0 1 = desEncrypt key block := by
  have hr : roundSalted 0 = round := by
    funext lr k; simp [roundSalted, round, feistelSalted_zero]
  simp only [desCryptCore, desEncrypt, passes, pass16, hr]

/-- with default `salt=0, rounds=1`, `des_encrypt_int_block(key, input)` is FIPS 46-3 DES -/
theorem des_model_eq_fips (key input : Nat) (hk : key < 2^64) (hi : input < 2^64) :
    desEncryptIntBlock key input = .ok (desEncrypt key input) := by
  rw [← desCryptCore_plain]
  exact des_model_eq_spec key input 0 1 hk hi (by decide) (by decide)

/-- the guards: exactly the out-of-range argument tuples raise -/
theorem des_model_error_iff (key input salt rounds : Nat) :
    (∃ e, desEncryptIntBlock key input salt rounds = .error e) ↔
      (rounds < 1 ∨ salt ≥ 2^24 ∨ key ≥ 2^64 ∨ input ≥ 2^64) := by
  unfold desEncryptIntBlock
  simp only [Gen.Des.INT_24_MASK, Gen.Des.INT_64_MASK]
  by_cases h1 : rounds < 1
  · simp only [h1, if_true]; exact ⟨fun _ => Or.inl trivial, fun _ => ⟨_, rfl⟩⟩
  · by_cases h2 : salt > 0xFFFFFF
    · simp only [h1, h2, if_true, if_false]
      exact ⟨fun _ => by omega, fun _ => ⟨_, rfl⟩⟩
    · by_cases h3 : key > 0xFFFFFFFFFFFFFFFF
      · simp only [h1, h2, h3, if_true, if_false]
        exact ⟨fun _ => by omega, fun _ => ⟨_, rfl⟩⟩
      · by_cases h4 : input > 0xFFFFFFFFFFFFFFFF
        · simp only [h1, h2, h3, h4, if_true, if_false]
          exact ⟨fun _ => by omega, fun _ => ⟨_, rfl⟩⟩
        · simp only [h1, h2, h3, h4, if_false]
          constructor
          · intro ⟨e, he⟩; cases he
          · intro h; rcases h with h | h | h | h
            · exact h.elim
            all_goals (simp only [Nat.reducePow] at h; omega)

/-! ## bytes level: `des_encrypt_block` -/

theorem unpack64_lt (bs : List Nat) (hl : bs.length = 8) (hb : ∀ b ∈ bs, b < 256) : unpack64 bs < 2^64 := by
  have := unpack_foldl_lt bs 0 hb
  rw [hl] at this
  exact this

/-- 8-byte key branch: big-endian unpack, salted DES, big-endian pack -/
theorem desEncryptBlock_key8 (key input : List Nat) (salt rounds : Nat)
    (hk : key.length = 8) (hi : input.length = 8)
    (hkb : ∀ b ∈ key, b < 256) (hib : ∀ b ∈ input, b < 256) (hs : salt < 2^24) (hr : 1 ≤ rounds) :
    desEncryptBlock key input salt rounds =
      .ok (pack64 (desCryptCore (unpack64 key) (unpack64 input) salt rounds)) := by
  have h7 : ¬ key.length = 7 := by omega
  simp only [desEncryptBlock, hk, hi, bind, Except.bind, ne_eq, not_true_eq_false, if_false,
    Nat.reduceEqDiff,
    des_model_eq_spec _ _ salt rounds (unpack64_lt key hk hkb) (unpack64_lt input hi hib) hs hr]

/-- 7-byte key branch: the key is first widened by `expand_des_key` -/
theorem desEncryptBlock_key7 (key input : List Nat) (salt rounds : Nat)
    (hk : key.length = 7) (hi : input.length = 8)
    (hib : ∀ b ∈ input, b < 256) (hs : salt < 2^24) (hr : 1 ≤ rounds) :
    desEncryptBlock key input salt rounds =
      .ok (pack64 (desCryptCore (unpack64 (expandBytesOf (unpack56 key))) (unpack64 input) salt rounds)) := by
  have hl : (expandBytesOf (unpack56 key)).length = 8 := by simp [expandBytesOf, Gen.Des._EXPAND_ITER]
  have hx : expandDesKeyBytes key = .ok (expandBytesOf (unpack56 key)) := by
    simp only [expandDesKeyBytes, hk, ne_eq, not_true_eq_false, if_false, expandBytesOf]
  simp only [desEncryptBlock, hk, hi, hx, bind, Except.bind, ne_eq, not_true_eq_false, if_false, if_true,
    des_model_eq_spec _ _ salt rounds (unpack64_lt _ hl (expandBytesOf_lt _)) (unpack64_lt input hi hib) hs hr]


/-- FIPS sanity vector (guards the specification against vacuity) -/
theorem fips_test_vector : desEncrypt 0x133457799BBCDFF1 0x0123456789ABCDEF = 0x85E813540F0AB405 := by
  decide +kernel

#print axioms place_eq_perm
#print axioms B_eq
#print axioms speXor_place
#print axioms halfStep_eq
#print axioms mainLoop_eq
#print axioms desCore_eq_spec
#print axioms des_model_eq_spec
#print axioms desCryptCore_plain
#print axioms des_model_eq_fips
#print axioms des_model_error_iff
#print axioms desEncryptBlock_key8
#print axioms desEncryptBlock_key7
#print axioms fips_test_vector
end Lemmas.DesEquiv
