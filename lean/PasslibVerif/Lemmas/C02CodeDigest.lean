import PasslibVerif.Model.Code.Digest
import PasslibVerif.Lemmas.C02CodeDesLm
import PasslibVerif.Lemmas.C01StaticEnc
import PasslibVerif.Lemmas.C01PbkdfBase
import PasslibVerif.Lemmas.FormatsPbkdfCodec
/-
Lemmas for Props/C02CodeDigest.lean: the external encoders the digest routines call (`hexdigest`, `b64encode`, `ab64_encode`,
`.upper()`, `.rstrip()`, `.decode("ascii")`) against the `Spec.Formats.Enc` functions, and the step lemmas of `encodeSecret`,
`to_bytes`, `pbkdf2_hmac`.
-/
namespace Lemmas.C02CodeDigest
open Py Model.Code.Digest
open Model.Verify (Secret)
open Model.Code.Des (encodeSecret hexlify asciiUpper decodeAscii encodeAscii bytesUpper)
open Lemmas.C02CodeDes (hexlify_eq asciiUpper_hexlify hexlify_ascii hexLower_ascii)
open Lemmas.PbkdfLen (HashOK)
open Lemmas.C01Pbkdf (AlgOK pbkdf2_shape)

/-! ### secrets -/

theorem encodeSecret_bytes (b : Bytes) : encodeSecret (.bytes b) = .ok b := rfl

theorem encodeSecret_text (cps b : List Nat) (h : Model.Verify.utf8 cps = some b) : encodeSecret (.text cps) = .ok b := by
  simp only [encodeSecret, Secret.toBytes, h]

theorem encodeSecret_bad (cps : List Nat) (h : Model.Verify.utf8 cps = none) : encodeSecret (.text cps) = .error .valueError := by
  simp only [encodeSecret, Secret.toBytes, h]

theorem toBytes_text (cps b : List Nat) (h : Model.Verify.utf8 cps = some b) : Secret.toBytes (.text cps) = .ok b := by
  simp only [Secret.toBytes, h]

/-- UTF-8 of ASCII text is the text -/
theorem utf8_ascii : ∀ (s : List Nat), (∀ c ∈ s, c < 128) → Model.Verify.utf8 s = some s
  | [], _ => rfl
  | c :: rest, h => by
    have hc : c < 128 := h c (by simp)
    have ih := utf8_ascii rest (fun x hx => h x (List.mem_cons_of_mem _ hx))
    simp only [Model.Verify.utf8, Model.Verify.utf8Cp, show c < 0x80 from hc, if_true, Option.bind_some, ih, Option.map_some,
      List.singleton_append]

theorem encodeAscii_ok (s : List Nat) (h : ∀ c ∈ s, c < 128) : encodeAscii s = .ok s := by
  unfold encodeAscii
  have : s.all (· < 128) = true := by simpa using h
  simp only [this, if_true]

theorem decodeAscii_ok (s : List Nat) (h : ∀ c ∈ s, c < 128) : decodeAscii s = .ok s := by
  unfold decodeAscii
  have : s.all (· < 128) = true := by simpa using h
  simp only [this, if_true]

/-! ### hex -/

theorem hexdigest_eq (H : Bytes → Bytes) (n : Nat) (hH : HashOK H n) (d : Bytes) : hexdigest H d = Spec.Formats.hexLower (H d) :=
  hexlify_eq _ (hH d).2

theorem hexdigest_upper (H : Bytes → Bytes) (n : Nat) (hH : HashOK H n) (d : Bytes) :
    asciiUpper (hexdigest H d) = Spec.Formats.hexUpper (H d) := asciiUpper_hexlify _ (hH d).2

theorem hexLower_lt (b : Bytes) : ∀ c ∈ Spec.Formats.hexLower b, c < 128 := by
  have := hexLower_ascii b
  simpa using this

theorem hexlify_decode (b : Bytes) (h : Bytes.WF b) : decodeAscii (hexlify b) = .ok (Spec.Formats.hexLower b) := by
  rw [hexlify_eq b h]; exact decodeAscii_ok _ (hexLower_lt b)

/-- `bytes.upper()` and `str.upper()` agree on hexlify output -/
theorem bytesUpper_eq_asciiUpper (s : List Nat) : bytesUpper s = asciiUpper s := rfl

theorem hexUpper_lt (b : Bytes) : ∀ c ∈ Spec.Formats.hexUpper b, c < 128 := by
  intro c hc
  simp only [Spec.Formats.hexUpper, List.mem_flatMap, List.mem_cons, List.not_mem_nil, or_false] at hc
  obtain ⟨x, _, h⟩ := hc
  have h1 : x / 16 % 16 < 16 := Nat.mod_lt _ (by decide)
  have h2 : x % 16 < 16 := Nat.mod_lt _ (by decide)
  rcases h with rfl | rfl <;> (unfold Spec.Formats.hexDigitU; split <;> omega)

theorem md4_ok : HashOK Spec.MD4.md4 16 := fun x => ⟨Lemmas.C01StaticEnc.md4_length x, Lemmas.C01StaticEnc.md4_bytes x⟩

/-! ### base64 -/

theorem base64_lt (d : Bytes) : ∀ c ∈ Spec.Rfc4648.base64 d, c < 128 := fun c hc =>
  (Lemmas.FormatsPbkdf.std_chars c (Lemmas.FormatsPbkdf.mem_base64 d c hc)).1

theorem base64NoPad_lt (d : Bytes) : ∀ c ∈ Spec.Rfc4648.base64NoPad d, c < 128 := fun c hc =>
  (Lemmas.FormatsPbkdf.std_chars c (List.mem_append_left _ (Lemmas.FormatsPbkdf.mem_base64NoPad d c hc))).1

theorem b64encode_decode (d : Bytes) : decodeAscii (b64encode d) = .ok (Spec.Formats.b64 d) :=
  decodeAscii_ok _ (base64_lt d)

theorem ab64Encode_eq (d : Bytes) : Model.B64.ab64Encode d = Spec.Formats.ab64 d := rfl

theorem ab64_lt (d : Bytes) : ∀ c ∈ Spec.Formats.ab64 d, c < 128 := by
  intro c hc
  simp only [Spec.Formats.ab64, Spec.Formats.b64NoPad, List.mem_map] at hc
  obtain ⟨x, hx, rfl⟩ := hc
  have := base64NoPad_lt d x hx
  split <;> omega

theorem ab64Field_eq (d : Bytes) : ab64Field d = .ok (Spec.Formats.ab64 d) := by
  unfold ab64Field; rw [ab64Encode_eq]; exact decodeAscii_ok _ (ab64_lt d)

theorem b64encodeAlt_eq (d : Bytes) : b64encodeAlt d = Spec.Formats.b64url d := rfl

theorem b64url_lt (d : Bytes) : ∀ c ∈ Spec.Formats.b64url d, c < 128 := by
  intro c hc
  simp only [Spec.Formats.b64url, Spec.Formats.b64, List.mem_map] at hc
  obtain ⟨x, hx, rfl⟩ := hc
  have := base64_lt d x hx
  split
  · omega
  · split <;> omega

theorem ctaField_eq (d : Bytes) : ctaField d = .ok (Spec.Formats.b64url d) := by
  unfold ctaField; rw [b64encodeAlt_eq]; exact decodeAscii_ok _ (b64url_lt d)

/-- no base64 character is ASCII whitespace: `.rstrip()` does nothing -/
theorem rstripWs_id (l : List Nat) (h : ∀ c ∈ l, ¬ (c = 32 ∨ (9 ≤ c ∧ c ≤ 13))) : rstripWs l = l := by
  unfold rstripWs
  have hr : ∀ c ∈ l.reverse, ¬ (c = 32 ∨ (9 ≤ c ∧ c ≤ 13)) := fun c hc => h c (List.mem_reverse.1 hc)
  generalize hrev : l.reverse = r at hr
  have hl : l = r.reverse := by rw [← hrev, List.reverse_reverse]
  subst hl
  cases r with
  | nil => rfl
  | cons a t =>
    have ha := hr a (by simp)
    simp only [List.dropWhile_cons, ha, decide_false, Bool.false_eq_true, if_false]

theorem base64_not_ws (d : Bytes) : ∀ c ∈ Spec.Rfc4648.base64 d, ¬ (c = 32 ∨ (9 ≤ c ∧ c ≤ 13)) := by
  have key : ∀ c ∈ Spec.Rfc4648.stdAlphabet ++ [61], ¬ (c = 32 ∨ (9 ≤ c ∧ c ≤ 13)) := by decide
  exact fun c hc => key c (Lemmas.FormatsPbkdf.mem_base64 d c hc)

/-! ### `pbkdf2_hmac` -/

theorem hashlibPbkdf2_ok (a : Spec.Formats.HashAlg) (secret salt : Bytes) (rounds k : Nat) (hr : 1 ≤ rounds) (hr' : rounds ≤ 0x7FFFFFFF)
    (hk : 1 ≤ k) : hashlibPbkdf2 a secret salt rounds (some k) = .ok (Spec.Formats.pbkdf2 a secret salt rounds k) := by
  unfold hashlibPbkdf2
  rw [if_neg (by omega), if_neg (by omega)]
  simp only [Option.getD_some]
  rw [if_neg (by omega)]

theorem hashlibPbkdf2_default (a : Spec.Formats.HashAlg) (secret salt : Bytes) (rounds : Nat) (hr : 1 ≤ rounds)
    (hr' : rounds ≤ 0x7FFFFFFF) (hk : 1 ≤ a.hLen) :
    hashlibPbkdf2 a secret salt rounds none = .ok (Spec.Formats.pbkdf2 a secret salt rounds a.hLen) := by
  unfold hashlibPbkdf2
  rw [if_neg (by omega), if_neg (by omega)]
  simp only [Option.getD_none]
  rw [if_neg (by omega)]

theorem hashlibPbkdf2_zero (a : Spec.Formats.HashAlg) (secret salt : Bytes) (k : Option Nat) :
    hashlibPbkdf2 a secret salt 0 k = .error .valueError := by
  unfold hashlibPbkdf2; rfl

end Lemmas.C02CodeDigest
