import PasslibVerif.Lemmas.C01PbkdfEx1
/-
C01 for the PBKDF family — real hashes evaluated inside the kernel, part 3: django_pbkdf2_sha1 / _sha256, cta_pbkdf2_sha1.
-/
namespace Lemmas.C01Pbkdf.Real
open Py Model.Handler Model.Formats Model.Verify Model.VerifyFmt.Pbkdf

set_option maxRecDepth 100000

theorem django_pbkdf2_sha1 : hashSecret django_pbkdf2_sha1Hasher PW (mc3Settings DJANGO_PBKDF2_SHA1_IDENT (ofString "RaKOYRTUzHPz") 1) =
    .ok (ofString "pbkdf2_sha1$1$RaKOYRTUzHPz$9+DWTxOiBQ7OHf8wHCCnu8+dxxY=") := by decide +kernel

theorem django_pbkdf2_sha256 : hashSecret django_pbkdf2_sha256Hasher PW (mc3Settings DJANGO_PBKDF2_SHA256_IDENT (ofString "A86S0gQzxlcQ") 1) =
    .ok (ofString "pbkdf2_sha256$1$A86S0gQzxlcQ$QKUFhD0TVwYwExH4CXF/2V+D/cgQxRpM5PPs2hS7s6k=") := by decide +kernel

theorem cta_pbkdf2_sha1 : hashSecret ctaHasher PW (mc3Settings P5K2_IDENT S16 1) =
    .ok (ofString "$p5k2$1$MDEyMzQ1Njc4OWFiY2RlZg==$6TwxOhjZZSKPsEY7DdOXPh-O0ys=") := by decide +kernel

end Lemmas.C01Pbkdf.Real
