import PasslibVerif.Spec.Pbkdf
import PasslibVerif.Py.Basic
/-
PBKDF2 (RFC 8018 §5.2 transcription `Spec.Pbkdf.pbkdf2`) returns exactly `keylen` octets, each below 256 — for EVERY password, salt,
iteration count and key length, given only that the underlying hash returns `hLen > 0` octets.  Used wherever a format's checksum is
an encoding of a PBKDF2 key (pbkdf2_*, scram, grub, django, libpass' PBKDF2 hashers).
-/
namespace Lemmas.PbkdfLen
open Py Spec.Pbkdf

/-- what is needed of the hash: fixed output length, octets -/
def HashOK (H : List Nat → List Nat) (hLen : Nat) : Prop := ∀ x, (H x).length = hLen ∧ Bytes.WF (H x)

theorem xor_lt_256 (a b : Nat) (ha : a < 256) (hb : b < 256) : a ^^^ b < 256 :=
  Nat.xor_lt_two_pow (n := 8) ha hb

theorem xorBytes_length (a b : List Nat) (h : a.length = b.length) : (xorBytes a b).length = a.length := by
  unfold xorBytes
  rw [List.length_zipWith, h, Nat.min_self]

theorem xorBytes_wf (a b : List Nat) (ha : Bytes.WF a) (hb : Bytes.WF b) : Bytes.WF (xorBytes a b) := by
  unfold xorBytes
  induction a generalizing b with
  | nil => intro x hx; simp at hx
  | cons x xs ih =>
    cases b with
    | nil => intro y hy; simp at hy
    | cons y ys =>
      intro z hz
      simp only [List.zipWith_cons_cons, List.mem_cons] at hz
      rcases hz with rfl | hz
      · exact xor_lt_256 _ _ (ha x (by simp)) (hb y (by simp))
      · exact ih ys (fun b hb' => ha b (by simp [hb'])) (fun b hb' => hb b (by simp [hb'])) z hz

theorem fLoop_props (prf : List Nat → List Nat) (n : Nat) (hp : ∀ x, (prf x).length = n ∧ Bytes.WF (prf x)) :
    ∀ (k : Nat) (U T : List Nat), T.length = n → Bytes.WF T → (fLoop prf k U T).length = n ∧ Bytes.WF (fLoop prf k U T) := by
  intro k
  induction k with
  | zero => intro U T hl hw; exact ⟨hl, hw⟩
  | succ k ih =>
    intro U T hl hw
    simp only [fLoop]
    apply ih
    · rw [xorBytes_length _ _ (by rw [hl, (hp U).1]), hl]
    · exact xorBytes_wf _ _ hw (hp U).2

theorem F_props (prf : List Nat → List Nat) (n : Nat) (hp : ∀ x, (prf x).length = n ∧ Bytes.WF (prf x)) (salt : List Nat) (c i : Nat) :
    (F prf salt c i).length = n ∧ Bytes.WF (F prf salt c i) := by
  unfold F
  exact fLoop_props prf n hp _ _ _ (hp _).1 (hp _).2

theorem hmac_props (H : List Nat → List Nat) (B hLen : Nat) (hH : HashOK H hLen) (key msg : List Nat) :
    (Spec.Hmac.hmac H B key msg).length = hLen ∧ Bytes.WF (Spec.Hmac.hmac H B key msg) := by
  unfold Spec.Hmac.hmac
  exact hH _

theorem flatMap_length_const {α} (f : α → List Nat) (n : Nat) (hf : ∀ a, (f a).length = n) (l : List α) :
    (l.flatMap f).length = n * l.length := by
  induction l with
  | nil => rfl
  | cons a l ih => rw [List.flatMap_cons, List.length_append, ih, hf a, List.length_cons, Nat.mul_succ, Nat.add_comm]

/-- PBKDF2 returns exactly `keylen` octets -/
theorem pbkdf2_props (H : List Nat → List Nat) (B hLen : Nat) (hH : HashOK H hLen) (h0 : 0 < hLen)
    (pwd salt : List Nat) (rounds keylen : Nat) :
    (pbkdf2 H B hLen pwd salt rounds keylen).length = keylen ∧ Bytes.WF (pbkdf2 H B hLen pwd salt rounds keylen) := by
  unfold pbkdf2
  simp only []
  have hp := fun x => hmac_props H B hLen hH pwd x
  have hF := fun i => F_props (Spec.Hmac.hmac H B pwd) hLen hp salt rounds i
  refine ⟨?_, ?_⟩
  · rw [List.length_take, flatMap_length_const _ hLen (fun i => (hF i).1), List.length_range']
    apply Nat.min_eq_left
    have h1 : keylen ≤ hLen * ((keylen + hLen - 1) / hLen) := by
      have := Nat.div_add_mod (keylen + hLen - 1) hLen
      have hm : (keylen + hLen - 1) % hLen < hLen := Nat.mod_lt _ h0
      omega
    exact h1
  · intro b hb
    have hb := List.mem_of_mem_take hb
    rw [List.mem_flatMap] at hb
    obtain ⟨i, _, hb⟩ := hb
    exact (hF i).2 b hb

end Lemmas.PbkdfLen
