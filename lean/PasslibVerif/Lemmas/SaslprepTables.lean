import PasslibVerif.Model.Saslprep
/-
Facts about the reflected `stringprep` tables (`Gen.Saslprep`): generic sound Boolean checks on range lists, and their
evaluation on the generated data inside the kernel (`decide +kernel`).
-/
namespace Lemmas.Saslprep
open Model.Saslprep

/-! ### range lists: meaning and sound checks -/

theorem inTable_iff (t : Table) (c : Nat) : inTable t c = true ↔ ∃ r ∈ t, r.1 ≤ c ∧ c ≤ r.2 := by
  induction t with
  | nil => simp [inTable]
  | cons r rest ih =>
    obtain ⟨lo, hi⟩ := r
    simp [inTable, ih]

theorem member_eq_inTable (t : Table) (c : Nat) : Spec.Saslprep.member t c = inTable t c := by
  induction t with
  | nil => simp [Spec.Saslprep.member, inTable]
  | cons r rest ih =>
    obtain ⟨lo, hi⟩ := r
    simp only [Spec.Saslprep.member, List.any_cons, inTable] at ih ⊢
    rw [ih]

theorem inTable_append (t u : Table) (c : Nat) : inTable (t ++ u) c = (inTable t c || inTable u c) := by
  induction t with
  | nil => simp [inTable]
  | cons r rest ih =>
    obtain ⟨lo, hi⟩ := r
    simp [inTable, ih, Bool.or_assoc]

/-- no range of the table meets [lo, hi] -/
def rangesAvoid (t : Table) (lo hi : Nat) : Bool := t.all fun r => decide (r.2 < lo) || decide (hi < r.1)

theorem inTable_false_of_avoid {t : Table} {lo hi : Nat} (h : rangesAvoid t lo hi = true) {c : Nat}
    (h1 : lo ≤ c) (h2 : c ≤ hi) : inTable t c = false := by
  cases hc : inTable t c with
  | false => rfl
  | true =>
    obtain ⟨r, hr, ha, hb⟩ := (inTable_iff t c).1 hc
    have := (List.all_eq_true.1 h) r hr
    simp at this
    omega

/-- no range of `t` meets a range of `u` -/
def disjointT (t u : Table) : Bool := t.all fun r => u.all fun q => decide (r.2 < q.1) || decide (q.2 < r.1)

theorem disjoint_sound {t u : Table} (h : disjointT t u = true) (c : Nat) :
    ¬ (inTable t c = true ∧ inTable u c = true) := by
  rintro ⟨h1, h2⟩
  obtain ⟨r, hr, ra, rb⟩ := (inTable_iff t c).1 h1
  obtain ⟨q, hq, qa, qb⟩ := (inTable_iff u c).1 h2
  have := List.all_eq_true.1 (List.all_eq_true.1 h r hr) q hq
  simp at this
  omega

/-- canonical form: every range non-empty, strictly increasing, and not even adjacent (ranges are maximal) -/
def sortedT : Table → Bool
  | [] => true
  | [(lo, hi)] => decide (lo ≤ hi)
  | (lo, hi) :: (lo2, hi2) :: rest => decide (lo ≤ hi) && decide (hi + 1 < lo2) && sortedT ((lo2, hi2) :: rest)

/-- all ranges lie inside the code space -/
def boundedT (t : Table) : Bool := t.all fun r => decide (r.2 ≤ 0x10FFFF)

theorem sortedT_tail {r : Nat × Nat} {rest : Table} (h : sortedT (r :: rest) = true) : sortedT rest = true := by
  obtain ⟨lo, hi⟩ := r
  cases rest with
  | nil => rfl
  | cons q rest' =>
    obtain ⟨lo2, hi2⟩ := q
    simp [sortedT] at h
    exact h.2

theorem sortedT_head_lt {lo hi : Nat} {rest : Table} (h : sortedT ((lo, hi) :: rest) = true) :
    lo ≤ hi ∧ ∀ q ∈ rest, hi + 1 < q.1 ∧ q.1 ≤ q.2 := by
  induction rest generalizing lo hi with
  | nil => simp [sortedT] at h; simp [h]
  | cons q rest' ih =>
    obtain ⟨lo2, hi2⟩ := q
    simp [sortedT] at h
    obtain ⟨⟨h1, h2⟩, h3⟩ := h
    obtain ⟨h4, h5⟩ := ih h3
    refine ⟨h1, ?_⟩
    intro q hq
    rcases List.mem_cons.1 hq with rfl | hq
    · exact ⟨h2, h4⟩
    · have := h5 q hq
      exact ⟨by omega, this.2⟩

/-- in a table in canonical form a code point lies in at most one range -/
theorem sorted_unique {t : Table} (h : sortedT t = true) {c : Nat} {r q : Nat × Nat} (hr : r ∈ t) (hq : q ∈ t)
    (rc : r.1 ≤ c ∧ c ≤ r.2) (qc : q.1 ≤ c ∧ c ≤ q.2) : r = q := by
  induction t with
  | nil => cases hr
  | cons x rest ih =>
    obtain ⟨lo, hi⟩ := x
    have hh := sortedT_head_lt h
    rcases List.mem_cons.1 hr with rfl | hr' <;> rcases List.mem_cons.1 hq with rfl | hq'
    · rfl
    · have := hh.2 q hq'; simp at rc; omega
    · have := hh.2 r hr'; simp at qc; omega
    · exact ih (sortedT_tail h) hr' hq'

/-! ### the names the source uses resolve to the reflected tables -/

theorem tableOf_drop : tableOf Gen.Saslprep.mapDropTable = Gen.Saslprep.b1 := rfl
theorem tableOf_space : tableOf Gen.Saslprep.mapSpaceTable = Gen.Saslprep.c12 := rfl
theorem tableOf_ral : tableOf Gen.Saslprep.ralTable = Gen.Saslprep.d1 := rfl
theorem tableOf_ralBranch : tableOf Gen.Saslprep.ralBranchForbidden = Gen.Saslprep.d2 := rfl
theorem tableOf_nonRalBranch : tableOf Gen.Saslprep.nonRalBranchForbidden = Gen.Saslprep.d1 := rfl
theorem assertTables_eq : assertTables = [Gen.Saslprep.b1, Gen.Saslprep.c12] := rfl
theorem forbiddenTables_eq (bidi : Table) : forbiddenTables bidi =
    [Gen.Saslprep.a1, Gen.Saslprep.c21_c22, Gen.Saslprep.c3, Gen.Saslprep.c4, Gen.Saslprep.c4, Gen.Saslprep.c4,
     Gen.Saslprep.c5, Gen.Saslprep.c6, Gen.Saslprep.c7, Gen.Saslprep.c8, Gen.Saslprep.c9, bidi] := rfl
theorem replacement_eq : Gen.Saslprep.mapReplacement = [0x20] := rfl
theorem emptyResult_eq : Gen.Saslprep.emptyResult = [] := rfl
theorem forbiddenRaises_eq : errOf Gen.Saslprep.forbiddenRaises = .valueError := rfl
theorem malformedRaises_eq : errOf Gen.Saslprep.bidiMalformedRaises = .valueError := rfl
theorem firstIdx_eq : Gen.Saslprep.bidiFirstIdx = 0 := rfl
theorem lastIdx_eq : Gen.Saslprep.bidiLastIdx = -1 := rfl
theorem normalForm_eq : Gen.Saslprep.normalForm = "NFKC" := rfl

/-! ### the small tables are exactly the lists printed in RFC 3454 -/

theorem b1_eq_rfc : Gen.Saslprep.b1 =
    [(0x00AD, 0x00AD), (0x034F, 0x034F), (0x1806, 0x1806), (0x180B, 0x180D), (0x200B, 0x200D), (0x2060, 0x2060),
     (0xFE00, 0xFE0F), (0xFEFF, 0xFEFF)] := by decide +kernel
theorem c12_eq_rfc : Gen.Saslprep.c12 =
    [(0x00A0, 0x00A0), (0x1680, 0x1680), (0x2000, 0x200B), (0x202F, 0x202F), (0x205F, 0x205F), (0x3000, 0x3000)] := by
  decide +kernel
/-- C.2.1 = 0000-001F, 007F;  C.2.2 = 0080-009F, 06DD, 070F, 180E, 200C, 200D, 2028, 2029, 2060-2063, 206A-206F, FEFF, FFF9-FFFC,
    1D173-1D17A — as maximal ranges of the union -/
theorem c21_c22_eq_rfc : Gen.Saslprep.c21_c22 =
    [(0x0000, 0x001F), (0x007F, 0x009F), (0x06DD, 0x06DD), (0x070F, 0x070F), (0x180E, 0x180E), (0x200C, 0x200D),
     (0x2028, 0x2029), (0x2060, 0x2063), (0x206A, 0x206F), (0xFEFF, 0xFEFF), (0xFFF9, 0xFFFC), (0x1D173, 0x1D17A)] := by
  decide +kernel
theorem c3_eq_rfc : Gen.Saslprep.c3 = [(0xE000, 0xF8FF), (0xF0000, 0xFFFFD), (0x100000, 0x10FFFD)] := by decide +kernel
theorem c4_eq_rfc : Gen.Saslprep.c4 =
    (0xFDD0, 0xFDEF) :: (List.range 17).map fun p => (p * 0x10000 + 0xFFFE, p * 0x10000 + 0xFFFF) := by decide +kernel
theorem c5_eq_rfc : Gen.Saslprep.c5 = [(0xD800, 0xDFFF)] := by decide +kernel
theorem c6_eq_rfc : Gen.Saslprep.c6 = [(0xFFF9, 0xFFFD)] := by decide +kernel
theorem c7_eq_rfc : Gen.Saslprep.c7 = [(0x2FF0, 0x2FFB)] := by decide +kernel
theorem c8_eq_rfc : Gen.Saslprep.c8 = [(0x0340, 0x0341), (0x200E, 0x200F), (0x202A, 0x202E), (0x206A, 0x206F)] := by
  decide +kernel
theorem c9_eq_rfc : Gen.Saslprep.c9 = [(0xE0001, 0xE0001), (0xE0020, 0xE007F)] := by decide +kernel

/-! ### whole-table facts, evaluated in the kernel -/

theorem all_sorted :
    sortedT Gen.Saslprep.a1 = true ∧ sortedT Gen.Saslprep.b1 = true ∧ sortedT Gen.Saslprep.c12 = true ∧
    sortedT Gen.Saslprep.c21_c22 = true ∧ sortedT Gen.Saslprep.c3 = true ∧ sortedT Gen.Saslprep.c4 = true ∧
    sortedT Gen.Saslprep.c5 = true ∧ sortedT Gen.Saslprep.c6 = true ∧ sortedT Gen.Saslprep.c7 = true ∧
    sortedT Gen.Saslprep.c8 = true ∧ sortedT Gen.Saslprep.c9 = true ∧ sortedT Gen.Saslprep.d1 = true ∧
    sortedT Gen.Saslprep.d2 = true := by decide +kernel

theorem all_bounded : (Gen.Saslprep.tables.all fun p => boundedT p.2) = true := by decide +kernel

theorem d1_d2_disjoint : disjointT Gen.Saslprep.d1 Gen.Saslprep.d2 = true := by decide +kernel

/-- printable ASCII 0x20..0x7E meets none of the tables the function consults except D.2 -/
theorem ascii_avoid :
    ([Gen.Saslprep.a1, Gen.Saslprep.b1, Gen.Saslprep.c12, Gen.Saslprep.c21_c22, Gen.Saslprep.c3, Gen.Saslprep.c4,
      Gen.Saslprep.c5, Gen.Saslprep.c6, Gen.Saslprep.c7, Gen.Saslprep.c8, Gen.Saslprep.c9, Gen.Saslprep.d1].all
        fun t => rangesAvoid t 0x20 0x7E) = true := by decide +kernel

theorem space_not_b1 : inTable Gen.Saslprep.b1 0x20 = false := by decide +kernel
theorem space_not_c12 : inTable Gen.Saslprep.c12 0x20 = false := by decide +kernel

/-- B.1 ∩ C.1.2 = {U+200B} -/
theorem b1_c12_inter (c : Nat) :
    (inTable Gen.Saslprep.b1 c = true ∧ inTable Gen.Saslprep.c12 c = true) ↔ c = 0x200B := by
  rw [b1_eq_rfc, c12_eq_rfc]
  simp only [inTable, Bool.or_false, Bool.or_eq_true, Bool.and_eq_true, decide_eq_true_eq]
  omega

end Lemmas.Saslprep
