import PasslibVerif.Lemmas.B64
import PasslibVerif.Lemmas.Digits
/- integer codecs of Base64Engine: `_decode_int ∘ _encode_int = id` for every width -/
namespace Lemmas.B64
open Py Gen.B64 Model.B64 Digits

theorem map_offsets_eq_toDigits (n v : Nat) :
    ((List.range n).map (· * 6)).map (fun off => (v >>> off) &&& 63) = toDigits 64 n v := by
  induction n generalizing v with
  | zero => rfl
  | succ n ih =>
    rw [List.range_succ_eq_map]
    simp only [List.map_cons, List.map_map, toDigits, Nat.zero_mul, Nat.shiftRight_zero, Bits.and63]
    congr 1
    rw [← ih (v / 64)]
    simp only [List.map_map]
    apply List.map_congr_left
    intro i _
    simp only [Function.comp, Nat.shiftRight_eq_div_pow, Bits.and63]
    have : 2 ^ ((i + 1) * 6) = 64 * 2 ^ (i * 6) := by
      rw [Nat.succ_mul, Nat.pow_add]; omega
    rw [this, Nat.div_div_eq_div_mul]

theorem foldDigits_eq (vs : List Nat) : foldDigits vs = vs.foldl (fun out d => out * 64 + d) 0 := by
  unfold foldDigits
  congr 1
  funext out d
  rw [Nat.shiftLeft_eq]

theorem pad_lt (bits : Nat) : (6 - bits % 6) % 6 < 6 := Nat.mod_lt _ (by decide)

theorem encodeInt_eq (e : Engine) (bits v : Nat) :
    encodeInt e v bits =
      (if e.big then (toDigits 64 ((bits + (6 - bits % 6) % 6) / 6) (v <<< ((6 - bits % 6) % 6))).reverse
       else toDigits 64 ((bits + (6 - bits % 6) % 6) / 6) v).map (encode64 e.charmap) := by
  unfold encodeInt encodeIntOffsets
  cases e.big
  · simp only [Bool.false_eq_true, if_false]
    rw [← map_offsets_eq_toDigits]; simp only [List.map_map, Function.comp_def]
  · simp only [if_true]
    rw [← map_offsets_eq_toDigits]; simp only [List.map_map, Function.comp_def, List.map_reverse]

theorem decodeAll_reverse_map (cm : List Nat) (ok : CharmapOK cm) (vs : List Nat) (h : ∀ v ∈ vs, v < 64) :
    decodeAll cm ((vs.map (encode64 cm)).reverse) = some vs.reverse := by
  rw [← List.map_reverse]
  exact decodeAll_map_encode cm ok vs.reverse (fun v hv => h v (List.mem_reverse.1 hv))

/-- `_decode_int(_encode_int(v, bits), bits) == v` for every engine, width and in-range value -/
theorem decodeInt_encodeInt (e : Engine) (ok : CharmapOK e.charmap) (bits v : Nat) (hv : v < 2 ^ bits) :
    decodeInt e (encodeInt e v bits) bits = .ok v := by
  rw [encodeInt_eq]
  unfold decodeInt
  generalize hp : (6 - bits % 6) % 6 = pad
  have hpad : pad < 6 := hp ▸ pad_lt bits
  have hdiv : (bits + pad) % 6 = 0 := by omega
  generalize hn : (bits + pad) / 6 = n
  have hbn : bits + pad = 6 * n := by omega
  have h64 : (64 : Nat) ^ n = 2 ^ (bits + pad) := by
    rw [hbn, Nat.pow_mul]
  have hvn : v < 64 ^ n := by
    rw [h64]; exact Nat.lt_of_lt_of_le hv (Nat.pow_le_pow_right (by decide) (by omega))
  have hvp : v <<< pad < 64 ^ n := by
    rw [h64, Nat.shiftLeft_eq, Nat.pow_add]
    exact Nat.mul_lt_mul_of_lt_of_le hv (Nat.le_refl _) (Nat.two_pow_pos pad)
  cases hb : e.big
  · simp only [hn, Bool.false_eq_true, if_false, List.length_map, toDigits_length, ne_eq, not_true_eq_false]
    rw [decodeAll_reverse_map e.charmap ok _ (toDigits_lt 64 (by decide) n v)]
    simp only [foldDigits_eq, foldl_reverse_eq_ofDigits, ofDigits_toDigits 64 (by decide) n v hvn]
    congr 1
    split
    · rfl
    · rw [Nat.and_two_pow_sub_one_eq_mod, Nat.mod_eq_of_lt hv]
  · simp only [hn, if_true, List.length_map, List.length_reverse, toDigits_length, ne_eq, not_true_eq_false]
    have := decodeAll_map_encode e.charmap ok (toDigits 64 n (v <<< pad)).reverse
      (fun x hx => toDigits_lt 64 (by decide) n _ x (List.mem_reverse.1 hx))
    simp only [this, if_false]
    simp only [foldDigits_eq, foldl_reverse_eq_ofDigits, ofDigits_toDigits 64 (by decide) n _ hvp]
    congr 1
    split
    · rename_i h0; rw [h0]; rfl
    · rw [Nat.shiftLeft_eq, Nat.shiftRight_eq_div_pow, Nat.mul_div_cancel _ (Nat.two_pow_pos pad)]

end Lemmas.B64
