import PasslibVerif.Lemmas.C01PbkdfBase
import PasslibVerif.Lemmas.FormatsPbkdfCodec
import PasslibVerif.Props.C01Crypt
/-
C01 for the PBKDF family, part 3: the handlers that store the checksum as text — sha1_crypt, dlitz_pbkdf2_sha1,
django_pbkdf2_sha1 / _sha256 (parse_mc3) and django_salted_md5 / _sha1 (parse_mc2): the Spec checksum has the format's length and
alphabet for every input, so the C07 round trip applies to whatever `hash` renders.
-/
namespace Lemmas.C01Pbkdf
open Py Model.Handler Model.Formats Model.Verify Model.VerifyFmt.Pbkdf Props.C01 Lemmas.PbkdfLen Lemmas.FormatsPbkdf Lemmas.Handler
open Lemmas.Formats (dollar_not_h64)

/-! ### shapes of the Spec checksums -/

/-- sha1_crypt: 28 characters of the hash64 alphabet -/
theorem sha1Crypt_shape (pwd salt : Bytes) (rounds : Nat) :
    allIn h64 (Spec.Formats.sha1Crypt pwd salt rounds) = true ∧ (Spec.Formats.sha1Crypt pwd salt rounds).length = 28 := by
  unfold Spec.Formats.sha1Crypt Spec.Formats.sha1CryptEncode
  simp only [List.flatMap_cons, List.flatMap_nil, List.append_nil, Props.C01Crypt.allIn_append, List.length_append,
    (Props.C01Crypt.b64From24_ok _ _ _ _).1, (Props.C01Crypt.b64From24_ok _ _ _ _).2, Bool.and_self]
  exact ⟨trivial, trivial⟩

theorem padded_eq : PADDED_BASE64_CHARS = Spec.Rfc4648.stdAlphabet ++ [61] := by decide

/-- RFC 4648 base64 with padding: the padded alphabet, 4·⌈n/3⌉ characters -/
theorem b64_shape (bs : Bytes) :
    allIn PADDED_BASE64_CHARS (Spec.Formats.b64 bs) = true ∧
      (Spec.Formats.b64 bs).length = (4 * bs.length + 2) / 3 + Spec.Rfc4648.padLen64 bs.length := by
  refine ⟨allIn_of_mem _ _ fun c hc => ?_, ?_⟩
  · rw [padded_eq]; exact mem_base64 bs c hc
  · unfold Spec.Formats.b64 Spec.Rfc4648.base64 Spec.Rfc4648.base64NoPad
    simp only [List.length_append, List.length_map, Lemmas.B64.groups64_length, List.length_replicate]

theorem dollar_not_padded : DOLLAR ∉ PADDED_BASE64_CHARS := by decide

theorem djangoPbkdf2_shape (a : Spec.Formats.HashAlg) (ha : AlgOK a) (pwd salt : Bytes) (rounds : Nat) :
    allIn PADDED_BASE64_CHARS (Spec.Formats.djangoPbkdf2 a pwd salt rounds) = true ∧
      (Spec.Formats.djangoPbkdf2 a pwd salt rounds).length = (4 * a.hLen + 2) / 3 + Spec.Rfc4648.padLen64 a.hLen := by
  have h := b64_shape (Spec.Formats.pbkdf2 a pwd salt rounds a.hLen)
  rw [(pbkdf2_shape a ha pwd salt rounds a.hLen).1] at h
  exact h

theorem hexDigitL_lower : ∀ k, k < 16 → Spec.Formats.hexDigitL k ∈ LOWER_HEX_CHARS := by decide

/-- lower-case hex: two characters of `0-9a-f` per octet -/
theorem hexLower_shape (bs : Bytes) :
    allIn LOWER_HEX_CHARS (Spec.Formats.hexLower bs) = true ∧ (Spec.Formats.hexLower bs).length = 2 * bs.length := by
  induction bs with
  | nil => exact ⟨rfl, rfl⟩
  | cons b rest ih =>
    have e : Spec.Formats.hexLower (b :: rest) =
        Spec.Formats.hexDigitL (b / 16 % 16) :: Spec.Formats.hexDigitL (b % 16) :: Spec.Formats.hexLower rest := by
      simp [Spec.Formats.hexLower]
    rw [e]
    refine ⟨?_, by simp only [List.length_cons, ih.2]; omega⟩
    have h1 := hexDigitL_lower (b / 16 % 16) (Nat.mod_lt _ (by decide))
    have h2 := hexDigitL_lower (b % 16) (Nat.mod_lt _ (by decide))
    have ih1 := ih.1
    simp only [allIn, List.all_cons, Bool.and_eq_true] at ih1 ⊢
    exact ⟨by simpa using h1, by simpa using h2, ih1⟩

theorem djangoSalted_shape (H : Bytes → Bytes) (n : Nat) (hH : HashOK H n) (pwd salt : Bytes) :
    allIn LOWER_HEX_CHARS (Spec.Formats.djangoSalted H pwd salt) = true ∧ (Spec.Formats.djangoSalted H pwd salt).length = 2 * n := by
  have h := hexLower_shape (H (salt ++ pwd))
  rw [(hH _).1] at h
  exact h

/-- dlitz: 32 characters of adapted base64 — never empty, never a `$` -/
theorem dlitz_shape (pwd salt : Bytes) (rounds : Nat) :
    Spec.Formats.dlitzPbkdf2Sha1 pwd salt rounds ≠ [] ∧ DOLLAR ∉ Spec.Formats.dlitzPbkdf2Sha1 pwd salt rounds ∧
      (Spec.Formats.dlitzPbkdf2Sha1 pwd salt rounds).length = 32 := by
  have hk := pbkdf2_shape Spec.Formats.algSha1 algSha1_ok pwd (Spec.Formats.dlitzSetting salt rounds) rounds 24
  have hne : Spec.Formats.pbkdf2 Spec.Formats.algSha1 pwd (Spec.Formats.dlitzSetting salt rounds) rounds 24 ≠ [] :=
    ne_nil_of_length _ 24 hk.1 (by decide)
  refine ⟨ab64_codec.nonEmpty _ hne, ?_, ?_⟩
  · intro hm
    exact (ab64_mem _ _ hm).2 rfl
  · show (Model.B64.ab64Encode _).length = 32
    unfold Model.B64.ab64Encode Model.B64.b64sEncode Spec.Rfc4648.base64NoPad
    simp only [List.length_map, Lemmas.B64.groups64_length, hk.1]

/-! ### well-formedness of what `hash` builds -/

/-- admissible settings of a text handler on parse_mc3 -/
structure TextSettingsOK (sc : List Nat) (mn : Nat) (mx : Option Nat) (salt : Str) (rounds : Nat) : Prop where
  saltChars : allIn sc salt = true
  saltMin : mn ≤ salt.length
  saltMax : ∀ m, mx = some m → salt.length ≤ m
  roundsLo : 1 ≤ rounds
  roundsHi : rounds ≤ 4294967295

theorem mc3Text_wf (ident : Str) (cs : Option Nat) (cc : Option (List Nat)) (sc : List Nat) (mn : Nat) (mx : Option Nat)
    (salt : Str) (rounds : Nat) (c : Str) (hs : TextSettingsOK sc mn mx salt rounds)
    (hc : c ≠ [] ∧ DOLLAR ∉ c ∧ SizeOK cs c ∧ CharsOK cc c) :
    Mc3TextWF ident cs cc sc mn mx { mc3Settings ident salt rounds with checksum := some c } :=
  ⟨rfl, ⟨rounds, rfl, hs.roundsLo, hs.roundsHi⟩, ⟨salt, rfl, hs.saltChars, hs.saltMin, hs.saltMax⟩, Or.inr ⟨c, rfl, hc⟩, rfl⟩

/-- `render_mc3` of settings + non-empty checksum -/
theorem mc3Text_render_string (hex : Bool) (ident salt : Str) (rounds : Nat) (c : Str) (hc : c ≠ []) :
    mc3TextRender hex { mc3Settings ident salt rounds with checksum := some c } =
      ident ++ (roundsStr hex (some (rounds : Int)) ++ DOLLAR :: (salt ++ DOLLAR :: c)) := by
  have hE : c.isEmpty = false := by
    cases c with
    | nil => exact absurd rfl hc
    | cons _ _ => rfl
  simp only [mc3TextRender, mc3Settings, renderMc3G, Option.getD_some, hE, Bool.false_eq_true, if_false]

/-! ### sha1_crypt -/
theorem sha1Crypt_chk (pwd salt : Bytes) (rounds : Nat) :
    Spec.Formats.sha1Crypt pwd salt rounds ≠ [] ∧ DOLLAR ∉ Spec.Formats.sha1Crypt pwd salt rounds ∧
      SizeOK (some 28) (Spec.Formats.sha1Crypt pwd salt rounds) ∧ CharsOK (some h64) (Spec.Formats.sha1Crypt pwd salt rounds) := by
  have h := sha1Crypt_shape pwd salt rounds
  exact ⟨ne_nil_of_length _ 28 h.2 (by decide), not_mem_of_all _ _ DOLLAR dollar_not_h64 h.1, h.2, h.1⟩

theorem sha1Crypt_roundtrips (salt : Str) (rounds : Nat) (hs : TextSettingsOK h64 0 (some 64) salt rounds) :
    RoundTrips sha1CryptHasher (mc3Settings SHA1C_IDENT salt rounds) := by
  intro b c hc
  simp only [sha1CryptHasher, Except.ok.injEq] at hc
  subst hc
  have hwf := mc3Text_wf SHA1C_IDENT (some 28) (some h64) h64 0 (some 64) salt rounds (Spec.Formats.sha1Crypt b salt rounds) hs
    (sha1Crypt_chk b salt rounds)
  have hpr := mc3Text_parse_render false SHA1C_IDENT none (some 28) (some h64) h64 0 (some 64) dollar_not_h64 _ hwf
  exact congrArg toRes hpr

/-! ### django_pbkdf2_sha1 / _sha256 -/
theorem djangoPbkdf2_chk (a : Spec.Formats.HashAlg) (ha : AlgOK a) (n : Nat)
    (hn : (4 * a.hLen + 2) / 3 + Spec.Rfc4648.padLen64 a.hLen = n) (hn0 : n ≠ 0) (pwd salt : Bytes) (rounds : Nat) :
    Spec.Formats.djangoPbkdf2 a pwd salt rounds ≠ [] ∧ DOLLAR ∉ Spec.Formats.djangoPbkdf2 a pwd salt rounds ∧
      SizeOK (some n) (Spec.Formats.djangoPbkdf2 a pwd salt rounds) ∧
      CharsOK (some PADDED_BASE64_CHARS) (Spec.Formats.djangoPbkdf2 a pwd salt rounds) := by
  have h := djangoPbkdf2_shape a ha pwd salt rounds
  rw [hn] at h
  exact ⟨ne_nil_of_length _ n h.2 hn0, not_mem_of_all _ _ DOLLAR dollar_not_padded h.1, h.2, h.1⟩

theorem djangoPbkdf2_roundtrips (a : Spec.Formats.HashAlg) (ha : AlgOK a) (ident : Str) (n : Nat)
    (hn : (4 * a.hLen + 2) / 3 + Spec.Rfc4648.padLen64 a.hLen = n) (hn0 : n ≠ 0) (salt : Str) (rounds : Nat)
    (hs : TextSettingsOK DJANGO_SALT_CHARS 1 none salt rounds) :
    RoundTrips (djangoPbkdf2Hasher a ident n) (mc3Settings ident salt rounds) := by
  intro b c hc
  simp only [djangoPbkdf2Hasher, Except.ok.injEq] at hc
  subst hc
  have hwf := mc3Text_wf ident (some n) (some PADDED_BASE64_CHARS) DJANGO_SALT_CHARS 1 none salt rounds
    (Spec.Formats.djangoPbkdf2 a b salt rounds) hs (djangoPbkdf2_chk a ha n hn hn0 b salt rounds)
  have hpr := mc3Text_parse_render false ident none (some n) (some PADDED_BASE64_CHARS) DJANGO_SALT_CHARS 1 none dollar_not_djsalt _ hwf
  exact congrArg toRes hpr

/-! ### dlitz_pbkdf2_sha1 -/
theorem dlitz_roundtrips (salt : Str) (rounds : Nat) (hs : TextSettingsOK h64 0 (some 1024) salt rounds) :
    RoundTrips dlitzHasher (mc3Settings P5K2_IDENT salt rounds) := by
  intro b c hc
  simp only [dlitzHasher, Except.ok.injEq] at hc
  subst hc
  have hsh := dlitz_shape b salt rounds
  have hwf := mc3Text_wf P5K2_IDENT none none h64 0 (some 1024) salt rounds (Spec.Formats.dlitzPbkdf2Sha1 b salt rounds) hs
    ⟨hsh.1, hsh.2.1, trivial, trivial⟩
  exact congrArg toRes (dlitz_parse_render _ hwf)

/-- `to_string` of dlitz settings + checksum: the rounds field is empty for 400, lower-case hex otherwise -/
theorem dlitz_render_string (salt : Str) (rounds : Nat) (c : Str) (hc : c ≠ []) :
    dlitzRender { mc3Settings P5K2_IDENT salt rounds with checksum := some c } =
      P5K2_IDENT ++ ((if rounds = 400 then [] else fmtHex (rounds : Int)) ++ DOLLAR :: (salt ++ DOLLAR :: c)) := by
  have hE : c.isEmpty = false := by
    cases c with
    | nil => exact absurd rfl hc
    | cons _ _ => rfl
  show renderMc3G DOLLAR true P5K2_IDENT (if some (rounds : Int) = some 400 then none else some (rounds : Int)) salt (some c) = _
  by_cases h4 : rounds = 400
  · have e : (some (rounds : Int) = some 400) := by rw [h4]; rfl
    rw [if_pos e, if_pos h4]
    unfold renderMc3G roundsStr
    simp only [hE]
    rfl
  · have e : ¬ (some (rounds : Int) = some 400) := by
      intro e
      simp only [Option.some.injEq] at e
      exact h4 (by omega)
    rw [if_neg e, if_neg h4]
    unfold renderMc3G roundsStr
    simp only [hE]
    rfl

/-! ### django_salted_md5 / _sha1 -/
theorem djSalted_wf (ident : Str) (n : Nat) (salt c : Str) (hs : allIn DJANGO_SALT_CHARS salt = true)
    (hc : allIn LOWER_HEX_CHARS c = true ∧ c.length = n) :
    DjSaltedWF ident n { djSaltedSettings ident salt with checksum := some c } :=
  ⟨rfl, rfl, ⟨salt, rfl, hs⟩, Or.inr ⟨c, rfl, hc⟩, rfl⟩

theorem djangoSalted_roundtrips (H : Bytes → Bytes) (d : Nat) (hH : HashOK H d) (ident : Str) (n : Nat) (hn : 2 * d = n) (hn0 : n ≠ 0)
    (salt : Str) (hs : allIn DJANGO_SALT_CHARS salt = true) :
    RoundTrips (djangoSaltedHasher H ident n) (djSaltedSettings ident salt) := by
  intro b c hc
  simp only [djangoSaltedHasher, Except.ok.injEq] at hc
  subst hc
  have hsh := djangoSalted_shape H d hH b salt
  rw [hn] at hsh
  exact congrArg toRes (djSalted_parse_render ident n hn0 _ (djSalted_wf ident n salt (Spec.Formats.djangoSalted H b salt) hs hsh))

theorem djSalted_render_string (ident salt c : Str) (hc : c ≠ []) :
    djSaltedRender { djSaltedSettings ident salt with checksum := some c } = ident ++ salt ++ DOLLAR :: c := by
  have hE : c.isEmpty = false := by
    cases c with
    | nil => exact absurd rfl hc
    | cons _ _ => rfl
  simp only [djSaltedRender, djSaltedSettings, renderMc2, Option.getD_some, hE, Bool.false_eq_true, if_false]

end Lemmas.C01Pbkdf
