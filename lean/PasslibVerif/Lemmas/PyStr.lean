import PasslibVerif.Py.Str
/-
Facts about the `str.lower()` / `str.upper()` model: on ASCII text they are the plain letter maps, and
`lower()` never produces A-Z / `upper()` never produces a-z (whole reflected tables, by kernel evaluation).
-/
namespace Lemmas.PyStr
open Py

def Ascii (s : List Nat) : Prop := ∀ c ∈ s, c < 128

theorem ascii_cons {c : Nat} {s : List Nat} (h : Ascii (c :: s)) : c < 128 ∧ Ascii s :=
  ⟨h c List.mem_cons_self, fun x hx => h x (List.mem_cons_of_mem _ hx)⟩

theorem ascii_append {a b : List Nat} (ha : Ascii a) (hb : Ascii b) : Ascii (a ++ b) := by
  intro c hc
  rcases List.mem_append.1 hc with h | h
  · exact ha c h
  · exact hb c h

theorem lowerAux_ascii : ∀ (rb s : List Nat), Ascii s → lowerAux rb s = s.map asciiLower
  | _, [], _ => rfl
  | rb, c :: rest, h => by
    obtain ⟨hc, hr⟩ := ascii_cons h
    have hs : c ≠ SIGMA := by unfold SIGMA; omega
    simp only [lowerAux, hs, if_false, lowerCp, hc, if_true, List.map_cons, List.singleton_append,
      lowerAux_ascii (c :: rb) rest hr]

/-- on ASCII text `lower()` maps A-Z to a-z and nothing else -/
theorem pyLower_ascii (s : List Nat) (h : Ascii s) : pyLower s = s.map asciiLower := lowerAux_ascii [] s h

/-- on ASCII text `upper()` maps a-z to A-Z and nothing else -/
theorem pyUpper_ascii : ∀ (s : List Nat), Ascii s → pyUpper s = s.map asciiUpper
  | [], _ => rfl
  | c :: rest, h => by
    obtain ⟨hc, hr⟩ := ascii_cons h
    have ih := pyUpper_ascii rest hr
    unfold pyUpper at ih ⊢
    simp only [List.flatMap_cons, upperCp, hc, if_true, List.map_cons, List.singleton_append, ih]

theorem asciiLower_lt {c : Nat} (h : c < 128) : asciiLower c < 128 := by unfold asciiLower; split <;> omega
theorem asciiUpper_lt {c : Nat} (h : c < 128) : asciiUpper c < 128 := by unfold asciiUpper; split <;> omega

theorem ascii_map_lower {s : List Nat} (h : Ascii s) : Ascii (s.map asciiLower) := by
  intro c hc
  obtain ⟨x, hx, rfl⟩ := List.mem_map.1 hc
  exact asciiLower_lt (h x hx)

theorem ascii_map_upper {s : List Nat} (h : Ascii s) : Ascii (s.map asciiUpper) := by
  intro c hc
  obtain ⟨x, hx, rfl⟩ := List.mem_map.1 hc
  exact asciiUpper_lt (h x hx)

theorem lower_upper (c : Nat) : asciiLower (asciiUpper c) = asciiLower c := by
  unfold asciiLower asciiUpper; repeat' split
  all_goals omega

theorem upper_lower (c : Nat) : asciiUpper (asciiLower c) = asciiUpper c := by
  unfold asciiLower asciiUpper; repeat' split
  all_goals omega

/-- case-insensitivity of anything that lower-cases first: `lower(upper(s)) = lower(s)` on ASCII text -/
theorem pyLower_pyUpper (s : List Nat) (h : Ascii s) : pyLower (pyUpper s) = pyLower s := by
  rw [pyUpper_ascii s h, pyLower_ascii _ (ascii_map_upper h), pyLower_ascii s h, List.map_map]
  apply List.map_congr_left
  intro c _
  exact lower_upper c

theorem pyUpper_pyLower (s : List Nat) (h : Ascii s) : pyUpper (pyLower s) = pyUpper s := by
  rw [pyLower_ascii s h, pyUpper_ascii _ (ascii_map_lower h), pyUpper_ascii s h, List.map_map]
  apply List.map_congr_left
  intro c _
  exact upper_lower c

/-! ### the tables never produce a letter of the other case -/
def NoUpper (s : List Nat) : Prop := ∀ c ∈ s, ¬ (65 ≤ c ∧ c ≤ 90)
def NoLower (s : List Nat) : Prop := ∀ c ∈ s, ¬ (97 ≤ c ∧ c ≤ 122)

def rowsAll (p : Nat → Bool) (rows : List (List (Nat × List Nat))) : Bool :=
  rows.all fun row => row.all fun e => e.2.all p

theorem lookupRow_mem (row : List (Nat × List Nat)) (c : Nat) (v : List Nat) (h : lookupRow row c = some v) :
    ∃ e ∈ row, e.2 = v := by
  induction row with
  | nil => simp [lookupRow] at h
  | cons e rest ih =>
    obtain ⟨k, w⟩ := e
    unfold lookupRow at h
    split at h
    · simp only [Option.some.injEq] at h
      exact ⟨(k, w), List.mem_cons_self, h⟩
    · obtain ⟨e', he', hv⟩ := ih h
      exact ⟨e', List.mem_cons_of_mem _ he', hv⟩

theorem lookupRows_all (p : Nat → Bool) (rows : List (List (Nat × List Nat))) (hp : rowsAll p rows = true)
    (c : Nat) (v : List Nat) (h : lookupRows rows c = some v) : ∀ x ∈ v, p x = true := by
  induction rows with
  | nil => simp [lookupRows] at h
  | cons r rs ih =>
    unfold rowsAll at hp
    rw [List.all_cons, Bool.and_eq_true] at hp
    unfold lookupRows at h
    cases hr : lookupRow r c with
    | some w =>
      simp only [hr, Option.some.injEq] at h
      obtain ⟨e, he, hv⟩ := lookupRow_mem r c w hr
      have := List.all_eq_true.1 hp.1 e he
      rw [hv, h] at this
      exact fun x hx => List.all_eq_true.1 this x hx
    | none =>
      simp only [hr] at h
      exact ih hp.2 h

theorem lowerMap_noUpper : rowsAll (fun x => !(decide (65 ≤ x) && decide (x ≤ 90))) Gen.PyCase.lowerMap = true := by
  decide +kernel

theorem upperMap_noLower : rowsAll (fun x => !(decide (97 ≤ x) && decide (x ≤ 122))) Gen.PyCase.upperMap = true := by
  decide +kernel

theorem lowerCp_noUpper (c : Nat) : NoUpper (lowerCp c) := by
  intro x hx
  unfold lowerCp at hx
  split at hx
  · simp only [List.mem_singleton] at hx
    subst hx; unfold asciiLower; split <;> omega
  · cases hl : lookupRows Gen.PyCase.lowerMap c with
    | none =>
      simp only [hl, Option.getD_none, List.mem_singleton] at hx
      subst hx; omega
    | some v =>
      simp only [hl, Option.getD_some] at hx
      have := lookupRows_all _ _ lowerMap_noUpper c v hl x hx
      simp only [Bool.not_eq_true', Bool.and_eq_false_iff, decide_eq_false_iff_not] at this
      omega

theorem upperCp_noLower (c : Nat) : NoLower (upperCp c) := by
  intro x hx
  unfold upperCp at hx
  split at hx
  · simp only [List.mem_singleton] at hx
    subst hx; unfold asciiUpper; split <;> omega
  · cases hl : lookupRows Gen.PyCase.upperMap c with
    | none =>
      simp only [hl, Option.getD_none, List.mem_singleton] at hx
      subst hx; omega
    | some v =>
      simp only [hl, Option.getD_some] at hx
      have := lookupRows_all _ _ upperMap_noLower c v hl x hx
      simp only [Bool.not_eq_true', Bool.and_eq_false_iff, decide_eq_false_iff_not] at this
      omega

theorem lowerAux_noUpper : ∀ (rb s : List Nat), NoUpper (lowerAux rb s)
  | _, [] => by intro x hx; simp [lowerAux] at hx
  | rb, c :: rest => by
    intro x hx
    unfold lowerAux at hx
    rcases List.mem_append.1 hx with h | h
    · split at h
      · simp only [List.mem_singleton] at h
        split at h <;> omega
      · exact lowerCp_noUpper c x h
    · exact lowerAux_noUpper (c :: rb) rest x h

/-- `s.lower()` contains no A-Z, whatever `s` is -/
theorem pyLower_noUpper (s : List Nat) : NoUpper (pyLower s) := lowerAux_noUpper [] s

/-- `s.upper()` contains no a-z, whatever `s` is -/
theorem pyUpper_noLower (s : List Nat) : NoLower (pyUpper s) := by
  intro x hx
  unfold pyUpper at hx
  obtain ⟨c, _, hc⟩ := List.mem_flatMap.1 hx
  exact upperCp_noLower c x hc

theorem map_lower_id_of_noUpper (s : List Nat) (h : NoUpper s) : s.map asciiLower = s := by
  rw [List.map_congr_left (g := id)]
  · simp
  · intro c hc
    have := h c hc
    unfold asciiLower
    rw [if_neg this]; rfl

theorem map_upper_id_of_noLower (s : List Nat) (h : NoLower s) : s.map asciiUpper = s := by
  rw [List.map_congr_left (g := id)]
  · simp
  · intro c hc
    have := h c hc
    unfold asciiUpper
    rw [if_neg this]; rfl

/-- ASCII text without capitals is a fixed point of `lower()` -/
theorem pyLower_fixed (s : List Nat) (ha : Ascii s) (h : NoUpper s) : pyLower s = s := by
  rw [pyLower_ascii s ha, map_lower_id_of_noUpper s h]

theorem pyUpper_fixed (s : List Nat) (ha : Ascii s) (h : NoLower s) : pyUpper s = s := by
  rw [pyUpper_ascii s ha, map_upper_id_of_noLower s h]

end Lemmas.PyStr
