import PasslibVerif.Lemmas.C01PbkdfBase
import PasslibVerif.Lemmas.FormatsPbkdfCodec
/-
C01 for the PBKDF family, part 2: the raw handlers on `parse_mc3` (pbkdf2_sha1 / _sha256 / _sha512, cta_pbkdf2_sha1,
grub_pbkdf2_sha512 — generic in separator, rounds base, field codec and key function), the PrefixWrapper (ldap_pbkdf2_*)
and atlassian_pbkdf2_sha1.
-/
namespace Lemmas.C01Pbkdf
open Py Model.Handler Model.Formats Model.Verify Model.VerifyFmt.Pbkdf Props.C01 Lemmas.PbkdfLen Lemmas.FormatsPbkdf Lemmas.Handler

/-- the key function returns `n` octets for every input -/
def KdfOK (n : Nat) (kdf : Bytes → Bytes → Nat → Bytes) : Prop := ∀ b s r, (kdf b s r).length = n ∧ Bytes.WF (kdf b s r)

/-- admissible settings of the raw handlers: salt of at most 1024 octets, 1 ≤ rounds ≤ 2^32-1 -/
structure RawSettingsOK (salt : Bytes) (rounds : Nat) : Prop where
  saltBytes : Bytes.WF salt
  saltLen : salt.length ≤ 1024
  roundsLo : 1 ≤ rounds
  roundsHi : rounds ≤ 4294967295

instance (salt : Bytes) (rounds : Nat) : Decidable (RawSettingsOK salt rounds) :=
  decidable_of_iff (Bytes.WF salt ∧ salt.length ≤ 1024 ∧ 1 ≤ rounds ∧ rounds ≤ 4294967295)
    ⟨fun ⟨a, b, c, d⟩ => ⟨a, b, c, d⟩, fun ⟨a, b, c, d⟩ => ⟨a, b, c, d⟩⟩

theorem rawMc3_wf (ident : Str) (n : Nat) (salt : Bytes) (rounds : Nat) (c : Bytes) (hs : RawSettingsOK salt rounds)
    (hc : c.length = n ∧ Bytes.WF c) : RawMc3WF ident n { mc3Settings ident salt rounds with checksum := some c } :=
  ⟨rfl, ⟨rounds, rfl, hs.roundsLo, hs.roundsHi⟩, ⟨salt, rfl, hs.saltBytes, hs.saltLen⟩, ⟨c, rfl, hc.2, hc.1⟩, rfl⟩

section raw
variable (sep : Nat) (hex : Bool) (ident : Str) (n : Nat) (enc : Bytes → Str) (dec : Str → Res Bytes)
  (kdf : Bytes → Bytes → Nat → Bytes)

theorem rawMc3_roundtrips (hsep : sep < 48) (hn : n ≠ 0) (hcodec : CodecOK sep enc dec) (hk : KdfOK n kdf)
    (salt : Bytes) (rounds : Nat) (hs : RawSettingsOK salt rounds) :
    RoundTrips (rawMc3Hasher sep hex ident n enc dec kdf) (mc3Settings ident salt rounds) := by
  intro b c hc
  simp only [rawMc3Hasher, Except.ok.injEq] at hc
  subst hc
  exact parse_renderOf _ _ _
    (rawMc3_parse_render sep hex ident n enc dec hsep hn hcodec _ (rawMc3_wf ident n salt rounds _ hs (hk _ _ _)))

theorem rawMc3_ignores : IgnoresChecksum (rawMc3Hasher sep hex ident n enc dec kdf) := fun _ _ _ => rfl

/-- the string `to_string` gives for settings + key -/
theorem rawMc3_render_string (hn : n ≠ 0) (hcodec : CodecOK sep enc dec) (salt : Bytes) (rounds : Nat) (c : Bytes)
    (hc : c.length = n) :
    (rawMc3Hasher sep hex ident n enc dec kdf).render { mc3Settings ident salt rounds with checksum := some c } =
      ident ++ (roundsStr hex (some (rounds : Int)) ++ sep :: (enc salt ++ sep :: enc c)) := by
  have hene := hcodec.nonEmpty c (ne_nil_of_length c n hc hn)
  have heE : (enc c).isEmpty = false := by
    cases h : enc c with
    | nil => exact absurd h hene
    | cons _ _ => rfl
  simp only [rawMc3Hasher, renderOf, rawMc3RenderX, mc3Settings, renderMc3G, Option.getD_some, heE, Bool.false_eq_true, if_false,
    Except.toOption]

/-- `hash` succeeds for every encodable secret within the size limit (NUL bytes are data), and this is the string -/
theorem rawMc3_hash_string (hn : n ≠ 0) (hcodec : CodecOK sep enc dec) (hk : KdfOK n kdf) (s : Secret) (b : Bytes) (salt : Bytes)
    (rounds : Nat) (hv : s.len ≤ MAX_PASSWORD_SIZE) (hb : s.toBytes = .ok b) :
    hashSecret (rawMc3Hasher sep hex ident n enc dec kdf) s (mc3Settings ident salt rounds) =
      .ok (ident ++ (roundsStr hex (some (rounds : Int)) ++ sep :: (enc salt ++ sep :: enc (kdf b salt rounds)))) := by
  rw [hashSecret_succeeds _ s b _ (kdf b salt rounds) hv hb rfl (Or.inl rfl) rfl,
    rawMc3_render_string sep hex ident n enc dec kdf hn hcodec salt rounds _ (hk b salt rounds).1]

theorem rawMc3_identifies (hne : ident ≠ []) (hn : n ≠ 0) (hcodec : CodecOK sep enc dec) (hk : KdfOK n kdf) (s : Secret)
    (salt : Bytes) (rounds : Nat) (hs : Str)
    (hh : hashSecret (rawMc3Hasher sep hex ident n enc dec kdf) s (mc3Settings ident salt rounds) = .ok hs) :
    identByPrefix ident hs = true := by
  obtain ⟨b, c, hd, rfl⟩ := hashSecret_form _ s _ hs hh
  simp only [rawMc3Hasher, Except.ok.injEq] at hd
  subst hd
  rw [rawMc3_render_string sep hex ident n enc dec kdf hn hcodec salt rounds _ (hk _ _ _).1]
  exact identByPrefix_append ident _ hne

end raw

/-! ### the key functions -/
theorem pbkdf2Key_ok (a : Spec.Formats.HashAlg) (ha : AlgOK a) : KdfOK a.hLen (pbkdf2Key a) :=
  fun b s r => pbkdf2_shape a ha b s r a.hLen

theorem ctaKey_ok : KdfOK 20 (fun b s r => Spec.Formats.pbkdf2 Spec.Formats.algSha1 b s r 20) :=
  fun b s r => pbkdf2_shape _ algSha1_ok b s r 20

theorem grubKey_ok : KdfOK 64 (fun b s r => Spec.Formats.pbkdf2 Spec.Formats.algSha512 b s r 64) :=
  fun b s r => pbkdf2_shape _ algSha512_ok b s r 64

/-! ### the rendered checksum field is the published checksum specification -/
theorem ab64Encode_eq_spec (bs : Bytes) : Model.B64.ab64Encode bs = Spec.Formats.ab64 bs := rfl

theorem pbkdf2_field_eq_spec (a : Spec.Formats.HashAlg) (b salt : Bytes) (rounds : Nat) :
    Model.B64.ab64Encode (pbkdf2Key a b salt rounds) = Spec.Formats.pbkdf2Digest a b salt rounds := rfl

theorem cta_field_eq_spec (b salt : Bytes) (rounds : Nat) :
    b64AltEncode (Spec.Formats.pbkdf2 Spec.Formats.algSha1 b salt rounds 20) = Spec.Formats.ctaPbkdf2Sha1 b salt rounds := rfl

theorem hexlifyUpper_eq_spec : ∀ bs : Bytes, Bytes.WF bs → pbHexlifyUpper bs = Spec.Formats.hexUpper bs
  | [], _ => rfl
  | b :: rest, h => by
    have hb : b < 256 := h b (List.mem_cons_self ..)
    have hr : Bytes.WF rest := fun x hx => h x (List.mem_cons_of_mem _ hx)
    have h16 : b / 16 % 16 = b / 16 := Nat.mod_eq_of_lt (by omega)
    show upperHexChar (b / 16) :: upperHexChar (b % 16) :: pbHexlifyUpper rest = Spec.Formats.hexUpper (b :: rest)
    rw [hexlifyUpper_eq_spec rest hr]
    simp only [Spec.Formats.hexUpper, List.flatMap_cons, h16, upperHexChar, Spec.Formats.hexDigitU, List.cons_append, List.nil_append]

theorem grub_field_eq_spec (b salt : Bytes) (rounds : Nat) :
    pbHexlifyUpper (Spec.Formats.pbkdf2 Spec.Formats.algSha512 b salt rounds 64) = Spec.Formats.grubPbkdf2Sha512 b salt rounds :=
  hexlifyUpper_eq_spec _ (grubKey_ok b salt rounds).2

/-! ### PrefixWrapper -/
theorem wrap_verifies_own (pfx orig : Str) (h : Hasher) (s : Secret) (p : Parsed) (hs : Str)
    (hrt : RoundTrips h p) (hi : IgnoresChecksum h) (hh : wrapHash pfx orig h s p = .ok hs) :
    wrapVerify pfx orig h s hs = .ok true := by
  unfold wrapHash at hh
  cases h0 : hashSecret h s p with
  | error e => simp [h0] at hh
  | ok hs0 =>
    simp only [h0, wrapStr] at hh
    cases hsp : stripPrefix orig hs0 with
    | none => simp [hsp] at hh
    | some rest =>
      simp only [hsp, Except.ok.injEq] at hh
      subst hh
      have hform : hs0 = orig ++ rest := by
        unfold stripPrefix at hsp
        split at hsp
        · rename_i hpre
          simp only [Option.some.injEq] at hsp
          subst hsp
          obtain ⟨t, rfl⟩ := List.isPrefixOf_iff_prefix.1 hpre
          simp
        · cases hsp
      unfold wrapVerify
      rw [stripPrefix_append]
      show verify h s (orig ++ rest) = .ok true
      rw [← hform]
      exact verify_own_hash h s p hs0 hrt hi h0

/-- what the wrapper's `hash` returned: the wrapped class's string with the prefix exchanged -/
theorem wrapHash_inv (pfx orig : Str) (h : Hasher) (s : Secret) (p : Parsed) (hs : Str) (hh : wrapHash pfx orig h s p = .ok hs) :
    ∃ rest, hashSecret h s p = .ok (orig ++ rest) ∧ hs = pfx ++ rest := by
  unfold wrapHash at hh
  cases h0 : hashSecret h s p with
  | error e => simp [h0] at hh
  | ok hs0 =>
    simp only [h0, wrapStr] at hh
    cases hsp : stripPrefix orig hs0 with
    | none => simp [hsp] at hh
    | some rest =>
      simp only [hsp, Except.ok.injEq] at hh
      refine ⟨rest, ?_, hh.symm⟩
      unfold stripPrefix at hsp
      split at hsp
      · rename_i hpre
        simp only [Option.some.injEq] at hsp
        subst hsp
        obtain ⟨t, rfl⟩ := List.isPrefixOf_iff_prefix.1 hpre
        simp
      · cases hsp

/-- the wrapper's `verify` on a string with its prefix is the wrapped class's `verify` on the unwrapped string -/
theorem wrapVerify_wrapped (pfx orig : Str) (h : Hasher) (s : Secret) (rest : Str) :
    wrapVerify pfx orig h s (pfx ++ rest) = verify h s (orig ++ rest) := by
  unfold wrapVerify
  rw [stripPrefix_append]

/-- the wrapped string of a hasher whose strings start with `orig` -/
theorem wrapHash_string (pfx orig : Str) (h : Hasher) (s : Secret) (p : Parsed) (rest : Str)
    (hh : hashSecret h s p = .ok (orig ++ rest)) : wrapHash pfx orig h s p = .ok (pfx ++ rest) := by
  simp only [wrapHash, hh, wrapStr, stripPrefix_append]

/-! ### atlassian_pbkdf2_sha1 -/
theorem atlassianKey_ok (b salt : Bytes) :
    (Spec.Formats.pbkdf2 Spec.Formats.algSha1 b salt 10000 32).length = 32 ∧
      Bytes.WF (Spec.Formats.pbkdf2 Spec.Formats.algSha1 b salt 10000 32) := pbkdf2_shape _ algSha1_ok b salt 10000 32

theorem atlassian_wf (salt c : Bytes) (hs : Bytes.WF salt) (hl : salt.length = 16) (hc : c.length = 32 ∧ Bytes.WF c) :
    AtlassianWF { atlassianSettings salt with checksum := some c } :=
  ⟨rfl, rfl, ⟨salt, rfl, hs, hl⟩, ⟨c, rfl, hc.2, hc.1⟩, rfl⟩

theorem atlassian_roundtrips (salt : Bytes) (hs : Bytes.WF salt) (hl : salt.length = 16) :
    RoundTrips atlassianHasher (atlassianSettings salt) := by
  intro b c hc
  simp only [atlassianHasher, Except.ok.injEq] at hc
  subst hc
  exact parse_renderOf atlassianRenderX (fun s => toRes (atlassianParse s)) _
    (atlassian_parse_render _ (atlassian_wf salt _ hs hl (atlassianKey_ok _ _)))

theorem atlassian_render_string (salt c : Bytes) :
    atlassianHasher.render { atlassianSettings salt with checksum := some c } =
      ATLASSIAN_IDENT ++ Spec.Rfc4648.base64 (salt ++ c) := by
  simp only [atlassianHasher, renderOf, atlassianRenderX, atlassianSettings, Option.getD_some, Except.toOption]

end Lemmas.C01Pbkdf
