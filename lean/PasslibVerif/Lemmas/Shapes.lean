import PasslibVerif.Model.Shapes
/-
Soundness of the shape calculus (Model/Shapes.lean): `Shape.disjoint s t = true` implies that no string is accepted
by both; shapes of PrefixWrappers; restriction to an ident.
-/
namespace Lemmas.Shapes
open Py Model.Handler Model.Formats Model.Shapes

structure Acc (b : Basic) (h : Str) : Prop where
  pre : b.pre.isPrefixOf h = true
  len : lenOk b.lens h.length = true
  cls : ∀ c ∈ h, b.cls.has c = true
  r2307 : b.not2307 = true → rfc2307Match h = false

theorem accepts_iff (b : Basic) (h : Str) : b.accepts h = true ↔ Acc b h := by
  unfold Basic.accepts
  simp only [Bool.and_eq_true, Bool.or_eq_true, Bool.not_eq_true', List.all_eq_true]
  constructor
  · rintro ⟨⟨⟨h1, h2⟩, h3⟩, h4⟩
    refine ⟨h1, h2, h3, ?_⟩
    intro hb
    rcases h4 with h4 | h4
    · rw [hb] at h4; cases h4
    · exact h4
  · rintro ⟨h1, h2, h3, h4⟩
    refine ⟨⟨⟨h1, h2⟩, h3⟩, ?_⟩
    cases hb : b.not2307 with
    | false => exact Or.inl rfl
    | true => exact Or.inr (h4 hb)

theorem prefix_mem {p h : Str} (hp : p.isPrefixOf h = true) {c : Nat} (hc : c ∈ p) : c ∈ h := by
  obtain ⟨t, rfl⟩ := List.isPrefixOf_iff_prefix.1 hp
  exact List.mem_append_left _ hc

theorem prefix_len {p h : Str} (hp : p.isPrefixOf h = true) : p.length ≤ h.length := by
  obtain ⟨t, rfl⟩ := List.isPrefixOf_iff_prefix.1 hp
  simp

theorem clash_sound : ∀ (p q h : Str), clash p q = true → p.isPrefixOf h = true → q.isPrefixOf h = true → False
  | [], _, _, hc, _, _ => by simp [clash] at hc
  | _ :: _, [], _, hc, _, _ => by simp [clash] at hc
  | x :: xs, y :: ys, [], _, hp, _ => by simp [List.isPrefixOf] at hp
  | x :: xs, y :: ys, c :: h, hc, hp, hq => by
    simp only [List.isPrefixOf, Bool.and_eq_true, beq_iff_eq] at hp hq
    simp only [clash, Bool.or_eq_true, bne_iff_ne, ne_eq] at hc
    rcases hc with hc | hc
    · exact hc (hp.1.trans hq.1.symm)
    · exact clash_sound xs ys h hc hp.2 hq.2

theorem fits_of_acc {b : Basic} {h : Str} (ha : Acc b h) : b.fits h.length = true := by
  unfold Basic.fits
  simp only [Bool.and_eq_true, decide_eq_true_eq]
  exact ⟨ha.len, prefix_len ha.pre⟩

theorem lensDisjoint_sound {a b : Basic} {h : Str} (hd : lensDisjoint a b = true) (ha : Acc a h) (hb : Acc b h) : False := by
  unfold lensDisjoint at hd
  have fa := fits_of_acc ha
  have fb := fits_of_acc hb
  cases hal : a.lens with
  | some L =>
    rw [hal] at hd
    simp only [List.all_eq_true, Bool.not_eq_true'] at hd
    have hm : h.length ∈ L := by
      have := ha.len; rw [hal] at this; simpa [lenOk] using this
    have := hd _ hm
    rw [fb] at this; cases this
  | none =>
    rw [hal] at hd
    cases hbl : b.lens with
    | some M =>
      rw [hbl] at hd
      simp only [List.all_eq_true, Bool.not_eq_true'] at hd
      have hm : h.length ∈ M := by
        have := hb.len; rw [hbl] at this; simpa [lenOk] using this
      have := hd _ hm
      rw [fa] at this; cases this
    | none => rw [hbl] at hd; cases hd

theorem takeWhile_append_stop {α} (p : α → Bool) : ∀ (l t : List α) (x : α) (r : List α),
    l.dropWhile p = x :: r → (l ++ t).takeWhile p = l.takeWhile p ∧ (l ++ t).dropWhile p = x :: (r ++ t)
  | [], _, _, _, h => by simp at h
  | a :: l, t, x, r, h => by
    cases hp : p a with
    | true =>
      simp only [List.dropWhile_cons, hp, if_true] at h
      obtain ⟨h1, h2⟩ := takeWhile_append_stop p l t x r h
      simp [List.takeWhile_cons, List.dropWhile_cons, hp, h1, h2]
    | false =>
      simp only [List.dropWhile_cons, hp, Bool.false_eq_true, if_false, List.cons.injEq] at h
      obtain ⟨rfl, rfl⟩ := h
      simp [List.takeWhile_cons, List.dropWhile_cons, hp]

theorem dollarEnd_sub (s : Str) : ∀ c ∈ dollarEnd s, c ∈ s := by
  intro c hc
  unfold dollarEnd at hc
  split at hc
  · exact List.dropLast_subset _ hc
  · exact hc

/-- a string below a `{word}` prefix without line breaks matches the RFC 2307 pattern -/
theorem forces2307_sound {b : Basic} {h : Str} (hf : forces2307 b = true) (hb : Acc b h) : rfc2307Match h = true := by
  unfold forces2307 at hf
  obtain ⟨t, ht⟩ := List.isPrefixOf_iff_prefix.1 hb.pre
  cases hpre : b.pre with
  | nil => rw [hpre] at hf; cases hf
  | cons c0 rest =>
    rw [hpre] at hf ht
    by_cases hc0 : c0 = 123
    · subst hc0
      simp only [Bool.and_eq_true, Bool.not_eq_true', beq_iff_eq] at hf
      obtain ⟨⟨hw, hd⟩, hcl⟩ := hf
      cases hdw : rest.dropWhile isWord with
      | nil => rw [hdw] at hd; cases hd
      | cons x r =>
        rw [hdw] at hd
        simp only [List.head?_cons, Option.some.injEq] at hd
        subst hd
        obtain ⟨h1, h2⟩ := takeWhile_append_stop isWord rest t 125 r hdw
        have hdotOf : ∀ c, b.cls.has c = true → isDot c = true := by
          intro c hc
          cases hcls : b.cls with
          | any => rw [hcls] at hcl; cases hcl
          | oneOf l =>
            rw [hcls] at hcl hc
            simp only [List.all_eq_true] at hcl
            simp only [Cls.has, List.contains_eq_mem, decide_eq_true_eq] at hc
            exact hcl c hc
          | noneOf l =>
            rw [hcls] at hcl hc
            simp only [List.all_eq_true, List.contains_eq_mem, decide_eq_true_eq] at hcl
            simp only [Cls.has, Bool.not_eq_true', List.contains_eq_mem, decide_eq_false_iff_not] at hc
            simp only [isDot, Bool.not_eq_true', List.contains_eq_mem, decide_eq_false_iff_not]
            exact fun hm => hc (hcl c hm)
        subst ht
        have hdot : ∀ c ∈ dollarEnd (r ++ t), isDot c = true := by
          intro c hc
          have hc' := dollarEnd_sub _ c hc
          have hin : c ∈ 123 :: rest ++ t := by
            have hrest : rest = rest.takeWhile isWord ++ rest.dropWhile isWord := (List.takeWhile_append_dropWhile).symm
            rw [hdw] at hrest
            rcases List.mem_append.1 hc' with hr | hr
            · simp only [List.cons_append, List.mem_cons, List.mem_append]
              right; left; rw [hrest]; simp [hr]
            · simp [hr]
          exact hdotOf c (hb.cls c hin)
        simp only [rfc2307Match, List.cons_append, h1, h2, hw, Bool.not_false, Bool.true_and, List.all_eq_true]
        exact hdot
    · split at hf
      · rename_i heq; simp only [List.cons.injEq] at heq; exact absurd heq.1 hc0
      · cases hf

theorem basic_disjoint_sound {a b : Basic} {h : Str} (hd : a.disjoint b = true) (ha : a.accepts h = true) (hb : b.accepts h = true) :
    False := by
  rw [accepts_iff] at ha hb
  unfold Basic.disjoint at hd
  simp only [Bool.or_eq_true, Bool.and_eq_true, List.any_eq_true, Bool.not_eq_true'] at hd
  rcases hd with ((((hd | hd) | hd) | hd) | hd) | hd
  · exact clash_sound _ _ h hd ha.pre hb.pre
  · obtain ⟨c, hc, hn⟩ := hd
    have := hb.cls c (prefix_mem ha.pre hc)
    rw [hn] at this; cases this
  · obtain ⟨c, hc, hn⟩ := hd
    have := ha.cls c (prefix_mem hb.pre hc)
    rw [hn] at this; cases this
  · exact lensDisjoint_sound hd ha hb
  · have := forces2307_sound hd.2 hb
    rw [ha.r2307 hd.1] at this; cases this
  · have := forces2307_sound hd.2 ha
    rw [hb.r2307 hd.1] at this; cases this

/-- SOUNDNESS: shapes that test disjoint share no string -/
theorem disjoint_sound (s t : Shape) (h : Str) (hd : Shape.disjoint s t = true) :
    ¬ (s.accepts h = true ∧ t.accepts h = true) := by
  rintro ⟨hs, ht⟩
  unfold Shape.accepts at hs ht
  rw [List.any_eq_true] at hs ht
  obtain ⟨a, ha, haa⟩ := hs
  obtain ⟨b, hb, hbb⟩ := ht
  unfold Shape.disjoint at hd
  rw [List.all_eq_true] at hd
  have := hd a ha
  rw [List.all_eq_true] at this
  exact basic_disjoint_sound (this b hb) haa hbb

theorem all_accepts (h : Str) : Shape.anything.accepts h = true := by
  simp [Shape.anything, Shape.accepts, Basic.accepts, lenOk, Cls.has]

/-! ### PrefixWrapper -/
theorem cls_with_has (pfx : Str) (k : Cls) (c : Nat) (h : c ∈ pfx ∨ k.has c = true) : (k.with pfx).has c = true := by
  cases k with
  | any => rfl
  | oneOf l =>
    simp only [Cls.with, Cls.has, List.contains_eq_mem, List.mem_append, decide_eq_true_eq]
    rcases h with h | h
    · exact Or.inl h
    · right; simpa [Cls.has] using h
  | noneOf l =>
    simp only [Cls.with, Cls.has, Bool.not_eq_true', List.contains_eq_mem, decide_eq_false_iff_not, List.mem_filter, not_and,
      Bool.not_eq_true, decide_eq_false_iff_not, Decidable.not_not]
    rcases h with h | h
    · intro _; simpa using h
    · intro hl; simp [Cls.has, hl] at h

theorem prepend_accepts (pfx : Str) (b : Basic) (u : Str) (hu : b.accepts u = true) : (b.prepend pfx).accepts (pfx ++ u) = true := by
  rw [accepts_iff] at hu ⊢
  obtain ⟨t, ht⟩ := List.isPrefixOf_iff_prefix.1 hu.pre
  refine ⟨?_, ?_, ?_, ?_⟩
  · apply List.isPrefixOf_iff_prefix.2
    exact ⟨t, by simp [Basic.prepend, ← ht]⟩
  · simp only [Basic.prepend]
    cases hl : b.lens with
    | none => rfl
    | some L =>
      have := hu.len; rw [hl] at this
      simp only [lenOk, List.contains_eq_mem, decide_eq_true_eq] at this
      simp only [Option.map_some, lenOk, List.contains_eq_mem, decide_eq_true_eq, List.mem_map, List.length_append]
      exact ⟨u.length, this, by omega⟩
  · intro c hc
    simp only [Basic.prepend]
    apply cls_with_has
    rcases List.mem_append.1 hc with h | h
    · exact Or.inl h
    · exact Or.inr (hu.cls c h)
  · intro hb; simp [Basic.prepend] at hb

theorem shape_prepend_accepts (pfx : Str) (s : Shape) (u : Str) (hu : s.accepts u = true) : (s.prepend pfx).accepts (pfx ++ u) = true := by
  unfold Shape.accepts at hu ⊢
  rw [List.any_eq_true] at hu ⊢
  obtain ⟨b, hb, hbu⟩ := hu
  exact ⟨b.prepend pfx, List.mem_map_of_mem hb, prepend_accepts pfx b u hbu⟩

/-- a string below `ident` accepted by a shape whose alternatives have pairwise clashing or comparable prefixes is
    accepted by the alternatives below `ident`, provided every other alternative's prefix clashes with `ident` -/
theorem under_accepts (ident : Str) (s : Shape) (h : Str) (hs : s.accepts h = true) (hi : ident.isPrefixOf h = true)
    (hcl : ∀ b ∈ s, ident.isPrefixOf b.pre = true ∨ clash ident b.pre = true) : (s.under ident).accepts h = true := by
  unfold Shape.accepts at hs ⊢
  rw [List.any_eq_true] at hs ⊢
  obtain ⟨b, hb, hbh⟩ := hs
  refine ⟨b, ?_, hbh⟩
  simp only [Shape.under, List.mem_filter]
  refine ⟨hb, ?_⟩
  rcases hcl b hb with h1 | h1
  · exact h1
  · exact (clash_sound _ _ h h1 hi ((accepts_iff b h).1 hbh).pre).elim

end Lemmas.Shapes
