import PasslibVerif.Model.BcryptFinalize
/-
Lemmas for Props/C03Finalize: what each block of `_finalize_backend_mixin` (Model/BcryptFinalize.lean) does, by what the backend
answers on the block's own probes — for every backend `B`.
-/
namespace Lemmas.C03Finalize
open Py Model.BcryptFinalize
open Model.Verify (Secret)
open Model.Code.Wrap (Flags)
open Model.Formats (IDENT_2 IDENT_2A IDENT_2B IDENT_2Y)
open Model.Handler (Str ofString)

/-! ### what a backend can answer to one question -/

/-- `verify(secret, hash)` returns a true value -/
def Accepts (B : Backend) (s : Secret) (h : Hash) : Prop := B s h = .ok true
/-- `verify(secret, hash)` returns a false value -/
def Rejects (B : Backend) (s : Secret) (h : Hash) : Prop := B s h = .ok false
/-- `verify(secret, hash)` raises something `safe_verify` traps (ValueError "unknown ident", MissingBackendError, InternalBackendError) -/
def Refuses (B : Backend) (s : Secret) (h : Hash) : Prop := ∃ e, B s h = .error e ∧ e.trapped = true

instance (B : Backend) (s : Secret) (h : Hash) : Decidable (Accepts B s h) := by unfold Accepts; infer_instance
instance (B : Backend) (s : Secret) (h : Hash) : Decidable (Rejects B s h) := by unfold Rejects; infer_instance

/-- a bcrypt that is right on the five vectors of `ident`: accepts the test hash and both correct hashes, rejects both bug hashes -/
def SoundOn (B : Backend) (ident : Str) : Prop :=
  Accepts B SECRET_TEST (testHash ident) ∧ Rejects B SECRET_8BIT (bugHash8 ident) ∧ Accepts B SECRET_8BIT (okHash8 ident) ∧
  Rejects B SECRET_WRAP (bugHashWrap ident) ∧ Accepts B SECRET_WRAP (okHashWrap ident)

/-- a bcrypt with the bsd wraparound bug under `ident` (8-bit clean): the 255-byte password verifies against the hash of its first
    `255 mod 256 … ` wrapped-around key -/
def WrapBugOn (B : Backend) (ident : Str) : Prop :=
  Accepts B SECRET_TEST (testHash ident) ∧ Rejects B SECRET_8BIT (bugHash8 ident) ∧ Accepts B SECRET_8BIT (okHash8 ident) ∧
  Accepts B SECRET_WRAP (bugHashWrap ident)

/-- a bcrypt with the crypt_blowfish 8-bit bug (CVE-2011-2483) under `ident` -/
def EightBitBugOn (B : Backend) (ident : Str) : Prop :=
  Accepts B SECRET_TEST (testHash ident) ∧ Accepts B SECRET_8BIT (bugHash8 ident)

/-! ### sequencing -/

theorem andThen_ok (p q : Step) (s s' : St) (h : p s = (s', none)) : p.andThen q s = q s' := by
  unfold Step.andThen; rw [h]

theorem andThen_fail (p q : Step) (s s' : St) (f : Fail) (h : p s = (s', some f)) : p.andThen q s = (s', some f) := by
  unfold Step.andThen; rw [h]

theorem andThen_cases (p q : Step) (s : St) :
    (∃ s', p s = (s', none) ∧ p.andThen q s = q s') ∨ (∃ s' f, p s = (s', some f) ∧ p.andThen q s = (s', some f)) := by
  rcases hp : p s with ⟨s', _ | f⟩
  · exact .inl ⟨s', rfl, andThen_ok p q s s' hp⟩
  · exact .inr ⟨s', f, rfl, andThen_fail p q s s' f hp⟩

/-! ### the helpers -/

theorem safeVerify_accepts (B : Backend) (s : Secret) (h : Hash) (ha : Accepts B s h) : safeVerify B s h = .ok (some true) := by
  unfold safeVerify; rw [ha]

theorem safeVerify_rejects (B : Backend) (s : Secret) (h : Hash) (ha : Rejects B s h) : safeVerify B s h = .ok (some false) := by
  unfold safeVerify; rw [ha]

theorem safeVerify_refuses (B : Backend) (s : Secret) (h : Hash) (ha : Refuses B s h) : safeVerify B s h = .ok none := by
  obtain ⟨e, he, ht⟩ := ha
  unfold safeVerify; rw [he]; simp only [ht, if_true]

/-- `safe_verify` says `True` only when `verify` did -/
theorem safeVerify_true (B : Backend) (s : Secret) (h : Hash) (hv : safeVerify B s h = .ok (some true)) : Accepts B s h := by
  unfold safeVerify at hv
  unfold Accepts
  split at hv
  · next r hr => rw [hr]; simp only [Except.ok.injEq, Option.some.injEq] at hv; rw [hv]
  · split at hv <;> simp at hv

theorem assert8_sound (B : Backend) (i : Str) (h1 : Rejects B SECRET_8BIT (bugHash8 i)) (h2 : Accepts B SECRET_8BIT (okHash8 i)) :
    assertLacks8bitBug B i = none := by
  unfold assertLacks8bitBug; rw [h1]; simp only; rw [h2]

theorem assert8_bug (B : Backend) (i : Str) (h1 : Accepts B SECRET_8BIT (bugHash8 i)) : assertLacks8bitBug B i = some (.security i) := by
  unfold assertLacks8bitBug; rw [h1]

theorem detectWrap_sound (B : Backend) (i : Str) (h1 : Rejects B SECRET_WRAP (bugHashWrap i)) (h2 : Accepts B SECRET_WRAP (okHashWrap i)) :
    detectWrapBug B i = .ok false := by
  unfold detectWrapBug; rw [h1]; simp only; rw [h2]

theorem detectWrap_bug (B : Backend) (i : Str) (h1 : Accepts B SECRET_WRAP (bugHashWrap i)) : detectWrapBug B i = .ok true := by
  unfold detectWrapBug; rw [h1]

theorem assertWrap_sound (B : Backend) (i : Str) (h1 : Rejects B SECRET_WRAP (bugHashWrap i)) (h2 : Accepts B SECRET_WRAP (okHashWrap i)) :
    assertLacksWrapBug B i = none := by
  unfold assertLacksWrapBug; rw [detectWrap_sound B i h1 h2]

/-! ### the blocks on the documented kinds of answers -/

theorem check20_has (B : Backend) (s : St) (h : Accepts B SECRET_TEST TEST_HASH_20) : check20 B s = (s, none) := by
  unfold check20; rw [safeVerify_accepts B _ _ h]

theorem check20_lacks (B : Backend) (s : St) (h : Refuses B SECRET_TEST TEST_HASH_20) :
    check20 B s = ({ s with attrs.flags.lacks20Support := true }, none) := by
  unfold check20; rw [safeVerify_refuses B _ _ h]

theorem check2a_sound (B : Backend) (os : Bool) (s : St) (h : SoundOn B IDENT_2A) : check2a B os s = (s, none) := by
  obtain ⟨h1, h2, h3, h4, h5⟩ := h
  unfold check2a; rw [safeVerify_accepts B _ _ h1]; simp only
  rw [assert8_sound B _ h2 h3]; simp only
  rw [detectWrap_sound B _ h4 h5]

theorem check2a_wrap (B : Backend) (os : Bool) (s : St) (h : WrapBugOn B IDENT_2A) :
    check2a B os s = ({ attrs := { s.attrs with flags.has2aWraparoundBug := true }, warned := s.warned || !os }, none) := by
  obtain ⟨h1, h2, h3, h4⟩ := h
  unfold check2a; rw [safeVerify_accepts B _ _ h1]; simp only
  rw [assert8_sound B _ h2 h3]; simp only
  rw [detectWrap_bug B _ h4]

theorem check2a_8bit (B : Backend) (os : Bool) (s : St) (h : EightBitBugOn B IDENT_2A) :
    check2a B os s = (s, some (.security IDENT_2A)) := by
  obtain ⟨h1, h2⟩ := h
  unfold check2a; rw [safeVerify_accepts B _ _ h1]; simp only
  rw [assert8_bug B _ h2]

theorem check2y_sound (B : Backend) (s : St) (h : SoundOn B IDENT_2Y) : check2y B s = (s, none) := by
  obtain ⟨h1, h2, h3, h4, h5⟩ := h
  unfold check2y; rw [safeVerify_accepts B _ _ h1]; simp only
  rw [assert8_sound B _ h2 h3]; simp only
  rw [assertWrap_sound B _ h4 h5]

theorem check2y_lacks (B : Backend) (s : St) (h : Refuses B SECRET_TEST (testHash IDENT_2Y)) :
    check2y B s = ({ s with attrs.flags.lacks2ySupport := true }, none) := by
  unfold check2y; rw [safeVerify_refuses B _ _ h]

theorem check2y_8bit (B : Backend) (s : St) (h : EightBitBugOn B IDENT_2Y) : check2y B s = (s, some (.security IDENT_2Y)) := by
  obtain ⟨h1, h2⟩ := h
  unfold check2y; rw [safeVerify_accepts B _ _ h1]; simp only
  rw [assert8_bug B _ h2]

theorem check2b_sound (B : Backend) (s : St) (h : SoundOn B IDENT_2B) :
    check2b B s = ({ s with attrs.flags.fallbackIdent := IDENT_2B }, none) := by
  obtain ⟨h1, h2, h3, h4, h5⟩ := h
  unfold check2b; rw [safeVerify_accepts B _ _ h1]; simp only
  rw [assert8_sound B _ h2 h3]; simp only
  rw [assertWrap_sound B _ h4 h5]

theorem check2b_lacks (B : Backend) (s : St) (h : Refuses B SECRET_TEST (testHash IDENT_2B)) :
    check2b B s = ({ s with attrs.flags.lacks2bSupport := true }, none) := by
  unfold check2b; rw [safeVerify_refuses B _ _ h]

theorem check2b_8bit (B : Backend) (s : St) (h : EightBitBugOn B IDENT_2B) :
    check2b B s = ({ s with attrs.flags.fallbackIdent := IDENT_2B }, some (.security IDENT_2B)) := by
  obtain ⟨h1, h2⟩ := h
  unfold check2b; rw [safeVerify_accepts B _ _ h1]; simp only
  rw [assert8_bug B _ h2]

/-! ### the blocks for EVERY backend: what they can change, when they let the call go on -/

/-- the fallback ident of a state -/
abbrev fb (s : St) : Str := s.attrs.flags.fallbackIdent

theorem check20_fb (B : Backend) (s : St) : fb (check20 B s).1 = fb s ∧ (check20 B s).1.attrs.initialized = s.attrs.initialized := by
  unfold check20; split <;> exact ⟨rfl, rfl⟩

theorem check2a_fb (B : Backend) (os : Bool) (s : St) :
    fb (check2a B os s).1 = fb s ∧ (check2a B os s).1.attrs.initialized = s.attrs.initialized := by
  unfold check2a
  split <;> try exact ⟨rfl, rfl⟩
  split <;> try exact ⟨rfl, rfl⟩
  split <;> exact ⟨rfl, rfl⟩

/-- the `$2a$` block lets the call go on only after `verify("test", TEST_HASH_2A)` returned True -/
theorem check2a_passes (B : Backend) (os : Bool) (s s' : St) (h : check2a B os s = (s', none)) : Accepts B SECRET_TEST (testHash IDENT_2A) := by
  unfold check2a at h
  split at h
  · simp at h
  · simp at h
  · simp at h
  · next hv => exact safeVerify_true B _ _ hv

theorem check2y_fb (B : Backend) (s : St) : fb (check2y B s).1 = fb s ∧ (check2y B s).1.attrs.initialized = s.attrs.initialized := by
  unfold check2y
  split <;> try exact ⟨rfl, rfl⟩
  split <;> exact ⟨rfl, rfl⟩

/-- the `$2b$` block: `_fallback_ident` is left alone, or set to `$2b$` after `verify("test", test_hash_2b)` returned True -/
theorem check2b_fb (B : Backend) (s : St) :
    (fb (check2b B s).1 = fb s ∨ (fb (check2b B s).1 = IDENT_2B ∧ Accepts B SECRET_TEST (testHash IDENT_2B))) ∧
      (check2b B s).1.attrs.initialized = s.attrs.initialized := by
  unfold check2b
  split <;> try exact ⟨.inl rfl, rfl⟩
  next hv =>
    have ha := safeVerify_true B _ _ hv
    simp only
    split <;> exact ⟨.inr ⟨rfl, ha⟩, rfl⟩

/-! ### every way a block can raise, justified by what the backend answered -/

theorem safeVerify_error (B : Backend) (s : Secret) (h : Hash) (f : Fail) (hv : safeVerify B s h = .error f) :
    ∃ e, f = .through e ∧ B s h = .error e ∧ e.trapped = false := by
  unfold safeVerify at hv
  split at hv
  · simp at hv
  · next e he =>
    split at hv
    · simp at hv
    · next ht =>
      simp only [Except.error.injEq] at hv
      exact ⟨e, hv.symm, he, by simpa using ht⟩

theorem safeVerify_false (B : Backend) (s : Secret) (h : Hash) (hv : safeVerify B s h = .ok (some false)) : Rejects B s h := by
  unfold safeVerify at hv
  unfold Rejects
  split at hv
  · next r hr => rw [hr]; simp only [Except.ok.injEq, Option.some.injEq] at hv; rw [hv]
  · split at hv <;> simp at hv

theorem safeVerify_none (B : Backend) (s : Secret) (h : Hash) (hv : safeVerify B s h = .ok none) : Refuses B s h := by
  unfold safeVerify at hv
  split at hv
  · simp at hv
  · next e he =>
    split at hv
    · next ht => exact ⟨e, he, ht⟩
    · simp at hv

theorem assert8_some (B : Backend) (i : Str) (f : Fail) (h : assertLacks8bitBug B i = some f) :
    (f = .security i ∧ Accepts B SECRET_8BIT (bugHash8 i)) ∨
    (f = .runtime (.failed8bit i) ∧ Rejects B SECRET_8BIT (bugHash8 i) ∧ Rejects B SECRET_8BIT (okHash8 i)) ∨
    (∃ e, f = .through e ∧ (B SECRET_8BIT (bugHash8 i) = .error e ∨ B SECRET_8BIT (okHash8 i) = .error e)) := by
  unfold assertLacks8bitBug at h
  split at h
  · next e he => simp only [Option.some.injEq] at h; exact .inr (.inr ⟨e, h.symm, .inl he⟩)
  · next he => simp only [Option.some.injEq] at h; exact .inl ⟨h.symm, he⟩
  · next he =>
    split at h
    · next e he2 => simp only [Option.some.injEq] at h; exact .inr (.inr ⟨e, h.symm, .inr he2⟩)
    · next he2 => simp only [Option.some.injEq] at h; exact .inr (.inl ⟨h.symm, he, he2⟩)
    · simp at h

theorem detectWrap_error (B : Backend) (i : Str) (f : Fail) (h : detectWrapBug B i = .error f) :
    (f = .runtime (.failedWrap i) ∧ Rejects B SECRET_WRAP (bugHashWrap i) ∧ Rejects B SECRET_WRAP (okHashWrap i)) ∨
    (∃ e, f = .through e ∧ (B SECRET_WRAP (bugHashWrap i) = .error e ∨ B SECRET_WRAP (okHashWrap i) = .error e)) := by
  unfold detectWrapBug at h
  split at h
  · next e he => simp only [Except.error.injEq] at h; exact .inr ⟨e, h.symm, .inl he⟩
  · simp at h
  · next he =>
    split at h
    · next e he2 => simp only [Except.error.injEq] at h; exact .inr ⟨e, h.symm, .inr he2⟩
    · next he2 => simp only [Except.error.injEq] at h; exact .inl ⟨h.symm, he, he2⟩
    · simp at h

theorem detectWrap_true (B : Backend) (i : Str) (h : detectWrapBug B i = .ok true) : Accepts B SECRET_WRAP (bugHashWrap i) := by
  unfold detectWrapBug at h
  split at h
  · simp at h
  · next he => exact he
  · split at h <;> simp at h

theorem assertWrap_some (B : Backend) (i : Str) (f : Fail) (h : assertLacksWrapBug B i = some f) :
    (f = .runtime (.unexpectedWrap i) ∧ Accepts B SECRET_WRAP (bugHashWrap i)) ∨
    (f = .runtime (.failedWrap i) ∧ Rejects B SECRET_WRAP (bugHashWrap i) ∧ Rejects B SECRET_WRAP (okHashWrap i)) ∨
    (∃ e, f = .through e ∧ (B SECRET_WRAP (bugHashWrap i) = .error e ∨ B SECRET_WRAP (okHashWrap i) = .error e)) := by
  unfold assertLacksWrapBug at h
  split at h
  · next f' hd =>
    simp only [Option.some.injEq] at h; subst h
    exact .inr (detectWrap_error B i _ hd)
  · simp at h
  · next hd => simp only [Option.some.injEq] at h; exact .inl ⟨h.symm, detectWrap_true B i hd⟩

/-- the four `safe_verify("test", …)` questions: the only ones whose trapped exceptions are turned into NotImplemented -/
def testProbes : List Probe := [.t20, .t2a, .t2y, .t2b]

/-- the idents with an 8-bit / wraparound block -/
def probedIdents : List Str := [IDENT_2A, IDENT_2Y, IDENT_2B]

/-- the ways `_finalize_backend_mixin` can raise on a backend `B`, each with the answers of `B` that cause it -/
def Allowed (B : Backend) : Fail → Prop
  | .security i => i ∈ probedIdents ∧ EightBitBugOn B i
  | .runtime .rejected20 => Rejects B SECRET_TEST TEST_HASH_20
  | .runtime .lacks2a => Refuses B SECRET_TEST (testHash IDENT_2A)
  | .runtime .rejected2a => Rejects B SECRET_TEST (testHash IDENT_2A)
  | .runtime .rejected2y => Rejects B SECRET_TEST (testHash IDENT_2Y)
  | .runtime .rejected2b => Rejects B SECRET_TEST (testHash IDENT_2B)
  | .runtime (.failed8bit i) => i ∈ probedIdents ∧ Rejects B SECRET_8BIT (bugHash8 i) ∧ Rejects B SECRET_8BIT (okHash8 i)
  | .runtime (.failedWrap i) => i ∈ probedIdents ∧ Rejects B SECRET_WRAP (bugHashWrap i) ∧ Rejects B SECRET_WRAP (okHashWrap i)
  | .runtime (.unexpectedWrap i) => i ∈ [IDENT_2Y, IDENT_2B] ∧ Accepts B SECRET_WRAP (bugHashWrap i)
  | .through e => ∃ p, ask B p = .error e ∧ (e.trapped = false ∨ p ∉ testProbes)

theorem allowed_assert8 (B : Backend) (i : Str) (f : Fail) (pb po : Probe) (hi : i ∈ probedIdents)
    (hpb : ask B pb = B SECRET_8BIT (bugHash8 i)) (hpo : ask B po = B SECRET_8BIT (okHash8 i)) (hnb : pb ∉ testProbes) (hno : po ∉ testProbes)
    (ht : Accepts B SECRET_TEST (testHash i)) (h : assertLacks8bitBug B i = some f) : Allowed B f := by
  rcases assert8_some B i f h with ⟨rfl, ha⟩ | ⟨rfl, h1, h2⟩ | ⟨e, rfl, he | he⟩
  · exact ⟨hi, ht, ha⟩
  · exact ⟨hi, h1, h2⟩
  · exact ⟨pb, hpb.trans he, .inr hnb⟩
  · exact ⟨po, hpo.trans he, .inr hno⟩

theorem allowed_detectWrap (B : Backend) (i : Str) (f : Fail) (pb po : Probe) (hi : i ∈ probedIdents)
    (hpb : ask B pb = B SECRET_WRAP (bugHashWrap i)) (hpo : ask B po = B SECRET_WRAP (okHashWrap i)) (hnb : pb ∉ testProbes) (hno : po ∉ testProbes)
    (h : detectWrapBug B i = .error f) : Allowed B f := by
  rcases detectWrap_error B i f h with ⟨rfl, h1, h2⟩ | ⟨e, rfl, he | he⟩
  · exact ⟨hi, h1, h2⟩
  · exact ⟨pb, hpb.trans he, .inr hnb⟩
  · exact ⟨po, hpo.trans he, .inr hno⟩

theorem allowed_assertWrap (B : Backend) (i : Str) (f : Fail) (pb po : Probe) (hi : i ∈ [IDENT_2Y, IDENT_2B])
    (hpb : ask B pb = B SECRET_WRAP (bugHashWrap i)) (hpo : ask B po = B SECRET_WRAP (okHashWrap i)) (hnb : pb ∉ testProbes) (hno : po ∉ testProbes)
    (h : assertLacksWrapBug B i = some f) : Allowed B f := by
  have hi' : i ∈ probedIdents := by
    simp only [List.mem_cons, List.not_mem_nil, or_false] at hi
    rcases hi with rfl | rfl <;> decide
  rcases assertWrap_some B i f h with ⟨rfl, ha⟩ | ⟨rfl, h1, h2⟩ | ⟨e, rfl, he | he⟩
  · exact ⟨hi, ha⟩
  · exact ⟨hi', h1, h2⟩
  · exact ⟨pb, hpb.trans he, .inr hnb⟩
  · exact ⟨po, hpo.trans he, .inr hno⟩

theorem allowed_safeVerify (B : Backend) (p : Probe) (f : Fail) (h : safeVerify B p.secret p.hash = .error f) : Allowed B f := by
  obtain ⟨e, rfl, he, ht⟩ := safeVerify_error B _ _ f h
  exact ⟨p, he, .inl ht⟩

theorem check20_allowed (B : Backend) (s : St) (f : Fail) (h : (check20 B s).2 = some f) : Allowed B f := by
  unfold check20 at h
  split at h
  · next f' hv => simp only [Option.some.injEq] at h; subst h; exact allowed_safeVerify B .t20 _ hv
  · simp at h
  · next hv => simp only [Option.some.injEq] at h; subst h; exact safeVerify_false B _ _ hv
  · simp at h

theorem check2a_allowed (B : Backend) (os : Bool) (s : St) (f : Fail) (h : (check2a B os s).2 = some f) : Allowed B f := by
  unfold check2a at h
  split at h
  · next f' hv => simp only [Option.some.injEq] at h; subst h; exact allowed_safeVerify B .t2a _ hv
  · next hv => simp only [Option.some.injEq] at h; subst h; exact safeVerify_none B _ _ hv
  · next hv => simp only [Option.some.injEq] at h; subst h; exact safeVerify_false B _ _ hv
  · next hv =>
    have ha := safeVerify_true B _ _ hv
    split at h
    · next f' h8 =>
      simp only [Option.some.injEq] at h; subst h
      exact allowed_assert8 B IDENT_2A _ .bug8a .ok8a (by decide) rfl rfl (by decide) (by decide) ha h8
    · split at h
      · next f' hd =>
        simp only [Option.some.injEq] at h; subst h
        exact allowed_detectWrap B IDENT_2A _ .bugWa .okWa (by decide) rfl rfl (by decide) (by decide) hd
      · simp at h
      · simp at h

theorem check2y_allowed (B : Backend) (s : St) (f : Fail) (h : (check2y B s).2 = some f) : Allowed B f := by
  unfold check2y at h
  split at h
  · next f' hv => simp only [Option.some.injEq] at h; subst h; exact allowed_safeVerify B .t2y _ hv
  · simp at h
  · next hv => simp only [Option.some.injEq] at h; subst h; exact safeVerify_false B _ _ hv
  · next hv =>
    have ha := safeVerify_true B _ _ hv
    split at h
    · next f' h8 =>
      simp only [Option.some.injEq] at h; subst h
      exact allowed_assert8 B IDENT_2Y _ .bug8y .ok8y (by decide) rfl rfl (by decide) (by decide) ha h8
    · exact allowed_assertWrap B IDENT_2Y _ .bugWy .okWy (by decide) rfl rfl (by decide) (by decide) h

theorem check2b_allowed (B : Backend) (s : St) (f : Fail) (h : (check2b B s).2 = some f) : Allowed B f := by
  unfold check2b at h
  split at h
  · next f' hv => simp only [Option.some.injEq] at h; subst h; exact allowed_safeVerify B .t2b _ hv
  · simp at h
  · next hv => simp only [Option.some.injEq] at h; subst h; exact safeVerify_false B _ _ hv
  · next hv =>
    have ha := safeVerify_true B _ _ hv
    simp only at h
    split at h
    · next f' h8 =>
      simp only [Option.some.injEq] at h; subst h
      exact allowed_assert8 B IDENT_2B _ .bug8b .ok8b (by decide) rfl rfl (by decide) (by decide) ha h8
    · exact allowed_assertWrap B IDENT_2B _ .bugWb .okWb (by decide) rfl rfl (by decide) (by decide) h

/-! ### what a block that lets the call go on has established -/

theorem andThen_none (p q : Step) (s : St) (h : (p.andThen q s).2 = none) : ∃ s', p s = (s', none) ∧ p.andThen q s = q s' := by
  rcases andThen_cases p q s with ⟨s', h1, h2⟩ | ⟨s', f, _, h2⟩
  · exact ⟨s', h1, h2⟩
  · rw [h2] at h; simp at h

theorem assert8_none (B : Backend) (i : Str) (h : assertLacks8bitBug B i = none) :
    Rejects B SECRET_8BIT (bugHash8 i) ∧ Accepts B SECRET_8BIT (okHash8 i) := by
  unfold assertLacks8bitBug at h
  split at h
  · simp at h
  · simp at h
  · next he =>
    split at h
    · simp at h
    · simp at h
    · next he2 => exact ⟨he, he2⟩

private theorem not_both (B : Backend) (s : Secret) (h : Hash) (h1 : Rejects B s h) (h2 : Accepts B s h) : False := by
  unfold Rejects at h1; unfold Accepts at h2; rw [h1] at h2; simp at h2

private theorem not_refuses (B : Backend) (s : Secret) (h : Hash) (h1 : Refuses B s h) (h2 : Accepts B s h) : False := by
  obtain ⟨e, he, _⟩ := h1
  unfold Accepts at h2; rw [he] at h2; simp at h2

theorem check2a_pass_no8bit (B : Backend) (os : Bool) (s : St) (h : (check2a B os s).2 = none) : ¬ EightBitBugOn B IDENT_2A := by
  intro ⟨_, hb⟩
  unfold check2a at h
  split at h
  · simp at h
  · simp at h
  · simp at h
  · split at h
    · simp at h
    · next h8 => exact not_both B _ _ (assert8_none B _ h8).1 hb

theorem check2y_pass_no8bit (B : Backend) (s : St) (h : (check2y B s).2 = none) : ¬ EightBitBugOn B IDENT_2Y := by
  intro ⟨ha, hb⟩
  unfold check2y at h
  split at h
  · simp at h
  · next hv => exact not_refuses B _ _ (safeVerify_none B _ _ hv) ha
  · simp at h
  · split at h
    · simp at h
    · next h8 => exact not_both B _ _ (assert8_none B _ h8).1 hb

theorem check2b_pass_no8bit (B : Backend) (s : St) (h : (check2b B s).2 = none) : ¬ EightBitBugOn B IDENT_2B := by
  intro ⟨ha, hb⟩
  unfold check2b at h
  split at h
  · simp at h
  · next hv => exact not_refuses B _ _ (safeVerify_none B _ _ hv) ha
  · simp at h
  · simp only at h
    split at h
    · simp at h
    · next h8 => exact not_both B _ _ (assert8_none B _ h8).1 hb

end Lemmas.C03Finalize
