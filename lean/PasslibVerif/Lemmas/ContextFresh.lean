import PasslibVerif.Lemmas.Context
namespace Lemmas.Context
open Py Model.Rounds Model.Context Lemmas.Rounds

/-! ### categories -/
theorem mem_insertSorted (s x : String) : ∀ l : List String, x ∈ insertSorted s l ↔ x = s ∨ x ∈ l
  | [] => by simp [insertSorted]
  | y :: ys => by
    unfold insertSorted
    split
    · simp
    · split
      · rename_i h; subst h; simp
      · simp only [List.mem_cons, mem_insertSorted s x ys]
        constructor
        · rintro (h | h | h) <;> simp [h]
        · rintro (h | h | h) <;> simp [h]

theorem mem_foldl_insert (x : String) : ∀ (l acc : List String),
    x ∈ l.foldl (fun acc s => insertSorted s acc) acc ↔ x ∈ l ∨ x ∈ acc
  | [], acc => by simp
  | y :: ys, acc => by
    simp only [List.foldl_cons, mem_foldl_insert x ys, mem_insertSorted, List.mem_cons]
    constructor
    · rintro (h | h | h) <;> simp [h]
    · rintro ((h | h) | h) <;> simp [h]

theorem lookup_some_mem {β} (k : Cat) : ∀ (l : List (Cat × β)) (v : β), lookupA k l = some v → k ∈ l.map (·.1)
  | [], _, h => by simp [lookupA] at h
  | (k', v') :: rest, v, h => by
    unfold lookupA at h
    split at h
    · rename_i e; simp [e]
    · simp only [List.map_cons, List.mem_cons]; exact Or.inr (lookup_some_mem k rest v h)

/-- a category that is not known to the configuration has no `deprecated` / `default` entry -/
theorem unknown_cat_no_dep (c : Cfg) (k : String) (hk : (categories c).contains k = false) :
    lookupA (some k) c.deprecated = none ∧ lookupA (some k) c.defaults = none := by
  have hnm : k ∉ categories c := by simpa using hk
  unfold categories at hnm
  simp only [mem_foldl_insert, List.mem_append, List.mem_filterMap, List.not_mem_nil, or_false] at hnm
  constructor
  · cases hl : lookupA (some k) c.deprecated with
    | none => rfl
    | some v =>
      exfalso; apply hnm
      have := lookup_some_mem (some k) c.deprecated v hl
      obtain ⟨p, hp, e⟩ := List.mem_map.1 this
      exact Or.inl (Or.inr ⟨p, hp, e⟩)
  · cases hl : lookupA (some k) c.defaults with
    | none => rfl
    | some v =>
      exfalso; apply hnm
      have := lookup_some_mem (some k) c.defaults v hl
      obtain ⟨p, hp, e⟩ := List.mem_map.1 this
      exact Or.inl (Or.inl ⟨p, hp, e⟩)

/-! ### the resolved default scheme is never deprecated -/
theorem firstNotIn_spec (schemes deps : List String) (d : String) (h : firstNotIn schemes deps = some d) :
    deps.contains d = false := by
  unfold firstNotIn at h
  have := List.find?_some h
  simpa using this

/-- what `resolveDefault` guarantees: the result is outside the deprecated list that applies to the category -/
theorem resolveDefault_not_in (c : Cfg) (cat : Cat) (d : String) (h : resolveDefault c cat = .ok d) :
    ((lookupA cat c.deprecated).getD ((lookupA none c.deprecated).getD [])).contains d = false := by
  unfold resolveDefault at h
  cases cat with
  | none =>
    simp only at h
    cases hg : lookupA none c.defaults with
    | some d0 =>
      simp only [hg] at h
      split at h
      · cases h
      · rename_i hc; cases h
        cases hl : lookupA none c.deprecated <;> simp_all
    | none =>
      simp only [hg] at h
      cases hf : firstNotIn (schemeNames c) ((lookupA none c.deprecated).getD []) with
      | none => simp [hf] at h
      | some s =>
        simp only [hf, Except.ok.injEq] at h; subst h
        have := firstNotIn_spec _ _ _ hf
        cases hl : lookupA none c.deprecated <;> simp_all
  | some k =>
    simp only at h
    cases hg : (lookupA (some k) c.defaults).orElse (fun _ => lookupA none c.defaults) with
    | some d0 =>
      simp only [hg] at h
      split at h
      · cases h
      · rename_i hc; cases h; simpa using hc
    | none =>
      simp only [hg] at h
      cases hf : firstNotIn (schemeNames c) ((lookupA (some k) c.deprecated).getD ((lookupA none c.deprecated).getD [])) with
      | none => simp [hf] at h
      | some s =>
        simp only [hf, Except.ok.injEq] at h; subst h
        exact firstNotIn_spec _ _ _ hf

theorem depTest_default_false (c : Cfg) (cat : Cat) (d : String) (hd : defaultScheme c cat = .ok d) :
    depTest c d cat = none ∨ depTest c d cat = some false := by
  unfold depTest
  cases hs : (lookupA cat c.deprecated).orElse (fun _ => lookupA none c.deprecated) with
  | none => exact Or.inl rfl
  | some src =>
    right
    simp only
    by_cases hauto : src.contains "auto" = true
    · simp only [hauto, if_true, hd, bne_self_eq_false]
    · simp only [hauto, Bool.false_eq_true, if_false, Option.some.injEq]
      -- d is outside the list that applies
      have key : ((lookupA cat c.deprecated).getD ((lookupA none c.deprecated).getD [])) = src := by
        cases hl : lookupA cat c.deprecated with
        | some v => simp [hl] at hs; simp [hs]
        | none => simp [hl] at hs; simp [hs]
      cases cat with
      | none =>
        have := resolveDefault_not_in c none d (by simpa [defaultScheme] using hd)
        rw [key] at this; exact this
      | some k =>
        unfold defaultScheme at hd
        simp only at hd
        by_cases hk : (categories c).contains k = true
        · simp only [hk, if_true] at hd
          have := resolveDefault_not_in c (some k) d hd
          rw [key] at this; exact this
        · have hk' : (categories c).contains k = false := by simpa using hk
          simp only [hk', Bool.false_eq_true, if_false] at hd
          have hno := (unknown_cat_no_dep c k hk').1
          have := resolveDefault_not_in c none d hd
          simp only [hno, Option.getD_none] at key
          simp only [Option.getD] at this key
          cases hl : lookupA none c.deprecated with
          | none => simp [hl, hno] at hs
          | some v => simp [hl] at this key; rw [← key]; simpa using this

/-- a category's default scheme is never deprecated for that category -/
theorem default_not_deprecated (c : Cfg) (cat : Cat) (d : String) (hd : defaultScheme c cat = .ok d) :
    (isDeprecatedWithFlag c d cat).1 = false := by
  unfold isDeprecatedWithFlag
  cases cat with
  | none =>
    simp only
    rcases depTest_default_false c none d hd with h | h <;> simp [h]
  | some k =>
    simp only
    rcases depTest_default_false c (some k) d hd with h | h
    · simp only [h]
      -- no list applies to the category: then none applies globally either
      unfold depTest at h ⊢
      cases hl : (lookupA (some k) c.deprecated).orElse (fun _ => lookupA none c.deprecated) with
      | none =>
        have : lookupA none c.deprecated = none := by
          cases h1 : lookupA (some k) c.deprecated <;> simp_all
        simp [this]
      | some src =>
        simp only [hl] at h
        split at h
        · rw [hd] at h; simp at h
        · simp at h
    · simp only [h]
      split
      · rfl
      · rename_i hne
        simp only [bne_iff_ne, ne_eq, Decidable.not_not] at hne
        simpa using hne

end Lemmas.Context

namespace Lemmas.Context
open Py Model.Rounds Model.Context Lemmas.Rounds

/-- a registered hasher's own class: no desired window of its own, sane limits -/
structure BaseOK (b : Cls) : Prop where
  noMin : b.minDesired = none
  noMax : b.maxDesired = none
  ok : ClsOK b

theorem createRecord_ok (s : SchemeInfo) (o : List (String × OptVal)) (dep : Bool) (r : Record)
    (h : createRecord s o dep = .ok r) :
    r.deprecated = dep ∧ r.scheme = s.name ∧
    (match s.base with
      | none => r.cls = none
      | some b => ∃ a cls, usingRounds b a = .ok cls ∧ r.cls = some cls) := by
  unfold createRecord at h
  split at h
  · cases h
  · cases hb : s.base with
    | none => simp only [hb] at h; cases h; exact ⟨rfl, rfl, by simp⟩
    | some b =>
      simp only [hb] at h
      split at h
      · cases h
      · rename_i cls hu
        cases h; exact ⟨rfl, rfl, by simp; exact ⟨_, hu⟩⟩

theorem eff_none : eff none = none := rfl

/-- one using() call on a class without a window of its own yields an ordered window -/
theorem window_of_single_call (b c : Cls) (a : UsingArgs) (hb : BaseOK b) (h : usingRounds b a = .ok c) :
    WindowOK c.minDesired c.maxDesired := by
  obtain ⟨_, _, _, hmn, hmx, _⟩ := using_shape b c a h
  cases hx : argMin a with
  | none =>
    -- the minimum was not given: it is inherited, i.e. absent
    have : c.minDesired = none := by
      rcases hmn with e | ⟨v, n, hn, e⟩
      · rw [e, hb.noMin]
      · -- a set minimum needs argMin
        exfalso
        unfold usingRounds at h
        cases hm : stepMin b a with
        | error e' => simp [hm] at h
        | ok m =>
          have := stepMin_none b a m hx hm
          simp only [hm] at h
          cases hmx2 : stepMax b m a with
          | error e' => simp [hmx2] at h
          | ok mx =>
            simp only [hmx2] at h
            cases hd : stepDefault mx a with
            | error e' => simp [hd] at h
            | ok sub =>
              simp only [hd] at h
              obtain ⟨_, _, _, b4, _, _, _⟩ := stepMax_shape b m a mx hmx2
              obtain ⟨_, _, _, c4, _, _, _⟩ := stepDefault_shape mx a sub hd
              obtain ⟨_, _, _, d4, _, _, _⟩ := stepClip_shape sub
              obtain ⟨_, _, _, e4, _, _⟩ := stepVary_shape _ a c h
              rw [e4, d4, c4, b4, this, hb.noMin] at e
              cases e
    intro p q hp _
    rw [this, eff_none] at hp; cases hp
  | some x =>
    cases hy : argMax a with
    | none =>
      have : c.maxDesired = none := by
        rcases hmx with e | ⟨v, n, hn, e⟩
        · rw [e, hb.noMax]
        · exfalso
          unfold usingRounds at h
          cases hm : stepMin b a with
          | error e' => simp [hm] at h
          | ok m =>
            simp only [hm] at h
            cases hmx2 : stepMax b m a with
            | error e' => simp [hmx2] at h
            | ok mx =>
              have hmxe : mx.sub.maxDesired = m.sub.maxDesired := by
                unfold stepMax at hmx2; rw [hy] at hmx2; cases hmx2; rfl
              simp only [hmx2] at h
              cases hd : stepDefault mx a with
              | error e' => simp [hd] at h
              | ok sub =>
                simp only [hd] at h
                obtain ⟨_, _, _, a4, _, _, _⟩ := stepMin_shape b a m hm
                obtain ⟨_, _, _, _, c5, _, _⟩ := stepDefault_shape mx a sub hd
                obtain ⟨_, _, _, _, d5, _, _⟩ := stepClip_shape sub
                obtain ⟨_, _, _, _, e5, _⟩ := stepVary_shape _ a c h
                rw [e5, d5, c5, hmxe, a4, hb.noMax] at e
                cases e
      intro p q _ hq
      rw [this, eff_none] at hq; cases hq
    | some y => exact using_window_ordered b a c x y hb.ok.hard hb.ok.lo hx hy h

theorem isDep_flag_false (c : Cfg) (name k : String) (h : (isDeprecatedWithFlag c name (some k)).2 = false) :
    (isDeprecatedWithFlag c name (some k)).1 = (isDeprecatedWithFlag c name none).1 := by
  unfold isDeprecatedWithFlag at h ⊢
  simp only at h ⊢
  cases hd : depTest c name (some k) with
  | none => simp
  | some alt =>
    simp only [hd] at h ⊢
    split at h
    · simp at h
    · rename_i hne
      have : (depTest c name none).getD false = alt := by simpa using hne
      simp [this]

/-- the record the context uses for a category's default scheme is not marked deprecated -/
theorem getRecord_default_not_dep (c : Cfg) (s : SchemeInfo) (cat : Cat) (r : Record)
    (hd : defaultScheme c cat = .ok s.name) (hr : getRecord c s cat = .ok r) : r.deprecated = false := by
  unfold getRecord at hr
  cases cat with
  | none =>
    simp only at hr
    rw [(createRecord_ok s _ _ r hr).1]
    exact default_not_deprecated c none s.name hd
  | some k =>
    simp only at hr
    have h6 := default_not_deprecated c (some k) s.name hd
    split at hr
    · rw [(createRecord_ok s _ _ r hr).1]; exact h6
    · rename_i hcond
      rw [(createRecord_ok s _ _ r hr).1]
      by_cases hk : (categories c).contains k = true
      · -- known category without anything category-specific: the flag is the inherited one
        have hflag : (isDeprecatedWithFlag c s.name (some k)).2 = false := by
          cases hf : (isDeprecatedWithFlag c s.name (some k)).2 with
          | false => rfl
          | true => exfalso; apply hcond; rw [hk, hf]; simp
        rw [← isDep_flag_false c s.name k hflag]; exact h6
      · have hk' : (categories c).contains k = false := by simpa using hk
        have : defaultScheme c none = .ok s.name := by
          unfold defaultScheme at hd ⊢
          simp only [hk', Bool.false_eq_true, if_false] at hd
          exact hd
        exact default_not_deprecated c none s.name this

/-- A hash the context has just produced never needs updating under the same context and category
    (for hashers whose generated cost is not post-processed, i.e. every one except bsdi_crypt) -/
theorem fresh_never_flagged (c : Cfg) (cat : Cat) (draw : Nat) (fv : Int) (d : String) (n : Option Int) (h : HashFacts)
    (hbase : ∀ s ∈ c.schemes, ∀ b, s.base = some b → BaseOK b ∧ b.forceOdd = false)
    (hh : hashCtx c cat draw fv = .ok (d, n))
    (hid : ∀ s, c.schemes.find? (·.name = d) = some s → identify c h = .ok s)
    (hrounds : h.rounds = n) (hflag : h.selfFlag = false) :
    needsUpdateCtx c h cat = .ok false := by
  unfold hashCtx at hh
  cases hd : defaultScheme c cat with
  | error e => simp [hd] at hh
  | ok d' =>
    simp only [hd] at hh
    cases hf : c.schemes.find? (fun x => x.name = d') with
    | none => simp [hf] at hh
    | some s =>
      simp only [hf] at hh
      have hmem : s ∈ c.schemes := List.mem_of_find?_eq_some hf
      have hname : s.name = d' := by have := List.find?_some hf; simpa using this
      cases hr : getRecord c s cat with
      | error e => simp [hr] at hh
      | ok r =>
        simp only [hr] at hh
        have hdd : d = d' := by
          cases hc : r.cls with
          | none => simp only [hc, Except.ok.injEq, Prod.mk.injEq] at hh; exact hh.1.symm
          | some cls =>
            simp only [hc] at hh
            cases hg : generateChecked cls draw fv <;> simp [hg, Except.map] at hh
            exact hh.1.symm
        subst hdd
        have hident := hid s hf
        have hnd : r.deprecated = false := getRecord_default_not_dep c s cat r (by rw [hname]; exact hd) hr
        unfold needsUpdateCtx
        simp only [hident, hr, recordNeedsUpdate, hnd, hflag, Bool.false_or]
        cases hc : r.cls with
        | none => simp
        | some cls =>
          simp only [hc] at hh
          cases hg : generateChecked cls draw fv with
          | error e => simp [hg, Except.map] at hh
          | ok k =>
            simp only [hg, Except.map, Except.ok.injEq, Prod.mk.injEq] at hh
            rw [hrounds, ← hh.2]
            simp only [Except.ok.injEq]
            -- the record's class came from one using() call on the hasher's own class
            have hcr : ∃ o dep, createRecord s o dep = .ok r := by
              unfold getRecord at hr
              cases cat with
              | none => exact ⟨_, _, hr⟩
              | some kk => simp only at hr; split at hr <;> exact ⟨_, _, hr⟩
            obtain ⟨o, dep, hcr⟩ := hcr
            have hck := (createRecord_ok s o dep r hcr).2.2
            cases hb : s.base with
            | none => simp only [hb] at hck; rw [hck] at hc; cases hc
            | some b =>
              simp only [hb] at hck
              obtain ⟨a, cls', hu, hcls⟩ := hck
              rw [hc] at hcls; cases hcls
              obtain ⟨hbok, hodd⟩ := hbase s hmem b hb
              have hw := window_of_single_call b cls a hbok hu
              have hshape := using_shape b cls a hu
              have hodd' : cls.forceOdd = false := by rw [hshape.2.2.1]; exact hodd
              have hcok := using_preserves_ok b cls a hbok.ok hu
              have := generate_in_window cls hw hodd'
                (by cases hcm : cls.minDesired with
                    | none => simp
                    | some x => simpa using hcok.mn x hcm)
                (by intro bb hbb
                    cases hcm : cls.maxDesired with
                    | none => simp [hcm, eff] at hbb
                    | some y =>
                      have := hcok.mx y hcm
                      by_cases hy : y = 0 <;> simp [hcm, eff, hy] at hbb; omega)
                (fun dd hdd => using_default_in_window b cls a hbok.ok hu hw dd hdd) draw fv k (generateChecked_ok cls draw fv k hg).1
              exact this.2

end Lemmas.Context
