import PasslibVerif.Lemmas.FormatsMiscPasslib
/-
R1 for passlib.handlers.scram:  from_string(x.to_string()) = x  when the digest map is keyed by IANA-normal alg names
(fixed points of `norm_hash_name`), sorted, "sha-1" present.
-/
set_option linter.unusedSimpArgs false
namespace Lemmas.FormatsMisc
open Py Model.Handler Model.Formats Lemmas.Handler

/-! ### ab64 through the real decoder -/
theorem ab64_facts : ∀ c ∈ Spec.Rfc4648.stdAlphabet,
    Model.B64.plusToDot c < 128 ∧ Model.B64.plusToDot c ≠ 36 ∧ Model.B64.plusToDot c ≠ 44 ∧ Model.B64.plusToDot c ≠ 61 ∧
    Model.B64.dotToPlus (Model.B64.plusToDot c) = c := by decide

theorem ab64Encode_facts (bs : Bytes) : ∀ c ∈ Model.B64.ab64Encode bs, c < 128 ∧ c ≠ 36 ∧ c ≠ 44 ∧ c ≠ 61 := by
  intro c hc
  unfold Model.B64.ab64Encode at hc
  rcases List.mem_map.1 hc with ⟨x, hx, rfl⟩
  have := ab64_facts x (b64sEncode_mem bs x hx)
  exact ⟨this.1, this.2.1, this.2.2.1, this.2.2.2.1⟩

theorem ab64S_roundtrip (bs : Bytes) (h : Bytes.WF bs) : ab64DecodeS (Model.B64.ab64Encode bs) = .ok bs := by
  unfold ab64DecodeS
  have hasc : mIsAscii (Model.B64.ab64Encode bs) = true :=
    all_of_forall fun c hc => by simpa using (ab64Encode_facts bs c hc).1
  have hmap : (Model.B64.ab64Encode bs).map Model.B64.dotToPlus = Model.B64.b64sEncode bs := by
    unfold Model.B64.ab64Encode
    rw [List.map_map]
    conv => rhs; rw [← List.map_id (Model.B64.b64sEncode bs)]
    apply List.map_congr_left
    intro c hc
    exact (ab64_facts c (b64sEncode_mem bs c hc)).2.2.2.2
  rw [hasc, if_pos rfl, hmap, b64sB_roundtrip bs h]

theorem not_mem_ab64 (bs : Bytes) (x : Nat) (hx : x = 36 ∨ x = 44 ∨ x = 61) : x ∉ Model.B64.ab64Encode bs := by
  intro hm
  have := ab64Encode_facts bs x hm
  rcases hx with h | h | h <;> subst h <;> simp at this

/-! ### ordering -/
theorem strLt_irrefl : ∀ a : Str, strLt a a = false
  | [] => rfl
  | x :: a => by simp [strLt, strLt_irrefl a]

theorem strLt_asymm : ∀ a b : Str, strLt a b = true → strLt b a = false
  | [], [], h => by simp [strLt] at h
  | [], _ :: _, _ => rfl
  | _ :: _, [], h => by simp [strLt] at h
  | x :: a, y :: b, h => by
    unfold strLt at h ⊢
    by_cases h1 : x < y
    · have : ¬ (y < x) := by omega
      simp [this, h1]
    · by_cases h2 : y < x
      · simp [h1, h2] at h
      · simp only [h1, h2, if_false] at h ⊢
        exact strLt_asymm a b h

def Sorted (l : List Str) : Prop := l.Pairwise (fun a b => strLt a b = true)

theorem insertSorted_head (x : Str) (ys : List Str) (h : ∀ y ∈ ys, strLt x y = true) : insertSorted x ys = x :: ys := by
  cases ys with
  | nil => rfl
  | cons y ys =>
    have := strLt_asymm x y (h y (by simp))
    simp [insertSorted, this]

theorem sortStrs_sorted : ∀ l : List Str, Sorted l → sortStrs l = l
  | [], _ => rfl
  | x :: xs, h => by
    have hp := List.pairwise_cons.1 h
    simp only [sortStrs, sortStrs_sorted xs hp.2]
    exact insertSorted_head x xs hp.1

theorem sorted_ne (l : List Str) (h : Sorted l) : l.Pairwise (· ≠ ·) := by
  apply List.Pairwise.imp _ h
  intro a b hab e
  subst e
  rw [strLt_irrefl] at hab; cases hab

/-! ### well-formedness -/
structure AlgOK (a : Str) : Prop where
  norm : normIana a = .ok a
  len : a.length ≤ 9
  ne : a ≠ []
  clean : 44 ∉ a ∧ 61 ∉ a ∧ DOLLAR ∉ a

structure ScramWF (p : Parsed) : Prop where
  ident : p.ident = SCRAM_IDENT
  rounds : ∃ r : Nat, p.rounds = some (r : Int) ∧ 1 ≤ r ∧ r ≤ 4294967295
  salt : ∃ s, p.salt = some s ∧ Bytes.WF s ∧ s.length ≤ 1024
  body : ∃ kvs : List (Str × Bytes),
    p.extra = [("algs", joinChar 44 (kvs.map (·.1)))] ∧ p.checksum = some (scramChkEncode (kvs.map (·.1)) kvs) ∧
    Sorted (kvs.map (·.1)) ∧ SHA1 ∈ kvs.map (·.1) ∧ ∀ kv ∈ kvs, AlgOK kv.1 ∧ Bytes.WF kv.2

def scramItem (kv : Str × Bytes) : Str := kv.1 ++ 61 :: Model.B64.ab64Encode kv.2

/-! ### the digest-map encoding used in `Parsed.checksum` -/
theorem find_self : ∀ (kvs : List (Str × Bytes)), (kvs.map (·.1)).Pairwise (· ≠ ·) → ∀ kv ∈ kvs, kvs.find? (·.1 = kv.1) = some kv
  | [], _, kv, h => by simp at h
  | x :: xs, hp, kv, h => by
    have hp' := List.pairwise_cons.1 (show List.Pairwise (· ≠ ·) (x.1 :: xs.map (·.1)) from hp)
    rcases List.mem_cons.1 h with e | hm
    · subst e; simp [List.find?]
    · have hne : x.1 ≠ kv.1 := hp'.1 kv.1 (List.mem_map.2 ⟨kv, hm, rfl⟩)
      simp only [List.find?, hne, decide_false]
      exact find_self xs hp'.2 kv hm

theorem chkEncode_eq (kvs : List (Str × Bytes)) (hp : (kvs.map (·.1)).Pairwise (· ≠ ·)) :
    ∀ l : List (Str × Bytes), (∀ kv ∈ l, kv ∈ kvs) → scramChkEncode (l.map (·.1)) kvs = l.flatMap (fun kv => kv.2.length :: kv.2)
  | [], _ => rfl
  | x :: xs, h => by
    have ih := chkEncode_eq kvs hp xs (fun kv hk => h kv (by simp [hk]))
    unfold scramChkEncode at ih ⊢
    simp only [List.map_cons, List.flatMap_cons, find_self kvs hp x (h x (by simp)), ih]

theorem chkDecode_flat : ∀ l : List (Str × Bytes), scramChkDecode (l.map (·.1)) (l.flatMap (fun kv => kv.2.length :: kv.2)) = l
  | [] => rfl
  | x :: xs => by
    simp only [List.map_cons, List.flatMap_cons, List.cons_append, scramChkDecode]
    simp [chkDecode_flat xs]

/-! ### parsing the rendered pairs -/
theorem scramItem_split (kv : Str × Bytes) (h : AlgOK kv.1) :
    splitChar 61 (scramItem kv) = [kv.1, Model.B64.ab64Encode kv.2] := by
  unfold scramItem
  rw [splitChar_append_sep 61 _ _ h.clean.2.1, splitChar_no_sep 61 _ (not_mem_ab64 kv.2 61 (by simp))]

theorem scramPairs_ok : ∀ (l acc : List (Str × Bytes)), (∀ kv ∈ l, AlgOK kv.1 ∧ Bytes.WF kv.2) →
    ((acc ++ l).map (·.1)).Pairwise (· ≠ ·) → scramPairs (l.map scramItem) acc = .ok (acc ++ l)
  | [], acc, _, _ => by simp [scramPairs]
  | x :: xs, acc, h, hp => by
    have hx := h x (by simp)
    have hnot : acc.any (fun kv => decide (kv.1 = x.1)) = false := by
      rw [List.any_eq_false]
      intro kv hk
      have : ((acc ++ x :: xs).map (·.1)) = acc.map (·.1) ++ x.1 :: xs.map (·.1) := by simp
      rw [this] at hp
      have := (List.pairwise_append.1 hp).2.2 kv.1 (List.mem_map.2 ⟨kv, hk, rfl⟩) x.1 (by simp)
      simpa using this
    have hset : dictSet acc x.1 x.2 = acc ++ [x] := by
      unfold dictSet; simp [hnot]
    simp only [List.map_cons, scramPairs, scramItem_split x hx.1, ab64S_roundtrip x.2 hx.2, resBind, hset]
    have := scramPairs_ok xs (acc ++ [x]) (fun kv hk => h kv (by simp [hk])) (by simpa using hp)
    simpa using this

theorem normChecksum_ok' : ∀ l : List (Str × Bytes), (∀ kv ∈ l, AlgOK kv.1) → scramNormChecksum l = .ok ()
  | [], _ => rfl
  | (a, d) :: xs, h => by
    have ha := h (a, d) (by simp)
    have hl : ¬ (a.length > 9) := by have := ha.len; simp only at this; omega
    simp only [scramNormChecksum, ha.norm, resBind, ne_eq, not_true_eq_false, if_false, hl]
    exact normChecksum_ok' xs (fun kv hk => h kv (by simp [hk]))

theorem mapNorm_ok : ∀ l : List Str, (∀ a ∈ l, AlgOK a) → mapMRes normIana l = .ok l
  | [], _ => rfl
  | a :: xs, h => by
    simp only [mapMRes, (h a (by simp)).norm, resBind, mapNorm_ok xs (fun b hb => h b (by simp [hb])), Except.map]

theorem normAlgs_ok (l : List Str) (h : ∀ a ∈ l, AlgOK a) (hs : Sorted l) (h1 : SHA1 ∈ l) : scramNormAlgs l = .ok l := by
  unfold scramNormAlgs
  simp only [mapNorm_ok l h, resBind, sortStrs_sorted l hs]
  have hlen : l.any (fun a => decide (a.length > 9)) = false := by
    rw [List.any_eq_false]; intro a ha; have := (h a ha).len; simp; omega
  have hc : l.contains SHA1 = true := by simpa using h1
  simp [hlen, h1]

theorem joinChar_ne_nil (sep : Nat) : ∀ l : List Str, l ≠ [] → (∀ a ∈ l, a ≠ []) → joinChar sep l ≠ []
  | [], h, _ => absurd rfl h
  | [a], _, h => by simpa [joinChar] using h a (by simp)
  | a :: b :: r, _, h => by
    simp only [joinChar]
    have := h a (by simp)
    cases a <;> simp_all

theorem scram_roundtrip (p : Parsed) (h : ScramWF p) : resBind (scramRender p) scramParse = .ok (some p) := by
  obtain ⟨hi, ⟨r, hr, hr1, hr2⟩, ⟨s, hs, hsw, hsl⟩, ⟨kvs, he, hc, hsorted, hsha, hkv⟩⟩ := h
  obtain ⟨pi, pr, ps, pc, pe⟩ := p
  simp only at hi hr he hs hc
  subst hi hr he hs hc
  have hne := sorted_ne _ hsorted
  have halg : ∀ a ∈ kvs.map (·.1), AlgOK a := by
    intro a ha; rcases List.mem_map.1 ha with ⟨kv, hk, rfl⟩; exact (hkv kv hk).1
  have hkne : kvs ≠ [] := by intro e; subst e; simp at hsha
  have halgs_ne : kvs.map (·.1) ≠ [] := by simpa using hkne
  have hjne : joinChar 44 (kvs.map (·.1)) ≠ [] := joinChar_ne_nil 44 _ halgs_ne (fun a ha => (halg a ha).ne)
  have hsplit_algs : splitChar 44 (joinChar 44 (kvs.map (·.1))) = kvs.map (·.1) :=
    split_join 44 _ halgs_ne (fun a ha => (halg a ha).clean.1)
  have henc := chkEncode_eq kvs hne kvs (fun _ h => h)
  have hrender : scramRender ⟨SCRAM_IDENT, some (r : Int), some s, some (scramChkEncode (kvs.map (·.1)) kvs), [("algs", joinChar 44 (kvs.map (·.1)))]⟩ =
      .ok (SCRAM_IDENT ++ (fmtDec (r : Int) ++ DOLLAR :: (Model.B64.ab64Encode s ++ DOLLAR :: joinChar 44 (kvs.map scramItem)))) := by
    have hje : (joinChar 44 (kvs.map (·.1))).isEmpty = false := by
      cases hj : joinChar 44 (kvs.map (·.1)) with
      | nil => exact absurd hj hjne
      | cons _ _ => rfl
    simp only [scramRender, hje, Bool.false_eq_true, if_false, hsplit_algs, henc, chkDecode_flat, Option.getD_some]
    rfl
  rw [hrender]
  simp only [resBind]
  unfold scramParse
  rw [stripPrefix_append]
  simp only []
  -- the three `$`-separated fields
  have hitem_clean : ∀ f ∈ kvs.map scramItem, 44 ∉ f ∧ DOLLAR ∉ f := by
    intro f hf
    rcases List.mem_map.1 hf with ⟨kv, hk, rfl⟩
    have ha := (hkv kv hk).1
    exact ⟨not_mem_kv 44 61 _ _ ha.clean.1 (by decide) (not_mem_ab64 kv.2 44 (by simp)),
           not_mem_kv DOLLAR 61 _ _ ha.clean.2.2 (by decide) (not_mem_ab64 kv.2 DOLLAR (by simp [DOLLAR]))⟩
  have hchk_d : DOLLAR ∉ joinChar 44 (kvs.map scramItem) :=
    not_mem_joinChar DOLLAR 44 (by decide) _ (fun f hf => (hitem_clean f hf).2)
  have hsplit : splitChar DOLLAR (fmtDec (r : Int) ++ DOLLAR :: (Model.B64.ab64Encode s ++ DOLLAR :: joinChar 44 (kvs.map scramItem))) =
      [fmtDec (r : Int), Model.B64.ab64Encode s, joinChar 44 (kvs.map scramItem)] := by
    rw [splitChar_append_sep DOLLAR _ _ (not_mem_fmtDec DOLLAR (by decide) r), splitChar_append_sep DOLLAR _ _ (not_mem_ab64 s DOLLAR (by simp [DOLLAR])),
      splitChar_no_sep DOLLAR _ hchk_d]
  have hitems_ne : kvs.map scramItem ≠ [] := by simpa using hkne
  have hsplit_items : splitChar 44 (joinChar 44 (kvs.map scramItem)) = kvs.map scramItem :=
    split_join 44 _ hitems_ne (fun f hf => (hitem_clean f hf).1)
  have hchk_ne : (joinChar 44 (kvs.map scramItem)).isEmpty = false := by
    have := joinChar_ne_nil 44 _ hitems_ne (fun f hf => by
      rcases List.mem_map.1 hf with ⟨kv, _, rfl⟩; simp [scramItem])
    cases hj : joinChar 44 (kvs.map scramItem) with
    | nil => exact absurd hj this
    | cons _ _ => rfl
  have hchk_eq : (joinChar 44 (kvs.map scramItem)).contains 61 = true := by
    -- the first item contains "="
    cases kvs with
    | nil => exact absurd rfl hkne
    | cons kv rest =>
      cases rest with
      | nil => simp [joinChar, scramItem]
      | cons kv2 rest2 => simp [joinChar, scramItem]
  have hpairs := scramPairs_ok kvs [] hkv (by simpa using hne)
  simp only [List.nil_append] at hpairs
  have hany : kvs.any (fun kv => decide (kv.1 = SHA1)) = true := by
    rw [List.any_eq_true]
    rcases List.mem_map.1 hsha with ⟨kv, hk, e⟩
    exact ⟨kv, hk, by simpa using e⟩
  have a1 : ¬ (s.length > 1024) := by omega
  have a2 : ¬ ((r : Int) < 1 ∨ (r : Int) > 4294967295) := by omega
  simp only [hsplit, pyInt_fmtDec, resBind, ne_eq, not_true_eq_false, if_false, ab64S_roundtrip s hsw, hchk_ne, Bool.false_eq_true,
    hchk_eq, if_true, hsplit_items, hpairs, normChecksum_ok' kvs (fun kv hk => (hkv kv hk).1), hany, Bool.not_true, a1, a2,
    normAlgs_ok _ halg hsorted hsha]

end Lemmas.FormatsMisc
