import PasslibVerif.Lemmas.TotpTimeOrd
/-
Order facts: `_days_before_year` steps by 365 / 366, `_ymd2ord` is strictly monotone for the lexicographic order of valid
dates, ordinals 1 … 3652059 are exactly the years 1 … 9999.
-/
namespace Lemmas.TotpTimeMono
open Model.TotpTime Lemmas.TotpTimeCal Lemmas.TotpTimeOrd

theorem daysBeforeYear_succ (y : Int) :
    daysBeforeYear (y + 1) = daysBeforeYear y + (if isLeap y = true then 366 else 365) := by
  by_cases h : isLeap y = true
  · rw [if_pos h]; rw [isLeap_iff] at h; simp only [daysBeforeYear]; omega
  · rw [if_neg h]; rw [isLeap_iff] at h; simp only [daysBeforeYear]; omega

theorem daysBeforeYear_step (y : Int) : daysBeforeYear y + 365 ≤ daysBeforeYear (y + 1) := by
  rw [daysBeforeYear_succ]; split <;> omega

theorem daysBeforeYear_mono_nat (y : Int) (k : Nat) : daysBeforeYear y + 365 * k ≤ daysBeforeYear (y + k) := by
  induction k with
  | zero => simp
  | succ k ih =>
    have := daysBeforeYear_step (y + k)
    have e : y + ((k + 1 : Nat) : Int) = y + k + 1 := by omega
    rw [e]; omega

theorem daysBeforeYear_mono {y y' : Int} (h : y ≤ y') : daysBeforeYear y ≤ daysBeforeYear y' := by
  have := daysBeforeYear_mono_nat y (y' - y).toNat
  have e : y + ((y' - y).toNat : Int) = y' := by omega
  rw [e] at this; omega

/-- the last ordinal of a year is before the first of the next -/
theorem ymdToOrd_le_next_year (y m d : Int) (hm : 1 ≤ m) (hm' : m ≤ 12) (hd : 1 ≤ d) (hd' : d ≤ daysInMonth y m) :
    daysBeforeYear y < ymdToOrd y m d ∧ ymdToOrd y m d ≤ daysBeforeYear (y + 1) := by
  have B := doy_bounds (isLeap y) m d hm hm' hd hd'
  rw [daysBeforeYear_succ]
  unfold ymdToOrd daysBeforeMonth
  rcases B.2 with h | ⟨h, hl, _, _⟩
  · split <;> omega
  · rw [if_pos hl]; omega

theorem dbm_step : ∀ leap : Bool, ∀ m : Nat, m < 13 → ∀ m' : Nat, m' < 13 → (1 ≤ m ∧ m < m') →
    daysBeforeMonthL leap ((m : Nat) : Int) + daysInMonthL leap ((m : Nat) : Int) ≤ daysBeforeMonthL leap ((m' : Nat) : Int) := by
  decide +kernel

/-- `_ymd2ord` is strictly increasing in (year, month, day) -/
theorem ymdToOrd_strictMono (y m d y' m' d' : Int)
    (hm : 1 ≤ m) (hm' : m ≤ 12) (hd : 1 ≤ d) (hd' : d ≤ daysInMonth y m)
    (km : 1 ≤ m') (km' : m' ≤ 12) (kd : 1 ≤ d') (kd' : d' ≤ daysInMonth y' m')
    (hlt : y < y' ∨ (y = y' ∧ (m < m' ∨ (m = m' ∧ d < d')))) :
    ymdToOrd y m d < ymdToOrd y' m' d' := by
  rcases hlt with h | ⟨rfl, h | ⟨rfl, h⟩⟩
  · have h1 := (ymdToOrd_le_next_year y m d hm hm' hd hd').2
    have h2 := (ymdToOrd_le_next_year y' m' d' km km' kd kd').1
    have h3 := daysBeforeYear_mono (show y + 1 ≤ y' by omega)
    omega
  · obtain ⟨k, rfl⟩ : ∃ k : Nat, m = k := ⟨m.toNat, by omega⟩
    obtain ⟨k', rfl⟩ : ∃ k : Nat, m' = k := ⟨m'.toNat, by omega⟩
    have := dbm_step (isLeap y) k (by omega) k' (by omega) ⟨by omega, by omega⟩
    unfold ymdToOrd daysBeforeMonth
    unfold daysInMonth at hd'
    omega
  · unfold ymdToOrd; omega

/-- the date range of `datetime`: ordinals 1 … `_MAXORDINAL` are the years 1 … 9999 -/
theorem ord_range_of_valid (y m d : Int) (h : ValidDate y m d) : 1 ≤ ymdToOrd y m d ∧ ymdToOrd y m d ≤ MAXORDINAL := by
  obtain ⟨h1, h2, h3, h4, h5, h6⟩ := h
  have a := ymdToOrd_le_next_year y m d h3 h4 h5 h6
  have b := daysBeforeYear_mono (show (1 : Int) ≤ y from h1)
  have c := daysBeforeYear_mono (show y + 1 ≤ 10000 by unfold MAXYEAR at h2; omega)
  have e1 : daysBeforeYear 1 = 0 := by decide
  have e2 : daysBeforeYear 10000 = 3652059 := by decide
  unfold MAXORDINAL; omega

theorem year_range_of_ord (n : Int) (h1 : 1 ≤ n) (h2 : n ≤ MAXORDINAL) :
    ValidDate (ordToYmd n).1 (ordToYmd n).2.1 (ordToYmd n).2.2 := by
  obtain ⟨m1, m2, m3, m4, m5⟩ := ymdToOrd_ordToYmd n
  have a := ymdToOrd_le_next_year _ _ _ m1 m2 m3 m4
  refine ⟨?_, ?_, m1, m2, m3, m4⟩
  · refine Int.not_lt.1 fun hlt => ?_
    have c := daysBeforeYear_mono (show (ordToYmd n).1 + 1 ≤ 1 by unfold MINYEAR at hlt; omega)
    have e1 : daysBeforeYear 1 = 0 := by decide
    omega
  · refine Int.not_lt.1 fun hlt => ?_
    have c := daysBeforeYear_mono (show (10000 : Int) ≤ (ordToYmd n).1 by unfold MAXYEAR at hlt; omega)
    have e2 : daysBeforeYear 10000 = 3652059 := by decide
    unfold MAXORDINAL at h2; omega

end Lemmas.TotpTimeMono
