import PasslibVerif.Props.C01
import PasslibVerif.Model.VerifyFmt.DesBcrypt
import PasslibVerif.Lemmas.FormatsDesBcrypt
import PasslibVerif.Lemmas.C02Formats
import PasslibVerif.Lemmas.DigestLen
/-
Lemmas for Props.C01DesBcrypt, part 1: what holds for every `Model.Verify.Hasher` (unfolding `hashSecret`, the equivalence-class
form of `verify_of_hash`), the alphabet / length of the hash64 encoders of `Spec.Formats`, and the 7-bit / 8-character facts of the
DES key schedule.
-/
namespace Lemmas.C01DesBcrypt
open Py Model.Handler Model.Formats Model.Verify Props.C01 Lemmas.Formats

/-! ### generic: `hashSecret` unfolded -/

/-- what a successful `hash` went through -/
theorem hashSecret_ok (h : Hasher) (s : Secret) (p : Parsed) (hs : Str) (hh : hashSecret h s p = .ok hs) :
    ∃ b c, s.len ≤ MAX_PASSWORD_SIZE ∧ s.toBytes = .ok b ∧ checkTruncate h b = .ok () ∧ checkNul h b = .ok () ∧
      h.digest b p = .ok c ∧ hs = h.render { p with checksum := some c } := by
  unfold hashSecret at hh
  cases hv : validateSecret s with
  | error e => simp [hv] at hh
  | ok u =>
    have hl : s.len ≤ MAX_PASSWORD_SIZE := by
      unfold validateSecret at hv
      by_cases hgt : s.len > MAX_PASSWORD_SIZE
      · simp [hgt] at hv
      · omega
    simp only [hv] at hh
    unfold checksumOf at hh
    cases hb : s.toBytes with
    | error e => simp [hb] at hh
    | ok b =>
      simp only [hb, if_true] at hh
      cases ht : checkTruncate h b with
      | error e => simp [ht] at hh
      | ok u1 =>
        simp only [ht] at hh
        cases hn : checkNul h b with
        | error e => simp [hn] at hh
        | ok u2 =>
          simp only [hn] at hh
          cases hd : h.digest b p with
          | error e => simp [hd] at hh
          | ok c =>
            simp only [hd, Except.ok.injEq] at hh
            exact ⟨b, c, hl, rfl, ht, hn, hd, hh.symm⟩

/-- … and the converse: those five steps succeeding is `hash` succeeding -/
theorem hashSecret_of_steps (h : Hasher) (s : Secret) (p : Parsed) (b : Bytes) (c : Str) (hl : s.len ≤ MAX_PASSWORD_SIZE)
    (hb : s.toBytes = .ok b) (ht : checkTruncate h b = .ok ()) (hn : checkNul h b = .ok ()) (hd : h.digest b p = .ok c) :
    hashSecret h s p = .ok (h.render { p with checksum := some c }) := by
  have hv : validateSecret s = .ok () := by
    unfold validateSecret
    have : ¬ s.len > MAX_PASSWORD_SIZE := by omega
    simp [this]
  unfold hashSecret checksumOf
  simp only [hv, hb, if_true, ht, hn, hd]

theorem checkNul_ok (h : Hasher) (b : Bytes) (h0 : h.rejectsNul = false ∨ 0 ∉ b) : checkNul h b = .ok () := by
  unfold checkNul
  rcases h0 with h0 | h0
  · simp [h0]
  · simp [h0]

theorem checkTruncate_ok (h : Hasher) (b : Bytes) (n : Nat) (hn : h.truncateSize = some n) (ht : h.truncateError = false ∨ b.length ≤ n) :
    checkTruncate h b = .ok () := by
  unfold checkTruncate
  rw [hn]
  rcases ht with ht | ht
  · simp [ht]
  · have : ¬ b.length > n := by omega
    simp [this]

theorem checkTruncate_none (h : Hasher) (b : Bytes) (hn : h.truncateSize = none) : checkTruncate h b = .ok () := by
  unfold checkTruncate
  rw [hn]

/-- `verify` accepts every secret of the class of the hashed one: a secret that passes the size check and the NUL check and whose
    checksum — for the settings of the hash — is the same.  (This is `verify_of_hash` read for equal checksums; which secrets have
    equal checksums is a fact about each format's algorithm, proved per format.) -/
theorem verify_equivalent (h : Hasher) (s s' : Secret) (p : Parsed) (hs : Str) (b b' : Bytes)
    (hrt : RoundTrips h p) (hi : IgnoresChecksum h) (hh : hashSecret h s p = .ok hs)
    (hl' : s'.len ≤ MAX_PASSWORD_SIZE) (hb : s.toBytes = .ok b) (hb' : s'.toBytes = .ok b') (hn' : checkNul h b' = .ok ())
    (heq : h.digest b' p = h.digest b p) : verify h s' hs = .ok true := by
  obtain ⟨b0, c, _, hb0, _, _, hd, _⟩ := hashSecret_ok h s p hs hh
  rw [hb] at hb0
  cases hb0
  have hv' : validateSecret s' = .ok () := by
    unfold validateSecret
    have : ¬ s'.len > MAX_PASSWORD_SIZE := by omega
    simp [this]
  have hc' : checksumOf h false s' p = .ok c := by
    unfold checksumOf
    simp only [hb', hn', heq, hd]
    rfl
  obtain ⟨c2, h1, h2⟩ := verify_of_hash h s s' p hs c hrt hi hh hv' hc'
  have h3 := checksumOf_hash_verify h s p c2 h1
  have h4 : checksumOf h false s p = .ok c := by
    unfold checksumOf at h3 ⊢
    simp only [hb] at h3 ⊢
    cases hn : checkNul h b with
    | error e => simp [hn] at h3
    | ok u => simpa [hn] using hd
  rw [h4] at h3
  cases h3
  simpa using h2

/-! ### the hash64 alphabet of the Spec encoders -/

theorem h64_eq_itoa64 : h64 = Spec.Formats.itoa64 := by decide

theorem itoa64_getD_mem : ∀ k, k < 64 → h64.contains (Spec.Formats.itoa64.getD k 0) = true := by decide

/-- the eleven characters of a DES crypt block -/
theorem h64be64_ok (v : Nat) : allIn h64 (Spec.Formats.h64be64 v) = true ∧ (Spec.Formats.h64be64 v).length = 11 := by
  constructor
  · unfold Spec.Formats.h64be64 allIn
    simp only [List.all_map, List.all_eq_true, Function.comp]
    intro i _
    exact itoa64_getD_mem _ (Nat.mod_lt _ (by decide))
  · simp [Spec.Formats.h64be64]

theorem desCryptBlock_ok (key salt count : Nat) :
    allIn h64 (Spec.Formats.desCryptBlock key salt count) = true ∧ (Spec.Formats.desCryptBlock key salt count).length = 11 :=
  h64be64_ok _

theorem groups64le_lt64 : ∀ bs : Bytes, ∀ v ∈ Spec.Rfc4648.groups64le bs, v < 64
  | [], v, h => by simp [Spec.Rfc4648.groups64le] at h
  | [a], v, h => by
    simp only [Spec.Rfc4648.groups64le, List.mem_cons, List.not_mem_nil, or_false] at h
    rcases h with rfl | rfl <;> exact Nat.mod_lt _ (by decide)
  | [a, b], v, h => by
    simp only [Spec.Rfc4648.groups64le, List.mem_cons, List.not_mem_nil, or_false] at h
    rcases h with rfl | rfl | rfl <;> exact Nat.mod_lt _ (by decide)
  | a :: b :: c :: rest, v, h => by
    simp only [Spec.Rfc4648.groups64le, List.cons_append, List.nil_append, List.mem_cons] at h
    rcases h with rfl | rfl | rfl | rfl | h
    · exact Nat.mod_lt _ (by decide)
    · exact Nat.mod_lt _ (by decide)
    · exact Nat.mod_lt _ (by decide)
    · exact Nat.mod_lt _ (by decide)
    · exact groups64le_lt64 rest v h

theorem groups64le_length : ∀ bs : Bytes, (Spec.Rfc4648.groups64le bs).length = (4 * bs.length + 2) / 3
  | [] => rfl
  | [_] => by simp [Spec.Rfc4648.groups64le]
  | [_, _] => by simp [Spec.Rfc4648.groups64le]
  | _ :: _ :: _ :: rest => by
    simp only [Spec.Rfc4648.groups64le, List.cons_append, List.nil_append, List.length_cons, groups64le_length rest]; omega

/-- `h64.encode_bytes` of the Spec: hash64 characters, ⌈4n/3⌉ of them -/
theorem h64le_ok (bs : Bytes) : allIn h64 (Spec.Formats.h64le bs) = true ∧ (Spec.Formats.h64le bs).length = (4 * bs.length + 2) / 3 := by
  constructor
  · unfold Spec.Formats.h64le allIn
    simp only [List.all_map, List.all_eq_true, Function.comp]
    intro v hv
    exact itoa64_getD_mem _ (groups64le_lt64 bs v hv)
  · simp [Spec.Formats.h64le, groups64le_length]

/-! ### phpass: the checksum is the hash64 form of an MD5 digest -/

theorem iterate_succ {α : Type} (f : α → α) (n : Nat) (a : α) : Spec.Formats.iterate f (n + 1) a = f (Spec.Formats.iterate f n a) := by
  induction n generalizing a with
  | zero => rfl
  | succ n ih => rw [Spec.Formats.iterate, ih]; rfl

theorem phpass_ok (pwd salt : Bytes) (r : Nat) :
    allIn h64 (Spec.Formats.phpass pwd salt r) = true ∧ (Spec.Formats.phpass pwd salt r).length = 22 := by
  unfold Spec.Formats.phpass
  obtain ⟨k, hk⟩ : ∃ k, 2 ^ r = k + 1 := ⟨2 ^ r - 1, by have := Nat.two_pow_pos r; omega⟩
  rw [hk, iterate_succ]
  refine ⟨(h64le_ok _).1, ?_⟩
  rw [(h64le_ok _).2, Lemmas.DigestLen.md5_length]

/-! ### DES: a key is the low seven bits of the first eight characters -/

/-- two secrets give the same DES key when their first eight characters (read as zero past the end) agree in the low seven bits -/
theorem desKeyOfChars_congr (a b : Bytes) (h : ∀ i, i < 8 → a.getD i 0 % 128 = b.getD i 0 % 128) :
    Spec.Formats.desKeyOfChars a = Spec.Formats.desKeyOfChars b := by
  unfold Spec.Formats.desKeyOfChars
  have e : ∀ i, i < 8 → (a.getD i 0 * 2) % 256 = (b.getD i 0 * 2) % 256 := by
    intro i hi
    have := h i hi
    omega
  simp only [List.range, List.range.loop, List.foldl]
  rw [e 0 (by omega), e 1 (by omega), e 2 (by omega), e 3 (by omega), e 4 (by omega), e 5 (by omega), e 6 (by omega), e 7 (by omega)]

theorem desCrypt_congr (a b salt : Bytes) (h : ∀ i, i < 8 → a.getD i 0 % 128 = b.getD i 0 % 128) :
    Spec.Formats.desCrypt a salt = Spec.Formats.desCrypt b salt := by
  unfold Spec.Formats.desCrypt
  rw [desKeyOfChars_congr a b h]

/-- the hypothesis of `desCrypt_congr` for the documented truncation: same first eight bytes -/
theorem take8_getD (a b : Bytes) (h : a.take 8 = b.take 8) (i : Nat) (hi : i < 8) : a.getD i 0 = b.getD i 0 := by
  have ha : (a.take 8).getD i 0 = a.getD i 0 := by simp only [List.getD_eq_getElem?_getD, List.getElem?_take, hi, if_true]
  have hb : (b.take 8).getD i 0 = b.getD i 0 := by simp only [List.getD_eq_getElem?_getD, List.getElem?_take, hi, if_true]
  rw [← ha, ← hb, h]

end Lemmas.C01DesBcrypt
