import PasslibVerif.Lemmas.TotpSerialUtf8
/- urllib.parse.quote / unquote: character set of quoted text, `unquote ∘ quote = id` -/
namespace Lemmas.TotpSerial
open Py Model.Handler Model.TotpSerial Model.TotpKey

/-! ### pctTokens -/
theorem pctTokens_cons_ne (c : Nat) (rest : Str) (h : c ≠ 37) : pctTokens (c :: rest) = tokOf c :: pctTokens rest := by
  match rest with
  | [] => simp [pctTokens]
  | [d] => simp [pctTokens]
  | a :: b :: r => simp [pctTokens, h]

theorem pctTokens_escape (a b x y : Nat) (rest : Str) (ha : hexVal a = some x) (hb : hexVal b = some y) :
    pctTokens (37 :: a :: b :: rest) = .byte (x * 16 + y) :: pctTokens rest := by
  simp [pctTokens, ha, hb]

theorem hexVal_upper : ∀ n, n < 16 → hexVal (hexDigitUpper n) = some n := by decide

theorem alwaysSafe_facts : ∀ b ∈ Gen.TotpSerial.alwaysSafe, b < 128 ∧ b ≠ 37 := by decide

theorem hexDigit_alwaysSafe : ∀ n, n < 16 → Gen.TotpSerial.alwaysSafe.contains (hexDigitUpper n) = true := by decide

/-- the characters `quote(·, safe)` can emit -/
def quotedChar (safe : List Nat) (c : Nat) : Prop :=
  Gen.TotpSerial.alwaysSafe.contains c = true ∨ (c < 128 ∧ safe.contains c = true) ∨ c = 37

theorem quoteByte_tokens (safe : List Nat) (hs : safe.contains 37 = false) (b : Nat) (hb : b < 256) (rest : Str) :
    pctTokens (quoteByte safe b ++ rest) = .byte b :: pctTokens rest := by
  unfold quoteByte
  split
  · rename_i h
    have hb' : b < 128 ∧ b ≠ 37 := by
      simp only [Bool.or_eq_true, Bool.and_eq_true, decide_eq_true_eq] at h
      rcases h with h | ⟨h1, h2⟩
      · exact alwaysSafe_facts b (by simpa using h)
      · refine ⟨h1, ?_⟩
        intro e; subst e; rw [hs] at h2; exact absurd h2 (by simp)
    simp only [List.cons_append, List.nil_append]
    rw [pctTokens_cons_ne b rest hb'.2]
    simp [tokOf, hb'.1]
  · simp only [List.cons_append, List.nil_append]
    rw [pctTokens_escape _ _ (b / 16) (b % 16) rest (hexVal_upper _ (by omega)) (hexVal_upper _ (by omega))]
    congr 2; omega

theorem quoteBytes_tokens (safe : List Nat) (hs : safe.contains 37 = false) : ∀ (bs : Bytes), Bytes.WF bs → ∀ rest : Str,
    pctTokens (quoteBytes safe bs ++ rest) = bs.map Tok.byte ++ pctTokens rest
  | [], _, rest => by simp [quoteBytes]
  | b :: bs, h, rest => by
    have ih := quoteBytes_tokens safe hs bs (fun x hx => h x (by simp [hx])) rest
    simp only [quoteBytes, List.flatMap_cons, List.append_assoc] at ih ⊢
    rw [quoteByte_tokens safe hs b (h b (by simp)), ih]; simp

theorem unquoteRuns_bytes : ∀ (bs : Bytes) (toks : List Tok) (acc : Bytes),
    unquoteRuns (bs.map Tok.byte ++ toks) acc = unquoteRuns toks (bs.reverse ++ acc)
  | [], toks, acc => by simp
  | b :: bs, toks, acc => by
    simp only [List.map_cons, List.cons_append, unquoteRuns, List.reverse_cons, List.append_assoc, List.singleton_append]
    exact unquoteRuns_bytes bs toks (b :: acc)

/-- text whose tokens are the UTF-8 bytes of `t` unquotes to `t` -/
theorem unquote_of_tokens (s t : Str) (ht : t.all isScalar = true) (h : pctTokens s = (utf8Encode t).map Tok.byte) :
    unquote s = .ok t := by
  unfold unquote
  have := unquoteRuns_bytes (utf8Encode t) [] []
  simp only [List.append_nil] at this
  rw [h, this]
  simp only [unquoteRuns, List.reverse_reverse, utf8_roundtrip t ht]

/-- `unquote(quote(s, safe)) == s` for every string of scalar values and every safe set without '%' -/
theorem unquote_quote (s : Str) (safe : List Nat) (hs : safe.contains 37 = false) (h : s.all isScalar = true) :
    (quote s safe).bind unquote = .ok s := by
  unfold quote
  simp only [h, if_true, Out.bind]
  apply unquote_of_tokens _ _ h
  have := quoteBytes_tokens safe hs (utf8Encode s) (utf8Encode_wf s h) []
  simpa [pctTokens] using this

theorem unquote_quoteBytes (s : Str) (safe : List Nat) (hs : safe.contains 37 = false) (h : s.all isScalar = true) :
    unquote (quoteBytes safe (utf8Encode s)) = .ok s := by
  apply unquote_of_tokens _ _ h
  have := quoteBytes_tokens safe hs (utf8Encode s) (utf8Encode_wf s h) []
  simpa [pctTokens] using this

theorem quote_eq (s : Str) (safe : List Nat) (h : s.all isScalar = true) : quote s safe = .ok (quoteBytes safe (utf8Encode s)) := by
  unfold quote; simp [h]

/-! ### what quoted text is made of -/
theorem quoteByte_chars (safe : List Nat) (b : Nat) (hb : b < 256) : ∀ c ∈ quoteByte safe b, quotedChar safe c := by
  intro c hc
  unfold quoteByte at hc
  split at hc
  · rename_i h
    simp only [List.mem_singleton] at hc; subst hc
    simp only [Bool.or_eq_true, Bool.and_eq_true, decide_eq_true_eq] at h
    rcases h with h | h
    · exact Or.inl h
    · exact Or.inr (Or.inl h)
  · simp only [List.mem_cons, List.not_mem_nil, or_false] at hc
    rcases hc with rfl | rfl | rfl
    · exact Or.inr (Or.inr rfl)
    · exact Or.inl (hexDigit_alwaysSafe _ (by omega))
    · exact Or.inl (hexDigit_alwaysSafe _ (by omega))

theorem quoteBytes_chars (safe : List Nat) (bs : Bytes) (h : Bytes.WF bs) : ∀ c ∈ quoteBytes safe bs, quotedChar safe c := by
  intro c hc
  unfold quoteBytes at hc
  rcases List.mem_flatMap.1 hc with ⟨b, hb, hcb⟩
  exact quoteByte_chars safe b (h b hb) c hcb

/-- quote's output consists of unreserved characters, ASCII characters of `safe`, and '%' -/
theorem quote_chars (s : Str) (safe : List Nat) (q : Str) (h : quote s safe = .ok q) : ∀ c ∈ q, quotedChar safe c := by
  unfold quote at h
  split at h
  · rename_i hs
    injection h with h; subst h
    exact quoteBytes_chars safe _ (utf8Encode_wf s hs)
  · cases h

/-- … and every '%' starts an escape `%XX` with two upper-case hex digits: the text is a concatenation of single
    safe characters and such triples -/
theorem quote_shape (s : Str) (safe : List Nat) (q : Str) (h : quote s safe = .ok q) :
    ∃ pieces : List Str, q = pieces.flatten ∧ ∀ p ∈ pieces,
      (∃ c, p = [c] ∧ (Gen.TotpSerial.alwaysSafe.contains c = true ∨ (c < 128 ∧ safe.contains c = true))) ∨
      (∃ x y, x < 16 ∧ y < 16 ∧ p = [37, hexDigitUpper x, hexDigitUpper y]) := by
  unfold quote at h
  split at h
  · rename_i hs
    injection h with h; subst h
    refine ⟨(utf8Encode s).map (quoteByte safe), ?_, ?_⟩
    · simp [quoteBytes, List.flatMap]
    · intro p hp
      rcases List.mem_map.1 hp with ⟨b, hb, rfl⟩
      have hb256 := utf8Encode_wf s hs b hb
      unfold quoteByte
      split
      · rename_i hc
        left; refine ⟨b, rfl, ?_⟩
        simpa using hc
      · right; exact ⟨b / 16, b % 16, by omega, by omega, rfl⟩
  · cases h

theorem quoteBytes_ne_nil (safe : List Nat) (bs : Bytes) (h : bs ≠ []) : quoteBytes safe bs ≠ [] := by
  cases bs with
  | nil => exact absurd rfl h
  | cons b r =>
    unfold quoteBytes quoteByte
    simp only [List.flatMap_cons]
    split <;> simp

theorem utf8Encode_ne_nil (s : Str) (h : s ≠ []) : utf8Encode s ≠ [] := by
  cases s with
  | nil => exact absurd rfl h
  | cons c r =>
    unfold utf8Encode utf8EncodeCp
    simp only [List.flatMap_cons]
    split
    · simp
    · split
      · simp
      · split <;> simp

theorem utf8Encode_append (a b : Str) : utf8Encode (a ++ b) = utf8Encode a ++ utf8Encode b := by
  simp [utf8Encode]

/-- the counterexample behind the hypothesis: with '%' in the safe set the escape character itself is not escaped -/
theorem unquote_quote_fails_with_percent_safe :
    (quote [37, 52, 49] [37]).bind unquote = .ok [65] := by decide

end Lemmas.TotpSerial
