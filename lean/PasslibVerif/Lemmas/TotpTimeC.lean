import PasslibVerif.Lemmas.TotpTimeNorm
/-
The C accelerator's `utctimetuple` (`add_datetime_timedelta` / `normalize_datetime` / `normalize_y_m_d` with its one-day
shortcuts) computes the same as the Python text (`datetime.__add__` through ordinals).
-/
namespace Lemmas.TotpTimeC
open Py Model.TotpTime Lemmas.TotpTimeCal Lemmas.TotpTimeOrd Lemmas.TotpTimeMono Lemmas.TotpTimeNorm

theorem dbm_succ : ∀ leap : Bool, ∀ m : Nat, m < 12 → 1 ≤ m →
    daysBeforeMonthL leap (((m : Nat) : Int) + 1) = daysBeforeMonthL leap ((m : Nat) : Int) + daysInMonthL leap ((m : Nat) : Int) := by
  decide +kernel

theorem dbm_succ' (leap : Bool) (m : Int) (h1 : 1 ≤ m) (h2 : m < 12) :
    daysBeforeMonthL leap (m + 1) = daysBeforeMonthL leap m + daysInMonthL leap m := by
  obtain ⟨k, rfl⟩ : ∃ k : Nat, m = k := ⟨m.toNat, by omega⟩
  exact dbm_succ leap k (by omega) (by omega)

theorem dim_pos (leap : Bool) (m : Int) (h1 : 1 ≤ m) (h2 : m ≤ 12) : 28 ≤ daysInMonthL leap m := by
  unfold daysInMonthL DAYS_IN_MONTH; omega

theorem dbm_one (leap : Bool) : daysBeforeMonthL leap 1 = 0 := by cases leap <;> decide
theorem dbm_twelve (leap : Bool) : daysBeforeMonthL leap 12 + daysInMonthL leap 12 = if leap = true then 366 else 365 := by
  cases leap <;> decide

/-- the result of the Python text for the date part, as a function of the ordinal -/
def ofOrdinal (D : Int) : TRes (Int × Int × Int) :=
  if 0 < D ∧ D ≤ MAXORDINAL then .ok (ordToYmd D) else .error .overflowError

theorem ofOrdinal_valid (y m d : Int) (h : ValidDate y m d) : ofOrdinal (ymdToOrd y m d) = .ok (y, m, d) := by
  have r := ord_range_of_valid y m d h
  unfold ofOrdinal
  rw [if_pos ⟨by omega, r.2⟩, ordToYmd_ymdToOrd y m d h.2.2.1 h.2.2.2.1 h.2.2.2.2.1 h.2.2.2.2.2]

/-- a date with a valid month and day but a year outside 1 … 9999 has an ordinal outside 1 … 3652059 -/
theorem ofOrdinal_bad_year (y m d : Int) (hm : 1 ≤ m) (hm' : m ≤ 12) (hd : 1 ≤ d) (hd' : d ≤ daysInMonth y m)
    (hy : ¬ (MINYEAR ≤ y ∧ y ≤ MAXYEAR)) : ofOrdinal (ymdToOrd y m d) = .error .overflowError := by
  have a := ymdToOrd_le_next_year y m d hm hm' hd hd'
  unfold ofOrdinal
  rw [if_neg]
  intro hr
  apply hy
  unfold MINYEAR MAXYEAR
  unfold MAXORDINAL at hr
  constructor
  · refine Int.not_lt.1 fun hlt => ?_
    have c := daysBeforeYear_mono (show y + 1 ≤ 1 by omega)
    have e1 : daysBeforeYear 1 = 0 := by decide
    omega
  · refine Int.not_lt.1 fun hlt => ?_
    have c := daysBeforeYear_mono (show (10000 : Int) ≤ y by omega)
    have e2 : daysBeforeYear 10000 = 3652059 := by decide
    omega

/-- the year check of `normalize_date` on a date with a valid month and day = the ordinal range check -/
theorem check_eq (y m d : Int) (hm : 1 ≤ m) (hm' : m ≤ 12) (hd : 1 ≤ d) (hd' : d ≤ daysInMonth y m) :
    (if MINYEAR ≤ y ∧ y ≤ MAXYEAR then (.ok (y, m, d) : TRes (Int × Int × Int)) else .error .overflowError) =
      ofOrdinal (ymdToOrd y m d) := by
  by_cases hy : MINYEAR ≤ y ∧ y ≤ MAXYEAR
  · rw [if_pos hy, ofOrdinal_valid y m d ⟨hy.1, hy.2, hm, hm', hd, hd'⟩]
  · rw [if_neg hy, ofOrdinal_bad_year y m d hm hm' hd hd' hy]

/-- `normalize_y_m_d` (any day offset, valid month) = going through the ordinal -/
theorem normalizeYmdC_eq (y m d : Int) (hm : 1 ≤ m) (hm' : m ≤ 12) :
    normalizeYmdC y m d = ofOrdinal (ymdToOrd y m 1 + d - 1) := by
  have hdim := dim_pos (isLeap y) m hm hm'
  unfold normalizeYmdC
  simp only []
  by_cases hin : d < 1 ∨ d > daysInMonth y m
  · rw [if_pos hin]
    by_cases h0 : d = 0
    · rw [if_pos h0]
      by_cases hm1 : m - 1 > 0
      · rw [if_pos hm1, check_eq y (m - 1) _ (by omega) (by omega) (by have := dim_pos (isLeap y) (m - 1) (by omega) (by omega); unfold daysInMonth; omega) (Int.le_refl _)]
        congr 1
        have := dbm_succ' (isLeap y) (m - 1) (by omega) (by omega)
        rw [show m - 1 + 1 = m by omega] at this
        unfold ymdToOrd daysBeforeMonth daysInMonth; omega
      · rw [if_neg hm1, check_eq (y - 1) 12 31 (by decide) (by decide) (by decide) (by unfold daysInMonth daysInMonthL DAYS_IN_MONTH; simp)]
        congr 1
        have hm1' : m = 1 := by omega
        have s := daysBeforeYear_succ (y - 1)
        rw [show y - 1 + 1 = y by omega] at s
        have t := dbm_twelve (isLeap (y - 1))
        have d31 : daysInMonthL (isLeap (y - 1)) 12 = 31 := by unfold daysInMonthL DAYS_IN_MONTH; simp
        subst hm1' h0
        simp only [ymdToOrd, daysBeforeMonth, dbm_one]
        omega
    · rw [if_neg h0]
      by_cases h1 : d = daysInMonth y m + 1
      · rw [if_pos h1]
        by_cases hm12 : m + 1 > 12
        · rw [if_pos hm12, check_eq (y + 1) 1 1 (by decide) (by decide) (by decide) (by unfold daysInMonth daysInMonthL DAYS_IN_MONTH; simp)]
          congr 1
          have hm12' : m = 12 := by omega
          have s := daysBeforeYear_succ y
          have t := dbm_twelve (isLeap y)
          subst hm12'
          simp only [ymdToOrd, daysBeforeMonth, dbm_one, h1, daysInMonth]
          omega
        · rw [if_neg hm12, check_eq y (m + 1) 1 (by omega) (by omega) (by decide) (by have := dim_pos (isLeap y) (m + 1) (by omega) (by omega); unfold daysInMonth; omega)]
          congr 1
          have := dbm_succ' (isLeap y) m hm (by omega)
          simp only [ymdToOrd, daysBeforeMonth, h1, daysInMonth]; omega
      · rw [if_neg h1]
        unfold ofOrdinal
        by_cases hr : ymdToOrd y m 1 + d - 1 < 1 ∨ ymdToOrd y m 1 + d - 1 > MAXORDINAL
        · rw [if_pos hr, if_neg (by omega)]
        · rw [if_neg hr, if_pos (by omega)]
  · rw [if_neg hin, check_eq y m d hm hm' (by omega) (by omega)]
    congr 1
    unfold ymdToOrd; omega

/-- the four `normalize_pair`s = one floor division of the total -/
theorem addTimedeltaC_eq (dt : DateTime) (off : Int) (h : dt.WF) :
    addTimedeltaC dt off = subOffset dt off := by
  obtain ⟨hv, h0, h1, h2, h3, h4, h5, h6, h7, _⟩ := h
  rw [subOffset_eq]
  unfold addTimedeltaC fieldsOfTotal
  simp only []
  rw [normalizeYmdC_eq _ _ _ hv.2.2.1 hv.2.2.2.1]
  unfold ofOrdinal
  have hO : ymdToOrd dt.year dt.month dt.day = ymdToOrd dt.year dt.month 1 + dt.day - 1 := by unfold ymdToOrd; omega
  generalize ymdToOrd dt.year dt.month 1 = O1 at hO ⊢
  rw [hO]
  have eUS : US = 1000000 := rfl
  have eDAY : DAY_US = 86400000000 := rfl
  rw [eUS] at h7
  simp only [eUS, eDAY]
  generalize dt.day = d, dt.hour = hh, dt.minute = mi, dt.second = s, dt.micro = us at *
  have e1 : O1 + (d - off / 86400000000 +
      (hh + (mi + (s - off % 86400000000 / 1000000 + (us - off % 86400000000 % 1000000) / 1000000) / 60) / 60) / 24) - 1
      = (((O1 + d - 1) * 86400 + hh * 3600 + mi * 60 + s) * 1000000 + us - off) / 86400000000 := by omega
  have e2 : (hh + (mi + (s - off % 86400000000 / 1000000 + (us - off % 86400000000 % 1000000) / 1000000) / 60) / 60) % 24
      = (((O1 + d - 1) * 86400 + hh * 3600 + mi * 60 + s) * 1000000 + us - off) % 86400000000 / 1000000 / 3600 := by omega
  have e3 : (mi + (s - off % 86400000000 / 1000000 + (us - off % 86400000000 % 1000000) / 1000000) / 60) % 60
      = (((O1 + d - 1) * 86400 + hh * 3600 + mi * 60 + s) * 1000000 + us - off) % 86400000000 / 1000000 % 3600 / 60 := by omega
  have e4 : (s - off % 86400000000 / 1000000 + (us - off % 86400000000 % 1000000) / 1000000) % 60
      = (((O1 + d - 1) * 86400 + hh * 3600 + mi * 60 + s) * 1000000 + us - off) % 86400000000 / 1000000 % 3600 % 60 := by omega
  rw [e1, e2, e3, e4]
  generalize (((O1 + d - 1) * 86400 + hh * 3600 + mi * 60 + s) * 1000000 + us - off) / 86400000000 = D
  by_cases hr : 0 < D ∧ D ≤ MAXORDINAL
  · rw [if_pos hr, if_pos hr]
  · rw [if_neg hr, if_neg hr]

theorem utcTimeTupleC_eq (dt : DateTime) (h : dt.WF) : utcTimeTupleC dt = utcTimeTuple dt := by
  rcases hcase : dt.offset with _ | off
  · unfold utcTimeTupleC utcTimeTuple; rw [hcase]
  · unfold utcTimeTupleC utcTimeTuple; rw [hcase]
    simp only []
    rw [addTimedeltaC_eq dt off h]
    by_cases h0 : off = 0
    · rw [if_pos h0]
      -- a zero offset: the addition gives the fields back
      subst h0
      obtain ⟨hv, g0, g1, g2, g3, g4, g5, g6, g7, _⟩ := h
      have r := ord_range_of_valid _ _ _ hv
      rw [subOffset_eq]
      unfold fieldsOfTotal
      have eUS : US = 1000000 := rfl
      have eDAY : DAY_US = 86400000000 := rfl
      rw [eUS] at g7
      simp only [eUS, eDAY]
      generalize hO : ymdToOrd dt.year dt.month dt.day = O at r ⊢
      have e1 : ((O * 86400 + dt.hour * 3600 + dt.minute * 60 + dt.second) * 1000000 + dt.micro - 0) / 86400000000 = O := by omega
      have e2 : ((O * 86400 + dt.hour * 3600 + dt.minute * 60 + dt.second) * 1000000 + dt.micro - 0) % 86400000000 / 1000000
          = dt.hour * 3600 + dt.minute * 60 + dt.second := by omega
      rw [e1, e2, if_pos ⟨by omega, r.2⟩, ← hO, ordToYmd_ymdToOrd _ _ _ hv.2.2.1 hv.2.2.2.1 hv.2.2.2.2.1 hv.2.2.2.2.2]
      simp only [Except.ok.injEq, Prod.mk.injEq, true_and]
      omega
    · rw [if_neg h0]

end Lemmas.TotpTimeC
