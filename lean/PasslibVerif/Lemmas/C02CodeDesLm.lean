import PasslibVerif.Lemmas.C02CodeDesBig
/-
Lemmas for Props.C02CodeDes, part 4: `lmhash.raw` / `lmhash._calc_checksum` (two 7-byte keys through `des_encrypt_block` over
`KGS!@#$%`) and `des_cbc_encrypt` / `oracle10._calc_checksum` (CBC-MAC loop over the 8-byte blocks, twice).
-/
namespace Lemmas.C02CodeDes
open Py Model.B64 Model.Code.Des Spec.Formats Model.Des Lemmas.DesTables
open Model.Verify (Secret)

/-! ### big-endian packing -/

theorem pack64_eq (v : Nat) : pack64 v = beBytes 8 v := by
  simp only [pack64, beBytes, List.range, List.range.loop, List.map, Nat.reduceSub, Nat.reduceMul, Bits.and255]

theorem unpack64_eq (k : List Nat) : unpack64 k = beNat k := rfl

theorem unpack56_eq (k : List Nat) : unpack56 k = beNat k := by
  simp only [unpack56, unpack64, beNat, List.foldl, Nat.zero_mul, Nat.add_zero]

theorem bytesToInt_eq (k : List Nat) : bytesToInt k = beNat k := rfl

theorem beBytes_length (k n : Nat) : (beBytes k n).length = k := by simp [beBytes]

theorem beBytes_lt (k n : Nat) : ∀ b ∈ beBytes k n, b < 256 := by
  intro b hb
  simp only [beBytes, List.mem_map] at hb
  obtain ⟨i, _, rfl⟩ := hb
  exact Nat.mod_lt _ (by decide)

theorem beNat_beBytes8 (v : Nat) (h : v < 2 ^ 64) : beNat (beBytes 8 v) = v := by
  simp only [beNat, beBytes, List.range, List.range.loop, List.map, List.foldl, Nat.reduceSub, Nat.reduceMul,
    Nat.shiftRight_eq_div_pow, Nat.reducePow, Nat.zero_mul, Nat.zero_add, Nat.div_one]
  omega

theorem beNat_lt (bs : List Nat) (hl : bs.length = 8) (hb : ∀ b ∈ bs, b < 256) : beNat bs < 2 ^ 64 :=
  Lemmas.DesEquiv.unpack64_lt bs hl hb

/-! ### `expand_des_key` = RFC 2433 "insert the parity bits" -/

theorem expand_eq (v : Nat) : unpack64 (expandBytesOf v) =
    (List.range 8).foldl (fun acc i => acc * 256 + ((v >>> (49 - 7 * i)) % 128) * 2) 0 := by
  simp only [unpack64, expandBytesOf, Gen.Des._EXPAND_ITER, List.map, List.foldl, List.range, List.range.loop, Nat.reduceSub,
    Nat.reduceMul, Bits.and127, Nat.shiftLeft_eq, Nat.pow_one]

theorem expand7_eq (k7 : List Nat) (h : k7.length = 7) : unpack64 (expandBytesOf (unpack56 k7)) = expand7 k7 := by
  rw [expand_eq, unpack56_eq]
  unfold expand7
  have : (k7 ++ List.replicate 7 0).take 7 = k7 := by
    rw [List.take_append_of_le_length (by omega), List.take_of_length_le (by omega)]
  simp only [this]

theorem lmMagic_eq : unpack64 LM_MAGIC = lmMagic := by decide

/-- one half of the LM hash: `des_encrypt_block(key7, b"KGS!@#$%")` is RFC 2433 `DesHash` -/
theorem desBlock_lm (k7 : List Nat) (h : k7.length = 7) : desBlock k7 LM_MAGIC = .ok (lmDesHash k7) := by
  unfold desBlock
  rw [Lemmas.DesEquiv.desEncryptBlock_key7 k7 LM_MAGIC 0 1 h (by decide) (by decide) (by decide) (by decide)]
  simp only [expand7_eq k7 h, lmMagic_eq, Lemmas.DesEquiv.desCryptCore_plain, pack64_eq, lmDesHash]

/-! ### `right_pad_string`, `lmhash.raw` -/

theorem rightPadString_eq (s : List Nat) (n : Nat) : rightPadString s n = (s ++ List.replicate n 0).take n := by
  unfold rightPadString slice
  by_cases h : n > s.length
  · simp only [h, if_true]
    rw [List.take_append, List.take_of_length_le (by omega), List.take_replicate]
    congr 2
    omega
  · simp only [h, if_false, List.drop_zero]
    rw [List.take_append_of_le_length (by omega)]

theorem pad14_length (s : List Nat) : ((s ++ List.replicate 14 0).take 14).length = 14 := by
  rw [List.length_take, List.length_append, List.length_replicate]; omega

theorem lmhashRawUpper_eq (s : List Nat) :
    lmhashRawUpper s = .ok (let p := (s ++ List.replicate 14 0).take 14; lmDesHash (p.take 7) ++ lmDesHash (p.drop 7)) := by
  unfold lmhashRawUpper
  simp only [rightPadString_eq]
  generalize hp : (s ++ List.replicate 14 0).take 14 = p
  have hl : p.length = 14 := by rw [← hp]; exact pad14_length s
  have e1 : slice p 0 7 = p.take 7 := by simp [slice]
  have e2 : slice p 7 14 = p.drop 7 := by
    unfold slice; rw [List.take_of_length_le (by omega)]
  rw [e1, e2, desBlock_lm _ (by rw [List.length_take]; omega), desBlock_lm _ (by rw [List.length_drop]; omega)]

theorem bytesUpper_eq (s : List Nat) : bytesUpper s = s.map upperAscii := rfl

/-! ### hexlify -/

theorem flatMap_congr' {α β : Type} (l : List α) (f g : α → List β) (h : ∀ x ∈ l, f x = g x) : l.flatMap f = l.flatMap g := by
  induction l with
  | nil => rfl
  | cons a t ih =>
    simp only [List.flatMap_cons]
    rw [h a (by simp), ih (fun x hx => h x (List.mem_cons_of_mem _ hx))]

theorem hexlify_eq (b : List Nat) (h : ∀ x ∈ b, x < 256) : hexlify b = hexLower b := by
  unfold hexlify hexLower
  apply flatMap_congr'
  intro x hx
  have : x / 16 % 16 = x / 16 := Nat.mod_eq_of_lt (by have := h x hx; omega)
  simp only [hexDigitL, this]

theorem hexDigitL_lt (n : Nat) (h : n < 16) : hexDigitL n < 128 := by
  unfold hexDigitL; split <;> omega

theorem hexLower_ascii (b : List Nat) : (hexLower b).all (· < 128) = true := by
  simp only [hexLower, List.all_flatMap, List.all_eq_true, List.all_cons, List.all_nil, Bool.and_true, Bool.and_eq_true,
    decide_eq_true_eq]
  intro x _
  exact ⟨hexDigitL_lt _ (Nat.mod_lt _ (by decide)), hexDigitL_lt _ (Nat.mod_lt _ (by decide))⟩

theorem lmDesHash_lt (k : List Nat) : ∀ x ∈ lmDesHash k, x < 256 := beBytes_lt _ _

/-- `lmhash._calc_checksum` on a bytes secret: every length, every byte value -/
theorem lmhashCalcBytes_eq_spec (secret : List Nat) : lmhashCalcBytes secret = .ok (lmhash secret) := by
  unfold lmhashCalcBytes lmhashRawBytes
  rw [lmhashRawUpper_eq, bytesUpper_eq]
  simp only []
  rw [hexlify_eq _ (by
    intro x hx
    rcases List.mem_append.1 hx with h | h <;> exact lmDesHash_lt _ x h)]
  unfold decodeAscii
  rw [hexLower_ascii]
  simp only [if_true, lmhash]

/-! ### `xor_bytes`, `des_cbc_encrypt` -/

theorem intToBytes8 (v : Nat) (h : v < 2 ^ 64) : intToBytes v 8 = .ok (beBytes 8 v) := by
  unfold intToBytes
  have : v < 256 ^ 8 := by simpa using h
  simp only [this, if_true, beBytes]

theorem xorBytes8 (c : Nat) (hc : c < 2 ^ 64) (blk : List Nat) (hl : blk.length = 8) (hb : ∀ b ∈ blk, b < 256) :
    xorBytes (beBytes 8 c) blk = .ok (beBytes 8 (c ^^^ beNat blk)) := by
  unfold xorBytes
  rw [bytesToInt_eq, bytesToInt_eq, beNat_beBytes8 c hc, beBytes_length,
    intToBytes8 _ (Nat.xor_lt_two_pow hc (beNat_lt blk hl hb))]

/-- one CBC step: `des_encrypt_block(key8, chunk)` = FIPS DES under the big-endian key -/
theorem desBlock_key8 (key : List Nat) (hk : key.length = 8) (hkb : ∀ b ∈ key, b < 256) (v : Nat) (hv : v < 2 ^ 64) :
    desBlock key (beBytes 8 v) = .ok (beBytes 8 (Spec.Des.desEncrypt (beNat key) v)) := by
  unfold desBlock
  rw [Lemmas.DesEquiv.desEncryptBlock_key8 key (beBytes 8 v) 0 1 hk (beBytes_length _ _) hkb (beBytes_lt _ _) (by decide) (by decide)]
  simp only [unpack64_eq, beNat_beBytes8 v hv, Lemmas.DesEquiv.desCryptCore_plain, pack64_eq]

/-- `[o, o+8, …]`, `m` offsets -/
def offsFrom : Nat → Nat → List Nat
  | _, 0 => []
  | o, m + 1 => o :: offsFrom (o + 8) m

theorem range_map_offs : ∀ (m o : Nat), (List.range m).map (fun i => o + i * 8) = offsFrom o m
  | 0, _ => rfl
  | m + 1, o => by
    rw [List.range_succ_eq_map, List.map_cons, List.map_map, offsFrom, ← range_map_offs m (o + 8)]
    simp only [Nat.zero_mul, Nat.add_zero, List.cons.injEq, true_and]
    apply List.map_congr_left
    intro i _
    simp only [Function.comp]
    omega

theorem range8_eq (m : Nat) : range8 (8 * m) = offsFrom 0 m := by
  unfold range8
  have : (8 * m + 7) / 8 = m := by omega
  rw [this, ← range_map_offs m 0]
  apply List.map_congr_left
  intro i _
  omega

/-- the CBC step of the specification -/
def cbcStep (key : Nat) (c : Nat) (p : List Nat) : Nat := Spec.Des.desEncrypt key (c ^^^ beNat p)

theorem mem_of_mem_take_drop {v : List Nat} {o : Nat} {b : Nat} (h : b ∈ (v.drop o).take 8) : b ∈ v :=
  List.mem_of_mem_drop (List.mem_of_mem_take h)

/-- loop invariant of `des_cbc_encrypt`: the running `hash` is the big-endian form of the running CBC value -/
theorem cbcLoop_eq (key value : List Nat) (hk : key.length = 8) (hkb : ∀ b ∈ key, b < 256) (hvb : ∀ b ∈ value, b < 256) :
    ∀ (m o c : Nat), c < 2 ^ 64 → value.length = o + 8 * m →
    cbcLoop key value (offsFrom o m) (beBytes 8 c) = .ok (beBytes 8 ((chunksOf 8 (value.drop o)).foldl (cbcStep (beNat key)) c))
  | 0, o, c, _, hl => by
    simp only [offsFrom, cbcLoop]
    rw [List.drop_eq_nil_of_le (by omega), chunksOf_nil, List.foldl_nil]
  | m + 1, o, c, hc, hl => by
    simp only [offsFrom, cbcLoop]
    have hlen : ((value.drop o).take 8).length = 8 := by rw [List.length_take, List.length_drop]; omega
    rw [slice_block, xorBytes8 c hc _ hlen (fun b hb => hvb b (mem_of_mem_take_drop hb))]
    simp only []
    rw [desBlock_key8 key hk hkb _ (Nat.xor_lt_two_pow hc (beNat_lt _ hlen (fun b hb => hvb b (mem_of_mem_take_drop hb))))]
    simp only []
    rw [cbcLoop_eq key value hk hkb hvb m (o + 8) _ (desEncrypt_lt _ _) (by omega)]
    rw [chunksOf_step 8 (by decide) (value.drop o) (drop_ne_nil value o (by omega)), List.foldl_cons, List.drop_drop]
    rfl

theorem pad8_length (n : Nat) : ∃ m, n + (8 - n % 8) % 8 = 8 * m := ⟨(n + 7) / 8, by omega⟩

theorem zeros8 : List.replicate 8 0 = beBytes 8 0 := by decide

/-- `des_cbc_encrypt(key, value)` (default IV and pad byte) = the last block of DES-CBC over the zero padded value -/
theorem desCbcEncrypt_eq (key value : List Nat) (hk : key.length = 8) (hkb : ∀ b ∈ key, b < 256) (hvb : ∀ b ∈ value, b < 256) :
    desCbcEncrypt key value
      = .ok (beBytes 8 (desCbcLast (beNat key) (chunksOf 8 (value ++ List.replicate ((8 - value.length % 8) % 8) 0)))) := by
  unfold desCbcEncrypt
  simp only []
  generalize hp : value ++ List.replicate ((8 - value.length % 8) % 8) 0 = padded
  have hpb : ∀ b ∈ padded, b < 256 := by
    intro b hb
    rw [← hp] at hb
    rcases List.mem_append.1 hb with h | h
    · exact hvb b h
    · rw [List.eq_of_mem_replicate h]; decide
  obtain ⟨m, hm⟩ := pad8_length value.length
  have hl : padded.length = 8 * m := by rw [← hp, List.length_append, List.length_replicate]; exact hm
  rw [hl, range8_eq, zeros8, cbcLoop_eq key padded hk hkb hpb m 0 0 (by decide) (by omega)]
  rfl

/-! ### `oracle10._calc_checksum` -/

theorem upper_hex_fin : ∀ x : Fin 256,
    (let up := fun c => if 97 ≤ c ∧ c ≤ 122 then c - 32 else c
     [up (if x.val / 16 < 10 then 48 + x.val / 16 else 87 + x.val / 16), up (if x.val % 16 < 10 then 48 + x.val % 16 else 87 + x.val % 16)])
      = [hexDigitU (x.val / 16 % 16), hexDigitU (x.val % 16)] := by decide +kernel

theorem asciiUpper_hexlify (b : List Nat) (h : ∀ x ∈ b, x < 256) : asciiUpper (hexlify b) = hexUpper b := by
  unfold asciiUpper hexlify hexUpper
  rw [List.map_flatMap]
  apply flatMap_congr'
  intro x hx
  exact upper_hex_fin ⟨x, h x hx⟩

theorem hexlify_ascii (b : List Nat) (h : ∀ x ∈ b, x < 256) : (hexlify b).all (· < 128) = true := by
  rw [hexlify_eq b h]; exact hexLower_ascii b

theorem oracleMagic_eq : beNat ORACLE10_MAGIC = 0x0123456789ABCDEF := by decide

/-- `oracle10._calc_checksum` from the UTF-16-BE input on: two CBC-MAC passes, hex in upper case -/
theorem oracle10CalcInput_eq (input : List Nat) (hb : ∀ b ∈ input, b < 256) :
    oracle10CalcInput input = .ok (
      let blocks := chunksOf 8 (input ++ List.replicate ((8 - input.length % 8) % 8) 0)
      hexUpper (beBytes 8 (desCbcLast (desCbcLast 0x0123456789ABCDEF blocks) blocks))) := by
  unfold oracle10CalcInput
  rw [desCbcEncrypt_eq ORACLE10_MAGIC input (by decide) (by decide) hb]
  simp only []
  rw [desCbcEncrypt_eq _ input (beBytes_length _ _) (beBytes_lt _ _) hb]
  simp only [decodeAscii, hexlify_ascii _ (beBytes_lt _ _), if_true, asciiUpper_hexlify _ (beBytes_lt _ _), oracleMagic_eq]
  rw [beNat_beBytes8 _ (by
    unfold desCbcLast
    generalize chunksOf 8 (input ++ List.replicate ((8 - input.length % 8) % 8) 0) = blocks
    have : ∀ (bl : List (List Nat)) (c : Nat), c < 2 ^ 64 →
        bl.foldl (fun c p => Spec.Des.desEncrypt 0x0123456789ABCDEF (c ^^^ beNat p)) c < 2 ^ 64 := by
      intro bl
      induction bl with
      | nil => intro c hc; exact hc
      | cons p rest ih => intro c _; exact ih _ (desEncrypt_lt _ _)
    exact this blocks 0 (by decide))]

/-! ### the UTF-16-BE input of the specification is a byte string -/

theorem upperAscii_le (c : Nat) : upperAscii c ≤ c := by
  unfold upperAscii; split <;> omega

theorem utf16Units_lt (u : Nat) (h : u < 0x110000) : ∀ w ∈ utf16Units u, w < 0x10000 := by
  intro w hw
  unfold utf16Units at hw
  split at hw
  · simp only [List.mem_singleton] at hw; omega
  · simp only [List.mem_cons, List.not_mem_nil, or_false] at hw
    rcases hw with h1 | h1 <;> omega

/-- the `raw` of `Spec.Formats.oracle10` -/
def oracleRaw (pwd user : List Nat) : List Nat :=
  (((utf8Scalars user ++ utf8Scalars pwd).map upperAscii).flatMap utf16Units).flatMap fun w => [w / 256, w % 256]

theorem oracleRaw_lt (pwd user : List Nat) (h : ∀ u ∈ utf8Scalars user ++ utf8Scalars pwd, u < 0x110000) :
    ∀ b ∈ oracleRaw pwd user, b < 256 := by
  intro b hb
  simp only [oracleRaw, List.mem_flatMap, List.mem_map] at hb
  obtain ⟨w, ⟨u', ⟨u, hu, rfl⟩, hw⟩, hb⟩ := hb
  have hlt : upperAscii u < 0x110000 := Nat.lt_of_le_of_lt (upperAscii_le u) (h u hu)
  have := utf16Units_lt _ hlt w hw
  simp only [List.mem_cons, List.not_mem_nil, or_false] at hb
  rcases hb with rfl | rfl <;> omega

theorem oracle10_spec_unfold (pwd user : List Nat) :
    oracle10 pwd user = (let blocks := chunksOf 8 (oracleRaw pwd user ++ List.replicate ((8 - (oracleRaw pwd user).length % 8) % 8) 0)
      hexUpper (beBytes 8 (desCbcLast (desCbcLast 0x0123456789ABCDEF blocks) blocks))) := rfl

end Lemmas.C02CodeDes
