import PasslibVerif.Props.C01
import PasslibVerif.Props.C08
import PasslibVerif.Model.VerifyCrypt
/-
Helpers for Props/C08Crypt.lean: a sharper "where can an error of `verify` come from" (the digest is only ever run on what the parser
returned), what `hash` returns, and the salt bound of whatever the sha256_crypt / sha512_crypt parser accepts.
-/
namespace Lemmas.C08Crypt
open Py Model.Handler Model.Formats Model.Verify Model.VerifyCrypt Props.C01

/-- the errors `verify` can raise: its own three checks, the parser's, or the digest's ON THE PARSED VALUE -/
theorem verify_error_sources' (h : Hasher) (s : Secret) (hs : Str) (e : ErrKind) (hv : verify h s hs = .error e) :
    e = .sizeError ∨ e = .valueError ∨ e = .nullError ∨ h.parse hs = .error e ∨ ∃ b p, h.parse hs = .ok p ∧ h.digest b p = .error e := by
  unfold verify at hv
  cases hvs : validateSecret s with
  | error e' =>
    simp only [hvs, Except.error.injEq] at hv
    unfold validateSecret at hvs
    by_cases hl : s.len > MAX_PASSWORD_SIZE
    · simp [hl] at hvs; left; rw [← hv, ← hvs]
    · simp [hl] at hvs
  | ok u =>
    simp only [hvs] at hv
    cases hp : h.parse hs with
    | error e' => simp only [hp, Except.error.injEq] at hv; right; right; right; left; rw [hv]
    | ok p =>
      simp only [hp] at hv
      cases hc : p.checksum with
      | none => simp only [hc, Except.error.injEq] at hv; right; left; exact hv.symm
      | some chk =>
        simp only [hc] at hv
        unfold checksumOf at hv
        cases hb : s.toBytes with
        | error e' =>
          simp only [hb, Except.error.injEq] at hv
          right; left
          unfold Secret.toBytes at hb
          cases s with
          | bytes bs => simp at hb
          | text cps => simp only at hb; split at hb <;> simp at hb; rw [← hv, ← hb]
        | ok b =>
          simp only [hb, Bool.false_eq_true, if_false] at hv
          cases hn : checkNul h b with
          | error e' =>
            simp only [hn, Except.error.injEq] at hv
            right; right; left
            unfold checkNul at hn
            split at hn <;> simp at hn
            rw [← hv, ← hn]
          | ok u =>
            simp only [hn] at hv
            cases hd : h.digest b p with
            | error e' => simp only [hd, Except.error.injEq] at hv; right; right; right; right; exact ⟨b, p, rfl, by rw [hd, hv]⟩
            | ok d => simp [hd] at hv

/-- the answers of `verify` the property allows: a Boolean, or the documented value / size / NUL errors -/
def Documented (r : Res Bool) : Prop :=
  (∃ v, r = .ok v) ∨ r = .error .valueError ∨ r = .error .sizeError ∨ r = .error .nullError

/-- a hasher whose parser raises only value errors and whose digest succeeds on everything the parser returns never raises anything else -/
theorem verify_total_of (h : Hasher) (hparse : ∀ hs e, h.parse hs = .error e → e = .valueError)
    (hdig : ∀ hs p b, h.parse hs = .ok p → ∃ c, h.digest b p = .ok c) (s : Secret) (hs : Str) : Documented (verify h s hs) := by
  unfold Documented
  cases hv : verify h s hs with
  | ok v => exact Or.inl ⟨v, rfl⟩
  | error e =>
    right
    rcases verify_error_sources' h s hs e hv with h1 | h1 | h1 | h1 | ⟨b, p, hp, hd⟩
    · right; left; rw [h1]
    · left; rw [h1]
    · right; right; rw [h1]
    · left; rw [hparse hs e h1]
    · obtain ⟨c, hc⟩ := hdig hs p b hp
      rw [hc] at hd; cases hd

/-- what `hashSecret` returns: the rendering of the settings with a checksum the digest function produced -/
theorem hashSecret_shape (h : Hasher) (s : Secret) (p : Parsed) (hs : Str) (hh : hashSecret h s p = .ok hs) :
    ∃ b c, h.digest b p = .ok c ∧ hs = h.render { p with checksum := some c } := by
  unfold hashSecret at hh
  cases hv : validateSecret s with
  | error e => simp [hv] at hh
  | ok u =>
    simp only [hv] at hh
    cases hc : checksumOf h true s p with
    | error e => simp [hc] at hh
    | ok c =>
      simp only [hc, Except.ok.injEq] at hh
      obtain ⟨b, hb⟩ := checksumOf_is_digest h true s p c hc
      exact ⟨b, c, hb, hh.symm⟩

/-- C08 (a) for any hasher: a string `hash` made, and another string that parses to the same settings with another checksum -/
theorem altered_checksum_of_hash (h : Hasher) (s : Secret) (p : Parsed) (hs hs' c' : Str) (hrt : RoundTrips h p) (hi : IgnoresChecksum h)
    (hh : hashSecret h s p = .ok hs) (hp' : h.parse hs' = .ok { p with checksum := some c' }) (hne : h.parse hs' ≠ h.parse hs) :
    verify h s hs' = .ok false := by
  obtain ⟨b, c, hd, hr⟩ := hashSecret_shape h s p hs hh
  have hp : h.parse hs = .ok { p with checksum := some c } := by rw [hr]; exact hrt b c hd
  have hcc : c' ≠ c := by
    intro e; subst e; exact hne (by rw [hp, hp'])
  exact Props.C08.altered_checksum_never_verifies h s hs hs' p c c' hi hp hp' hcc (verify_own_hash h s p hs hrt hi hh)

theorem toRes_error {α} (o : Option α) (e : ErrKind) (h : toRes o = .error e) : e = .valueError := by
  cases o with
  | none => simp only [toRes, Except.error.injEq] at h; exact h.symm
  | some a => simp [toRes] at h

theorem toRes_ok {α} (o : Option α) (a : α) (h : toRes o = .ok a) : o = some a := by
  cases o with
  | none => simp [toRes] at h
  | some b => simp only [toRes, Except.ok.injEq] at h; rw [h]

theorem normSalt_len (chars : Option (List Nat)) (m : Nat) (relaxed : Bool) (salt s : Str)
    (h : normSalt chars 0 (some m) relaxed salt = some s) (hm : m ≠ 0) : s.length ≤ m := by
  unfold normSalt at h
  simp at h
  have h2 := h.2
  by_cases hl : m < salt.length
  · cases relaxed
    · simp [hm, hl] at h2
    · simp only [hm, not_false_eq_true, hl, and_self, if_true, Option.some.injEq] at h2
      subst h2; simp only [List.length_take]; omega
  · simp only [hl, and_false, if_false, Option.some.injEq] at h2
    subst h2; omega

/-- whatever the sha256_crypt / sha512_crypt parser accepts has a salt of at most 16 characters and natural-number rounds -/
theorem sha2_parse_salt (ident : Str) (n : Nat) (hs : Str) (p : Parsed) (h : sha2Parse ident n hs = some p) :
    ∃ salt, p.salt = some salt ∧ salt.length ≤ 16 := by
  unfold sha2Parse at h
  simp only [Option.bind_eq_some_iff, Option.map_eq_some_iff] at h
  obtain ⟨body, _, ⟨rounds, implicit, rest⟩, _, ⟨salt, chk⟩, _, chk', _, s, hsalt, r, _, hp⟩ := h
  subst hp
  exact ⟨s, rfl, normSalt_len _ 16 _ salt s hsalt (by decide)⟩

end Lemmas.C08Crypt
