import PasslibVerif.Lemmas.C08Families
import PasslibVerif.Props.C01DesBcrypt
/-
`C08Facts` for the hashers of Model/VerifyFmt/DesBcrypt.lean, and the C08 set for bcrypt's own `verify` (`bcVerify`: the secret is
size-checked a second time as BYTES) and for django_bcrypt (`unwrap; bcVerify`).

des_crypt / bsdi_crypt / bigcrypt / crypt16 / django_des_crypt / phpass / sun_md5_crypt: parser = `toRes ∘ f`, total digest.
bcrypt / django_bcrypt_sha256: the digest is the bcrypt Spec, defined on everything the parser returns (ident other than `$2x$`, cost 4..31,
22 canonical salt characters: `bcrypt_parse_wf`) — so no RuntimeError is reachable from `verify`.
bcrypt_sha256: the digest additionally raises ValueError for a v2 salt with padding bits (unreachable after the parser, kept as in the code);
its bcrypt call is only shown to raise nothing but RuntimeError (`[.runtimeError]`, the `_partial` form — see Props/C08FamiliesDesBcrypt.lean).
-/
namespace Lemmas.C08FamiliesDesBcrypt
open Py Model.Handler Model.Formats Model.Verify Model.VerifyFmt.DesBcrypt Props.C01 Lemmas.C08Families Lemmas.C08Crypt Lemmas.Formats
  Lemmas.C01DesBcrypt

theorem des_crypt_facts (te : Bool) : C08Facts [] (desHasher te) :=
  facts_of_toRes desCryptParse rfl (fun _ _ => ⟨_, rfl⟩) (fun _ _ _ => rfl)
theorem bsdi_crypt_facts : C08Facts [] bsdiHasher := facts_of_toRes bsdiParse rfl (fun _ _ => ⟨_, rfl⟩) (fun _ _ _ => rfl)
theorem bigcrypt_facts : C08Facts [] bigcryptHasher := facts_of_toRes bigcryptParse rfl (fun _ _ => ⟨_, rfl⟩) (fun _ _ _ => rfl)
theorem crypt16_facts (te : Bool) : C08Facts [] (crypt16Hasher te) :=
  facts_of_toRes crypt16Parse rfl (fun _ _ => ⟨_, rfl⟩) (fun _ _ _ => rfl)
theorem django_des_crypt_facts (te : Bool) : C08Facts [] (djangoDesHasher te) :=
  facts_of_toRes djangoDesParse rfl (fun _ _ => ⟨_, rfl⟩) (fun _ _ _ => rfl)
theorem phpass_facts : C08Facts [] phpassHasher := facts_of_toRes phpassParse rfl (fun _ _ => ⟨_, rfl⟩) (fun _ _ _ => rfl)
theorem sun_md5_crypt_facts : C08Facts [] sunHasher := facts_of_toRes sunParse rfl (fun _ _ => ⟨_, rfl⟩) (fun _ _ _ => rfl)

/-- the bcrypt back end answers on whatever `bcrypt.from_string` accepts -/
theorem bcryptCore_of_parse (hs : Str) (p : Parsed) (key : Bytes) (hp : bcryptParseWith bcryptIdents hs = some p) :
    ∃ c, bcryptCore key p = .ok c := by
  obtain ⟨hi, hw⟩ := bcrypt_parse_wf hs p hp
  obtain ⟨n, hr, hn1, hn2⟩ := hw.rounds
  obtain ⟨salt, hsalt, hc1, hc2, _⟩ := hw.salt
  exact bcryptCore_some p key p.ident salt n rfl hsalt hr hi hc1 hc2 ⟨hn1, hn2⟩

theorem bcrypt_facts (te : Bool) : C08Facts [] (bcryptHasher te) where
  parseErr := fun hs e he => Or.inl (toRes_error _ e he)
  digestErr := fun hs p b e hp he => by
    obtain ⟨c, hc⟩ := bcryptCore_of_parse hs p b (toRes_ok _ p hp)
    have : bcryptCore b p = .error e := he
    rw [hc] at this; cases this
  ignores := fun _ _ _ => rfl

theorem django_bcrypt_sha256_facts : C08Facts [] djangoBcryptSha256Hasher where
  parseErr := fun hs e he => Or.inl (toRes_error _ e he)
  digestErr := fun hs p b e hp he => by
    have h := toRes_ok _ p hp
    unfold djangoBcryptSha256Parse at h
    simp only [Option.bind_eq_some_iff] at h
    obtain ⟨bhash, _, h2⟩ := h
    split at h2
    · cases h2
    · obtain ⟨c, hc⟩ := bcryptCore_of_parse bhash p (Spec.Formats.hexLower (Spec.SHA256.sha256 b)) h2
      have : bcryptCore (Spec.Formats.hexLower (Spec.SHA256.sha256 b)) p = .error e := he
      rw [hc] at this; cases this
  ignores := fun _ _ _ => rfl

theorem bcryptCore_err (key : Bytes) (p : Parsed) (e : ErrKind) (h : bcryptCore key p = .error e) : e = .runtimeError := by
  unfold bcryptCore at h
  split at h
  · cases h
  · cases h; rfl

/-- bcrypt_sha256, partial: the only non-ValueError error the digest can raise is the RuntimeError of the bcrypt back end -/
theorem bcrypt_sha256_facts_partial : C08Facts [.runtimeError] bcryptSha256Hasher where
  parseErr := fun hs e he => Or.inl (toRes_error _ e he)
  digestErr := fun hs p b e _ he => by
    have he' : bcryptSha256Digest b p = .error e := he
    unfold bcryptSha256Digest at he'
    split at he'
    · exact Or.inr (by rw [bcryptCore_err _ _ _ he']; simp)
    · split at he'
      · exact Or.inr (by rw [bcryptCore_err _ _ _ he']; simp)
      · cases he'; exact Or.inl rfl
  ignores := fun b p x => by
    show bcryptSha256Digest b { p with checksum := x } = bcryptSha256Digest b p
    unfold bcryptSha256Digest bsVersion1 bcryptCore; rfl

/-! ### `bcrypt.verify` = `bcVerify` -/

theorem toBytes_err (s : Secret) (e : ErrKind) (h : s.toBytes = .error e) : e = .valueError := by
  unfold Secret.toBytes at h
  cases s with
  | bytes bs => simp at h
  | text cps => simp only at h; split at h <;> simp at h; exact h.symm

theorem validate_of_len (s : Secret) (h : validateSecret s = .ok ()) : s.len ≤ MAX_PASSWORD_SIZE := by
  unfold validateSecret at h
  by_cases hgt : s.len > MAX_PASSWORD_SIZE
  · simp [hgt] at h
  · omega

/-- `bcVerify` through the generic `verify`: the generic answer on the encoded secret, except that an encoded secret beyond 4096 bytes is
    a PasswordSizeError at the point where the generic `verify` would start computing -/
theorem bcVerify_cases (h : Hasher) (s : Secret) (hs : Str) :
    bcVerify h s hs = verify h s hs ∨ (∃ b, s.toBytes = .ok b ∧ b.length ≤ MAX_PASSWORD_SIZE ∧ bcVerify h s hs = verify h (.bytes b) hs) ∨
      bcVerify h s hs = .error .sizeError := by
  cases hv : validateSecret s with
  | error e =>
    left; unfold bcVerify verify; simp only [hv]
  | ok u =>
    cases hb : s.toBytes with
    | error e =>
      left; unfold bcVerify verify bcChecksumOf checksumOf; simp only [hv, hb]
      cases h.parse hs with
      | error e' => rfl
      | ok p => cases p.checksum <;> rfl
    | ok b =>
      by_cases hl : b.length > MAX_PASSWORD_SIZE
      · cases hp : h.parse hs with
        | error e => left; unfold bcVerify verify; simp only [hv, hp]
        | ok p =>
          cases hc : p.checksum with
          | none => left; unfold bcVerify verify; simp only [hv, hp, hc]
          | some chk => right; right; unfold bcVerify bcChecksumOf; simp only [hv, hp, hc, hb, hl, if_true]
      · right; left
        exact ⟨b, rfl, by omega, bcVerify_of_bytes h s hs b (validate_of_len s hv) hb (by omega)⟩

theorem bcVerify_total {extra : List ErrKind} {h : Hasher} (F : C08Facts extra h) (s : Secret) (hs : Str) :
    Total extra h.rejectsNul (bcVerify h s hs) := by
  rcases bcVerify_cases h s hs with h1 | ⟨b, _, _, h1⟩ | h1
  · rw [h1]; exact verify_total F s hs
  · rw [h1]; exact verify_total F _ hs
  · rw [h1]; exact Or.inr (Or.inr (Or.inl rfl))

theorem bcChecksumOf_ignores (h : Hasher) (hi : IgnoresChecksum h) (f : Bool) (s : Secret) (p : Parsed) (x : Option Str) :
    bcChecksumOf h f s { p with checksum := x } = bcChecksumOf h f s p := by
  unfold bcChecksumOf
  cases s.toBytes with
  | error e => rfl
  | ok b => simp only [checksumOf_ignores h hi]

theorem bcVerify_same_parse (h : Hasher) (s : Secret) (h1 h2 : Str) (hp : h.parse h1 = h.parse h2) : bcVerify h s h1 = bcVerify h s h2 := by
  unfold bcVerify; rw [hp]

theorem bcVerify_altered_iff_checksum {extra : List ErrKind} {h : Hasher} (F : C08Facts extra h) (s : Secret) (hs hs' : Str) (p : Parsed)
    (c c' : Str) (hp : h.parse hs = .ok { p with checksum := some c }) (hp' : h.parse hs' = .ok { p with checksum := some c' })
    (hv : bcVerify h s hs = .ok true) : bcVerify h s hs' = .ok (c' == c) := by
  unfold bcVerify at hv ⊢
  cases hvs : validateSecret s with
  | error e => simp [hvs] at hv
  | ok u =>
    simp only [hvs, hp, hp'] at hv ⊢
    rw [bcChecksumOf_ignores h F.ignores] at hv ⊢
    cases hc : bcChecksumOf h false s p with
    | error e => simp [hc] at hv
    | ok d =>
      simp only [hc, Except.ok.injEq, beq_iff_eq] at hv ⊢
      subst hv
      rw [Bool.eq_iff_iff]; simp only [beq_iff_eq]
      exact ⟨fun e => e.symm, fun e => e.symm⟩

theorem bcVerify_altered_checksum_rejected {extra : List ErrKind} {h : Hasher} (F : C08Facts extra h) (s : Secret) (hs hs' : Str)
    (p : Parsed) (c c' : Str) (hp : h.parse hs = .ok { p with checksum := some c })
    (hp' : h.parse hs' = .ok { p with checksum := some c' }) (hne : c' ≠ c) (hv : bcVerify h s hs = .ok true) :
    bcVerify h s hs' = .ok false := by
  rw [bcVerify_altered_iff_checksum F s hs hs' p c c' hp hp' hv]; simp [hne]

theorem bcVerify_config_string_value_error (h : Hasher) (s : Secret) (hs : Str) (p : Parsed) (hl : s.len ≤ MAX_PASSWORD_SIZE)
    (hp : h.parse hs = .ok p) (hc : p.checksum = none) : bcVerify h s hs = .error .valueError := by
  have hv : validateSecret s = .ok () := by unfold validateSecret; simp; omega
  unfold bcVerify; simp [hv, hp, hc]

/-- django_bcrypt's `verify` is the generic `unwrapVerify` around `bcVerify` -/
theorem djangoBcryptVerify_eq (te : Bool) (s : Secret) (hs : Str) :
    djangoBcryptVerify te s hs = unwrapVerify (stripPrefix DJANGO_BCRYPT_PREFIX) (bcVerify (bcryptHasher te)) s hs := by
  unfold djangoBcryptVerify unwrapVerify
  cases hsp : stripPrefix DJANGO_BCRYPT_PREFIX hs <;> simp [hsp]

end Lemmas.C08FamiliesDesBcrypt
