import PasslibVerif.Model.B64
import PasslibVerif.Lemmas.B64
import PasslibVerif.Spec.Formats.Enc
/-
Lemmas for Props/C02CodeWrap, part 1: passlib's `bcrypt64` engine (`Model.B64.decodeBytes` / `encodeBytes` — the generated
chunk bodies with their shifts and masks) is the bcrypt base64 of the specification (`Spec.Formats.bcrypt64Decode` / `bcrypt64`:
OpenBSD `decode_base64` / `encode_base64` written with division and remainder), for every input string.
-/
namespace Lemmas.C02CodeWrap
open Py Gen.B64 Model.B64 Spec.Rfc4648

theorem bc_charmap : Model.B64.bcrypt64.charmap = Spec.Formats.bcryptAlphabet := by decide
theorem bc_big : Model.B64.bcrypt64.big = true := by decide

/-! ### 6-bit values → bytes -/

theorem dec_a : ∀ x1, x1 < 64 → ∀ x2, x2 < 64 → ((x1 <<< 2) ||| (x2 >>> 4)) = x1 * 4 + x2 / 16 := by decide +kernel
theorem dec_b : ∀ x2, x2 < 64 → ∀ x3, x3 < 64 → (((x2 &&& 15) <<< 4) ||| (x3 >>> 2)) = (x2 % 16) * 16 + x3 / 4 := by decide +kernel
theorem dec_c : ∀ x3, x3 < 64 → ∀ x4, x4 < 64 → (((x3 &&& 3) <<< 6) ||| x4) = (x3 % 4) * 64 + x4 := by decide +kernel

theorem decBigChunk_eq (v1 v2 v3 v4 : Nat) (h1 : v1 < 64) (h2 : v2 < 64) (h3 : v3 < 64) (h4 : v4 < 64) :
    decBigChunk v1 v2 v3 v4 =
      [(((v1 * 64 + v2) * 64 + v3) * 64 + v4) / 65536 % 256, (((v1 * 64 + v2) * 64 + v3) * 64 + v4) / 256 % 256,
       (((v1 * 64 + v2) * 64 + v3) * 64 + v4) % 256] := by
  simp only [decBigChunk, dec_a v1 h1 v2 h2, dec_b v2 h2 v3 h3, dec_c v3 h3 v4 h4, List.cons.injEq, and_true]
  refine ⟨?_, ?_, ?_⟩ <;> omega

theorem decBigTail3_eq (v1 v2 v3 : Nat) (h1 : v1 < 64) (h2 : v2 < 64) (h3 : v3 < 64) :
    decBigTail3 v1 v2 v3 = [((v1 * 64 + v2) * 64 + v3) / 4 / 256 % 256, ((v1 * 64 + v2) * 64 + v3) / 4 % 256] := by
  simp only [decBigTail3, dec_a v1 h1 v2 h2, dec_b v2 h2 v3 h3, List.cons.injEq, and_true]
  refine ⟨?_, ?_⟩ <;> omega

theorem decBigTail2_eq (v1 v2 : Nat) (h1 : v1 < 64) (h2 : v2 < 64) :
    decBigTail2 v1 v2 = [(v1 * 64 + v2) / 16 % 256] := by
  simp only [decBigTail2, dec_a v1 h1 v2 h2, List.cons.injEq, and_true]
  omega

/-- the generated big-endian decoder is the inverse grouping of RFC 4648 on every list of 6-bit values -/
theorem ungroups64_eq_dec6 : ∀ vs : List Nat, (∀ v ∈ vs, v < 64) → vs.length % 4 ≠ 1 → ungroups64 vs = some (dec6 true vs)
  | [], _, _ => rfl
  | [_], _, hl => by simp at hl
  | [v1, v2], h, _ => by
    simp only [ungroups64, dec6, if_true, decBigTail2_eq v1 v2 (h v1 (by simp)) (h v2 (by simp))]
  | [v1, v2, v3], h, _ => by
    simp only [ungroups64, dec6, if_true, decBigTail3_eq v1 v2 v3 (h v1 (by simp)) (h v2 (by simp)) (h v3 (by simp))]
  | v1 :: v2 :: v3 :: v4 :: rest, h, hl => by
    have ih := ungroups64_eq_dec6 rest (fun v hv => h v (by simp [hv])) (by simp only [List.length_cons] at hl; omega)
    simp only [ungroups64, dec6, if_true, ih, Option.map_some,
      decBigChunk_eq v1 v2 v3 v4 (h v1 (by simp)) (h v2 (by simp)) (h v3 (by simp)) (h v4 (by simp))]

theorem ungroups64_none : ∀ vs : List Nat, vs.length % 4 = 1 → ungroups64 vs = none
  | [], hl => by simp at hl
  | [_], _ => rfl
  | [_, _], hl => by simp at hl
  | [_, _, _], hl => by simp at hl
  | v1 :: v2 :: v3 :: v4 :: rest, hl => by
    have ih := ungroups64_none rest (by simp only [List.length_cons] at hl; omega)
    simp only [ungroups64, ih, Option.map_none]

theorem dec6_length (big : Bool) : ∀ vs : List Nat, (dec6 big vs).length = vs.length * 3 / 4
  | [] => rfl
  | [_] => by simp [dec6]
  | [v1, v2] => by cases big <;> simp [dec6, decBigTail2, decLittleTail2]
  | [v1, v2, v3] => by cases big <;> simp [dec6, decBigTail3, decLittleTail3]
  | v1 :: v2 :: v3 :: v4 :: rest => by
    have ih := dec6_length big rest
    have : (if big then decBigChunk v1 v2 v3 v4 else decLittleChunk v1 v2 v3 v4).length = 3 := by
      cases big <;> simp [decBigChunk, decLittleChunk]
    simp only [dec6, List.length_append, this, ih, List.length_cons]; omega

/-! ### characters → 6-bit values -/

theorem decodeAll_eq (cm : List Nat) : ∀ cs : List Nat,
    decodeAll cm cs = if cs.all (cm.contains ·) then some (cs.map (cm.idxOf ·)) else none
  | [] => rfl
  | c :: cs => by
    have ih := decodeAll_eq cm cs
    by_cases hc : c ∈ cm
    · have hlt : cm.idxOf c < cm.length := List.idxOf_lt_length_of_mem hc
      have hcon : cm.contains c = true := by simpa using hc
      by_cases hall : cs.all (cm.contains ·) = true
      · simp only [decodeAll, decode64, hlt, if_true, ih, List.all_cons, hcon, Bool.true_and, List.map_cons, hall]
      · simp only [decodeAll, decode64, hlt, if_true, ih, List.all_cons, hcon, Bool.true_and, List.map_cons, hall,
          Bool.false_eq_true, if_false]
    · have hge : ¬ cm.idxOf c < cm.length := by
        intro hlt; exact hc (List.idxOf_lt_length_iff.1 hlt)
      have hcon : cm.contains c = false := by simpa using hc
      simp only [decodeAll, decode64, hge, if_false, List.all_cons, hcon, Bool.false_and]
      simp

theorem idxOf_lt64 (cs : List Nat) (h : cs.all (Spec.Formats.bcryptAlphabet.contains ·) = true) :
    ∀ v ∈ cs.map (Spec.Formats.bcryptAlphabet.idxOf ·), v < 64 := by
  intro v hv
  obtain ⟨c, hc, rfl⟩ := List.mem_map.1 hv
  have hmem : c ∈ Spec.Formats.bcryptAlphabet := by
    have := List.all_eq_true.1 h c hc
    simpa using this
  have := List.idxOf_lt_length_of_mem hmem
  have hl : Spec.Formats.bcryptAlphabet.length = 64 := by decide
  omega

/-- `bcrypt64.decode_bytes` (length check, character lookup, generated chunk decoder) = the specification's `decode_base64`,
    for every string: same refusals, same bytes -/
theorem decodeBytes_bcrypt64_eq (cs : List Nat) :
    (match decodeBytes Model.B64.bcrypt64 cs with | .ok r => some r | .error _ => none) = Spec.Formats.bcrypt64Decode cs := by
  unfold decodeBytes Spec.Formats.bcrypt64Decode
  rw [decodeAll_eq, bc_charmap, bc_big]
  by_cases hall : cs.all (Spec.Formats.bcryptAlphabet.contains ·) = true
  · simp only [hall, if_true]
    by_cases hl : cs.length % 4 = 1
    · simp only [hl, if_true]
      exact (ungroups64_none _ (by rw [List.length_map]; exact hl)).symm
    · simp only [hl, if_false]
      exact (ungroups64_eq_dec6 _ (idxOf_lt64 cs hall) (by rw [List.length_map]; exact hl)).symm
  · simp only [hall, Bool.false_eq_true, if_false]
    by_cases hl : cs.length % 4 = 1 <;> simp only [hl, if_true, if_false]

theorem decodeBytes_of_spec (cs raw : List Nat) (h : Spec.Formats.bcrypt64Decode cs = some raw) :
    decodeBytes Model.B64.bcrypt64 cs = .ok raw := by
  have := decodeBytes_bcrypt64_eq cs
  rw [h] at this
  cases hd : decodeBytes Model.B64.bcrypt64 cs with
  | ok r => rw [hd] at this; simp only [Option.some.injEq] at this; rw [this]
  | error e => rw [hd] at this; simp at this

theorem decodeBytes_length (cs raw : List Nat) (h : decodeBytes Model.B64.bcrypt64 cs = .ok raw) : raw.length = cs.length * 3 / 4 := by
  unfold decodeBytes at h
  split at h
  · simp at h
  · split at h
    · simp at h
    · rename_i vs hvs
      simp only [Except.ok.injEq] at h
      subst h
      rw [dec6_length]
      rw [decodeAll_eq] at hvs
      split at hvs
      · simp only [Option.some.injEq] at hvs; subst hvs; rw [List.length_map]
      · simp at hvs

/-- `bcrypt64.encode_bytes` = the specification's `encode_base64` -/
theorem encodeBytes_bcrypt64_eq (bs : Bytes) (h : Bytes.WF bs) :
    encodeBytes Model.B64.bcrypt64 bs = Spec.Formats.bcrypt64 bs := by
  unfold encodeBytes Spec.Formats.bcrypt64
  rw [bc_big, Lemmas.B64.enc6_big_eq_rfc bs h, bc_charmap]
  rfl

end Lemmas.C02CodeWrap
