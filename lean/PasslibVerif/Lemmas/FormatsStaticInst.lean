import PasslibVerif.Lemmas.FormatsStatic
/-
The generic lemmas of Lemmas/FormatsStatic.lean instantiated for the registered hashers of the `Static` family.
-/
namespace Lemmas.Formats
open Py Model.Handler Model.Formats Lemmas.Handler Lemmas.PyStr

/-- the ten lower-cased hex digests with their digest length in hex digits -/
def hexLowerFormats : List (Format × Nat) :=
  [(hex_md4, 32), (hex_md5, 32), (hex_sha1, 40), (hex_sha256, 64), (hex_sha512, 128), (nthash, 32), (lmhash, 32),
   (msdcc, 32), (msdcc2, 32), (mysql323, 16)]

theorem hexLowerFormats_spec (fn : Format × Nat) (h : fn ∈ hexLowerFormats) :
    ∃ name, fn.1 = hexLowerFormat name fn.2 ∧ fn.2 ≠ 0 := by
  simp only [hexLowerFormats, List.mem_cons, List.not_mem_nil, or_false] at h
  rcases h with rfl | rfl | rfl | rfl | rfl | rfl | rfl | rfl | rfl | rfl <;> exact ⟨_, rfl, by decide⟩

theorem hexLowerAll_parse_render (fn : Format × Nat) (h : fn ∈ hexLowerFormats) (p : Parsed) (hp : HexLowerWF fn.2 p) :
    fn.1.parse (fn.1.render p) = some p := by
  obtain ⟨name, e, _⟩ := hexLowerFormats_spec fn h
  rw [e]; exact hexLower_parse_render name fn.2 p hp

theorem hexLowerAll_parse_wf (fn : Format × Nat) (h : fn ∈ hexLowerFormats) (s : Str) (p : Parsed)
    (hp : fn.1.parse s = some p) : HexLowerWF fn.2 p ∧ fn.1.render p = pyLower s := by
  obtain ⟨name, e, hn⟩ := hexLowerFormats_spec fn h
  rw [e] at hp ⊢
  exact ⟨(hexLower_parse_wf name fn.2 hn s p hp).1, hexLower_render_parse name fn.2 hn s p hp⟩

theorem hexLowerAll_stable (fn : Format × Nat) (h : fn ∈ hexLowerFormats) (s : Str) (p : Parsed)
    (hp : fn.1.parse s = some p) : fn.1.parse (fn.1.render p) = some p :=
  hexLowerAll_parse_render fn h p (hexLowerAll_parse_wf fn h s p hp).1

theorem hexLowerAll_parse_upper (fn : Format × Nat) (h : fn ∈ hexLowerFormats) (s : Str) (ha : Ascii s) :
    fn.1.parse (pyUpper s) = fn.1.parse s := by
  obtain ⟨name, e, _⟩ := hexLowerFormats_spec fn h
  rw [e]; exact hexLower_parse_upper name fn.2 s ha

theorem hexLowerAll_identify_render (fn : Format × Nat) (h : fn ∈ hexLowerFormats) (p : Parsed) (hp : HexLowerWF fn.2 p) :
    fn.1.identify (fn.1.render p) = true := by
  obtain ⟨name, e, hn⟩ := hexLowerFormats_spec fn h
  rw [e]; exact hexLower_identify_render name fn.2 hn p hp

/-! ### mysql41 / oracle10 -/
theorem star_ascii : Ascii [42] := by intro c hc; simp only [List.mem_singleton] at hc; omega
theorem star_noLower : NoLower [42] := by intro c hc; simp only [List.mem_singleton] at hc; omega
theorem nil_ascii : Ascii [] := by intro c hc; cases hc
theorem nil_noLower : NoLower [] := by intro c hc; cases hc

theorem mysql41_parse_render (p : Parsed) (h : HexUpperWF 40 p) : mysql41.parse (mysql41.render p) = some p :=
  hexUpper_parse_render "mysql41" [42] star_ascii star_noLower 40 p h
theorem mysql41_parse_wf (s : Str) (p : Parsed) (h : mysql41.parse s = some p) :
    HexUpperWF 40 p ∧ pyUpper s = 42 :: p.checksum.getD [] :=
  hexUpper_parse_wf "mysql41" [42] 40 (by decide) s p h
theorem mysql41_parse_lower (s : Str) (ha : Ascii s) : mysql41.parse (pyLower s) = mysql41.parse s :=
  hexUpper_parse_lower "mysql41" [42] 40 s ha

theorem oracle10_parse_render (p : Parsed) (h : HexUpperWF 16 p) : oracle10.parse (oracle10.render p) = some p :=
  hexUpper_parse_render "oracle10" [] nil_ascii nil_noLower 16 p h
theorem oracle10_parse_wf (s : Str) (p : Parsed) (h : oracle10.parse s = some p) :
    HexUpperWF 16 p ∧ pyUpper s = p.checksum.getD [] := by
  have := hexUpper_parse_wf "oracle10" [] 16 (by decide) s p h
  simpa using this
theorem oracle10_parse_lower (s : Str) (ha : Ascii s) : oracle10.parse (pyLower s) = oracle10.parse s :=
  hexUpper_parse_lower "oracle10" [] 16 s ha

/-! ### formats without case normalisation: loss-free in both directions -/
def FixedChk (ident : Str) (n : Nat) (chars : List Nat) (p : Parsed) : Prop :=
  ChkOnly ident (fun c => c.length = n ∧ allIn chars c = true) p

theorem fixed_parse_render (ident pfx : Str) (n : Nat) (chars : List Nat) (p : Parsed) (h : FixedChk ident n chars p) :
    staticParse .keep ident pfx (some n) (some chars) (staticRender pfx p) = some p := by
  obtain ⟨hi, hr, hs, he, c, hc, hl, hx⟩ := h
  exact keep_parse_render ident pfx _ _ p ⟨hi, hr, hs, he, c, hc, normChecksum_ok n chars c hl hx⟩

theorem fixed_parse_wf (ident pfx : Str) (n : Nat) (hn : n ≠ 0) (chars : List Nat) (hcs : chars ≠ []) (s : Str) (p : Parsed)
    (h : staticParse .keep ident pfx (some n) (some chars) s = some p) :
    FixedChk ident n chars p ∧ staticRender pfx p = s := by
  obtain ⟨⟨hi, hr, hs, he, c, hc, hnc⟩, hrd⟩ := keep_parse_wf _ _ _ _ s p h
  obtain ⟨_, hl, hx⟩ := normChecksum_spec n chars c c hn hcs hnc
  exact ⟨⟨hi, hr, hs, he, c, hc, hl, hx⟩, hrd⟩

theorem postgres_md5_parse_render (p : Parsed) (h : FixedChk [] 32 hexChars p) :
    postgres_md5.parse (postgres_md5.render p) = some p := fixed_parse_render [] (ofString "md5") 32 hexChars p h
/-- loss-free: the re-rendered string IS the input (no case folding happens, upper-case digits stay upper-case) -/
theorem postgres_md5_parse_wf (s : Str) (p : Parsed) (h : postgres_md5.parse s = some p) :
    FixedChk [] 32 hexChars p ∧ postgres_md5.render p = s := fixed_parse_wf [] (ofString "md5") 32 (by decide) hexChars hexChars_ne_nil s p h

theorem cisco_pix_parse_render (p : Parsed) (h : FixedChk [] 16 h64 p) :
    cisco_pix.parse (cisco_pix.render p) = some p := fixed_parse_render [] [] 16 h64 p h
theorem cisco_pix_parse_wf (s : Str) (p : Parsed) (h : cisco_pix.parse s = some p) :
    FixedChk [] 16 h64 p ∧ cisco_pix.render p = s := fixed_parse_wf [] [] 16 (by decide) h64 h64_ne_nil s p h
theorem cisco_asa_parse_render (p : Parsed) (h : FixedChk [] 16 h64 p) :
    cisco_asa.parse (cisco_asa.render p) = some p := fixed_parse_render [] [] 16 h64 p h
theorem cisco_asa_parse_wf (s : Str) (p : Parsed) (h : cisco_asa.parse s = some p) :
    FixedChk [] 16 h64 p ∧ cisco_asa.render p = s := fixed_parse_wf [] [] 16 (by decide) h64 h64_ne_nil s p h

/-- ldap_md5 / ldap_sha1 check the alphabet only (there is NO length check in the handler) -/
def LdapB64WF (ident : Str) (p : Parsed) : Prop := ChkOnly ident (fun c => allIn paddedB64 c = true) p

theorem paddedB64_ne_nil : paddedB64 ≠ [] := by decide

theorem ldapB64_parse_render (name : String) (ident : Str) (p : Parsed) (h : LdapB64WF ident p) :
    (ldapB64Format name ident).parse ((ldapB64Format name ident).render p) = some p := by
  obtain ⟨hi, hr, hs, he, c, hc, hx⟩ := h
  refine keep_parse_render ident ident _ _ p ⟨hi, hr, hs, he, c, hc, ?_⟩
  simp [normChecksum, charsOk, hx]

theorem ldapB64_parse_wf (name : String) (ident : Str) (s : Str) (p : Parsed)
    (h : (ldapB64Format name ident).parse s = some p) : LdapB64WF ident p ∧ (ldapB64Format name ident).render p = s := by
  obtain ⟨⟨hi, hr, hs, he, c, hc, hnc⟩, hrd⟩ := keep_parse_wf ident ident none (some paddedB64) s p h
  exact ⟨⟨hi, hr, hs, he, c, hc, (normChecksum_chars_spec paddedB64 paddedB64_ne_nil c c hnc).2⟩, hrd⟩

theorem ldapB64_identify_render (name : String) (ident : Str) (hne : ident ≠ []) (p : Parsed) :
    (ldapB64Format name ident).identify ((ldapB64Format name ident).render p) = true := by
  show identByPrefix ident (ident ++ p.checksum.getD []) = true
  unfold identByPrefix
  rw [prefix_append]
  cases ident with
  | nil => exact absurd rfl hne
  | cons _ _ => rfl

theorem ldap_md5_parse_render (p : Parsed) (h : LdapB64WF (ofString "{MD5}") p) : ldap_md5.parse (ldap_md5.render p) = some p :=
  ldapB64_parse_render _ _ p h
theorem ldap_md5_parse_wf (s : Str) (p : Parsed) (h : ldap_md5.parse s = some p) :
    LdapB64WF (ofString "{MD5}") p ∧ ldap_md5.render p = s := ldapB64_parse_wf _ _ s p h
theorem ldap_sha1_parse_render (p : Parsed) (h : LdapB64WF (ofString "{SHA}") p) : ldap_sha1.parse (ldap_sha1.render p) = some p :=
  ldapB64_parse_render _ _ p h
theorem ldap_sha1_parse_wf (s : Str) (p : Parsed) (h : ldap_sha1.parse s = some p) :
    LdapB64WF (ofString "{SHA}") p ∧ ldap_sha1.render p = s := ldapB64_parse_wf _ _ s p h

/-- django_disabled: `!` + anything -/
theorem django_disabled_parse_render (p : Parsed) (h : ChkOnly [] (fun _ => True) p) :
    django_disabled.parse (django_disabled.render p) = some p := by
  obtain ⟨hi, hr, hs, he, c, hc, _⟩ := h
  refine keep_parse_render [] Gen.Disabled.djangoPrefix none none p ⟨hi, hr, hs, he, c, hc, ?_⟩
  simp [normChecksum, charsOk]

theorem django_disabled_parse_wf (s : Str) (p : Parsed) (h : django_disabled.parse s = some p) :
    ChkOnly [] (fun _ => True) p ∧ django_disabled.render p = s := by
  obtain ⟨⟨hi, hr, hs, he, c, hc, _⟩, hrd⟩ := keep_parse_wf [] Gen.Disabled.djangoPrefix none none s p h
  exact ⟨⟨hi, hr, hs, he, c, hc, trivial⟩, hrd⟩

/-! ### handlers without from_string -/
theorem plaintext_parse (s : Str) : plaintext.parse s = some { checksum := some s } ∧ plaintext.identify s = true := ⟨rfl, rfl⟩
theorem plaintext_render_parse (s : Str) (p : Parsed) (h : plaintext.parse s = some p) : plaintext.render p = s :=
  (whole_parse_wf (fun _ => true) s p h).2

theorem ldap_plaintext_parse_iff (s : Str) (p : Parsed) :
    ldap_plaintext.parse s = some p ↔ (ldap_plaintext.identify s = true ∧ p = { checksum := some s }) := by
  show wholeParse ldapPlaintextIdentify s = some p ↔ (ldapPlaintextIdentify s = true ∧ p = { checksum := some s })
  unfold wholeParse
  constructor
  · intro h
    split at h
    · rename_i hok; exact ⟨hok, (Option.some.inj h).symm⟩
    · cases h
  · rintro ⟨hok, rfl⟩
    rw [if_pos hok]

theorem htdigest_parse_iff (s : Str) (p : Parsed) :
    htdigest.parse s = some p ↔ ((s.length = 32 ∧ allIn lowerHex s = true) ∧ p = { checksum := some s }) := by
  show wholeParse htdigestOk s = some p ↔ _
  unfold wholeParse htdigestOk
  constructor
  · intro h
    split at h
    · rename_i hok
      simp only [Bool.and_eq_true, beq_iff_eq] at hok
      exact ⟨hok, (Option.some.inj h).symm⟩
    · cases h
  · rintro ⟨hok, rfl⟩
    have : (s.length == 32 && allIn lowerHex s) = true := by simp [hok.1, hok.2]
    rw [if_pos this]

theorem unix_disabled_parse_iff (s : Str) (p : Parsed) :
    unix_disabled.parse s = some p ↔ ((s = [] ∨ ∃ c rest, s = c :: rest ∧ (c = 42 ∨ c = 33)) ∧ p = { checksum := some s }) := by
  show wholeParse Model.Disabled.unixIdentify s = some p ↔ _
  unfold wholeParse
  have key : Model.Disabled.unixIdentify s = true ↔ (s = [] ∨ ∃ c rest, s = c :: rest ∧ (c = 42 ∨ c = 33)) := by
    unfold Model.Disabled.unixIdentify
    cases s with
    | nil => simp
    | cons c rest =>
      simp only [List.isEmpty_cons, Bool.false_or, List.head?_cons, reduceCtorEq, false_or, List.cons.injEq, exists_and_left,
        exists_eq', and_true, exists_eq_left']
      have : Gen.Disabled.MARKER_CHARS = [42, 33] := rfl
      rw [this]
      simp
  constructor
  · intro h
    split at h
    · rename_i hok; exact ⟨key.1 hok, (Option.some.inj h).symm⟩
    · cases h
  · rintro ⟨hok, rfl⟩
    rw [if_pos (key.2 hok)]

/-! ### PrefixWrapper instances -/
theorem nil_prefix (s : Str) : ∃ r, s = ([] : Str) ++ r := ⟨s, rfl⟩

theorem bsd_nthash_parse_render (p : Parsed) (h : HexLowerWF 32 p) : bsd_nthash.parse (bsd_nthash.render p) = some p :=
  wrap_parse_render _ _ _ nthash p (hexLower_parse_render "nthash" 32 p h) (nil_prefix _)
theorem bsd_nthash_stable (s : Str) (p : Parsed) (h : bsd_nthash.parse s = some p) : bsd_nthash.parse (bsd_nthash.render p) = some p :=
  wrap_stable _ _ _ nthash (fun s p => hexLower_stable "nthash" 32 (by decide) s p) (fun _ _ _ => nil_prefix _) s p h
theorem ldap_hex_md5_parse_render (p : Parsed) (h : HexLowerWF 32 p) : ldap_hex_md5.parse (ldap_hex_md5.render p) = some p :=
  wrap_parse_render _ _ _ hex_md5 p (hexLower_parse_render "hex_md5" 32 p h) (nil_prefix _)
theorem ldap_hex_md5_stable (s : Str) (p : Parsed) (h : ldap_hex_md5.parse s = some p) :
    ldap_hex_md5.parse (ldap_hex_md5.render p) = some p :=
  wrap_stable _ _ _ hex_md5 (fun s p => hexLower_stable "hex_md5" 32 (by decide) s p) (fun _ _ _ => nil_prefix _) s p h
theorem ldap_hex_sha1_parse_render (p : Parsed) (h : HexLowerWF 40 p) : ldap_hex_sha1.parse (ldap_hex_sha1.render p) = some p :=
  wrap_parse_render _ _ _ hex_sha1 p (hexLower_parse_render "hex_sha1" 40 p h) (nil_prefix _)
theorem ldap_hex_sha1_stable (s : Str) (p : Parsed) (h : ldap_hex_sha1.parse s = some p) :
    ldap_hex_sha1.parse (ldap_hex_sha1.render p) = some p :=
  wrap_stable _ _ _ hex_sha1 (fun s p => hexLower_stable "hex_sha1" 40 (by decide) s p) (fun _ _ _ => nil_prefix _) s p h
theorem roundup_plaintext_parse_render (p : Parsed) (h : ChkOnly [] (fun _ => True) p) :
    roundup_plaintext.parse (roundup_plaintext.render p) = some p := by
  obtain ⟨hi, hr, hs, he, c, hc, _⟩ := h
  exact wrap_parse_render _ _ _ plaintext p (whole_parse_render (fun _ => true) p ⟨hi, hr, hs, he, c, hc, rfl⟩) (nil_prefix _)

theorem ldap_md5_crypt_parse_render (p : Parsed) (h : Md5WF (ofString "$1$") p) :
    ldap_md5_crypt.parse (ldap_md5_crypt.render p) = some p :=
  wrap_parse_render _ _ _ md5_crypt p (md5_parse_render _ p h) (nil_prefix _)
theorem ldap_md5_crypt_stable (s : Str) (p : Parsed) (h : ldap_md5_crypt.parse s = some p) :
    ldap_md5_crypt.parse (ldap_md5_crypt.render p) = some p :=
  wrap_stable _ _ _ md5_crypt (fun s p => md5_render_parse_stable _ s p) (fun _ _ _ => nil_prefix _) s p h
theorem ldap_md5_crypt_identify_render (p : Parsed) (h : p.ident = ofString "$1$") :
    ldap_md5_crypt.identify (ldap_md5_crypt.render p) = true :=
  wrap_identify_render _ _ _ md5_crypt p (md5_identify_render _ (by decide) p h) (nil_prefix _)
theorem ldap_sha256_crypt_parse_render (p : Parsed) (h : Sha2WF (ofString "$5$") 43 p) :
    ldap_sha256_crypt.parse (ldap_sha256_crypt.render p) = some p :=
  wrap_parse_render _ _ _ sha256_crypt p (sha2_parse_render _ 43 (by decide) p h) (nil_prefix _)
theorem ldap_sha512_crypt_parse_render (p : Parsed) (h : Sha2WF (ofString "$6$") 86 p) :
    ldap_sha512_crypt.parse (ldap_sha512_crypt.render p) = some p :=
  wrap_parse_render _ _ _ sha512_crypt p (sha2_parse_render _ 86 (by decide) p h) (nil_prefix _)

/-! ### mssql / ldap_salted instances -/
theorem mssql2000_parse_render (p : Parsed) (h : MssqlWF 40 p) : mssql2000.parse (mssql2000.render p) = some p :=
  mssql_parse_render 94 40 (by decide) p h
theorem mssql2000_parse_wf (s : Str) (p : Parsed) (h : mssql2000.parse s = some p) : MssqlWF 40 p :=
  mssql_parse_wf 94 40 (by decide) s p h
theorem mssql2005_parse_render (p : Parsed) (h : MssqlWF 20 p) : mssql2005.parse (mssql2005.render p) = some p :=
  mssql_parse_render 54 20 (by decide) p h
theorem mssql2005_parse_wf (s : Str) (p : Parsed) (h : mssql2005.parse s = some p) : MssqlWF 20 p :=
  mssql_parse_wf 54 20 (by decide) s p h

/-- the four salted LDAP digests: (format, ident, checksum bytes) -/
def ldapSaltedFormats : List (Format × Str × Nat) :=
  [(ldap_salted_md5, ofString "{SMD5}", 16), (ldap_salted_sha1, ofString "{SSHA}", 20),
   (ldap_salted_sha256, ofString "{SSHA256}", 32), (ldap_salted_sha512, ofString "{SSHA512}", 64)]

theorem ldapSaltedFormats_spec (f : Format × Str × Nat) (h : f ∈ ldapSaltedFormats) :
    ∃ name minChars, f.1 = ldapSaltedFormat name f.2.1 minChars f.2.2 ∧ f.2.2 ≠ 0 ∧ (∀ x ∈ f.2.1, x ≠ 10) ∧ f.2.1 ≠ [] ∧
      minChars ≤ (4 * (f.2.2 + 4) + 2) / 3 := by
  simp only [ldapSaltedFormats, List.mem_cons, List.not_mem_nil, or_false] at h
  rcases h with rfl | rfl | rfl | rfl <;> exact ⟨_, _, rfl, by decide, by decide, by decide, by decide⟩

theorem ldapSaltedAll_parse_render (f : Format × Str × Nat) (h : f ∈ ldapSaltedFormats) (p : Parsed)
    (hp : LdapSaltedWF f.2.1 f.2.2 p) : f.1.parse (f.1.render p) = some p := by
  obtain ⟨name, mc, e, _, hid, _, hmin⟩ := ldapSaltedFormats_spec f h
  rw [e]; exact ldapSalted_parse_render f.2.1 mc f.2.2 hid hmin p hp

theorem ldapSaltedAll_parse_wf (f : Format × Str × Nat) (h : f ∈ ldapSaltedFormats) (s : Str) (p : Parsed)
    (hp : f.1.parse s = some p) : LdapSaltedWF f.2.1 f.2.2 p := by
  obtain ⟨name, mc, e, hcs, _, _, _⟩ := ldapSaltedFormats_spec f h
  rw [e] at hp; exact ldapSalted_parse_wf f.2.1 mc f.2.2 hcs s p hp

theorem ldapSaltedAll_stable (f : Format × Str × Nat) (h : f ∈ ldapSaltedFormats) (s : Str) (p : Parsed)
    (hp : f.1.parse s = some p) : f.1.parse (f.1.render p) = some p :=
  ldapSaltedAll_parse_render f h p (ldapSaltedAll_parse_wf f h s p hp)

theorem ldapSaltedAll_identify_render (f : Format × Str × Nat) (h : f ∈ ldapSaltedFormats) (p : Parsed)
    (hp : p.ident = f.2.1) : f.1.identify (f.1.render p) = true := by
  obtain ⟨name, mc, e, _, _, hne, _⟩ := ldapSaltedFormats_spec f h
  rw [e]; exact ldapSalted_identify_render f.2.1 hne p hp

end Lemmas.Formats
