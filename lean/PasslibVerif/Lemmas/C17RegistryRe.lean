import PasslibVerif.Lemmas.C17Registry
/-
What the generic matcher of Model/Registry.lean says on the pattern read from the source (`^[a-z][a-z0-9_]+[a-z0-9]$`).
-/
namespace Model.Registry

theorem matchPlusLast (cls cls2 : List (Nat × Nat)) : ∀ t : List Nat,
    matchItems t [(cls, true), (cls2, false)] = true ↔
      ∃ mid l, t = mid ++ [l] ∧ mid ≠ [] ∧ (∀ x ∈ mid, inClass cls x = true) ∧ inClass cls2 l = true
  | [] => by simp [matchItems]
  | c :: t => by
    have ih := matchPlusLast cls cls2 t
    simp only [matchItems, if_true, Bool.and_eq_true, Bool.or_eq_true]
    rw [ih]
    constructor
    · rintro ⟨hc, h | h⟩
      · obtain ⟨mid, l, e, _, hm, hl⟩ := h
        refine ⟨c :: mid, l, by simp [e], by simp, ?_, hl⟩
        intro x hx
        rcases List.mem_cons.mp hx with e | hx
        · rw [e]; exact hc
        · exact hm x hx
      · cases t with
        | nil => simp [matchItems] at h
        | cons l u =>
          cases u with
          | nil =>
            simp [matchItems] at h
            exact ⟨[c], l, rfl, by simp, by simpa using hc, h⟩
          | cons _ _ => simp [matchItems] at h
    · rintro ⟨mid, l, e, hne, hm, hl⟩
      cases mid with
      | nil => exact absurd rfl hne
      | cons m mid' =>
        simp at e
        obtain ⟨e1, e2⟩ := e
        subst e1
        refine ⟨hm c (by simp), ?_⟩
        cases mid' with
        | nil => right; subst e2; simp [matchItems, hl]
        | cons m2 mid'' => left; exact ⟨m2 :: mid'', l, e2, by simp, fun x hx => hm x (by simp [hx]), hl⟩

/-- the pattern as read from the source: a lower-case letter, one or more of [a-z0-9_], a final [a-z0-9] -/
theorem matchItems_nameRe (s : Name) : matchItems s Gen.RegistryTables.nameRe = true ↔
    ∃ c mid l, s = c :: (mid ++ [l]) ∧ mid ≠ [] ∧ (97 ≤ c ∧ c ≤ 122) ∧
      (∀ x ∈ mid, (97 ≤ x ∧ x ≤ 122) ∨ (48 ≤ x ∧ x ≤ 57) ∨ x = 95) ∧ ((97 ≤ l ∧ l ≤ 122) ∨ (48 ≤ l ∧ l ≤ 57)) := by
  cases s with
  | nil => simp [matchItems, Gen.RegistryTables.nameRe]
  | cons c t =>
    have h := matchPlusLast [(97, 122), (48, 57), (95, 95)] [(97, 122), (48, 57)] t
    simp only [Gen.RegistryTables.nameRe, matchItems, Bool.false_eq_true, if_false, Bool.and_eq_true]
    rw [h]
    constructor
    · rintro ⟨hc, mid, l, e, hne, hm, hl⟩
      refine ⟨c, mid, l, by rw [e], hne, by simpa [inClass] using hc, ?_, ?_⟩
      · intro x hx
        have := hm x hx
        simp [inClass] at this
        omega
      · simp [inClass] at hl; omega
    · rintro ⟨c', mid, l, e, hne, hc, hm, hl⟩
      simp at e
      obtain ⟨e1, e2⟩ := e
      subst e1
      refine ⟨by simp [inClass]; omega, mid, l, e2, hne, ?_, ?_⟩
      · intro x hx
        have := hm x hx
        simp [inClass]; omega
      · simp [inClass]; omega

end Model.Registry
