import PasslibVerif.Model.VerifyFmt.Static
import PasslibVerif.Lemmas.DigestLen
import PasslibVerif.Lemmas.PbkdfLen
import PasslibVerif.Lemmas.C02Formats
import PasslibVerif.Lemmas.FormatsStaticInst
/-
Shapes of the checksums of the `Static` family: every digest specification returns its fixed number of octets, and the
text encodings (lower / upper hexadecimal, padded base64, hash64) stay within the alphabet the format's `_norm_checksum` demands —
for EVERY input.  These are the facts that make `parse (render …)` succeed on whatever `hash` produces (Props/C01Static.lean).
-/
namespace Lemmas.C01StaticEnc
open Py Model.Handler Model.Formats Lemmas.Formats Lemmas.DigestLen

/-! ### SHA-1 and MD4 output shape (as Lemmas/DigestLen.lean does for MD5 / SHA-256 / SHA-512) -/
theorem sha1_compress_size (H M : Array UInt32) : (Spec.SHA1.compress H M).size = 5 := by
  simp [Spec.SHA1.compress]

theorem sha1_length (msg : List Nat) : (Spec.SHA1.sha1 msg).length = 20 := by
  unfold Spec.SHA1.sha1
  have h := foldl_size Spec.SHA1.compress 5 sha1_compress_size
    (Spec.SHA1.blocks (Spec.SHA1.toWords (Spec.SHA1.pad msg) #[])) Spec.SHA1.H0 (by decide)
  generalize List.foldl Spec.SHA1.compress _ _ = arr at h
  obtain ⟨l⟩ := arr
  simp only [List.size_toArray] at h
  simp only [Spec.SHA1.fromWords]
  match l, h with
  | [a, b, c, d, e], _ => simp

theorem sha1_bytes (msg : List Nat) : Bytes.WF (Spec.SHA1.sha1 msg) := by
  intro x hx
  unfold Spec.SHA1.sha1 Spec.SHA1.fromWords at hx
  simp only [List.mem_flatMap] at hx
  obtain ⟨w, _, hw⟩ := hx
  simp only [List.mem_cons, List.not_mem_nil, or_false] at hw
  rcases hw with rfl | rfl | rfl | rfl <;> exact UInt8.toNat_lt _

theorem md4_compress_size (S X : Array UInt32) : (Spec.MD4.compress S X).size = 4 := by
  simp [Spec.MD4.compress]

theorem md4_length (msg : List Nat) : (Spec.MD4.md4 msg).length = 16 := by
  unfold Spec.MD4.md4
  have h := foldl_size Spec.MD4.compress 4 md4_compress_size
    (Spec.MD4.blocks (Spec.MD4.toWords (Spec.MD4.pad msg) #[])) Spec.MD4.init (by decide)
  generalize List.foldl Spec.MD4.compress _ _ = arr at h
  obtain ⟨l⟩ := arr
  simp only [List.size_toArray] at h
  simp only [Spec.MD4.fromWords]
  match l, h with
  | [a, b, c, d], _ => simp

theorem md4_bytes (msg : List Nat) : Bytes.WF (Spec.MD4.md4 msg) := by
  intro x hx
  unfold Spec.MD4.md4 Spec.MD4.fromWords at hx
  simp only [List.mem_flatMap] at hx
  obtain ⟨w, _, hw⟩ := hx
  simp only [List.mem_cons, List.not_mem_nil, or_false] at hw
  rcases hw with rfl | rfl | rfl | rfl <;> exact UInt8.toNat_lt _

/-! ### hexadecimal -/
theorem hexDigitL_mem : ∀ k, k < 16 → lowerHex.contains (Spec.Formats.hexDigitL k) = true := by decide
theorem hexDigitU_mem : ∀ k, k < 16 → upperHex.contains (Spec.Formats.hexDigitU k) = true := by decide

theorem hexLower_allIn (bs : Bytes) : allIn lowerHex (Spec.Formats.hexLower bs) = true := by
  unfold allIn Spec.Formats.hexLower
  simp only [List.all_flatMap, List.all_cons, List.all_nil, Bool.and_true, List.all_eq_true, Bool.and_eq_true]
  intro x _
  exact ⟨hexDigitL_mem _ (Nat.mod_lt _ (by decide)), hexDigitL_mem _ (Nat.mod_lt _ (by decide))⟩

theorem hexUpper_allIn (bs : Bytes) : allIn upperHex (Spec.Formats.hexUpper bs) = true := by
  unfold allIn Spec.Formats.hexUpper
  simp only [List.all_flatMap, List.all_cons, List.all_nil, Bool.and_true, List.all_eq_true, Bool.and_eq_true]
  intro x _
  exact ⟨hexDigitU_mem _ (Nat.mod_lt _ (by decide)), hexDigitU_mem _ (Nat.mod_lt _ (by decide))⟩

theorem hexLower_length (a : Bytes) : (Spec.Formats.hexLower a).length = 2 * a.length := Lemmas.C02Formats.hexLower_length a

theorem hexUpper_length (a : Bytes) : (Spec.Formats.hexUpper a).length = 2 * a.length := by
  induction a with
  | nil => rfl
  | cons x xs ih =>
    simp only [Spec.Formats.hexUpper, List.flatMap_cons, List.length_append, List.length_cons, List.length_nil] at ih ⊢
    omega

/-- the model's `hexlify(raw).upper()` and the specification's upper-case hexadecimal are the same function -/
theorem hexlifyUpper_eq (bs : Bytes) : hexlifyUpper bs = Spec.Formats.hexUpper bs := rfl

theorem beBytes_length (k n : Nat) : (Spec.Formats.beBytes k n).length = k := by
  simp [Spec.Formats.beBytes]

/-! ### base64 -/
theorem std_sub_padded : ∀ c ∈ Spec.Rfc4648.stdAlphabet, c ∈ paddedB64 := by decide

theorem base64_allIn (d : Bytes) : allIn paddedB64 (Spec.Rfc4648.base64 d) = true := by
  apply allIn_of_mem
  intro c hc
  unfold Spec.Rfc4648.base64 at hc
  rcases List.mem_append.1 hc with h | h
  · exact std_sub_padded c (base64NoPad_alphabet d c h)
  · rw [List.eq_of_mem_replicate h]; decide

/-! ### hash64 of the Cisco digests -/
theorem itoa64_mem : ∀ k, k < 64 → h64.contains (Spec.Formats.itoa64.getD k 0) = true := by decide

theorem ciscoEncode_shape (padded : Bytes) :
    (Spec.Formats.ciscoEncode padded).length = 16 ∧ allIn h64 (Spec.Formats.ciscoEncode padded) = true := by
  unfold Spec.Formats.ciscoEncode Spec.Formats.h64le
  generalize Spec.MD5.md5 padded = d
  have hr : (List.range 16) = [0, 1, 2, 3, 4, 5, 6, 7, 8, 9, 10, 11, 12, 13, 14, 15] := by decide
  simp only [hr, List.filterMap_cons, List.filterMap_nil, Spec.Rfc4648.groups64le, List.map_cons, List.map_nil,
    List.append_nil, List.cons_append, List.nil_append, List.length_cons, List.length_nil, allIn, List.all_cons, List.all_nil,
    Bool.and_true, Bool.and_eq_true]
  simp only [show (0 % 4 = 3) = False by decide, show (1 % 4 = 3) = False by decide, show (2 % 4 = 3) = False by decide,
    show (3 % 4 = 3) = True by decide, show (4 % 4 = 3) = False by decide, show (5 % 4 = 3) = False by decide,
    show (6 % 4 = 3) = False by decide, show (7 % 4 = 3) = True by decide, show (8 % 4 = 3) = False by decide,
    show (9 % 4 = 3) = False by decide, show (10 % 4 = 3) = False by decide, show (11 % 4 = 3) = True by decide,
    show (12 % 4 = 3) = False by decide, show (13 % 4 = 3) = False by decide, show (14 % 4 = 3) = False by decide,
    show (15 % 4 = 3) = True by decide, if_true, if_false]
  simp only [Spec.Rfc4648.groups64le, List.map_cons, List.map_nil, List.append_nil, List.cons_append, List.nil_append,
    List.length_cons, List.length_nil, List.all_cons, List.all_nil, Bool.and_true, Bool.and_eq_true]
  refine ⟨trivial, ?_⟩
  repeat' constructor
  all_goals exact itoa64_mem _ (Nat.mod_lt _ (by decide))

end Lemmas.C01StaticEnc
