import PasslibVerif.Lemmas.B64
import PasslibVerif.Lemmas.Rfc4648
/- b64s / ab64 / b32 helper laws -/
namespace Lemmas.B64
open Py Gen.B64 Model.B64 Spec.Rfc4648 Lemmas.Rfc4648

theorem stdAlphabet_ok : CharmapOK stdAlphabet := by decide

theorem b64s_roundtrip (bs : Bytes) (h : Bytes.WF bs) : b64sDecode (b64sEncode bs) = some (.ok bs) := by
  unfold b64sDecode b64sEncode base64NoPad
  have hl : ((groups64 bs).map (stdAlphabet.getD · 0)).length % 4 ≠ 1 := by
    rw [List.length_map, groups64_length]; omega
  rw [if_neg hl]
  have := decodeAll_map_encode stdAlphabet stdAlphabet_ok (groups64 bs) (groups64_lt64 bs)
  unfold encode64 at this
  rw [this]
  simp only [ungroups64_groups64 bs h]

theorem no_dot_in_std : ∀ c ∈ stdAlphabet, c ≠ 46 := by decide

theorem b64s_no_dot (bs : Bytes) : ∀ c ∈ b64sEncode bs, c ≠ 46 := by
  intro c hc
  unfold b64sEncode base64NoPad at hc
  rcases List.mem_map.1 hc with ⟨v, hv, rfl⟩
  have hv64 := groups64_lt64 bs v hv
  have : v < stdAlphabet.length := by rw [stdAlphabet_ok.1]; exact hv64
  have hm : stdAlphabet.getD v 0 ∈ stdAlphabet := by
    simp only [List.getD, List.getElem?_eq_getElem this, Option.getD_some]; exact List.getElem_mem _
  exact no_dot_in_std _ hm

theorem ab64_roundtrip (bs : Bytes) (h : Bytes.WF bs) : ab64Decode (ab64Encode bs) = some (.ok bs) := by
  unfold ab64Decode ab64Encode
  have : ((b64sEncode bs).map plusToDot).map dotToPlus = b64sEncode bs := by
    rw [List.map_map]
    conv => rhs; rw [← List.map_id (b64sEncode bs)]
    apply List.map_congr_left
    intro c hc
    have := b64s_no_dot bs c hc
    simp only [Function.comp, plusToDot, dotToPlus, id]
    by_cases e : c = 43 <;> simp [e, this]
  rw [this, b64s_roundtrip bs h]

/-- ab64 output is the standard encoding under the alphabet translation '+' -> '.' -/
theorem ab64_alphabet : AB64_CHARS = stdAlphabet.map plusToDot ∧ BASE64_CHARS = stdAlphabet := by decide

/-! base32 -/
theorem b32Alphabet_ok : b32Alphabet.length = 32 ∧ ∀ i, i < 32 → decode64 b32Alphabet (b32Alphabet.getD i 0) = some i := by
  decide

theorem decodeAll_b32 : ∀ vs : List Nat, (∀ v ∈ vs, v < 32) →
    decodeAll b32Alphabet (vs.map (b32Alphabet.getD · 0)) = some vs
  | [], _ => rfl
  | v :: vs, h => by
    have hv : v < 32 := h v (by simp)
    have ih := decodeAll_b32 vs (fun x hx => h x (by simp [hx]))
    simp only [List.map, decodeAll, b32Alphabet_ok.2 v hv, ih]

theorem b32_chars_fixed : ∀ c ∈ b32Alphabet, upper (b32_translate.getD c c) = c ∧ c ≠ 61 := by decide

theorem rstripEq_of_no_eq (s : Bytes) (h : ∀ c ∈ s, c ≠ 61) : rstripEq s = s := by
  unfold rstripEq
  have : s.reverse.dropWhile (· = 61) = s.reverse := by
    cases hr : s.reverse with
    | nil => rfl
    | cons x xs =>
      have hx : x ∈ s := by
        have : x ∈ s.reverse := by rw [hr]; simp
        simpa using this
      simp [List.dropWhile, h x hx]
  rw [this, List.reverse_reverse]

theorem b32_roundtrip (bs : Bytes) (h : Bytes.WF bs) : b32decode (b32encode bs) = .ok bs := by
  unfold b32decode b32encode base32NoPad
  have hmem : ∀ c ∈ (groups32 bs).map (b32Alphabet.getD · 0), c ∈ b32Alphabet := by
    intro c hc
    rcases List.mem_map.1 hc with ⟨v, hv, rfl⟩
    have hv32 := groups32_lt32 bs v hv
    have : v < b32Alphabet.length := by rw [b32Alphabet_ok.1]; exact hv32
    simp only [List.getD, List.getElem?_eq_getElem this, Option.getD_some]; exact List.getElem_mem _
  have hfix : ((groups32 bs).map (b32Alphabet.getD · 0)).map (fun c => upper (b32_translate.getD c c))
      = (groups32 bs).map (b32Alphabet.getD · 0) := by
    conv => rhs; rw [← List.map_id ((groups32 bs).map (b32Alphabet.getD · 0))]
    apply List.map_congr_left
    intro c hc
    exact (b32_chars_fixed c (hmem c hc)).1
  simp only [hfix]
  rw [rstripEq_of_no_eq _ (fun c hc => (b32_chars_fixed c (hmem c hc)).2)]
  simp only [List.length_map, groups32_length]
  have hp : ((8 * bs.length + 4) / 5 + 7) / 8 * 8 - (8 * bs.length + 4) / 5 ∈ [0, 1, 3, 4, 6] := by
    simp only [List.mem_cons, List.not_mem_nil, or_false]; omega
  simp only [hp, not_true_eq_false, if_false, decodeAll_b32 _ (groups32_lt32 bs), ungroups32_groups32 bs h]

/-- typo correction and case folding: 'B'->'8', 'O'->'0' mistypes and lower case decode alike -/
def typo (c : Nat) : Nat := if c = 66 then 56 else if c = 79 then 48 else c
def lower (c : Nat) : Nat := if 65 ≤ c ∧ c ≤ 90 then c + 32 else c

theorem norm_typo_lower : ∀ c, c < 256 →
    upper (b32_translate.getD (typo c) (typo c)) = upper (b32_translate.getD c c) ∧
    upper (b32_translate.getD (lower c) (lower c)) = upper (b32_translate.getD c c) := by decide +kernel

theorem norm_typo_lower_all (c : Nat) :
    upper (b32_translate.getD (typo c) (typo c)) = upper (b32_translate.getD c c) ∧
    upper (b32_translate.getD (lower c) (lower c)) = upper (b32_translate.getD c c) := by
  by_cases h : c < 256
  · exact norm_typo_lower c h
  · have h66 : c ≠ 66 := by omega
    have h79 : c ≠ 79 := by omega
    have ht : typo c = c := by simp [typo, h66, h79]
    have hl : lower c = c := by
      unfold lower
      have : ¬ (65 ≤ c ∧ c ≤ 90) := by omega
      simp [this]
    rw [ht, hl]; exact ⟨rfl, rfl⟩

theorem b32_typo (s : Bytes) : b32decode (s.map typo) = b32decode s := by
  unfold b32decode
  simp only [List.map_map, List.length_map]
  have : (fun c => upper (b32_translate.getD c c)) ∘ typo = fun c => upper (b32_translate.getD c c) := by
    funext c; exact (norm_typo_lower_all c).1
  rw [this]

theorem b32_lower (s : Bytes) : b32decode (s.map lower) = b32decode s := by
  unfold b32decode
  simp only [List.map_map, List.length_map]
  have : (fun c => upper (b32_translate.getD c c)) ∘ lower = fun c => upper (b32_translate.getD c c) := by
    funext c; exact (norm_typo_lower_all c).2
  rw [this]

end Lemmas.B64
