import PasslibVerif.Model.ShaCrypt
import PasslibVerif.Spec.ShaCrypt
/-
passlib's 42-round-block loop (`Model.ShaCrypt.roundsLoop`) equals the specification's naive round loop
(`Spec.ShaCrypt.loop`) for every number of rounds and every digest function `H`, provided the offsets table and
the order of `perms` (taken from the source by the translator) denote the even/odd round constants of the spec.
-/
namespace Lemmas.R42
open Py Gen.ShaCrypt Model.ShaCrypt
open Spec.ShaCrypt (round loop)

/-- symbolic even/odd constants read off the specification's round formula -/
def evenSym (i : Nat) : List PS := (if i % 3 ≠ 0 then [PS.s] else []) ++ (if i % 7 ≠ 0 then [PS.p] else []) ++ [PS.p]
def oddSym (i : Nat) : List PS := [PS.p] ++ (if i % 3 ≠ 0 then [PS.s] else []) ++ (if i % 7 ≠ 0 then [PS.p] else [])

/-- what an (offsets, perms) pair has to satisfy -/
def TableOK (offsets : List (Nat × Nat)) (perms : List (List PS)) : Prop :=
  offsets.map (fun eo => (perms.getD eo.1 [], perms.getD eo.2 []))
    = (List.range 21).map (fun k => (evenSym (2*k), oddSym (2*k+1)))

instance (o p) : Decidable (TableOK o p) := by unfold TableOK; infer_instance

variable (H : Bytes → Bytes) (dp ds : Bytes)

theorem interp_append (a b : List PS) : interp dp ds (a ++ b) = interp dp ds a ++ interp dp ds b := by
  induction a with
  | nil => simp [interp]
  | cons x xs ih => cases x <;> simp [interp, ih, List.append_assoc]

theorem round_even (i : Nat) (h : i % 2 = 0) (dc : Bytes) :
    round H dp ds i dc = H (dc ++ interp dp ds (evenSym i)) := by
  unfold round evenSym
  have h1 : ¬ (i % 2 = 1) := by omega
  simp only [h1, if_false, interp_append]
  congr 1
  by_cases h3 : i % 3 ≠ 0 <;> by_cases h7 : i % 7 ≠ 0 <;> simp [h3, h7, interp, List.append_assoc]

theorem round_odd (i : Nat) (h : i % 2 = 1) (dc : Bytes) :
    round H dp ds i dc = H (interp dp ds (oddSym i) ++ dc) := by
  unfold round oddSym
  simp only [h, if_true, interp_append]
  congr 1
  by_cases h3 : i % 3 ≠ 0 <;> by_cases h7 : i % 7 ≠ 0 <;> simp [h3, h7, interp, List.append_assoc]

theorem round_period (i : Nat) (dc : Bytes) : round H dp ds (i + 42) dc = round H dp ds i dc := by
  unfold round
  have a : (i + 42) % 2 = i % 2 := by omega
  have b : (i + 42) % 3 = i % 3 := by omega
  have c : (i + 42) % 7 = i % 7 := by omega
  rw [a, b, c]

theorem loop_add (a b i : Nat) (dc : Bytes) :
    loop H dp ds (a + b) i dc = loop H dp ds b (i + a) (loop H dp ds a i dc) := by
  induction a generalizing i dc with
  | zero => simp [loop]
  | succ n ih =>
    have : n + 1 + b = (n + b) + 1 := by omega
    rw [this]; simp only [loop]; rw [ih]; congr 1; omega

theorem loop_shift42 (n i : Nat) (dc : Bytes) : loop H dp ds n (i + 42) dc = loop H dp ds n i dc := by
  induction n generalizing i dc with
  | zero => rfl
  | succ n ih =>
    simp only [loop, round_period]
    have : i + 42 + 1 = (i + 1) + 42 := by omega
    rw [this, ih]

theorem loop_shift (n i b : Nat) (dc : Bytes) : loop H dp ds n (i + 42*b) dc = loop H dp ds n i dc := by
  induction b with
  | zero => simp
  | succ b ih =>
    have : i + 42*(b+1) = (i + 42*b) + 42 := by omega
    rw [this, loop_shift42, ih]

/-- spec-side round constants -/
def dataSpec : List (Bytes × Bytes) :=
  (List.range 21).map (fun k => (interp dp ds (evenSym (2*k)), interp dp ds (oddSym (2*k+1))))

theorem data_eq (offsets : List (Nat × Nat)) (perms : List (List PS)) (hT : TableOK offsets perms) :
    dataOf offsets perms dp ds = dataSpec dp ds := by
  unfold dataOf dataSpec
  have h2 := congrArg (List.map (fun (x : List PS × List PS) => (interp dp ds x.1, interp dp ds x.2))) hT
  simpa [List.map_map, Function.comp_def] using h2

theorem dataSpec_length : (dataSpec dp ds).length = 21 := by simp [dataSpec]

theorem dataSpec_get (k : Nat) (hk : k < 21) :
    (dataSpec dp ds).getD k ([],[]) = (interp dp ds (evenSym (2*k)), interp dp ds (oddSym (2*k+1))) := by
  unfold dataSpec
  simp [List.getD, hk]

theorem runPairs_append (a b : List (Bytes × Bytes)) (dc : Bytes) :
    runPairs H (a ++ b) dc = runPairs H b (runPairs H a dc) := by
  simp [runPairs, List.foldl_append]

theorem take_succ_getD {α} (l : List α) (k : Nat) (d : α) (hk : k < l.length) :
    l.take (k+1) = l.take k ++ [l.getD k d] := by
  rw [List.take_succ]
  congr 1
  simp [List.getD, List.getElem?_eq_getElem hk]

theorem pairs_eq (k : Nat) (hk : k ≤ 21) (dc : Bytes) :
    runPairs H ((dataSpec dp ds).take k) dc = loop H dp ds (2*k) 0 dc := by
  induction k with
  | zero => simp [runPairs, loop]
  | succ k ih =>
    have hk' : k < 21 := by omega
    rw [take_succ_getD _ k ([],[]) (by rw [dataSpec_length]; exact hk'), runPairs_append, ih (by omega)]
    have e : 2 * (k+1) = 2*k + 2 := by omega
    rw [e, loop_add, dataSpec_get _ _ _ hk']
    simp only [runPairs, List.foldl, pairStep, loop, Nat.zero_add]
    rw [round_even H dp ds (2*k) (by omega), round_odd H dp ds (2*k+1) (by omega)]

theorem block_eq (dc : Bytes) : runPairs H (dataSpec dp ds) dc = loop H dp ds 42 0 dc := by
  have := pairs_eq H dp ds 21 (by omega) dc
  rwa [List.take_of_length_le (by rw [dataSpec_length]; omega)] at this

theorem blocks_eq (b : Nat) (da : Bytes) :
    iter (runPairs H (dataSpec dp ds)) b da = loop H dp ds (42*b) 0 da := by
  induction b generalizing da with
  | zero => simp [iter, loop]
  | succ b ih =>
    simp only [iter]
    rw [ih, block_eq]
    have : 42*(b+1) = 42 + 42*b := by omega
    rw [this, loop_add]
    have h := loop_shift H dp ds (42*b) 0 1 (loop H dp ds 42 0 da)
    simpa using h.symm

/-- the optimised loop equals the specification loop, for every `rounds` -/
theorem roundsLoop_eq_spec (offsets : List (Nat × Nat)) (perms : List (List PS)) (hT : TableOK offsets perms)
    (rounds : Nat) (da : Bytes) :
    roundsLoop H (dataOf offsets perms dp ds) rounds da = loop H dp ds rounds 0 da := by
  unfold roundsLoop
  have hsr : ∀ n : Nat, n >>> 1 = n / 2 := fun n => by rw [Nat.shiftRight_eq_div_pow]
  simp only [data_eq dp ds offsets perms hT, hsr, Nat.and_one_is_mod]
  have hr : rounds = 42*(rounds/42) + rounds % 42 := by omega
  generalize hb : rounds / 42 = b at *
  generalize ht : rounds % 42 = t at *
  have htlt : t < 42 := by omega
  rw [hr, loop_add, blocks_eq]
  have sh := loop_shift H dp ds t 0 b (loop H dp ds (42*b) 0 da)
  simp only [Nat.zero_add] at sh ⊢
  rw [sh]
  generalize loop H dp ds (42*b) 0 da = dc
  by_cases h0 : t = 0
  · subst h0; simp [loop]
  · simp only [ne_eq, h0, not_false_eq_true, if_true]
    have hp : t / 2 ≤ 21 := by omega
    rw [pairs_eq H dp ds (t/2) hp]
    by_cases hodd : t % 2 = 1
    · have hne : ¬ (t % 2 = 0) := by omega
      simp only [hne, not_false_eq_true, if_true]
      have e : t = 2*(t/2) + 1 := by omega
      conv => rhs; rw [e, loop_add]
      rw [dataSpec_get _ _ _ (by omega)]
      simp only [loop, Nat.zero_add]
      rw [round_even H dp ds (2*(t/2)) (by omega)]
    · have he : t % 2 = 0 := by omega
      simp only [he, not_true_eq_false, if_false]
      have e : t = 2*(t/2) := by omega
      conv => rhs; rw [e]

/-- md5-crypt: 23 blocks and 17 pairs are the 1000 rounds of the reference implementation -/
theorem md5Loop_eq_spec (offsets : List (Nat × Nat)) (perms : List (List PS)) (hT : TableOK offsets perms) (da : Bytes) :
    runPairs H ((dataOf offsets perms dp ds).take 17) (iter (runPairs H (dataOf offsets perms dp ds)) 23 da)
      = loop H dp ds 1000 0 da := by
  have := roundsLoop_eq_spec H dp ds offsets perms hT 1000 da
  rw [← this]
  simp [roundsLoop]

end Lemmas.R42
