import PasslibVerif.Model.Totp
import PasslibVerif.Spec.Hotp
import PasslibVerif.Lemmas.Bits
namespace Lemmas.Hotp
open Py Gen.Totp Model.Totp Digits

theorem toDigits_take (N : Nat) : ∀ (d k v : Nat), (toDigits N (d + k) v).take d = toDigits N d v
  | 0, _, _ => by simp [toDigits]
  | d+1, k, v => by
    have : d + 1 + k = (d + k) + 1 := by omega
    rw [this]
    simp only [toDigits, List.take_succ_cons, toDigits_take N d k (v / N)]

theorem toDigits_mod (N : Nat) (hN : 0 < N) : ∀ (d v : Nat), toDigits N d (v % N ^ d) = toDigits N d v
  | 0, _ => rfl
  | d+1, v => by
    simp only [toDigits]
    have h1 : v % N ^ (d + 1) % N = v % N := by
      rw [Nat.pow_succ]; exact Nat.mod_mul_left_mod v (N ^ d) N
    have h2 : v % N ^ (d + 1) / N = (v / N) % N ^ d := by
      rw [Nat.pow_succ, Nat.mul_comm, Nat.mod_mul_right_div_self]
    rw [h1, h2, toDigits_mod N hN d (v / N)]

/-- `("%0*d" % (digits, value))[-digits:]` is the zero-padded decimal of `value mod 10^digits` -/
theorem renderToken_eq (digits value : Nat) :
    renderToken digits value = (toDigits 10 digits (value % 10 ^ digits)).reverse := by
  unfold renderToken decDigitsPadded
  rw [toDigits_mod 10 (by decide)]
  simp only [List.length_reverse, toDigits_length]
  obtain ⟨k, hk⟩ : ∃ k, max digits (numDigits value) = digits + k := ⟨max digits (numDigits value) - digits, by omega⟩
  rw [hk, ← toDigits_take 10 digits k value]
  have : digits + k - digits = k := by omega
  rw [this]
  generalize hl : toDigits 10 (digits + k) value = l
  have hlen : l.length = digits + k := by rw [← hl, toDigits_length]
  rw [List.drop_reverse]
  congr 2
  omega

theorem renderToken_shape (digits value : Nat) :
    (renderToken digits value).length = digits ∧ ∀ x ∈ renderToken digits value, x < 10 := by
  rw [renderToken_eq]
  refine ⟨by simp [toDigits_length], ?_⟩
  intro x hx
  exact toDigits_lt 10 (by decide) digits _ x (List.mem_reverse.1 hx)

end Lemmas.Hotp

namespace Lemmas.Hotp
open Py Gen.Totp Model.Totp Digits

theorem hotpValue_eq_rfc (digest : Bytes) (hwf : Bytes.WF digest) (hlen : 20 ≤ digest.length) :
    hotpValue digest = Spec.Hotp.dt digest := by
  unfold hotpValue Spec.Hotp.dt
  cases hl : digest.getLast? with
  | none =>
    have : digest = [] := by simpa using hl
    simp [this] at hlen
  | some last =>
    simp only [dtOffset, Bits.and15, dtSliceLen]
    have hoff : last % 16 < 16 := Nat.mod_lt _ (by decide)
    have hdl : (digest.drop (last % 16)).length ≥ 5 := by rw [List.length_drop]; omega
    have hmem : ∀ x ∈ digest.drop (last % 16), x < 256 := fun x hx => hwf x (List.mem_of_mem_drop hx)
    generalize digest.drop (last % 16) = rest at hdl hmem
    match rest, hdl, hmem with
    | p0 :: p1 :: p2 :: p3 :: _ :: _, _, hmem =>
      have h0 := hmem p0 (by simp); have h1 := hmem p1 (by simp)
      have h2 := hmem p2 (by simp); have h3 := hmem p3 (by simp)
      simp only [List.take_succ_cons, List.take_zero, List.length_cons, List.length_nil, if_true, be32,
        List.foldl_cons, List.foldl_nil, dtMask, Bits.and31bit, Option.some.injEq]
      omega

end Lemmas.Hotp
