import PasslibVerif.Model.ClassTable
namespace Lemmas.ClassTable
open Model.ClassTable

theorem getElem?_append_old (t : Table) (e : Entry) (i : Nat) (hi : i < t.length) : (t ++ [e])[i]? = t[i]? := by
  rw [List.getElem?_append_left hi]

/-- resolution on a pre-existing class is unchanged by appending a class -/
theorem resolve_append (t : Table) (hwf : WF t) (e : Entry) :
    ∀ (fuel id : Nat) (a : String), id < t.length → resolve (t ++ [e]) fuel id a = resolve t fuel id a
  | 0, _, _, _ => rfl
  | fuel+1, id, a, hid => by
    simp only [resolve, getElem?_append_old t e id hid]
    cases hg : t[id]? with
    | none => rfl
    | some en =>
      simp only
      cases ownLookup a en.own with
      | some v => rfl
      | none =>
        cases hp : en.parent with
        | none => rfl
        | some p =>
          have hlt := hwf id en hg p hp
          exact resolve_append t hwf e fuel p a (by omega)

theorem derive_wf (t : Table) (hwf : WF t) (parent : Nat) (hp : parent < t.length) (s : Attrs) : WF (derive t parent s).1 := by
  intro i e hg p hpe
  simp only [derive] at hg
  by_cases hi : i < t.length
  · rw [getElem?_append_old t _ i hi] at hg; exact hwf i e hg p hpe
  · have : i = t.length := by
      have := List.getElem?_eq_some_iff.1 hg
      obtain ⟨hlt, _⟩ := this
      simp at hlt; omega
    subst this
    simp at hg; subst hg
    simp at hpe; subst hpe; exact hp

end Lemmas.ClassTable
