import PasslibVerif.Spec.SHA256
import PasslibVerif.Spec.SHA512
import PasslibVerif.Spec.MD5
import PasslibVerif.Spec.SHA1
/-
Output shape of the digest specifications: SHA-256 gives 32 bytes, SHA-512 64, MD5 16, each below 256 —
for every message.
-/
namespace Lemmas.DigestLen

theorem foldl_size {α} (f : Array α → Array α → Array α) (n : Nat) (hf : ∀ a b, (f a b).size = n)
    (l : List (Array α)) (a0 : Array α) (h0 : a0.size = n) : (l.foldl f a0).size = n := by
  induction l generalizing a0 with
  | nil => exact h0
  | cons x xs ih => exact ih _ (hf _ _)

theorem sha256_compress_size (H M : Array UInt32) : (Spec.SHA256.compress H M).size = 8 := by
  simp [Spec.SHA256.compress]

theorem sha256_length (msg : List Nat) : (Spec.SHA256.sha256 msg).length = 32 := by
  unfold Spec.SHA256.sha256 Spec.SHA256.hashBlocks
  have h := foldl_size Spec.SHA256.compress 8 sha256_compress_size
    (Spec.SHA256.blocks (Spec.SHA256.toWords (Spec.SHA256.pad msg) #[])) Spec.SHA256.H0_256 (by decide)
  generalize List.foldl Spec.SHA256.compress _ _ = arr at h
  obtain ⟨l⟩ := arr
  simp only [List.size_toArray] at h
  simp only [Spec.SHA256.fromWords]
  match l, h with
  | [a, b, c, d, e, f, g, hh], _ => simp

theorem sha256_bytes (msg : List Nat) : ∀ x ∈ Spec.SHA256.sha256 msg, x < 256 := by
  intro x hx
  unfold Spec.SHA256.sha256 Spec.SHA256.fromWords at hx
  simp only [List.mem_flatMap] at hx
  obtain ⟨w, _, hw⟩ := hx
  simp only [List.mem_cons, List.not_mem_nil, or_false] at hw
  rcases hw with rfl | rfl | rfl | rfl <;> exact UInt8.toNat_lt _

theorem sha512_compress_size (H M : Array UInt64) : (Spec.SHA512.compress H M).size = 8 := by
  simp [Spec.SHA512.compress]

theorem sha512_length (msg : List Nat) : (Spec.SHA512.sha512 msg).length = 64 := by
  unfold Spec.SHA512.sha512 Spec.SHA512.hashBlocks
  have h := foldl_size Spec.SHA512.compress 8 sha512_compress_size
    (Spec.SHA512.blocks (Spec.SHA512.toWords (Spec.SHA512.pad msg) #[])) Spec.SHA512.H0_512 (by decide)
  generalize List.foldl Spec.SHA512.compress _ _ = arr at h
  obtain ⟨l⟩ := arr
  simp only [List.size_toArray] at h
  simp only [Spec.SHA512.fromWords]
  match l, h with
  | [a, b, c, d, e, f, g, hh], _ => simp

theorem sha512_bytes (msg : List Nat) : ∀ x ∈ Spec.SHA512.sha512 msg, x < 256 := by
  intro x hx
  unfold Spec.SHA512.sha512 Spec.SHA512.fromWords at hx
  simp only [List.mem_flatMap] at hx
  obtain ⟨w, _, hw⟩ := hx
  simp only [List.mem_cons, List.not_mem_nil, or_false] at hw
  rcases hw with rfl | rfl | rfl | rfl | rfl | rfl | rfl | rfl <;> exact UInt8.toNat_lt _

theorem md5_compress_size (S X : Array UInt32) : (Spec.MD5.compress S X).size = 4 := by
  simp [Spec.MD5.compress]

theorem md5_length (msg : List Nat) : (Spec.MD5.md5 msg).length = 16 := by
  unfold Spec.MD5.md5
  have h := foldl_size Spec.MD5.compress 4 md5_compress_size
    (Spec.MD5.blocks (Spec.MD5.toWords (Spec.MD5.pad msg) #[])) Spec.MD5.init (by decide)
  generalize List.foldl Spec.MD5.compress _ _ = arr at h
  obtain ⟨l⟩ := arr
  simp only [List.size_toArray] at h
  simp only [Spec.MD5.fromWords]
  match l, h with
  | [a, b, c, d], _ => simp

theorem md5_bytes (msg : List Nat) : ∀ x ∈ Spec.MD5.md5 msg, x < 256 := by
  intro x hx
  unfold Spec.MD5.md5 Spec.MD5.fromWords at hx
  simp only [List.mem_flatMap] at hx
  obtain ⟨w, _, hw⟩ := hx
  simp only [List.mem_cons, List.not_mem_nil, or_false] at hw
  rcases hw with rfl | rfl | rfl | rfl <;> exact UInt8.toNat_lt _

end Lemmas.DigestLen
