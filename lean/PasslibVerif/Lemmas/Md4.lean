import PasslibVerif.Lemmas.Md4Tables
import PasslibVerif.Lemmas.Md4Stream
import PasslibVerif.Lemmas.Md4Compress
/-
MD4: padding equivalence and the end-to-end theorem  `md4OneShot msg = Spec.MD4.md4 msg`.
-/
namespace Lemmas.Md4
open Model.Md4 Gen.Md4

/-! ### the final block(s) of `digest()` = RFC 1320 §3.1/§3.2 padding -/

/-- `struct.pack("<2I", msglen & MASK_32, (msglen >> 32) & MASK_32)` = the 64-bit little-endian length -/
theorem packLen_eq_le64 (n : Nat) : packWords [lenLo n, lenHi n] = Spec.MD4.le64 n := by
  simp only [packWords, List.flatMap_cons, List.flatMap_nil, wordBytes, lenLo, lenHi, MASK_32, Bits.and32bit,
    Spec.MD4.le64, List.map_cons, List.map_nil, Nat.shiftRight_eq_div_pow, List.append_nil, List.cons_append,
    List.nil_append]
  simp only [List.cons.injEq, and_true]
  refine ⟨?_, ?_, ?_, ?_, ?_, ?_, ?_, ?_⟩ <;> omega

theorem finalBlock_stateOf (msg : List Nat) :
    finalBlock (stateOf msg) =
      rem msg ++ ([0x80] ++ List.replicate ((119 - msg.length % 64) % 64) 0 ++ Spec.MD4.le64 (8 * msg.length)) := by
  have hl : msgLenBits (msg.length / 64) (msg.length % 64) = 8 * msg.length := by
    unfold msgLenBits; omega
  simp only [finalBlock, stateOf, packLen_eq_le64, padZeros, padMarker, rem_length, List.append_assoc, hl]

/-- padded message = everything fed so far, with the final block(s) of `digest()` in place of the leftover -/
theorem pad_eq (msg : List Nat) :
    Spec.MD4.pad msg =
      msg ++ ([0x80] ++ List.replicate ((119 - msg.length % 64) % 64) 0 ++ Spec.MD4.le64 (8 * msg.length)) := by
  simp only [Spec.MD4.pad, List.append_assoc]

theorem le64_length (n : Nat) : (Spec.MD4.le64 n).length = 8 := by simp [Spec.MD4.le64]

/-- `digest()` only ever sees a final block of 64 or 128 bytes (the `assert` in the source) -/
theorem finalBlock_length (msg : List Nat) :
    (finalBlock (stateOf msg)).length = 64 ∨ (finalBlock (stateOf msg)).length = 128 := by
  rw [finalBlock_stateOf]
  simp only [List.length_append, List.length_cons, List.length_nil, List.length_replicate, le64_length, rem_length]
  omega

theorem blocksOf_64 (l : List Nat) (h : l.length = 64) : blocksOf l = [l] := by
  rw [blocksOf_of_ge (by omega), blocksOf_of_lt (by simp only [List.length_drop]; omega),
    List.take_of_length_le (by omega)]

theorem blocksOf_128 (l : List Nat) (h : l.length = 128) : blocksOf l = [l.take 64, l.drop 64] := by
  rw [blocksOf_of_ge (by omega), blocksOf_64 _ (by simp only [List.length_drop]; omega)]

/-- `digest` in closed form: pack the registers after absorbing all blocks of the padded message -/
theorem digest_stateOf (msg : List Nat) :
    digest (stateOf msg) = packWords ((blocksOf (Spec.MD4.pad msg)).foldl process initState) := by
  obtain ⟨h1, _, _⟩ := blocks_append msg
    ([0x80] ++ List.replicate ((119 - msg.length % 64) % 64) 0 ++ Spec.MD4.le64 (8 * msg.length))
  rw [pad_eq, h1, List.foldl_append, ← finalBlock_stateOf]
  unfold digest
  simp only
  rcases finalBlock_length msg with h | h
  · rw [if_neg (by omega), blocksOf_64 _ h]; rfl
  · rw [if_pos h, blocksOf_128 _ h]; rfl

/-! ### words of the blocks (`Spec.MD4.blocks ∘ toWords` vs the model's 64-byte slices) -/

theorem unpackWords_short {l : List Nat} (h : l.length < 4) : unpackWords l = [] := by
  match l, h with
  | [], _ | [_], _ | [_, _], _ | [_, _, _], _ => rfl
  | _ :: _ :: _ :: _ :: _, h => simp at h; omega

theorem unpackWords_length (l : List Nat) : (unpackWords l).length = l.length / 4 := by
  fun_induction unpackWords l with
  | case1 a b c d rest ih => simp only [List.length_cons, ih]; omega
  | case2 l hne =>
    have : l.length < 4 := by
      match l, hne with
      | [], _ | [_], _ | [_, _], _ | [_, _, _], _ => simp
      | a :: b :: c :: d :: r, hne => exact absurd rfl (hne a b c d r)
    simp only [List.length_nil]; omega

theorem unpackWords_drop (k : Nat) (l : List Nat) : unpackWords (l.drop (4 * k)) = (unpackWords l).drop k := by
  induction k generalizing l with
  | zero => rfl
  | succ k ih =>
    match l with
    | a :: b :: c :: d :: rest =>
      rw [show 4 * (k + 1) = 4 * k + 1 + 1 + 1 + 1 by omega]
      simp only [List.drop_succ_cons, unpackWords, ih]
    | [] | [_] | [_, _] | [_, _, _] =>
      rw [unpackWords_short (by simp only [List.length_drop, List.length_cons, List.length_nil]; omega),
        unpackWords_short (by simp)]; rfl

theorem unpackWords_take (k : Nat) (l : List Nat) : unpackWords (l.take (4 * k)) = (unpackWords l).take k := by
  induction k generalizing l with
  | zero => rfl
  | succ k ih =>
    match l with
    | a :: b :: c :: d :: rest =>
      rw [show 4 * (k + 1) = 4 * k + 1 + 1 + 1 + 1 by omega]
      simp only [List.take_succ_cons, unpackWords, ih]
    | [] | [_] | [_, _] | [_, _, _] =>
      rw [unpackWords_short (by simp only [List.length_take, List.length_cons, List.length_nil]; omega),
        unpackWords_short (by simp)]; rfl

theorem blocksN_eq_map (n : Nat) (l : List Nat) :
    blocksN n l = (List.range n).map fun i => (l.drop (64 * i)).take 64 := by
  induction n generalizing l with
  | zero => rfl
  | succ n ih =>
    rw [blocksN, ih, List.range_succ_eq_map, List.map_cons, List.map_map]
    simp only [Nat.mul_zero, List.drop_zero, List.cons.injEq, true_and]
    apply List.map_congr_left
    intro i _
    simp only [Function.comp, List.drop_drop, Nat.succ_eq_add_one]
    congr 2; omega

/-- words of the `i`-th block of the Spec = `struct.unpack` of the `i`-th 64-byte slice -/
theorem block_words (l : List Nat) (W : Array UInt32) (hW : W.toList.map UInt32.toNat = unpackWords l) (i : Nat) :
    unpackWords ((l.drop (64 * i)).take 64) = (W.extract (16 * i) (16 * i + 16)).toList.map UInt32.toNat := by
  rw [show 64 = 4 * 16 by rfl, Nat.mul_assoc, unpackWords_take, unpackWords_drop, ← hW, Array.toList_extract,
    List.extract_eq_take_drop, List.map_take, List.map_drop]
  congr 1; omega

/-! ### end to end -/

theorem foldl_rel {α β ι : Type} (R : α → β → Prop) (f : α → ι → α) (g : β → ι → β) (l : List ι) :
    ∀ (a : α) (b : β), R a b → (∀ i ∈ l, ∀ a b, R a b → R (f a i) (g b i)) →
      R (l.foldl f a) (l.foldl g b) := by
  induction l with
  | nil => intro a b h _; exact h
  | cons x xs ih =>
    intro a b h hs
    exact ih _ _ (hs x (List.mem_cons_self) a b h) (fun i hi => hs i (List.mem_cons_of_mem _ hi))

theorem array4 (S : Array UInt32) (h : S.size = 4) : ∃ a b c d, S = #[a, b, c, d] := by
  obtain ⟨l⟩ := S
  match l, h with
  | [a, b, c, d], _ => exact ⟨a, b, c, d, rfl⟩

theorem fromWords_eq (ws : List UInt32) : Spec.MD4.fromWords ws = packWords (ws.map UInt32.toNat) := by
  unfold Spec.MD4.fromWords packWords
  rw [List.flatMap_map]
  congr 1
  funext w
  simp only [wordBytes, UInt32.toNat_toUInt8, UInt32.toNat_shiftRight, UInt32.toNat_ofNat,
    Nat.shiftRight_eq_div_pow, Nat.reduceMod, Nat.reducePow]

theorem pad_wf (msg : List Nat) (h : ∀ b ∈ msg, b < 256) : ∀ b ∈ Spec.MD4.pad msg, b < 256 := by
  intro b hb
  simp only [Spec.MD4.pad, Spec.MD4.le64, List.mem_append, List.mem_cons, List.not_mem_nil, or_false,
    List.mem_replicate, List.mem_map] at hb
  rcases hb with ((hb | hb) | hb) | hb
  · exact h b hb
  · omega
  · omega
  · obtain ⟨i, _, rfl⟩ := hb; omega

theorem pad_length (msg : List Nat) : (Spec.MD4.pad msg).length % 64 = 0 := by
  rw [pad_eq]
  simp only [List.length_append, List.length_cons, List.length_nil, List.length_replicate, le64_length]
  omega

/-- (d) passlib's pure-python MD4 is RFC 1320 MD4 -/
theorem md4_eq_spec (msg : List Nat) (h : ∀ b ∈ msg, b < 256) : md4OneShot msg = Spec.MD4.md4 msg := by
  have hW := toWords_eq (Spec.MD4.pad msg) #[] (pad_wf msg h)
  simp only [List.map_nil, List.nil_append] at hW
  have hsize : (Spec.MD4.toWords (Spec.MD4.pad msg) #[]).size / 16 = (Spec.MD4.pad msg).length / 64 := by
    have := congrArg List.length hW
    rw [List.length_map, unpackWords_length, ← Array.size_eq_length_toList] at this
    omega
  unfold md4OneShot Spec.MD4.md4
  rw [update_init, digest_stateOf, fromWords_eq, blocksOf, blocksN_eq_map, Spec.MD4.blocks, hsize,
    List.foldl_map, List.foldl_map]
  congr 1
  have key := foldl_rel (fun (regs : List Nat) (S : Array UInt32) => S.size = 4 ∧ regs = S.toList.map UInt32.toNat)
    (fun regs i => process regs (((Spec.MD4.pad msg).drop (64 * i)).take 64))
    (fun S i => Spec.MD4.compress S ((Spec.MD4.toWords (Spec.MD4.pad msg) #[]).extract (16 * i) (16 * i + 16)))
    (List.range ((Spec.MD4.pad msg).length / 64)) initState Spec.MD4.init ⟨rfl, initState_eq_spec⟩
    (by
      intro i _ regs S ⟨hS, hr⟩
      obtain ⟨a, b, c, d, rfl⟩ := array4 S hS
      subst hr
      refine ⟨rfl, ?_⟩
      exact process_words_eq a b c d _ _ (block_words _ _ hW i))
  exact key.2

/-! ### streaming -/

/-- (c) any split: updating with the parts in turn, then `digest()` = one-shot hash of the concatenation -/
theorem md4_streaming (parts : List (List Nat)) :
    digest (parts.foldl update init) = md4OneShot parts.flatten := by
  unfold md4OneShot; rw [updates_eq_stateOf, update_init]

/-- (c) the invariant behind it -/
theorem md4_state_invariant (parts : List (List Nat)) :
    let st := parts.foldl update init
    let total := parts.flatten
    st.count * 64 + st.buf.length = total.length ∧ st.buf.length < 64 ∧
    st.regs = (blocksOf total).foldl process initState ∧
    (blocksOf total).flatten ++ st.buf = total ∧ (blocksOf total).length = st.count ∧
    ∀ b ∈ blocksOf total, b.length = 64 := by
  intro st total
  have hst : st = stateOf total := updates_eq_stateOf parts
  rw [hst]
  refine ⟨?_, rem_length_lt _, rfl, blocks_flatten_rem _, blocksOf_length _, mem_blocksOf_length _⟩
  simp only [stateOf, rem_length]; omega

/-- copy()-then-diverge: the copy and the original evolve independently and like fresh objects
    that were fed the common prefix -/
theorem md4_fork (a b c : List Nat) :
    let h := update init a
    let g := copy h
    digest (update h b) = md4OneShot (a ++ b) ∧ digest (update g c) = md4OneShot (a ++ c) ∧
      digest g = md4OneShot a ∧ digest h = md4OneShot a := by
  intro h g
  have hh : h = stateOf a := update_init a
  have hg : g = stateOf a := by rw [← hh]; exact copy_eq h
  simp only [md4OneShot, update_init, hh, hg, update_stateOf, and_self]

theorem process_length (regs block : List Nat) : (process regs block).length = 4 := by
  simp [process]

theorem packWords_length (ws : List Nat) : (packWords ws).length = 4 * ws.length := by
  induction ws with
  | nil => rfl
  | cons w ws ih =>
    unfold packWords at ih ⊢
    rw [List.flatMap_cons, List.length_append, ih]
    simp only [wordBytes, List.length_cons, List.length_nil]; omega

/-- `digest_size = 16`, whatever the state -/
theorem digest_length (st : State) : (digest st).length = digestSize := by
  unfold digest
  simp only
  split <;> rw [packWords_length, process_length] <;> rfl

theorem digest_wf (st : State) : ∀ b ∈ digest st, b < 256 := by
  intro b hb
  unfold digest packWords at hb
  simp only [List.mem_flatMap, wordBytes, List.mem_cons, List.not_mem_nil, or_false] at hb
  obtain ⟨w, _, hw⟩ := hb
  omega

/-- the `assert len(block) == 64` in `digest()` can never fire -/
theorem digest_final_block_length (parts : List (List Nat)) :
    (finalBlock (parts.foldl update init)).length = 64 ∨ (finalBlock (parts.foldl update init)).length = 128 := by
  rw [updates_eq_stateOf]; exact finalBlock_length _

/-- every way of feeding the bytes gives RFC 1320's digest of the whole message -/
theorem md4_streaming_eq_spec (parts : List (List Nat)) (h : ∀ p ∈ parts, ∀ b ∈ p, b < 256) :
    digest (parts.foldl update init) = Spec.MD4.md4 parts.flatten := by
  rw [md4_streaming]
  exact md4_eq_spec _ (by
    intro b hb
    obtain ⟨p, hp, hbp⟩ := List.mem_flatten.mp hb
    exact h p hp b hbp)

end Lemmas.Md4
