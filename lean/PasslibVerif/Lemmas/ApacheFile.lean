import PasslibVerif.Model.ApacheFile
import PasslibVerif.Lemmas.Apache
/-
Lemmas for Props/C16File.lean: the file system is a finite map; what `save`, `_autosave`, `load`, `load_if_changed` compute.
-/
namespace Lemmas.ApacheFile
open Py Model.Apache Model.ApacheFile Lemmas.Apache

/-! ### the file system as a finite map -/
theorem get_put_self (p : Path) (f : File) : ∀ fs : FS, FS.get p (FS.put p f fs) = some f
  | [] => by simp [FS.put, FS.get]
  | (q, g) :: rest => by
    by_cases h : q = p
    · simp [FS.put, FS.get, h]
    · simp [FS.put, FS.get, h, get_put_self p f rest]

theorem get_put_other (p q : Path) (f : File) (hne : q ≠ p) : ∀ fs : FS, FS.get q (FS.put p f fs) = FS.get q fs
  | [] => by simp [FS.put, FS.get, Ne.symm hne]
  | (r, g) :: rest => by
    by_cases h : r = p
    · subst h; simp [FS.put, FS.get, Ne.symm hne]
    · by_cases h2 : r = q
      · subst h2; simp [FS.put, FS.get, h]
      · simp [FS.put, FS.get, h, h2, get_put_other p q f hne rest]

theorem get_remove_self (p : Path) : ∀ fs : FS, FS.get p (FS.remove p fs) = none
  | [] => by simp [FS.remove, FS.get]
  | (q, g) :: rest => by
    by_cases h : q = p
    · simp [FS.remove, h, get_remove_self p rest]
    · simp [FS.remove, FS.get, h, get_remove_self p rest]

theorem get_remove_other (p q : Path) (hne : q ≠ p) : ∀ fs : FS, FS.get q (FS.remove p fs) = FS.get q fs
  | [] => by simp [FS.remove, FS.get]
  | (r, g) :: rest => by
    by_cases h : r = p
    · subst h; simp [FS.remove, FS.get, Ne.symm hne, get_remove_other r q hne rest]
    · by_cases h2 : r = q
      · subst h2; simp [FS.remove, FS.get, h]
      · simp [FS.remove, FS.get, h, h2, get_remove_other p q hne rest]

/-! ### write / getmtime -/
theorem get_writeFile_self (w : World) (p : Path) (c : Bytes) : (writeFile w p c).fs.get p = some ⟨c, w.now⟩ := by
  simp [writeFile, get_put_self]

theorem get_writeFile_other (w : World) (p q : Path) (c : Bytes) (h : q ≠ p) : (writeFile w p c).fs.get q = w.fs.get q := by
  simp [writeFile, get_put_other p q _ h]

theorem now_writeFile (w : World) (p : Path) (c : Bytes) : (writeFile w p c).now = w.now := rfl

theorem getmtime_writeFile (w : World) (p : Path) (c : Bytes) : getmtime (writeFile w p c) p = .ok w.now := by
  simp [getmtime, get_writeFile_self]

theorem getmtime_of_get (w : World) (p : Path) (f : File) (h : w.fs.get p = some f) : getmtime w p = .ok f.mtime := by
  simp [getmtime, h]

/-! ### save / autosave -/
theorem save_bound (w : World) (o : Obj) (p : Path) (hp : o.path = some p) :
    save w o none = (writeFile w p (toString o.st), { o with mtime := w.now }, .unit) := by
  simp [save, hp, getmtime_writeFile]

theorem save_unbound (w : World) (o : Obj) (hp : o.path = none) : save w o none = (w, o, .err (.py .runtimeError)) := by
  simp [save, hp]

theorem autosave_on (w : World) (o : Obj) (p : Path) (ha : o.autosave = true) (hp : o.path = some p) :
    autosaveStep w o = (writeFile w p (toString o.st), { o with mtime := w.now }) := by
  simp [autosaveStep, ha, hp, save_bound w o p hp]

theorem autosave_off (w : World) (o : Obj) (h : o.autosave = false ∨ o.path = none) : autosaveStep w o = (w, o) := by
  rcases h with h | h <;> simp [autosaveStep, h]

/-- whatever `_autosave` does, it never touches the records, the binding or the flag -/
theorem autosave_frame (w : World) (o : Obj) :
    (autosaveStep w o).2.st = o.st ∧ (autosaveStep w o).2.path = o.path ∧ (autosaveStep w o).2.autosave = o.autosave := by
  by_cases ha : o.autosave = true
  · cases hp : o.path with
    | none => simp [autosave_off w o (Or.inr hp), hp]
    | some p => simp [autosave_on w o p ha hp, hp]
  · have : o.autosave = false := by simpa using ha
    simp [autosave_off w o (Or.inl this)]

/-! ### load -/
theorem loadLinesInto_ok (digest : Bool) (o : Obj) (d : Bytes) (a : Ans) (st : St) (h : loadString digest d = .ok st) :
    loadLinesInto digest o d a = ({ o with st := st }, a) := by simp [loadLinesInto, h]

theorem loadLinesInto_err (digest : Bool) (o : Obj) (d : Bytes) (a : Ans) (e : ErrKind) (h : loadString digest d = .error e) :
    loadLinesInto digest o d a = (o, .err (.py e)) := by simp [loadLinesInto, h]

/-- the records after `_load_lines`: the parse of the data, or (on a parse error) the old ones -/
theorem loadLinesInto_st (digest : Bool) (o : Obj) (d : Bytes) (a : Ans) :
    (loadLinesInto digest o d a).1.st = (match loadString digest d with | .ok st => st | .error _ => o.st) ∧
    (loadLinesInto digest o d a).1.path = o.path ∧ (loadLinesInto digest o d a).1.mtime = o.mtime ∧
    (loadLinesInto digest o d a).1.autosave = o.autosave := by
  cases h : loadString digest d <;> simp [loadLinesInto, h]

theorem load_bound (digest : Bool) (w : World) (o : Obj) (p : Path) (f : File) (hp : o.path = some p) (hf : w.fs.get p = some f) :
    load digest w o none = loadLinesInto digest { o with mtime := f.mtime } f.content (.bool true) := by
  simp [load, hp, hf, getmtime]

theorem load_bound_missing (digest : Bool) (w : World) (o : Obj) (p : Path) (hp : o.path = some p) (hf : w.fs.get p = none) :
    load digest w o none = (o, .err .osError) := by
  simp [load, hp, hf]

theorem inv_loadLinesInto (digest : Bool) (o : Obj) (d : Bytes) (a : Ans) (h : Inv o.st) : Inv (loadLinesInto digest o d a).1.st := by
  cases hl : loadString digest d with
  | ok st => simp [loadLinesInto, hl]; exact inv_load digest _ st hl
  | error e => simp [loadLinesInto, hl]; exact h

theorem inv_load_file (digest : Bool) (w : World) (o : Obj) (p : Option Path) (h : Inv o.st) : Inv (load digest w o p).1.st := by
  cases p with
  | some p =>
    cases hf : w.fs.get p with
    | none => simp [load, hf]; exact h
    | some f => simp only [load, hf]; exact inv_loadLinesInto digest _ _ _ h
  | none =>
    cases hp : o.path with
    | none => simp [load, hp]; exact h
    | some p =>
      cases hf : w.fs.get p with
      | none => simp [load, hp, hf]; exact h
      | some f => rw [load_bound digest w o p f hp hf]; exact inv_loadLinesInto digest _ _ _ h

theorem inv_loadIfChanged (digest : Bool) (w : World) (o : Obj) (h : Inv o.st) : Inv (loadIfChanged digest w o).1.st := by
  unfold loadIfChanged
  cases hp : o.path with
  | none => exact h
  | some p =>
    simp only
    split
    · cases hm : getmtime w p with
      | error e => exact h
      | ok m =>
        simp only
        split
        · exact h
        · exact inv_load_file digest w o none h
    · exact inv_load_file digest w o none h

theorem inv_construct (digest : Bool) (w : World) (path : Option Path) (new autosave : Bool) (o : Obj)
    (h : construct digest w path new autosave = .ok o) : Inv o.st := by
  unfold construct at h
  simp only at h
  split at h
  · have hi := inv_load_file digest w ⟨St.empty, path, 0, autosave⟩ none inv_empty
    generalize hl : load digest w ⟨St.empty, path, 0, autosave⟩ none = r at h hi
    rcases r with ⟨o', a⟩
    cases a <;> simp at h <;> (try subst h) <;> exact hi
  · cases h; exact inv_empty

/-! ### check_password with the "stored an upgrade" flag is the check_password of Model.Apache -/
theorem checkPasswordU_fst (vau : Bytes → Bytes → Bool × Option Bytes) (s : St) (u p : Bytes) :
    (checkPasswordU vau s u p).map (fun r => (r.1, r.2.1)) = checkPassword vau s u p := by
  unfold checkPasswordU checkPassword
  cases encodeKey u none with
  | error e => rfl
  | ok k =>
    simp only
    cases lookup k s.records with
    | none => rfl
    | some h =>
      simp only
      rcases hv : vau p h with ⟨ok, new⟩
      cases ok <;> cases new <;> rfl

theorem checkPasswordU_step (digest : Bool) (vau : Bytes → Bytes → Bool × Option Bytes) (s : St) (u p : Bytes) :
    (match checkPasswordU vau s u p with | .ok r => r.1 | .error _ => s) = Model.Apache.step digest vau s (.check u p) := by
  have := checkPasswordU_fst vau s u p
  simp only [Model.Apache.step, ← this]
  cases checkPasswordU vau s u p <;> rfl

/-- without the flag nothing was stored -/
theorem checkPasswordU_noflag (vau : Bytes → Bytes → Bool × Option Bytes) (s st' : St) (u p : Bytes) (r : Option Bool)
    (h : checkPasswordU vau s u p = .ok (st', r, false)) : st' = s := by
  unfold checkPasswordU at h
  cases hk : encodeKey u none with
  | error e => simp [hk] at h
  | ok k =>
    simp only [hk] at h
    cases hl : lookup k s.records with
    | none => simp [hl] at h; exact h.1.symm
    | some hh =>
      simp only [hl] at h
      rcases hv : vau p hh with ⟨ok, new⟩
      rw [hv] at h
      cases ok <;> cases new <;> simp at h <;> exact h.1.symm

end Lemmas.ApacheFile
